(* sched: runs the intern-table transition system on thread programs + schedules *)
open Model
open Mcommon

(* ------------------------------------------------------------------ sched (intern table) *)
let parse_sched_case lines =
  let alpha = ref 2 and progs = ref [] and sched = ref [] in
  List.iter (fun l ->
    let t = toks_of_line l in
    match word t with
    | "alpha" -> alpha := num t
    | "prog" ->
      let _ = num t in
      let ops = ref [] in
      while t.i < Array.length t.v do
        (match word t with
         | "N" -> let c = num t in let k = num t in ops := INew (nat_of_int c, nat_of_int k) :: !ops
         | "C" -> let a = num t in let b = num t in ops := IClone (nat_of_int a, nat_of_int b) :: !ops
         | _ -> let k = num t in ops := IDrop (nat_of_int k) :: !ops)
      done;
      progs := List.rev !ops :: !progs
    | "sched" ->
      while t.i < Array.length t.v do sched := num t :: !sched done
    | _ -> ()) lines;
  (!alpha, List.rev !progs, List.rev !sched)

let sched_obs alpha s =
  let b = Buffer.create 128 in
  Buffer.add_string b (Printf.sprintf "len=%d" (int_of_nat (table_len s.t_g (nat_of_int alpha))));
  let classes = ref [] in
  List.iteri (fun ti t ->
    Buffer.add_string b (Printf.sprintf " | t%d:" ti);
    let slots = List.sort compare (List.map (fun (k, bf) -> (int_of_nat k, int_of_nat bf)) t.t_slots) in
    List.iter (fun (k, bf) ->
      let id = match List.assoc_opt bf !classes with
        | Some i -> i
        | None -> let i = List.length !classes in classes := (bf, i) :: !classes; i in
      Buffer.add_string b (Printf.sprintf " s%d=c%d#%d" k (int_of_nat (s.t_g.hashof (nat_of_int bf))) id)) slots) s.t_thrs;
  Buffer.contents b

let run_sched fixed path out =
  let oc = open_out out in
  List.iter (fun (id, lines) ->
    Printf.fprintf oc "case %s\n" id;
    let (alpha, progs, sched) = parse_sched_case lines in
    let nt = List.length progs in
    let s = ref (tinit progs) in
    let do_step tid =
      match tstep fixed !s (nat_of_int tid) with
      | Some s' -> s := s'; output_string oc (sched_obs alpha !s ^ "\n"); true
      | None -> false in
    List.iter (fun tid -> if not (do_step tid) then output_string oc "SKIP\n") sched;
    for tid = 0 to nt - 1 do
      while do_step tid do () done
    done;
    Printf.fprintf oc "final len=%d\n" (int_of_nat (table_len !s.t_g (nat_of_int alpha)));
    output_string oc "end\n") (read_cases path);
  close_out oc


let cli = function
  | "sched" :: fixed :: path :: out :: _ -> run_sched (fixed = "fixed") path out; true
  | _ -> false
