(* lookup: runs the extracted Db.find_desc_bin / Db.find_desc_xml on the extracted Gen/Database.database for the
   (class, property name) queries written by `rbxverif lookup-gen`, printing exactly the observation lines of
   `rbxverif lookup-run`.  Uses the self-contained unit Dbmodel (Extract/ExtractDb.v); no model logic here: only
   string conversion and printing. *)
module D = Dbmodel

let ascii_of_char c =
  let n = Char.code c in
  let b i = (n lsr i) land 1 = 1 in
  D.Ascii (b 0, b 1, b 2, b 3, b 4, b 5, b 6, b 7)

let coq_string (s : String.t) : D.string =
  let r = ref D.EmptyString in
  for i = String.length s - 1 downto 0 do r := D.String (ascii_of_char s.[i], !r) done;
  !r

let char_of_ascii (D.Ascii (b0, b1, b2, b3, b4, b5, b6, b7)) =
  let v b k = if b then 1 lsl k else 0 in
  Char.chr (v b0 0 + v b1 1 + v b2 2 + v b3 3 + v b4 4 + v b5 5 + v b6 6 + v b7 7)

let ocaml_string (s : D.string) : String.t =
  let b = Buffer.create 32 in
  let rec go = function D.EmptyString -> () | D.String (a, r) -> Buffer.add_char b (char_of_ascii a); go r in
  go s; Buffer.contents b

let rec int_of_pos = function D.XH -> 1 | D.XO p -> 2 * int_of_pos p | D.XI p -> 2 * int_of_pos p + 1
let int_of_n = function D.N0 -> 0 | D.Npos p -> int_of_pos p

let ty (p : D.pdesc) = match p.D.pd_type with
  | D.DValue n -> Printf.sprintf "V%d" (int_of_n n)
  | D.DEnum e -> "E" ^ ocaml_string e
let desc (p : D.pdesc) = ocaml_string p.D.pd_name ^ ":" ^ ty p

let obs_bin cn pn = match D.find_desc_bin D.database cn pn with
  | D.Ok None -> "-"
  | D.Ok (Some (c, None)) -> desc c ^ "|-"
  | D.Ok (Some (c, Some s)) -> desc c ^ "|" ^ desc s
  | D.Panic -> "PANIC"
  | D.OutOfFuel -> "FUEL"
  | D.Err _ -> "ERR"

let obs_xml cn pn = match D.find_desc_xml D.database cn pn with
  | D.Ok None -> "-"
  | D.Ok (Some (c, s)) -> desc c ^ "|" ^ desc s
  | D.Panic -> "PANIC"
  | D.OutOfFuel -> "FUEL"
  | D.Err _ -> "ERR"

let obs_default cn pn = match D.default_obs D.database cn pn with
  | D.Ok None -> "noclass"
  | D.Ok (Some None) -> "-"
  | D.Ok (Some (Some (o, vt))) -> Printf.sprintf "%s:V%d" (ocaml_string o) (int_of_n vt)
  | D.Panic -> "PANIC"
  | D.OutOfFuel -> "FUEL"
  | D.Err _ -> "ERR"

let obs_chain cn = match D.chain_obs D.database cn with
  | None -> "noclass"
  | Some l -> String.concat ">" (List.map ocaml_string l)

let strip_prefix pre l =
  let n = String.length pre in
  if String.length l >= n && String.sub l 0 n = pre then Some (String.sub l n (String.length l - n)) else None

let run path out =
  let oc = open_out out in
  List.iter (fun (id, lines) ->
    Printf.fprintf oc "case %s\n" id;
    let cls = ref D.EmptyString in
    List.iter (fun l ->
      match strip_prefix "class " l with
      | Some c -> cls := coq_string c; Printf.fprintf oc "S %s\n" (obs_chain !cls)
      | None ->
        (match strip_prefix "p " l with
         | Some p -> let pn = coq_string p in Printf.fprintf oc "B %s X %s D %s\n" (obs_bin !cls pn) (obs_xml !cls pn) (obs_default !cls pn)
         | None -> ())) lines;
    output_string oc "end\n") (Mcommon.read_cases path);
  close_out oc

let cli = function
  | "lookup" :: path :: out :: _ -> run path out; true
  | _ -> false
