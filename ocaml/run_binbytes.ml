(* binbytes: runs the extracted decoder model (BinFile.decode_file) on the byte strings written by
   `rbxverif binbytes-gen` and prints the observation lines of `rbxverif binbytes-run`:
   `OK` + the decoded DOM (UniqueId values masked), `ERR <class>`, `PANIC`; a second line `BIGALLOC`
   when the same decode under an allocation limit of 64 MiB ends in E_ALLOC (an input field asked for more
   memory than that: the implementation may abort there).  Inflate results of compressed chunks come
   from the hints file `<cases>.hints`.
     modelrun binbytes <real|empty> CASES OUT *)
open Model
open Mcommon
open Mvalue
open Mforest

let case_bytes lines =
  let r = ref [] in
  List.iter (fun l ->
    if String.length l > 6 && String.sub l 0 6 = "bytes " then
      r := bytes_of_hex (String.trim (String.sub l 6 (String.length l - 6)))) lines;
  !r

type inflate = IOk of n list | IErrEof | IErrIo | IBig

let parse_hints lines =
  List.filter_map (fun l ->
    let t = toks_of_line l in
    if Array.length t.v > 0 && word t = "inflate" then begin
      let comp = tbytes t in
      let len = tn t in
      let r = (match word t with
        | "OK" -> IOk (tbytes t)
        | "BIG" -> IBig
        | "ERR" -> (match word t with "eof" -> IErrEof | _ -> IErrIo)
        | _ -> IErrIo) in
      Some ((comp, len), r)
    end else None) lines

exception No_hint

let mask_uid (d : cdom) : cdom =
  let uid_name = bytes_of_hex "556e697175654964" in
  List.map (fun x ->
    let ((((r, p), c), nm), ps) = inst_fields x in
    mk_inst r p c nm (List.map (fun (k, v) ->
      match v with
      | VUniqueId _ when k = uid_name -> (k, Mbin.fresh_uid)
      | _ -> (k, v)) ps)) d

let run dbmode cases out =
  let db = if dbmode = "empty" then Mbin.empty_db else Lazy.force Mbin.real_db in
  let hints_tbl = Hashtbl.create 64 in
  (try List.iter (fun (id, ls) -> Hashtbl.replace hints_tbl id ls) (read_cases (cases ^ ".hints"))
   with Sys_error _ -> ());
  let oc = open_out out in
  let big = n_of_hex "4000000" in
  List.iter (fun (id, lines) ->
    Printf.fprintf oc "case %s\n" id;
    (try
      let b = case_bytes lines in
      let hints = parse_hints (try Hashtbl.find hints_tbl id with Not_found -> []) in
      let inflate comp len =
        match List.assoc_opt (comp, len) hints with
        | Some (IOk d) -> Some d
        | Some IErrEof -> Some (if len = N0 then [N0] else [])     (* a result whose length differs from len *)
        | Some IErrIo -> None
        | Some IBig -> None
        | None -> raise No_hint in
      let dp lim = { dp_font = font_migration_table; dp_brick = brick_color_table;
                     dp_inflate = inflate; dp_fresh_uid = Mbin.fresh_uid; dp_lim = lim } in
      (match decode_file db (dp None) b with
       | Ok d ->
         output_string oc "OK\n";
         let bf = Buffer.create 1024 in
         print_dom bf (mask_uid d);
         output_string oc (Buffer.contents bf)
       | Err c -> Printf.fprintf oc "ERR %s\n" (Mbin.dec_class c)
       | Panic -> output_string oc "PANIC\n"
       | OutOfFuel -> output_string oc "FUEL\n");
      (match decode_file db (dp (Some big)) b with
       | Err c when int_of_n c = 13 -> output_string oc "BIGALLOC\n"
       | _ -> ())
    with
    | No_hint -> output_string oc "MODELFAIL no-inflate-hint\n"
    | Failure m -> Printf.fprintf oc "MODELFAIL %s\n" m);
    output_string oc "end\n") (read_cases cases);
  close_out oc

let cli = function
  | "binbytes" :: dbmode :: cases :: out :: _ -> run dbmode cases out; true
  | _ -> false
