(* xmlchannel: runs the extracted `channel` (Model/XmlEvents.v) on write-event lists *)
open Model
open Mcommon
open Mxml

let run path out =
  let oc = open_out out in
  List.iter (fun (id, lines) ->
    Printf.fprintf oc "case %s\n" id;
    (match (try Some (List.map parse_wevent lines) with Failure _ -> None) with
     | None -> output_string oc "BADCASE\n"
     | Some evs ->
       (match channel evs with
        | Ok revs -> output_string oc "OK\n"; List.iter (fun e -> output_string oc (revent_line e ^ "\n")) revs
        | Panic -> output_string oc "PANIC\n"
        | Err _ -> output_string oc "ERR\n"
        | OutOfFuel -> output_string oc "OUTOFFUEL\n"));
    output_string oc "end\n") (read_cases path);
  close_out oc

let cli = function
  | "xmlchannel" :: path :: out :: _ -> run path out; true
  | _ -> false
