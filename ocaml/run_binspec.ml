(* binspec: runs the extracted document codec of the binary format (coq/Spec/BinSpec.v, Spec/Lz4.v) for the
   cases of `rbxverif binspec-gen` (see harness/src/binspec.rs):
     modelrun binspec CASES OUT          (reads CASES.hints written by `rbxverif binspec-run`)
   C03 cases (forest cases): the implementation's files (hints `file <comp> <hex>`) are decoded by
   bspec_decode_gen under the literal and the amended reading; Zstandard frames are looked up in the hints
   (`zstd <compressed> <inflated>`), LZ4 blocks are inflated by the extracted Lz4.lz4_decode.  Printed:
     dec <comp> <reading> OK / node.. prop.. / enddom  |  dec <comp> <reading> ERR <code>  |  dec .. SAME <comp> <reading>
     clauses <comp> <name>=<0|1> ...
     sstr-entry <md5-field-hex> <content-hex>      (uncompressed file only; the MD5 field is checked by the Python handler)
     nofiles                                       (the serializer returned Err for this DOM under every compression)
   C04 cases (`opt mode c04`: a logical file + choices):
     wf <bs_wf> <bs_doc_wf> / bytes literal <hex>|SAME / bytes amended <hex> / bytes only-<amendment> <hex>|SAME (the amended
     reading with one amendment withdrawn) / chunks <n> (<name> <payload>)* /
     rt <reading> OK|DIFF|ERR <code> / dom OK .. enddom | dom ERR <code>
   No model logic here: parsing, printing and calling the extracted functions. *)
open Model
open Mcommon
open Mvalue
open Mforest

let tbool t = match word t with "0" -> false | "1" -> true | w -> failwith ("bool token " ^ w)
let tnat t = nat_of_int (tcount t)

let parse_column (t : toks) : bs_column =
  let ty = tcount t in
  let n = tcount t in
  let rep f = times n f in
  let f32 () = tn t in
  match ty with
  | 0x01 -> KString (rep (fun () -> tbytes t))
  | 0x1d -> KBytecode (rep (fun () -> tbytes t))
  | 0x02 -> KBool (rep (fun () -> tbool t))
  | 0x03 -> KInt32 (rep (fun () -> tz t))
  | 0x04 -> KFloat32 (rep f32)
  | 0x05 -> KFloat64 (rep f32)
  | 0x06 -> KUDim (rep (fun () -> tudim t))
  | 0x07 -> KUDim2 (rep (fun () -> let x = tudim t in let y = tudim t in (x, y)))
  | 0x08 -> KRay (rep (fun () -> let o = tv3 t in let d = tv3 t in (o, d)))
  | 0x09 -> KFaces (rep f32)
  | 0x0a -> KAxes (rep f32)
  | 0x0b -> KBrickColor (rep f32)
  | 0x0c -> KColor3 (rep (fun () -> tv3 t))
  | 0x0d -> KVector2 (rep (fun () -> tv2 t))
  | 0x0e -> KVector3 (rep (fun () -> tv3 t))
  | 0x10 -> KCFrame (rep (fun () -> tcf t))
  | 0x12 -> KEnum (rep f32)
  | 0x13 -> KReferent (rep (fun () -> tz t))
  | 0x14 -> KVector3int16 (rep (fun () -> tz3 t))
  | 0x15 -> KNumberSequence (rep (fun () ->
      let k = tcount t in times k (fun () -> let a = f32 () in let b = f32 () in let c = f32 () in ((a, b), c))))
  | 0x16 -> KColorSequence (rep (fun () ->
      let k = tcount t in times k (fun () -> let a = f32 () in let c = tv3 t in let e = f32 () in ((a, c), e))))
  | 0x17 -> KNumberRange (rep (fun () -> let a = f32 () in let b = f32 () in (a, b)))
  | 0x18 -> KRect (rep (fun () -> let a = tv2 t in let b = tv2 t in (a, b)))
  | 0x19 -> KPhysicalProperties (rep (fun () ->
      match word t with
      | "0" -> None
      | "1" -> let d = f32 () in let f = f32 () in let e = f32 () in let fw = f32 () in let ew = f32 () in
        Some { ph_density = d; ph_friction = f; ph_elasticity = e; ph_friction_weight = fw; ph_elasticity_weight = ew }
      | w -> failwith ("phys selector " ^ w)))
  | 0x1a -> KColor3uint8 (rep (fun () -> let a = f32 () in let b = f32 () in let c = f32 () in ((a, b), c)))
  | 0x1b -> KInt64 (rep (fun () -> tz t))
  | 0x1c -> KSharedString (rep f32)
  | 0x1e -> KOptionalCFrame (rep (fun () -> let c = tcf t in let b = tbool t in (c, b)))
  | 0x1f -> KUniqueId (rep (fun () -> let i = f32 () in let tm = f32 () in let r = tz t in ((i, tm), r)))
  | 0x20 -> KFont (rep (fun () -> let fam = tbytes t in let w = f32 () in let s = f32 () in let c = tbytes t in (((fam, w), s), c)))
  | 0x22 ->
    let l = rep (fun () ->
      match word t with
      | "0" -> BCNone
      | "1" -> BCUri (tbytes t)
      | "2" -> BCObject (tz t)
      | w -> failwith ("content selector " ^ w)) in
    if word t <> "ext" then failwith "expected ext";
    let k = tcount t in
    KContent (l, times k (fun () -> tz t))
  | k -> failwith (Printf.sprintf "column type %x" k)

type lcase = { mutable meta : (n list * n list) list option; mutable sstr : (n list * n list) list option;
               mutable classes : bs_class list; mutable props : bs_prop list; mutable prnt : (z * z) list;
               mutable unknown : (n list * n list) list; mutable order : bs_okey list; mutable comp : bool list;
               mutable rotids : bool }

let parse_lfile (lines : string list) : bs_file * bs_choices =
  let c = { meta = None; sstr = None; classes = []; props = []; prnt = []; unknown = []; order = []; comp = []; rotids = true } in
  List.iter (fun l ->
    let t = toks_of_line l in
    if Array.length t.v >= 2 then
      match word t with
      | "lf" ->
        (match word t with
         | "meta" -> if word t = "1" then begin
             let k = tcount t in c.meta <- Some (times k (fun () -> let a = tbytes t in let b = tbytes t in (a, b))) end
         | "sstr" -> if word t = "1" then begin
             let k = tcount t in c.sstr <- Some (times k (fun () -> let a = tbytes t in let b = tbytes t in (a, b))) end
         | "class" ->
           let id = tn t in let name = tbytes t in let svc = tbool t in let k = tcount t in
           let refs = times k (fun () -> tz t) in
           let marks = tbytes t in
           c.classes <- { cls_id = id; cls_name = name; cls_service = svc; cls_refs = refs; cls_markers = marks } :: c.classes
         | "prop" ->
           let id = tn t in let name = tbytes t in
           let body = (match word t with
             | "V" -> BValues (parse_column t)
             | "T" -> BTruncated
             | "U" -> let ty = tn t in let raw = tbytes t in BUnknown (ty, raw)
             | w -> failwith ("prop body " ^ w)) in
           c.props <- { bp_class = id; bp_name = name; bp_body = body } :: c.props
         | "prnt" -> let k = tcount t in c.prnt <- times k (fun () -> let a = tz t in let b = tz t in (a, b))
         | "unknown" -> let a = tbytes t in let b = tbytes t in c.unknown <- (a, b) :: c.unknown
         | w -> failwith ("lf " ^ w))
      | "ch" ->
        (match word t with
         | "order" ->
           let ks = ref [] in
           while t.i < Array.length t.v do
             let w = word t in
             let arg () = nat_of_int (int_of_string ("0x" ^ String.sub w 1 (String.length w - 1))) in
             ks := (match w.[0] with
               | 'M' -> OMeta | 'S' -> OSstr | 'R' -> OPrnt
               | 'I' -> OInst (arg ()) | 'P' -> OProp (arg ()) | 'U' -> OUnknown (arg ())
               | _ -> failwith ("order key " ^ w)) :: !ks
           done;
           c.order <- List.rev !ks
         | "comp" -> let s = word t in c.comp <- List.init (String.length s) (fun k -> s.[k] = '1')
         | "rotids" -> c.rotids <- tbool t
         | w -> failwith ("ch " ^ w))
      | _ -> ()) lines;
  ({ bf_meta = c.meta; bf_sstr = c.sstr; bf_classes = List.rev c.classes; bf_props = List.rev c.props;
     bf_prnt = c.prnt; bf_unknown = List.rev c.unknown },
   { ch_order = c.order; ch_comp = c.comp; ch_rot_ids = c.rotids })

let dom_string (nodes : bs_node list) : string =
  let b = Buffer.create 4096 in
  print_dom b (List.map (fun x -> mk_inst x.bn_label x.bn_parent x.bn_class x.bn_name x.bn_props) nodes);
  Buffer.contents b

let code_string (c : n) : string = hex_of_n c

(* result of decoding + to_dom: `OK\n<lines>enddom` or `ERR code` *)
let dom_result (r : bs_file res) : string =
  match r with
  | Ok f -> (match bspec_to_dom f with
      | Ok nodes -> "OK\n" ^ dom_string nodes ^ "enddom"
      | Err c -> "ERR " ^ code_string c
      | Panic -> "ERR panic" | OutOfFuel -> "ERR fuel")
  | Err c -> "ERR " ^ code_string c
  | Panic -> "ERR panic"
  | OutOfFuel -> "ERR fuel"

let b01 x = if x then "1" else "0"

let run_c03 oc (hints : string list) =
  let files = ref [] and ztab : (string, n list) Hashtbl.t = Hashtbl.create 16 in
  List.iter (fun l ->
    let t = toks_of_line l in
    if Array.length t.v >= 3 then
      match word t with
      | "file" -> let comp = word t in files := (comp, tbytes t) :: !files
      | "zstd" -> let k = word t in Hashtbl.replace ztab k (tbytes t)
      | _ -> ()) hints;
  let zstd (b : n list) = Hashtbl.find_opt ztab (hex_of_bytes b) in
  if !files = [] then output_string oc "nofiles\n";
  let seen = ref [] in
  List.iter (fun (comp, bytes) ->
    List.iter (fun (rname, rd) ->
      let s = dom_result (bspec_decode_gen rd zstd bytes) in
      (match List.find_opt (fun (_, s') -> s' = s) !seen with
       | Some (k, _) -> Printf.fprintf oc "dec %s %s SAME %s\n" comp rname k
       | None ->
         Printf.fprintf oc "dec %s %s %s\n" comp rname s;
         seen := (comp ^ " " ^ rname, s) :: !seen))
      [("amended", bs_amended); ("literal", bs_literal)];
    (* the SSTR entries of the uncompressed file, for the MD5 check done by the Python handler (hashlib) *)
    (if comp = "none" then
       match bspec_decode_gen bs_amended zstd bytes with
       | Ok f -> (match f.bf_sstr with
           | Some l -> List.iter (fun (h, c) -> Printf.fprintf oc "sstr-entry %s %s\n" (hex_of_bytes h) (hex_of_bytes c)) l
           | None -> ())
       | _ -> ());
    (* structural clauses over the decoded chunk list *)
    (match p_header bytes with
     | Ok (hdr, rest) ->
       (match bs_deframe rest with
        | Ok raws ->
          let lens = cl_chunk_lengths zstd raws and ends = cl_ends_with_end raws in
          (match bs_inflate_all zstd raws with
           | Ok chunks ->
             (match bs_parse_items bs_amended [] chunks with
              | Ok items ->
                Printf.fprintf oc "clauses %s header-counts=%s one-inst-per-class-unique-id=%s class-names-distinct=%s prop-one-value-per-instance=%s prnt-each-instance-once=%s prnt-children-before-parents=%s sstr-distinct=%s chunk-lengths=%s ends-with-uncompressed-end=%s end-last=%s\n"
                  comp (b01 (cl_header_counts hdr items)) (b01 (cl_unique_class_ids items)) (b01 (cl_unique_class_names items))
                  (b01 (cl_prop_lengths items)) (b01 (cl_prnt_once items)) (b01 (cl_prnt_children_first items))
                  (b01 (cl_sstr_distinct items)) (b01 lens) (b01 ends) (b01 (end_last items))
              | _ -> Printf.fprintf oc "clauses %s chunks-parse=0 chunk-lengths=%s ends-with-uncompressed-end=%s\n" comp (b01 lens) (b01 ends))
           | _ -> Printf.fprintf oc "clauses %s chunks-inflate=0 chunk-lengths=%s ends-with-uncompressed-end=%s\n" comp (b01 lens) (b01 ends))
        | _ -> Printf.fprintf oc "clauses %s deframe=0\n" comp)
     | _ -> Printf.fprintf oc "clauses %s file-header=0\n" comp))
    (List.rev !files)

let run_c04 oc (lines : string list) =
  let (f, ch) = parse_lfile lines in
  Printf.fprintf oc "wf %s %s\n" (b01 (bs_wf f)) (b01 (bs_doc_wf f));
  let lit = bspec_encode bs_literal ch f and am = bspec_encode bs_amended ch f in
  Printf.fprintf oc "bytes literal %s\n" (if lit = am then "SAME" else hex_of_bytes lit);
  Printf.fprintf oc "bytes amended %s\n" (hex_of_bytes am);
  (* one amendment withdrawn at a time: which literal reading of the document the real reader does not follow *)
  List.iter (fun (nm, rd) ->
    let b = bspec_encode rd ch f in
    Printf.fprintf oc "bytes only-%s %s\n" nm (if b = am then "SAME" else hex_of_bytes b))
    [("uniqueid-layout", { bs_amended with rd_uid_be = false; rd_uid_rot = false });
     ("sharedstring-index-endianness", { bs_amended with rd_sstr_be = false });
     ("content-sourcetypes", { bs_amended with rd_content_types_i32 = false })];
  let chunks = bspec_encode_chunks bs_amended ch f in
  let b = Buffer.create 4096 in
  Buffer.add_string b (Printf.sprintf "chunks %x" (List.length chunks));
  List.iter (fun (nm, d) -> Buffer.add_char b ' '; add_hex_of_bytes b nm; Buffer.add_char b ' '; add_hex_of_bytes b d) chunks;
  output_string oc (Buffer.contents b); output_char oc '\n';
  let want = dom_result (Ok f) in
  List.iter (fun (rname, rd, bytes) ->
    match bspec_decode_gen rd (fun _ -> None) bytes with
    | Ok f' ->
      if f' = f || dom_result (Ok f') = want then Printf.fprintf oc "rt %s OK\n" rname
      else Printf.fprintf oc "rt %s DIFF\n" rname
    | Err c -> Printf.fprintf oc "rt %s ERR %s\n" rname (code_string c)
    | Panic -> Printf.fprintf oc "rt %s ERR panic\n" rname
    | OutOfFuel -> Printf.fprintf oc "rt %s ERR fuel\n" rname)
    [("literal", bs_literal, lit); ("amended", bs_amended, am)];
  Printf.fprintf oc "dom %s\n" want

let run (cases : string) (out : string) : unit =
  let hints_tbl = Hashtbl.create 64 in
  (try List.iter (fun (id, ls) -> Hashtbl.replace hints_tbl id ls) (read_cases (cases ^ ".hints"))
   with Sys_error _ -> ());
  let oc = open_out out in
  List.iter (fun (id, lines) ->
    Printf.fprintf oc "case %s\n" id;
    (try
      if List.mem "opt mode c04" lines then run_c04 oc lines
      else run_c03 oc (try Hashtbl.find hints_tbl id with Not_found -> [])
    with
    | Failure m -> Printf.fprintf oc "MODELFAIL %s\n" m
    | Invalid_argument m -> Printf.fprintf oc "MODELFAIL %s\n" m
    | Not_found -> Printf.fprintf oc "MODELFAIL not-found\n"
    | Stack_overflow -> Printf.fprintf oc "MODELFAIL stack-overflow\n");
    output_string oc "end\n") (read_cases cases);
  close_out oc

let cli = function
  | "binspec" :: cases :: out :: _ -> run cases out; true
  | _ -> false
