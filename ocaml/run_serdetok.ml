(* serdetok: runs the extracted model of the hand-written serde impls (coq/Model/Serde17.v: run_ser17 / run_de17) on the case
   files of harness/src/serdetok.rs and prints exactly that harness's observation lines:
     ser <H|C> <Type> <value tokens>   ->  TOK <tokens>
     de  <H|C> <Type> | <tokens>       ->  VAL <value tokens> | <unread tokens>   /  ERR  /  PANIC
   Token and value-token text forms: coq/Model/SerdeTok.v, harness/src/serdetok.rs.  No model logic here: parsing and printing. *)
open Model
open Mcommon
open Mvalue

let ten = n_of_int 10
let n_of_dec (s : string) : n =
  let acc = ref N0 in
  String.iter (fun c -> acc := N.add (N.mul !acc ten) (n_of_int (Char.code c - 48))) s; !acc
let z_of_dec (s : string) : z =
  if String.length s > 0 && s.[0] = '-' then (match n_of_dec (String.sub s 1 (String.length s - 1)) with N0 -> Z0 | Npos p -> Zneg p)
  else (match n_of_dec s with N0 -> Z0 | Npos p -> Zpos p)
let str_of_bytes (l : n list) : string = String.concat "" (List.map (fun x -> String.make 1 (Char.chr (int_of_n x))) l)
let dec_n (x : n) : string = str_of_bytes (dec_of_N x)
let dec_z (x : z) : string = str_of_bytes (dec_of_Z x)
let bytes_of_str (s : string) : n list = List.init (String.length s) (fun i -> n_of_int (Char.code s.[i]))
let hexs (l : n list) : string = if l = [] then "-" else hex_of_bytes l
let unhex (s : string) : n list = if s = "-" then [] else bytes_of_hex s

let show_tok (t : tok) : string =
  let opt = function None -> "-" | Some n -> dec_n n in
  let nm l = str_of_bytes l in
  match t with
  | TBool b -> if b then "b1" else "b0"
  | TU8 n -> "u8:" ^ dec_n n | TU16 n -> "u16:" ^ dec_n n | TU32 n -> "u32:" ^ dec_n n | TU64 n -> "u64:" ^ dec_n n | TU128 n -> "u128:" ^ dec_n n
  | TI8 z -> "i8:" ^ dec_z z | TI16 z -> "i16:" ^ dec_z z | TI32 z -> "i32:" ^ dec_z z | TI64 z -> "i64:" ^ dec_z z
  | TF32 b -> "f32:" ^ hex_of_n b | TF64 b -> "f64:" ^ hex_of_n b
  | TStr s -> "s:" ^ hexs s | TBytes s -> "y:" ^ hexs s
  | TNone -> "none" | TSome -> "some" | TUnit -> "unit"
  | TSeq l -> "seq:" ^ opt l | TSeqEnd -> "end"
  | TTuple n -> "tup:" ^ dec_n n | TTupleEnd -> "tend"
  | TMap l -> "map:" ^ opt l | TMapEnd -> "mend"
  | TStruct (n, l) -> "st:" ^ nm n ^ ":" ^ dec_n l | TField n -> "f:" ^ nm n | TStructEnd -> "send"
  | TUnitVariant (e, i, v) -> "uv:" ^ nm e ^ ":" ^ dec_n i ^ ":" ^ nm v
  | TNewtypeVariant (e, i, v) -> "nv:" ^ nm e ^ ":" ^ dec_n i ^ ":" ^ nm v
  | TStructVariant (e, i, v, l) -> "sv:" ^ nm e ^ ":" ^ dec_n i ^ ":" ^ nm v ^ ":" ^ dec_n l | TStructVariantEnd -> "svend"
  | TTupleVariant (e, i, v, l) -> "tv:" ^ nm e ^ ":" ^ dec_n i ^ ":" ^ nm v ^ ":" ^ dec_n l | TTupleVariantEnd -> "tvend"
  | TNewtypeStruct n -> "ns:" ^ nm n

let parse_tok (s : string) : tok option =
  let k, rest = match String.index_opt s ':' with
    | Some i -> String.sub s 0 i, String.sub s (i + 1) (String.length s - i - 1)
    | None -> s, "" in
  let p = String.split_on_char ':' rest in
  let opt r = if r = "-" then None else Some (n_of_dec r) in
  let b x = bytes_of_str x in
  try Some (match k with
    | "b0" -> TBool false | "b1" -> TBool true
    | "u8" -> TU8 (n_of_dec rest) | "u16" -> TU16 (n_of_dec rest) | "u32" -> TU32 (n_of_dec rest) | "u64" -> TU64 (n_of_dec rest) | "u128" -> TU128 (n_of_dec rest)
    | "i8" -> TI8 (z_of_dec rest) | "i16" -> TI16 (z_of_dec rest) | "i32" -> TI32 (z_of_dec rest) | "i64" -> TI64 (z_of_dec rest)
    | "f32" -> TF32 (n_of_hex rest) | "f64" -> TF64 (n_of_hex rest)
    | "s" -> TStr (unhex rest) | "y" -> TBytes (unhex rest)
    | "none" -> TNone | "some" -> TSome | "unit" -> TUnit
    | "seq" -> TSeq (opt rest) | "end" -> TSeqEnd
    | "tup" -> TTuple (n_of_dec rest) | "tend" -> TTupleEnd
    | "map" -> TMap (opt rest) | "mend" -> TMapEnd
    | "st" -> TStruct (b (List.nth p 0), n_of_dec (List.nth p 1)) | "f" -> TField (b rest) | "send" -> TStructEnd
    | "uv" -> TUnitVariant (b (List.nth p 0), n_of_dec (List.nth p 1), b (List.nth p 2))
    | "nv" -> TNewtypeVariant (b (List.nth p 0), n_of_dec (List.nth p 1), b (List.nth p 2))
    | "sv" -> TStructVariant (b (List.nth p 0), n_of_dec (List.nth p 1), b (List.nth p 2), n_of_dec (List.nth p 3)) | "svend" -> TStructVariantEnd
    | "tv" -> TTupleVariant (b (List.nth p 0), n_of_dec (List.nth p 1), b (List.nth p 2), n_of_dec (List.nth p 3)) | "tvend" -> TTupleVariantEnd
    | "ns" -> TNewtypeStruct (b rest)
    | _ -> raise Not_found)
  with _ -> None

let type_tag = function
  | "Axes" -> 0 | "Faces" -> 1 | "BinaryString" -> 2 | "BrickColor" -> 3 | "PhysicalProperties" -> 4
  | "Ref" -> 5 | "SharedString" -> 6 | "UniqueId" -> 7 | _ -> 99

let parse_value (ty : string) (t : string list) : sv17 option =
  try Some (match ty, t with
    | "Axes", x :: _ -> SAxes (n_of_dec x)
    | "Faces", x :: _ -> SFaces (n_of_dec x)
    | "BinaryString", x :: _ -> SBinaryString (unhex x)
    | "SharedString", x :: _ -> SSharedString (unhex x)
    | "BrickColor", x :: _ -> SBrickColor (n_of_dec x)
    | "PhysicalProperties", "D" :: _ -> SPhysicalProperties None
    | "PhysicalProperties", "C" :: a :: b :: c :: d :: e :: _ ->
      SPhysicalProperties (Some { ph_density = n_of_hex a; ph_friction = n_of_hex b; ph_elasticity = n_of_hex c; ph_friction_weight = n_of_hex d; ph_elasticity_weight = n_of_hex e })
    | "Ref", x :: _ -> SRef0 (n_of_dec x)
    | "UniqueId", i :: tm :: r :: _ -> SUniqueId (n_of_dec i, n_of_dec tm, z_of_dec r)
    | _ -> raise Not_found)
  with _ -> None

let value_tokens (v : sv17) : string = match v with
  | SAxes n | SFaces n | SBrickColor n | SRef0 n -> dec_n n
  | SBinaryString b | SSharedString b -> hexs b
  | SPhysicalProperties None -> "D"
  | SPhysicalProperties (Some p) ->
    Printf.sprintf "C %s %s %s %s %s" (hex_of_n p.ph_density) (hex_of_n p.ph_friction) (hex_of_n p.ph_elasticity) (hex_of_n p.ph_friction_weight) (hex_of_n p.ph_elasticity_weight)
  | SUniqueId (i, t, r) -> Printf.sprintf "%s %s %s" (dec_n i) (dec_n t) (dec_z r)

let run path out =
  let oc = open_out out in
  let pr s = output_string oc s; output_char oc '\n' in
  List.iter (fun (id, lines) ->
    pr ("case " ^ id);
    List.iter (fun l ->
      let t = List.filter (fun s -> s <> "") (String.split_on_char ' ' l) in
      match t with
      | "ser" :: m :: ty :: rest ->
        let mode = if m = "H" then Human else Compact in
        (match parse_value ty rest with
         | None -> pr "BADCASE"
         | Some v -> pr ("TOK " ^ String.concat " " (List.map show_tok (run_ser17 mode v))))
      | "de" :: m :: ty :: rest ->
        let mode = if m = "H" then Human else Compact in
        let rec after_bar = function [] -> [] | "|" :: r -> r | _ :: r -> after_bar r in
        let toks = List.map parse_tok (after_bar rest) in
        if List.mem None toks then pr "BADCASE" else begin
          let toks = List.filter_map (fun x -> x) toks in
          match run_de17 mode (n_of_int (type_tag ty)) toks with
          | Ok (v, rest) -> pr (Printf.sprintf "VAL %s | %d" (value_tokens v) (List.length rest))
          | Err _ -> pr "ERR"
          | Panic -> pr "PANIC"
          | OutOfFuel -> pr "FUEL"
        end
      | _ -> ()) lines;
    pr "end") (read_cases path);
  close_out oc

let cli = function
  | "serdetok" :: path :: out :: _ -> run path out; true
  | _ -> false
