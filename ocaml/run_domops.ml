(* dom-ops: runs Dom.step (concrete) and Tree.astep (specification) on operation sequences *)
open Model
open Mcommon

(* ------------------------------------------------------------------ dom-ops *)
let rec parse_bt t =
  let label = nn t in let name = nn t in let cls = nn t in
  let np = num t in
  let props = List.init np (fun _ ->
    let k = nn t in let kind = word t in let v = nn t in
    (k, (match kind with "R" -> PRef v | "U" -> PUid v | _ -> POther v))) in
  let nk = num t in
  let kids = List.init nk (fun _ -> parse_bt t) in
  BNode (label, name, cls, props, kids)

let parse_op line =
  let t = toks_of_line line in
  match word t with
  | "new" -> ONew (parse_bt t)
  | "insert" -> let d = num t in let p = nn t in OInsert (nat_of_int d, p, parse_bt t)
  | "destroy" -> let d = num t in let r = nn t in ODestroy (nat_of_int d, r)
  | "movew" -> let d = num t in let r = nn t in let p = nn t in OMoveWithin (nat_of_int d, r, p)
  | "move" -> let d = num t in let r = nn t in let d2 = num t in let p = nn t in OMove (nat_of_int d, r, nat_of_int d2, p)
  | "clonew" -> let d = num t in let r = nn t in OCloneWithin (nat_of_int d, r)
  | "clonex" -> let d = num t in let r = nn t in let d2 = num t in OCloneExt (nat_of_int d, r, nat_of_int d2)
  | "clonem" -> let d = num t in let d2 = num t in let n = num t in
      let rs = List.init n (fun _ -> nn t) in OCloneMulti (nat_of_int d, rs, nat_of_int d2)
  | w -> failwith ("unknown op " ^ w)

let pval_string = function
  | PRef r -> "R" ^ string_of_int (int_of_n r)
  | PUid u -> "U" ^ string_of_int (int_of_n u)
  | POther v -> "O" ^ string_of_int (int_of_n v)

let inst_string (l, i) =
  let props = List.sort (fun (a, _) (b, _) -> compare a b) (List.map (fun (k, v) -> (int_of_n k, v)) i.i_props) in
  Printf.sprintf "%d^%d[%s]n%dc%d{%s}" l (int_of_n i.i_parent)
    (String.concat "," (List.map (fun c -> string_of_int (int_of_n c)) i.i_children))
    (int_of_n i.i_name) (int_of_n i.i_class)
    (String.concat "," (List.map (fun (k, v) -> Printf.sprintf "%d=%s" k (pval_string v)) props))

let dom_string root desc insts =
  let insts = List.sort (fun (a, _) (b, _) -> compare a b) (List.map (fun (k, i) -> (int_of_n k, i)) insts) in
  Printf.sprintf " | root=%d desc=%s insts=%s" (int_of_n root)
    (String.concat "," (List.map (fun r -> string_of_int (int_of_n r)) desc))
    (String.concat ";" (List.map inst_string insts))

let ret_string ret =
  if ret = [] then "-" else String.concat "," (List.map (fun r -> string_of_int (int_of_n r)) ret)

let observe_concrete w ret =
  let b = Buffer.create 256 in
  Buffer.add_string b ("S " ^ ret_string ret);
  List.iter (fun d ->
    let desc = match dom_descendants_of d d.d_root with Ok l -> l | _ -> [] in
    Buffer.add_string b (dom_string d.d_root desc d.d_insts)) w.w_doms;
  Buffer.contents b

let observe_abstract w ret =
  let b = Buffer.create 256 in
  Buffer.add_string b ("S " ^ ret_string ret);
  List.iter (fun a ->
    let desc = match ffind a.a_root a.a_trees with
      | Some t -> List.map troot (bfs_all [t]) | None -> [] in
    Buffer.add_string b (dom_string a.a_root desc (aflat a))) w.aw_doms;
  Buffer.contents b

let run_domops path outc outa =
  let oc = open_out outc and oa = open_out outa in
  List.iter (fun (id, lines) ->
    Printf.fprintf oc "case %s\n" id; Printf.fprintf oa "case %s\n" id;
    (* concrete model *)
    let rec goc w = function
      | [] -> ()
      | l :: rest ->
        (match step w (parse_op l) with
         | Ok (w1, ret) -> output_string oc (observe_concrete w1 ret ^ "\n"); goc w1 rest
         | Panic -> output_string oc "P\n"
         | Err _ -> output_string oc "E\n"
         | OutOfFuel -> output_string oc "FUEL\n") in
    goc world0 lines;
    (* abstract specification *)
    let rec goa w = function
      | [] -> ()
      | l :: rest ->
        (match astep w (parse_op l) with
         | Some (w1, ret) -> output_string oa (observe_abstract w1 ret ^ "\n"); goa w1 rest
         | None -> output_string oa "UNDEF\n") in
    goa aworld0 lines;
    output_string oc "end\n"; output_string oa "end\n") (read_cases path);
  close_out oc; close_out oa


let cli = function
  | "domops" :: path :: outc :: outa :: _ -> run_domops path outc outa; true
  | _ -> false
