(* xmlfile: runs the extracted xml_encode / channel / xml_decode (Model/XmlFile.v) on the cases written by
   `rbxverif xmlfile-gen`, printing exactly the observation lines of `rbxverif xmlfile-run`. *)
open Model
open Mcommon
open Mxml

let print_dec oc (r : inst0 list res) =
  match r with
  | Ok d -> output_string oc "DEC DOM\n"; print_dom oc d; output_string oc "ENDDOM\n"
  | Err c -> Printf.fprintf oc "DEC ERR %s\n" (err_class c)
  | Panic -> output_string oc "DEC PANIC\n"
  | OutOfFuel -> output_string oc "DEC OUTOFFUEL\n"

let run_dom oc lines =
  let c = parse_case lines "" in
  let e = env_of c in
  match xml_encode e (ebeh (opt c "enc" "")) c.nodes c.roots with
  | Panic -> output_string oc "ENC PANIC\n"
  | OutOfFuel -> output_string oc "ENC OUTOFFUEL\n"
  | Err code -> Printf.fprintf oc "ENC ERR %s\n" (err_class code)
  | Ok wevs ->
    output_string oc "ENC OK\n";
    (match channel wevs with
     | Ok revs ->
       List.iter (fun r -> output_string oc (revent_line r ^ "\n")) revs;
       print_dec oc (xml_decode e (dbeh (opt c "dec" "")) revs)
     | _ -> output_string oc "REVENTS ERR\nDEC -\n")

let run_text oc lines =
  let c = parse_case lines "" in
  let e = env_of c in
  output_string oc "REVS OK\n";
  print_dec oc (xml_decode e (dbeh (opt c "dec" "")) c.revs)

let run path out =
  let oc = open_out out in
  List.iter (fun (id, lines) ->
    Printf.fprintf oc "case %s\n" id;
    (try
       (match lines with
        | "kind dom" :: _ -> run_dom oc lines
        | "kind text" :: _ -> run_text oc lines
        | _ -> output_string oc "BADCASE kind\n")
     with Failure m -> Printf.fprintf oc "BADCASE %s\n" m);
    output_string oc "end\n") (read_cases path);
  close_out oc

let cli = function
  | "xmlfile" :: path :: out :: _ -> run path out; true
  | _ -> false
