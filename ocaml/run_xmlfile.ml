(* xmlfile: runs the extracted xml_encode / channel / xml_decode (Model/XmlFile.v) on the cases written by
   `rbxverif xmlfile-gen`, printing exactly the observation lines of `rbxverif xmlfile-run`. *)
open Model
open Mcommon
open Mxml

let print_dec oc (r : inst0 list res) =
  match r with
  | Ok d -> output_string oc "DEC DOM\n"; print_dom oc d; output_string oc "ENDDOM\n"
  | Err c -> Printf.fprintf oc "DEC ERR %s\n" (err_class c)
  | Panic -> output_string oc "DEC PANIC\n"
  | OutOfFuel -> output_string oc "DEC OUTOFFUEL\n"

(* the written instances in document order, or None when the root selection is degenerate (unknown label, duplicate, nested) *)
let written_order (c : xcase) : inst0 list option =
  let find l = List.find_opt (fun i -> i.i_ref = l) c.nodes in
  let roots = c.roots in
  let distinct = List.length (List.sort_uniq compare (List.map int_of_n roots)) = List.length roots in
  if not distinct || List.exists (fun r -> find r = None) roots then None
  else begin
    let rec above l = match find l with
      | Some i -> int_of_n i.i_parent0 <> 0 && (List.mem i.i_parent0 roots || above i.i_parent0)
      | None -> false in
    if List.exists above roots then None
    else begin
      let rec walk l = match find l with
        | Some i -> i :: List.concat_map (fun k -> if k.i_parent0 = l then walk k.i_ref else []) c.nodes
        | None -> [] in
      Some (List.concat_map walk roots)
    end
  end

(* C05 writer direction, spec side: the document (as the events of the real parser = the model's channel output, which the
   correspondence ties together) is decoded by the decoder written from docs/xml.md and compared with the source DOM *)
let spec_check (sc : out_channel) (c : xcase) (revs : revent list) : unit =
  if written_order c = None then output_string sc "SPEC SKIP\n" else
  match tree_of_events revs with
  | None -> output_string sc "SPEC DIFF the events do not form an element tree\n"
  | Some doc ->
    (match xspec_decode doc with
     | Ok f ->
       if not (refs_resolved f) then output_string sc "SPEC DIFF a SharedString key is not defined by the dictionary\n"
       else (match written_order c with
           | None -> output_string sc "SPEC SKIP\n"
           | Some src ->
             let got = f.sf_insts in
             if List.length got <> List.length src then
               Printf.fprintf sc "SPEC DIFF the spec decoder finds %d Items, the DOM has %d written instances\n" (List.length got) (List.length src)
             else begin
               let has_name_prop = List.exists (fun i -> List.exists (fun (k, _) -> k = Mvalue.bytes_of_hex "4e616d65") i.i_props0) src in
               let bad = List.find_opt (fun (g, s) ->
                   g.si_class <> s.i_class0 || (not has_name_prop && si_name g <> Some s.i_name0)) (List.combine got src) in
               match bad with
               | Some (g, s) -> Printf.fprintf sc "SPEC DIFF Item class %s name %s, DOM class %s name %s\n" (Mvalue.hex_of_bytes g.si_class)
                                  (match si_name g with Some n -> Mvalue.hex_of_bytes n | None -> "?") (Mvalue.hex_of_bytes s.i_class0) (Mvalue.hex_of_bytes s.i_name0)
               | None -> output_string sc "SPEC OK\n"
             end)
     | Err code -> Printf.fprintf sc "SPEC DIFF the document violates docs/xml.md (spec error %d)\n" (int_of_n code)
     | _ -> output_string sc "SPEC DIFF spec decoder did not terminate normally\n")

let run_dom oc sc lines =
  let c = parse_case lines "" in
  let e = env_of c in
  match xml_encode e (ebeh (opt c "enc" "")) c.nodes c.roots with
  | Panic -> output_string oc "ENC PANIC\n"
  | OutOfFuel -> output_string oc "ENC OUTOFFUEL\n"
  | Err code -> Printf.fprintf oc "ENC ERR %s\n" (err_class code)
  | Ok wevs ->
    output_string oc "ENC OK\n";
    (match channel wevs with
     | Ok revs ->
       List.iter (fun r -> output_string oc (revent_line r ^ "\n")) revs;
       if opt c "stream" "" <> "illegal" then spec_check sc c revs;
       print_dec oc (xml_decode e (dbeh (opt c "dec" "")) revs)
     | _ -> output_string oc "REVENTS ERR\nDEC -\n")

let run_text oc lines =
  let c = parse_case lines "" in
  let e = env_of c in
  output_string oc "REVS OK\n";
  print_dec oc (xml_decode e (dbeh (opt c "dec" "")) c.revs)

let run path out =
  let oc = open_out out in
  let sc = open_out (out ^ ".spec") in
  List.iter (fun (id, lines) ->
    Printf.fprintf oc "case %s\n" id;
    Printf.fprintf sc "case %s\n" id;
    (try
       (match lines with
        | "kind dom" :: _ -> run_dom oc sc lines
        | "kind text" :: _ -> run_text oc lines
        | _ -> output_string oc "BADCASE kind\n")
     with Failure m -> Printf.fprintf oc "BADCASE %s\n" m);
    output_string oc "end\n"; output_string sc "end\n") (read_cases path);
  close_out oc; close_out sc

let cli = function
  | "xmlfile" :: path :: out :: _ -> run path out; true
  | _ -> false
