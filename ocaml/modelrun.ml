(* modelrun: runs the extracted Coq models on case files written by the Rust harness and prints
   observations in exactly the harness's format.  No model logic lives here or in run_*.ml: only
   parsing, number conversion and printing.  One module per case kind. *)
let () =
  let args = List.tl (Array.to_list Sys.argv) in
  if not (List.exists (fun f -> f args) [ Run_domops.cli; Run_sched.cli ]) then begin
    prerr_endline "usage: modelrun <kind> ..."; exit 2
  end
