(* mbin: what the binary-format runners (run_binfile, run_binbytes) share: the database value, the error
   class names of harness/src/binfile.rs, the placeholder for a regenerated UniqueId. *)
open Model
open Mcommon
open Mvalue

let real_db : db Lazy.t = lazy (Obj.magic Dbmodel.database : db)
let empty_db : db = { db_classes = []; db_enums = [] }

let enc_class (c : n) : string =
  match int_of_n c with
  | 20 -> "type-mismatch" | 21 -> "unsupported" | 22 -> "invalid-value" | 23 -> "invalid-id"
  | 30 -> "MODEL-hash-order"
  | k -> Printf.sprintf "MODEL-%d" k

let dec_class (c : n) : string =
  match int_of_n c with
  | 1 -> "eof" | 2 -> "utf8" | 3 -> "bad-header" | 4 -> "file-version" | 5 -> "chunk-version"
  | 6 -> "type-mismatch" | 7 -> "invalid-data" | 8 -> "type-id" | 9 -> "rotation" | 10 -> "ocf-format"
  | 11 -> "content-type" | 12 -> "io" | 13 -> "alloc" | 14 -> "chunk-reserved" | 15 -> "unknown-referent"
  | k -> Printf.sprintf "MODEL-%d" k


let fresh_uid : value = VUniqueId (n_of_hex "ffffffff", n_of_hex "ffffffff", z_of_tok "-1")
