(* mxml: parsing/printing of XML write/read events for the xmlchannel and xmlfile kinds (formats documented in
   harness/src/xmlchannel.rs).  No model logic. *)
open Model
open Mcommon
open Mvalue

let parse_attrs_ev (t : toks) : (n list * n list) list =
  let k = tcount t in
  times k (fun () -> let a = tbytes t in let v = tbytes t in (a, v))

let parse_wevent (line : string) : wevent =
  let t = toks_of_line line in
  match word t with
  | "S" -> let n = tbytes t in WStart (n, parse_attrs_ev t)
  | "E" -> WEnd
  | "T" -> WChars (tbytes t)
  | "C" -> WCData (tbytes t)
  | w -> failwith ("bad write event " ^ w)

let parse_revent (line : string) : revent =
  let t = toks_of_line line in
  match word t with
  | "D" -> RStartDoc
  | "S" -> let n = tbytes t in RStart (n, parse_attrs_ev t)
  | "E" -> REnd (tbytes t)
  | "T" -> RChars (tbytes t)
  | "C" -> RCData (tbytes t)
  | "P" -> RPI (tbytes t)
  | "Z" -> REndDoc
  | "X" -> RError
  | w -> failwith ("bad read event " ^ w)

let revent_line (e : revent) : string =
  let b = Buffer.create 64 in
  (match e with
   | RStartDoc -> Buffer.add_string b "D"
   | RStart (n, a) ->
     Buffer.add_string b "S"; pb b n; pk b (List.length a);
     List.iter (fun (k, v) -> pb b k; pb b v) a
   | REnd n -> Buffer.add_string b "E"; pb b n
   | RChars s -> Buffer.add_string b "T"; pb b s
   | RCData s -> Buffer.add_string b "C"; pb b s
   | RPI n -> Buffer.add_string b "P"; pb b n
   | REndDoc -> Buffer.add_string b "Z"
   | RError -> Buffer.add_string b "X");
  Buffer.contents b
