(* mxml: parsing/printing of XML write/read events for the xmlchannel and xmlfile kinds (formats documented in
   harness/src/xmlchannel.rs).  No model logic. *)
open Model
open Mcommon
open Mvalue

let parse_attrs_ev (t : toks) : (n list * n list) list =
  let k = tcount t in
  times k (fun () -> let a = tbytes t in let v = tbytes t in (a, v))

let parse_wevent (line : string) : wevent =
  let t = toks_of_line line in
  match word t with
  | "S" -> let n = tbytes t in WStart (n, parse_attrs_ev t)
  | "E" -> WEnd
  | "T" -> WChars (tbytes t)
  | "C" -> WCData (tbytes t)
  | w -> failwith ("bad write event " ^ w)

let parse_revent (line : string) : revent =
  let t = toks_of_line line in
  match word t with
  | "D" -> RStartDoc
  | "S" -> let n = tbytes t in RStart (n, parse_attrs_ev t)
  | "E" -> REnd (tbytes t)
  | "T" -> RChars (tbytes t)
  | "C" -> RCData (tbytes t)
  | "P" -> RPI (tbytes t)
  | "Z" -> REndDoc
  | "X" -> RError
  | w -> failwith ("bad read event " ^ w)

let revent_line (e : revent) : string =
  let b = Buffer.create 64 in
  (match e with
   | RStartDoc -> Buffer.add_string b "D"
   | RStart (n, a) ->
     Buffer.add_string b "S"; pb b n; pk b (List.length a);
     List.iter (fun (k, v) -> pb b k; pb b v) a
   | REnd n -> Buffer.add_string b "E"; pb b n
   | RChars s -> Buffer.add_string b "T"; pb b s
   | RCData s -> Buffer.add_string b "C"; pb b s
   | RPI n -> Buffer.add_string b "P"; pb b n
   | REndDoc -> Buffer.add_string b "Z"
   | RError -> Buffer.add_string b "X");
  Buffer.contents b

(* ------------------------------------------------------------------ reflection database: Dbmodel -> Model
   The database is extracted into its own unit (dbmodel.ml) with its own copies of the datatypes; this is a
   field-by-field copy into Model's types.  Default values and enums are not copied: the XML codec model reads
   neither (cd_defaults = [], db_enums = []). *)
module D = Dbmodel
let rec conv_pos = function D.XH -> XH | D.XO p -> XO (conv_pos p) | D.XI p -> XI (conv_pos p)
let conv_n = function D.N0 -> N0 | D.Npos p -> Npos (conv_pos p)
let conv_ascii (D.Ascii (a, b, c, d, e, f, g, h)) = Ascii (a, b, c, d, e, f, g, h)
let rec conv_string = function D.EmptyString -> EmptyString | D.String (a, r) -> String (conv_ascii a, conv_string r)
let conv_dtype = function D.DValue n -> DValue (conv_n n) | D.DEnum s -> DEnum (conv_string s)
let conv_migop = function D.MigInset -> MigInset | D.MigFont -> MigFont | D.MigBrick -> MigBrick | D.MigContent -> MigContent
let conv_pser = function
  | D.PSerializes -> PSerializes | D.PDoesNot -> PDoesNot | D.PSerAs s -> PSerAs (conv_string s)
  | D.PMigrate (s, o) -> PMigrate (conv_string s, conv_migop o)
let conv_pkind = function D.KCanon s -> KCanon (conv_pser s) | D.KAlias s -> KAlias (conv_string s)
let conv_pdesc (p : D.pdesc) : pdesc = { pd_name = conv_string p.D.pd_name; pd_type = conv_dtype p.D.pd_type; pd_kind = conv_pkind p.D.pd_kind }
let conv_cdesc (c : D.cdesc) : cdesc =
  { cd_name = conv_string c.D.cd_name; cd_super = (match c.D.cd_super with Some s -> Some (conv_string s) | None -> None);
    cd_service = c.D.cd_service; cd_props = List.map conv_pdesc c.D.cd_props; cd_defaults = [] }
let model_db : db Lazy.t = lazy { db_classes = List.map conv_cdesc D.database.D.db_classes; db_enums = [] }

(* ------------------------------------------------------------------ forest cases (notes/forest-format.md) -> Model.cdom *)
type xcase = {
  mutable opts : (string * string) list;
  mutable nodes : inst0 list;            (* reversed while parsing *)
  mutable roots : n list;
  mutable sstr : (n list * n list) list;
  mutable revs : revent list;            (* reversed while parsing *)
  s32 : (string, n list) Hashtbl.t; s64 : (string, n list) Hashtbl.t;
  p32 : (string, n option) Hashtbl.t; p64 : (string, n option) Hashtbl.t;
  q : (string, n) Hashtbl.t; u : (string, n) Hashtbl.t;
}

let strip pre l =
  let k = String.length pre in
  if String.length l >= k && String.sub l 0 k = pre then Some (String.sub l k (String.length l - k)) else None

let parse_case (lines : string list) (prefix : string) : xcase =
  let c = { opts = []; nodes = []; roots = []; sstr = []; revs = [];
            s32 = Hashtbl.create 64; s64 = Hashtbl.create 64; p32 = Hashtbl.create 64; p64 = Hashtbl.create 64;
            q = Hashtbl.create 64; u = Hashtbl.create 16 } in
  List.iter (fun l0 ->
    let l = match (if prefix = "" then Some l0 else strip prefix l0) with Some l -> l | None -> "" in
    let t = toks_of_line l in
    if Array.length t.v > 0 then
      match word t with
      | "opt" -> let k = word t in c.opts <- (k, (if t.i < Array.length t.v then word t else "")) :: c.opts
      | "sstr" -> let content = tbytes t in let h = tbytes t in c.sstr <- (content, h) :: c.sstr
      | "node" ->
        let label = tn t in let parent = tn t in let cls = tbytes t in let name = tbytes t in
        c.nodes <- { i_ref = label; i_parent0 = parent; i_class0 = cls; i_name0 = name; i_props0 = [] } :: c.nodes
      | "prop" ->
        let name = tbytes t in let v = parse_value t in
        (match c.nodes with
         | i :: r -> c.nodes <- { i with i_props0 = i.i_props0 @ [(name, v)] } :: r
         | [] -> failwith "prop before node")
      | "roots" -> while t.i < Array.length t.v do c.roots <- c.roots @ [tn t] done
      | "rev" -> c.revs <- parse_revent (String.sub l 4 (String.length l - 4)) :: c.revs
      | "t" ->
        (match word t with
         | "s32" -> let k = word t in Hashtbl.replace c.s32 k (tbytes t)
         | "s64" -> let k = word t in Hashtbl.replace c.s64 k (tbytes t)
         | "p32" -> let k = word t in let v = word t in Hashtbl.replace c.p32 k (if v = "E" then None else Some (n_of_hex v))
         | "p64" -> let k = word t in let v = word t in Hashtbl.replace c.p64 k (if v = "E" then None else Some (n_of_hex v))
         | "q" -> let k = word t in Hashtbl.replace c.q k (tn t)
         | "u" -> let k = word t in Hashtbl.replace c.u k (tn t)
         | _ -> ())
      | _ -> ()) lines;
  c.nodes <- List.rev c.nodes; c.revs <- List.rev c.revs; c.opts <- List.rev c.opts;
  c

let opt c k d = match List.assoc_opt k c.opts with Some v -> v | None -> d

let oracle_of (c : xcase) : xoracle =
  let key_n x = hex_of_n x and key_b b = hex_of_bytes b in
  let dbg = Sys.getenv_opt "XML_TABLE_DEBUG" <> None in
  let look name tbl k = let r = Hashtbl.find_opt tbl k in
    (if r = None && dbg then prerr_endline ("table miss: " ^ name ^ " " ^ k)); r in
  { xo_show32 = (fun x -> look "s32" c.s32 (key_n x));
    xo_show64 = (fun x -> look "s64" c.s64 (key_n x));
    xo_parse32 = (fun b -> look "p32" c.p32 (key_b b));
    xo_parse64 = (fun b -> look "p64" c.p64 (key_b b));
    xo_quant = (fun x -> look "q" c.q (key_n x));
    xo_unit = (fun x -> look "u" c.u (key_n x)) }

let env_of (c : xcase) : xenv =
  { xe_db = Lazy.force model_db; xe_font = font_migration_table; xe_brick = brick_color_table; xe_o = oracle_of c;
    xe_hash = (fun content -> List.assoc_opt content c.sstr) }

let ebeh = function "WriteUnknown" -> EWriteUnknown | "ErrorOnUnknown" -> EErrorOnUnknown | "NoReflection" -> ENoReflection | _ -> EIgnoreUnknown
let dbeh = function "ReadUnknown" -> DReadUnknown | "ErrorOnUnknown" -> DErrorOnUnknown | "NoReflection" -> DNoReflection | _ -> DIgnoreUnknown

let int_of_n' = int_of_n

let err_class (code : n) : string =
  match int_of_n' code with
  | 100 -> "xml" | 101 -> "float" | 102 -> "int" | 103 -> "base64" | 104 -> "migration" | 105 -> "type" | 106 -> "version"
  | 107 -> "eof" | 108 -> "event" | 109 -> "attr" | 110 -> "unknown" | 111 -> "content" | 112 -> "name" | 113 -> "convert"
  | 120 -> "unknown" | 121 -> "type" | 122 -> "convert" | 123 -> "attr" | 99 -> "TABLE-MISS" | 90 -> "channel"
  | k -> Printf.sprintf "code%d" k

(* decoded-DOM observation: labels renumbered in depth-first pre-order from 1, props sorted by name (byte order),
   Refs printed as the new label of the instance they name (0 if none) *)
let print_dom (oc : out_channel) (d : inst0 list) : unit =
  let kids = Hashtbl.create 64 in
  List.iter (fun i -> let p = int_of_n i.i_parent0 in
              Hashtbl.replace kids p ((try Hashtbl.find kids p with Not_found -> []) @ [i])) d;
  let order = ref [] in
  let rec walk p = List.iter (fun i -> order := i :: !order; walk (int_of_n i.i_ref)) (try Hashtbl.find kids p with Not_found -> []) in
  walk 0;
  let order = List.rev !order in
  let relabel = Hashtbl.create 64 in
  List.iteri (fun k i -> Hashtbl.replace relabel (int_of_n i.i_ref) (k + 1)) order;
  let lab x = try Hashtbl.find relabel (int_of_n x) with Not_found -> 0 in
  let map_ref v = match v with
    | VRef r -> VRef (n_of_int (lab r))
    | VContent (CObject r) -> VContent (CObject (n_of_int (lab r)))
    | v -> v in
  let cmp_bytes a b = compare (List.map int_of_n a) (List.map int_of_n b) in
  List.iter (fun i ->
    let props = List.sort (fun (a, _) (b, _) -> cmp_bytes a b) i.i_props0 in
    Printf.fprintf oc "node %x %x %s %s %x\n" (lab i.i_ref) (lab i.i_parent0) (hex_of_bytes i.i_class0) (hex_of_bytes i.i_name0) (List.length props);
    List.iter (fun (k, v) ->
      let b = Buffer.create 64 in
      Buffer.add_string b "prop "; add_hex_of_bytes b k; Buffer.add_char b ' '; print_value b (map_ref v);
      output_string oc (Buffer.contents b ^ "\n")) props) order
