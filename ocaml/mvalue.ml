(* mvalue: the token format of /verif/notes/wire-format.md <-> the extracted Coq type Model.value
   (coq/Model/Value.v), both directions.  Shared by the codec slices (attr, binary, xml).
   Numbers are the extracted inductives (positive / N / Z): they are built and printed bit by bit,
   never through OCaml ints, so 64-bit patterns and larger values are exact.
   No model logic lives here: parsing, number conversion and printing only. *)
open Model
open Mcommon

(* ------------------------------------------------------------------ hex <-> N / Z *)
let hexval c =
  match c with
  | '0' .. '9' -> Char.code c - 48
  | 'a' .. 'f' -> Char.code c - 87
  | 'A' .. 'F' -> Char.code c - 55
  | _ -> failwith (Printf.sprintf "bad hex digit %c" c)

(* positive from bits, most significant first: acc is the value read so far (None = 0) *)
let n_of_hex (s : string) : n =
  if s = "" then failwith "empty number token";
  let acc = ref None in
  String.iter (fun c ->
    let d = hexval c in
    for k = 3 downto 0 do
      let bit = (d lsr k) land 1 = 1 in
      acc := (match !acc with
              | None -> if bit then Some XH else None
              | Some p -> Some (if bit then XI p else XO p))
    done) s;
  match !acc with None -> N0 | Some p -> Npos p

(* bits of a positive, least significant first *)
let rec pos_bits p acc = match p with XH -> true :: acc | XO q -> pos_bits q (false :: acc) | XI q -> pos_bits q (true :: acc)

let hex_of_pos (p : positive) : string =
  (* pos_bits conses as it walks from the least significant bit, so the result is most significant first *)
  let bits = Array.of_list (pos_bits p []) in
  let nb = Array.length bits in
  let ndig = (nb + 3) / 4 in
  let buf = Buffer.create ndig in
  let pad = ndig * 4 - nb in
  for d = 0 to ndig - 1 do
    let v = ref 0 in
    for k = 0 to 3 do
      let i = d * 4 + k - pad in
      v := !v * 2 + (if i >= 0 && bits.(i) then 1 else 0)
    done;
    Buffer.add_char buf "0123456789abcdef".[!v]
  done;
  Buffer.contents buf

let hex_of_n = function N0 -> "0" | Npos p -> hex_of_pos p

let z_of_tok (s : string) : z =
  if String.length s > 0 && s.[0] = '-' then
    (match n_of_hex (String.sub s 1 (String.length s - 1)) with N0 -> Z0 | Npos p -> Zneg p)
  else (match n_of_hex s with N0 -> Z0 | Npos p -> Zpos p)

let tok_of_z = function Z0 -> "0" | Zpos p -> hex_of_pos p | Zneg p -> "-" ^ hex_of_pos p

(* ------------------------------------------------------------------ bytes *)
let byte_table : n array = Array.init 256 n_of_int

let bytes_of_hex (s : string) : n list =
  if s = "-" then [] else begin
    let l = String.length s in
    if l mod 2 <> 0 then failwith "odd number of hex digits in a byte token";
    let out = ref [] in
    let i = ref (l - 2) in
    while !i >= 0 do
      out := byte_table.(hexval s.[!i] * 16 + hexval s.[!i + 1]) :: !out;
      i := !i - 2
    done;
    !out
  end

let add_hex_of_bytes (b : Buffer.t) (l : n list) : unit =
  match l with
  | [] -> Buffer.add_char b '-'
  | _ -> List.iter (fun x ->
           let v = int_of_n x in
           if v > 255 then failwith "model produced a byte >= 256";
           Buffer.add_char b "0123456789abcdef".[v lsr 4];
           Buffer.add_char b "0123456789abcdef".[v land 15]) l

let hex_of_bytes (l : n list) : string =
  let b = Buffer.create (2 * List.length l + 1) in add_hex_of_bytes b l; Buffer.contents b

(* ------------------------------------------------------------------ token cursor readers *)
let tn (t : toks) : n = n_of_hex (word t)
let tz (t : toks) : z = z_of_tok (word t)
let tbytes (t : toks) : n list = bytes_of_hex (word t)
let tcount (t : toks) : int = int_of_string ("0x" ^ word t)
let rec times k f = if k <= 0 then [] else let x = f () in x :: times (k - 1) f

let tv3 t = let x = tn t in let y = tn t in let z = tn t in { vx = x; vy = y; vz = z }
let tv2 t = let x = tn t in let y = tn t in { v2x = x; v2y = y }
let tcf t =
  let p = tv3 t in let x = tv3 t in let y = tv3 t in let z = tv3 t in
  { cf_pos = p; cf_rot = { mx = x; my = y; mz = z } }
let tudim t = let s = tn t in let o = tz t in { ud_scale = s; ud_offset = o }
let tz3 t = let x = tz t in let y = tz t in let z = tz t in ((x, y), z)

let rec parse_value (t : toks) : value =
  match word t with
  | "Axes" -> VAxes (tn t)
  | "BStr" -> VBinaryString (tbytes t)
  | "Bool" -> VBool (match word t with "0" -> false | "1" -> true | w -> failwith ("Bool token " ^ w))
  | "Brick" -> VBrickColor (tn t)
  | "CF" -> VCFrame (tcf t)
  | "C3" -> let r = tn t in let g = tn t in let b = tn t in VColor3 (r, g, b)
  | "C3u8" -> let r = tn t in let g = tn t in let b = tn t in VColor3uint8 (r, g, b)
  | "CSeq" ->
    let k = tcount t in
    VColorSequence (times k (fun () -> let tm = tn t in let r = tn t in let g = tn t in let b = tn t in (tm, ((r, g), b))))
  | "CId" -> VContentId (tbytes t)
  | "Enum" -> VEnum (tn t)
  | "Faces" -> VFaces (tn t)
  | "F32" -> VFloat32 (tn t)
  | "F64" -> VFloat64 (tn t)
  | "I32" -> VInt32 (tz t)
  | "I64" -> VInt64 (tz t)
  | "NR" -> let lo = tn t in let hi = tn t in VNumberRange (lo, hi)
  | "NSeq" ->
    let k = tcount t in
    VNumberSequence (times k (fun () -> let tm = tn t in let v = tn t in let e = tn t in ((tm, v), e)))
  | "Phys" ->
    (match word t with
     | "0" -> VPhysicalProperties None
     | "1" ->
       let d = tn t in let f = tn t in let e = tn t in let fw = tn t in let ew = tn t in
       VPhysicalProperties (Some { ph_density = d; ph_friction = f; ph_elasticity = e; ph_friction_weight = fw; ph_elasticity_weight = ew })
     | w -> failwith ("Phys selector " ^ w))
  | "Ray" -> let o = tv3 t in let d = tv3 t in VRay (o, d)
  | "Rect" -> let lo = tv2 t in let hi = tv2 t in VRect (lo, hi)
  | "Ref" -> VRef (tn t)
  | "R3" -> let lo = tv3 t in let hi = tv3 t in VRegion3 (lo, hi)
  | "R3i16" -> let lo = tz3 t in let hi = tz3 t in VRegion3int16 (lo, hi)
  | "SStr" -> VSharedString (tbytes t)
  | "Str" -> VString (tbytes t)
  | "UDim" -> VUDim (tudim t)
  | "UDim2" -> let x = tudim t in let y = tudim t in VUDim2 (x, y)
  | "V2" -> VVector2 (tv2 t)
  | "V2i16" -> let x = tz t in let y = tz t in VVector2int16 (x, y)
  | "V3" -> VVector3 (tv3 t)
  | "V3i16" -> let x = tz t in let y = tz t in let z = tz t in VVector3int16 (x, y, z)
  | "OCF" -> (match word t with "0" -> VOptionalCFrame None | "1" -> VOptionalCFrame (Some (tcf t)) | w -> failwith ("OCF selector " ^ w))
  | "Tags" -> let k = tcount t in VTags (times k (fun () -> tbytes t))
  | "Attrs" -> VAttributes (parse_attrs t)
  | "Font" ->
    let fam = tbytes t in let w = tn t in let s = tn t in
    let cached = (match word t with "0" -> None | "1" -> Some (tbytes t) | x -> failwith ("Font cached selector " ^ x)) in
    VFont { fo_family = fam; fo_weight = w; fo_style = s; fo_cached = cached }
  | "UId" -> let i = tn t in let tm = tn t in let r = tz t in VUniqueId (i, tm, r)
  | "MatCol" ->
    let k = tcount t in
    VMaterialColors (times k (fun () -> let m = tn t in let r = tn t in let g = tn t in let b = tn t in (m, ((r, g), b))))
  | "SecCap" -> VSecurityCapabilities (tn t)
  | "EItem" -> let ty = tbytes t in let v = tn t in VEnumItem (ty, v)
  | "Content" ->
    (match word t with
     | "0" -> VContent CNone
     | "1" -> VContent (CUri (tbytes t))
     | "2" -> VContent (CObject (tn t))
     | w -> failwith ("Content selector " ^ w))
  | w -> failwith ("unknown value tag " ^ w)

(* `k (name-bytes value){k}` *)
and parse_attrs (t : toks) : (n list * value) list =
  let k = tcount t in
  times k (fun () -> let name = tbytes t in let v = parse_value t in (name, v))

(* ------------------------------------------------------------------ printing *)
let pn b x = Buffer.add_char b ' '; Buffer.add_string b (hex_of_n x)
let pz b x = Buffer.add_char b ' '; Buffer.add_string b (tok_of_z x)
let pb b x = Buffer.add_char b ' '; add_hex_of_bytes b x
let pk b k = Buffer.add_char b ' '; Buffer.add_string b (Printf.sprintf "%x" k)
let pv3 b v = pn b v.vx; pn b v.vy; pn b v.vz
let pv2 b v = pn b v.v2x; pn b v.v2y
let pcf b c = pv3 b c.cf_pos; pv3 b c.cf_rot.mx; pv3 b c.cf_rot.my; pv3 b c.cf_rot.mz
let pudim b u = pn b u.ud_scale; pz b u.ud_offset
let pz3 b ((x, y), z) = pz b x; pz b y; pz b z

(* prints `Tag fields…` without a leading space *)
let rec print_value (b : Buffer.t) (v : value) : unit =
  let tag s = Buffer.add_string b s in
  match v with
  | VAxes x -> tag "Axes"; pn b x
  | VBinaryString s -> tag "BStr"; pb b s
  | VBool x -> tag "Bool"; Buffer.add_string b (if x then " 1" else " 0")
  | VBrickColor x -> tag "Brick"; pn b x
  | VCFrame c -> tag "CF"; pcf b c
  | VColor3 (r, g, bl) -> tag "C3"; pn b r; pn b g; pn b bl
  | VColor3uint8 (r, g, bl) -> tag "C3u8"; pn b r; pn b g; pn b bl
  | VColorSequence l -> tag "CSeq"; pk b (List.length l); List.iter (fun (tm, ((r, g), bl)) -> pn b tm; pn b r; pn b g; pn b bl) l
  | VContentId s -> tag "CId"; pb b s
  | VEnum x -> tag "Enum"; pn b x
  | VFaces x -> tag "Faces"; pn b x
  | VFloat32 x -> tag "F32"; pn b x
  | VFloat64 x -> tag "F64"; pn b x
  | VInt32 x -> tag "I32"; pz b x
  | VInt64 x -> tag "I64"; pz b x
  | VNumberRange (lo, hi) -> tag "NR"; pn b lo; pn b hi
  | VNumberSequence l -> tag "NSeq"; pk b (List.length l); List.iter (fun ((tm, v), e) -> pn b tm; pn b v; pn b e) l
  | VPhysicalProperties None -> tag "Phys 0"
  | VPhysicalProperties (Some p) ->
    tag "Phys 1"; pn b p.ph_density; pn b p.ph_friction; pn b p.ph_elasticity; pn b p.ph_friction_weight; pn b p.ph_elasticity_weight
  | VRay (o, d) -> tag "Ray"; pv3 b o; pv3 b d
  | VRect (lo, hi) -> tag "Rect"; pv2 b lo; pv2 b hi
  | VRef r -> tag "Ref"; pn b r
  | VRegion3 (lo, hi) -> tag "R3"; pv3 b lo; pv3 b hi
  | VRegion3int16 (lo, hi) -> tag "R3i16"; pz3 b lo; pz3 b hi
  | VSharedString s -> tag "SStr"; pb b s
  | VString s -> tag "Str"; pb b s
  | VUDim u -> tag "UDim"; pudim b u
  | VUDim2 (x, y) -> tag "UDim2"; pudim b x; pudim b y
  | VVector2 v -> tag "V2"; pv2 b v
  | VVector2int16 (x, y) -> tag "V2i16"; pz b x; pz b y
  | VVector3 v -> tag "V3"; pv3 b v
  | VVector3int16 (x, y, z) -> tag "V3i16"; pz b x; pz b y; pz b z
  | VOptionalCFrame None -> tag "OCF 0"
  | VOptionalCFrame (Some c) -> tag "OCF 1"; pcf b c
  | VTags l -> tag "Tags"; pk b (List.length l); List.iter (pb b) l
  | VAttributes m -> tag "Attrs"; print_attrs b m
  | VFont f ->
    tag "Font"; pb b f.fo_family; pn b f.fo_weight; pn b f.fo_style;
    (match f.fo_cached with None -> Buffer.add_string b " 0" | Some s -> Buffer.add_string b " 1"; pb b s)
  | VUniqueId (i, tm, r) -> tag "UId"; pn b i; pn b tm; pz b r
  | VMaterialColors l -> tag "MatCol"; pk b (List.length l); List.iter (fun (m, ((r, g), bl)) -> pn b m; pn b r; pn b g; pn b bl) l
  | VSecurityCapabilities x -> tag "SecCap"; pn b x
  | VEnumItem (ty, x) -> tag "EItem"; pb b ty; pn b x
  | VContent CNone -> tag "Content 0"
  | VContent (CUri s) -> tag "Content 1"; pb b s
  | VContent (CObject r) -> tag "Content 2"; pn b r

(* prints ` k (name value){k}` WITH a leading space (the payload after a tag / after `OK`) *)
and print_attrs (b : Buffer.t) (m : (n list * value) list) : unit =
  pk b (List.length m);
  List.iter (fun (name, v) -> pb b name; Buffer.add_char b ' '; print_value b v) m

let value_string (v : value) : string =
  let b = Buffer.create 256 in print_value b v; Buffer.contents b

(* `OK <payload>` / `ERR <code>` / `PANIC` / `FUEL` for a model result *)
let res_string (payload : Buffer.t -> 'a -> unit) (r : 'a res) : string =
  match r with
  | Ok a -> let b = Buffer.create 256 in Buffer.add_string b "OK"; payload b a; Buffer.contents b
  | Err c -> "ERR " ^ hex_of_n c
  | Panic -> "PANIC"
  | OutOfFuel -> "FUEL"
