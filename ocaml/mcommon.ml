(* mcommon: shared helpers of modelrun; runs the extracted Coq models on case files written by the Rust harness and prints
   observations in exactly the harness's format.  No model logic lives here: only parsing,
   number conversion and printing. *)
open Model
(* Model (extracted Coq) defines its own inductive `string`; here and in every module that opens Mcommon after
   Model, `string` is OCaml's *)
type string = String.t

let rec pos_of_int i = if i = 1 then XH else if i land 1 = 0 then XO (pos_of_int (i lsr 1)) else XI (pos_of_int (i lsr 1))
let n_of_int i = if i = 0 then N0 else Npos (pos_of_int i)
let rec int_of_pos = function XH -> 1 | XO p -> 2 * int_of_pos p | XI p -> 2 * int_of_pos p + 1
let int_of_n = function N0 -> 0 | Npos p -> int_of_pos p
let rec nat_of_int i = if i = 0 then O else S (nat_of_int (i - 1))
let rec int_of_nat = function O -> 0 | S n -> 1 + int_of_nat n

(* token cursor *)
type toks = { v : string array; mutable i : int }
let toks_of_line l = { v = Array.of_list (List.filter (fun s -> s <> "") (String.split_on_char ' ' l)); i = 0 }
let word t = let s = t.v.(t.i) in t.i <- t.i + 1; s
let num t = int_of_string (word t)
let nn t = n_of_int (num t)

(* read "case id / lines / end" blocks *)
let read_cases path =
  let ic = open_in path in
  let cases = ref [] and cur = ref None in
  (try while true do
    let line = input_line ic in
    if String.length line > 5 && String.sub line 0 5 = "case " then
      cur := Some (String.sub line 5 (String.length line - 5), [])
    else if line = "end" then
      (match !cur with Some (id, ls) -> cases := (id, List.rev ls) :: !cases; cur := None | None -> ())
    else match !cur with
      | Some (id, ls) when String.trim line <> "" -> cur := Some (id, line :: ls)
      | _ -> ()
  done with End_of_file -> close_in ic);
  List.rev !cases

