(* serde17: the modelled items of the C17 case files (see harness/src/serde17.rs) through the extracted Coq
   models Hex, Tags, MaterialColors, BitSets, BrickColorTbl over the regenerated tables of Gen/Types17.
   Unmodelled items (`v`, `fixture`) produce no observation on either side.
   No model logic lives here: parsing, number conversion and printing only. *)
open Model
open Mcommon
open Mvalue

let pie_class c =
  match int_of_n c with
  | 1 -> "empty" | 2 -> "invalid" | 3 -> "pos" | 4 -> "neg" | 5 -> "len" | 10 -> "name" | 11 -> "bits"
  | 20 -> "utf8" | 30 -> "len" | k -> Printf.sprintf "code%d" k

let res_str (ok : 'a -> string) (r : 'a res) : string =
  match r with
  | Ok a -> "OK " ^ ok a
  | Err c -> "ERR " ^ pie_class c
  | Panic -> "PANIC"
  | OutOfFuel -> "OUTOFFUEL"

let list_tokens (l : n list list) : string =
  String.concat " " (Printf.sprintf "%x" (List.length l) :: List.map hex_of_bytes l)

let mc_tokens (m : mcolors) : string =
  String.concat " " (Printf.sprintf "%x" (List.length m) ::
    List.map (fun (k, ((r, g), b)) -> Printf.sprintf "%s %s %s %s" (hex_of_n k) (hex_of_n r) (hex_of_n g) (hex_of_n b)) m)

let uid_ok ((i, t), r) = Printf.sprintf "%s %s %s" (hex_of_n i) (hex_of_n t) (tok_of_z r)

let rest_bytes t = let k = tcount t in times k (fun () -> tbytes t)

let flags kind tbl t =
  let b = tn t in
  match flags_from_bits tbl b with
  | Some x ->
    let names = flags_names tbl x in
    Some (Printf.sprintf "%s SOME %s %s" kind (list_tokens names) (res_str hex_of_n (flags_of_names tbl N0 names)))
  | None -> Some (Printf.sprintf "%s NONE ERR bits" kind)

let item (line : string) : string option =
  let t = toks_of_line line in
  match word t with
  | "ref" ->
    let n = tn t in
    let d = ref_display n in
    Some (Printf.sprintf "ref %s %s" (hex_of_bytes d) (res_str hex_of_n (ref_from_str d)))
  | "refp" -> Some ("refp " ^ res_str hex_of_n (ref_from_str (tbytes t)))
  | "uid" ->
    let i = tn t in let tm = tn t in let r = tz t in
    let d = uid_display i tm r in
    Some (Printf.sprintf "uid %s %s" (hex_of_bytes d) (res_str uid_ok (uid_from_str d)))
  | "uidp" -> Some ("uidp " ^ res_str uid_ok (uid_from_str (tbytes t)))
  | "tags" ->
    let ts = rest_bytes t in
    let e = tags_encode ts in
    Some (Printf.sprintf "tags %s %s" (hex_of_bytes e) (res_str list_tokens (tags_decode e)))
  | "tagsd" -> Some ("tagsd " ^ res_str list_tokens (tags_decode (tbytes t)))
  | "mc" ->
    let k = tcount t in
    (* MaterialColors::set_color in the order given: a sorted map, later entries replace earlier ones *)
    let entries = times k (fun () -> let i = tn t in let r = tn t in let g = tn t in let b = tn t in (i, ((r, g), b))) in
    let m = List.fold_left (fun m (i, c) -> mc_insert i c m) [] entries in
    let e = mc_encode material_table m in
    Some (Printf.sprintf "mc %s %s" (hex_of_bytes e) (res_str mc_tokens (mc_decode material_table e)))
  | "mcd" -> Some ("mcd " ^ res_str mc_tokens (mc_decode material_table (tbytes t)))
  | "faces" -> flags "faces" fACES t
  | "axes" -> flags "axes" aXES t
  | "facesn" -> Some ("facesn " ^ res_str hex_of_n (flags_of_names fACES N0 (rest_bytes t)))
  | "axesn" -> Some ("axesn " ^ res_str hex_of_n (flags_of_names aXES N0 (rest_bytes t)))
  | "brick" ->
    (match bc_from_number brick_entries (tn t) with
     | None -> Some "brick NONE"
     | Some ((_, name), ((r, g), b)) ->
       let back = match bc_from_name brick_entries name with Some ((n', _), _) -> hex_of_n n' | None -> "NONE" in
       Some (Printf.sprintf "brick SOME %s %s %s %s %s" (hex_of_bytes name) (hex_of_n r) (hex_of_n g) (hex_of_n b) back))
  | "brickn" ->
    Some (match bc_from_name brick_entries (tbytes t) with
          | Some ((n', _), _) -> "brickn SOME " ^ hex_of_n n'
          | None -> "brickn NONE")
  | "fontw" | "fonts" as kind ->
    let (from, as_) = if kind = "fontw" then (font_weight_from, font_weight_as) else (font_style_from, font_style_as) in
    Some (match num_to_variant from (tn t) with
          | None -> kind ^ " NONE"
          | Some v ->
            (match variant_to_num as_ v with
             | Some k -> Printf.sprintf "%s SOME %s %s" kind (hex_of_n k) (hex_of_bytes v)
             | None -> kind ^ " SOME ? " ^ hex_of_bytes v))
  | "v" | "fixture" -> None
  | other -> Some ("BADCASE unknown item kind `" ^ other ^ "`")

let run path out =
  let oc = open_out out in
  List.iter (fun (id, lines) ->
    Printf.fprintf oc "case %s\n" id;
    List.iter (fun l ->
      match (try item l with Failure m -> Some ("BADCASE " ^ m) | Invalid_argument m -> Some ("BADCASE " ^ m)) with
      | Some o -> output_string oc o; output_char oc '\n'
      | None -> ()) lines;
    output_string oc "end\n") (read_cases path);
  close_out oc

let cli = function
  | "serde17" :: path :: out :: _ -> run path out; true
  | _ -> false
