#!/bin/sh
# extract the Coq models and build modelrun (offline; ocamlfind ocamlopt)
set -e
cd "$(dirname "$0")"
coqc -q -Q ../coq RbxVerif ../coq/Extract/Extract.v > /dev/null
RUNS=$(ls run_*.ml | sort)
ocamlfind ocamlopt -O2 -w -a model.mli model.ml mcommon.ml $RUNS modelrun.ml -o modelrun 2>/dev/null || \
ocamlfind ocamlopt -w -a model.mli model.ml mcommon.ml $RUNS modelrun.ml -o modelrun
