(* attr: runs the extracted attribute codec (coq/Model/Attr.v) and the independent document codec
   (coq/Spec/AttrSpec.v) on the case files of harness/src/attr.rs and prints observations in exactly
   the harness's format.  Lines prefixed `SPEC ` are the spec-side results; the driver (tools/props.py,
   class Attr) compares them with the model-side lines:
     map case:    enc <r> / dec <r>                       model = implementation, line by line
                  SPEC dec <r>      spec_decode (attr_encode m)        must equal the `dec` payload
                  SPEC enc <r>      spec_encode m                      (fed back to the implementation)
                  SPEC rdec <r>     attr_decode (spec_encode m)        must equal `SPEC want`
                  SPEC want <r>     Ok (spec_norm m)
     bytes case:  dec <r>                                 model = implementation
                  SPEC bdec <r>     spec_decode bytes                  (statistics; ERR here => not OK there)
   No model logic lives here. *)
open Model
open Mcommon
open Mvalue

let amap_payload b m = print_attrs b m
let bytes_payload b l = Buffer.add_char b ' '; add_hex_of_bytes b l

let parse_map lines =
  List.filter_map (fun l ->
    let t = toks_of_line l in
    match word t with
    | "e" -> let name = tbytes t in let v = parse_value t in Some (name, v)
    | _ -> None) lines

let opt_id = function Some x -> hex_of_n x | None -> "none"

let brick_blob k =
  List.map n_of_int [1; 0; 0; 0; 1; 0; 0; 0; 99; 0x0e; k land 255; k lsr 8; 0; 0]

let run path out =
  let oc = open_out out in
  let pr s = output_string oc s; output_char oc '\n' in
  List.iter (fun (id, lines) ->
    pr ("case " ^ id);
    (match lines with
     | [] -> ()
     | first :: _ ->
       let t = toks_of_line first in
       (match word t with
        | "map" ->
          let m = parse_map lines in
          let e = attr_encode m in
          pr ("enc " ^ res_string bytes_payload e);
          (match e with
           | Ok bytes ->
             pr ("dec " ^ res_string amap_payload (attr_decode bytes));
             pr ("SPEC dec " ^ res_string amap_payload (spec_decode bytes))
           | _ -> ());
          let se = spec_encode m in
          pr ("SPEC enc " ^ res_string bytes_payload se);
          (match se with
           | Ok sb ->
             pr ("SPEC rdec " ^ res_string amap_payload (attr_decode sb));
             pr ("SPEC want " ^ res_string amap_payload (Ok (spec_norm m)))
           | _ -> ())
        | "bytes" ->
          let b = tbytes t in
          pr ("dec " ^ res_string amap_payload (attr_decode b));
          pr ("SPEC bdec " ^ res_string amap_payload (spec_decode b))
        | "bricksweep" ->
          let buf = Buffer.create 1024 in
          Buffer.add_string buf "bricks";
          for k = 0 to 65535 do
            match attr_decode (brick_blob k) with
            | Ok [ (_, VBrickColor c) ] when int_of_n c = k -> Buffer.add_string buf (Printf.sprintf " %x" k)
            | _ -> ()
          done;
          pr (Buffer.contents buf)
        | "vec3" -> pr ("nid " ^ opt_id (to_normal_id (tv3 t)))
        | "rot" ->
          let x = tv3 t in let y = tv3 t in let z = tv3 t in
          pr ("rid " ^ opt_id (to_basic_rotation_id { mx = x; my = y; mz = z }))
        | "fromid" ->
          (match from_basic_rotation_id (tn t) with
           | Some m -> let b = Buffer.create 64 in Buffer.add_string b "mat"; pv3 b m.mx; pv3 b m.my; pv3 b m.mz; pr (Buffer.contents b)
           | None -> pr "none")
        | w -> pr ("BADCASE unknown kind `" ^ w ^ "`")));
    pr "end") (read_cases path);
  close_out oc

let cli = function
  | "attr" :: path :: out :: _ -> run path out; true
  | _ -> false
