(* mforest: the forest case format of /verif/notes/forest-format.md <-> the Coq DOM record
   (coq/Model/CodecDom.v `inst`, `cdom`), and the decoded-DOM observation printer.  Shared by the
   binary and XML slices.  No model logic: parsing, label renumbering and printing only. *)
open Model
open Mcommon
open Mvalue

type forest = {
  opts : (string * string) list;
  sstr : (n list * n list) list;        (* content, blake3 hash *)
  nodes : cdom;                         (* parents first, siblings in child order; props in listed order *)
  roots : n list;
}

let parse_case (lines : string list) : forest =
  let opts = ref [] and sstr = ref [] and nodes = ref [] and roots = ref [] in
  let rec go = function
    | [] -> ()
    | l :: rest ->
      let t = toks_of_line l in
      if Array.length t.v = 0 then go rest else
      (match word t with
       | "opt" -> let k = word t in let v = if t.i < Array.length t.v then word t else "" in
         opts := (k, v) :: !opts; go rest
       | "sstr" -> let c = tbytes t in let h = tbytes t in sstr := (c, h) :: !sstr; go rest
       | "node" ->
         let label = tn t in let parent = tn t in let cls = tbytes t in let name = tbytes t in
         let np = tcount t in
         let rec props k ls acc =
           if k = 0 then (List.rev acc, ls) else
           match ls with
           | [] -> failwith "missing prop line"
           | pl :: ls' ->
             let pt = toks_of_line pl in
             if word pt <> "prop" then failwith "expected prop line";
             let pname = tbytes pt in
             let v = parse_value pt in
             props (k - 1) ls' ((pname, v) :: acc) in
         let (ps, rest') = props np rest [] in
         nodes := mk_inst label parent cls name ps :: !nodes;
         go rest'
       | "roots" -> while t.i < Array.length t.v do roots := tn t :: !roots done; go rest
       | _ -> go rest) in
  go lines;
  { opts = List.rev !opts; sstr = List.rev !sstr; nodes = List.rev !nodes; roots = List.rev !roots }

let rec map_refs (f : n -> n) (v : value) : value =
  match v with
  | VRef r -> VRef (f r)
  | VContent (CObject r) -> VContent (CObject (f r))
  | VAttributes m -> VAttributes (List.map (fun (k, x) -> (k, map_refs f x)) m)
  | _ -> v

let ints_of_bytes (b : n list) : int list = List.map int_of_n b

(* observation of a decoded DOM given in construction order: pre-order labels from 1, props sorted by name *)
let print_dom (b : Buffer.t) (d : cdom) : unit =
  let kids : (int, cdom) Hashtbl.t = Hashtbl.create 64 in
  let fields x = let ((((r, p), c), nm), ps) = inst_fields x in (r, p, c, nm, ps) in
  let iref x = let (r, _, _, _, _) = fields x in r in
  List.iter (fun x ->
    let (_, xp, _, _, _) = fields x in
    let p = int_of_n xp in
    let cur = try Hashtbl.find kids p with Not_found -> [] in
    Hashtbl.replace kids p (x :: cur)) d;
  let children p = List.rev (try Hashtbl.find kids p with Not_found -> []) in
  (* iterative pre-order *)
  let order = ref [] in
  let stack = ref (children 0) in
  while !stack <> [] do
    match !stack with
    | [] -> ()
    | x :: rest -> order := x :: !order; stack := children (int_of_n (iref x)) @ rest
  done;
  let order = List.rev !order in
  let labels : (int, int) Hashtbl.t = Hashtbl.create 64 in
  List.iteri (fun k x -> Hashtbl.replace labels (int_of_n (iref x)) (k + 1)) order;
  let relabel r = match Hashtbl.find_opt labels (int_of_n r) with Some l -> n_of_int l | None -> N0 in
  List.iter (fun x ->
    let (xr, xp, xc, xn, xps) = fields x in
    let props = List.sort (fun (a, _) (c, _) -> compare (ints_of_bytes a) (ints_of_bytes c)) xps in
    Buffer.add_string b (Printf.sprintf "node %x %x " (Hashtbl.find labels (int_of_n xr))
                           (match Hashtbl.find_opt labels (int_of_n xp) with Some l -> l | None -> 0));
    add_hex_of_bytes b xc; Buffer.add_char b ' ';
    add_hex_of_bytes b xn;
    Buffer.add_string b (Printf.sprintf " %x\n" (List.length props));
    List.iter (fun (k, v) ->
      Buffer.add_string b "prop "; add_hex_of_bytes b k; Buffer.add_char b ' ';
      print_value b (map_refs relabel v); Buffer.add_char b '\n') props) order
