(* binfile: runs the extracted Coq model of the rbx_binary file codec (coq/Model/BinFile.v) on the forest
   cases written by `rbxverif binfile-gen` and prints exactly the observation lines of
   `rbxverif binfile-run` (see harness/src/binfile.rs).  The parameters of the model that are observed
   on the implementation (hash iteration orders, colour quantisation, SharedString hashes) come from
   the hints file `<cases>.hints` written by binfile-run.
     modelrun binfile <real|empty> CASES OUT
   The reflection database is the extracted Gen/Database.database of the self-contained unit Dbmodel;
   both units are extracted from the same Coq inductives (Db.db, Value.value), so the value is
   re-typed with Obj.magic (checked below on a lookup).  No model logic here. *)
open Model
open Mcommon
open Mvalue
open Mforest
open Mbin

type hints = {
  order : (int, n list list) Hashtbl.t;
  asets : (n list list * n list list) list;
  quant : (int, n) Hashtbl.t;
  hsstr : (n list * n list) list;
}

let parse_hints (lines : string list) : hints =
  let h = { order = Hashtbl.create 16; asets = []; quant = Hashtbl.create 64; hsstr = [] } in
  let asets = ref [] and hs = ref [] in
  List.iter (fun l ->
    let t = toks_of_line l in
    if Array.length t.v > 0 then
      match word t with
      | "order" ->
        let lab = tcount t in
        let names = ref [] in
        while t.i < Array.length t.v do names := tbytes t :: !names done;
        Hashtbl.replace h.order lab (List.rev !names)
      | "aset" ->
        let k = tcount t in
        let ins = times k (fun () -> tbytes t) in
        let it = times k (fun () -> tbytes t) in
        asets := (ins, it) :: !asets
      | "quant" -> let x = tcount t in let q = tn t in Hashtbl.replace h.quant x q
      | "sstr" -> let c = tbytes t in let hh = tbytes t in hs := (c, hh) :: !hs
      | _ -> ()) lines;
  { h with asets = !asets; hsstr = !hs }

exception Model_fail of string

let apply_order (h : hints) x =
  let ((((r, p), c), nm), ps) = inst_fields x in
  match Hashtbl.find_opt h.order (int_of_n r) with
  | None -> x
  | Some names ->
    let props = List.map (fun k ->
      match List.assoc_opt k ps with
      | Some v -> (k, v)
      | None -> raise (Model_fail "order-hint-names")) names in
    if List.length props <> List.length ps then raise (Model_fail "order-hint-length");
    mk_inst r p c nm props


let dom_lines (r : cdom res) : string list =
  match r with
  | Ok d ->
    let b = Buffer.create 4096 in
    print_dom b d;
    let body = String.split_on_char '\n' (Buffer.contents b) in
    ("DOM" :: List.filter (fun s -> s <> "") body) @ ["ENDDOM"]
  | Err c -> ["ERR " ^ dec_class c]
  | Panic -> ["PANIC"]
  | OutOfFuel -> ["FUEL"]

let run (dbmode : string) (cases : string) (out : string) : unit =
  let db = if dbmode = "empty" then empty_db else Lazy.force real_db in
  let hints_tbl = Hashtbl.create 64 in
  (try List.iter (fun (id, ls) -> Hashtbl.replace hints_tbl id ls) (read_cases (cases ^ ".hints"))
   with Sys_error _ -> ());
  let oc = open_out out in
  List.iter (fun (id, lines) ->
    Printf.fprintf oc "case %s\n" id;
    (try
      let f = parse_case lines in
      let h = parse_hints (try Hashtbl.find hints_tbl id with Not_found -> []) in
      let dom = List.map (apply_order h) f.nodes in
      let ep = {
        ep_font = font_migration_table; ep_brick = brick_color_table;
        ep_quant = (fun x -> match Hashtbl.find_opt h.quant (int_of_n x) with
                             | Some q -> q | None -> raise (Model_fail "quant-hint-missing"));
        ep_order = (fun seq -> match seq with
                               | [] | [_] -> seq
                               | _ -> (match List.assoc_opt seq h.asets with Some it -> it | None -> []));
        ep_hash = f.sstr @ h.hsstr } in
      let dp = { dp_font = font_migration_table; dp_brick = brick_color_table;
                 dp_inflate = (fun _ _ -> None); dp_fresh_uid = fresh_uid; dp_lim = None } in
      let enc_line tag r payload =
        match r with
        | Ok a -> Printf.fprintf oc "enc %s %s\n" tag (payload a)
        | Err c -> Printf.fprintf oc "enc %s ERR %s\n" tag (enc_class c)
        | Panic -> Printf.fprintf oc "enc %s PANIC\n" tag
        | OutOfFuel -> Printf.fprintf oc "enc %s FUEL\n" tag in
      (* ---- none *)
      let r = encode_file db ep None dom f.roots in
      enc_line "none" r (fun b -> "BYTES " ^ hex_of_bytes b);
      let none_dec = (match r with
        | Ok b ->
          let dl = dom_lines (decode_file db dp b) in
          Printf.fprintf oc "dec none %s\n" (List.hd dl);
          List.iter (fun l -> output_string oc l; output_char oc '\n') (List.tl dl);
          Some dl
        | _ -> Printf.fprintf oc "dec none SKIP\n"; None) in
      (* ---- lz4 / zstd: the de-framed chunk list *)
      let rc = encode_chunks db ep dom f.roots in
      let chunk_payload e =
        let b = Buffer.create 4096 in
        Buffer.add_string b "CHUNKS "; add_hex_of_bytes b e.en_header;
        List.iter (fun (nm, p) -> Buffer.add_char b ' '; add_hex_of_bytes b nm; Buffer.add_char b ' '; add_hex_of_bytes b p)
          (e.en_chunks @ [(cH_END, fILE_FOOTER)]);
        Buffer.contents b in
      let chunk_dec = (match rc with
        | Ok e -> Some (dom_lines (decode_chunks db dp e.en_header (e.en_chunks @ [(cH_END, fILE_FOOTER)])))
        | _ -> None) in
      List.iter (fun tag ->
        enc_line tag rc chunk_payload;
        match chunk_dec with
        | None -> Printf.fprintf oc "dec %s SKIP\n" tag
        | Some dl ->
          if Some dl = none_dec then Printf.fprintf oc "dec %s SAME\n" tag
          else begin
            Printf.fprintf oc "dec %s %s\n" tag (List.hd dl);
            List.iter (fun l -> output_string oc l; output_char oc '\n') (List.tl dl)
          end) ["lz4"; "zstd"]
    with
    | Model_fail m -> Printf.fprintf oc "MODELFAIL %s\n" m
    | Failure m -> Printf.fprintf oc "MODELFAIL %s\n" m);
    output_string oc "end\n") (read_cases cases);
  close_out oc

let cli = function
  | "binfile" :: dbmode :: cases :: out :: _ -> run dbmode cases out; true
  | _ -> false
