(* Property C12 — UniqueId values stay unique within a DOM and change only on collision (statements only). *)
From RbxVerif Require Import Base Dom Tree BaseFacts DomFacts.

Theorem C12_insert_registers_uid : forall d nu r i d' nu',
  inner_insert d nu r i = (d', nu') ->
  exists i', lookup r (d_insts d') = Some i' /\
             (forall u, get_uid (i_props i') = Some u -> mem u (d_uids d') = true) /\
             (forall x, x <> r -> lookup x (d_insts d') = lookup x (d_insts d)).
Proof. exact inner_insert_uid. Qed.
