(* Property C12 — UniqueId values stay unique within a DOM and change only on collision (statements only).
   Uniqueness is part of `Rep` (NoDup of the ids held, id set = ids held) and therefore of `WF`
   (clauses 5 and 6), and every refinement lemma re-establishes it; "changes only on collision" is the
   specification's `settle` rule, which the refinement lemmas show the concrete code follows. *)
From RbxVerif Require Import Base Dom Tree BaseFacts DomFacts TreeFacts Rep RepWF
  RefDestroy RefMoveWithin RefInsert RefMove.

Theorem C12_unique_in_wf : forall d a, Rep d a -> WF d.
Proof. exact rep_wf. Qed.
Theorem C12_insert_settles : refines_insert.
Proof. exact insert_refines. Qed.
Theorem C12_transfer_settles : refines_move.
Proof. exact move_refines. Qed.
Theorem C12_destroy_frees : refines_destroy.
Proof. exact destroy_refines. Qed.

Theorem C12_insert_registers_uid : forall d nu r i d' nu',
  inner_insert d nu r i = (d', nu') ->
  exists i', lookup r (d_insts d') = Some i' /\
             (forall u, get_uid (i_props i') = Some u -> mem u (d_uids d') = true) /\
             (forall x, x <> r -> lookup x (d_insts d') = lookup x (d_insts d)).
Proof. exact inner_insert_uid. Qed.

(* freshly generated ids never repeat, for any number of threads and any interleaving of their calls
   (UniqueId::now() takes its index by one atomic fetch_add; fewer than 2^32 calls per process) *)
From RbxVerif Require Import UidGen UidGenFacts.
Theorem C12_now_distinct_any_schedule : forall sched ctr,
  ctr < U32 -> N.of_nat (length sched) <= U32 -> NoDup (List.map snd (run_sched sched ctr)).
Proof. exact now_distinct_any_schedule. Qed.
