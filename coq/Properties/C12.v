(* Property C12 — UniqueId values stay unique within a DOM and change only on collision (statements only).
   Uniqueness is part of `Rep` (NoDup of the ids held, id set = ids held) and therefore of `WF`
   (clauses 5 and 6), and every refinement lemma re-establishes it; "changes only on collision" is the
   specification's `settle` rule, which the refinement lemmas show the concrete code follows. *)
From RbxVerif Require Import Base Dom Tree BaseFacts DomFacts TreeFacts Rep RepWF
  RefDestroy RefMoveWithin RefInsert RefMove.

Theorem C12_unique_in_wf : forall d a, Rep d a -> WF d.
Proof. exact rep_wf. Qed.
Theorem C12_insert_settles : refines_insert.
Proof. exact insert_refines. Qed.
Theorem C12_transfer_settles : refines_move.
Proof. exact move_refines. Qed.
Theorem C12_destroy_frees : refines_destroy.
Proof. exact destroy_refines. Qed.

Theorem C12_insert_registers_uid : forall d nu r i d' nu',
  inner_insert d nu r i = (d', nu') ->
  exists i', lookup r (d_insts d') = Some i' /\
             (forall u, get_uid (i_props i') = Some u -> mem u (d_uids d') = true) /\
             (forall x, x <> r -> lookup x (d_insts d') = lookup x (d_insts d)).
Proof. exact inner_insert_uid. Qed.

(* freshly generated ids never repeat, for any number of threads and any interleaving of their calls
   (UniqueId::now() takes its index by one atomic fetch_add; fewer than 2^32 calls per process) *)
From RbxVerif Require Import UidGen UidGenFacts.
Theorem C12_now_distinct_any_schedule : forall sched ctr,
  ctr < U32 -> N.of_nat (length sched) <= U32 -> NoDup (List.map snd (run_sched sched ctr)).
Proof. exact now_distinct_any_schedule. Qed.

(* ==== file decoding (binary reader model, Proofs/BinFinish.v): finish applies WeakDom::insert's rule — an instance keeps its
   UniqueId (and its whole property table) exactly unless an earlier-built instance already holds that id, in which case it gets
   the fresh one; the ids other than the fresh one are pairwise distinct in every decoded DOM.  The model draws ONE fresh id per
   decode (dp_fresh_uid), so full uniqueness is stated for at most one holder of the fresh id; the implementation draws a new
   UniqueId::now() per collision (C12_now_distinct_any_schedule) *)
From RbxVerif Require Import Bytes Value CodecDom BinValues BinFile BinFinish.
Open Scope N_scope.

Theorem C12_bin_uid_pass_kept :
  forall (D : Z -> dinst) (p : dec_params) (l1 : list (Z * N)) (k : Z) (par : N) 
         (l2 : list (Z * N)) (uids : list value),
       (forall u : value, orig_uid D k = Some u -> ~ In u (uid_state D p uids l1)) ->
       exists uids' : list value,
         uid_pass D p uids (l1 ++ (k, par) :: l2) =
         uid_pass D p uids l1 ++
         {|
           i_ref := di_label (D k);
           i_parent := par;
           i_class := di_class (D k);
           i_name := di_name (D k);
           i_props := collect_props (di_props (D k))
         |} :: uid_pass D p uids' l2.
Proof. exact uid_pass_kept. Qed.

Theorem C12_bin_uid_pass_replaced :
  forall (D : Z -> dinst) (p : dec_params) (l1 : list (Z * N)) (k : Z) (par : N) 
         (l2 : list (Z * N)) (uids : list value) (u : value),
       orig_uid D k = Some u ->
       In u (uid_state D p uids l1) ->
       exists uids' : list value,
         uid_pass D p uids (l1 ++ (k, par) :: l2) =
         uid_pass D p uids l1 ++
         {|
           i_ref := di_label (D k);
           i_parent := par;
           i_class := di_class (D k);
           i_name := di_name (D k);
           i_props := bupd UNIQUE_ID (dp_fresh_uid p) (collect_props (di_props (D k)))
         |} :: uid_pass D p uids' l2.
Proof. exact uid_pass_replaced. Qed.

Theorem C12_bin_uid_pass_no_collision :
  forall (D : Z -> dinst) (p : dec_params) (l : list (Z * N)) (uids : list value),
       NoDup (origs D l) ->
       (forall v : value, In v (origs D l) -> ~ In v uids) ->
       uid_pass D p uids l =
       List.map
         (fun kp : Z * N =>
          {|
            i_ref := di_label (D (fst kp));
            i_parent := snd kp;
            i_class := di_class (D (fst kp));
            i_name := di_name (D (fst kp));
            i_props := collect_props (di_props (D (fst kp)))
          |}) l.
Proof. exact uid_pass_no_collision. Qed.

Theorem C12_bin_built_uids_unique_but_fresh :
  forall (D : Z -> dinst) (p : dec_params) (F : list ztree), NoDup (nonfresh p (out_uids (built D p F))).
Proof. exact built_uids_unique_but_fresh. Qed.

Theorem C12_bin_built_uids_unique :
  forall (D : Z -> dinst) (p : dec_params) (F : list ztree),
       (forall a b c : list value, out_uids (built D p F) <> a ++ dp_fresh_uid p :: b ++ dp_fresh_uid p :: c) ->
       NoDup (out_uids (built D p F)).
Proof. exact built_uids_unique. Qed.

Theorem C12_bin_built_uids_preserved :
  forall (D : Z -> dinst) (p : dec_params) (F : list ztree),
       NoDup (origs D (List.map qproj (bfs_all D F))) ->
       built D p F =
       List.map
         (fun tp : ztree * N =>
          {|
            i_ref := lab D (zroot (fst tp));
            i_parent := snd tp;
            i_class := di_class (D (zroot (fst tp)));
            i_name := di_name (D (zroot (fst tp)));
            i_props := collect_props (di_props (D (zroot (fst tp))))
          |}) (bfs_all D F).
Proof. exact built_uids_preserved. Qed.


(* ==== WeakDom::from_raw (dom.into_raw()) (Model/DomRaw.v, Proofs/DomRawFacts.v): for every well-formed DOM — hence every DOM a
   history of operations produces — whose `UniqueId` key only holds UniqueId values, rebuilding the DOM from its raw parts does
   not panic, keeps table and root, and rebuilds an id set with exactly the members of the set the DOM maintained, whatever
   the iteration order of the table *)
From RbxVerif Require Import DomRaw DomRawFacts.
From Coq Require Import Permutation.

Theorem C12_raw_roundtrip : forall d,
  WF d -> NoDup (keys (d_insts d)) -> uid_typed (d_insts d) ->
  exists us, from_raw (fst (into_raw d)) (snd (into_raw d)) = Ok (mkDom (d_insts d) (d_root d) us) /\
             forall u, mem u us = mem u (d_uids d).
Proof. exact raw_roundtrip. Qed.

Theorem C12_raw_roundtrip_rep : forall d a,
  Rep d a -> uid_typed (d_insts d) ->
  exists us, from_raw (d_root d) (d_insts d) = Ok (mkDom (d_insts d) (d_root d) us) /\
             forall u, mem u us = mem u (d_uids d).
Proof. exact raw_roundtrip_rep. Qed.

Theorem C12_raw_order_irrelevant : forall d m',
  WF d -> NoDup (keys (d_insts d)) -> uid_typed (d_insts d) -> Permutation (d_insts d) m' ->
  exists us, raw_uids m' [] = Some us /\ forall u, mem u us = mem u (d_uids d).
Proof. exact raw_order_irrelevant. Qed.

Theorem C12_raw_duplicate_panics :
  from_raw 1 [(1, mkInst 0 [2] 0 0 [(UIDKEY, PUid 7)]); (2, mkInst 1 [] 0 0 [(UIDKEY, PUid 7)])] = Panic.
Proof. exact raw_duplicate_panics. Qed.
