(* Property C06 — binary and XML encodings of the same DOM decode to equivalent DOMs (statements only).
   The schema-level core: both codecs resolve a (class, property name) pair through their own copy of
   find_property_descriptors; for every database passing the coherence check (in particular the bundled one,
   regenerated on every run) the two lookups agree — same canonical and same serialized descriptor — the
   only permitted difference being a property that does not serialize.  The value-level agreement of the
   two decoders is decided per case by the implementation-side cross-format run (both real writers and
   readers on one DOM stream). *)
From RbxVerif Require Import Base Bytes Value Db DbCheck Database DbFacts.

Theorem C06_desc_lookup_agree : forall d, db_coherent d = true -> forall c p,
  (find_desc_bin d c p = Ok None /\ find_desc_xml d c p = Ok None) \/
  (exists canon ser, find_desc_bin d c p = Ok (Some (canon, Some ser)) /\ find_desc_xml d c p = Ok (Some (canon, ser))) \/
  (exists canon, pd_kind canon = KCanon PDoesNot /\
                 find_desc_bin d c p = Ok (Some (canon, None)) /\ find_desc_xml d c p = Ok None).
Proof. exact desc_lookup_agree. Qed.

Theorem C06_bundled_coherent : db_coherent database = true.
Proof. exact bundled_coherent. Qed.

(* ==== VALUE LEVEL (Proofs/CrossFormat.v): what the binary reader returns for a value and what the XML reader returns for it are related by
   nan_equiv (structural equality, two NaN float components related) for every value in cross_scope — an executable predicate over all 40
   constructors that excludes exactly the classes where the two formats are PROVED to differ: CFrame/OptionalCFrame whose rotation norm_rot moves
   (within epsilon of a basis, -0.0 in an exact basis: binary snaps, XML keeps nine floats), Font with cached face Some "", Content::Object (XML
   writer panics), sequences with < 2 keypoints (XML reader rejects); BrickColor / Tags / MaterialColors agree after the XML reader's conversion
   (typed scope).  Both read-backs are the right-hand sides of the existing per-format round-trip theorems (not re-proved).  Lifted to property
   lists and maps (same canonical names by the lookup agreement; migrations), composed with the binary whole-file theorem (cross_props_binfile: the
   only file-level difference is the regenerated nil/colliding UniqueId), and instantiated for values under a descriptor of another type
   (Color3 in a byte-colour property, Int32->Int64, Float32->Float64).  When a migration FAILS the binary reader drops the property and the XML
   reader fails the decode (inside the recorded class `unmigratable`). *)
From Coq Require Import RelationClasses.
From RbxVerif Require Import Utf8 Rotation BrickColor Attr Tags BinValues BinFile CodecDom XmlEvents XmlValues XmlFile XmlCompound2
  BinValuesFacts3 BinRoundTrip CrossFormat.

Theorem C06_nan_equiv_Equivalence :
  RelationClasses.Equivalence nan_equiv.
Proof. exact nan_equiv_Equivalence. Qed.

Theorem C06_cross_format_values_agree :
  forall (c : enc_ctx) (dc : dec_ctx) (o : xoracle) (v : value),
       xml_oracle_ok o ->
       cross_scope (dc_lim dc) v = true ->
       forall vb vx : value, bin_back c dc v vb -> xml_back o v vx -> nan_equiv vb vx.
Proof. exact cross_format_values_agree. Qed.

Theorem C06_cross_format_values_exist :
  forall (c : enc_ctx) (dc : dec_ctx) (o : xoracle) (v : value),
       xml_oracle_ok o ->
       cross_scope (dc_lim dc) v = true ->
       xml_writes o v -> exists vb vx : value, bin_back c dc v vb /\ xml_back o v vx /\ nan_equiv vb vx.
Proof. exact cross_format_values_exist. Qed.

Theorem C06_cross_format_values_agree_typed :
  forall (c : enc_ctx) (dc : dec_ctx) (o : xoracle) (v : value),
       xml_oracle_ok o ->
       cross_scope_typed (dc_lim dc) v = true ->
       forall vb vx : value, bin_back c dc v vb -> xml_back_typed o v vx -> nan_equiv vb vx.
Proof. exact cross_format_values_agree_typed. Qed.

Theorem C06_cross_format_values_exist_typed :
  forall (c : enc_ctx) (dc : dec_ctx) (o : xoracle) (v : value),
       xml_oracle_ok o ->
       cross_scope_typed (dc_lim dc) v = true ->
       xml_writes o v -> exists vb vx : value, bin_back c dc v vb /\ xml_back_typed o v vx /\ nan_equiv vb vx.
Proof. exact cross_format_values_exist_typed. Qed.

Theorem C06_cross_cframe_differs :
  forall (c : enc_ctx) (dc : dec_ctx) (o : xoracle) (cf : cframe) (vb vx : value),
       display_law o all32 ->
       cframe_ok cf = true ->
       rot_fixed (cf_rot cf) = false ->
       bin_back c dc (VCFrame cf) vb ->
       xml_back o (VCFrame cf) vx ->
       vb = VCFrame {| cf_pos := cf_pos cf; cf_rot := BinValuesFacts3.norm_rot (cf_rot cf) |} /\
       vx = VCFrame (norm_cf cf) /\ ~ nan_equiv vb vx.
Proof. exact cross_cframe_differs. Qed.

Theorem C06_cross_ocf_differs :
  forall (c : enc_ctx) (dc : dec_ctx) (o : xoracle) (cf : cframe) (vb vx : value),
       display_law o all32 ->
       cframe_ok cf = true ->
       rot_fixed (cf_rot cf) = false ->
       bin_back c dc (VOptionalCFrame (Some cf)) vb ->
       xml_back o (VOptionalCFrame (Some cf)) vx ->
       vb = VOptionalCFrame (Some {| cf_pos := cf_pos cf; cf_rot := BinValuesFacts3.norm_rot (cf_rot cf) |}) /\
       vx = VOptionalCFrame (Some (norm_cf cf)) /\ ~ nan_equiv vb vx.
Proof. exact cross_ocf_differs. Qed.

Theorem C06_cross_font_differs :
  forall (c : enc_ctx) (dc : dec_ctx) (o : xoracle) (f : font) (vb vx : value),
       BinValuesFacts3.font_ok (dc_lim dc) f = true ->
       cached_empty f = true ->
       bin_back c dc (VFont f) vb ->
       xml_back o (VFont f) vx ->
       vb =
       VFont
         {| fo_family := fo_family f; fo_weight := fo_weight f; fo_style := fo_style f; fo_cached := None |} /\
       vx = VFont f /\ ~ nan_equiv vb vx.
Proof. exact cross_font_differs. Qed.

Theorem C06_cross_brickcolor_differs :
  forall (c : enc_ctx) (dc : dec_ctx) (o : xoracle) (n : N) (vb vx : value),
       brick_scope n = true ->
       bin_back c dc (VBrickColor n) vb ->
       xml_back o (VBrickColor n) vx ->
       vb = VBrickColor n /\
       vx = VInt32 (Z.of_N n) /\ ~ nan_equiv vb vx /\ try_convert o vx XT_BrickColor = Ok vb.
Proof. exact cross_brickcolor_differs. Qed.

Theorem C06_cross_content_object_differs :
  forall (c : enc_ctx) (dc : dec_ctx) (o : xoracle) (r : N),
       ~ xml_writes o (VContent (CObject r)) /\
       (forall vx : value, ~ xml_back o (VContent (CObject r)) vx) /\
       (in_i32 (ref_id c r) = true ->
        BinValuesFacts3.lim_ok (dc_lim dc) 4 = true ->
        bin_back c dc (VContent (CObject r)) (VContent (CObject (dc_resolve dc (ref_id c r))))).
Proof. exact cross_content_object_differs. Qed.

Theorem C06_cross_nseq_empty_differs :
  forall (c : enc_ctx) (dc : dec_ctx) (o : xoracle),
       bin_back c dc (VNumberSequence []) (VNumberSequence []) /\
       xml_writes o (VNumberSequence []) /\ (forall vx : value, ~ xml_back o (VNumberSequence []) vx).
Proof. exact cross_nseq_empty_differs. Qed.

Theorem C06_cross_names :
  forall (d : db) (ty : wire_type) (class pname : bytes),
       db_coherent d = true ->
       (exists canon ser : pdesc,
          find_desc_xml d (S_ class) (S_ pname) = Ok (Some (canon, ser)) /\
          find_canonical_property d ty class pname =
          Ok (Some (B (pd_name canon), dtype_vt (pd_type canon), mig_of canon))) \/
       find_desc_xml d (S_ class) (S_ pname) = Ok None /\
       find_canonical_property d ty class pname = Ok (Some (pname, to_default_rbx_type ty, None)) \/
       find_desc_xml d (S_ class) (S_ pname) = Ok None /\ find_canonical_property d ty class pname = Ok None.
Proof. exact cross_names. Qed.

Theorem C06_cross_props :
  forall (p : dec_params) (itemsB itemsX : list pitem) (MX : list (bytes * value)),
       Forall2 pitem_rel itemsB itemsX ->
       xml_props (dp_font p) (dp_brick p) itemsX = Some MX ->
       props_rel (bin_props p itemsB) MX /\
       (forall k : bytes, opt_rel nan_equiv (bfind k (bin_props p itemsB)) (bfind k MX)).
Proof. exact cross_props. Qed.

Theorem C06_cross_dom_props :
  forall (c : enc_ctx) (dc : dec_ctx) (o : xoracle) (p : dec_params) (l lB lX : list pitem)
         (MX : list (bytes * value)),
       xml_oracle_ok o ->
       Forall (fun x : pitem => cross_scope_typed (dc_lim dc) (pi_val x) = true) l ->
       Forall2
         (fun x b : pitem =>
          pi_name b = pi_name x /\ pi_mig b = pi_mig x /\ bin_back c dc (pi_val x) (pi_val b)) l lB ->
       Forall2
         (fun x b : pitem =>
          pi_name b = pi_name x /\ pi_mig b = pi_mig x /\ xml_back_typed o (pi_val x) (pi_val b)) l lX ->
       xml_props (dp_font p) (dp_brick p) lX = Some MX ->
       props_rel (bin_props p lB) MX /\
       (forall k : bytes, opt_rel nan_equiv (bfind k (bin_props p lB)) (bfind k MX)).
Proof. exact cross_dom_props. Qed.

Theorem C06_cross_props_binfile :
  forall (p : dec_params) (R : column -> col_read) (ct : bytes * type_info) 
         (k : nat) (iprops : list (bytes * value)) (itemsX : list pitem) (MX : list (bytes * value)),
       uid_norm p (collect_props (read_props p R ct k)) iprops ->
       Forall2 pitem_rel (bin_items R ct k) itemsX ->
       xml_props (dp_font p) (dp_brick p) itemsX = Some MX ->
       props_rel iprops MX \/
       (exists (a b : N) (c : Z),
          bfind UNIQUE_ID MX = Some (VUniqueId a b c) /\
          props_rel iprops (bupd UNIQUE_ID (dp_fresh_uid p) MX)).
Proof. exact cross_props_binfile. Qed.

Theorem C06_cross_migration_failure_differs :
  forall (p : dec_params) (props : list (bytes * value)) (name newname : bytes) (op : migop) (v : value),
       migrate (dp_font p) (dp_brick p) op v = None ->
       bfind newname (collect_props props) = None ->
       add_prop p props name (Some (newname, op)) v = props /\
       xml_add_prop (dp_font p) (dp_brick p) (collect_props props) name (Some (newname, op)) v = None.
Proof. exact cross_migration_failure_differs. Qed.

Theorem C06_cross_color3_as_color3uint8 :
  forall (c : enc_ctx) (dc : dec_ctx) (o : xoracle) (r g b : f32) (cty : N) (vb vx : value),
       cty = VT_Color3 \/ cty = VT_Color3uint8 ->
       (forall x : f32, xo_quant o x = Some (ec_quant c x) /\ ec_quant c x < 256) ->
       bin_back_at WColor3uint8 cty c dc (VColor3 r g b) vb ->
       xml_back_as o XT_Color3uint8 cty (VColor3 r g b) vx ->
       vb = VColor3uint8 (ec_quant c r) (ec_quant c g) (ec_quant c b) /\ vx = vb.
Proof. exact cross_color3_as_color3uint8. Qed.

Theorem C06_cross_int32_as_int64 :
  forall (c : enc_ctx) (dc : dec_ctx) (o : xoracle) (z : Z) (vb vx : value),
       in_i64 z = true ->
       bin_back_at WInt64 VT_Int64 c dc (VInt32 z) vb ->
       xml_back_as o XT_Int64 VT_Int64 (VInt32 z) vx -> vb = VInt64 z /\ vx = vb.
Proof. exact cross_int32_as_int64. Qed.

Theorem C06_cross_float32_as_float64 :
  forall (c : enc_ctx) (dc : dec_ctx) (o : xoracle) (x : f32) (vb vx : value),
       float64_text_law o ->
       f32_ok x = true ->
       bin_back_at WFloat64 VT_Float64 c dc (VFloat32 x) vb ->
       xml_back_as o XT_Float64 VT_Float64 (VFloat32 x) vx -> vb = VFloat64 (f64_of_f32 x) /\ nan_equiv vb vx.
Proof. exact cross_float32_as_float64. Qed.

Theorem C06_samples_agree :
  Forall
         (fun v : value =>
          exists vb vx : value,
            bin_back BinValuesFacts.ectx0 BinValuesFacts.ctx0 v vb /\ xml_back o2 v vx /\ nan_equiv vb vx)
         samples.
Proof. exact samples_agree. Qed.

Theorem C06_samples_typed_agree :
  Forall
         (fun v : value =>
          exists vb vx : value,
            bin_back BinValuesFacts.ectx0 BinValuesFacts.ctx0 v vb /\
            xml_back_typed o2 v vx /\ nan_equiv vb vx) samples_typed.
Proof. exact samples_typed_agree. Qed.

Theorem C06_cframe_negzero_differs :
  exists vb vx : value,
         bin_back BinValuesFacts.ectx0 BinValuesFacts.ctx0 (VCFrame cf_negzero) vb /\
         xml_back o2 (VCFrame cf_negzero) vx /\ ~ nan_equiv vb vx.
Proof. exact cframe_negzero_differs. Qed.

Theorem C06_one_format_only :
  forall (c : enc_ctx) (dc : dec_ctx) (o : xoracle),
       (forall (x y : Z) (vb : value), ~ bin_back c dc (VVector2int16 x y) vb) /\
       (forall (a b : vec3) (vb : value), ~ bin_back c dc (VRegion3 a b) vb) /\
       (forall (a b : vec3) (vx : value), ~ xml_back o (VRegion3 a b) vx) /\
       (forall (a b : Z * Z * Z) (vb : value), ~ bin_back c dc (VRegion3int16 a b) vb) /\
       (forall (a b : Z * Z * Z) (vx : value), ~ xml_back o (VRegion3int16 a b) vx) /\
       (forall (m : list (bytes * value)) (vb : value), ~ bin_back c dc (VAttributes m) vb) /\
       (forall (t : bytes) (n : N) (vx : value), ~ xml_back o (VEnumItem t n) vx) /\
       (forall (r : N) (vx : value), ~ xml_back o (VRef r) vx) /\
       (forall (s : bytes) (vx : value), ~ xml_back o (VSharedString s) vx).
Proof. exact one_format_only. Qed.

