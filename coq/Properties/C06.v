(* Property C06 — binary and XML encodings of the same DOM decode to equivalent DOMs (statements only).
   The schema-level core: both codecs resolve a (class, property name) pair through their own copy of
   find_property_descriptors; for every database passing the coherence check (in particular the bundled one,
   regenerated on every run) the two lookups agree — same canonical and same serialized descriptor — the
   only permitted difference being a property that does not serialize.  The value-level agreement of the
   two decoders is decided per case by the implementation-side cross-format run (both real writers and
   readers on one DOM stream). *)
From RbxVerif Require Import Base Bytes Value Db DbCheck Database DbFacts.

Theorem C06_desc_lookup_agree : forall d, db_coherent d = true -> forall c p,
  (find_desc_bin d c p = Ok None /\ find_desc_xml d c p = Ok None) \/
  (exists canon ser, find_desc_bin d c p = Ok (Some (canon, Some ser)) /\ find_desc_xml d c p = Ok (Some (canon, ser))) \/
  (exists canon, pd_kind canon = KCanon PDoesNot /\
                 find_desc_bin d c p = Ok (Some (canon, None)) /\ find_desc_xml d c p = Ok None).
Proof. exact desc_lookup_agree. Qed.

Theorem C06_bundled_coherent : db_coherent database = true.
Proof. exact bundled_coherent. Qed.

(* ==== VALUE LEVEL (Proofs/CrossFormat.v): what the binary reader returns for a value and what the XML reader returns for it are related by
   nan_equiv (structural equality, two NaN float components related) for every value in cross_scope — an executable predicate over all 40
   constructors that excludes exactly the classes where the two formats are PROVED to differ: CFrame/OptionalCFrame whose rotation norm_rot moves
   (within epsilon of a basis, -0.0 in an exact basis: binary snaps, XML keeps nine floats), Font with cached face Some "", Content::Object (XML
   writer panics), sequences with < 2 keypoints (XML reader rejects); BrickColor / Tags / MaterialColors agree after the XML reader's conversion
   (typed scope).  Both read-backs are the right-hand sides of the existing per-format round-trip theorems (not re-proved).  Lifted to property
   lists and maps (same canonical names by the lookup agreement; migrations), composed with the binary whole-file theorem (cross_props_binfile: the
   only file-level difference is the regenerated nil/colliding UniqueId), and instantiated for values under a descriptor of another type
   (Color3 in a byte-colour property, Int32->Int64, Float32->Float64).  When a migration FAILS the binary reader drops the property and the XML
   reader fails the decode (inside the recorded class `unmigratable`). *)
From Coq Require Import RelationClasses.
From RbxVerif Require Import Utf8 Rotation BrickColor Attr Tags BinValues BinFile CodecDom XmlEvents XmlValues XmlFile XmlCompound2
  BinValuesFacts3 BinRoundTrip CrossFormat.

Theorem C06_nan_equiv_Equivalence :
  RelationClasses.Equivalence nan_equiv.
Proof. exact nan_equiv_Equivalence. Qed.

Theorem C06_cross_format_values_agree :
  forall (c : enc_ctx) (dc : dec_ctx) (o : xoracle) (v : value),
       xml_oracle_ok o ->
       cross_scope (dc_lim dc) v = true ->
       forall vb vx : value, bin_back c dc v vb -> xml_back o v vx -> nan_equiv vb vx.
Proof. exact cross_format_values_agree. Qed.

Theorem C06_cross_format_values_exist :
  forall (c : enc_ctx) (dc : dec_ctx) (o : xoracle) (v : value),
       xml_oracle_ok o ->
       cross_scope (dc_lim dc) v = true ->
       xml_writes o v -> exists vb vx : value, bin_back c dc v vb /\ xml_back o v vx /\ nan_equiv vb vx.
Proof. exact cross_format_values_exist. Qed.

Theorem C06_cross_format_values_agree_typed :
  forall (c : enc_ctx) (dc : dec_ctx) (o : xoracle) (v : value),
       xml_oracle_ok o ->
       cross_scope_typed (dc_lim dc) v = true ->
       forall vb vx : value, bin_back c dc v vb -> xml_back_typed o v vx -> nan_equiv vb vx.
Proof. exact cross_format_values_agree_typed. Qed.

Theorem C06_cross_format_values_exist_typed :
  forall (c : enc_ctx) (dc : dec_ctx) (o : xoracle) (v : value),
       xml_oracle_ok o ->
       cross_scope_typed (dc_lim dc) v = true ->
       xml_writes o v -> exists vb vx : value, bin_back c dc v vb /\ xml_back_typed o v vx /\ nan_equiv vb vx.
Proof. exact cross_format_values_exist_typed. Qed.

Theorem C06_cross_cframe_differs :
  forall (c : enc_ctx) (dc : dec_ctx) (o : xoracle) (cf : cframe) (vb vx : value),
       display_law o all32 ->
       cframe_ok cf = true ->
       rot_fixed (cf_rot cf) = false ->
       bin_back c dc (VCFrame cf) vb ->
       xml_back o (VCFrame cf) vx ->
       vb = VCFrame {| cf_pos := cf_pos cf; cf_rot := BinValuesFacts3.norm_rot (cf_rot cf) |} /\
       vx = VCFrame (norm_cf cf) /\ ~ nan_equiv vb vx.
Proof. exact cross_cframe_differs. Qed.

Theorem C06_cross_ocf_differs :
  forall (c : enc_ctx) (dc : dec_ctx) (o : xoracle) (cf : cframe) (vb vx : value),
       display_law o all32 ->
       cframe_ok cf = true ->
       rot_fixed (cf_rot cf) = false ->
       bin_back c dc (VOptionalCFrame (Some cf)) vb ->
       xml_back o (VOptionalCFrame (Some cf)) vx ->
       vb = VOptionalCFrame (Some {| cf_pos := cf_pos cf; cf_rot := BinValuesFacts3.norm_rot (cf_rot cf) |}) /\
       vx = VOptionalCFrame (Some (norm_cf cf)) /\ ~ nan_equiv vb vx.
Proof. exact cross_ocf_differs. Qed.

Theorem C06_cross_font_differs :
  forall (c : enc_ctx) (dc : dec_ctx) (o : xoracle) (f : font) (vb vx : value),
       BinValuesFacts3.font_ok (dc_lim dc) f = true ->
       cached_empty f = true ->
       bin_back c dc (VFont f) vb ->
       xml_back o (VFont f) vx ->
       vb =
       VFont
         {| fo_family := fo_family f; fo_weight := fo_weight f; fo_style := fo_style f; fo_cached := None |} /\
       vx = VFont f /\ ~ nan_equiv vb vx.
Proof. exact cross_font_differs. Qed.

Theorem C06_cross_brickcolor_differs :
  forall (c : enc_ctx) (dc : dec_ctx) (o : xoracle) (n : N) (vb vx : value),
       brick_scope n = true ->
       bin_back c dc (VBrickColor n) vb ->
       xml_back o (VBrickColor n) vx ->
       vb = VBrickColor n /\
       vx = VInt32 (Z.of_N n) /\ ~ nan_equiv vb vx /\ try_convert o vx XT_BrickColor = Ok vb.
Proof. exact cross_brickcolor_differs. Qed.

Theorem C06_cross_content_object_differs :
  forall (c : enc_ctx) (dc : dec_ctx) (o : xoracle) (r : N),
       ~ xml_writes o (VContent (CObject r)) /\
       (forall vx : value, ~ xml_back o (VContent (CObject r)) vx) /\
       (in_i32 (ref_id c r) = true ->
        BinValuesFacts3.lim_ok (dc_lim dc) 4 = true ->
        bin_back c dc (VContent (CObject r)) (VContent (CObject (dc_resolve dc (ref_id c r))))).
Proof. exact cross_content_object_differs. Qed.

Theorem C06_cross_nseq_empty_differs :
  forall (c : enc_ctx) (dc : dec_ctx) (o : xoracle),
       bin_back c dc (VNumberSequence []) (VNumberSequence []) /\
       xml_writes o (VNumberSequence []) /\ (forall vx : value, ~ xml_back o (VNumberSequence []) vx).
Proof. exact cross_nseq_empty_differs. Qed.

Theorem C06_cross_names :
  forall (d : db) (ty : wire_type) (class pname : bytes),
       db_coherent d = true ->
       (exists canon ser : pdesc,
          find_desc_xml d (S_ class) (S_ pname) = Ok (Some (canon, ser)) /\
          find_canonical_property d ty class pname =
          Ok (Some (B (pd_name canon), dtype_vt (pd_type canon), mig_of canon))) \/
       find_desc_xml d (S_ class) (S_ pname) = Ok None /\
       find_canonical_property d ty class pname = Ok (Some (pname, to_default_rbx_type ty, None)) \/
       find_desc_xml d (S_ class) (S_ pname) = Ok None /\ find_canonical_property d ty class pname = Ok None.
Proof. exact cross_names. Qed.

Theorem C06_cross_props :
  forall (p : dec_params) (itemsB itemsX : list pitem) (MX : list (bytes * value)),
       Forall2 pitem_rel itemsB itemsX ->
       xml_props (dp_font p) (dp_brick p) itemsX = Some MX ->
       props_rel (bin_props p itemsB) MX /\
       (forall k : bytes, opt_rel nan_equiv (bfind k (bin_props p itemsB)) (bfind k MX)).
Proof. exact cross_props. Qed.

Theorem C06_cross_dom_props :
  forall (c : enc_ctx) (dc : dec_ctx) (o : xoracle) (p : dec_params) (l lB lX : list pitem)
         (MX : list (bytes * value)),
       xml_oracle_ok o ->
       Forall (fun x : pitem => cross_scope_typed (dc_lim dc) (pi_val x) = true) l ->
       Forall2
         (fun x b : pitem =>
          pi_name b = pi_name x /\ pi_mig b = pi_mig x /\ bin_back c dc (pi_val x) (pi_val b)) l lB ->
       Forall2
         (fun x b : pitem =>
          pi_name b = pi_name x /\ pi_mig b = pi_mig x /\ xml_back_typed o (pi_val x) (pi_val b)) l lX ->
       xml_props (dp_font p) (dp_brick p) lX = Some MX ->
       props_rel (bin_props p lB) MX /\
       (forall k : bytes, opt_rel nan_equiv (bfind k (bin_props p lB)) (bfind k MX)).
Proof. exact cross_dom_props. Qed.

Theorem C06_cross_props_binfile :
  forall (p : dec_params) (R : column -> col_read) (ct : bytes * type_info) 
         (k : nat) (iprops : list (bytes * value)) (itemsX : list pitem) (MX : list (bytes * value)),
       uid_norm p (collect_props (read_props p R ct k)) iprops ->
       Forall2 pitem_rel (bin_items R ct k) itemsX ->
       xml_props (dp_font p) (dp_brick p) itemsX = Some MX ->
       props_rel iprops MX \/
       (exists (a b : N) (c : Z),
          bfind UNIQUE_ID MX = Some (VUniqueId a b c) /\
          props_rel iprops (bupd UNIQUE_ID (dp_fresh_uid p) MX)).
Proof. exact cross_props_binfile. Qed.

Theorem C06_cross_migration_failure_differs :
  forall (p : dec_params) (props : list (bytes * value)) (name newname : bytes) (op : migop) (v : value),
       migrate (dp_font p) (dp_brick p) op v = None ->
       bfind newname (collect_props props) = None ->
       add_prop p props name (Some (newname, op)) v = props /\
       xml_add_prop (dp_font p) (dp_brick p) (collect_props props) name (Some (newname, op)) v = None.
Proof. exact cross_migration_failure_differs. Qed.

Theorem C06_cross_color3_as_color3uint8 :
  forall (c : enc_ctx) (dc : dec_ctx) (o : xoracle) (r g b : f32) (cty : N) (vb vx : value),
       cty = VT_Color3 \/ cty = VT_Color3uint8 ->
       (forall x : f32, xo_quant o x = Some (ec_quant c x) /\ ec_quant c x < 256) ->
       bin_back_at WColor3uint8 cty c dc (VColor3 r g b) vb ->
       xml_back_as o XT_Color3uint8 cty (VColor3 r g b) vx ->
       vb = VColor3uint8 (ec_quant c r) (ec_quant c g) (ec_quant c b) /\ vx = vb.
Proof. exact cross_color3_as_color3uint8. Qed.

Theorem C06_cross_int32_as_int64 :
  forall (c : enc_ctx) (dc : dec_ctx) (o : xoracle) (z : Z) (vb vx : value),
       in_i64 z = true ->
       bin_back_at WInt64 VT_Int64 c dc (VInt32 z) vb ->
       xml_back_as o XT_Int64 VT_Int64 (VInt32 z) vx -> vb = VInt64 z /\ vx = vb.
Proof. exact cross_int32_as_int64. Qed.

Theorem C06_cross_float32_as_float64 :
  forall (c : enc_ctx) (dc : dec_ctx) (o : xoracle) (x : f32) (vb vx : value),
       float64_text_law o ->
       f32_ok x = true ->
       bin_back_at WFloat64 VT_Float64 c dc (VFloat32 x) vb ->
       xml_back_as o XT_Float64 VT_Float64 (VFloat32 x) vx -> vb = VFloat64 (f64_of_f32 x) /\ nan_equiv vb vx.
Proof. exact cross_float32_as_float64. Qed.

Theorem C06_samples_agree :
  Forall
         (fun v : value =>
          exists vb vx : value,
            bin_back BinValuesFacts.ectx0 BinValuesFacts.ctx0 v vb /\ xml_back o2 v vx /\ nan_equiv vb vx)
         samples.
Proof. exact samples_agree. Qed.

Theorem C06_samples_typed_agree :
  Forall
         (fun v : value =>
          exists vb vx : value,
            bin_back BinValuesFacts.ectx0 BinValuesFacts.ctx0 v vb /\
            xml_back_typed o2 v vx /\ nan_equiv vb vx) samples_typed.
Proof. exact samples_typed_agree. Qed.

Theorem C06_cframe_negzero_differs :
  exists vb vx : value,
         bin_back BinValuesFacts.ectx0 BinValuesFacts.ctx0 (VCFrame cf_negzero) vb /\
         xml_back o2 (VCFrame cf_negzero) vx /\ ~ nan_equiv vb vx.
Proof. exact cframe_negzero_differs. Qed.

Theorem C06_one_format_only :
  forall (c : enc_ctx) (dc : dec_ctx) (o : xoracle),
       (forall (x y : Z) (vb : value), ~ bin_back c dc (VVector2int16 x y) vb) /\
       (forall (a b : vec3) (vb : value), ~ bin_back c dc (VRegion3 a b) vb) /\
       (forall (a b : vec3) (vx : value), ~ xml_back o (VRegion3 a b) vx) /\
       (forall (a b : Z * Z * Z) (vb : value), ~ bin_back c dc (VRegion3int16 a b) vb) /\
       (forall (a b : Z * Z * Z) (vx : value), ~ xml_back o (VRegion3int16 a b) vx) /\
       (forall (m : list (bytes * value)) (vb : value), ~ bin_back c dc (VAttributes m) vb) /\
       (forall (t : bytes) (n : N) (vx : value), ~ xml_back o (VEnumItem t n) vx) /\
       (forall (r : N) (vx : value), ~ xml_back o (VRef r) vx) /\
       (forall (s : bytes) (vx : value), ~ xml_back o (VSharedString s) vx).
Proof. exact one_format_only. Qed.

(* ==== C06 AS ONE STATEMENT ABOUT THE TWO DECODED DOMS (Proofs/CrossFormatFile.v), composing BinRoundTrip, XmlRoundTrip and CrossFormat through
   the source DOM.  forest_iso (any database, any XML behaviours): the binary-decoded and the XML-decoded DOM of the same (dom, roots) are
   isomorphic under the relation induced by the two labellings: roots, root order, child order, tree shape, classes and names.
   cross_format_doms_agree: for every written instance and every explicitly set property in scope, both decoded DOMs hold it under the same
   name with nan_equiv values; Refs point at corresponding instances; SharedStrings are equal (closed for the plain pairing and simple column
   types; cross_core_gen is generic in both per-format whole-file laws and is the plug-in point for the reflection theorems of XmlKnownProps /
   BinKnownProps).  The "consequently" clause in both directions: what the first read produced satisfies the structural hypotheses of the second
   write (binary_then_xml_partial, xml_then_binary_partial; the value-level hypotheses of the second leg are stated, not re-derived).
   Outside the statement, proved by witnesses: a String of an unknown class reads back as BinaryString from binary and String from XML (C01's
   documented normalisation; C06 quantifies over database classes); a property an instance lacked shows the column default after the binary read and
   is absent after the XML read ("defaults that only the binary format fills in are ignored"). *)
From RbxVerif Require Import XmlStructure XmlRoundTrip BinPostorder CrossFormatFile.
From RbxVerif Require BinRoundTrip.

Theorem C06_forest_iso :
  forall (d : db) (ep : enc_params) (cmp : compression) (dom : cdom) (ts : list tree) 
         (b : bytes) (p : dec_params) (st : ser_state) (e : xenv) (ebeh : ebehavior) 
         (dbeh : dbehavior) (D : dout) (evs : list wevent) (revs : list revent),
       BinRoundTrip.input_ok dom ts ->
       BinRoundTrip.names_ok dom ->
       encode_file d ep cmp dom (List.map root ts) = Ok b ->
       add_instances d ep dom (List.map root ts) = Ok st ->
       dp_lim p = None ->
       BinRoundTrip.ser_names_ok st ->
       BinRoundTrip.name_cols_ok st ->
       (forall e0 : encoded,
        encode_chunks d ep dom (List.map root ts) = Ok e0 ->
        BinRoundTrip.frame_ok p cmp e0 /\
        (exists st1 : BinFile.dstate, BinRoundTrip.run_chunks d p BinFile.dstate0 (removelast (en_chunks e0)) = Ok st1)) ->
       hash_bytes e ->
       readable e ebeh dom (List.map root ts) ->
       dec_law e ebeh dbeh D dom (List.map root ts) ->
       xml_encode e ebeh dom (List.map root ts) = Ok evs ->
       channel evs = Ok revs ->
       exists outB outX : cdom,
         decode_file d p b = Ok outB /\
         xml_decode e dbeh revs = Ok outX /\
         dom_iso (lab_iso (BinRoundTrip.lbl st) (label (flat_map refs ts)) (flat_map refs ts)) outB outX.
Proof. exact forest_iso. Qed.

Theorem C06_cross_core_gen :
  forall (sc : value -> bool) (LB : N -> N) (dom : cdom) (ts : list tree) (fresh : value)
         (cn : inst -> bytes -> bytes) (backB backX : value -> value -> Prop) (outB outX : cdom),
       (forall v vb vx : value,
        sc v = true ->
        backB v vb ->
        backX v vx -> val_agree (lab_iso LB (label (flat_map refs ts)) (flat_map refs ts)) v vb vx) ->
       BinRoundTrip.input_ok dom ts ->
       BinRoundTrip.same_forest dom ts LB outB ->
       (forall r : N,
        In r (flat_map refs ts) ->
        exists i' : inst,
          find_inst outB (LB r) = Some i' /\
          i_ref i' = LB r /\
          i_class i' = BinStructure.class_of dom r /\ i_name i' = i_name (BinRoundTrip.src dom r)) ->
       forest_rel dom (List.map root ts) outX ->
       side_law sc LB (flat_map refs ts) cn backB
         (fun (k : bytes) (v' : value) => k = UNIQUE_ID /\ v' = fresh) dom outB ->
       side_law sc (label (flat_map refs ts)) (flat_map refs ts) cn backX
         (fun (_ : bytes) (_ : value) => False) dom outX ->
       doms_agree sc LB (label (flat_map refs ts)) (flat_map refs ts) fresh cn dom outB outX.
Proof. exact cross_core_gen. Qed.

Theorem C06_cross_format_doms_agree_generic :
  forall (sc : value -> bool) (d : db) (ep : enc_params) (cmp : compression) 
         (dom : cdom) (ts : list tree) (b : bytes) (p : dec_params) (st : ser_state)
         (R : BinRoundTrip.column -> BinRoundTrip.col_read) (e : xenv) (ebeh : ebehavior) 
         (dbeh : dbehavior) (evs : list wevent) (revs : list revent),
       (forall v : value, sc v = true -> dom_scope v = true) ->
       BinRoundTrip.input_ok dom ts ->
       props_ok dom ts ->
       BinRoundTrip.names_ok dom ->
       encode_file d ep cmp dom (List.map root ts) = Ok b ->
       add_instances d ep dom (List.map root ts) = Ok st ->
       dp_lim p = None ->
       (forall e0 : encoded,
        encode_chunks d ep dom (List.map root ts) = Ok e0 -> BinRoundTrip.frame_ok p cmp e0) ->
       BinRoundTrip.sstr_ok st ->
       BinRoundTrip.ser_names_ok st ->
       BinRoundTrip.name_cols_ok st ->
       (forall x : BinRoundTrip.column,
        In x (BinRoundTrip.cols (ss_types st)) ->
        fst (snd x) <> NAME -> BinRoundTrip.col_law d ep p dom st (BinRoundTrip.stI_of st) x (R x)) ->
       bin_law sc p dom st R (fun (_ : inst) (k : bytes) => k) ->
       plain_mode e ebeh dbeh dom (List.map root ts) ->
       hash_ok e ->
       readable_dom e dom (List.map root ts) ->
       xml_oracle_ok (xe_o e) ->
       xml_encode e ebeh dom (List.map root ts) = Ok evs ->
       channel evs = Ok revs ->
       exists outB outX : cdom,
         decode_file d p b = Ok outB /\
         xml_decode e dbeh revs = Ok outX /\
         doms_agree sc (BinRoundTrip.lbl st) (label (flat_map refs ts)) (flat_map refs ts) 
           (dp_fresh_uid p) (fun (_ : inst) (k : bytes) => k) dom outB outX.
Proof. exact cross_format_doms_agree_generic. Qed.

Theorem C06_cross_format_doms_agree :
  forall (d : db) (ep : enc_params) (cmp : compression) (dom : cdom) (ts : list tree) 
         (b : bytes) (p : dec_params) (st : ser_state) (e : xenv) (ebeh : ebehavior) 
         (dbeh : dbehavior) (evs : list wevent) (revs : list revent),
       BinRoundTrip.input_ok dom ts ->
       props_ok dom ts ->
       BinRoundTrip.names_ok dom ->
       BinRoundTrip.unknown_props d dom ->
       ep_order ep [] = [] ->
       encode_file d ep cmp dom (List.map root ts) = Ok b ->
       add_instances d ep dom (List.map root ts) = Ok st ->
       dp_lim p = None ->
       (forall e0 : encoded,
        encode_chunks d ep dom (List.map root ts) = Ok e0 -> BinRoundTrip.frame_ok p cmp e0) ->
       BinRoundTrip.sstr_ok st ->
       (forall x : BinRoundTrip.column,
        In x (BinRoundTrip.cols (ss_types st)) ->
        fst (snd x) <> NAME -> simple_col2 st (pi_type (snd (snd x))) (BinRoundTrip.col_values ep dom x)) ->
       plain_mode e ebeh dbeh dom (List.map root ts) ->
       hash_ok e ->
       readable_dom e dom (List.map root ts) ->
       xml_oracle_ok (xe_o e) ->
       xml_encode e ebeh dom (List.map root ts) = Ok evs ->
       channel evs = Ok revs ->
       exists outB outX : cdom,
         decode_file d p b = Ok outB /\
         xml_decode e dbeh revs = Ok outX /\
         doms_agree unknown_scope (BinRoundTrip.lbl st) (label (flat_map refs ts)) 
           (flat_map refs ts) (dp_fresh_uid p) (fun (_ : inst) (k : bytes) => k) dom outB outX.
Proof. exact cross_format_doms_agree. Qed.

Theorem C06_binary_then_xml_partial :
  forall (d : db) (ep : enc_params) (cmp : compression) (dom : cdom) (ts : list tree) 
         (b : bytes) (p : dec_params) (st : ser_state) (R : BinRoundTrip.column -> BinRoundTrip.col_read)
         (e : xenv) (ebeh : ebehavior) (dbeh : dbehavior) (evs : list wevent) (revs : list revent),
       BinRoundTrip.input_ok dom ts ->
       BinRoundTrip.names_ok dom ->
       encode_file d ep cmp dom (List.map root ts) = Ok b ->
       add_instances d ep dom (List.map root ts) = Ok st ->
       dp_lim p = None ->
       (forall e0 : encoded,
        encode_chunks d ep dom (List.map root ts) = Ok e0 -> BinRoundTrip.frame_ok p cmp e0) ->
       BinRoundTrip.sstr_ok st ->
       BinRoundTrip.ser_names_ok st ->
       BinRoundTrip.name_cols_ok st ->
       (forall x : BinRoundTrip.column,
        In x (BinRoundTrip.cols (ss_types st)) ->
        fst (snd x) <> NAME -> BinRoundTrip.col_law d ep p dom st (BinRoundTrip.stI_of st) x (R x)) ->
       reads_no_name st R ->
       exists outB : cdom,
         decode_file d p b = Ok outB /\
         (let roots' := children_of outB 0 in
          input_ok outB roots' /\
          written outB roots' = List.map (BinRoundTrip.lbl st) (flat_map refs ts) /\
          Permutation.Permutation (written outB roots') (List.map i_ref outB) /\
          (plain_mode e ebeh dbeh outB roots' ->
           hash_ok e ->
           readable_dom e outB roots' ->
           xml_encode e ebeh outB roots' = Ok evs ->
           channel evs = Ok revs ->
           exists outX : cdom, xml_decode e dbeh revs = Ok outX /\ same_forest e outB roots' outX)).
Proof. exact binary_then_xml_partial. Qed.

Theorem C06_xml_then_binary_partial :
  forall (e : xenv) (ebeh : ebehavior) (dbeh : dbehavior) (dom : cdom) (ts : list tree)
         (evs : list wevent) (revs : list revent),
       BinRoundTrip.input_ok dom ts ->
       props_ok dom ts ->
       BinRoundTrip.names_ok dom ->
       plain_mode e ebeh dbeh dom (List.map root ts) ->
       hash_ok e ->
       readable_dom e dom (List.map root ts) ->
       xml_encode e ebeh dom (List.map root ts) = Ok evs ->
       channel evs = Ok revs ->
       exists outX : cdom,
         xml_decode e dbeh revs = Ok outX /\
         (let ts' := List.map (tmap (label (flat_map refs ts))) ts in
          BinRoundTrip.input_ok outX ts' /\
          BinRoundTrip.names_ok outX /\
          props_ok outX ts' /\
          List.map root ts' = children_of outX 0 /\ flat_map refs ts' = List.map i_ref outX).
Proof. exact xml_then_binary_partial. Qed.

Theorem C06_unknown_string_differs :
  dom_scope (VString (B "hi")) = true /\
       (exists b : bytes,
          encode_file BinFileFacts.db0 BinFileFacts.ep0 None str_dom [1] = Ok b /\
          decode_file BinFileFacts.db0 (BinFileFacts.dp0 None) b =
          Ok
            [{|
               i_ref := 1;
               i_parent := 0;
               i_class := B "Thing";
               i_name := B "c";
               i_props := [(B "S", VBinaryString (B "hi"))]
             |}]) /\
       thru Example.ex_e EWriteUnknown DReadUnknown str_dom [1] =
       Ok
         [{|
            i_ref := 1;
            i_parent := 0;
            i_class := B "Thing";
            i_name := B "c";
            i_props := [(B "S", VString (B "hi"))]
          |}] /\ ~ nan_equiv (VBinaryString (B "hi")) (VString (B "hi")).
Proof. exact unknown_string_differs. Qed.

Theorem C06_unset_property_differs :
  bfind (B "Q") (i_props (BinRoundTrip.src BinFileFacts.sample_dom 2)) = None /\
       (exists (b : bytes) (outB : cdom),
          encode_file BinFileFacts.db0 BinFileFacts.ep0 None BinFileFacts.sample_dom [1] = Ok b /\
          decode_file BinFileFacts.db0 (BinFileFacts.dp0 None) b = Ok outB /\
          option_map (fun i : inst => bfind (B "Q") (i_props i))
            (find_inst outB (BinRoundTrip.lbl BinRoundTrip.SampleRoundTrip.sample_st 2)) =
          Some (Some (VBool false))) /\
       (exists outX : cdom,
          thru Example.ex_e EWriteUnknown DReadUnknown BinFileFacts.sample_dom [1] = Ok outX /\
          option_map (fun i : inst => bfind (B "Q") (i_props i)) (find_inst outX (label [1; 2; 3] 2)) =
          Some None).
Proof. exact unset_property_differs. Qed.

(* ---- database-KNOWN properties (Proofs/CrossFormatKnown.v): the two reflection theorems (BinKnownProps.known_props_roundtrip, XmlKnownProps.xml_roundtrip_known)
   plugged into the generic cross-format statement.  For every explicitly set, known, non-migrating key (canonical or alias spelling) with a value in
   agree_scope (declared type; Color3 for a byte-colour property; Int32 for Int64; Float32 for Float64; EnumItem for Enum) both decoded instances hold the
   SAME canonical key and nan_equiv values, Refs to corresponding instances, equal SharedStrings; the keys of the XML-decoded instance are keys of the
   binary-decoded one and the converse fails exactly by the class-mate defaults (one-directional: binary_keys_not_in_xml_refuted).  Bundled instance through
   the existing exhaustive checks.  Where the two sides normalise DIFFERENTLY, by witnesses at the closed forms: a Font with cached face id Some "" (binary
   returns None) and a rotation equal to a basis up to the sign of a zero (binary returns the table's +0.0) — the recorded C06 value-level findings. *)
From RbxVerif Require Import XmlKnownProps BinKnownProps CrossFormatKnown.
Theorem C06_resolve_of_desc :
  forall (d : db) (c n : bytes) (v : value) (canon ser : pdesc),
       DbCheck.db_coherent d = true ->
       find_desc_xml d (S_ c) (S_ n) = Ok (Some (canon, ser)) ->
       nonmig ser ->
       resolve_prop d c n v = Ok (RProp (B (pd_name canon)) (B (pd_name ser)) (dtype_vt (pd_type ser)) None).
Proof. exact resolve_of_desc. Qed.

Theorem C06_normB_norm_known_agree :
  forall (q : f32 -> N) (rn : N -> N) (o : xoracle) (wt : wire_type) (sty cty : N) (v : value),
       quant_agree q o ->
       from_rbx_type sty = Some wt ->
       agree_scope sty cty v ->
       forall vx : value, norm_known o ext_norm sty cty v = Ok vx -> nan_equiv (normB q rn wt cty v) vx.
Proof. exact normB_norm_known_agree. Qed.

Theorem C06_cross_format_known_agree :
  forall (e : xenv) (vc : vcodec (xe_o e)) (keep : bool) (ep : enc_params) (cmp : compression)
         (dom : cdom) (ts : list BinPostorder.tree) (p : dec_params) (evs : list wevent) 
         (revs : list revent),
       DbCheck.db_coherent (xe_db e) = true ->
       codec_ext (xe_o e) vc ->
       quant_agree (ep_quant ep) (xe_o e) ->
       enc_ready (xe_db e) ep dom ts ->
       BinRoundTrip.input_ok dom ts ->
       BinRoundTrip.names_ok dom ->
       dom_spellings_agree (xe_db e) dom ->
       (forall i : inst, In i dom -> class_good (xe_db e) (i_class i)) ->
       dom_values_ok (xe_db e) ep dom = true ->
       dom_sstrs_ok (xe_db e) dom = true ->
       dp_lim p = None ->
       (forall e0 : encoded,
        encode_chunks (xe_db e) ep dom (List.map BinPostorder.root ts) = Ok e0 ->
        BinRoundTrip.frame_ok p cmp e0) ->
       (forall (r : N) (i : inst),
        In r (flat_map BinPostorder.refs ts) -> find_inst dom r = Some i -> inst_one_spelling (xe_db e) i) ->
       props_ok dom ts ->
       XmlRoundTrip.hash_ok e ->
       known_dom e vc keep dom (List.map BinPostorder.root ts) ->
       xml_encode e (ebeh_of keep) dom (List.map BinPostorder.root ts) = Ok evs ->
       channel evs = Ok revs ->
       exists (b : bytes) (st : ser_state) (outB outX : cdom),
         encode_file (xe_db e) ep cmp dom (List.map BinPostorder.root ts) = Ok b /\
         add_instances (xe_db e) ep dom (List.map BinPostorder.root ts) = Ok st /\
         decode_file (xe_db e) p b = Ok outB /\
         xml_decode e (dbeh_of keep) revs = Ok outX /\
         dom_iso
           (lab_iso (BinRoundTrip.lbl st) (XmlRoundTrip.label (flat_map BinPostorder.refs ts))
              (flat_map BinPostorder.refs ts)) outB outX /\
         (forall (r : N) (i : inst),
          In r (flat_map BinPostorder.refs ts) ->
          find_inst dom r = Some i ->
          exists (iB iX : inst) (ti : type_info),
            In (i_class i, ti) (ss_types st) /\
            find_inst outB (BinRoundTrip.lbl st r) = Some iB /\
            find_inst outX (XmlRoundTrip.label (flat_map BinPostorder.refs ts) r) = Some iX /\
            i_class iB = i_class i /\
            i_class iX = i_class i /\
            i_name iB = i_name i /\
            i_name iX = i_name i /\
            props_agree_known e p st (flat_map BinPostorder.refs ts) i iB iX /\
            (inst_in_scope e i ->
             xml_keys_in_binary iB iX /\ binary_only_defaults (xe_db e) ep p st ti i iB iX)).
Proof. exact cross_format_known_agree. Qed.

Theorem C06_cross_format_known_agree_bundled :
  forall (e : xenv) (vc : vcodec (xe_o e)) (keep : bool) (ep : enc_params) (cmp : compression)
         (dom : cdom) (ts : list BinPostorder.tree) (p : dec_params) (evs : list wevent) 
         (revs : list revent),
       xe_db e = Database.database ->
       codec_ext (xe_o e) vc ->
       quant_agree (ep_quant ep) (xe_o e) ->
       enc_ready Database.database ep dom ts ->
       BinRoundTrip.input_ok dom ts ->
       BinRoundTrip.names_ok dom ->
       (forall (cn n : bytes) (v1 v2 : value),
        In (n, v1) (class_pairs dom cn) ->
        In (n, v2) (class_pairs dom cn) ->
        BinTypeInfoFacts.known_resolve Database.database (string_of_bytes cn) (string_of_bytes n) = Ok None ->
        vtype v1 = vtype v2) ->
       dom_values_ok Database.database ep dom = true ->
       dom_sstrs_ok Database.database dom = true ->
       dp_lim p = None ->
       (forall e0 : encoded,
        encode_chunks Database.database ep dom (List.map BinPostorder.root ts) = Ok e0 ->
        BinRoundTrip.frame_ok p cmp e0) ->
       (forall (r : N) (i : inst),
        In r (flat_map BinPostorder.refs ts) ->
        find_inst dom r = Some i -> inst_one_spelling Database.database i) ->
       props_ok dom ts ->
       XmlRoundTrip.hash_ok e ->
       db_dom e vc keep bundled_exceptions dom (List.map BinPostorder.root ts) ->
       xml_encode e (ebeh_of keep) dom (List.map BinPostorder.root ts) = Ok evs ->
       channel evs = Ok revs ->
       exists (b : bytes) (st : ser_state) (outB outX : cdom),
         encode_file Database.database ep cmp dom (List.map BinPostorder.root ts) = Ok b /\
         add_instances Database.database ep dom (List.map BinPostorder.root ts) = Ok st /\
         decode_file Database.database p b = Ok outB /\
         xml_decode e (dbeh_of keep) revs = Ok outX /\
         dom_iso
           (lab_iso (BinRoundTrip.lbl st) (XmlRoundTrip.label (flat_map BinPostorder.refs ts))
              (flat_map BinPostorder.refs ts)) outB outX /\
         (forall (r : N) (i : inst),
          In r (flat_map BinPostorder.refs ts) ->
          find_inst dom r = Some i ->
          exists (iB iX : inst) (ti : type_info),
            In (i_class i, ti) (ss_types st) /\
            find_inst outB (BinRoundTrip.lbl st r) = Some iB /\
            find_inst outX (XmlRoundTrip.label (flat_map BinPostorder.refs ts) r) = Some iX /\
            i_class iB = i_class i /\
            i_class iX = i_class i /\
            i_name iB = i_name i /\
            i_name iX = i_name i /\
            props_agree_known e p st (flat_map BinPostorder.refs ts) i iB iX /\
            (inst_in_scope e i ->
             xml_keys_in_binary iB iX /\ binary_only_defaults Database.database ep p st ti i iB iX)).
Proof. exact cross_format_known_agree_bundled. Qed.

Theorem C06_known_font_differs_refuted :
  forall (q : f32 -> N) (rn : N -> N) (o : xoracle),
       from_rbx_type VT_Font = Some WFont /\
       cell_ok WFont VT_Font (VFont font_empty_cached) = true /\
       XmlRoundTrip.simple_ok (VFont font_empty_cached) /\
       normB q rn WFont VT_Font (VFont font_empty_cached) =
       VFont {| fo_family := B "rbxasset://x"; fo_weight := 400; fo_style := 0; fo_cached := None |} /\
       norm_known o ext_norm VT_Font VT_Font (VFont font_empty_cached) = Ok (VFont font_empty_cached) /\
       ~ nan_equiv (normB q rn WFont VT_Font (VFont font_empty_cached)) (VFont font_empty_cached).
Proof. exact known_font_differs_refuted. Qed.

Theorem C06_known_cframe_differs_refuted :
  forall (q : f32 -> N) (rn : N -> N) (o : xoracle),
       from_rbx_type VT_CFrame = Some WCFrame /\
       cell_ok WCFrame VT_CFrame (VCFrame cf_negzero) = true /\
       ext_ok (VCFrame cf_negzero) /\
       normB q rn WCFrame VT_CFrame (VCFrame cf_negzero) =
       VCFrame {| cf_pos := cf_pos cf_negzero; cf_rot := mat3_identity |} /\
       norm_known o ext_norm VT_CFrame VT_CFrame (VCFrame cf_negzero) = Ok (VCFrame cf_negzero) /\
       ~ nan_equiv (VCFrame {| cf_pos := cf_pos cf_negzero; cf_rot := mat3_identity |}) (VCFrame cf_negzero).
Proof. exact known_cframe_differs_refuted. Qed.

Theorem C06_binary_keys_not_in_xml_refuted :
  let psB :=
         [(B "Transparency", VFloat32 XmlCompound2.F32_HALF);
          (B "Size", VVector3 {| vx := F32_ONE; vy := XmlCompound2.F32_NNAN; vz := F32_ZERO |});
          (B "Locked", VBool false); (B "Color", VColor3uint8 255 128 0); (B "Anchored", VBool true)] in
       let psX :=
         [(B "Size", VVector3 {| vx := F32_ONE; vy := F32_NAN; vz := F32_ZERO |});
          (B "Transparency", VFloat32 XmlCompound2.F32_HALF); (B "Color", VColor3uint8 255 128 0);
          (B "Anchored", VBool true)] in
       (forall k : bytes, bfind k psX <> None -> bfind k psB <> None) /\
       ~ (forall k : bytes, bfind k psB <> None -> bfind k psX <> None).
Proof. exact binary_keys_not_in_xml_refuted. Qed.

