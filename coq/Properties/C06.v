(* Property C06 — binary and XML encodings of the same DOM decode to equivalent DOMs (statements only).
   The schema-level core: both codecs resolve a (class, property name) pair through their own copy of
   find_property_descriptors; for every database passing the coherence check (in particular the bundled one,
   regenerated on every run) the two lookups agree — same canonical and same serialized descriptor — the
   only permitted difference being a property that does not serialize.  The value-level agreement of the
   two decoders is decided per case by the implementation-side cross-format run (both real writers and
   readers on one DOM stream). *)
From RbxVerif Require Import Base Bytes Value Db DbCheck Database DbFacts.

Theorem C06_desc_lookup_agree : forall d, db_coherent d = true -> forall c p,
  (find_desc_bin d c p = Ok None /\ find_desc_xml d c p = Ok None) \/
  (exists canon ser, find_desc_bin d c p = Ok (Some (canon, Some ser)) /\ find_desc_xml d c p = Ok (Some (canon, ser))) \/
  (exists canon, pd_kind canon = KCanon PDoesNot /\
                 find_desc_bin d c p = Ok (Some (canon, None)) /\ find_desc_xml d c p = Ok None).
Proof. exact desc_lookup_agree. Qed.

Theorem C06_bundled_coherent : db_coherent database = true.
Proof. exact bundled_coherent. Qed.
