(* Property C07 — Serializer output is deterministic and stable under re-save (binary part; statements only).
   Proofs: Proofs/BinColumnsFacts.v.  The whole-file statement (bytes independent of Ref values, of property
   insertion order and of hash iteration order) is exercised on the implementation by the C07 oracle of the
   `binfile` kind; what is proven is its column-level core and a computed fixed point. *)
From Coq Require Import Permutation.
From RbxVerif Require Import Base Bytes Value Db CodecDom BinValues BinFile BinFileFacts BinColumnsFacts.
Open Scope N_scope.

(* the value a class column takes from an instance is a function of the instance's property MAP: any two
   listings (iteration orders) of the same map give the same value *)
Theorem C07_prop_value_perm : forall p canon pi order (i i' : inst),
  i_name i = i_name i' -> NoDup (List.map fst (i_props i)) -> Permutation (i_props i) (i_props i') ->
  prop_value p canon pi order i = prop_value p canon pi order i'.
Proof. exact prop_value_perm. Qed.

(* saving what was loaded from the sample file reproduces the file byte for byte *)
Theorem C07_sample_resave_fixed_point :
  match decode_file db0 (dp0 None) sample_file with
  | Ok d => encode_file db0 ep0 None d [2] = Ok sample_file
  | _ => False
  end.
Proof. exact sample_resave_fixed_point. Qed.

(* ==== XML: the document is a function of the logical content (Proofs/XmlDeterminism.v).  The serializer sorts an instance's
   properties by name, so any listing (hash iteration order) of the same property map gives the same document; referent numbers are
   assigned by order of first use, so any injective renaming of the Ref values that fixes the null Ref gives the same document;
   the SharedStrings dictionary is sorted by hash and so independent of discovery order.  Hypotheses are necessary: witnesses
   rename_needs_injectivity, rename_needs_null_fixed, bsort_perm_needs_distinct_keys, shared_of_collision_order_matters. *)
From RbxVerif Require Import XmlEvents XmlValues XmlFile XmlDeterminism.

Theorem C07_xml_bsort_perm :
  forall (V : Type) (l l' : list (bytes * V)),
       Permutation.Permutation l l' -> NoDup (List.map fst l) -> bsort l = bsort l'.
Proof. intro V. exact (@bsort_perm V). Qed.

Theorem C07_xml_encode_props_order :
  forall (e : xenv) (beh : ebehavior) (d d' : cdom) (roots : list N),
       props_permuted d d' -> xml_encode e beh d' roots = xml_encode e beh d roots.
Proof. exact xml_encode_props_order. Qed.

Theorem C07_xml_encode_rename :
  forall (phi : N -> N) (e : xenv) (beh : ebehavior) (d : cdom) (roots : list N),
       phi 0 = 0 ->
       injective_on (dom_refs d roots) phi ->
       xml_encode e beh (rename_dom phi d) (List.map phi roots) = xml_encode e beh d roots.
Proof. exact xml_encode_rename. Qed.

Theorem C07_xml_encode_function_of_content :
  forall (phi : N -> N) (e : xenv) (beh : ebehavior) (d d' : cdom) (roots : list N),
       props_permuted d d' ->
       phi 0 = 0 ->
       injective_on (dom_refs d roots) phi ->
       xml_encode e beh (rename_dom phi d') (List.map phi roots) = xml_encode e beh d roots.
Proof. exact xml_encode_function_of_content. Qed.

Theorem C07_xml_shared_of_set :
  forall ps ps' : list (bytes * bytes),
       functional ps -> (forall x : bytes * bytes, In x ps <-> In x ps') -> shared_of ps = shared_of ps'.
Proof. exact shared_of_set. Qed.

Theorem C07_xml_shared_strings_element_of_set :
  forall (ps ps' : list (bytes * bytes)) (m : list (N * N)) (n : N) (m' : list (N * N)) (n' : N),
       functional ps ->
       (forall x : bytes * bytes, In x ps <-> In x ps') ->
       serialize_shared_strings {| es_map := m; es_next := n; es_shared := shared_of ps |} =
       serialize_shared_strings {| es_map := m'; es_next := n'; es_shared := shared_of ps' |}.
Proof. exact shared_strings_element_of_set. Qed.

Theorem C07_xml_encode_dictionary_sorted :
  forall (e : xenv) (beh : ebehavior) (d : list inst) (roots : list N) (body : list wevent)
         (st : estate),
       seq_with (serialize_instance (S (Datatypes.length d)) e beh d) roots es0 = Ok (body, st) ->
       Sorted.StronglySorted klt (es_shared st).
Proof. exact xml_encode_dictionary_sorted. Qed.

Theorem C07_xml_rename_needs_injectivity :
  xml_encode XmlFileFacts.e0 EWriteUnknown (rename_dom (fun r : N => if r =? 9 then 7 else r) d_abc) [7] <>
       xml_encode XmlFileFacts.e0 EWriteUnknown d_abc [7].
Proof. exact rename_needs_injectivity. Qed.

Theorem C07_xml_rename_needs_null_fixed :
  let d :=
         [{|
            i_ref := 1; i_parent := 0; i_class := B "Folder"; i_name := B "f"; i_props := [(B "R", VRef 0)]
          |}] in
       xml_encode XmlFileFacts.e0 EWriteUnknown (rename_dom (fun r : N => r + 1) d) [2] <>
       xml_encode XmlFileFacts.e0 EWriteUnknown d [1].
Proof. exact rename_needs_null_fixed. Qed.

