(* Property C07 — Serializer output is deterministic and stable under re-save (binary part; statements only).
   Proofs: Proofs/BinColumnsFacts.v.  The whole-file statement (bytes independent of Ref values, of property
   insertion order and of hash iteration order) is exercised on the implementation by the C07 oracle of the
   `binfile` kind; what is proven is its column-level core and a computed fixed point. *)
From Coq Require Import Permutation.
From RbxVerif Require Import Base Bytes Value Db CodecDom BinValues BinFile BinFileFacts BinColumnsFacts.
Open Scope N_scope.

(* the value a class column takes from an instance is a function of the instance's property MAP: any two
   listings (iteration orders) of the same map give the same value *)
Theorem C07_prop_value_perm : forall p canon pi order (i i' : inst),
  i_name i = i_name i' -> NoDup (List.map fst (i_props i)) -> Permutation (i_props i) (i_props i') ->
  prop_value p canon pi order i = prop_value p canon pi order i'.
Proof. exact prop_value_perm. Qed.

(* saving what was loaded from the sample file reproduces the file byte for byte *)
Theorem C07_sample_resave_fixed_point :
  match decode_file db0 (dp0 None) sample_file with
  | Ok d => encode_file db0 ep0 None d [2] = Ok sample_file
  | _ => False
  end.
Proof. exact sample_resave_fixed_point. Qed.

(* ==== binary: the file is a function of the property MAPS (Proofs/BinTypeInfoFacts.v).  Under one spelling per logical property
   per instance (true of every DOM either reader produces), type-consistent spellings, an alias-set iteration order that is a
   permutation, and injective SharedString hashes, permuting the listing (hash iteration order) of every instance's properties
   leaves encode_file unchanged, byte for byte, for every database and compression.  Without one spelling the bytes do depend
   on the order: C07_file_depends_on_property_order_with_two_spellings (recorded finding rebuild-differs-two-spellings). *)
From RbxVerif Require Import BinTypeInfoFacts.
Open Scope N_scope.

Theorem C07_prop_value_alias_order :
  forall (p : enc_params) (canon : bytes) (pi : prop_info) (ord1 ord2 : list bytes) (i : inst),
       Permutation.Permutation ord1 ord2 ->
       one_spelling canon ord1 i -> prop_value p canon pi ord1 i = prop_value p canon pi ord2 i.
Proof. exact prop_value_alias_order. Qed.

Theorem C07_column_values_perm :
  forall (p : enc_params) (canon : bytes) (pi pi' : prop_info) (ord ord' : list bytes)
         (insts insts' : list inst),
       Forall2 inst_perm insts insts' ->
       Forall (fun i : inst => NoDup (List.map fst (i_props i))) insts ->
       pi_equiv_perm pi pi' ->
       Permutation.Permutation ord (pi_aliases pi) ->
       Permutation.Permutation ord' (pi_aliases pi') ->
       Forall (one_spelling canon (pi_aliases pi)) insts ->
       List.map (prop_value p canon pi ord) insts = List.map (prop_value p canon pi' ord') insts'.
Proof. exact column_values_perm. Qed.

Theorem C07_fold_pstep_perm :
  forall (d : db) (class : bytes) (cls : option cdesc) (l l' : list (bytes * value)),
       Permutation.Permutation l l' ->
       spellings_agree d class l ->
       migrations_agree d class l ->
       forall a b : pstate,
       st_equiv a b ->
       res_equiv st_equiv (fold_res (pstep d class cls) a l) (fold_res (pstep d class cls) b l').
Proof. exact fold_pstep_perm. Qed.

Theorem C07_encode_chunks_props_perm_dom :
  forall (d : db) (p : enc_params) (dom dom' : list inst) (roots : list N) (e : encoded),
       Forall2 inst_perm dom dom' ->
       (forall i : inst, In i dom -> NoDup (List.map fst (i_props i))) ->
       dom_agree d dom ->
       dom_one_spelling d dom ->
       (forall l : list bytes, Permutation.Permutation (ep_order p l) l) ->
       hash_inj (ep_hash p) -> encode_chunks d p dom roots = Ok e -> encode_chunks d p dom' roots = Ok e.
Proof. exact encode_chunks_props_perm_dom. Qed.

Theorem C07_encode_file_props_perm :
  forall (d : db) (p : enc_params) (cmp : compression) (dom dom' : list inst) 
         (roots : list N) (b : bytes),
       Forall2 inst_perm dom dom' ->
       (forall i : inst, In i dom -> NoDup (List.map fst (i_props i))) ->
       dom_agree d dom ->
       dom_one_spelling d dom ->
       (forall l : list bytes, Permutation.Permutation (ep_order p l) l) ->
       hash_inj (ep_hash p) -> encode_file d p cmp dom roots = Ok b -> encode_file d p cmp dom' roots = Ok b.
Proof. exact encode_file_props_perm. Qed.

Theorem C07_encode_file_props_perm_iff :
  forall (d : db) (p : enc_params) (cmp : compression) (dom dom' : list inst) 
         (roots : list N) (b : bytes),
       Forall2 inst_perm dom dom' ->
       (forall i : inst, In i dom -> NoDup (List.map fst (i_props i))) ->
       dom_agree d dom ->
       dom_one_spelling d dom ->
       (forall l : list bytes, Permutation.Permutation (ep_order p l) l) ->
       hash_inj (ep_hash p) -> encode_file d p cmp dom roots = Ok b <-> encode_file d p cmp dom' roots = Ok b.
Proof. exact encode_file_props_perm_iff. Qed.

Theorem C07_prop_value_alias_order_refuted :
  prop_value ep_part (bstr "Color") colour_pi [bstr "BrickColor"; bstr "Color3uint8"] two_spellings_part =
       VColor3uint8 163 162 165 /\
       prop_value ep_part (bstr "Color") colour_pi [bstr "Color3uint8"; bstr "BrickColor"] two_spellings_part =
       VColor3uint8 1 2 3.
Proof. exact prop_value_alias_order_refuted. Qed.

Theorem C07_file_depends_on_property_order_with_two_spellings :
  is_ok (enc_part [two_spellings_part] [1]) = true /\
       is_ok (enc_part [two_spellings_part'] [1]) = true /\
       enc_part [two_spellings_part] [1] <> enc_part [two_spellings_part'] [1] /\
       roundtrip_colours [two_spellings_part] [1] = [(bstr "X", Some (VColor3uint8 163 162 165))] /\
       roundtrip_colours [two_spellings_part'] [1] = [(bstr "X", Some (VColor3uint8 1 2 3))].
Proof. exact file_depends_on_property_order_with_two_spellings. Qed.

Theorem C07_mixed_dom_same_file :
  exists b : bytes,
         encode_file db_part ep_mixed None mixed_dom [1; 3] = Ok b /\
         encode_file db_part ep_mixed None mixed_dom' [1; 3] = Ok b.
Proof. exact mixed_dom_same_file. Qed.


(* ==== binary: the file does not depend on the Ref values (Proofs/BinRename.v): for every database whose default values hold no non-null
   Ref (an executable check the bundled database passes; without it the statement is false: C07_rename_needs_null_defaults), any
   renaming of Refs that fixes the null Ref and is injective on the Refs of the DOM leaves encode_chunks / encode_file unchanged —
   including error outcomes; combined with the property-listing theorem: the file is a function of the logical content *)
From RbxVerif Require Import Database XmlDeterminism BinRename.
Open Scope N_scope.

Theorem C07_bin_encode_chunks_rename :
  forall (phi : N -> N) (d : db) (p : enc_params) (dom : cdom) (roots : list N),
       db_defaults_null d = true ->
       phi 0 = 0 ->
       injective_on (bin_dom_refs dom roots) phi ->
       encode_chunks d p (rename_dom phi dom) (List.map phi roots) = encode_chunks d p dom roots.
Proof. exact bin_encode_chunks_rename. Qed.

Theorem C07_bin_encode_file_rename :
  forall (phi : N -> N) (d : db) (p : enc_params) (cmp : compression) (dom : cdom) (roots : list N),
       db_defaults_null d = true ->
       phi 0 = 0 ->
       injective_on (bin_dom_refs dom roots) phi ->
       encode_file d p cmp (rename_dom phi dom) (List.map phi roots) = encode_file d p cmp dom roots.
Proof. exact bin_encode_file_rename. Qed.

Theorem C07_bin_encode_chunks_rename_gen :
  forall (phi : N -> N) (d : db) (p : enc_params) (dom : cdom) (roots : list N),
       phi 0 = 0 ->
       injective_on (bin_dom_refs dom roots ++ db_default_refs d) phi ->
       (forall r : N, In r (db_default_refs d) -> phi r = r) ->
       encode_chunks d p (rename_dom phi dom) (List.map phi roots) = encode_chunks d p dom roots.
Proof. exact bin_encode_chunks_rename_gen. Qed.

Theorem C07_bundled_defaults_null :
  db_defaults_null database = true.
Proof. exact bundled_defaults_null. Qed.

Theorem C07_bin_encode_file_rename_bundled :
  forall (phi : N -> N) (p : enc_params) (cmp : compression) (dom : cdom) (roots : list N),
       phi 0 = 0 ->
       injective_on (bin_dom_refs dom roots) phi ->
       encode_file database p cmp (rename_dom phi dom) (List.map phi roots) =
       encode_file database p cmp dom roots.
Proof. exact bin_encode_file_rename_bundled. Qed.

Theorem C07_encode_file_function_of_content :
  forall (phi : N -> N) (d : db) (p : enc_params) (cmp : compression) (dom dom' : list inst)
         (roots : list N) (b : bytes),
       Forall2 inst_perm dom dom' ->
       (forall i : inst, In i dom -> NoDup (List.map fst (i_props i))) ->
       dom_agree d dom ->
       dom_one_spelling d dom ->
       (forall l : list bytes, Permutation.Permutation (ep_order p l) l) ->
       hash_inj (ep_hash p) ->
       db_defaults_null d = true ->
       phi 0 = 0 ->
       injective_on (bin_dom_refs dom roots) phi ->
       encode_file d p cmp (rename_dom phi dom') (List.map phi roots) = Ok b <->
       encode_file d p cmp dom roots = Ok b.
Proof. exact encode_file_function_of_content. Qed.

Theorem C07_rename_needs_null_defaults :
  db_defaults_null db_refdef = false /\
       phi_refdef 0 = 0 /\
       (forall a b : N, In a [0; 7; 9] -> In b [0; 7; 9] -> phi_refdef a = phi_refdef b -> a = b) /\
       encode_file db_refdef ep0 None (rename_dom phi_refdef d_refdef) (List.map phi_refdef [7; 9]) <>
       encode_file db_refdef ep0 None d_refdef [7; 9].
Proof. exact rename_needs_null_defaults. Qed.

Theorem C07_bin_rename_needs_injectivity :
  encode_file db0 ep0 None (rename_dom (fun r : N => if r =? 55 then 9 else r) d_bin) [7] <>
       encode_file db0 ep0 None d_bin [7].
Proof. exact bin_rename_needs_injectivity. Qed.

Theorem C07_bin_rename_needs_null_fixed :
  (forall a b : N, swap05 a = swap05 b -> a = b) /\
       encode_file db0 ep0 None (rename_dom swap05 d_null) (List.map swap05 [5]) <>
       encode_file db0 ep0 None d_null [5].
Proof. exact bin_rename_needs_null_fixed. Qed.


(* ==== XML: the document is a function of the logical content (Proofs/XmlDeterminism.v).  The serializer sorts an instance's
   properties by name, so any listing (hash iteration order) of the same property map gives the same document; referent numbers are
   assigned by order of first use, so any injective renaming of the Ref values that fixes the null Ref gives the same document;
   the SharedStrings dictionary is sorted by hash and so independent of discovery order.  Hypotheses are necessary: witnesses
   rename_needs_injectivity, rename_needs_null_fixed, bsort_perm_needs_distinct_keys, shared_of_collision_order_matters. *)
From RbxVerif Require Import XmlEvents XmlValues XmlFile XmlDeterminism.

Theorem C07_xml_bsort_perm :
  forall (V : Type) (l l' : list (bytes * V)),
       Permutation.Permutation l l' -> NoDup (List.map fst l) -> bsort l = bsort l'.
Proof. intro V. exact (@bsort_perm V). Qed.

Theorem C07_xml_encode_props_order :
  forall (e : xenv) (beh : ebehavior) (d d' : cdom) (roots : list N),
       props_permuted d d' -> xml_encode e beh d' roots = xml_encode e beh d roots.
Proof. exact xml_encode_props_order. Qed.

Theorem C07_xml_encode_rename :
  forall (phi : N -> N) (e : xenv) (beh : ebehavior) (d : cdom) (roots : list N),
       phi 0 = 0 ->
       injective_on (dom_refs d roots) phi ->
       xml_encode e beh (rename_dom phi d) (List.map phi roots) = xml_encode e beh d roots.
Proof. exact xml_encode_rename. Qed.

Theorem C07_xml_encode_function_of_content :
  forall (phi : N -> N) (e : xenv) (beh : ebehavior) (d d' : cdom) (roots : list N),
       props_permuted d d' ->
       phi 0 = 0 ->
       injective_on (dom_refs d roots) phi ->
       xml_encode e beh (rename_dom phi d') (List.map phi roots) = xml_encode e beh d roots.
Proof. exact xml_encode_function_of_content. Qed.

Theorem C07_xml_shared_of_set :
  forall ps ps' : list (bytes * bytes),
       functional ps -> (forall x : bytes * bytes, In x ps <-> In x ps') -> shared_of ps = shared_of ps'.
Proof. exact shared_of_set. Qed.

Theorem C07_xml_shared_strings_element_of_set :
  forall (ps ps' : list (bytes * bytes)) (m : list (N * N)) (n : N) (m' : list (N * N)) (n' : N),
       functional ps ->
       (forall x : bytes * bytes, In x ps <-> In x ps') ->
       serialize_shared_strings {| es_map := m; es_next := n; es_shared := shared_of ps |} =
       serialize_shared_strings {| es_map := m'; es_next := n'; es_shared := shared_of ps' |}.
Proof. exact shared_strings_element_of_set. Qed.

Theorem C07_xml_encode_dictionary_sorted :
  forall (e : xenv) (beh : ebehavior) (d : list inst) (roots : list N) (body : list wevent)
         (st : estate),
       seq_with (serialize_instance (S (Datatypes.length d)) e beh d) roots es0 = Ok (body, st) ->
       Sorted.StronglySorted klt (es_shared st).
Proof. exact xml_encode_dictionary_sorted. Qed.

Theorem C07_xml_rename_needs_injectivity :
  xml_encode XmlFileFacts.e0 EWriteUnknown (rename_dom (fun r : N => if r =? 9 then 7 else r) d_abc) [7] <>
       xml_encode XmlFileFacts.e0 EWriteUnknown d_abc [7].
Proof. exact rename_needs_injectivity. Qed.

Theorem C07_xml_rename_needs_null_fixed :
  let d :=
         [{|
            i_ref := 1; i_parent := 0; i_class := B "Folder"; i_name := B "f"; i_props := [(B "R", VRef 0)]
          |}] in
       xml_encode XmlFileFacts.e0 EWriteUnknown (rename_dom (fun r : N => r + 1) d) [2] <>
       xml_encode XmlFileFacts.e0 EWriteUnknown d [1].
Proof. exact rename_needs_null_fixed. Qed.

(* ==== THE RE-SAVE FIXED POINT AS A THEOREM (Proofs/ResaveFixedPoint.v), composing the whole-file round trips with the function-of-content
   theorems.  XML: save (load (save d)) = save (norm_dom d) — an equality of results, Ok or the same failure —, where norm_dom replaces each value
   by its normal form and nulls Refs to unwritten instances; with the normalisation idempotent (proved per type for the 26 simple types),
   save (load (save d1)) = save d1 for d1 = load (save d): load/save is a fixed point after the first save.  In which respects the FIRST save can
   differ is proved by witnesses: a Ref to an unwritten instance is written as a referent no Item carries, read as null and re-saved as `null`,
   which shifts later referent numbers (the recorded dangling-ref class); a NaN payload is normalised in the loaded DOM but invisible in the events.
   Binary: encode_file depends on the DOM only through the written instances (encode_file_shape; fuel sufficient);
   encode_file (decode_file (encode_file dom)) = encode_file (bnorm_dom dom) for properties unknown to the database of the simple column types
   under any compressor, for databases whose defaults hold no non-null Ref; and the fixed point after it (bin_resave_fixed_point, below):
   encode_file (decode_file (encode_file out)) = encode_file out for out = decode_file (encode_file dom), under the same kind of hypotheses
   about the second save (frame_ok for its chunks, sstr_ok for its shared-string table). *)
From RbxVerif Require Import XmlStructure XmlRoundTrip BinPostorder ResaveFixedPoint.
From RbxVerif Require BinRoundTrip.

Theorem C07_xml_resave :
  forall (e : xenv) (ebeh : ebehavior) (dbeh : dbehavior) (d : cdom) (roots : list N)
         (norm : value -> value) (evs : list wevent) (revs : list revent),
       input_ok d roots ->
       plain_mode e ebeh dbeh d roots ->
       hash_ok e ->
       norm_law e d roots norm ->
       xml_encode e ebeh d roots = Ok evs ->
       channel evs = Ok revs ->
       exists d1 : cdom,
         xml_decode e dbeh revs = Ok d1 /\
         same_forest e d roots d1 /\
         forest_rel d roots d1 /\
         Forall2 (values_back d (written d roots) norm) (written d roots) d1 /\
         ordered (N.of_nat (Datatypes.length d1)) d1 /\
         xml_encode e ebeh d1 (children_of d1 0) =
         xml_encode e ebeh (norm_dom (written d roots) norm d) roots.
Proof. exact xml_resave. Qed.

Theorem C07_xml_resave_fixed_point :
  forall (e : xenv) (ebeh : ebehavior) (dbeh : dbehavior) (d : cdom) (roots : list N)
         (norm : value -> value) (evs : list wevent) (revs : list revent),
       input_ok d roots ->
       plain_mode e ebeh dbeh d roots ->
       hash_ok e ->
       norm_law e d roots norm ->
       norm_idem e d roots norm ->
       xml_encode e ebeh d roots = Ok evs ->
       channel evs = Ok revs ->
       exists d1 : cdom,
         xml_decode e dbeh revs = Ok d1 /\
         xml_encode e ebeh d1 (children_of d1 0) =
         xml_encode e ebeh (norm_dom (written d roots) norm d) roots /\
         (forall (evs2 : list wevent) (revs2 : list revent),
          xml_encode e ebeh d1 (children_of d1 0) = Ok evs2 ->
          channel evs2 = Ok revs2 ->
          exists d2 : cdom,
            xml_decode e dbeh revs2 = Ok d2 /\ xml_encode e ebeh d2 (children_of d2 0) = Ok evs2).
Proof. exact xml_resave_fixed_point. Qed.

Theorem C07_xml_resave_simple_types :
  forall (e : xenv) (ebeh : ebehavior) (dbeh : dbehavior) (d : cdom) (roots : list N)
         (evs : list wevent) (revs : list revent),
       input_ok d roots ->
       plain_mode e ebeh dbeh d roots ->
       hash_ok e ->
       float_laws (xe_o e) ->
       simple_dom d roots ->
       xml_encode e ebeh d roots = Ok evs ->
       channel evs = Ok revs ->
       exists d1 : cdom,
         xml_decode e dbeh revs = Ok d1 /\
         xml_encode e ebeh d1 (children_of d1 0) =
         xml_encode e ebeh (norm_dom (written d roots) norm_simple d) roots /\
         (forall (evs2 : list wevent) (revs2 : list revent),
          xml_encode e ebeh d1 (children_of d1 0) = Ok evs2 ->
          channel evs2 = Ok revs2 ->
          exists d2 : cdom,
            xml_decode e dbeh revs2 = Ok d2 /\ xml_encode e ebeh d2 (children_of d2 0) = Ok evs2).
Proof. exact xml_resave_simple_types. Qed.

Theorem C07_encode_file_shape :
  forall (d : db) (p : enc_params) (cmp : compression) (dom dom' : cdom) (ts : list tree),
       Forall (agrees (children_of dom)) ts ->
       NoDup (flat_map refs ts) ->
       (forall r : N,
        In r (flat_map refs ts) ->
        find_inst dom r = find_inst dom' r /\ children_of dom r = children_of dom' r) ->
       (sizes ts <= Datatypes.length dom)%nat ->
       (sizes ts <= Datatypes.length dom')%nat ->
       encode_file d p cmp dom (List.map root ts) = encode_file d p cmp dom' (List.map root ts).
Proof. exact encode_file_shape. Qed.

Theorem C07_bin_resave_generic :
  forall (d : db) (ep : enc_params) (cmp : compression) (dom : cdom) (ts : list tree) 
         (L : N -> N) (out nd : cdom) (nprops : N -> list (bytes * value)),
       NoDup (List.map i_ref dom) ->
       Forall (agrees (children_of dom)) ts ->
       NoDup (flat_map refs ts) ->
       ~ In 0 (flat_map refs ts) ->
       BinRoundTrip.same_forest dom ts L out ->
       (forall r : N,
        In r (flat_map refs ts) ->
        exists i' : inst,
          find_inst out (L r) = Some i' /\
          i_class i' = BinStructure.class_of dom r /\
          i_name i' = i_name (BinRoundTrip.src dom r) /\
          i_props i' =
          XmlDeterminism.rename_props (fun x : N => if inW (flat_map refs ts) x then L x else 0) (nprops r)) ->
       (forall (r : N) (kv : bytes * value),
        In r (flat_map refs ts) ->
        In kv (nprops r) ->
        match snd kv with
        | VRef x => x = 0 \/ In x (flat_map refs ts)
        | VContent (CObject _) => False
        | _ => True
        end) ->
       (forall r : N,
        In r (flat_map refs ts) ->
        find_inst nd r =
        Some
          {|
            i_ref := r;
            i_parent := if inW (List.map root ts) r then 0 else i_parent (BinRoundTrip.src dom r);
            i_class := BinStructure.class_of dom r;
            i_name := i_name (BinRoundTrip.src dom r);
            i_props := nprops r
          |}) ->
       (forall r : N, In r (flat_map refs ts) -> children_of nd r = children_of dom r) ->
       (Datatypes.length (flat_map refs ts) <= Datatypes.length nd)%nat ->
       BinRename.db_defaults_null d = true ->
       encode_file d ep cmp out (children_of out 0) = encode_file d ep cmp nd (List.map root ts).
Proof. exact bin_resave_generic. Qed.

Theorem C07_bin_resave :
  forall (d : db) (ep : enc_params) (cmp : compression) (dom : cdom) (ts : list tree) 
         (b : bytes) (p : dec_params) (st : ser_state),
       BinRoundTrip.input_ok dom ts ->
       BinRoundTrip.names_ok dom ->
       BinRoundTrip.unknown_props d dom ->
       ep_order ep [] = [] ->
       encode_file d ep cmp dom (List.map root ts) = Ok b ->
       add_instances d ep dom (List.map root ts) = Ok st ->
       dp_lim p = None ->
       (forall e : encoded, encode_chunks d ep dom (List.map root ts) = Ok e -> BinRoundTrip.frame_ok p cmp e) ->
       BinRoundTrip.sstr_ok st ->
       (forall x : BinRoundTrip.column,
        In x (BinRoundTrip.cols (ss_types st)) ->
        fst (snd x) <> NAME ->
        BinRoundTrip.simple_col (pi_type (snd (snd x))) (BinRoundTrip.col_values ep dom x)) ->
       BinRename.db_defaults_null d = true ->
       exists out : cdom,
         decode_file d p b = Ok out /\
         BinRoundTrip.same_forest dom ts (BinRoundTrip.lbl st) out /\
         encode_file d ep cmp out (children_of out 0) =
         encode_file d ep cmp (bnorm_dom st (List.map root ts) dom) (List.map root ts).
Proof. exact bin_resave. Qed.

Theorem C07_xml_first_save_differs_dangling_ref_refuted :
  let d :=
         [{|
            i_ref := 1; i_parent := 0; i_class := B "Folder"; i_name := B "f"; i_props := [(B "R", VRef 5)]
          |}] in
       match xml_save_load d [1] with
       | Ok (evs1, d1) =>
           match xml_save_load d1 (children_of d1 0) with
           | Ok (evs2, d2) =>
               evs2 <> evs1 /\
               xml_encode e_rt EWriteUnknown d2 (children_of d2 0) = Ok evs2 /\
               d1 =
               [{|
                  i_ref := 1;
                  i_parent := 0;
                  i_class := B "Folder";
                  i_name := B "f";
                  i_props := [(B "R", VRef 0)]
                |}]
           | _ => False
           end
       | _ => False
       end.
Proof. exact xml_first_save_differs_dangling_ref_refuted. Qed.

Theorem C07_xml_nan_payload_invisible :
  let d :=
         [{|
            i_ref := 1;
            i_parent := 0;
            i_class := B "Part";
            i_name := B "p";
            i_props := [(B "X", VFloat32 XmlCompound2.F32_NNAN)]
          |}] in
       match xml_save_load d [1] with
       | Ok (evs1, d1) =>
           match xml_save_load d1 (children_of d1 0) with
           | Ok (evs2, d2) =>
               evs2 = evs1 /\
               d1 =
               [{|
                  i_ref := 1;
                  i_parent := 0;
                  i_class := B "Part";
                  i_name := B "p";
                  i_props := [(B "X", VFloat32 F32_NAN)]
                |}] /\ d1 <> d /\ d2 = d1
           | _ => False
           end
       | _ => False
       end.
Proof. exact xml_nan_payload_invisible. Qed.

Theorem C07_bin_resave_chain_example :
  match save_load_bin dom_bin2 [10; 40] with
       | Ok (b1, o1) =>
           match save_load_bin o1 (children_of o1 0) with
           | Ok (b2, o2) =>
               encode_file BinFileFacts.db0 BinFileFacts.ep0 None o2 (children_of o2 0) = Ok b2 /\
               o2 = o1 /\
               b2 = b1 /\
               List.map i_ref o1 = [2; 3; 1] /\
               children_of o1 0 = [2; 3] /\
               encode_file BinFileFacts.db0 BinFileFacts.ep0 None
                 (bnorm_dom
                    match add_instances BinFileFacts.db0 BinFileFacts.ep0 dom_bin2 [10; 40] with
                    | Ok s => s
                    | _ => ser_state0
                    end [10; 40] dom_bin2) [10; 40] = Ok b2
           | _ => False
           end
       | _ => False
       end.
Proof. exact bin_resave_chain_example. Qed.

(* ---- round 2: the binary fixed point after the first save, as a theorem; the last clause is
   encode_file (decode_file (encode_file out)) = encode_file out.  The sample discharges every hypothesis (both second-save ones by computation) *)
Theorem C07_bin_resave_fixed_point :
  forall (d : db) (ep : enc_params) (cmp : compression) (dom : cdom) (ts : list tree) 
         (b : bytes) (p : dec_params) (st : ser_state),
       BinRoundTrip.input_ok dom ts ->
       BinRoundTrip.names_ok dom ->
       BinRoundTrip.unknown_props d dom ->
       ep_order ep [] = [] ->
       encode_file d ep cmp dom (List.map root ts) = Ok b ->
       add_instances d ep dom (List.map root ts) = Ok st ->
       dp_lim p = None ->
       (forall e : encoded, encode_chunks d ep dom (List.map root ts) = Ok e -> BinRoundTrip.frame_ok p cmp e) ->
       BinRoundTrip.sstr_ok st ->
       (forall x : BinRoundTrip.column,
        In x (BinRoundTrip.cols (ss_types st)) ->
        fst (snd x) <> NAME ->
        BinRoundTrip.simple_col (pi_type (snd (snd x))) (BinRoundTrip.col_values ep dom x)) ->
       BinRename.db_defaults_null d = true ->
       exists out : cdom,
         decode_file d p b = Ok out /\
         BinRoundTrip.same_forest dom ts (BinRoundTrip.lbl st) out /\
         encode_file d ep cmp out (children_of out 0) =
         encode_file d ep cmp (bnorm_dom st (List.map root ts) dom) (List.map root ts) /\
         (forall b2 : bytes,
          encode_file d ep cmp out (children_of out 0) = Ok b2 ->
          (forall e2 : encoded,
           encode_chunks d ep out (children_of out 0) = Ok e2 -> BinRoundTrip.frame_ok p cmp e2) ->
          (forall st2 : ser_state,
           add_instances d ep (bnorm_dom st (List.map root ts) dom) (List.map root ts) = Ok st2 ->
           BinRoundTrip.sstr_ok st2) ->
          exists out2 : cdom,
            decode_file d p b2 = Ok out2 /\ encode_file d ep cmp out2 (children_of out2 0) = Ok b2).
Proof. exact bin_resave_fixed_point. Qed.

Theorem C07_bin_resave_chunks :
  forall (d : db) (ep : enc_params) (cmp : compression) (dom : cdom) (ts : list tree) 
         (b : bytes) (p : dec_params) (st : ser_state),
       BinRoundTrip.input_ok dom ts ->
       BinRoundTrip.names_ok dom ->
       BinRoundTrip.unknown_props d dom ->
       ep_order ep [] = [] ->
       encode_file d ep cmp dom (List.map root ts) = Ok b ->
       add_instances d ep dom (List.map root ts) = Ok st ->
       dp_lim p = None ->
       (forall e : encoded, encode_chunks d ep dom (List.map root ts) = Ok e -> BinRoundTrip.frame_ok p cmp e) ->
       BinRoundTrip.sstr_ok st ->
       (forall x : BinRoundTrip.column,
        In x (BinRoundTrip.cols (ss_types st)) ->
        fst (snd x) <> NAME ->
        BinRoundTrip.simple_col (pi_type (snd (snd x))) (BinRoundTrip.col_values ep dom x)) ->
       BinRename.db_defaults_null d = true ->
       exists out : cdom,
         decode_file d p b = Ok out /\
         BinRoundTrip.same_forest dom ts (BinRoundTrip.lbl st) out /\
         encode_chunks d ep out (children_of out 0) =
         encode_chunks d ep (bnorm_dom st (List.map root ts) dom) (List.map root ts).
Proof. exact bin_resave_chunks. Qed.

Theorem C07_bin_resave_fixed_point_sample :
  exists (out : cdom) (b2 : bytes) (out2 : cdom),
         decode_file BinFileFacts.db0 (BinFileFacts.dp0 None) BinFileFacts.sample_file = Ok out /\
         encode_file BinFileFacts.db0 BinFileFacts.ep0 None out (children_of out 0) = Ok b2 /\
         decode_file BinFileFacts.db0 (BinFileFacts.dp0 None) b2 = Ok out2 /\
         encode_file BinFileFacts.db0 BinFileFacts.ep0 None out2 (children_of out2 0) = Ok b2.
Proof. exact bin_resave_fixed_point_sample. Qed.

(* ---- round 3 (Proofs/ResaveFixedPoint2.v): the second-save shared-string hypothesis is DERIVED (invariant `sinv` along add_loop: in this class every
   string of the second table is a database default the first traversal recorded too), and the second save is shown not to fail
   (bin_resave_fixed_point_total: existence of b2 is proved).  What remains assumed about the second save is the size limit / compressor law of its chunks. *)
From RbxVerif Require Import ResaveFixedPoint2.
Theorem C07_bin_resave_fixed_point_closed :
  forall (d : db) (ep : enc_params) (cmp : compression) (dom : cdom) (ts : list tree) 
         (b : bytes) (p : dec_params) (st : ser_state),
       BinRoundTrip.input_ok dom ts ->
       BinRoundTrip.names_ok dom ->
       BinRoundTrip.unknown_props d dom ->
       ep_order ep [] = [] ->
       encode_file d ep cmp dom (List.map root ts) = Ok b ->
       add_instances d ep dom (List.map root ts) = Ok st ->
       dp_lim p = None ->
       (forall e : encoded, encode_chunks d ep dom (List.map root ts) = Ok e -> BinRoundTrip.frame_ok p cmp e) ->
       BinRoundTrip.sstr_ok st ->
       (forall x : BinRoundTrip.column,
        In x (BinRoundTrip.cols (ss_types st)) ->
        fst (snd x) <> NAME ->
        BinRoundTrip.simple_col (pi_type (snd (snd x))) (BinRoundTrip.col_values ep dom x)) ->
       BinRename.db_defaults_null d = true ->
       exists out : cdom,
         decode_file d p b = Ok out /\
         BinRoundTrip.same_forest dom ts (BinRoundTrip.lbl st) out /\
         encode_file d ep cmp out (children_of out 0) =
         encode_file d ep cmp (bnorm_dom st (List.map root ts) dom) (List.map root ts) /\
         (forall b2 : bytes,
          encode_file d ep cmp out (children_of out 0) = Ok b2 ->
          (forall e2 : encoded,
           encode_chunks d ep out (children_of out 0) = Ok e2 -> BinRoundTrip.frame_ok p cmp e2) ->
          exists out2 : cdom,
            decode_file d p b2 = Ok out2 /\ encode_file d ep cmp out2 (children_of out2 0) = Ok b2).
Proof. exact bin_resave_fixed_point_closed. Qed.

Theorem C07_bin_resave_fixed_point_total :
  forall (d : db) (ep : enc_params) (cmp : compression) (dom : cdom) (ts : list tree) 
         (b : bytes) (p : dec_params) (st : ser_state),
       BinRoundTrip.input_ok dom ts ->
       BinRoundTrip.names_ok dom ->
       BinRoundTrip.unknown_props d dom ->
       ep_order ep [] = [] ->
       encode_file d ep cmp dom (List.map root ts) = Ok b ->
       add_instances d ep dom (List.map root ts) = Ok st ->
       dp_lim p = None ->
       (forall e : encoded, encode_chunks d ep dom (List.map root ts) = Ok e -> BinRoundTrip.frame_ok p cmp e) ->
       BinRoundTrip.sstr_ok st ->
       (forall x : BinRoundTrip.column,
        In x (BinRoundTrip.cols (ss_types st)) ->
        fst (snd x) <> NAME ->
        BinRoundTrip.simple_col (pi_type (snd (snd x))) (BinRoundTrip.col_values ep dom x)) ->
       BinRename.db_defaults_null d = true ->
       (forall e2 : encoded,
        encode_chunks d ep (bnorm_dom st (List.map root ts) dom) (List.map root ts) = Ok e2 ->
        BinRoundTrip.frame_ok p cmp e2) ->
       exists (out : cdom) (b2 : bytes) (out2 : cdom),
         decode_file d p b = Ok out /\
         BinRoundTrip.same_forest dom ts (BinRoundTrip.lbl st) out /\
         encode_file d ep cmp out (children_of out 0) = Ok b2 /\
         decode_file d p b2 = Ok out2 /\ encode_file d ep cmp out2 (children_of out2 0) = Ok b2.
Proof. exact bin_resave_fixed_point_total. Qed.

Theorem C07_bin_resave_fixed_point_uncompressed :
  forall (d : db) (ep : enc_params) (dom : cdom) (ts : list tree) (b : bytes) 
         (p : dec_params) (st : ser_state),
       BinRoundTrip.input_ok dom ts ->
       BinRoundTrip.names_ok dom ->
       BinRoundTrip.unknown_props d dom ->
       ep_order ep [] = [] ->
       encode_file d ep None dom (List.map root ts) = Ok b ->
       add_instances d ep dom (List.map root ts) = Ok st ->
       dp_lim p = None ->
       (forall e : encoded, encode_chunks d ep dom (List.map root ts) = Ok e -> chunks_small e) ->
       BinRoundTrip.sstr_ok st ->
       (forall x : BinRoundTrip.column,
        In x (BinRoundTrip.cols (ss_types st)) ->
        fst (snd x) <> NAME ->
        BinRoundTrip.simple_col (pi_type (snd (snd x))) (BinRoundTrip.col_values ep dom x)) ->
       BinRename.db_defaults_null d = true ->
       (forall e2 : encoded,
        encode_chunks d ep (bnorm_dom st (List.map root ts) dom) (List.map root ts) = Ok e2 ->
        chunks_small e2) ->
       exists (out : cdom) (b2 : bytes) (out2 : cdom),
         decode_file d p b = Ok out /\
         encode_file d ep None out (children_of out 0) = Ok b2 /\
         decode_file d p b2 = Ok out2 /\ encode_file d ep None out2 (children_of out2 0) = Ok b2.
Proof. exact bin_resave_fixed_point_uncompressed. Qed.

Theorem C07_bin_resave_fixed_point_uncompressed_sample :
  exists (out : cdom) (b2 : bytes) (out2 : cdom),
         decode_file BinFileFacts.db0 (BinFileFacts.dp0 None) BinFileFacts.sample_file = Ok out /\
         encode_file BinFileFacts.db0 BinFileFacts.ep0 None out (children_of out 0) = Ok b2 /\
         decode_file BinFileFacts.db0 (BinFileFacts.dp0 None) b2 = Ok out2 /\
         encode_file BinFileFacts.db0 BinFileFacts.ep0 None out2 (children_of out2 0) = Ok b2.
Proof. exact bin_resave_fixed_point_uncompressed_sample. Qed.

(* ---- round 4 (Proofs/ResaveFixedPointKnown.v): the XML re-save fixed point for database-KNOWN properties, through XmlKnownProps: save(load(save d)) =
   save(normk_dom d) (keys filed under their canonical name, values in norm_known form, legacy values migrated, dangling Refs nulled) for any per-value
   codec, both unknown-property pairings, alias and legacy spellings; the fixed point after it under fix_dom (the returned canonical key resolves to
   itself again and the value is a fixed point of the normalisation) — shown NECESSARY by a database in which a subclass shadows a canonical name
   (fix_dom_needed_refuted); on the bundled database the key part holds for all 22 588 (class, key) pairs (bundled_self_ok) outside the two recorded
   exceptions; two canonical properties sharing a serialized name on one instance break the first equation (resave_known_clash_refuted: the
   recorded canonical-name-changes class seen from the re-save side). *)
From RbxVerif Require Import XmlKnownProps ResaveFixedPointKnown.
Theorem C07_xml_resave_known :
  forall (e : xenv) (vc : vcodec (xe_o e)) (keep : bool) (d : cdom) (roots : list N) 
         (evs : list wevent) (revs : list revent),
       input_ok d roots ->
       hash_ok e ->
       known_dom e vc keep d roots ->
       vc_plain vc ->
       xml_encode e (ebeh_of keep) d roots = Ok evs ->
       channel evs = Ok revs ->
       exists d1 : cdom,
         xml_decode e (dbeh_of keep) revs = Ok d1 /\
         forest_rel d roots d1 /\
         Forall2 (known_back e vc keep d (written d roots)) (written d roots) d1 /\
         ordered (N.of_nat (Datatypes.length d1)) d1 /\
         xml_encode e (ebeh_of keep) d1 (children_of d1 0) =
         xml_encode e (ebeh_of keep) (normk_dom e vc keep (written d roots) d) roots.
Proof. exact xml_resave_known. Qed.

Theorem C07_xml_resave_known_fixed_point :
  forall (e : xenv) (vc : vcodec (xe_o e)) (keep : bool) (d : cdom) (roots : list N) 
         (evs : list wevent) (revs : list revent),
       input_ok d roots ->
       hash_ok e ->
       known_dom e vc keep d roots ->
       vc_plain vc ->
       fix_dom e vc keep d roots ->
       xml_encode e (ebeh_of keep) d roots = Ok evs ->
       channel evs = Ok revs ->
       exists d1 : cdom,
         xml_decode e (dbeh_of keep) revs = Ok d1 /\
         xml_encode e (ebeh_of keep) d1 (children_of d1 0) =
         xml_encode e (ebeh_of keep) (normk_dom e vc keep (written d roots) d) roots /\
         (forall (evs2 : list wevent) (revs2 : list revent),
          xml_encode e (ebeh_of keep) d1 (children_of d1 0) = Ok evs2 ->
          channel evs2 = Ok revs2 ->
          exists d2 : cdom,
            xml_decode e (dbeh_of keep) revs2 = Ok d2 /\
            xml_encode e (ebeh_of keep) d2 (children_of d2 0) = Ok evs2).
Proof. exact xml_resave_known_fixed_point. Qed.

Theorem C07_xml_resave_known_fixed_point_bundled :
  forall (e : xenv) (vc : vcodec (xe_o e)) (keep : bool) (d : cdom) (roots : list N) 
         (evs : list wevent) (revs : list revent),
       xe_db e = Database.database ->
       input_ok d roots ->
       hash_ok e ->
       db_dom e vc keep bundled_exceptions d roots ->
       vc_plain vc ->
       val_dom e vc keep d roots ->
       xml_encode e (ebeh_of keep) d roots = Ok evs ->
       channel evs = Ok revs ->
       exists d1 : cdom,
         xml_decode e (dbeh_of keep) revs = Ok d1 /\
         xml_encode e (ebeh_of keep) d1 (children_of d1 0) =
         xml_encode e (ebeh_of keep) (normk_dom e vc keep (written d roots) d) roots /\
         (forall (evs2 : list wevent) (revs2 : list revent),
          xml_encode e (ebeh_of keep) d1 (children_of d1 0) = Ok evs2 ->
          channel evs2 = Ok revs2 ->
          exists d2 : cdom,
            xml_decode e (dbeh_of keep) revs2 = Ok d2 /\
            xml_encode e (ebeh_of keep) d2 (children_of d2 0) = Ok evs2).
Proof. exact xml_resave_known_fixed_point_bundled. Qed.

Theorem C07_bundled_self_ok :
  db_self_ok Database.database = true.
Proof. exact bundled_self_ok. Qed.

Theorem C07_fix_dom_needed_refuted :
  key_ok_b db_r "Sub" "a" = true /\
       key_ok_b db_r "Sub" "A" = false /\
       self_b db_r "Sub" "a" = false /\
       input_ok d_r [1] /\
       hash_ok e_r /\
       known_dom e_r vc_r false d_r [1] /\
       vc_plain vc_r /\
       ~ fix_dom e_r vc_r false d_r [1] /\
       thru e_r EIgnoreUnknown DIgnoreUnknown d_r [1] = Ok r_d1 /\
       thru e_r EIgnoreUnknown DIgnoreUnknown r_d1 (children_of r_d1 0) = Ok r_d2 /\
       xml_encode e_r EIgnoreUnknown r_d2 (children_of r_d2 0) <>
       xml_encode e_r EIgnoreUnknown r_d1 (children_of r_d1 0).
Proof. exact fix_dom_needed_refuted. Qed.

Theorem C07_resave_known_clash_refuted :
  key_ok_b Database.database "Sound" "MaxDistance" = false /\
       one_spelling_b e_b false (B "Sound")
         (ikeys
            {|
              i_ref := 1;
              i_parent := 0;
              i_class := B "Sound";
              i_name := B "s";
              i_props :=
                [(B "MaxDistance", VFloat32 F32_ONE);
                 (B "RollOffMaxDistance", VFloat32 XmlCompound2.F32_HALF)]
            |}) = false /\
       normk_dom e_b vc_b false (written d_s [1]) d_s =
       [{|
          i_ref := 1;
          i_parent := 0;
          i_class := B "Sound";
          i_name := B "s";
          i_props :=
            [(B "RollOffMaxDistance", VFloat32 F32_ONE);
             (B "RollOffMaxDistance", VFloat32 XmlCompound2.F32_HALF)]
        |}] /\
       (let d1 :=
          [{|
             i_ref := 1;
             i_parent := 0;
             i_class := B "Sound";
             i_name := B "s";
             i_props := [(B "RollOffMaxDistance", VFloat32 XmlCompound2.F32_HALF)]
           |}] in
        thru e_b EIgnoreUnknown DIgnoreUnknown d_s [1] = Ok d1 /\
        xml_encode e_b EIgnoreUnknown d1 (children_of d1 0) <>
        xml_encode e_b EIgnoreUnknown (normk_dom e_b vc_b false (written d_s [1]) d_s) [1]).
Proof. exact resave_known_clash_refuted. Qed.

