(* Property C07 — Serializer output is deterministic and stable under re-save (binary part; statements only).
   Proofs: Proofs/BinColumnsFacts.v.  The whole-file statement (bytes independent of Ref values, of property
   insertion order and of hash iteration order) is exercised on the implementation by the C07 oracle of the
   `binfile` kind; what is proven is its column-level core and a computed fixed point. *)
From Coq Require Import Permutation.
From RbxVerif Require Import Base Bytes Value Db CodecDom BinValues BinFile BinFileFacts BinColumnsFacts.
Open Scope N_scope.

(* the value a class column takes from an instance is a function of the instance's property MAP: any two
   listings (iteration orders) of the same map give the same value *)
Theorem C07_prop_value_perm : forall p canon pi order (i i' : inst),
  i_name i = i_name i' -> NoDup (List.map fst (i_props i)) -> Permutation (i_props i) (i_props i') ->
  prop_value p canon pi order i = prop_value p canon pi order i'.
Proof. exact prop_value_perm. Qed.

(* saving what was loaded from the sample file reproduces the file byte for byte *)
Theorem C07_sample_resave_fixed_point :
  match decode_file db0 (dp0 None) sample_file with
  | Ok d => encode_file db0 ep0 None d [2] = Ok sample_file
  | _ => False
  end.
Proof. exact sample_resave_fixed_point. Qed.
