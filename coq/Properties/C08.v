(* Property C08 — Binary class columns: mixed property sets serialize and keep their own values (statements only).
   Proofs: Proofs/BinColumnsFacts.v.  Model: BinFile.collect_type_info / prop_value. *)
From RbxVerif Require Import Base Bytes Value Db CodecDom BinValues BinFile BinFileFacts BinColumnsFacts.
Open Scope N_scope.

(* an instance that carries the canonical property keeps its own value *)
Theorem C08_own_value_kept : forall p canon pi order i v,
  bytes_eqb canon NAME = false -> pi_migration pi = None -> bfind canon (i_props i) = Some v ->
  prop_value p canon pi order i = v.
Proof. exact prop_value_own. Qed.

(* also when it carries it under an alias spelling *)
Theorem C08_alias_value_kept : forall p canon pi i a v,
  bytes_eqb canon NAME = false -> pi_migration pi = None -> bfind canon (i_props i) = None ->
  bfind a (i_props i) = Some v ->
  prop_value p canon pi [a] i = v.
Proof. exact prop_value_alias. Qed.

(* an instance that carries no spelling of a column's property gets the column default, never a neighbour's value *)
Theorem C08_missing_gets_default : forall p canon pi order i,
  bytes_eqb canon NAME = false -> pi_migration pi = None -> bfind canon (i_props i) = None ->
  (forall a, In a order -> bfind a (i_props i) = None) ->
  prop_value p canon pi order i = pi_default pi.
Proof. exact prop_value_default. Qed.

(* legacy BrickColor next to the alias Color3uint8 of the same logical property (the shape that failed before
   repair 73fe0ea9): each alone and both sibling orders serialize, each instance reads back its own colour *)
Theorem C08_sample_both_orders :
  is_ok (enc_part [legacy_part 1] [1]) = true /\
  is_ok (enc_part [alias_part 1] [1]) = true /\
  roundtrip_colours [legacy_part 1; alias_part 2] [1; 2]
    = [(bstr "L", Some (VColor3uint8 163 162 165)); (bstr "A", Some (VColor3uint8 1 2 3))] /\
  roundtrip_colours [alias_part 1; legacy_part 2] [1; 2]
    = [(bstr "A", Some (VColor3uint8 1 2 3)); (bstr "L", Some (VColor3uint8 163 162 165))].
Proof. exact c08_sample_both_orders. Qed.

(* ==== totality and order independence of the column planning (Proofs/BinTypeInfoFacts.v), for every database: the unwrap in
   collect_type_info is unreachable; planning a property list succeeds iff every visited pair is plannable, so (under the
   type-consistency hypothesis: all spellings of one logical property agree on the serialized type; for names unknown to the
   database: one value type per name) success is invariant under permutation of siblings and of each instance's property list,
   and holds for the set as soon as it holds for each instance alone (this half needs no hypothesis).  The hypothesis is
   necessary: C08_sibling_order_dependence_* (recorded finding mixed-types-order-dependent). *)
From Coq Require Import Permutation.
From RbxVerif Require Import DbCheck Database BinTypeInfoFacts.
Open Scope N_scope.

Theorem C08_cti_prop_unwrap_unreachable :
  forall (d : db) (class : bytes) (acc : list bytes * type_info) (pv : bytes * value),
       cti_prop d class acc pv = Panic ->
       resolve_prop d class (fst pv) (snd pv) = Panic \/
       (exists (c s : bytes) (ty : N) (m : option migop),
          resolve_prop d class (fst pv) (snd pv) = Ok (RProp c s ty m) /\
          col_plan d (ti_class (snd acc)) c ty = Panic).
Proof. exact cti_prop_unwrap_unreachable. Qed.

Theorem C08_cti_prop_ok_or_unsupported :
  forall (d : db) (class : bytes) (acc : list bytes * type_info) (pv : bytes * value),
       db_lookup_safe d = true ->
       (forall k : cdesc, ti_class (snd acc) = Some k -> In k (db_classes d)) ->
       (exists acc' : list bytes * type_info, cti_prop d class acc pv = Ok acc') \/
       cti_prop d class acc pv = Err EE_UNSUPPORTED.
Proof. exact cti_prop_ok_or_unsupported. Qed.

Theorem C08_fold_cti_ok_iff :
  forall (d : db) (class : bytes) (l : list (bytes * value)) (ss : list bytes) (ti : type_info),
       types_agree d class l ->
       (exists acc' : list bytes * type_info, fold_res (cti_prop d class) (ss, ti) l = Ok acc') <->
       Forall
         (fun pv : bytes * value =>
          bmem (fst pv) (ti_visited ti) = true \/ pair_plannable d class (ti_class ti) (ti_props ti) pv) l.
Proof. exact fold_cti_ok_iff. Qed.

Theorem C08_collect_types_perm_success :
  forall (d : db) (class : bytes) (st : ser_state) (insts insts' : list inst),
       Forall (fun j : inst => i_class j = class) insts ->
       insts_perm insts insts' ->
       types_agree d class (flat_map i_props insts) ->
       (exists st' : ser_state, fold_res (collect_type_info d) st insts = Ok st') ->
       exists st' : ser_state, fold_res (collect_type_info d) st insts' = Ok st'.
Proof. exact collect_types_perm_success. Qed.

Theorem C08_collect_types_each_alone :
  forall (d : db) (class : bytes) (insts : list inst),
       Forall (fun j : inst => i_class j = class) insts ->
       types_agree d class (flat_map i_props insts) ->
       (forall i : inst, In i insts -> exists st' : ser_state, collect_type_info d ser_state0 i = Ok st') ->
       exists st' : ser_state, fold_res (collect_type_info d) ser_state0 insts = Ok st'.
Proof. exact collect_types_each_alone. Qed.

Theorem C08_collect_types_each_alone_noH :
  forall (d : db) (class : bytes) (insts : list inst),
       Forall (fun j : inst => i_class j = class) insts ->
       (forall i : inst, In i insts -> exists st' : ser_state, collect_type_info d ser_state0 i = Ok st') ->
       exists st' : ser_state, fold_res (collect_type_info d) ser_state0 insts = Ok st'.
Proof. exact collect_types_each_alone_noH. Qed.

Theorem C08_collect_types_perm_plan_spelled :
  forall (d : db) (class : bytes) (st : ser_state) (insts insts' : list inst) (st1 st2 : ser_state),
       insts <> [] ->
       Forall (fun j : inst => i_class j = class) insts ->
       insts_perm insts insts' ->
       spellings_agree d class (flat_map i_props insts) ->
       migrations_agree d class (flat_map i_props insts) ->
       st_nodup (class_state d class st) ->
       fold_res (collect_type_info d) st insts = Ok st1 ->
       fold_res (collect_type_info d) st insts' = Ok st2 ->
       exists ti1 ti2 : type_info,
         bfind class (ss_types st1) = Some ti1 /\
         bfind class (ss_types st2) = Some ti2 /\
         ti_id ti1 = ti_id ti2 /\
         ti_service ti1 = ti_service ti2 /\
         ti_class ti1 = ti_class ti2 /\
         ti_instances ti1 = ti_instances (class_ti d class st) ++ List.map i_ref insts /\
         ti_instances ti2 = ti_instances (class_ti d class st) ++ List.map i_ref insts' /\
         List.map fst (ti_props ti1) = List.map fst (ti_props ti2) /\
         Forall2 (fun x y : bytes * prop_info => fst x = fst y /\ pi_equiv_perm (snd x) (snd y))
           (ti_props ti1) (ti_props ti2) /\
         Permutation.Permutation (ss_sstr st1) (ss_sstr st2) /\
         (forall k : bytes, k <> class -> bfind k (ss_types st1) = bfind k (ss_types st2)) /\
         List.map fst (ss_types st1) = List.map fst (ss_types st2) /\
         ss_next_id st1 = ss_next_id st2 /\ ss_relevant st1 = ss_relevant st2.
Proof. exact collect_types_perm_plan_spelled. Qed.

Theorem C08_column_values_perm :
  forall (p : enc_params) (canon : bytes) (pi pi' : prop_info) (ord ord' : list bytes)
         (insts insts' : list inst),
       Forall2 inst_perm insts insts' ->
       Forall (fun i : inst => NoDup (List.map fst (i_props i))) insts ->
       pi_equiv_perm pi pi' ->
       Permutation.Permutation ord (pi_aliases pi) ->
       Permutation.Permutation ord' (pi_aliases pi') ->
       Forall (one_spelling canon (pi_aliases pi)) insts ->
       List.map (prop_value p canon pi ord) insts = List.map (prop_value p canon pi' ord') insts'.
Proof. exact column_values_perm. Qed.

Theorem C08_agree_from_db :
  forall (d : db) (class : bytes) (l : list (bytes * value)),
       class_spellings_ok d (string_of_bytes class) = true ->
       (forall (n : bytes) (v1 v2 : value),
        In (n, v1) l ->
        In (n, v2) l ->
        known_resolve d (string_of_bytes class) (string_of_bytes n) = Ok None -> vtype v1 = vtype v2) ->
       spellings_agree d class l /\ migrations_agree d class l.
Proof. exact agree_from_db. Qed.

Theorem C08_bundled_spellings_ok :
  forallb (fun c : cdesc => class_spellings_ok database (cd_name c)) (db_classes database) = true.
Proof. exact bundled_spellings_ok. Qed.

Theorem C08_bundled_agree :
  forall (class : bytes) (l : list (bytes * value)),
       (forall (n : bytes) (v1 v2 : value),
        In (n, v1) l ->
        In (n, v2) l ->
        known_resolve database (string_of_bytes class) (string_of_bytes n) = Ok None -> vtype v1 = vtype v2) ->
       spellings_agree database class l /\ migrations_agree database class l.
Proof. exact bundled_agree. Qed.

Theorem C08_perm_success_needs_H :
  is_ok (fold_res (collect_type_info db0) ser_state0 [foo_string 1; foo_attrs 2]) = true /\
       is_ok (fold_res (collect_type_info db0) ser_state0 [foo_attrs 2; foo_string 1]) = false /\
       insts_perm [foo_string 1; foo_attrs 2] [foo_attrs 2; foo_string 1] /\
       ~ types_agree db0 (bstr "Folder") (flat_map i_props [foo_string 1; foo_attrs 2]).
Proof. exact perm_success_needs_H. Qed.

Theorem C08_sibling_order_dependence_mixed_types :
  is_ok (fold_res (collect_type_info db0) ser_state0 [foo_string 1; foo_attrs 2]) = true /\
       is_ok (fold_res (collect_type_info db0) ser_state0 [foo_attrs 2; foo_string 1]) = false /\
       is_ok (encode_file db0 ep0 None [foo_string 1; foo_attrs 2] [1; 2]) = true /\
       encode_file db0 ep0 None [foo_attrs 2; foo_string 1] [2; 1] = Err EE_UNSUPPORTED /\
       encode_file db0 ep0 None [foo_attrs 2] [2] = Err EE_UNSUPPORTED.
Proof. exact sibling_order_dependence_mixed_types. Qed.

Theorem C08_sibling_order_dependence_bundled :
  is_ok (encode_file database ep0 None [foo_string 1; foo_attrs 2] [1; 2]) = true /\
       encode_file database ep0 None [foo_attrs 2; foo_string 1] [2; 1] = Err EE_UNSUPPORTED.
Proof. exact sibling_order_dependence_bundled. Qed.

Theorem C08_three_parts_together :
  exists st' : ser_state, fold_res (collect_type_info db_part) ser_state0 three_parts' = Ok st'.
Proof. exact three_parts_together. Qed.

(* ==== TOTALITY OF THE SERIALIZER AND THE C08 CLAUSE AS ONE THEOREM (Proofs/BinKnownProps.v).
   enc_col succeeds exactly on lists of accepted values (col_accepts: an executable table of the arms of serialize_properties for all 31 wire
   types, agreeing with the table regenerated from the source; the two value-dependent failures are Attributes that do not encode and a
   SharedString missing from the table), and the first rejected value determines the outcome.  encode_chunks / encode_file are total on every
   forest whose instances meet the executable predicate inst_ok — proved to be EXACTLY "the instance serializes on its own" — under the
   type-consistency hypothesis for database-unknown names and an executable per-class database check (class_cols_ok: defaults and migration
   outputs are writable by their column; passed by all 797 bundled classes); the model's fuel is shown sufficient.  Hence: if each instance of a
   same-class set serializes alone, the set serializes in EVERY sibling order (each_alone_then_set_any_order, bundled instance).  Hypotheses shown
   necessary by witnesses; the converse fails (a set can serialize although one member alone does not: the recorded mixed-types class).
   written_columns_spec: per instance and column the writer holds the instance's own (migrated) value, or the (migrated) nearest-ancestor
   default when it carries no spelling, never a class-mate's. *)
From RbxVerif Require Import Attr BinPostorder BinStructure BinKnownProps.
From RbxVerif Require BinRoundTrip Database.

Theorem C08_enc_col_ok_iff :
  forall (ty : wire_type) (c : enc_ctx) (vs : list value),
       (exists b : bytes, enc_col ty c vs = Ok b) <-> Forall (fun v : value => col_accepts ty c v = true) vs.
Proof. exact enc_col_ok_iff. Qed.

Theorem C08_enc_col_rejects :
  forall (ty : wire_type) (c : enc_ctx) (vs : list value) (v : value),
       In v vs -> col_accepts ty c v = false -> forall b : bytes, enc_col ty c vs <> Ok b.
Proof. exact enc_col_rejects. Qed.

Theorem C08_enc_col_first_reject :
  forall (ty : wire_type) (c : enc_ctx) (pre : list value) (v : value) (post : list value),
       Forall (fun v0 : value => col_accepts ty c v0 = true) pre ->
       col_accepts ty c v = false -> enc_col ty c (pre ++ v :: post) = reject_outcome ty v.
Proof. exact enc_col_first_reject. Qed.

Theorem C08_col_accepts_split :
  forall (ty : wire_type) (c : enc_ctx) (v : value),
       col_accepts ty c v = val_accepts ty v && sstr_known c v.
Proof. exact col_accepts_split. Qed.

Theorem C08_encode_chunks_total :
  forall (d : db) (p : enc_params) (dom : cdom) (ts : list tree),
       enc_ready d p dom ts ->
       dom_types_agree d dom ->
       (forall i : inst, In i dom -> class_good d (i_class i)) ->
       (forall i : inst, In i dom -> inst_ok d p i = true) ->
       exists e : encoded, encode_chunks d p dom (List.map root ts) = Ok e.
Proof. exact encode_chunks_total. Qed.

Theorem C08_encode_file_total :
  forall (d : db) (p : enc_params) (cmp : compression) (dom : cdom) (ts : list tree),
       enc_ready d p dom ts ->
       dom_types_agree d dom ->
       (forall i : inst, In i dom -> class_good d (i_class i)) ->
       (forall i : inst, In i dom -> inst_ok d p i = true) ->
       exists b : bytes, encode_file d p cmp dom (List.map root ts) = Ok b.
Proof. exact encode_file_total. Qed.

Theorem C08_each_alone_then_set_any_order :
  forall (d : db) (p : enc_params) (cmp : compression) (class : bytes) (insts : list inst),
       flat_siblings class insts ->
       (Z.of_nat (Datatypes.length insts) <= 2147483647)%Z ->
       (forall l : list bytes, Permutation.Permutation (ep_order p l) l) ->
       (forall s : bytes, In s (dom_sstrs d insts) -> bfind s (ep_hash p) <> None) ->
       class_good d class ->
       types_agree d class (flat_map i_props insts) ->
       migrations_agree d class (flat_map i_props insts) ->
       (forall i : inst, In i insts -> inst_one_spelling d i) ->
       (forall i : inst, In i insts -> exists b : bytes, encode_file d p cmp [i] [i_ref i] = Ok b) ->
       forall insts' : list inst,
       Permutation.Permutation insts insts' ->
       exists b : bytes, encode_file d p cmp insts' (List.map i_ref insts') = Ok b.
Proof. exact each_alone_then_set_any_order. Qed.

Theorem C08_each_alone_then_set_any_order_bundled :
  forall (p : enc_params) (cmp : compression) (class : bytes) (insts : list inst),
       flat_siblings class insts ->
       (Z.of_nat (Datatypes.length insts) <= 2147483647)%Z ->
       (forall l : list bytes, Permutation.Permutation (ep_order p l) l) ->
       (forall s : bytes, In s (dom_sstrs Database.database insts) -> bfind s (ep_hash p) <> None) ->
       (forall (n : bytes) (v1 v2 : value),
        In (n, v1) (flat_map i_props insts) ->
        In (n, v2) (flat_map i_props insts) ->
        known_resolve Database.database (string_of_bytes class) (string_of_bytes n) = Ok None ->
        vtype v1 = vtype v2) ->
       (forall i : inst, In i insts -> inst_one_spelling Database.database i) ->
       (forall i : inst,
        In i insts -> exists b : bytes, encode_file Database.database p cmp [i] [i_ref i] = Ok b) ->
       forall insts' : list inst,
       Permutation.Permutation insts insts' ->
       exists b : bytes, encode_file Database.database p cmp insts' (List.map i_ref insts') = Ok b.
Proof. exact each_alone_then_set_any_order_bundled. Qed.

Theorem C08_encode_total_same_class :
  forall (d : db) (p : enc_params) (cmp : compression) (class : bytes) (insts : list inst),
       flat_siblings class insts ->
       (Z.of_nat (Datatypes.length insts) <= 2147483647)%Z ->
       (forall l : list bytes, Permutation.Permutation (ep_order p l) l) ->
       (forall s : bytes, In s (dom_sstrs d insts) -> bfind s (ep_hash p) <> None) ->
       class_good d class ->
       types_agree d class (flat_map i_props insts) ->
       migrations_agree d class (flat_map i_props insts) ->
       (forall i : inst, In i insts -> inst_ok d p i = true) ->
       forall insts' : list inst,
       Permutation.Permutation insts insts' ->
       exists b : bytes, encode_file d p cmp insts' (List.map i_ref insts') = Ok b.
Proof. exact encode_total_same_class. Qed.

Theorem C08_alone_serializes_inst_ok :
  forall (d : db) (p : enc_params) (cmp : compression) (i : inst),
       i_parent i <> i_ref i ->
       inst_one_spelling d i ->
       types_agree d (i_class i) (i_props i) ->
       migrations_agree d (i_class i) (i_props i) ->
       (forall l : list bytes, Permutation.Permutation (ep_order p l) l) ->
       (exists b : bytes, encode_file d p cmp [i] [i_ref i] = Ok b) -> inst_ok d p i = true.
Proof. exact alone_serializes_inst_ok. Qed.

Theorem C08_inst_ok_alone_serializes :
  forall (d : db) (p : enc_params) (cmp : compression) (i : inst),
       i_parent i = 0 ->
       i_ref i <> 0 ->
       (forall l : list bytes, Permutation.Permutation (ep_order p l) l) ->
       (forall s : bytes, In s (dom_sstrs d [i]) -> bfind s (ep_hash p) <> None) ->
       class_good d (i_class i) ->
       types_agree d (i_class i) (i_props i) ->
       migrations_agree d (i_class i) (i_props i) ->
       inst_ok d p i = true -> exists b : bytes, encode_file d p cmp [i] [i_ref i] = Ok b.
Proof. exact inst_ok_alone_serializes. Qed.

Theorem C08_bundled_class_good :
  forall class : bytes, class_good Database.database class.
Proof. exact bundled_class_good. Qed.

Theorem C08_written_columns_spec :
  forall (d : db) (p : enc_params) (dom : cdom) (ts : list tree) (st : ser_state),
       enc_ready d p dom ts ->
       dom_types_agree d dom ->
       (forall i : inst, In i dom -> class_good d (i_class i)) ->
       (forall i : inst, In i dom -> inst_ok d p i = true) ->
       add_instances d p dom (List.map root ts) = Ok st ->
       forall (cn : bytes) (ti : type_info) (canon : bytes) (pi : prop_info) (r : N) (i : inst),
       In (cn, ti) (ss_types st) ->
       In (canon, pi) (ti_props ti) ->
       canon <> NAME ->
       In r (ti_instances ti) ->
       find_inst dom r = Some i ->
       i_class i = cn /\
       (inst_one_spelling d i ->
        forall (n : bytes) (v : value) (s : bytes) (ty : N) (m : option migop),
        In (n, v) (i_props i) ->
        resolve_prop d cn n v = Ok (RProp canon s ty m) ->
        prop_value p canon pi (ep_order p (pi_aliases pi)) i = migv p (pi_migration pi) v) /\
       ((forall (n : bytes) (v : value) (s : bytes) (ty : N) (m : option migop),
         In (n, v) (i_props i) -> resolve_prop d cn n v <> Ok (RProp canon s ty m)) ->
        prop_value p canon pi (ep_order p (pi_aliases pi)) i = migv p (pi_migration pi) (pi_default pi) /\
        (exists ty0 : N,
           col_plan d (get_class d (string_of_bytes cn)) canon ty0 = Ok (pi_default pi, pi_type pi))).
Proof. exact written_columns_spec. Qed.

Theorem C08_known_props_roundtrip_partial :
  forall (d : db) (ep : enc_params) (cmp : compression) (dom : cdom) (ts : list tree) 
         (p : dec_params) (R : ser_state -> BinRoundTrip.column -> BinRoundTrip.col_read),
       enc_ready d ep dom ts ->
       BinRoundTrip.input_ok dom ts ->
       BinRoundTrip.names_ok dom ->
       dom_types_agree d dom ->
       (forall i : inst, In i dom -> class_good d (i_class i)) ->
       (forall i : inst, In i dom -> inst_ok d ep i = true) ->
       dp_lim p = None ->
       (forall e : encoded, encode_chunks d ep dom (List.map root ts) = Ok e -> BinRoundTrip.frame_ok p cmp e) ->
       (forall st : ser_state,
        add_instances d ep dom (List.map root ts) = Ok st ->
        BinRoundTrip.sstr_ok st /\
        BinRoundTrip.ser_names_ok st /\
        BinRoundTrip.name_cols_ok st /\
        (forall x : BinRoundTrip.column,
         In x (BinRoundTrip.cols (ss_types st)) ->
         fst (snd x) <> NAME -> BinRoundTrip.col_law d ep p dom st (BinRoundTrip.stI_of st) x (R st x))) ->
       exists (b : bytes) (st : ser_state) (out : cdom),
         encode_file d ep cmp dom (List.map root ts) = Ok b /\
         add_instances d ep dom (List.map root ts) = Ok st /\
         decode_file d p b = Ok out /\
         BinRoundTrip.same_forest dom ts (BinRoundTrip.lbl st) out /\
         (forall (c : bytes) (ti : type_info) (k : nat) (r : N),
          In (c, ti) (ss_types st) ->
          nth_error (ti_instances ti) k = Some r ->
          exists i' : inst,
            find_inst out (BinRoundTrip.lbl st r) = Some i' /\
            i_ref i' = BinRoundTrip.lbl st r /\
            i_class i' = class_of dom r /\
            i_name i' = i_name (BinRoundTrip.src dom r) /\
            BinRoundTrip.uid_norm p (collect_props (BinRoundTrip.read_props p (R st) (c, ti) k)) (i_props i')).
Proof. exact known_props_roundtrip_partial. Qed.

Theorem C08_each_alone_needs_types_agree_refuted :
  inst_ok BinFileFacts.db0 BinFileFacts.ep0 (foo_string 1) = true /\
       inst_ok BinFileFacts.db0 BinFileFacts.ep0 (foo_int 2) = true /\
       BinColumnsFacts.is_ok (encode_file BinFileFacts.db0 BinFileFacts.ep0 None [foo_string 1] [1]) = true /\
       BinColumnsFacts.is_ok (encode_file BinFileFacts.db0 BinFileFacts.ep0 None [foo_int 2] [2]) = true /\
       encode_file BinFileFacts.db0 BinFileFacts.ep0 None [foo_string 1; foo_int 2] [1; 2] =
       Err EE_TYPE_MISMATCH /\
       encode_file BinFileFacts.db0 BinFileFacts.ep0 None [foo_int 2; foo_string 1] [2; 1] =
       Err EE_TYPE_MISMATCH /\
       class_good BinFileFacts.db0 (bstr "Folder") /\
       ~ types_agree BinFileFacts.db0 (bstr "Folder") (flat_map i_props [foo_string 1; foo_int 2]).
Proof. exact each_alone_needs_types_agree_refuted. Qed.

Theorem C08_each_alone_needs_db_check_refuted :
  class_cols_ok db_baddef "K" = false /\
       inst_ok db_baddef BinFileFacts.ep0 (k_p 1) = true /\
       inst_ok db_baddef BinFileFacts.ep0 (k_q 2) = true /\
       BinColumnsFacts.is_ok (encode_file db_baddef BinFileFacts.ep0 None [k_p 1] [1]) = true /\
       BinColumnsFacts.is_ok (encode_file db_baddef BinFileFacts.ep0 None [k_q 2] [2]) = true /\
       encode_file db_baddef BinFileFacts.ep0 None [k_p 1; k_q 2] [1; 2] = Err EE_TYPE_MISMATCH /\
       agree_check db_baddef (bstr "K") (flat_map i_props [k_p 1; k_q 2]) = true.
Proof. exact each_alone_needs_db_check_refuted. Qed.

Theorem C08_set_serializes_although_instance_alone_does_not :
  inst_ok BinFileFacts.db0 BinFileFacts.ep0 (foo_attrs 2) = false /\
       encode_file BinFileFacts.db0 BinFileFacts.ep0 None [foo_attrs 2] [2] = Err EE_UNSUPPORTED /\
       BinColumnsFacts.is_ok
         (encode_file BinFileFacts.db0 BinFileFacts.ep0 None [foo_string 1; foo_attrs 2] [1; 2]) = true.
Proof. exact set_serializes_although_instance_alone_does_not. Qed.

