(* Property C08 — Binary class columns: mixed property sets serialize and keep their own values (statements only).
   Proofs: Proofs/BinColumnsFacts.v.  Model: BinFile.collect_type_info / prop_value. *)
From RbxVerif Require Import Base Bytes Value Db CodecDom BinValues BinFile BinFileFacts BinColumnsFacts.
Open Scope N_scope.

(* an instance that carries the canonical property keeps its own value *)
Theorem C08_own_value_kept : forall p canon pi order i v,
  bytes_eqb canon NAME = false -> pi_migration pi = None -> bfind canon (i_props i) = Some v ->
  prop_value p canon pi order i = v.
Proof. exact prop_value_own. Qed.

(* also when it carries it under an alias spelling *)
Theorem C08_alias_value_kept : forall p canon pi i a v,
  bytes_eqb canon NAME = false -> pi_migration pi = None -> bfind canon (i_props i) = None ->
  bfind a (i_props i) = Some v ->
  prop_value p canon pi [a] i = v.
Proof. exact prop_value_alias. Qed.

(* an instance that carries no spelling of a column's property gets the column default, never a neighbour's value *)
Theorem C08_missing_gets_default : forall p canon pi order i,
  bytes_eqb canon NAME = false -> pi_migration pi = None -> bfind canon (i_props i) = None ->
  (forall a, In a order -> bfind a (i_props i) = None) ->
  prop_value p canon pi order i = pi_default pi.
Proof. exact prop_value_default. Qed.

(* legacy BrickColor next to the alias Color3uint8 of the same logical property (the shape that failed before
   repair 73fe0ea9): each alone and both sibling orders serialize, each instance reads back its own colour *)
Theorem C08_sample_both_orders :
  is_ok (enc_part [legacy_part 1] [1]) = true /\
  is_ok (enc_part [alias_part 1] [1]) = true /\
  roundtrip_colours [legacy_part 1; alias_part 2] [1; 2]
    = [(bstr "L", Some (VColor3uint8 163 162 165)); (bstr "A", Some (VColor3uint8 1 2 3))] /\
  roundtrip_colours [alias_part 1; legacy_part 2] [1; 2]
    = [(bstr "A", Some (VColor3uint8 1 2 3)); (bstr "L", Some (VColor3uint8 163 162 165))].
Proof. exact c08_sample_both_orders. Qed.

(* ==== totality and order independence of the column planning (Proofs/BinTypeInfoFacts.v), for every database: the unwrap in
   collect_type_info is unreachable; planning a property list succeeds iff every visited pair is plannable, so (under the
   type-consistency hypothesis: all spellings of one logical property agree on the serialized type; for names unknown to the
   database: one value type per name) success is invariant under permutation of siblings and of each instance's property list,
   and holds for the set as soon as it holds for each instance alone (this half needs no hypothesis).  The hypothesis is
   necessary: C08_sibling_order_dependence_* (recorded finding mixed-types-order-dependent). *)
From Coq Require Import Permutation.
From RbxVerif Require Import DbCheck Database BinTypeInfoFacts.
Open Scope N_scope.

Theorem C08_cti_prop_unwrap_unreachable :
  forall (d : db) (class : bytes) (acc : list bytes * type_info) (pv : bytes * value),
       cti_prop d class acc pv = Panic ->
       resolve_prop d class (fst pv) (snd pv) = Panic \/
       (exists (c s : bytes) (ty : N) (m : option migop),
          resolve_prop d class (fst pv) (snd pv) = Ok (RProp c s ty m) /\
          col_plan d (ti_class (snd acc)) c ty = Panic).
Proof. exact cti_prop_unwrap_unreachable. Qed.

Theorem C08_cti_prop_ok_or_unsupported :
  forall (d : db) (class : bytes) (acc : list bytes * type_info) (pv : bytes * value),
       db_lookup_safe d = true ->
       (forall k : cdesc, ti_class (snd acc) = Some k -> In k (db_classes d)) ->
       (exists acc' : list bytes * type_info, cti_prop d class acc pv = Ok acc') \/
       cti_prop d class acc pv = Err EE_UNSUPPORTED.
Proof. exact cti_prop_ok_or_unsupported. Qed.

Theorem C08_fold_cti_ok_iff :
  forall (d : db) (class : bytes) (l : list (bytes * value)) (ss : list bytes) (ti : type_info),
       types_agree d class l ->
       (exists acc' : list bytes * type_info, fold_res (cti_prop d class) (ss, ti) l = Ok acc') <->
       Forall
         (fun pv : bytes * value =>
          bmem (fst pv) (ti_visited ti) = true \/ pair_plannable d class (ti_class ti) (ti_props ti) pv) l.
Proof. exact fold_cti_ok_iff. Qed.

Theorem C08_collect_types_perm_success :
  forall (d : db) (class : bytes) (st : ser_state) (insts insts' : list inst),
       Forall (fun j : inst => i_class j = class) insts ->
       insts_perm insts insts' ->
       types_agree d class (flat_map i_props insts) ->
       (exists st' : ser_state, fold_res (collect_type_info d) st insts = Ok st') ->
       exists st' : ser_state, fold_res (collect_type_info d) st insts' = Ok st'.
Proof. exact collect_types_perm_success. Qed.

Theorem C08_collect_types_each_alone :
  forall (d : db) (class : bytes) (insts : list inst),
       Forall (fun j : inst => i_class j = class) insts ->
       types_agree d class (flat_map i_props insts) ->
       (forall i : inst, In i insts -> exists st' : ser_state, collect_type_info d ser_state0 i = Ok st') ->
       exists st' : ser_state, fold_res (collect_type_info d) ser_state0 insts = Ok st'.
Proof. exact collect_types_each_alone. Qed.

Theorem C08_collect_types_each_alone_noH :
  forall (d : db) (class : bytes) (insts : list inst),
       Forall (fun j : inst => i_class j = class) insts ->
       (forall i : inst, In i insts -> exists st' : ser_state, collect_type_info d ser_state0 i = Ok st') ->
       exists st' : ser_state, fold_res (collect_type_info d) ser_state0 insts = Ok st'.
Proof. exact collect_types_each_alone_noH. Qed.

Theorem C08_collect_types_perm_plan_spelled :
  forall (d : db) (class : bytes) (st : ser_state) (insts insts' : list inst) (st1 st2 : ser_state),
       insts <> [] ->
       Forall (fun j : inst => i_class j = class) insts ->
       insts_perm insts insts' ->
       spellings_agree d class (flat_map i_props insts) ->
       migrations_agree d class (flat_map i_props insts) ->
       st_nodup (class_state d class st) ->
       fold_res (collect_type_info d) st insts = Ok st1 ->
       fold_res (collect_type_info d) st insts' = Ok st2 ->
       exists ti1 ti2 : type_info,
         bfind class (ss_types st1) = Some ti1 /\
         bfind class (ss_types st2) = Some ti2 /\
         ti_id ti1 = ti_id ti2 /\
         ti_service ti1 = ti_service ti2 /\
         ti_class ti1 = ti_class ti2 /\
         ti_instances ti1 = ti_instances (class_ti d class st) ++ List.map i_ref insts /\
         ti_instances ti2 = ti_instances (class_ti d class st) ++ List.map i_ref insts' /\
         List.map fst (ti_props ti1) = List.map fst (ti_props ti2) /\
         Forall2 (fun x y : bytes * prop_info => fst x = fst y /\ pi_equiv_perm (snd x) (snd y))
           (ti_props ti1) (ti_props ti2) /\
         Permutation.Permutation (ss_sstr st1) (ss_sstr st2) /\
         (forall k : bytes, k <> class -> bfind k (ss_types st1) = bfind k (ss_types st2)) /\
         List.map fst (ss_types st1) = List.map fst (ss_types st2) /\
         ss_next_id st1 = ss_next_id st2 /\ ss_relevant st1 = ss_relevant st2.
Proof. exact collect_types_perm_plan_spelled. Qed.

Theorem C08_column_values_perm :
  forall (p : enc_params) (canon : bytes) (pi pi' : prop_info) (ord ord' : list bytes)
         (insts insts' : list inst),
       Forall2 inst_perm insts insts' ->
       Forall (fun i : inst => NoDup (List.map fst (i_props i))) insts ->
       pi_equiv_perm pi pi' ->
       Permutation.Permutation ord (pi_aliases pi) ->
       Permutation.Permutation ord' (pi_aliases pi') ->
       Forall (one_spelling canon (pi_aliases pi)) insts ->
       List.map (prop_value p canon pi ord) insts = List.map (prop_value p canon pi' ord') insts'.
Proof. exact column_values_perm. Qed.

Theorem C08_agree_from_db :
  forall (d : db) (class : bytes) (l : list (bytes * value)),
       class_spellings_ok d (string_of_bytes class) = true ->
       (forall (n : bytes) (v1 v2 : value),
        In (n, v1) l ->
        In (n, v2) l ->
        known_resolve d (string_of_bytes class) (string_of_bytes n) = Ok None -> vtype v1 = vtype v2) ->
       spellings_agree d class l /\ migrations_agree d class l.
Proof. exact agree_from_db. Qed.

Theorem C08_bundled_spellings_ok :
  forallb (fun c : cdesc => class_spellings_ok database (cd_name c)) (db_classes database) = true.
Proof. exact bundled_spellings_ok. Qed.

Theorem C08_bundled_agree :
  forall (class : bytes) (l : list (bytes * value)),
       (forall (n : bytes) (v1 v2 : value),
        In (n, v1) l ->
        In (n, v2) l ->
        known_resolve database (string_of_bytes class) (string_of_bytes n) = Ok None -> vtype v1 = vtype v2) ->
       spellings_agree database class l /\ migrations_agree database class l.
Proof. exact bundled_agree. Qed.

Theorem C08_perm_success_needs_H :
  is_ok (fold_res (collect_type_info db0) ser_state0 [foo_string 1; foo_attrs 2]) = true /\
       is_ok (fold_res (collect_type_info db0) ser_state0 [foo_attrs 2; foo_string 1]) = false /\
       insts_perm [foo_string 1; foo_attrs 2] [foo_attrs 2; foo_string 1] /\
       ~ types_agree db0 (bstr "Folder") (flat_map i_props [foo_string 1; foo_attrs 2]).
Proof. exact perm_success_needs_H. Qed.

Theorem C08_sibling_order_dependence_mixed_types :
  is_ok (fold_res (collect_type_info db0) ser_state0 [foo_string 1; foo_attrs 2]) = true /\
       is_ok (fold_res (collect_type_info db0) ser_state0 [foo_attrs 2; foo_string 1]) = false /\
       is_ok (encode_file db0 ep0 None [foo_string 1; foo_attrs 2] [1; 2]) = true /\
       encode_file db0 ep0 None [foo_attrs 2; foo_string 1] [2; 1] = Err EE_UNSUPPORTED /\
       encode_file db0 ep0 None [foo_attrs 2] [2] = Err EE_UNSUPPORTED.
Proof. exact sibling_order_dependence_mixed_types. Qed.

Theorem C08_sibling_order_dependence_bundled :
  is_ok (encode_file database ep0 None [foo_string 1; foo_attrs 2] [1; 2]) = true /\
       encode_file database ep0 None [foo_attrs 2; foo_string 1] [2; 1] = Err EE_UNSUPPORTED.
Proof. exact sibling_order_dependence_bundled. Qed.

Theorem C08_three_parts_together :
  exists st' : ser_state, fold_res (collect_type_info db_part) ser_state0 three_parts' = Ok st'.
Proof. exact three_parts_together. Qed.

