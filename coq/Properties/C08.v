(* Property C08 — Binary class columns: mixed property sets serialize and keep their own values (statements only).
   Proofs: Proofs/BinColumnsFacts.v.  Model: BinFile.collect_type_info / prop_value. *)
From RbxVerif Require Import Base Bytes Value Db CodecDom BinValues BinFile BinFileFacts BinColumnsFacts.
Open Scope N_scope.

(* an instance that carries the canonical property keeps its own value *)
Theorem C08_own_value_kept : forall p canon pi order i v,
  bytes_eqb canon NAME = false -> pi_migration pi = None -> bfind canon (i_props i) = Some v ->
  prop_value p canon pi order i = v.
Proof. exact prop_value_own. Qed.

(* also when it carries it under an alias spelling *)
Theorem C08_alias_value_kept : forall p canon pi i a v,
  bytes_eqb canon NAME = false -> pi_migration pi = None -> bfind canon (i_props i) = None ->
  bfind a (i_props i) = Some v ->
  prop_value p canon pi [a] i = v.
Proof. exact prop_value_alias. Qed.

(* an instance that carries no spelling of a column's property gets the column default, never a neighbour's value *)
Theorem C08_missing_gets_default : forall p canon pi order i,
  bytes_eqb canon NAME = false -> pi_migration pi = None -> bfind canon (i_props i) = None ->
  (forall a, In a order -> bfind a (i_props i) = None) ->
  prop_value p canon pi order i = pi_default pi.
Proof. exact prop_value_default. Qed.

(* legacy BrickColor next to the alias Color3uint8 of the same logical property (the shape that failed before
   repair 73fe0ea9): each alone and both sibling orders serialize, each instance reads back its own colour *)
Theorem C08_sample_both_orders :
  is_ok (enc_part [legacy_part 1] [1]) = true /\
  is_ok (enc_part [alias_part 1] [1]) = true /\
  roundtrip_colours [legacy_part 1; alias_part 2] [1; 2]
    = [(bstr "L", Some (VColor3uint8 163 162 165)); (bstr "A", Some (VColor3uint8 1 2 3))] /\
  roundtrip_colours [alias_part 1; legacy_part 2] [1; 2]
    = [(bstr "A", Some (VColor3uint8 1 2 3)); (bstr "L", Some (VColor3uint8 163 162 165))].
Proof. exact c08_sample_both_orders. Qed.
