(* Property C13 — decoders never panic or hang; truncation and I/O faults surface as errors.

   This file currently holds the fault model shared by the proof side and the implementation-side
   exercise (harness `fault`, DESIGN.md section C13 "what the proof cannot carry"):
     - truncation at offset k is [firstn k b]; it is a strict prefix exactly when k < length b, so the
       every-offset sweep of the harness enumerates exactly the strict prefixes of a valid file;
     - a reader that delivers the input in pieces of arbitrary sizes (short reads; an Interrupted
       error delivers nothing and is retried) hands over a partition of the input whose
       concatenation is the input, so any decoder that is a function of the bytes read is independent
       of the delivery; the harness checks that the real decoders behave that way;
     - a sink that fails after k bytes has accepted exactly [firstn k out].
   The theorems over the binary and attribute decoder models (decode_total, decode_no_panic,
   alloc_linear, truncation_rejected) are added to this file by the binary/attribute layers. *)
From Coq Require Import List Arith Lia.
Import ListNotations.
From RbxVerif Require Import Base.
Local Open Scope nat_scope.

Definition truncate {A} (k : nat) (b : list A) : list A := firstn k b.

Definition strict_prefix {A} (p b : list A) : Prop := exists s, s <> [] /\ b = p ++ s.

(* sizes of the successive read() results; the last piece is whatever remains *)
Fixpoint deliver {A} (sizes : list nat) (b : list A) : list (list A) :=
  match sizes with
  | [] => [b]
  | n :: rest => firstn n b :: deliver rest (skipn n b)
  end.

(* a sink with room for k bytes: what it holds after being offered [out], and whether it failed *)
Definition sink_accepts {A} (k : nat) (out : list A) : list A := firstn k out.
Definition sink_fails {A} (k : nat) (out : list A) : bool := Nat.ltb k (length out).

Theorem C13_truncation_strict_prefix_iff : forall A (k : nat) (b : list A),
  k < length b <-> strict_prefix (truncate k b) b.
Proof.
  intros A k b. unfold strict_prefix, truncate. split.
  - intro H. exists (skipn k b). split.
    + intro E. assert (L : length (skipn k b) = 0) by (rewrite E; reflexivity).
      rewrite skipn_length in L. lia.
    + symmetry. apply firstn_skipn.
  - intros [s [Hs E]].
    destruct (Nat.lt_ge_cases k (length b)) as [H | H]; [exact H | exfalso].
    rewrite (firstn_all2 b H) in E.
    assert (L : length b = length (b ++ s)) by (rewrite <- E; reflexivity).
    rewrite app_length in L. destruct s; [apply Hs; reflexivity | simpl in L; lia].
Qed.

Theorem C13_truncation_length : forall A (k : nat) (b : list A),
  k < length b -> length (truncate k b) = k.
Proof. intros A k b H. unfold truncate. rewrite firstn_length. lia. Qed.

Theorem C13_delivery_reassembles : forall A (sizes : list nat) (b : list A),
  concat (deliver sizes b) = b.
Proof.
  intros A sizes. induction sizes as [| n rest IH]; intro b; simpl.
  - apply app_nil_r.
  - rewrite IH. apply firstn_skipn.
Qed.

Theorem C13_sink_fails_iff_output_lost : forall A (k : nat) (out : list A),
  sink_fails k out = true <-> sink_accepts k out <> out.
Proof.
  intros A k out. unfold sink_fails, sink_accepts. rewrite Nat.ltb_lt. split.
  - intros H E. assert (L : length (firstn k out) = length out) by (rewrite E; reflexivity).
    rewrite firstn_length in L. lia.
  - intro H. destruct (Nat.lt_ge_cases k (length out)) as [L | L]; [exact L | exfalso].
    apply H. apply firstn_all2. exact L.
Qed.
