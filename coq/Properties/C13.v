(* Property C13 — decoders never panic or hang; truncation and I/O faults surface as errors.

   This file currently holds the fault model shared by the proof side and the implementation-side
   exercise (harness `fault`, DESIGN.md section C13 "what the proof cannot carry"):
     - truncation at offset k is [firstn k b]; it is a strict prefix exactly when k < length b, so the
       every-offset sweep of the harness enumerates exactly the strict prefixes of a valid file;
     - a reader that delivers the input in pieces of arbitrary sizes (short reads; an Interrupted
       error delivers nothing and is retried) hands over a partition of the input whose
       concatenation is the input, so any decoder that is a function of the bytes read is independent
       of the delivery; the harness checks that the real decoders behave that way;
     - a sink that fails after k bytes has accepted exactly [firstn k out].
   The theorems over the binary and attribute decoder models (decode_total, decode_no_panic,
   alloc_linear, truncation_rejected) are added to this file by the binary/attribute layers. *)
From Coq Require Import List Arith Lia.
Import ListNotations.
From RbxVerif Require Import Base.
Local Open Scope nat_scope.

Definition truncate {A} (k : nat) (b : list A) : list A := firstn k b.

Definition strict_prefix {A} (p b : list A) : Prop := exists s, s <> [] /\ b = p ++ s.

(* sizes of the successive read() results; the last piece is whatever remains *)
Fixpoint deliver {A} (sizes : list nat) (b : list A) : list (list A) :=
  match sizes with
  | [] => [b]
  | n :: rest => firstn n b :: deliver rest (skipn n b)
  end.

(* a sink with room for k bytes: what it holds after being offered [out], and whether it failed *)
Definition sink_accepts {A} (k : nat) (out : list A) : list A := firstn k out.
Definition sink_fails {A} (k : nat) (out : list A) : bool := Nat.ltb k (length out).

Theorem C13_truncation_strict_prefix_iff : forall A (k : nat) (b : list A),
  k < length b <-> strict_prefix (truncate k b) b.
Proof.
  intros A k b. unfold strict_prefix, truncate. split.
  - intro H. exists (skipn k b). split.
    + intro E. assert (L : length (skipn k b) = 0) by (rewrite E; reflexivity).
      rewrite skipn_length in L. lia.
    + symmetry. apply firstn_skipn.
  - intros [s [Hs E]].
    destruct (Nat.lt_ge_cases k (length b)) as [H | H]; [exact H | exfalso].
    rewrite (firstn_all2 b H) in E.
    assert (L : length b = length (b ++ s)) by (rewrite <- E; reflexivity).
    rewrite app_length in L. destruct s; [apply Hs; reflexivity | simpl in L; lia].
Qed.

Theorem C13_truncation_length : forall A (k : nat) (b : list A),
  k < length b -> length (truncate k b) = k.
Proof. intros A k b H. unfold truncate. rewrite firstn_length. lia. Qed.

Theorem C13_delivery_reassembles : forall A (sizes : list nat) (b : list A),
  concat (deliver sizes b) = b.
Proof.
  intros A sizes. induction sizes as [| n rest IH]; intro b; simpl.
  - apply app_nil_r.
  - rewrite IH. apply firstn_skipn.
Qed.

Theorem C13_sink_fails_iff_output_lost : forall A (k : nat) (out : list A),
  sink_fails k out = true <-> sink_accepts k out <> out.
Proof.
  intros A k out. unfold sink_fails, sink_accepts. rewrite Nat.ltb_lt. split.
  - intros H E. assert (L : length (firstn k out) = length out) by (rewrite E; reflexivity).
    rewrite firstn_length in L. lia.
  - intro H. destruct (Nat.lt_ge_cases k (length out)) as [L | L]; [exact L | exfalso].
    apply H. apply firstn_all2. exact L.
Qed.


(* ------------------------------------------------------------------------------------------------ *)
(* binary decoder model (Model/BinFile.v decode_file, tied to rbx_binary::from_reader by the `binbytes`  *)
(* outcome-class correspondence); proofs in Proofs/BinFileFacts.v                                       *)
(* ------------------------------------------------------------------------------------------------ *)
From RbxVerif Require Import Bytes Value Db CodecDom BinValues BinFile BinFileFacts.

(* every strict prefix of the sample file (written by the model encoder, byte-identical to the implementation's)
   is rejected with an error: never Ok, never a panic *)
Theorem C13_bin_sample_truncation_rejected :
  forallb (fun k => is_err (decode_file db0 (dp0 None) (truncate k sample_file))) (seq 0 (length sample_file)) = true.
Proof. exact sample_truncation_rejected. Qed.

(* the chunk decoder before repair 949437a7 panicked on a chunk cut inside its payload; now it is an error *)
Theorem C13_bin_chunk_short_panic_pinned_refuted :
  decode_chunk_pinned (dp0 None) (firstn 20 (skipn 32 sample_file)) = Panic.
Proof. exact chunk_short_panic_pinned_refuted. Qed.

Theorem C13_bin_chunk_short_is_error :
  decode_chunk (dp0 None) (firstn 20 (skipn 32 sample_file)) = Err E_EOF.
Proof. exact chunk_short_repaired. Qed.

(* a PRNT chunk naming a parent no INST chunk declared is an error (repair bddd053a), not a panic *)
Theorem C13_bin_prnt_unknown_parent_is_error :
  decode_file db0 (dp0 None) orphan_file = Err E_UNKNOWN_REFERENT.
Proof. exact prnt_unknown_parent_is_error. Qed.

(* REFUTED clause "never request memory unrelated to the input size": a 57-byte file whose header announces
   2^32-1 instances decodes Ok when allocations are unlimited, and requests more than a million bytes per input
   byte before any chunk is read (DeserializerState::new sizes its tables by the header counts) *)
Theorem C13_bin_header_alloc_refuted :
  decode_file db0 (dp0 None) greedy_header_file = Ok [] /\
  decode_file db0 (dp0 (Some (1000000 * N.of_nat (length greedy_header_file))%N)) greedy_header_file = Err E_ALLOC.
Proof. exact header_alloc_refuted. Qed.

(* whereas the sample file is decoded within 16 bytes of requests per input byte *)
Theorem C13_bin_sample_alloc_bounded :
  decode_file db0 (dp0 (Some (16 * N.of_nat (length sample_file))%N)) sample_file = decode_file db0 (dp0 None) sample_file.
Proof. exact sample_alloc_bounded. Qed.

(* ---- the main statements for the binary reader (after repairs 949437a7 a50f6357 bddd053a): on EVERY byte string,
   for every allocation limit and whatever lz4/zstd return, rbx_binary::from_reader as modelled returns a DOM or
   an error: it never panics, and the fuel the model hands to its loops (the length of the remaining input, the
   number of queued instances) always suffices, i.e. it never hangs.  First for any database whose descriptor
   lookups succeed, then for any database passing the C16 coherence check, then for the bundled database. *)
From RbxVerif Require Import BinSafe BinSafeDb DbCheck.
From RbxVerif Require Database.

Theorem C13_bin_column_decoder_total : forall ty cty c n b,
  match dec_col ty cty c n b with
  | Ok (_, b') => (length b' <= length b)%nat
  | Err _ => True
  | Panic => False
  | OutOfFuel => False
  end.
Proof. exact good_dec_col. Qed.

Theorem C13_bin_decode_total : forall d p b, db_total d ->
  decode_file d p b <> Panic /\ decode_file d p b <> OutOfFuel.
Proof. exact decode_file_total. Qed.

Theorem C13_bin_decode_total_coherent : forall d p b, db_coherent d = true ->
  decode_file d p b <> Panic /\ decode_file d p b <> OutOfFuel.
Proof. exact decode_file_total_coherent. Qed.

Theorem C13_bin_decode_total_bundled : forall p b,
  decode_file Database.database p b <> Panic /\ decode_file Database.database p b <> OutOfFuel.
Proof. exact decode_file_total_bundled. Qed.

(* ==== truncation of the binary format is always detected (Proofs/BinFraming.v): every strict prefix of a well-framed file
   (valid header, chunk names of length 4 other than END, payloads below 2^32, END stored uncompressed and last) is rejected,
   for every database, allocation limit and inflate oracle; lifted to every file the serializer model writes.  The two
   hypotheses are needed: witnesses early_end_prefix_accepted and compressed_end_prefix_accepted. *)
From RbxVerif Require Import BinFraming.
Local Open Scope N_scope.

Theorem C13_bin_truncation_not_ok :
  forall (d : db) (p : dec_params) (cmp : compression) (nt ni : N) (cs : list (bytes * bytes)),
       nt < 2 ^ 32 ->
       ni < 2 ^ 32 ->
       Forall (chunk_ok cmp) cs ->
       Forall (fun c : bytes * bytes => fst c <> CH_END) cs ->
       let f := file_header nt ni ++ flat_map (frame_chunk cmp) cs ++ END_CHUNK in
       forall k : nat,
       (k < Datatypes.length f)%nat -> forall dom : cdom, decode_file d p (firstn k f) <> Ok dom.
Proof. exact truncation_not_ok. Qed.

Theorem C13_bin_truncation_rejected :
  forall (d : db) (p : dec_params) (cmp : compression) (nt ni : N) (cs : list (bytes * bytes)),
       db_total d ->
       nt < 2 ^ 32 ->
       ni < 2 ^ 32 ->
       Forall (chunk_ok cmp) cs ->
       Forall (fun c : bytes * bytes => fst c <> CH_END) cs ->
       let f := file_header nt ni ++ flat_map (frame_chunk cmp) cs ++ END_CHUNK in
       forall k : nat, (k < Datatypes.length f)%nat -> exists e : N, decode_file d p (firstn k f) = Err e.
Proof. exact truncation_rejected. Qed.

Theorem C13_bin_encode_file_truncation_not_ok :
  forall (d : db) (ep : enc_params) (p : dec_params) (dom : cdom) (roots : list N) (f : bytes),
       encode_file d ep None dom roots = Ok f ->
       N.of_nat (Datatypes.length f) < 2 ^ 32 ->
       forall k : nat, (k < Datatypes.length f)%nat -> forall r : cdom, decode_file d p (firstn k f) <> Ok r.
Proof. exact encode_file_truncation_not_ok. Qed.

Theorem C13_bin_encode_file_truncation_rejected :
  forall (d : db) (ep : enc_params) (p : dec_params) (dom : cdom) (roots : list N) (f : bytes),
       db_total d ->
       encode_file d ep None dom roots = Ok f ->
       N.of_nat (Datatypes.length f) < 2 ^ 32 ->
       forall k : nat, (k < Datatypes.length f)%nat -> exists e : N, decode_file d p (firstn k f) = Err e.
Proof. exact encode_file_truncation_rejected. Qed.

Theorem C13_bin_encode_file_truncation_rejected_compressed :
  forall (d : db) (ep : enc_params) (c : bytes -> bytes) (p : dec_params) (dom : cdom) 
         (roots : list N) (f : bytes),
       db_total d ->
       encode_file d ep (Some c) dom roots = Ok f ->
       (forall e : encoded,
        encode_chunks d ep dom roots = Ok e ->
        Forall
          (fun ch : bytes * list N =>
           N.of_nat (Datatypes.length (snd ch)) < 2 ^ 32 /\
           N.of_nat (Datatypes.length (c (snd ch))) < 2 ^ 32 /\ c (snd ch) <> []) 
          (en_chunks e)) ->
       forall k : nat, (k < Datatypes.length f)%nat -> exists e : N, decode_file d p (firstn k f) = Err e.
Proof. exact encode_file_truncation_rejected_compressed. Qed.

Theorem C13_bin_trailing_bytes_ignored :
  forall (d : db) (p : dec_params) (cmp : compression) (nt ni : N) (cs : list (bytes * bytes))
         (extra : list N),
       dp_lim p = None ->
       nt < 2 ^ 32 ->
       ni < 2 ^ 32 ->
       Forall (chunk_rt p cmp) cs ->
       decode_file d p (file_header nt ni ++ flat_map (frame_chunk cmp) cs ++ END_CHUNK ++ extra) =
       decode_file d p (file_header nt ni ++ flat_map (frame_chunk cmp) cs ++ END_CHUNK).
Proof. exact trailing_bytes_ignored. Qed.

Theorem C13_bin_short_compressed_chunk_accepted :
  exists name data : bytes,
         decode_chunk dp_liar (firstn 30 (skipn 32 sample_file_c)) = Ok (name, data, []).
Proof. exact short_compressed_chunk_accepted. Qed.

Theorem C13_bin_short_compressed_file_rejected :
  decode_file db0 dp_liar (firstn 62 sample_file_c) = Err E_EOF.
Proof. exact short_compressed_file_rejected. Qed.

Theorem C13_bin_early_end_prefix_accepted :
  (48 < Datatypes.length early_end_file)%nat /\
       decode_file db0 (dp0 None) (firstn 48 early_end_file) = Ok [].
Proof. exact early_end_prefix_accepted. Qed.

Theorem C13_bin_compressed_end_prefix_accepted :
  (52 < Datatypes.length compressed_end_file)%nat /\
       decode_file db0 dp_liar (firstn 52 compressed_end_file) = Ok [].
Proof. exact compressed_end_prefix_accepted. Qed.

Theorem C13_bin_sample_truncation_by_theorem :
  forall (p : dec_params) (k : nat),
       (k < Datatypes.length sample_file)%nat ->
       exists e : N, decode_file db0 p (firstn k sample_file) = Err e.
Proof. exact sample_truncation_by_theorem. Qed.

(* ==== the XML decoder (Proofs/XmlSafe.v), for EVERY event list: the value readers never panic and never run out of fuel; on a
   database whose lookups succeed (every coherent one, the bundled one) xml_decode never runs out of the fuel its entry points pass
   and panics exactly on a list that does not begin with StartDocument (the `unreachable!()` the parser can never trigger);
   truncation: for every accepted event list, every cut inside the part the decoder consumed (i.e. before `</roblox>` was read)
   followed by the parser's end-of-input error is an Err, cuts after it lose nothing (same DOM), and the serializer never runs
   out of fuel on a well-formed DOM and panics only through Content::Object or a missing root.  The database hypothesis is
   necessary (dangling superclass: Panic; cyclic chain: OutOfFuel). *)
From RbxVerif Require Import XmlEvents XmlValues XmlFile BinPostorder XmlSafe.
Open Scope N_scope.

Theorem C13_xml_value_reader_total :
  forall (o : xoracle) (ty : bytes) (evs : list revent),
       match read_value_xml o ty evs with
       | Ok (_, rest) => (Datatypes.length rest < Datatypes.length evs)%nat
       | Err _ => True
       | _ => False
       end.
Proof. exact xml_value_reader_total. Qed.

Theorem C13_xml_value_reader_no_panic :
  forall (o : xoracle) (ty : bytes) (evs : list revent),
       read_value_xml o ty evs <> Panic /\ read_value_xml o ty evs <> OutOfFuel.
Proof. exact xml_value_reader_no_panic. Qed.

Theorem C13_xml_decode_total :
  forall (e : xenv) (beh : dbehavior) (evs : list revent),
       xdb_total (xe_db e) ->
       xml_decode e beh evs <> OutOfFuel /\ (xml_decode e beh evs = Panic <-> starts_wrong evs).
Proof. exact xml_decode_total. Qed.

Theorem C13_xml_decode_no_panic :
  forall (e : xenv) (beh : dbehavior) (r : list revent),
       xdb_total (xe_db e) ->
       xml_decode e beh (RStartDoc :: r) <> Panic /\ xml_decode e beh (RStartDoc :: r) <> OutOfFuel.
Proof. exact xml_decode_no_panic. Qed.

Theorem C13_xml_decode_total_coherent :
  forall (e : xenv) (beh : dbehavior) (evs : list revent),
       db_coherent (xe_db e) = true ->
       xml_decode e beh evs <> OutOfFuel /\ (xml_decode e beh evs = Panic <-> starts_wrong evs).
Proof. exact xml_decode_total_coherent. Qed.

Theorem C13_xml_decode_total_bundled :
  forall (e : xenv) (beh : dbehavior) (evs : list revent),
       xe_db e = Database.database ->
       xml_decode e beh evs <> OutOfFuel /\ (xml_decode e beh evs = Panic <-> starts_wrong evs).
Proof. exact xml_decode_total_bundled. Qed.

Theorem C13_xml_decode_channel_no_panic :
  forall (e : xenv) (beh : dbehavior) (w : list wevent) (evs : list revent),
       xdb_total (xe_db e) ->
       channel w = Ok evs -> xml_decode e beh evs <> Panic /\ xml_decode e beh evs <> OutOfFuel.
Proof. exact xml_decode_channel_no_panic. Qed.

Theorem C13_xml_truncation_rejected :
  forall (e : xenv) (beh : dbehavior) (evs : list revent) (d : cdom),
       xdb_total (xe_db e) ->
       xml_decode e beh evs = Ok d ->
       exists (c rest : list revent) (st : dstate),
         evs = c ++ rest /\
         deserialize_root e beh evs = Ok (st, rest) /\
         closed_or_enddoc evs rest /\
         (forall k : nat,
          (k < Datatypes.length c)%nat ->
          exists code : N, xml_decode e beh (firstn k evs ++ [RError]) = Err code) /\
         (forall k : nat,
          (Datatypes.length c < k < Datatypes.length evs)%nat ->
          xml_decode e beh (firstn k evs ++ [RError]) = Ok d) /\
         (rest <> [] ->
          xml_decode e beh (c ++ [RError]) = Ok d /\
          (forall t : list revent, t <> [] -> xml_decode e beh (c ++ t) = Ok d) \/
          (exists code : N, xml_decode e beh (c ++ [RError]) = Err code) /\
          (exists r : list revent, rest = REndDoc :: r)).
Proof. exact xml_truncation_rejected. Qed.

Theorem C13_xml_truncation_not_ok :
  forall (e : xenv) (beh : dbehavior) (evs : list revent) (d : cdom) (k : nat),
       xdb_total (xe_db e) ->
       xml_decode e beh evs = Ok d ->
       (k < Datatypes.length evs)%nat ->
       forall d' : cdom,
       xml_decode e beh (firstn k evs ++ [RError]) = Ok d' ->
       d' = d /\
       (exists c rest : list revent,
          evs = c ++ rest /\ (Datatypes.length c <= k)%nat /\ closed_or_enddoc evs rest).
Proof. exact xml_truncation_not_ok. Qed.

Theorem C13_xml_truncation_err_or_same :
  forall (e : xenv) (beh : dbehavior) (evs : list revent) (d : cdom) (k : nat),
       xdb_total (xe_db e) ->
       xml_decode e beh evs = Ok d ->
       (k < Datatypes.length evs)%nat ->
       (exists code : N, xml_decode e beh (firstn k evs ++ [RError]) = Err code) \/
       xml_decode e beh (firstn k evs ++ [RError]) = Ok d.
Proof. exact xml_truncation_err_or_same. Qed.

Theorem C13_xml_encode_total :
  forall (e : xenv) (beh : ebehavior) (d : cdom) (ts : list tree),
       xdb_total (xe_db e) ->
       Forall (agrees (children_of d)) ts ->
       xml_encode e beh d (List.map root ts) <> OutOfFuel /\
       (xml_encode e beh d (List.map root ts) = Panic ->
        (exists t : tree, In t ts /\ find_inst d (root t) = None) \/
        (exists (i : inst) (k : bytes) (r : N), In i d /\ In (k, VContent (CObject r)) (i_props i))).
Proof. exact xml_encode_total. Qed.

Theorem C13_xml_decode_dangling_db_refuted :
  xml_decode (env_of db_dangling) DIgnoreUnknown doc_one_prop = Panic.
Proof. exact xml_decode_dangling_db_refuted. Qed.

Theorem C13_xml_decode_cyclic_db_refuted :
  xml_decode (env_of db_cyclic) DIgnoreUnknown doc_one_prop = OutOfFuel.
Proof. exact xml_decode_cyclic_db_refuted. Qed.

Theorem C13_xml_decode_unreachable_refuted :
  forall (e : xenv) (beh : dbehavior),
       xml_decode e beh [RStart (B "roblox") [(B "version", B "4")]; REnd (B "roblox")] = Panic.
Proof. exact xml_decode_unreachable_refuted. Qed.

Theorem C13_xml_encode_cycle_out_of_fuel_refuted :
  xml_encode env0 EWriteUnknown
         [{| i_ref := 1; i_parent := 1; i_class := B "Folder"; i_name := B "F"; i_props := [] |}] [1] =
       OutOfFuel.
Proof. exact xml_encode_cycle_out_of_fuel_refuted. Qed.

Theorem C13_sample_truncation :
  match sample_events with
       | Ok evs =>
           match xml_decode env_hash DReadUnknown evs with
           | Ok d =>
               (Datatypes.length evs =? 39)%nat &&
               forallb
                 (fun k : nat => res_is_err (xml_decode env_hash DReadUnknown (firstn k evs ++ [RError])))
                 (seq 0 (Datatypes.length evs - 1)) &&
               match
                 xml_decode env_hash DReadUnknown (firstn (Datatypes.length evs - 1) evs ++ [RError])
               with
               | Ok d' => (Datatypes.length d' =? 2)%nat && (Datatypes.length d =? 2)%nat
               | _ => false
               end
           | _ => false
           end
       | _ => false
       end = true.
Proof. exact sample_truncation. Qed.

