(* Property C09 — a WeakDom stays a well-formed forest under every history.
   This file holds theorem statements only; every proof is `exact` of a lemma in Proofs/. *)
From RbxVerif Require Import Base Dom Tree BaseFacts DomFacts.

Theorem C09_removed_is_gone : forall d r d' i,
  inner_remove d r = Some (d', i) -> lookup r (d_insts d') = None /\ lookup r (d_insts d) = Some i.
Proof. exact inner_remove_gone. Qed.
Check C09_removed_is_gone : forall d r d' i,
  inner_remove d r = Some (d', i) -> lookup r (d_insts d') = None /\ lookup r (d_insts d) = Some i.

Theorem C09_move_guard : forall d r dest d',
  dom_transfer_within d r dest = Ok d' ->
  r <> d_root d /\ anc_loop (S (dom_size d)) d dest r = Ok false.
Proof. exact transfer_within_guard. Qed.
