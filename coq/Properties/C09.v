(* Property C09 — a WeakDom stays a well-formed forest under every history.
   This file holds theorem statements only; every proof is `exact` of a lemma in Proofs/.

   Structure of the argument: `Rep d a` says the concrete instance table of dom.rs's model equals,
   pointwise, the flattening of a duplicate-free rose forest `a`.  (1) `Rep` implies every clause of
   the property (C09_rep_wf).  (2) Every operation, called within its documented preconditions
   (= whenever the rose-tree specification of Model/Tree.v is defined), terminates without panic
   within the stated fuel and re-establishes `Rep` with the specification's result (C09_*_refines;
   these are also the C10 theorems).  Hence every DOM reachable by any history is well formed. *)
From RbxVerif Require Import Base Dom Tree BaseFacts DomFacts TreeFacts Rep RepWF
  RefDestroy RefMoveWithin RefInsert RefMove.

Theorem C09_rep_wf : forall d a, Rep d a -> WF d.
Proof. exact rep_wf. Qed.
Check C09_rep_wf : forall d a, Rep d a -> WF d.

Theorem C09_new_refines : refines_new.
Proof. exact new_refines. Qed.
Theorem C09_insert_refines : refines_insert.
Proof. exact insert_refines. Qed.
Theorem C09_destroy_refines : refines_destroy.
Proof. exact destroy_refines. Qed.
Theorem C09_move_within_refines : refines_move_within.
Proof. exact move_within_refines. Qed.
Theorem C09_transfer_refines : refines_move.
Proof. exact move_refines. Qed.

(* destroyed instances can no longer be looked up *)
Theorem C09_removed_is_gone : forall d r d' i,
  inner_remove d r = Some (d', i) -> lookup r (d_insts d') = None /\ lookup r (d_insts d) = Some i.
Proof. exact inner_remove_gone. Qed.

(* the guard of transfer_within (fix: commit 4ceb9590): a move under the moved instance's own subtree is refused *)
Theorem C09_move_guard : forall d r dest d',
  dom_transfer_within d r dest = Ok d' ->
  r <> d_root d /\ anc_loop (S (dom_size d)) d dest r = Ok false.
Proof. exact transfer_within_guard. Qed.

(* ---- every DOM reachable by any history is well formed ----
   For every finite history of operations (new, insert, destroy, transfer_within, transfer, clone_within,
   clone_into_external, clone_multiple_into_external) over any number of DOMs, each called within its
   documented preconditions (= the specification of Model/Tree.v is defined at every step) on builders whose
   referents/ids are fresh (below the allocators): the concrete model of dom.rs neither panics nor runs out of
   fuel, and every DOM it reaches is a well-formed forest with unique UniqueIds. *)
From RbxVerif Require Import World.
Theorem C09_wf_reachable : forall ops aw',
  ops_ok aworld0 ops -> arun aworld0 ops = Some aw' ->
  exists w', run world0 ops = Ok w' /\ Forall WF (w_doms w').
Proof. exact wf_reachable. Qed.
Check C09_wf_reachable : forall ops aw',
  ops_ok aworld0 ops -> arun aworld0 ops = Some aw' ->
  exists w', run world0 ops = Ok w' /\ Forall WF (w_doms w').

Theorem C09_step_refines : forall w aw o aw' ret,
  RepW w aw -> op_ok aw o -> astep aw o = Some (aw', ret) ->
  exists w', step w o = Ok (w', ret) /\ RepW w' aw'.
Proof. exact refines_step. Qed.

(* the premises are satisfiable: a 9-operation history over two DOMs using every kind of operation *)
Theorem C09_nonvacuous : ops_ok aworld0 ex_ops /\ exists aw', arun aworld0 ex_ops = Some aw'.
Proof. split; [exact ex_ops_ok|]. destruct ex_ops_defined as [aw' [H _]]. exists aw'. exact H. Qed.

(* ==== WeakDom::transfer outside its documented precondition (the new parent must be an instance of the destination DOM):
   after the /repo repair the call panics before anything is moved; before it, an instance inside the transferred subtree could
   stand in for the missing parent and the call returned with a parent cycle (computed witness, found by the thorough dom-ops run) *)
From RbxVerif Require Import RefMoveGuard.

Theorem C09_transfer_absent_dest_panics : forall src dst nu r dest,
  has dest (d_insts dst) = false -> dom_transfer src dst nu r dest = Panic.
Proof. exact transfer_absent_dest_panics. Qed.

Theorem C09_transfer_pinned_agrees_when_dest_present : forall src dst nu r dest,
  has dest (d_insts dst) = true -> dom_transfer src dst nu r dest = dom_transfer_pinned src dst nu r dest.
Proof. exact transfer_pinned_agrees. Qed.

Theorem C09_transfer_pinned_cycle_refuted :
  exists d0 d1 d1' d0' nu nu' i2 i6,
    dom_transfer_pinned gd0 gd1 100 2 6 = Ok (d0, d1, nu) /\
    dom_transfer_pinned d1 d0 nu 6 2 = Ok (d1', d0', nu') /\
    lookup 2 (d_insts d0') = Some i2 /\ i_parent i2 = 6 /\
    lookup 6 (d_insts d0') = Some i6 /\ i_parent i6 = 2.
Proof. exact transfer_pinned_cycle_refuted. Qed.

Theorem C09_transfer_repaired_panics :
  exists d0 d1 nu, dom_transfer gd0 gd1 100 2 6 = Ok (d0, d1, nu) /\ dom_transfer d1 d0 nu 6 2 = Panic.
Proof. exact transfer_repaired_panics. Qed.
