(* Property C10 — each WeakDom operation has exactly its documented effect (statements only).
   The documented effect is the rose-tree specification Model/Tree.v (a_insert: append the built subtree
   as last child; a_destroy: delete exactly the subtree; a_move_within / a_move: detach one subtree and
   append it under the new parent, keeping referents, order and properties).  Each theorem says: when
   the specification is defined, the concrete operation returns Ok and its result represents exactly the
   specification's result — which includes the frame clause, because `Rep` fixes the whole table. *)
From RbxVerif Require Import Base Dom Tree BaseFacts DomFacts TreeFacts Rep RepWF
  RefDestroy RefMoveWithin RefInsert RefMove.

Theorem C10_insert_effect : refines_insert.
Proof. exact insert_refines. Qed.
Theorem C10_new_effect : refines_new.
Proof. exact new_refines. Qed.
Theorem C10_destroy_effect : refines_destroy.
Proof. exact destroy_refines. Qed.
Theorem C10_move_within_effect : refines_move_within.
Proof. exact move_within_refines. Qed.
Theorem C10_transfer_effect : refines_move.
Proof. exact move_refines. Qed.

Theorem C10_remove_frame : forall d r d' i x,
  inner_remove d r = Some (d', i) -> x <> r -> lookup x (d_insts d') = lookup x (d_insts d).
Proof. exact inner_remove_frame. Qed.
