(* Property C10 — each WeakDom operation has exactly its documented effect (statements only). *)
From RbxVerif Require Import Base Dom Tree BaseFacts DomFacts.

Theorem C10_remove_frame : forall d r d' i x,
  inner_remove d r = Some (d', i) -> x <> r -> lookup x (d_insts d') = lookup x (d_insts d).
Proof. exact inner_remove_frame. Qed.
