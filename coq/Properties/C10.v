(* Property C10 — each WeakDom operation has exactly its documented effect (statements only).
   The documented effect is the rose-tree specification Model/Tree.v (a_insert: append the built subtree
   as last child; a_destroy: delete exactly the subtree; a_move_within / a_move: detach one subtree and
   append it under the new parent, keeping referents, order and properties).  Each theorem says: when
   the specification is defined, the concrete operation returns Ok and its result represents exactly the
   specification's result — which includes the frame clause, because `Rep` fixes the whole table. *)
From RbxVerif Require Import Base Dom Tree BaseFacts DomFacts TreeFacts Rep RepWF
  RefDestroy RefMoveWithin RefInsert RefMove.

Theorem C10_insert_effect : refines_insert.
Proof. exact insert_refines. Qed.
Theorem C10_new_effect : refines_new.
Proof. exact new_refines. Qed.
Theorem C10_destroy_effect : refines_destroy.
Proof. exact destroy_refines. Qed.
Theorem C10_move_within_effect : refines_move_within.
Proof. exact move_within_refines. Qed.
Theorem C10_transfer_effect : refines_move.
Proof. exact move_refines. Qed.

Theorem C10_remove_frame : forall d r d' i x,
  inner_remove d r = Some (d', i) -> x <> r -> lookup x (d_insts d') = lookup x (d_insts d).
Proof. exact inner_remove_frame. Qed.

(* "children in builder order": what an InstanceBuilder holds after any script over its construction
   API (with_child/add_child, with_children/add_children on a builder that may already have children,
   with_property/add_property, with_properties/add_properties, names, classes, referents). *)
From RbxVerif Require Import Builder BuilderFacts.

Theorem C10_builder_children_in_script_order : forall ops b,
  b_kids (brun b ops) = b_kids b ++ flat_map op_kids ops.
Proof. exact brun_kids. Qed.
Theorem C10_builder_props_in_script_order : forall ops b,
  b_props (brun b ops) = b_props b ++ flat_map op_props ops.
Proof. exact brun_props. Qed.
Theorem C10_builder_grouping_irrelevant : forall b ops ops',
  flat_map op_kids ops = flat_map op_kids ops' ->
  flat_map op_props ops = flat_map op_props ops' ->
  last_some (List.map op_name ops) (b_name b) = last_some (List.map op_name ops') (b_name b) ->
  last_some (List.map op_class ops) (b_class b) = last_some (List.map op_class ops') (b_class b) ->
  last_some (List.map op_ref ops) (b_ref b) = last_some (List.map op_ref ops') (b_ref b) ->
  brun b ops = brun b ops'.
Proof. exact brun_grouping_irrelevant. Qed.
Theorem C10_builder_script_builds : forall r c nm0 n (pgroups : list (list (N * pval))) (kgroups : list (list btree)),
  brun (bnew r c nm0) (OName n :: List.map OProps pgroups ++ List.map OChildren kgroups)
  = BNode r n c (concat pgroups) (concat kgroups).
Proof. exact brun_builds. Qed.
