(* Property C04 — the binary reader accepts any spec-conformant file (statements only).
   The independent encoder is BinSpec.bspec_encode (written from docs/binary.md); the freedoms the document leaves are the
   parameters [bs_choices] (chunk order, per-chunk compression, rotation ids) and the logical file itself (class ids, referents,
   PRNT row order, META / unknown chunks, object format, the wire type of a column, PROP chunks ending after the name or with an
   undefined type id, meaningless bits).  What is proved here is that this encoder produces files the *document* decoder reads
   back as the same logical file, under every reading of the document: the generator of conformant files used by the `binspec`
   correspondence is itself conformant.  That the real reader decodes these files to the DOM [bspec_to_dom] describes is the
   correspondence (harness/src/binspec.rs, oracle lines `C04 <key>`). *)
From Coq Require Import List NArith ZArith.
From RbxVerif Require Import Base Bytes Value Lz4 BinSpec Lz4Facts BinSpecFacts.
Import ListNotations.
Open Scope N_scope.

Theorem C04_encoder_conformant : forall rd comp use_ids f,
  bs_wf f = true ->
  bs_sizes_ok rd (mkChoices (bs_canonical_order f) comp use_ids) f = true ->
  bspec_decode rd (bspec_encode rd (mkChoices (bs_canonical_order f) comp use_ids) f) = Ok f.
Proof. exact bspec_roundtrip. Qed.

(* any chunk order that puts each INST before the PROPs of its class, with any interleaving of META / SSTR / PRNT / unknown
   chunks: the chunk list is read back chunk by chunk (a truncated PROP and a PROP with an undefined type id included) *)
Theorem C04_any_chunk_order : forall rd use_ids items seen,
  items_ok seen items = true ->
  bs_parse_items rd seen (List.map (bs_enc_item rd use_ids) items) = Ok items.
Proof. exact bs_items_roundtrip. Qed.

(* a single chunk, e.g. a PROP that ends right after its name or carries a type id the document does not define, is read back
   as itself and affects nothing else *)
Theorem C04_single_chunk : forall rd use_ids seen it,
  item_ok seen it = true ->
  bs_parse_item rd seen (fst (bs_enc_item rd use_ids it)) (snd (bs_enc_item rd use_ids it)) = Ok it.
Proof. exact bs_item_roundtrip. Qed.

(* LZ4 chunks this encoder emits are valid blocks: the document-side decoder inflates them to the payload *)
Theorem C04_lz4_literal_blocks : forall x, lz4_inflate (literal_only_block x) (N.of_nat (length x)) = Ok x.
Proof. exact lz4_inflate_literal_only. Qed.
