(* Property C04 — the binary reader accepts any spec-conformant file (statements only).
   The independent encoder is BinSpec.bspec_encode (written from docs/binary.md); the freedoms the document leaves are the
   parameters [bs_choices] (chunk order, per-chunk compression, rotation ids) and the logical file itself (class ids, referents,
   PRNT row order, META / unknown chunks, object format, the wire type of a column, PROP chunks ending after the name or with an
   undefined type id, meaningless bits).  What is proved here is that this encoder produces files the *document* decoder reads
   back as the same logical file, under every reading of the document: the generator of conformant files used by the `binspec`
   correspondence is itself conformant.  That the real reader decodes these files to the DOM [bspec_to_dom] describes is the
   correspondence (harness/src/binspec.rs, oracle lines `C04 <key>`). *)
From Coq Require Import List NArith ZArith.
From RbxVerif Require Import Base Bytes Value Lz4 BinSpec Lz4Facts BinSpecFacts.
Import ListNotations.
Open Scope N_scope.

Theorem C04_encoder_conformant : forall rd comp use_ids f,
  bs_wf f = true ->
  bs_sizes_ok rd (mkChoices (bs_canonical_order f) comp use_ids) f = true ->
  bspec_decode rd (bspec_encode rd (mkChoices (bs_canonical_order f) comp use_ids) f) = Ok f.
Proof. exact bspec_roundtrip. Qed.

(* any chunk order that puts each INST before the PROPs of its class, with any interleaving of META / SSTR / PRNT / unknown
   chunks: the chunk list is read back chunk by chunk (a truncated PROP and a PROP with an undefined type id included) *)
Theorem C04_any_chunk_order : forall rd use_ids items seen,
  items_ok seen items = true ->
  bs_parse_items rd seen (List.map (bs_enc_item rd use_ids) items) = Ok items.
Proof. exact bs_items_roundtrip. Qed.

(* a single chunk, e.g. a PROP that ends right after its name or carries a type id the document does not define, is read back
   as itself and affects nothing else *)
Theorem C04_single_chunk : forall rd use_ids seen it,
  item_ok seen it = true ->
  bs_parse_item rd seen (fst (bs_enc_item rd use_ids it)) (snd (bs_enc_item rd use_ids it)) = Ok it.
Proof. exact bs_item_roundtrip. Qed.

(* LZ4 chunks this encoder emits are valid blocks: the document-side decoder inflates them to the payload *)
Theorem C04_lz4_literal_blocks : forall x, lz4_inflate (literal_only_block x) (N.of_nat (length x)) = Ok x.
Proof. exact lz4_inflate_literal_only. Qed.

(* ==== on the model of the REAL reader (BinFile.decode_prop; Proofs/BinChunkFacts.v, BinValuesFacts*.v): a PROP chunk that ends after
   its name, or carries an unknown value-type id, leaves the decoder state unchanged — whatever follows; narrower numeric columns
   are widened exactly *)
From RbxVerif Require Import Utf8 Db CodecDom BinValues BinFile BinFileFacts BinValuesFacts BinValuesFacts2 BinChunkFacts.

Theorem C04_decode_prop_skip_truncated :
  forall (d : db) (p : dec_params) (st : dstate) (type_id : N) (pname : list N) (ti : dtinfo),
       type_id < 2 ^ 32 ->
       N.of_nat (Datatypes.length pname) < 2 ^ 32 ->
       alloc_ok (dp_lim p) (N.of_nat (Datatypes.length pname)) = true ->
       utf8_valid pname = true ->
       lookup type_id (ds_types st) = Some ti -> decode_prop d p st (w_le32 type_id ++ w_bstr pname) = Ok st.
Proof. exact decode_prop_skip_truncated. Qed.

Theorem C04_decode_prop_skip_truncated_gen :
  forall (d : db) (p : dec_params) (st : dstate) (chunk : bytes) (type_id : N) 
         (pname : bytes) (ti : dtinfo),
       prop_header (dp_lim p) chunk = Ok (type_id, pname, []) ->
       lookup type_id (ds_types st) = Some ti -> decode_prop d p st chunk = Ok st.
Proof. exact decode_prop_skip_truncated_gen. Qed.

Theorem C04_decode_prop_skip_unknown_type :
  forall (d : db) (p : dec_params) (st : dstate) (type_id : N) (pname : list N) 
         (ti : dtinfo) (byte : N) (tail : list N),
       type_id < 2 ^ 32 ->
       N.of_nat (Datatypes.length pname) < 2 ^ 32 ->
       alloc_ok (dp_lim p) (N.of_nat (Datatypes.length pname)) = true ->
       utf8_valid pname = true ->
       lookup type_id (ds_types st) = Some ti ->
       wire_of_id byte = None ->
       decode_prop d p st (w_le32 type_id ++ w_bstr pname ++ w_u8 byte ++ tail) = Ok st.
Proof. exact decode_prop_skip_unknown_type. Qed.

Theorem C04_decode_prop_skip_unknown_type_gen :
  forall (d : db) (p : dec_params) (st : dstate) (chunk : bytes) (type_id : N) 
         (pname : bytes) (ti : dtinfo) (byte : N) (tail : list N),
       prop_header (dp_lim p) chunk = Ok (type_id, pname, byte :: tail) ->
       lookup type_id (ds_types st) = Some ti -> wire_of_id byte = None -> decode_prop d p st chunk = Ok st.
Proof. exact decode_prop_skip_unknown_type_gen. Qed.

Theorem C04_decode_prop_unknown_type_id :
  forall (d : db) (p : dec_params) (st : dstate) (chunk : bytes) (type_id : N) (pname chunk1 : bytes),
       prop_header (dp_lim p) chunk = Ok (type_id, pname, chunk1) ->
       lookup type_id (ds_types st) = None -> decode_prop d p st chunk = Err E_TYPE_ID.
Proof. exact decode_prop_unknown_type_id. Qed.

Theorem C04_col_widen_int32_int64 :
  forall (c : enc_ctx) (dc : dec_ctx) (zs : list Z) (rest : list N),
       Forall (fun z : Z => in_i32 z = true) zs ->
       exists b : bytes,
         enc_col WInt32 c (List.map VInt32 zs) = Ok b /\
         dec_col WInt32 VT_Int64 dc (Datatypes.length zs) (b ++ rest) = Ok (List.map VInt64 zs, rest).
Proof. exact col_widen_int32_int64. Qed.

Theorem C04_col_widen_float32_float64 :
  forall (c : enc_ctx) (dc : dec_ctx) (xs : list f32) (rest : list N),
       Forall (fun x : f32 => f32_ok x = true) xs ->
       exists b : bytes,
         enc_col WFloat32 c (List.map VFloat32 xs) = Ok b /\
         dec_col WFloat32 VT_Float64 dc (Datatypes.length xs) (b ++ rest) =
         Ok (List.map (fun x : f32 => VFloat64 (f64_of_f32 x)) xs, rest).
Proof. exact col_widen_float32_float64. Qed.

Theorem C04_col_widen_float32_in_float64_column :
  forall (c : enc_ctx) (dc : dec_ctx) (xs : list f32) (rest : list N),
       Forall (fun x : f32 => f32_ok x = true) xs ->
       exists b : bytes,
         enc_col WFloat64 c (List.map VFloat32 xs) = Ok b /\
         dec_col WFloat64 VT_Float64 dc (Datatypes.length xs) (b ++ rest) =
         Ok (List.map (fun x : f32 => VFloat64 (f64_of_f32 x)) xs, rest).
Proof. exact col_widen_float32_in_float64_column. Qed.


(* ==== on the model of the REAL reader (Proofs/BinFinish.v): the order of the rows of the PRNT chunk is free — two row lists that
   describe the same forest (same per-parent subsequences) decode to the same DOM *)
From RbxVerif Require Import BinFinish.
Open Scope N_scope.

Theorem C04_prnt_then_finish :
  forall (p : dec_params) (sstr : list bytes) (types : list (N * dtinfo)) (insts0 : list (Z * dinst))
         (next : N) (pairs : list (Z * Z)) (F : list ztree),
       let D := dinst_of insts0 in
       (forall c par : Z, In (c, par) pairs -> par = (-1)%Z \/ zfind par insts0 <> None) ->
       (forall k : Z,
        In k (zfrefs F) -> exists i : dinst, zfind k insts0 = Some i /\ di_children i = [] /\ di_label i <> 0) ->
       NoDup (List.map (lab D) (zfrefs F)) ->
       rows_describe pairs F ->
       exists insts' : list (Z * dinst),
         prnt_links insts0 [] pairs = Ok (insts', List.map zroot F) /\
         (exists out : cdom,
            finish p
              {|
                ds_sstr := sstr;
                ds_types := types;
                ds_insts := insts';
                ds_roots := List.map zroot F;
                ds_next := next
              |} = Ok out /\ reconstructs D p F out).
Proof. exact prnt_then_finish. Qed.

Theorem C04_prnt_row_order_free :
  forall (p : dec_params) (sstr : list bytes) (types : list (N * dtinfo)) (insts0 : list (Z * dinst))
         (next : N) (pairs1 pairs2 : list (Z * Z)) (F : list ztree),
       let D := dinst_of insts0 in
       (forall c par : Z, In (c, par) pairs1 -> par = (-1)%Z \/ zfind par insts0 <> None) ->
       (forall c par : Z, In (c, par) pairs2 -> par = (-1)%Z \/ zfind par insts0 <> None) ->
       (forall k : Z,
        In k (zfrefs F) -> exists i : dinst, zfind k insts0 = Some i /\ di_children i = [] /\ di_label i <> 0) ->
       NoDup (List.map (lab D) (zfrefs F)) ->
       rows_describe pairs1 F ->
       rows_describe pairs2 F ->
       exists (insts1 insts2 : list (Z * dinst)) (roots : list Z) (out : cdom),
         prnt_links insts0 [] pairs1 = Ok (insts1, roots) /\
         prnt_links insts0 [] pairs2 = Ok (insts2, roots) /\
         finish p
           {| ds_sstr := sstr; ds_types := types; ds_insts := insts1; ds_roots := roots; ds_next := next |} =
         Ok out /\
         finish p
           {| ds_sstr := sstr; ds_types := types; ds_insts := insts2; ds_roots := roots; ds_next := next |} =
         Ok out.
Proof. exact prnt_row_order_free. Qed.
(* ==== THE REAL READER MODEL ON FILES OF ANOTHER WRITER: the spec encoder with all its freedoms (Proofs/BinSpecRead.v).
   columns  for all 31 document column types and BOTH rotation encodings (id form and nine floats), dec_col of the real reader model applied to
            the spec encoder's column yields the values the column describes (retyped by the canonical type; Int32->Int64 and Float32->Float64
            widened exactly), consuming exactly those bytes;
   chunks   INST (plain and service format, ANY class ids and referent numbers), PROP, PRNT, SSTR, META and unknown-name chunks: dispatch_chunk does
            what an executable byte-free description (rstep) says; truncated / undefined-type / unknown-type PROP chunks leave the state unchanged;
   file     for every well-formed logical file (executable predicate file_dom_ok, proved sound), every accepted chunk order — INST chunks in any
            order before the PROP chunks, PRNT anywhere after the INST chunks, META and unknown chunks anywhere —, any per-chunk compression the
            inflater inverts and either rotation form: decode_file succeeds and the decoded DOM is related to bspec_to_dom f by an explicit relation
            (same instances up to an injective relabelling, same class, parent/child structure and order; names and property tables as the fold of
            the PROP chunks in chunk order, for properties unknown to the database); the forest is BUILT from the children-first PRNT rows;
   orders   two accepted orders / compressions / numberings of one file decode to the same DOM up to the labelling (chunk_order_independent).
   The reader accepts exactly the document's chunk order ("File Structure": INST chunks, then PROP chunks): interleavings the document does not
   list are refuted with witnesses (a Referent column before the INST chunk of its target reads as null; SSTR after a SharedString PROP; PRNT before
   the INST chunk of a parent).  Values the reader is stricter about than a literal reading of the document (reserved bits of Faces / Axes set,
   BrickColor numbers outside the palette, Font weights outside the enumeration, Bytecode columns) are characterised by witnesses. *)
From RbxVerif Require Import Lz4 BinSpec BinSpecRead.
From RbxVerif Require BinFinish BinRoundTrip BinSpecAgree BinSpecFacts.

Theorem C04_reader_reads_spec_column :
  forall (dc : dec_ctx) (u : bool) (col : bs_column) (cty : N) (ty : wire_type)
         (sstr : list (bytes * bytes)) (lo : Z -> N) (vals : list value) (rest : list N),
       dc_lim dc = None ->
       bs_col_ok col = true ->
       reader_col_ok cty col = true ->
       wire_of_id (bs_col_type col) = Some ty ->
       (forall z : Z, dc_resolve dc z = lo z) ->
       dc_sstr dc = List.map snd sstr ->
       bs_col_values sstr lo col = Ok vals ->
       match col with
       | KContent _ _ => rest = []
       | _ => True
       end ->
       dec_col ty cty dc (bs_col_len col) (bs_enc_col rdA u col ++ rest) =
       Ok (List.map (retype cty) vals, rest).
Proof. exact reader_reads_spec_column. Qed.

Theorem C04_reader_item_chunk :
  forall (d : db) (p : dec_params),
       dp_lim p = None ->
       forall (u : bool) (st : dstate) (it : bs_item) (st' : dstate),
       ritem_ok it = true ->
       rstep d p st it = Some st' ->
       dispatch_chunk d p st (fst (bs_enc_item rdA u it)) (snd (bs_enc_item rdA u it)) = Ok (Some st').
Proof. exact reader_item_chunk. Qed.

Theorem C04_reader_on_spec_file_gen :
  forall (d : db) (p : dec_params) (u : bool) (order : list bs_okey) (cmps : list compression)
         (f : bs_file) (st : dstate),
       dp_lim p = None ->
       bs_wf f = true ->
       gframes_rt p cmps (List.map (bs_enc_item rdA u) (bs_items_of order f)) ->
       run_items d p dstate0 (bs_items_of order f) = Some st ->
       decode_file d p
         (bs_enc_header (bs_header_of f) ++
          gframe_all cmps (List.map (bs_enc_item rdA u) (bs_items_of order f))) = 
       finish p st.
Proof. exact reader_on_spec_file_gen. Qed.

Theorem C04_forest_of_describes :
  forall rows : list (Z * Z),
       NoDup (List.map fst rows) ->
       children_first rows = true ->
       BinFinish.rows_describe rows (forest_of rows) /\
       NoDup (BinFinish.zfrefs (forest_of rows)) /\
       Permutation.Permutation (BinFinish.zfrefs (forest_of rows)) (List.map fst rows).
Proof. exact forest_of_describes. Qed.

Theorem C04_file_dom_ok_sound :
  forall f : bs_file, file_dom_ok f = true -> dom_facts f.
Proof. exact file_dom_ok_sound. Qed.

Theorem C04_spec_dom_closed :
  forall f : bs_file,
       dom_facts f -> bspec_to_dom f = Ok (List.map (mk_node (f_kids f) (f_ai f)) (bf_prnt f)).
Proof. exact spec_dom_closed. Qed.

Theorem C04_fold_is_node :
  forall (cl : bs_class) (k : nat) (sstr : list (bytes * bytes)) (lo : Z -> N)
         (sstr' : list (bytes * bytes)) (phi : N -> N) (P props : list bs_prop),
       List.map snd sstr' = List.map snd sstr ->
       Permutation.Permutation P props ->
       (forall pr : bs_prop, In pr props -> prop_file_ok sstr lo pr) ->
       NoDup (List.map bp_name (filter (pq cl) props)) ->
       let R := fold_left (pstep sstr' (fun z : Z => phi (lo z)) cl k) P (cls_name cl, []) in
       let ps := BinSpecAgree.row k (BinSpecAgree.ccols sstr lo (cls_id cl) props) in
       fst R = match fst (take_name ps) with
               | Some s0 => s0
               | None => cls_name cl
               end /\
       (forall key : bytes,
        bfind key (collect_props (snd R)) = option_map (Tval phi) (bfind key (snd (take_name ps)))).
Proof. exact fold_is_node. Qed.

Theorem C04_reader_decodes_spec_file_dom :
  forall (d : db) (p : dec_params) (u : bool) (order : list bs_okey) (cmps : list compression)
         (f : bs_file) (P1 P2 : list bs_item),
       dp_lim p = None ->
       file_dom_ok f = true ->
       gframes_rt p cmps (List.map (bs_enc_item rdA u) (bs_items_of order f)) ->
       flat_map (item_of_key f) order = P1 ++ P2 ->
       forallb (fun it : bs_item => negb (is_prop it)) P1 = true ->
       forallb (fun it : bs_item => negb (is_reg it)) P2 = true ->
       Permutation.Permutation (bs_insts P1) (bf_classes f) ->
       bs_prnts (P1 ++ P2) = [bf_prnt f] ->
       scan d [] 0 (P1 ++ P2) = true ->
       inst_prnt_ok false (P1 ++ P2) = true ->
       scan d (bs_insts P1) (sstr_total P1) P2 = true ->
       forallb (prop_nonmig d (bs_insts P1)) (bs_props P2) = true ->
       exists (st : dstate) (out : cdom) (nodes : list bs_node),
         run_items d p dstate0 (bs_items_of order f) = Some st /\
         decode_file d p
           (bs_enc_header (bs_header_of f) ++
            gframe_all cmps (List.map (bs_enc_item rdA u) (bs_items_of order f))) = 
         Ok out /\
         bspec_to_dom f = Ok nodes /\
         same_dom (phi_of (f_kids f) (D_of st)) (node_rec d f p st (bs_props P2)) nodes out.
Proof. exact reader_decodes_spec_file_dom. Qed.

Theorem C04_reader_decodes_spec_file :
  forall (d : db) (p : dec_params) (u : bool) (order : list bs_okey) (cmps : list compression)
         (f : bs_file) (P1 P2 : list bs_item),
       dp_lim p = None ->
       file_dom_ok f = true ->
       props_file_okb f = true ->
       gframes_rt p cmps (List.map (bs_enc_item rdA u) (bs_items_of order f)) ->
       flat_map (item_of_key f) order = P1 ++ P2 ->
       forallb (fun it : bs_item => negb (is_prop it)) P1 = true ->
       forallb (fun it : bs_item => negb (is_reg it)) P2 = true ->
       Permutation.Permutation (bs_insts P1) (bf_classes f) ->
       bs_prnts (P1 ++ P2) = [bf_prnt f] ->
       Permutation.Permutation (bs_props P2) (bf_props f) ->
       bs_sstrs P1 = match bf_sstr f with
                     | Some l => [l]
                     | None => []
                     end ->
       scan d [] 0 (P1 ++ P2) = true ->
       inst_prnt_ok false (P1 ++ P2) = true ->
       scan d (bs_insts P1) (sstr_total P1) P2 = true ->
       forallb (prop_unknown d (bs_insts P1)) (bs_props P2) = true ->
       exists (st : dstate) (out : cdom) (nodes : list bs_node),
         decode_file d p
           (bs_enc_header (bs_header_of f) ++
            gframe_all cmps (List.map (bs_enc_item rdA u) (bs_items_of order f))) = 
         Ok out /\
         bspec_to_dom f = Ok nodes /\
         same_dom (phi_of (f_kids f) (D_of st)) (node_same (phi_of (f_kids f) (D_of st)) p) nodes out.
Proof. exact reader_decodes_spec_file. Qed.

Theorem C04_chunk_order_independent :
  forall (d : db) (p : dec_params) (f : bs_file) (u1 : bool) (order1 : list bs_okey)
         (cmps1 : list compression) (P1 P2 : list bs_item) (u2 : bool) (order2 : list bs_okey)
         (cmps2 : list compression) (P1' P2' : list bs_item),
       dp_lim p = None ->
       file_dom_ok f = true ->
       gframes_rt p cmps1 (List.map (bs_enc_item rdA u1) (bs_items_of order1 f)) ->
       gframes_rt p cmps2 (List.map (bs_enc_item rdA u2) (bs_items_of order2 f)) ->
       flat_map (item_of_key f) order1 = P1 ++ P2 ->
       flat_map (item_of_key f) order2 = P1' ++ P2' ->
       forallb (fun it : bs_item => negb (is_prop it)) P1 = true ->
       forallb (fun it : bs_item => negb (is_reg it)) P2 = true ->
       forallb (fun it : bs_item => negb (is_prop it)) P1' = true ->
       forallb (fun it : bs_item => negb (is_reg it)) P2' = true ->
       Permutation.Permutation (bs_insts P1) (bf_classes f) ->
       bs_prnts (P1 ++ P2) = [bf_prnt f] ->
       Permutation.Permutation (bs_insts P1') (bf_classes f) ->
       bs_prnts (P1' ++ P2') = [bf_prnt f] ->
       scan d [] 0 (P1 ++ P2) = true ->
       inst_prnt_ok false (P1 ++ P2) = true ->
       scan d [] 0 (P1' ++ P2') = true ->
       inst_prnt_ok false (P1' ++ P2') = true ->
       scan d (bs_insts P1) (sstr_total P1) P2 = true ->
       forallb (prop_nonmig d (bs_insts P1)) (bs_props P2) = true ->
       scan d (bs_insts P1') (sstr_total P1') P2' = true ->
       forallb (prop_nonmig d (bs_insts P1')) (bs_props P2') = true ->
       exists (nodes : list bs_node) (st1 : dstate) (out1 : cdom) (st2 : dstate) 
       (out2 : cdom),
         bspec_to_dom f = Ok nodes /\
         decode_file d p
           (bs_enc_header (bs_header_of f) ++
            gframe_all cmps1 (List.map (bs_enc_item rdA u1) (bs_items_of order1 f))) = 
         Ok out1 /\
         decode_file d p
           (bs_enc_header (bs_header_of f) ++
            gframe_all cmps2 (List.map (bs_enc_item rdA u2) (bs_items_of order2 f))) = 
         Ok out2 /\
         same_dom (phi_of (f_kids f) (D_of st1)) (node_rec d f p st1 (bs_props P2)) nodes out1 /\
         same_dom (phi_of (f_kids f) (D_of st2)) (node_rec d f p st2 (bs_props P2')) nodes out2.
Proof. exact chunk_order_independent. Qed.

Theorem C04_chunk_order_independent_full :
  forall (d : db) (p : dec_params) (f : bs_file) (u1 : bool) (order1 : list bs_okey)
         (cmps1 : list compression) (P1 P2 : list bs_item) (u2 : bool) (order2 : list bs_okey)
         (cmps2 : list compression) (P1' P2' : list bs_item),
       dp_lim p = None ->
       file_dom_ok f = true ->
       props_file_okb f = true ->
       gframes_rt p cmps1 (List.map (bs_enc_item rdA u1) (bs_items_of order1 f)) ->
       gframes_rt p cmps2 (List.map (bs_enc_item rdA u2) (bs_items_of order2 f)) ->
       flat_map (item_of_key f) order1 = P1 ++ P2 ->
       flat_map (item_of_key f) order2 = P1' ++ P2' ->
       forallb (fun it : bs_item => negb (is_prop it)) P1 = true ->
       forallb (fun it : bs_item => negb (is_reg it)) P2 = true ->
       forallb (fun it : bs_item => negb (is_prop it)) P1' = true ->
       forallb (fun it : bs_item => negb (is_reg it)) P2' = true ->
       Permutation.Permutation (bs_insts P1) (bf_classes f) ->
       bs_prnts (P1 ++ P2) = [bf_prnt f] ->
       Permutation.Permutation (bs_insts P1') (bf_classes f) ->
       bs_prnts (P1' ++ P2') = [bf_prnt f] ->
       Permutation.Permutation (bs_props P2) (bf_props f) ->
       bs_sstrs P1 = match bf_sstr f with
                     | Some l => [l]
                     | None => []
                     end ->
       Permutation.Permutation (bs_props P2') (bf_props f) ->
       bs_sstrs P1' = match bf_sstr f with
                      | Some l => [l]
                      | None => []
                      end ->
       scan d [] 0 (P1 ++ P2) = true ->
       inst_prnt_ok false (P1 ++ P2) = true ->
       scan d [] 0 (P1' ++ P2') = true ->
       inst_prnt_ok false (P1' ++ P2') = true ->
       scan d (bs_insts P1) (sstr_total P1) P2 = true ->
       forallb (prop_unknown d (bs_insts P1)) (bs_props P2) = true ->
       scan d (bs_insts P1') (sstr_total P1') P2' = true ->
       forallb (prop_unknown d (bs_insts P1')) (bs_props P2') = true ->
       exists (nodes : list bs_node) (st1 : dstate) (out1 : cdom) (st2 : dstate) 
       (out2 : cdom),
         bspec_to_dom f = Ok nodes /\
         decode_file d p
           (bs_enc_header (bs_header_of f) ++
            gframe_all cmps1 (List.map (bs_enc_item rdA u1) (bs_items_of order1 f))) = 
         Ok out1 /\
         decode_file d p
           (bs_enc_header (bs_header_of f) ++
            gframe_all cmps2 (List.map (bs_enc_item rdA u2) (bs_items_of order2 f))) = 
         Ok out2 /\
         same_dom (phi_of (f_kids f) (D_of st1)) (node_same (phi_of (f_kids f) (D_of st1)) p) nodes out1 /\
         same_dom (phi_of (f_kids f) (D_of st2)) (node_same (phi_of (f_kids f) (D_of st2)) p) nodes out2.
Proof. exact chunk_order_independent_full. Qed.

Theorem C04_known_prop_in_fold :
  forall (d : db) (cl : bs_class) (k : nat) (sstr : list (bytes * bytes)) (lo : Z -> N)
         (props : list bs_prop) (pr : bs_prop) (col : bs_column) (ty : wire_type) 
         (nm : bytes) (cty : N) (vals : list value) (v : value),
       only_prop d cl props nm pr ->
       bp_body pr = BValues col ->
       wire_of_id (bs_col_type col) = Some ty ->
       find_canonical_property d ty (cls_name cl) (bp_name pr) = Ok (Some (nm, cty, None)) ->
       bs_col_values sstr lo col = Ok vals ->
       nth_error vals k = Some v ->
       bfind nm (collect_props (snd (fold_left (pstepD d sstr lo cl k) props (cls_name cl, [])))) =
       Some (retype cty v).
Proof. exact known_prop_in_fold. Qed.

Theorem C04_known_property_whole_file :
  forall (d : db) (p : dec_params) (u : bool) (order : list bs_okey) (cmps : list compression)
         (f : bs_file) (P1 P2 : list bs_item),
       dp_lim p = None ->
       file_dom_ok f = true ->
       gframes_rt p cmps (List.map (bs_enc_item rdA u) (bs_items_of order f)) ->
       flat_map (item_of_key f) order = P1 ++ P2 ->
       forallb (fun it : bs_item => negb (is_prop it)) P1 = true ->
       forallb (fun it : bs_item => negb (is_reg it)) P2 = true ->
       Permutation.Permutation (bs_insts P1) (bf_classes f) ->
       bs_prnts (P1 ++ P2) = [bf_prnt f] ->
       scan d [] 0 (P1 ++ P2) = true ->
       inst_prnt_ok false (P1 ++ P2) = true ->
       scan d (bs_insts P1) (sstr_total P1) P2 = true ->
       forallb (prop_nonmig d (bs_insts P1)) (bs_props P2) = true ->
       exists (st : dstate) (out : cdom) (nodes : list bs_node),
         decode_file d p
           (bs_enc_header (bs_header_of f) ++
            gframe_all cmps (List.map (bs_enc_item rdA u) (bs_items_of order f))) = 
         Ok out /\
         bspec_to_dom f = Ok nodes /\
         same_dom (phi_of (f_kids f) (D_of st)) (node_known d f p st (bs_props P2)) nodes out.
Proof. exact known_property_whole_file. Qed.

Theorem C04_compression_and_rotation_independent :
  forall (d : db) (p : dec_params) (u1 u2 : bool) (order : list bs_okey)
         (cmps1 cmps2 : list compression) (f : bs_file) (st : dstate),
       dp_lim p = None ->
       bs_wf f = true ->
       gframes_rt p cmps1 (List.map (bs_enc_item rdA u1) (bs_items_of order f)) ->
       gframes_rt p cmps2 (List.map (bs_enc_item rdA u2) (bs_items_of order f)) ->
       run_items d p dstate0 (bs_items_of order f) = Some st ->
       decode_file d p
         (bs_enc_header (bs_header_of f) ++
          gframe_all cmps1 (List.map (bs_enc_item rdA u1) (bs_items_of order f))) =
       decode_file d p
         (bs_enc_header (bs_header_of f) ++
          gframe_all cmps2 (List.map (bs_enc_item rdA u2) (bs_items_of order f))).
Proof. exact compression_and_rotation_independent. Qed.

Theorem C04_ref_before_inst_order_refuted :
  bs_wf BinSpecReadExamples.f_ref = true /\
       bs_doc_wf BinSpecReadExamples.f_ref = true /\
       bspec_decode rdA
         (bspec_encode rdA
            {| ch_order := [OInst 0; OProp 0; OInst 1; OPrnt]; ch_comp := []; ch_rot_ids := true |}
            BinSpecReadExamples.f_ref) = Ok BinSpecReadExamples.f_ref /\
       BinSpecReadExamples.link_of
         (decode_file BinFileFacts.db0 BinSpecReadExamples.ex_p
            (bspec_encode rdA
               {| ch_order := [OInst 0; OProp 0; OInst 1; OPrnt]; ch_comp := []; ch_rot_ids := true |}
               BinSpecReadExamples.f_ref)) = Some (VRef 0) /\
       BinSpecReadExamples.link_of
         (decode_file BinFileFacts.db0 BinSpecReadExamples.ex_p
            (bspec_encode rdA
               {| ch_order := [OInst 0; OInst 1; OProp 0; OPrnt]; ch_comp := []; ch_rot_ids := true |}
               BinSpecReadExamples.f_ref)) = Some (VRef 2).
Proof. exact BinSpecReadExamples.ref_before_inst_order_refuted. Qed.

Theorem C04_sstr_after_prop_order_refuted :
  bs_wf BinSpecReadExamples.f_sstr = true /\
       bs_doc_wf BinSpecReadExamples.f_sstr = true /\
       bspec_decode rdA
         (bspec_encode rdA
            {| ch_order := [OInst 0; OProp 0; OSstr; OPrnt]; ch_comp := []; ch_rot_ids := true |}
            BinSpecReadExamples.f_sstr) = Ok BinSpecReadExamples.f_sstr /\
       decode_file BinFileFacts.db0 BinSpecReadExamples.ex_p
         (bspec_encode rdA
            {| ch_order := [OInst 0; OProp 0; OSstr; OPrnt]; ch_comp := []; ch_rot_ids := true |}
            BinSpecReadExamples.f_sstr) = Err E_INVALID_DATA /\
       scan BinFileFacts.db0 [] 0
         (flat_map (item_of_key BinSpecReadExamples.f_sstr) [OInst 0; OProp 0; OSstr; OPrnt]) = false /\
       scan BinFileFacts.db0 [] 0
         (flat_map (item_of_key BinSpecReadExamples.f_sstr) [OSstr; OInst 0; OProp 0; OPrnt]) = true.
Proof. exact BinSpecReadExamples.sstr_after_prop_order_refuted. Qed.

Theorem C04_prnt_before_inst_order_refuted :
  bs_wf BinSpecReadExamples.f_tree = true /\
       bs_doc_wf BinSpecReadExamples.f_tree = true /\
       bspec_decode rdA
         (bspec_encode rdA {| ch_order := [OInst 0; OPrnt; OInst 1]; ch_comp := []; ch_rot_ids := true |}
            BinSpecReadExamples.f_tree) = Ok BinSpecReadExamples.f_tree /\
       decode_file BinFileFacts.db0 BinSpecReadExamples.ex_p
         (bspec_encode rdA {| ch_order := [OInst 0; OPrnt; OInst 1]; ch_comp := []; ch_rot_ids := true |}
            BinSpecReadExamples.f_tree) = Err E_UNKNOWN_REFERENT /\
       inst_prnt_ok false (flat_map (item_of_key BinSpecReadExamples.f_tree) [OInst 0; OPrnt; OInst 1]) =
       false /\
       option_map (Datatypes.length (A:=inst))
         match
           decode_file BinFileFacts.db0 BinSpecReadExamples.ex_p
             (bspec_encode rdA {| ch_order := [OInst 1; OPrnt; OInst 0]; ch_comp := []; ch_rot_ids := true |}
                BinSpecReadExamples.f_tree)
         with
         | Ok o => Some o
         | _ => None
         end = Some 2%nat.
Proof. exact BinSpecReadExamples.prnt_before_inst_order_refuted. Qed.

Theorem C04_faces_high_bits_refuted :
  bs_col_ok (KFaces [64]) = true /\
       bs_col_values [] BinSpecReadExamples.lo0 (KFaces [64]) = Ok [VFaces 0] /\
       dec_col WFaces VT_Faces BinSpecReadExamples.ctx0 1 (bs_enc_col rdA true (KFaces [64])) =
       Err E_INVALID_DATA.
Proof. exact BinSpecReadExamples.faces_high_bits_refuted. Qed.

Theorem C04_brickcolor_not_in_palette_refuted :
  bs_col_ok (KBrickColor [4]) = true /\
       bs_col_values [] BinSpecReadExamples.lo0 (KBrickColor [4]) = Ok [VBrickColor 4] /\
       dec_col WBrickColor VT_BrickColor BinSpecReadExamples.ctx0 1 (bs_enc_col rdA true (KBrickColor [4])) =
       Err E_INVALID_DATA.
Proof. exact BinSpecReadExamples.brickcolor_not_in_palette_refuted. Qed.

Theorem C04_font_weight_misread_refuted :
  bs_col_ok (KFont [([], 450, 0, [])]) = true /\
       bs_col_values [] BinSpecReadExamples.lo0 (KFont [([], 450, 0, [])]) =
       Ok [VFont {| fo_family := []; fo_weight := 450; fo_style := 0; fo_cached := None |}] /\
       dec_col WFont VT_Font BinSpecReadExamples.ctx0 1 (bs_enc_col rdA true (KFont [([], 450, 0, [])])) =
       Ok ([VFont {| fo_family := []; fo_weight := 400; fo_style := 0; fo_cached := None |}], []).
Proof. exact BinSpecReadExamples.font_weight_misread_refuted. Qed.

Theorem C04_duplicate_prop_last_wins :
  bs_wf BinSpecReadExamples.f_dup = true /\
       option_map (List.map bn_props)
         match bspec_to_dom BinSpecReadExamples.f_dup with
         | Ok n => Some n
         | _ => None
         end = Some [[(BinSpecReadExamples.S "X", VInt32 1); (BinSpecReadExamples.S "X", VInt32 2)]] /\
       option_map (List.map i_props)
         match
           decode_file BinFileFacts.db0 BinSpecReadExamples.ex_p
             (bspec_encode rdA
                {|
                  ch_order := bs_canonical_order BinSpecReadExamples.f_dup; ch_comp := []; ch_rot_ids := true
                |} BinSpecReadExamples.f_dup)
         with
         | Ok o => Some o
         | _ => None
         end = Some [[(BinSpecReadExamples.S "X", VInt32 2)]].
Proof. exact BinSpecReadExamples.duplicate_prop_last_wins. Qed.

Theorem C04_prnt_cycle_dropped :
  bs_wf BinSpecReadExamples.f_cyc = true /\
       bs_doc_wf BinSpecReadExamples.f_cyc = true /\
       decode_file BinFileFacts.db0 BinSpecReadExamples.ex_p
         (bspec_encode rdA
            {| ch_order := bs_canonical_order BinSpecReadExamples.f_cyc; ch_comp := []; ch_rot_ids := true |}
            BinSpecReadExamples.f_cyc) = Ok [].
Proof. exact BinSpecReadExamples.prnt_cycle_dropped. Qed.

(* ---- round 4 (Proofs/BinSpecReadMig.v): MIGRATING property chunks and the whole table of keys.  The lift to whole files is re-proved without
   the `prop_nonmig` hypothesis (pstepM mirrors add_property).  fold_key_trace: the value under a key depends only on the chunks targeting it, in
   chunk order (a migration fires only when nothing is stored yet); mig_prop_in_fold: a legacy chunk alone stores the migrated value under the new
   name, nothing when the migration fails; explicit_wins_in_fold: a plain chunk of the new property wins over the legacy chunk in EITHER chunk order;
   every_key_distinct: the closed form of the whole table; mig_property_whole_file: all of it for decode_file on the document encoder's files.
   The legacy name is a key only if some chunk targets it: necessary for arbitrary databases (a chain of migrations; witness pinned). *)
From RbxVerif Require Import BinSpecReadMig.
Theorem C04_fold_key_trace :
  forall (d : db) (p : dec_params) (cl : bs_class) (k : nat) (sstr : list (bytes * bytes)) 
         (lo : Z -> N) (props : list bs_prop) (key : bytes),
       bfind key (collect_props (snd (fold_left (pstepM d p sstr lo cl k) props (cls_name cl, [])))) =
       lastv (fold_left (tstep d p cl k sstr lo key) (filter (tgt d cl key) props) []).
Proof. exact fold_key_trace. Qed.

Theorem C04_mig_prop_in_fold :
  forall (d : db) (p : dec_params) (cl : bs_class) (k : nat) (sstr : list (bytes * bytes)) 
         (lo : Z -> N) (props : list bs_prop) (pr : bs_prop) (col : bs_column) (ty : wire_type) 
         (nm : bytes) (cty : N) (nn : bytes) (op : migop) (vals : list value) (v : value),
       only_propM d cl props nn pr ->
       bp_body pr = BValues col ->
       wire_of_id (bs_col_type col) = Some ty ->
       find_canonical_property d ty (cls_name cl) (bp_name pr) = Ok (Some (nm, cty, Some (nn, op))) ->
       bs_col_values sstr lo col = Ok vals ->
       nth_error vals k = Some v ->
       let tbl := collect_props (snd (fold_left (pstepM d p sstr lo cl k) props (cls_name cl, []))) in
       bfind nn tbl = migrate (dp_font p) (dp_brick p) op (retype cty v) /\
       (filter (tgt d cl (bp_name pr)) props = [] -> bfind (bp_name pr) tbl = None).
Proof. exact mig_prop_in_fold. Qed.

Theorem C04_explicit_wins_in_fold :
  forall (d : db) (p : dec_params) (cl : bs_class) (k : nat) (sstr : list (bytes * bytes)) 
         (lo : Z -> N) (props : list bs_prop) (pe : bs_prop) (cole : bs_column) (tye : wire_type) 
         (ctye : N) (valse : list value) (ve : value) (pm : bs_prop) (colm : bs_column) 
         (tym : wire_type) (nmm : bytes) (ctym : N) (op : migop) (valsm : list value) 
         (vm : value) (nn : bytes),
       filter (tgt d cl nn) props = [pe; pm] \/ filter (tgt d cl nn) props = [pm; pe] ->
       bp_body pe = BValues cole ->
       wire_of_id (bs_col_type cole) = Some tye ->
       find_canonical_property d tye (cls_name cl) (bp_name pe) = Ok (Some (nn, ctye, None)) ->
       bs_col_values sstr lo cole = Ok valse ->
       nth_error valse k = Some ve ->
       bp_body pm = BValues colm ->
       wire_of_id (bs_col_type colm) = Some tym ->
       find_canonical_property d tym (cls_name cl) (bp_name pm) = Ok (Some (nmm, ctym, Some (nn, op))) ->
       bs_col_values sstr lo colm = Ok valsm ->
       nth_error valsm k = Some vm ->
       bfind nn (collect_props (snd (fold_left (pstepM d p sstr lo cl k) props (cls_name cl, [])))) =
       Some (retype ctye ve).
Proof. exact explicit_wins_in_fold. Qed.

Theorem C04_every_key_distinct :
  forall (d : db) (p : dec_params) (cl : bs_class) (k : nat) (sstr : list (bytes * bytes)) 
         (lo : Z -> N) (props : list bs_prop),
       (forall key : bytes, (Datatypes.length (filter (tgt d cl key) props) <= 1)%nat) ->
       forall key : bytes,
       bfind key (collect_props (snd (fold_left (pstepM d p sstr lo cl k) props (cls_name cl, [])))) =
       key_value d p cl k sstr lo props key.
Proof. exact every_key_distinct. Qed.

Theorem C04_mig_property_whole_file :
  forall (d : db) (p : dec_params) (u : bool) (order : list bs_okey) (cmps : list compression)
         (f : bs_file) (P1 P2 : list bs_item),
       dp_lim p = None ->
       file_dom_ok f = true ->
       gframes_rt p cmps (List.map (bs_enc_item rdA u) (bs_items_of order f)) ->
       flat_map (item_of_key f) order = P1 ++ P2 ->
       forallb (fun it : bs_item => negb (is_prop it)) P1 = true ->
       forallb (fun it : bs_item => negb (is_reg it)) P2 = true ->
       Permutation.Permutation (bs_insts P1) (bf_classes f) ->
       bs_prnts (P1 ++ P2) = [bf_prnt f] ->
       scan d [] 0 (P1 ++ P2) = true ->
       inst_prnt_ok false (P1 ++ P2) = true ->
       scan d (bs_insts P1) (sstr_total P1) P2 = true ->
       exists (st : dstate) (out : cdom) (nodes : list bs_node),
         decode_file d p
           (bs_enc_header (bs_header_of f) ++
            gframe_all cmps (List.map (bs_enc_item rdA u) (bs_items_of order f))) = 
         Ok out /\
         bspec_to_dom f = Ok nodes /\
         same_dom (phi_of (f_kids f) (D_of st)) (node_mig d f p st (bs_props P2)) nodes out.
Proof. exact mig_property_whole_file. Qed.

Theorem C04_BinSpecReadMigExamples_legacy_name_is_a_key_refuted :
  only_propM BinSpecReadMigExamples.db_chain BinSpecReadMigExamples.clP
         [BinSpecReadMigExamples.prOlder; BinSpecReadMigExamples.prOld] (BinSpecReadExamples.S "New")
         BinSpecReadMigExamples.prOld /\
       find_canonical_property BinSpecReadMigExamples.db_chain WBool (BinSpecReadExamples.S "Part")
         (BinSpecReadExamples.S "Old") =
       Ok (Some (BinSpecReadExamples.S "Old", VT_Bool, Some (BinSpecReadExamples.S "New", MigInset))) /\
       filter (tgt BinSpecReadMigExamples.db_chain BinSpecReadMigExamples.clP (BinSpecReadExamples.S "Old"))
         [BinSpecReadMigExamples.prOlder; BinSpecReadMigExamples.prOld] = [BinSpecReadMigExamples.prOlder] /\
       bfind (BinSpecReadExamples.S "Old")
         (collect_props
            (snd
               (fold_left
                  (pstepM BinSpecReadMigExamples.db_chain BinSpecReadMigExamples.mp [] 
                     (fun _ : Z => 0) BinSpecReadMigExamples.clP 0)
                  [BinSpecReadMigExamples.prOlder; BinSpecReadMigExamples.prOld]
                  (cls_name BinSpecReadMigExamples.clP, [])))) = Some (VEnum 1) /\
       BinSpecReadMigExamples.props_of
         (decode_file BinSpecReadMigExamples.db_chain BinSpecReadMigExamples.mp
            (bspec_encode rdA
               {| ch_order := BinSpecReadMigExamples.o_lc; ch_comp := []; ch_rot_ids := true |}
               BinSpecReadMigExamples.f_chain)) =
       Some
         [[(BinSpecReadExamples.S "New", VEnum 2); (BinSpecReadExamples.S "Old", VEnum 1)];
          [(BinSpecReadExamples.S "New", VEnum 2); (BinSpecReadExamples.S "Old", VEnum 1)]].
Proof. exact BinSpecReadMigExamples.legacy_name_is_a_key_refuted. Qed.

Theorem C04_BinSpecReadMigExamples_mig_computed :
  BinSpecReadMigExamples.props_of
         (decode_file BinSpecReadMigExamples.mdb BinSpecReadMigExamples.mp
            (bspec_encode rdA
               {| ch_order := BinSpecReadMigExamples.o_leg; ch_comp := []; ch_rot_ids := true |}
               BinSpecReadMigExamples.f_leg)) =
       Some [[(BinSpecReadExamples.S "Color", VColor3uint8 163 162 165)]; []] /\
       BinSpecReadMigExamples.props_of
         (decode_file BinSpecReadMigExamples.mdb BinSpecReadMigExamples.mp
            (bspec_encode rdA
               {| ch_order := BinSpecReadMigExamples.o_lc; ch_comp := []; ch_rot_ids := true |}
               BinSpecReadMigExamples.f_two)) =
       Some
         [[(BinSpecReadExamples.S "Color", VColor3uint8 10 20 30)];
          [(BinSpecReadExamples.S "Color", VColor3uint8 40 50 60)]] /\
       BinSpecReadMigExamples.props_of
         (decode_file BinSpecReadMigExamples.mdb BinSpecReadMigExamples.mp
            (bspec_encode rdA
               {| ch_order := BinSpecReadMigExamples.o_cl; ch_comp := []; ch_rot_ids := true |}
               BinSpecReadMigExamples.f_two)) =
       Some
         [[(BinSpecReadExamples.S "Color", VColor3uint8 10 20 30)];
          [(BinSpecReadExamples.S "Color", VColor3uint8 40 50 60)]].
Proof. exact BinSpecReadMigExamples.mig_computed. Qed.

