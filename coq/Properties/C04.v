(* Property C04 — the binary reader accepts any spec-conformant file (statements only).
   The independent encoder is BinSpec.bspec_encode (written from docs/binary.md); the freedoms the document leaves are the
   parameters [bs_choices] (chunk order, per-chunk compression, rotation ids) and the logical file itself (class ids, referents,
   PRNT row order, META / unknown chunks, object format, the wire type of a column, PROP chunks ending after the name or with an
   undefined type id, meaningless bits).  What is proved here is that this encoder produces files the *document* decoder reads
   back as the same logical file, under every reading of the document: the generator of conformant files used by the `binspec`
   correspondence is itself conformant.  That the real reader decodes these files to the DOM [bspec_to_dom] describes is the
   correspondence (harness/src/binspec.rs, oracle lines `C04 <key>`). *)
From Coq Require Import List NArith ZArith.
From RbxVerif Require Import Base Bytes Value Lz4 BinSpec Lz4Facts BinSpecFacts.
Import ListNotations.
Open Scope N_scope.

Theorem C04_encoder_conformant : forall rd comp use_ids f,
  bs_wf f = true ->
  bs_sizes_ok rd (mkChoices (bs_canonical_order f) comp use_ids) f = true ->
  bspec_decode rd (bspec_encode rd (mkChoices (bs_canonical_order f) comp use_ids) f) = Ok f.
Proof. exact bspec_roundtrip. Qed.

(* any chunk order that puts each INST before the PROPs of its class, with any interleaving of META / SSTR / PRNT / unknown
   chunks: the chunk list is read back chunk by chunk (a truncated PROP and a PROP with an undefined type id included) *)
Theorem C04_any_chunk_order : forall rd use_ids items seen,
  items_ok seen items = true ->
  bs_parse_items rd seen (List.map (bs_enc_item rd use_ids) items) = Ok items.
Proof. exact bs_items_roundtrip. Qed.

(* a single chunk, e.g. a PROP that ends right after its name or carries a type id the document does not define, is read back
   as itself and affects nothing else *)
Theorem C04_single_chunk : forall rd use_ids seen it,
  item_ok seen it = true ->
  bs_parse_item rd seen (fst (bs_enc_item rd use_ids it)) (snd (bs_enc_item rd use_ids it)) = Ok it.
Proof. exact bs_item_roundtrip. Qed.

(* LZ4 chunks this encoder emits are valid blocks: the document-side decoder inflates them to the payload *)
Theorem C04_lz4_literal_blocks : forall x, lz4_inflate (literal_only_block x) (N.of_nat (length x)) = Ok x.
Proof. exact lz4_inflate_literal_only. Qed.

(* ==== on the model of the REAL reader (BinFile.decode_prop; Proofs/BinChunkFacts.v, BinValuesFacts*.v): a PROP chunk that ends after
   its name, or carries an unknown value-type id, leaves the decoder state unchanged — whatever follows; narrower numeric columns
   are widened exactly *)
From RbxVerif Require Import Utf8 Db CodecDom BinValues BinFile BinFileFacts BinValuesFacts BinValuesFacts2 BinChunkFacts.

Theorem C04_decode_prop_skip_truncated :
  forall (d : db) (p : dec_params) (st : dstate) (type_id : N) (pname : list N) (ti : dtinfo),
       type_id < 2 ^ 32 ->
       N.of_nat (Datatypes.length pname) < 2 ^ 32 ->
       alloc_ok (dp_lim p) (N.of_nat (Datatypes.length pname)) = true ->
       utf8_valid pname = true ->
       lookup type_id (ds_types st) = Some ti -> decode_prop d p st (w_le32 type_id ++ w_bstr pname) = Ok st.
Proof. exact decode_prop_skip_truncated. Qed.

Theorem C04_decode_prop_skip_truncated_gen :
  forall (d : db) (p : dec_params) (st : dstate) (chunk : bytes) (type_id : N) 
         (pname : bytes) (ti : dtinfo),
       prop_header (dp_lim p) chunk = Ok (type_id, pname, []) ->
       lookup type_id (ds_types st) = Some ti -> decode_prop d p st chunk = Ok st.
Proof. exact decode_prop_skip_truncated_gen. Qed.

Theorem C04_decode_prop_skip_unknown_type :
  forall (d : db) (p : dec_params) (st : dstate) (type_id : N) (pname : list N) 
         (ti : dtinfo) (byte : N) (tail : list N),
       type_id < 2 ^ 32 ->
       N.of_nat (Datatypes.length pname) < 2 ^ 32 ->
       alloc_ok (dp_lim p) (N.of_nat (Datatypes.length pname)) = true ->
       utf8_valid pname = true ->
       lookup type_id (ds_types st) = Some ti ->
       wire_of_id byte = None ->
       decode_prop d p st (w_le32 type_id ++ w_bstr pname ++ w_u8 byte ++ tail) = Ok st.
Proof. exact decode_prop_skip_unknown_type. Qed.

Theorem C04_decode_prop_skip_unknown_type_gen :
  forall (d : db) (p : dec_params) (st : dstate) (chunk : bytes) (type_id : N) 
         (pname : bytes) (ti : dtinfo) (byte : N) (tail : list N),
       prop_header (dp_lim p) chunk = Ok (type_id, pname, byte :: tail) ->
       lookup type_id (ds_types st) = Some ti -> wire_of_id byte = None -> decode_prop d p st chunk = Ok st.
Proof. exact decode_prop_skip_unknown_type_gen. Qed.

Theorem C04_decode_prop_unknown_type_id :
  forall (d : db) (p : dec_params) (st : dstate) (chunk : bytes) (type_id : N) (pname chunk1 : bytes),
       prop_header (dp_lim p) chunk = Ok (type_id, pname, chunk1) ->
       lookup type_id (ds_types st) = None -> decode_prop d p st chunk = Err E_TYPE_ID.
Proof. exact decode_prop_unknown_type_id. Qed.

Theorem C04_col_widen_int32_int64 :
  forall (c : enc_ctx) (dc : dec_ctx) (zs : list Z) (rest : list N),
       Forall (fun z : Z => in_i32 z = true) zs ->
       exists b : bytes,
         enc_col WInt32 c (List.map VInt32 zs) = Ok b /\
         dec_col WInt32 VT_Int64 dc (Datatypes.length zs) (b ++ rest) = Ok (List.map VInt64 zs, rest).
Proof. exact col_widen_int32_int64. Qed.

Theorem C04_col_widen_float32_float64 :
  forall (c : enc_ctx) (dc : dec_ctx) (xs : list f32) (rest : list N),
       Forall (fun x : f32 => f32_ok x = true) xs ->
       exists b : bytes,
         enc_col WFloat32 c (List.map VFloat32 xs) = Ok b /\
         dec_col WFloat32 VT_Float64 dc (Datatypes.length xs) (b ++ rest) =
         Ok (List.map (fun x : f32 => VFloat64 (f64_of_f32 x)) xs, rest).
Proof. exact col_widen_float32_float64. Qed.

Theorem C04_col_widen_float32_in_float64_column :
  forall (c : enc_ctx) (dc : dec_ctx) (xs : list f32) (rest : list N),
       Forall (fun x : f32 => f32_ok x = true) xs ->
       exists b : bytes,
         enc_col WFloat64 c (List.map VFloat32 xs) = Ok b /\
         dec_col WFloat64 VT_Float64 dc (Datatypes.length xs) (b ++ rest) =
         Ok (List.map (fun x : f32 => VFloat64 (f64_of_f32 x)) xs, rest).
Proof. exact col_widen_float32_in_float64_column. Qed.


(* ==== on the model of the REAL reader (Proofs/BinFinish.v): the order of the rows of the PRNT chunk is free — two row lists that
   describe the same forest (same per-parent subsequences) decode to the same DOM *)
From RbxVerif Require Import BinFinish.
Open Scope N_scope.

Theorem C04_prnt_then_finish :
  forall (p : dec_params) (sstr : list bytes) (types : list (N * dtinfo)) (insts0 : list (Z * dinst))
         (next : N) (pairs : list (Z * Z)) (F : list ztree),
       let D := dinst_of insts0 in
       (forall c par : Z, In (c, par) pairs -> par = (-1)%Z \/ zfind par insts0 <> None) ->
       (forall k : Z,
        In k (zfrefs F) -> exists i : dinst, zfind k insts0 = Some i /\ di_children i = [] /\ di_label i <> 0) ->
       NoDup (List.map (lab D) (zfrefs F)) ->
       rows_describe pairs F ->
       exists insts' : list (Z * dinst),
         prnt_links insts0 [] pairs = Ok (insts', List.map zroot F) /\
         (exists out : cdom,
            finish p
              {|
                ds_sstr := sstr;
                ds_types := types;
                ds_insts := insts';
                ds_roots := List.map zroot F;
                ds_next := next
              |} = Ok out /\ reconstructs D p F out).
Proof. exact prnt_then_finish. Qed.

Theorem C04_prnt_row_order_free :
  forall (p : dec_params) (sstr : list bytes) (types : list (N * dtinfo)) (insts0 : list (Z * dinst))
         (next : N) (pairs1 pairs2 : list (Z * Z)) (F : list ztree),
       let D := dinst_of insts0 in
       (forall c par : Z, In (c, par) pairs1 -> par = (-1)%Z \/ zfind par insts0 <> None) ->
       (forall c par : Z, In (c, par) pairs2 -> par = (-1)%Z \/ zfind par insts0 <> None) ->
       (forall k : Z,
        In k (zfrefs F) -> exists i : dinst, zfind k insts0 = Some i /\ di_children i = [] /\ di_label i <> 0) ->
       NoDup (List.map (lab D) (zfrefs F)) ->
       rows_describe pairs1 F ->
       rows_describe pairs2 F ->
       exists (insts1 insts2 : list (Z * dinst)) (roots : list Z) (out : cdom),
         prnt_links insts0 [] pairs1 = Ok (insts1, roots) /\
         prnt_links insts0 [] pairs2 = Ok (insts2, roots) /\
         finish p
           {| ds_sstr := sstr; ds_types := types; ds_insts := insts1; ds_roots := roots; ds_next := next |} =
         Ok out /\
         finish p
           {| ds_sstr := sstr; ds_types := types; ds_insts := insts2; ds_roots := roots; ds_next := next |} =
         Ok out.
Proof. exact prnt_row_order_free. Qed.

