(* Property C03 — every binary file written is well-formed and means what the spec says (statements only).
   The independent document codec is Spec/BinSpec.v (written from docs/binary.md) with the LZ4 block decoder Spec/Lz4.v; the
   proofs are in Proofs/BinSpecFacts.v and Proofs/Lz4Facts.v.  Names: logical_file = bs_file, spec_decode = bspec_decode
   (bspec_decode_gen with a Zstandard inflater), spec_decode_chunks = bspec_decode_chunks, spec_to_dom = bspec_to_dom,
   spec_encode = bspec_encode, choices = bs_choices; every statement holds for every reading [rd] of the document (the literal
   one and the amended ones).
   What these theorems carry: the document codec is a codec (it round-trips with itself for all files and choices), its LZ4
   decoder terminates without panic on every input, and the structural clauses that hold *by construction* for every file it
   accepts.  That the implementation's files are accepted and mean the source DOM is the `binspec` correspondence
   (harness/src/binspec.rs), where the remaining clauses (PRNT lists every instance once, children before parents; SSTR entries
   distinct; class names distinct) are evaluated per file by the extracted boolean functions of BinSpec.v. *)
From Coq Require Import List NArith ZArith.
From RbxVerif Require Import Base Bytes Value Lz4 BinSpec Lz4Facts BinSpecFacts.
Import ListNotations.
Open Scope N_scope.

(* the document codec round-trips with itself: every well-formed logical file, written in the order of the document's "File
   Structure" with any per-chunk choice of {uncompressed, LZ4 literal block} and either CFrame rotation choice, whose chunk
   payloads stay below 2^32 bytes, is decoded to exactly the same logical file (normalise = identity for this order) *)
Theorem C03_spec_roundtrip : forall rd comp use_ids f,
  bs_wf f = true ->
  bs_sizes_ok rd (mkChoices (bs_canonical_order f) comp use_ids) f = true ->
  bspec_decode rd (bspec_encode rd (mkChoices (bs_canonical_order f) comp use_ids) f) = Ok f.
Proof. exact bspec_roundtrip. Qed.

(* per value type: the Values field of a PROP chunk of any of the 31 documented types is read back exactly, and exactly its
   bytes are consumed *)
Theorem C03_column_roundtrip : forall rd use_ids c rest,
  bs_col_ok c = true ->
  bs_dec_col rd (bs_col_type c) (bs_col_len c) (bs_enc_col rd use_ids c ++ rest) = Ok (c, rest).
Proof. exact bs_col_roundtrip. Qed.

(* per chunk list: any sequence of chunks in which every PROP follows the INST of its class *)
Theorem C03_chunks_roundtrip : forall rd use_ids items seen,
  items_ok seen items = true ->
  bs_parse_items rd seen (List.map (bs_enc_item rd use_ids) items) = Ok items.
Proof. exact bs_items_roundtrip. Qed.

(* structural clauses by construction: for every chunk list the document decoder accepts, the header counts match the body,
   class ids are unique (one INST chunk per class id), there is exactly one PRNT and at most one META / SSTR, END is the last
   chunk and only the last *)
Theorem C03_header_counts_classes_end : forall rd hdr chunks f,
  bspec_decode_chunks rd hdr chunks = Ok f ->
  exists items, bs_parse_items rd [] chunks = Ok items /\
    end_last items = true /\ cl_header_counts hdr items = true /\ cl_unique_class_ids items = true /\
    bs_prnts items = [bf_prnt f] /\ (length (bs_metas items) <= 1)%nat /\ (length (bs_sstrs items) <= 1)%nat /\
    bf_classes f = bs_insts items /\ bf_props f = bs_props items.
Proof. exact decode_chunks_clauses. Qed.

(* every PROP chunk carries exactly one value per instance of its class (the class declared by a preceding INST chunk) *)
Theorem C03_prop_one_value_per_instance : forall rd hdr chunks f,
  bspec_decode_chunks rd hdr chunks = Ok f ->
  exists items, bs_parse_items rd [] chunks = Ok items /\ cl_prop_lengths items = true.
Proof. exact decode_chunks_prop_lengths. Qed.

(* for every file the document decoder accepts: the chunk length fields match the (de)compressed payloads and the file ends with
   the uncompressed END chunk holding `</roblox>` *)
Theorem C03_chunk_lengths_and_end : forall rd zstd b f,
  bspec_decode_gen rd zstd b = Ok f ->
  exists hdr rest raws, p_header b = Ok (hdr, rest) /\ bs_deframe rest = Ok raws /\
    cl_chunk_lengths zstd raws = true /\ cl_ends_with_end raws = true.
Proof. exact decode_gen_framing. Qed.

(* the LZ4 block decoder: fuel = length + 1 suffices on every input and no input makes it panic *)
Theorem C03_lz4_total : forall b, lz4_decode b <> OutOfFuel /\ lz4_decode b <> Panic.
Proof. exact lz4_decode_total. Qed.

(* and it inflates the literal-only block of any data to the data *)
Theorem C03_lz4_literal_only : forall x, lz4_decode (literal_only_block x) = Ok x.
Proof. exact lz4_literal_only. Qed.

(* ==== the structural clauses proved about the MODEL OF THE REAL SERIALIZER (BinFile.encode_chunks, tied to rbx_binary by the
   byte-exact binfile correspondence), for every DOM and every non-overlapping root selection (Proofs/BinStructure.v):
   class table and type ids, every written instance in exactly one INST chunk once, PRNT in post-order with children before
   parents, chunk list shape, header counts, one value per instance per PROP chunk, PRNT/INST payloads parsed back by the
   reader model, SSTR duplicate free and complete.  overlapping_roots_duplicate: the non-overlap hypothesis is necessary. *)
From RbxVerif Require Import Db CodecDom BinValues BinFile BinFileFacts BinPostorder BinStructure.

Theorem C03_enc_class_ids :
  forall (d : db) (p : enc_params) (dom : cdom) (roots : list N) (st : ser_state),
       add_instances d p dom roots = Ok st ->
       Sorted.StronglySorted blt (List.map fst (ss_types st)) /\
       NoDup (List.map fst (ss_types st)) /\
       Permutation.Permutation (type_ids (ss_types st)) (nseq (ss_next_id st)) /\
       NoDup (type_ids (ss_types st)) /\
       ss_next_id st = N.of_nat (Datatypes.length (ss_types st)) /\
       (forall (c : bytes) (ti : type_info),
        In (c, ti) (ss_types st) ->
        ti_instances ti = filter (of_class dom c) (ss_relevant st) /\
        ti_instances ti <> [] /\ ti_id ti < ss_next_id st) /\
       (forall r : N, In r (ss_relevant st) -> exists ti : type_info, In (class_of dom r, ti) (ss_types st)) /\
       Permutation.Permutation (flat_map (fun ct : bytes * type_info => ti_instances (snd ct)) (ss_types st))
         (ss_relevant st).
Proof. exact enc_class_ids. Qed.

Theorem C03_enc_class_membership :
  forall (d : db) (p : enc_params) (dom : cdom) (ts : list tree) (st : ser_state),
       Forall (agrees (children_of dom)) ts ->
       NoDup (flat_map refs ts) ->
       add_instances d p dom (List.map root ts) = Ok st ->
       ss_relevant st = flat_map post ts /\
       NoDup (flat_map (fun ct : bytes * type_info => ti_instances (snd ct)) (ss_types st)) /\
       (forall r : N,
        In r (flat_map post ts) ->
        exists (i : inst) (ti : type_info),
          find_inst dom r = Some i /\
          In (i_class i, ti) (ss_types st) /\
          count_occ N.eq_dec (ti_instances ti) r = 1%nat /\
          (forall (c' : bytes) (ti' : type_info),
           In (c', ti') (ss_types st) -> In r (ti_instances ti') -> c' = i_class i /\ ti' = ti)).
Proof. exact enc_class_membership. Qed.

Theorem C03_enc_inst_type_ids :
  forall (d : db) (p : enc_params) (dom : cdom) (roots : list N) (e : encoded),
       encode_chunks d p dom roots = Ok e ->
       exists (st : ser_state) (insts : list (bytes * bytes)),
         add_instances d p dom roots = Ok st /\
         filter (fun ch : bytes * bytes => bytes_eqb (fst ch) CH_INST) (en_chunks e) = insts /\
         Forall2 (inst_chunk_of (enc_refs st)) (ss_types st) insts /\
         List.map (fun ch : bytes * list N => firstn 4 (snd ch)) insts =
         List.map (fun ct : bytes * type_info => w_le32 (ti_id (snd ct))) (ss_types st) /\
         NoDup (List.map (fun ch : bytes * list N => firstn 4 (snd ch)) insts).
Proof. exact enc_inst_type_ids. Qed.

Theorem C03_enc_prnt :
  forall (d : db) (p : enc_params) (dom : cdom) (ts : list tree) (e : encoded),
       Forall (agrees (children_of dom)) ts ->
       NoDup (flat_map refs ts) ->
       encode_chunks d p dom (List.map root ts) = Ok e ->
       let rel := flat_map post ts in
       let parents := prnt_parents dom rel in
       exists front : list (bytes * bytes),
         en_chunks e =
         front ++ [(CH_PRNT, prnt_payload (N.of_nat (Datatypes.length rel)) (prnt_objs rel) parents)] /\
         NoDup rel /\
         Datatypes.length parents = Datatypes.length rel /\
         (Z.of_nat (Datatypes.length rel) <= 2147483647)%Z /\
         (forall (k : nat) (r : N),
          nth_error rel k = Some r ->
          exists i : inst,
            find_inst dom r = Some i /\
            i_ref i = r /\
            (forall j : nat,
             i_parent i <> 0 ->
             nth_error rel j = Some (i_parent i) -> nth_error parents k = Some (Z.of_nat j) /\ (k < j)%nat) /\
            (i_parent i = 0 \/ ~ In (i_parent i) rel -> nth_error parents k = Some (-1)%Z) /\
            (In r (List.map root ts) -> nth_error parents k = Some (-1)%Z)).
Proof. exact enc_prnt. Qed.

Theorem C03_enc_shape :
  forall (d : db) (p : enc_params) (dom : cdom) (roots : list N) (e : encoded),
       encode_chunks d p dom roots = Ok e ->
       exists (st : ser_state) (insts props : list (bytes * bytes)) (objs parents : list Z),
         add_instances d p dom roots = Ok st /\
         en_chunks e =
         sstr_chunks st ++
         insts ++ props ++ [(CH_PRNT, prnt_payload (N.of_nat (Datatypes.length objs)) objs parents)] /\
         (ss_sstr st = [] /\ sstr_chunks st = [] \/
          ss_sstr st <> [] /\ sstr_chunks st = [(CH_SSTR, sstr_payload (ss_sstr st))]) /\
         Forall2 (inst_chunk_of (enc_refs st)) (ss_types st) insts /\
         Forall (fun ch : bytes * bytes => fst ch = CH_INST) insts /\
         Datatypes.length insts = Datatypes.length (ss_types st) /\
         Forall (fun ch : bytes * bytes => fst ch = CH_PROP) props /\
         Datatypes.length objs = Datatypes.length (ss_relevant st) /\
         Datatypes.length parents = Datatypes.length (ss_relevant st) /\ Forall chunk_name_ok (en_chunks e).
Proof. exact enc_shape. Qed.

Theorem C03_enc_header :
  forall (d : db) (p : enc_params) (dom : cdom) (roots : list N) (e : encoded),
       encode_chunks d p dom roots = Ok e ->
       exists (front : list (bytes * bytes)) (objs parents : list Z),
         en_chunks e = front ++ [(CH_PRNT, prnt_payload (N.of_nat (Datatypes.length objs)) objs parents)] /\
         Datatypes.length parents = Datatypes.length objs /\
         count_chunks CH_PRNT front = 0%nat /\
         (let n_inst := N.of_nat (count_chunks CH_INST (en_chunks e)) in
          let n_obj := N.of_nat (Datatypes.length objs) in
          en_header e =
          FILE_MAGIC_HEADER ++
          FILE_SIGNATURE ++ w_le16 0 ++ w_le32 n_inst ++ w_le32 n_obj ++ [0; 0; 0; 0; 0; 0; 0; 0] /\
          n_inst <= n_obj /\
          n_obj < 2 ^ 31 /\
          (forall rest : list N, decode_header None (en_header e ++ rest) = Ok (n_inst, n_obj, rest))).
Proof. exact enc_header. Qed.

Theorem C03_enc_prop_values :
  forall (d : db) (p : enc_params) (dom : cdom) (roots : list N) (e : encoded),
       encode_chunks d p dom roots = Ok e ->
       exists (st : ser_state) (propss : list (list (bytes * bytes))),
         add_instances d p dom roots = Ok st /\
         filter (fun ch : bytes * bytes => bytes_eqb (fst ch) CH_PROP) (en_chunks e) = concat propss /\
         Forall2
           (fun (ct : bytes * type_info) (chs : list (bytes * bytes)) =>
            Forall2 (prop_chunk_of p dom (enc_ctx_of p st) (snd ct)) (ti_props (snd ct)) chs) 
           (ss_types st) propss.
Proof. exact enc_prop_values. Qed.

Theorem C03_enc_prnt_decodes :
  forall (d : db) (p : enc_params) (dom : cdom) (ts : list tree) (e : encoded),
       Forall (agrees (children_of dom)) ts ->
       NoDup (flat_map refs ts) ->
       encode_chunks d p dom (List.map root ts) = Ok e ->
       let rel := flat_map post ts in
       exists front : list (bytes * bytes),
         en_chunks e =
         front ++
         [(CH_PRNT, prnt_payload (N.of_nat (Datatypes.length rel)) (prnt_objs rel) (prnt_parents dom rel))] /\
         (forall (lim : option N) (ds : dstate),
          lim_ok lim (4 * N.of_nat (Datatypes.length rel)) ->
          decode_prnt lim ds
            (prnt_payload (N.of_nat (Datatypes.length rel)) (prnt_objs rel) (prnt_parents dom rel)) =
          ' r2 <- prnt_links (ds_insts ds) (ds_roots ds) (zip (prnt_objs rel) (prnt_parents dom rel));;
          Ok
            {|
              ds_sstr := ds_sstr ds;
              ds_types := ds_types ds;
              ds_insts := fst r2;
              ds_roots := snd r2;
              ds_next := ds_next ds
            |}).
Proof. exact enc_prnt_decodes. Qed.

Theorem C03_enc_inst_decodes :
  forall (d : db) (p : enc_params) (dom : list inst) (roots : list N) (e : encoded),
       Forall
         (fun i : inst => utf8_valid (i_class i) = true /\ N.of_nat (Datatypes.length (i_class i)) < 2 ^ 32)
         dom ->
       encode_chunks d p dom roots = Ok e ->
       exists (st : ser_state) (insts : list (bytes * bytes)),
         add_instances d p dom roots = Ok st /\
         filter (fun ch : bytes * bytes => bytes_eqb (fst ch) CH_INST) (en_chunks e) = insts /\
         Forall2
           (fun (ct : bytes * type_info) (ch : bytes * bytes) =>
            exists ids : list Z,
              ch = (CH_INST, inst_payload (fst ct) (snd ct) ids) /\
              Forall2 (fun (r : N) (z : Z) => lookup r (enc_refs st) = Some z) (ti_instances (snd ct)) ids /\
              (forall (lim : option N) (ds : dstate),
               lim_ok lim (N.of_nat (Datatypes.length (fst ct))) ->
               lim_ok lim (4 * N.of_nat (Datatypes.length ids)) ->
               decode_inst lim ds (snd ch) =
               Ok
                 (let r := register_insts (fst ct) ids (ds_insts ds, ds_next ds) in
                  {|
                    ds_sstr := ds_sstr ds;
                    ds_types :=
                      upd (ti_id (snd ct)) {| dt_name := fst ct; dt_referents := ids |} (ds_types ds);
                    ds_insts := fst r;
                    ds_roots := ds_roots ds;
                    ds_next := ds_next ds + N.of_nat (Datatypes.length ids)
                  |}, if ti_service (snd ct) then List.map (fun _ : N => 1) (ti_instances (snd ct)) else [])))
           (ss_types st) insts.
Proof. exact enc_inst_decodes. Qed.

Theorem C03_enc_sstr :
  forall (d : db) (p : enc_params) (dom : cdom) (roots : list N) (e : encoded),
       encode_chunks d p dom roots = Ok e ->
       exists st : ser_state,
         add_instances d p dom roots = Ok st /\
         NoDup (ss_sstr st) /\
         filter (fun ch : bytes * bytes => bytes_eqb (fst ch) CH_SSTR) (en_chunks e) =
         match ss_sstr st with
         | [] => []
         | b :: l0 => [(CH_SSTR, sstr_payload (b :: l0))]
         end /\
         (forall (r : N) (i : inst) (name s : bytes),
          In r (ss_relevant st) ->
          find_inst dom r = Some i -> In (name, VSharedString s) (i_props i) -> In s (ss_sstr st)).
Proof. exact enc_sstr. Qed.

Theorem C03_overlapping_roots_duplicate :
  exists (st : ser_state) (e : encoded),
         add_instances db0 ep0 sample_dom [1; 2] = Ok st /\
         encode_chunks db0 ep0 sample_dom [1; 2] = Ok e /\
         ss_relevant st = [2; 3; 1; 2] /\
         List.map (fun ct : bytes * type_info => ti_instances (snd ct)) (ss_types st) = [[2; 1; 2]; [3]] /\
         en_header e =
         FILE_MAGIC_HEADER ++ FILE_SIGNATURE ++ w_le16 0 ++ w_le32 2 ++ w_le32 4 ++ [0; 0; 0; 0; 0; 0; 0; 0] /\
         last (en_chunks e) ([], []) = (CH_PRNT, prnt_payload 4 [3%Z; 1%Z; 2%Z; 3%Z] [2%Z; 2%Z; (-1)%Z; 2%Z]).
Proof. exact overlapping_roots_duplicate. Qed.


(* ==== the magic numbers, footer and chunk names of the serializer/reader models are the ones regenerated from the source
   (Gen/SourceTables.v <- core.rs, chunk.rs, serializer/state.rs, deserializer/mod.rs) *)
From RbxVerif Require Import SourceTablesFacts.
From RbxVerif Require SourceTables.
Theorem C03_bin_constants_match_source :
  BinFile.FILE_MAGIC_HEADER = SourceTables.src_FILE_MAGIC_HEADER /\
  BinFile.FILE_SIGNATURE = SourceTables.src_FILE_SIGNATURE /\
  BinFile.FILE_FOOTER = SourceTables.src_FILE_FOOTER /\
  SourceTables.src_FILE_VERSION = 0 /\
  SourceTables.src_chunk_names_writer = [BinFile.CH_SSTR; BinFile.CH_INST; BinFile.CH_PROP; BinFile.CH_PRNT; BinFile.CH_END] /\
  SourceTables.src_chunk_names_reader = [BinFile.CH_META; BinFile.CH_SSTR; BinFile.CH_INST; BinFile.CH_PROP; BinFile.CH_PRNT; BinFile.CH_END].
Proof. exact bin_constants_match_source. Qed.
Theorem C03_rotation_table_matches_source : resolve_rotations = Some Rotation.rotation_table.
Proof. exact rotation_table_matches_source. Qed.

(* ==== THE DOCUMENT DECODER ACCEPTS EVERY FILE THE SERIALIZER MODEL WRITES AND RECOVERS THE DOM (Proofs/BinSpecAgree.v), for arbitrary DOMs.
   Method: the serializer model's bytes ARE the document encoder's bytes for a spec-side description (spec_file) of the serializer state, under the
   amended reading of docs/binary.md; acceptance then follows from the document codec's own round trip.
     columns  for 30 of the 31 wire types the column the model writes is read by bs_dec_col to the column describing the values, consuming exactly
              those bytes (all but SharedString / UniqueId / Content under ANY reading of the document, the literal one included);
     chunks   INST, PROP, PRNT, SSTR, END and the whole chunk list = bspec_encode_chunks of spec_file;
     file     bspec_decode (encode_file ..) = Ok spec_file for no compression, for LZ4/Zstd under decompress(compress x) = x, and for LZ4 literal
              blocks with no inflater hypothesis at all;
     DOM      bspec_to_dom spec_file = one node per written instance in PRNT order with the instance's class, name, parent label, child lists in
              sibling order, and per property the document's reading of the written value: exact for 24 types, up to the reader's normal form for
              CFrame rotations and Font, up to wire type for blobs in String columns, referents relabelled.
   Found false (document or serializer defects, recorded as doc-* findings): type 0x21 is written but undocumented (the property is lost to a
   decoder written from the document); the literal reading fails on UniqueId, SharedString indices and Content source types; the SSTR hash field is
   sixteen zero bytes.  Range hypotheses (values are real Rust values) are model artefacts, shown necessary. *)
From RbxVerif Require Import Db CodecDom BinValues BinFile BinPostorder BinStructure BinSpecAgree.
From RbxVerif Require BinRoundTrip.

Theorem C03_enc_col_spec :
  forall (ty : wire_type) (c : enc_ctx) (vs : list value) (b : bytes),
       enc_col ty c vs = Ok b ->
       ty <> WSecurityCapabilities ->
       exists col : bs_column,
         spec_col ty c vs = Some col /\ (bs_col_ok col = true -> b = bs_enc_col rdA true col).
Proof. exact enc_col_spec. Qed.

Theorem C03_spec_reads_model_column :
  forall (ty : wire_type) (c : enc_ctx) (vs : list value) (b : bytes) (col : bs_column) (rest : list N),
       enc_col ty c vs = Ok b ->
       spec_col ty c vs = Some col ->
       bs_col_ok col = true -> bs_dec_col rdA (wire_id ty) (Datatypes.length vs) (b ++ rest) = Ok (col, rest).
Proof. exact spec_reads_model_column. Qed.

Theorem C03_spec_reads_model_column_total :
  forall (ty : wire_type) (c : enc_ctx) (vs : list value) (col : bs_column),
       spec_col ty c vs = Some col ->
       bs_col_ok col = true ->
       exists b : bytes,
         enc_col ty c vs = Ok b /\
         (forall rest : list N,
          bs_dec_col rdA (wire_id ty) (Datatypes.length vs) (b ++ rest) = Ok (col, rest)).
Proof. exact spec_reads_model_column_total. Qed.

Theorem C03_spec_reads_model_column_any_reading :
  forall (rd : bs_reading) (ty : wire_type) (c : enc_ctx) (vs : list value) 
         (b : bytes) (col : bs_column) (rest : list N),
       enc_col ty c vs = Ok b ->
       spec_col ty c vs = Some col ->
       bs_col_ok col = true ->
       ty <> WSharedString ->
       ty <> WUniqueId ->
       ty <> WContent -> bs_dec_col rd (wire_id ty) (Datatypes.length vs) (b ++ rest) = Ok (col, rest).
Proof. exact spec_reads_model_column_any_reading. Qed.

Theorem C03_spec_reads_model_chunks :
  forall (d : db) (ep : enc_params) (dom : cdom) (roots : list N) (e : encoded) (st : ser_state),
       encode_chunks d ep dom roots = Ok e ->
       add_instances d ep dom roots = Ok st ->
       bs_wf (spec_file ep dom st) = true ->
       bs_parse_items rdA [] (en_chunks e ++ [(CH_END, FILE_FOOTER)]) =
       Ok
         (BinSpecFacts.sstr_items (spec_file ep dom st) ++
          List.map IInst (List.map (spec_class st) (ss_types st)) ++
          List.map IProp (List.map (spec_prop ep dom st) (BinRoundTrip.cols (ss_types st))) ++
          [IPrnt (spec_prnt dom st); IEnd]).
Proof. exact spec_reads_model_chunks. Qed.

Theorem C03_model_chunks_are_spec_chunks :
  forall (d : db) (ep : enc_params) (dom : cdom) (roots : list N) (e : encoded) 
         (st : ser_state) (comp : list bool),
       encode_chunks d ep dom roots = Ok e ->
       add_instances d ep dom roots = Ok st ->
       cols_ok ep dom st ->
       en_chunks e ++ [(CH_END, FILE_FOOTER)] =
       bspec_encode_chunks rdA (model_choices comp (spec_file ep dom st)) (spec_file ep dom st).
Proof. exact model_chunks_are_spec_chunks. Qed.

Theorem C03_spec_accepts_model_file :
  forall (d : db) (ep : enc_params) (dom : cdom) (roots : list N) (b : bytes) (st : ser_state),
       encode_file d ep None dom roots = Ok b ->
       add_instances d ep dom roots = Ok st ->
       bs_wf (spec_file ep dom st) = true ->
       (forall e : encoded,
        encode_chunks d ep dom roots = Ok e ->
        Forall (fun c : bytes * list N => N.of_nat (Datatypes.length (snd c)) < 2 ^ 32) (en_chunks e)) ->
       bspec_decode rdA b = Ok (spec_file ep dom st).
Proof. exact spec_accepts_model_file. Qed.

Theorem C03_spec_accepts_model_file_gen :
  forall (d : db) (ep : enc_params) (cmp : compression) (zstd : bytes -> option bytes) 
         (dom : cdom) (roots : list N) (b : bytes) (st : ser_state),
       encode_file d ep cmp dom roots = Ok b ->
       add_instances d ep dom roots = Ok st ->
       bs_wf (spec_file ep dom st) = true ->
       (forall e : encoded,
        encode_chunks d ep dom roots = Ok e ->
        Forall (fun c : bytes * bytes => BinFraming.sizes_ok cmp (snd c)) (en_chunks e)) ->
       cmp_law zstd cmp -> bspec_decode_gen rdA zstd b = Ok (spec_file ep dom st).
Proof. exact spec_accepts_model_file_gen. Qed.

Theorem C03_spec_accepts_model_file_lz4_literal :
  forall (d : db) (ep : enc_params) (dom : cdom) (roots : list N) (b : bytes) (st : ser_state),
       encode_file d ep (Some literal_only_block) dom roots = Ok b ->
       add_instances d ep dom roots = Ok st ->
       bs_wf (spec_file ep dom st) = true ->
       (forall e : encoded,
        encode_chunks d ep dom roots = Ok e ->
        Forall (fun c : bytes * bytes => BinFraming.sizes_ok (Some literal_only_block) (snd c)) (en_chunks e)) ->
       bspec_decode rdA b = Ok (spec_file ep dom st).
Proof. exact spec_accepts_model_file_lz4_literal. Qed.

Theorem C03_model_file_is_spec_file :
  forall (d : db) (ep : enc_params) (dom : cdom) (roots : list N) (b : bytes) (st : ser_state),
       encode_file d ep None dom roots = Ok b ->
       add_instances d ep dom roots = Ok st ->
       cols_ok ep dom st ->
       b = bspec_encode rdA (model_choices [] (spec_file ep dom st)) (spec_file ep dom st).
Proof. exact model_file_is_spec_file. Qed.

Theorem C03_spec_file_wf :
  forall (d : db) (ep : enc_params) (dom : cdom) (roots : list N) (e : encoded) (st : ser_state),
       encode_chunks d ep dom roots = Ok e ->
       add_instances d ep dom roots = Ok st -> wire_ranges_ok ep dom st -> bs_wf (spec_file ep dom st) = true.
Proof. exact spec_file_wf. Qed.

Theorem C03_spec_recovers_model_dom :
  forall (d : db) (ep : enc_params) (dom : cdom) (ts : list tree) (e : encoded) (st : ser_state),
       BinRoundTrip.input_ok dom ts ->
       BinRoundTrip.name_cols_ok st ->
       encode_chunks d ep dom (List.map root ts) = Ok e ->
       add_instances d ep dom (List.map root ts) = Ok st ->
       exists nodes : list bs_node,
         bspec_to_dom (spec_file ep dom st) = Ok nodes /\
         ss_relevant st = flat_map post ts /\
         NoDup (ss_relevant st) /\
         Forall2
           (fun (r : N) (nd : bs_node) =>
            bn_label nd = L st r /\
            bn_class nd = i_class (BinRoundTrip.src dom r) /\
            bn_name nd = i_name (BinRoundTrip.src dom r) /\
            bn_parent nd = r_parent dom st r /\
            (exists (ti : type_info) (j : nat),
               In (i_class (BinRoundTrip.src dom r), ti) (ss_types st) /\
               nth_error (ti_instances ti) j = Some r /\
               bn_props nd =
               filter (fun kv : bytes * value => negb (is_name_cell kv))
                 (flat_map (cell ep dom st (i_class (BinRoundTrip.src dom r), ti) j) (ti_props ti)))) 
           (ss_relevant st) nodes /\
         (forall t : tree, In t ts -> r_parent dom st (root t) = 0) /\
         (forall r c : N, In r (flat_map refs ts) -> In c (children_of dom r) -> r_parent dom st c = L st r).
Proof. exact spec_recovers_model_dom. Qed.

Theorem C03_spec_recovers_child_lists :
  forall (d : db) (ep : enc_params) (dom : cdom) (ts : list tree) (e : encoded) (st : ser_state),
       BinRoundTrip.input_ok dom ts ->
       encode_chunks d ep dom (List.map root ts) = Ok e ->
       add_instances d ep dom (List.map root ts) = Ok st ->
       exists nodes : list bs_node,
         bspec_to_dom (spec_file ep dom st) = Ok nodes /\
         List.map bn_label nodes = List.map (L st) (flat_map post ts) /\
         nodes_children nodes 0 = List.map (L st) (List.map root ts) /\
         (forall r : N,
          In r (flat_map refs ts) -> nodes_children nodes (L st r) = List.map (L st) (children_of dom r)).
Proof. exact spec_recovers_child_lists. Qed.

Theorem C03_spec_row_values :
  forall (d : db) (ep : enc_params) (dom : cdom) (roots : list N) (e : encoded) 
         (st : ser_state) (c : bytes) (ti : type_info) (cp : bytes * prop_info) (j : nat) 
         (r : N),
       encode_chunks d ep dom roots = Ok e ->
       add_instances d ep dom roots = Ok st ->
       In (c, ti) (ss_types st) ->
       In cp (ti_props ti) ->
       nth_error (ti_instances ti) j = Some r ->
       let v := prop_value ep (fst cp) (snd cp) (ep_order ep (pi_aliases (snd cp))) (BinRoundTrip.src dom r) in
       if wire_type_eq_dec_seccap (pi_type (snd cp))
       then cell ep dom st (c, ti) j cp = []
       else
        exists v' : value,
          wire_dom_value (st_sstr st) (st_label st) (pi_type (snd cp)) (enc_ctx_of ep st) v = Some v' /\
          cell ep dom st (c, ti) j cp = [(pi_ser_name (snd cp), v')].
Proof. exact spec_row_values. Qed.

Theorem C03_spec_accepts_and_recovers :
  forall (d : db) (ep : enc_params) (dom : cdom) (ts : list tree) (b : bytes),
       BinRoundTrip.input_ok dom ts ->
       encode_file d ep None dom (List.map root ts) = Ok b ->
       exists (st : ser_state) (e : encoded),
         add_instances d ep dom (List.map root ts) = Ok st /\
         encode_chunks d ep dom (List.map root ts) = Ok e /\
         (wire_ranges_ok ep dom st ->
          Forall (fun c : bytes * list N => N.of_nat (Datatypes.length (snd c)) < 2 ^ 32) (en_chunks e) ->
          BinRoundTrip.name_cols_ok st ->
          exists nodes : list bs_node,
            bspec_decode rdA b = Ok (spec_file ep dom st) /\
            bspec_to_dom (spec_file ep dom st) = Ok nodes /\
            ss_relevant st = flat_map post ts /\
            Forall2
              (fun (r : N) (nd : bs_node) =>
               bn_label nd = L st r /\
               bn_class nd = i_class (BinRoundTrip.src dom r) /\
               bn_name nd = i_name (BinRoundTrip.src dom r) /\
               bn_parent nd = r_parent dom st r /\
               (exists (ti : type_info) (j : nat),
                  In (i_class (BinRoundTrip.src dom r), ti) (ss_types st) /\
                  nth_error (ti_instances ti) j = Some r /\
                  bn_props nd =
                  filter (fun kv : bytes * value => negb (is_name_cell kv))
                    (flat_map (cell ep dom st (i_class (BinRoundTrip.src dom r), ti) j) (ti_props ti)))) 
              (ss_relevant st) nodes /\
            (forall t : tree, In t ts -> r_parent dom st (root t) = 0) /\
            (forall r c : N,
             In r (flat_map refs ts) -> In c (children_of dom r) -> r_parent dom st c = L st r) /\
            nodes_children nodes 0 = List.map (L st) (List.map root ts) /\
            (forall r : N,
             In r (flat_map refs ts) -> nodes_children nodes (L st r) = List.map (L st) (children_of dom r))).
Proof. exact spec_accepts_and_recovers. Qed.

Theorem C03_seccap_column_refuted :
  enc_col WSecurityCapabilities BinValuesFacts.ectx0 [VSecurityCapabilities 5] =
       Ok [0; 0; 0; 0; 0; 0; 0; 10] /\
       bs_known_type (wire_id WSecurityCapabilities) = false /\
       (forall (rd : bs_reading) (n : nat) (b : bytes),
        bs_dec_col rd (wire_id WSecurityCapabilities) n b = Err BS_EOF) /\
       (forall (c : enc_ctx) (vs : list value), spec_col WSecurityCapabilities c vs = None).
Proof. exact seccap_column_refuted. Qed.

Theorem C03_literal_reading_uniqueid_be_refuted :
  exists b : bytes,
         enc_col WUniqueId BinValuesFacts.ectx0 [VUniqueId 1 2 3] = Ok b /\
         bs_dec_col rdA 31 1 b = Ok (KUniqueId [(1, 2, 3%Z)], []) /\
         bs_dec_col
           {| rd_sstr_be := true; rd_uid_be := false; rd_uid_rot := true; rd_content_types_i32 := true |} 31
           1 b = Ok (KUniqueId [(16777216, 33554432, 216172782113783808%Z)], []).
Proof. exact literal_reading_uniqueid_be_refuted. Qed.

Theorem C03_literal_reading_sharedstring_refuted :
  exists b : bytes,
         enc_col WSharedString ectx1 [VSharedString [7]] = Ok b /\
         bs_dec_col rdA 28 1 b = Ok (KSharedString [1], []) /\
         bs_dec_col
           {| rd_sstr_be := false; rd_uid_be := true; rd_uid_rot := true; rd_content_types_i32 := true |} 28
           1 b = Ok (KSharedString [16777216], []).
Proof. exact literal_reading_sharedstring_refuted. Qed.

Theorem C03_literal_reading_content_refuted :
  exists b : bytes,
         enc_col WContent ectx1 [VContent (CUri [7])] = Ok b /\
         bs_dec_col rdA 34 1 b = Ok (KContent [BCUri [7]] [], []) /\
         bs_dec_col
           {| rd_sstr_be := true; rd_uid_be := true; rd_uid_rot := true; rd_content_types_i32 := false |} 34
           1 b = Err BS_CONTENT.
Proof. exact literal_reading_content_refuted. Qed.

Theorem C03_sstr_hash_field_is_zero :
  forall (st : ser_state) (l : list (bytes * bytes)),
       spec_sstr st = Some l -> Forall (fun t : bytes * bytes => fst t = zeros16) l.
Proof. exact sstr_hash_field_is_zero. Qed.

Theorem C03_float_range_needed :
  exists b : bytes,
         enc_col WFloat32 BinValuesFacts.ectx0 [VFloat32 4294967296] = Ok b /\
         spec_col WFloat32 BinValuesFacts.ectx0 [VFloat32 4294967296] = Some (KFloat32 [4294967296]) /\
         bs_col_ok (KFloat32 [4294967296]) = false /\ bs_dec_col rdA 4 1 b = Ok (KFloat32 [1], []).
Proof. exact float_range_needed. Qed.

