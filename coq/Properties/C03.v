(* Property C03 — every binary file written is well-formed and means what the spec says (statements only).
   The independent document codec is Spec/BinSpec.v (written from docs/binary.md) with the LZ4 block decoder Spec/Lz4.v; the
   proofs are in Proofs/BinSpecFacts.v and Proofs/Lz4Facts.v.  Names: logical_file = bs_file, spec_decode = bspec_decode
   (bspec_decode_gen with a Zstandard inflater), spec_decode_chunks = bspec_decode_chunks, spec_to_dom = bspec_to_dom,
   spec_encode = bspec_encode, choices = bs_choices; every statement holds for every reading [rd] of the document (the literal
   one and the amended ones).
   What these theorems carry: the document codec is a codec (it round-trips with itself for all files and choices), its LZ4
   decoder terminates without panic on every input, and the structural clauses that hold *by construction* for every file it
   accepts.  That the implementation's files are accepted and mean the source DOM is the `binspec` correspondence
   (harness/src/binspec.rs), where the remaining clauses (PRNT lists every instance once, children before parents; SSTR entries
   distinct; class names distinct) are evaluated per file by the extracted boolean functions of BinSpec.v. *)
From Coq Require Import List NArith ZArith.
From RbxVerif Require Import Base Bytes Value Lz4 BinSpec Lz4Facts BinSpecFacts.
Import ListNotations.
Open Scope N_scope.

(* the document codec round-trips with itself: every well-formed logical file, written in the order of the document's "File
   Structure" with any per-chunk choice of {uncompressed, LZ4 literal block} and either CFrame rotation choice, whose chunk
   payloads stay below 2^32 bytes, is decoded to exactly the same logical file (normalise = identity for this order) *)
Theorem C03_spec_roundtrip : forall rd comp use_ids f,
  bs_wf f = true ->
  bs_sizes_ok rd (mkChoices (bs_canonical_order f) comp use_ids) f = true ->
  bspec_decode rd (bspec_encode rd (mkChoices (bs_canonical_order f) comp use_ids) f) = Ok f.
Proof. exact bspec_roundtrip. Qed.

(* per value type: the Values field of a PROP chunk of any of the 31 documented types is read back exactly, and exactly its
   bytes are consumed *)
Theorem C03_column_roundtrip : forall rd use_ids c rest,
  bs_col_ok c = true ->
  bs_dec_col rd (bs_col_type c) (bs_col_len c) (bs_enc_col rd use_ids c ++ rest) = Ok (c, rest).
Proof. exact bs_col_roundtrip. Qed.

(* per chunk list: any sequence of chunks in which every PROP follows the INST of its class *)
Theorem C03_chunks_roundtrip : forall rd use_ids items seen,
  items_ok seen items = true ->
  bs_parse_items rd seen (List.map (bs_enc_item rd use_ids) items) = Ok items.
Proof. exact bs_items_roundtrip. Qed.

(* structural clauses by construction: for every chunk list the document decoder accepts, the header counts match the body,
   class ids are unique (one INST chunk per class id), there is exactly one PRNT and at most one META / SSTR, END is the last
   chunk and only the last *)
Theorem C03_header_counts_classes_end : forall rd hdr chunks f,
  bspec_decode_chunks rd hdr chunks = Ok f ->
  exists items, bs_parse_items rd [] chunks = Ok items /\
    end_last items = true /\ cl_header_counts hdr items = true /\ cl_unique_class_ids items = true /\
    bs_prnts items = [bf_prnt f] /\ (length (bs_metas items) <= 1)%nat /\ (length (bs_sstrs items) <= 1)%nat /\
    bf_classes f = bs_insts items /\ bf_props f = bs_props items.
Proof. exact decode_chunks_clauses. Qed.

(* every PROP chunk carries exactly one value per instance of its class (the class declared by a preceding INST chunk) *)
Theorem C03_prop_one_value_per_instance : forall rd hdr chunks f,
  bspec_decode_chunks rd hdr chunks = Ok f ->
  exists items, bs_parse_items rd [] chunks = Ok items /\ cl_prop_lengths items = true.
Proof. exact decode_chunks_prop_lengths. Qed.

(* for every file the document decoder accepts: the chunk length fields match the (de)compressed payloads and the file ends with
   the uncompressed END chunk holding `</roblox>` *)
Theorem C03_chunk_lengths_and_end : forall rd zstd b f,
  bspec_decode_gen rd zstd b = Ok f ->
  exists hdr rest raws, p_header b = Ok (hdr, rest) /\ bs_deframe rest = Ok raws /\
    cl_chunk_lengths zstd raws = true /\ cl_ends_with_end raws = true.
Proof. exact decode_gen_framing. Qed.

(* the LZ4 block decoder: fuel = length + 1 suffices on every input and no input makes it panic *)
Theorem C03_lz4_total : forall b, lz4_decode b <> OutOfFuel /\ lz4_decode b <> Panic.
Proof. exact lz4_decode_total. Qed.

(* and it inflates the literal-only block of any data to the data *)
Theorem C03_lz4_literal_only : forall x, lz4_decode (literal_only_block x) = Ok x.
Proof. exact lz4_literal_only. Qed.
