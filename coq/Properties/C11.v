(* Property C11 — cloning yields an isomorphic copy with correctly rewritten references (statements only).
   The specification Model/Tree.v a_clone states the property directly on rose forests: the copies are the
   selected subtrees with every referent replaced by a fresh one (alloc_refs), appended as new parentless
   trees (a_trees dst ++ copies: nothing else changes); every Ref property `o` of a copy becomes the copy of
   `o` if `o` was cloned too, stays `o` if `o` is an instance of the destination, and becomes null otherwise
   (clone_val).  The theorems say the concrete clone loops + rewrite_refs of dom.rs's model compute exactly
   that, never panic and never run out of the stated fuel, for clone_within and for the external entry
   points (one or several pairwise disjoint roots). *)
From RbxVerif Require Import Base Dom Tree BaseFacts DomFacts TreeFacts Rep RepWF RefCloneAux RefClone RefCloneFinal.

Theorem C11_clone_within_refines : refines_clone_within_final.
Proof. exact clone_within_refines. Qed.
Theorem C11_clone_external_refines : refines_clone_ext_final.
Proof. exact clone_ext_refines. Qed.

Theorem C11_insert_frame : forall d nu r i d' nu',
  inner_insert d nu r i = (d', nu') ->
  exists i', lookup r (d_insts d') = Some i' /\
             (forall u, get_uid (i_props i') = Some u -> mem u (d_uids d') = true) /\
             (forall x, x <> r -> lookup x (d_insts d') = lookup x (d_insts d)).
Proof. exact inner_insert_uid. Qed.
