(* Property C11 — cloning yields an isomorphic copy with correctly rewritten references (statements only). *)
From RbxVerif Require Import Base Dom Tree BaseFacts DomFacts.

Theorem C11_insert_frame : forall d nu r i d' nu',
  inner_insert d nu r i = (d', nu') ->
  exists i', lookup r (d_insts d') = Some i' /\
             (forall u, get_uid (i_props i') = Some u -> mem u (d_uids d') = true) /\
             (forall x, x <> r -> lookup x (d_insts d') = lookup x (d_insts d)).
Proof. exact inner_insert_uid. Qed.
