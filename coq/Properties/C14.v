(* Property C14 — Attribute blobs round-trip and follow the documented layout (statements only).
   The proofs are in Proofs/AttrFacts.v and Proofs/RotationFacts.v; the model is Model/Attr.v (+ Rotation.v,
   BrickColor.v, Utf8.v), the independent document codec is Spec/AttrSpec.v. *)
From RbxVerif Require Import Base Bytes Value Rotation Attr AttrSpec RotationFacts AttrFacts.
Open Scope N_scope.

(* an empty map encodes to zero bytes and zero bytes decode to an empty map *)
Theorem C14_attr_empty : attr_encode [] = Ok [] /\ attr_decode [] = Ok [].
Proof. exact attr_empty. Qed.

(* every well-formed attribute map (names strictly increasing Strings, sizes < 2^32, floats any 32/64-bit pattern,
   integers in range, BrickColor numbers of the table, fonts with table weights) that the writer accepts is read
   back as the same names with the normalised values: String -> BinaryString, cached_face_id Some "" -> None, a
   rotation that to_basic_rotation_id recognises -> that basic rotation; everything else bit-identical *)
Theorem C14_attr_roundtrip : forall m b,
  wf_amap m = true -> attr_encode m = Ok b -> attr_decode b = Ok (norm m).
Proof. exact attr_roundtrip. Qed.

(* each supported value by itself, followed by arbitrary bytes: the reader consumes exactly the value's bytes *)
Theorem C14_value_roundtrip : forall v id body,
  wf_value v = true -> from_variant_type (vtype v) = Some id -> write_value v = Ok body ->
  id < 256 /\
  exists ty, to_variant_type id = Some ty /\
             forall rest, read_value ty (body ++ rest) = Ok (norm_value v, rest).
Proof. exact value_roundtrip. Qed.

(* the type id table assigns distinct ids to distinct types (String shares 0x02 with BinaryString, nothing else) *)
Theorem C14_type_id_table_inj :
  NoDup (List.map fst attr_type_ids) /\ NoDup (List.map snd attr_type_ids) /\
  (forall t1 t2 id, to_variant_type id = Some t1 -> to_variant_type id = Some t2 -> t1 = t2) /\
  (forall ty id, to_variant_type id = Some ty -> from_variant_type ty = Some id) /\
  (forall t1 t2 id, from_variant_type t1 = Some id -> from_variant_type t2 = Some id ->
                    t1 = t2 \/ (id = 0x02 /\ (t1 = VT_String \/ t2 = VT_String))).
Proof. exact type_id_table_inj. Qed.

(* all 24 rotation ids: from_basic_rotation_id then to_basic_rotation_id gives the id back *)
Theorem C14_rotation_ids_roundtrip : forall id, In id rotation_ids ->
  exists m, from_basic_rotation_id id = Some m /\ to_basic_rotation_id m = Some id.
Proof. exact rotation_ids_roundtrip. Qed.

(* the rotation table of the document (Euler angles, Y -> X -> Z) is the table of the implementation *)
Theorem C14_spec_rotation_table_agrees : forall id,
  spec_rot_of_id id spec_rotation_table = from_basic_rotation_id id.
Proof. exact spec_rotation_table_agrees. Qed.

(* the pinned approx_unit_or_zero gives 0.5*I the id of the identity: it is read back as I *)
Theorem C14_snap_scaled_refuted :
  to_basic_rotation_id half_identity = Some 2 /\
  from_basic_rotation_id 2 = Some mat3_identity /\
  mat3_identity <> half_identity.
Proof. exact snap_scaled_refuted. Qed.

(* with the repaired test ((|v| - 1).abs() <= EPSILON) an id is given only to matrices every entry of which is
   within f32::EPSILON of the basic rotation's entry *)
Theorem C14_rotation_snap_only_near_basis_fixed : forall m id b,
  to_basic_rotation_id_with approx_unit_or_zero_fixed m = Some id ->
  from_basic_rotation_id id = Some b ->
  near_mat m b.
Proof. exact rotation_snap_only_near_basis_fixed. Qed.
