(* Property C14 — Attribute blobs round-trip and follow the documented layout (statements only).
   The proofs are in Proofs/AttrFacts.v and Proofs/RotationFacts.v; the model is Model/Attr.v (+ Rotation.v,
   BrickColor.v, Utf8.v), the independent document codec is Spec/AttrSpec.v. *)
From RbxVerif Require Import Base Bytes Value Rotation Attr AttrSpec RotationFacts AttrFacts AttrSafe AttrSpecFacts.
Open Scope N_scope.

(* an empty map encodes to zero bytes and zero bytes decode to an empty map *)
Theorem C14_attr_empty : attr_encode [] = Ok [] /\ attr_decode [] = Ok [].
Proof. exact attr_empty. Qed.

(* every well-formed attribute map (names strictly increasing Strings, sizes < 2^32, floats any 32/64-bit pattern,
   integers in range, BrickColor numbers of the table, fonts with table weights) that the writer accepts is read
   back as the same names with the normalised values: String -> BinaryString, cached_face_id Some "" -> None, a
   rotation that to_basic_rotation_id recognises (C14_rotation_snap_only_near_basis) -> that basic rotation;
   everything else bit-identical *)
Theorem C14_attr_roundtrip : forall m b,
  wf_amap m = true -> attr_encode m = Ok b -> attr_decode b = Ok (norm m).
Proof. exact attr_roundtrip. Qed.

(* the same with sortedness as a BTreeMap hands it out: consecutive names strictly increasing *)
Theorem C14_attr_roundtrip_adj : forall m b,
  len32 m = true -> amap_adj_sorted m = true -> forallb wf_entry m = true ->
  attr_encode m = Ok b -> attr_decode b = Ok (norm m).
Proof. exact attr_roundtrip_adj. Qed.

(* each supported value by itself, followed by arbitrary bytes: the reader consumes exactly the value's bytes *)
Theorem C14_value_roundtrip : forall v id body,
  wf_value v = true -> from_variant_type (vtype v) = Some id -> write_value v = Ok body ->
  id < 256 /\
  exists ty, to_variant_type id = Some ty /\
             forall rest, read_value ty (body ++ rest) = Ok (norm_value v, rest).
Proof. exact value_roundtrip. Qed.

(* the type id table assigns distinct ids to distinct types (String shares 0x02 with BinaryString, nothing else) *)
Theorem C14_type_id_table_inj :
  NoDup (List.map fst attr_type_ids) /\ NoDup (List.map snd attr_type_ids) /\
  (forall t1 t2 id, to_variant_type id = Some t1 -> to_variant_type id = Some t2 -> t1 = t2) /\
  (forall ty id, to_variant_type id = Some ty -> from_variant_type ty = Some id) /\
  (forall t1 t2 id, from_variant_type t1 = Some id -> from_variant_type t2 = Some id ->
                    t1 = t2 \/ (id = 0x02 /\ (t1 = VT_String \/ t2 = VT_String))).
Proof. exact type_id_table_inj. Qed.

(* all 24 rotation ids: from_basic_rotation_id then to_basic_rotation_id gives the id back *)
Theorem C14_rotation_ids_roundtrip : forall id, In id rotation_ids ->
  exists m, from_basic_rotation_id id = Some m /\ to_basic_rotation_id m = Some id.
Proof. exact rotation_ids_roundtrip. Qed.

(* the rotation table of the document (Euler angles, Y -> X -> Z) is the table of the implementation *)
Theorem C14_spec_rotation_table_agrees : forall id,
  spec_rot_of_id id spec_rotation_table = from_basic_rotation_id id.
Proof. exact spec_rotation_table_agrees. Qed.

(* a matrix is stored as a basic rotation id only if every entry is within f32::EPSILON of that rotation's entry
   (entries compared on bit patterns: 0 -> |x| <= EPSILON; +-1 -> same sign and 1-EPSILON <= |x| <= 1+EPSILON) *)
Theorem C14_rotation_snap_only_near_basis : forall m id b,
  to_basic_rotation_id m = Some id ->
  from_basic_rotation_id id = Some b ->
  near_mat m b.
Proof. exact rotation_snap_only_near_basis. Qed.

(* before /repo commit 66cfd56a this failed: approx_unit_or_zero as it then was gave 0.5*I the id of the identity,
   so it was read back as I; the current code gives 0.5*I no id *)
Theorem C14_snap_scaled_refuted :
  to_basic_rotation_id_with approx_unit_or_zero_pinned half_identity = Some 2 /\
  from_basic_rotation_id 2 = Some mat3_identity /\
  mat3_identity <> half_identity.
Proof. exact snap_scaled_refuted. Qed.
Theorem C14_snap_scaled_repaired : to_basic_rotation_id half_identity = None.
Proof. exact snap_scaled_repaired. Qed.

(* ---- the bytes follow docs/attributes.md ---- *)

(* whatever non-empty well-formed map the writer encodes, the independent reader written from the document decodes
   the bytes to the same names with the same normalised values *)
Theorem C14_attr_meets_spec : forall m b,
  wf_amap m = true -> m <> [] -> attr_encode m = Ok b -> spec_decode b = Ok (norm m).
Proof. exact attr_meets_spec. Qed.

(* on maps whose rotations are exact (one of the 24 table matrices bit for bit, or not recognised by the writer)
   the writer's bytes are exactly the bytes the document prescribes *)
Theorem C14_spec_encode_agrees : forall m b,
  wf_amap m = true -> m <> [] -> Forall (fun e => value_exact (snd e)) m ->
  (attr_encode m = Ok b <-> spec_encode m = Ok b).
Proof. exact spec_encode_agrees. Qed.
Theorem C14_table_rotation_exact : forall id m, from_basic_rotation_id id = Some m -> rot_exact m.
Proof. exact table_rotation_exact. Qed.
Theorem C14_unrecognised_rotation_exact : forall m, to_basic_rotation_id m = None -> rot_exact m.
Proof. exact unrecognised_rotation_exact. Qed.

(* blobs built from the document by an independent encoder decode to the values they describe *)
Theorem C14_attr_reads_spec : forall m b,
  wf_amap m = true -> Forall (fun e => value_exact (snd e)) m ->
  spec_encode m = Ok b -> attr_decode b = Ok (spec_norm m).
Proof. exact attr_reads_spec. Qed.

(* the empty map is where the writer leaves the document: zero bytes are not a blob of the document, while the
   document's encoding of the empty map (a zero count) is read as the empty map *)
Theorem C14_attr_empty_outside_document :
  attr_encode [] = Ok [] /\ spec_decode [] = Err SPEC_ERR /\
  spec_encode [] = Ok [0; 0; 0; 0] /\ attr_decode [0; 0; 0; 0] = Ok [].
Proof. exact attr_empty_outside_document. Qed.

(* ---- totality ---- *)

(* the reader never panics and always terminates, on every byte string; the writer never reaches unreachable!() *)
Theorem C14_attr_decode_total : forall b, attr_decode b <> Panic /\ attr_decode b <> OutOfFuel.
Proof. exact attr_decode_total. Qed.
Theorem C14_attr_encode_no_panic : forall m, attr_encode m <> Panic /\ attr_encode m <> OutOfFuel.
Proof. exact attr_encode_no_panic. Qed.

(* ==== the tables of the attribute codec model are the ones regenerated from the source on every run
   (Gen/SourceTables.v <- attributes/type_id.rs, basic_types.rs; Proofs/SourceTablesFacts.v) *)
From RbxVerif Require Import SourceTablesFacts.
From RbxVerif Require SourceTables.
Theorem C14_attr_type_ids_match_source : resolve_attr_ids = Some Attr.attr_type_ids.
Proof. exact attr_type_ids_match_source. Qed.
Theorem C14_attr_string_id_matches_source : Attr.from_variant_type Attr.VT_String = Some SourceTables.src_attr_string_id.
Proof. exact attr_string_id_matches_source. Qed.
Theorem C14_rotation_table_matches_source : resolve_rotations = Some Rotation.rotation_table.
Proof. exact rotation_table_matches_source. Qed.
