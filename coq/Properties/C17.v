(* Property C17 — Value types survive serde/text encodings and match the Lua wire contract (statements only).
   What is proven here is the PURE, hand-written part: the Ref / UniqueId text forms, BrickColor numbers and
   names, the Faces / Axes bit sets, the Tags and MaterialColors blobs, over executable models that the
   `serde17` correspondence compares with the implementation (rbx_types).  That serde_json, bincode and
   rmp-serde transport the derived data model faithfully is checked on the implementation (harness
   `serde17`), not proven.  Proofs: Proofs/{HexFacts,BitSetsFacts,TagsFacts,MaterialColorsFacts,BrickColorFacts}.v. *)
From Coq Require Import List NArith ZArith.
Import ListNotations.
From RbxVerif Require Import Hex BitSets Tags MaterialColors BrickColorTbl Types17.
From RbxVerif Require Import HexFacts BitSetsFacts TagsFacts MaterialColorsFacts BrickColorFacts.
Open Scope N_scope.

(* ---- Ref: all 2^128 values survive Display / FromStr ---- *)
Theorem C17_ref_text_roundtrip : forall n, n < 2 ^ 128 -> ref_from_str (ref_display n) = Ok n.
Proof. exact ref_text_roundtrip. Qed.
Theorem C17_ref_display_length : forall n, n < 2 ^ 128 -> length (ref_display n) = 32%nat.
Proof. exact ref_display_length. Qed.

(* ---- UniqueId (unique_id.rs as of /repo commit 680c0119): every index, time and random; never panics ---- *)
Theorem C17_uid_text_roundtrip : forall index time random,
  index < 2 ^ 32 -> time < 2 ^ 32 -> (- 2 ^ 63 <= random < 2 ^ 63)%Z ->
  uid_from_str (uid_display index time random) = Ok (index, time, random).
Proof. exact uid_text_roundtrip. Qed.
Theorem C17_uid_display_length : forall index time random,
  index < 2 ^ 32 -> time < 2 ^ 32 -> (- 2 ^ 63 <= random < 2 ^ 63)%Z ->
  length (uid_display index time random) = 32%nat.
Proof. exact uid_display_length. Qed.
Theorem C17_uid_from_str_no_panic : forall s, uid_from_str s <> Panic.
Proof. exact uid_from_str_no_panic. Qed.
Theorem C17_uid_from_str_non_ascii : forall s, is_ascii s = false -> uid_from_str s = Err ERR_UID_LEN.
Proof. exact uid_from_str_non_ascii. Qed.
(* for the record, `uid_from_str_pinned` = the code before that commit (DESIGN F17): the round trip is refuted for
   negative random parts -- a witness, and the whole class -- and holds for the others *)
Theorem C17_uid_text_refuted : exists index time random,
  index < 2 ^ 32 /\ time < 2 ^ 32 /\ (- 2 ^ 63 <= random < 2 ^ 63)%Z /\
  uid_from_str_pinned (uid_display index time random) <> Ok (index, time, random).
Proof. exact uid_text_refuted. Qed.
Theorem C17_uid_text_negative_fails : forall index time random,
  index < 2 ^ 32 -> time < 2 ^ 32 -> (- 2 ^ 63 <= random < 0)%Z ->
  uid_from_str_pinned (uid_display index time random) = Err PIE_POS.
Proof. exact uid_text_negative_fails. Qed.
Theorem C17_uid_pinned_roundtrip : forall index time random,
  index < 2 ^ 32 -> time < 2 ^ 32 -> (0 <= random < 2 ^ 63)%Z ->
  uid_from_str_pinned (uid_display index time random) = Ok (index, time, random).
Proof. exact uid_pinned_roundtrip. Qed.

(* ---- BrickColor over the regenerated table: all 2^16 numbers ---- *)
Theorem C17_brick_from_number_u16 : forall n, n < 65536 ->
  (exists e, bc_from_number brick_entries n = Some e /\ In e brick_entries /\ bc_number e = n) \/
  (bc_from_number brick_entries n = None /\ ~ In n (List.map bc_number brick_entries)).
Proof. exact brick_from_number_u16. Qed.
Theorem C17_brick_number_entry : forall e, In e brick_entries -> bc_from_number brick_entries (bc_number e) = Some e.
Proof. exact brick_number_entry. Qed.
Theorem C17_brick_color_injective : forall a b, In a brick_entries -> In b brick_entries ->
  bc_to_color3uint8 a = bc_to_color3uint8 b -> a = b.
Proof. exact brick_color_injective. Qed.
(* names: Display then from_name is the identity except for the four later duplicates of a name *)
Theorem C17_brick_name_roundtrip : forall e, In e brick_entries -> ~ In (bc_number e) [321; 333; 345; 1017] ->
  bc_from_name brick_entries (bc_name e) = Some e.
Proof. exact brick_name_roundtrip. Qed.
Theorem C17_brick_name_collisions : forall e, In e brick_entries -> In (bc_number e) [321; 333; 345; 1017] ->
  exists e', bc_from_name brick_entries (bc_name e) = Some e' /\ bc_name e' = bc_name e /\ bc_number e' <> bc_number e.
Proof. exact brick_name_collisions. Qed.
Theorem C17_brick_name_sound : forall s e, bc_from_name brick_entries s = Some e -> bc_name e = s /\ In e brick_entries.
Proof. exact brick_name_sound. Qed.

(* ---- Faces / Axes: all 64 / 8 sets through both serde forms, every other byte rejected ---- *)
Theorem C17_faces_roundtrip : forall b, b < 64 ->
  flags_from_bits FACES b = Some b /\ flags_of_names FACES 0 (flags_names FACES b) = Ok b /\
  flags_of_byte FACES (flags_to_byte b) = Ok b.
Proof. exact faces_roundtrip. Qed.
Theorem C17_faces_reject : forall b, 64 <= b < 256 ->
  flags_from_bits FACES b = None /\ flags_of_byte FACES b = Err ERR_FLAG_BITS.
Proof. exact faces_reject. Qed.
Theorem C17_axes_roundtrip : forall b, b < 8 ->
  flags_from_bits AXES b = Some b /\ flags_of_names AXES 0 (flags_names AXES b) = Ok b /\
  flags_of_byte AXES (flags_to_byte b) = Ok b.
Proof. exact axes_roundtrip. Qed.
Theorem C17_axes_reject : forall b, 8 <= b < 256 ->
  flags_from_bits AXES b = None /\ flags_of_byte AXES b = Err ERR_FLAG_BITS.
Proof. exact axes_reject. Qed.
Theorem C17_flag_names_unknown : forall t names acc,
  (exists s, In s names /\ flag_of_name t s = None) -> flags_of_names t acc names = Err ERR_FLAG_NAME.
Proof. exact flags_of_names_unknown. Qed.
Theorem C17_flag_names_dup : forall t acc s r, flags_of_names t acc (s :: s :: r) = flags_of_names t acc (s :: r).
Proof. exact flags_of_names_dup. Qed.

(* ---- Tags: exactly when the blob round trip holds ---- *)
Theorem C17_tags_roundtrip_iff : forall ts, Forall (fun t => Utf8.utf8_valid t = true) ts ->
  (tags_decode (tags_encode ts) = Ok ts <-> Forall (fun t => t <> [] /\ ~ In 0 t) ts).
Proof. exact tags_roundtrip_iff. Qed.
Theorem C17_tags_empty_lost : tags_decode (tags_encode [[97]; []; [98]]) = Ok [[97]; [98]].
Proof. exact tags_empty_lost. Qed.
Theorem C17_tags_blob_roundtrip : forall b ts,
  Forall (fun p => p <> []) (pieces b) -> tags_decode b = Ok ts -> tags_encode ts = b.
Proof. exact tags_blob_roundtrip. Qed.

(* ---- MaterialColors: 69 bytes; observational round trip; blob round trip up to the reserved bytes ---- *)
Theorem C17_mc_encode_length : forall m, length (mc_encode material_table m) = 69%nat.
Proof. exact mc_encode_length. Qed.
Theorem C17_mc_decode_length : forall b, length b <> 69%nat -> mc_decode material_table b = Err ERR_MC_LEN.
Proof. exact mc_decode_length. Qed.
Theorem C17_mc_roundtrip_observational : forall m, exists m',
  mc_decode material_table (mc_encode material_table m) = Ok m' /\
  (forall mat, mc_get_color material_table m' mat = mc_get_color material_table m mat) /\
  mc_encode material_table m' = mc_encode material_table m /\
  List.map fst m' = mc_order material_table.
Proof. exact mc_roundtrip_observational. Qed.
Theorem C17_mc_blob_roundtrip : forall b, length b = 69%nat -> exists m,
  mc_decode material_table b = Ok m /\ mc_encode material_table m = repeat 0 6 ++ skipn 6 b.
Proof. exact mc_blob_roundtrip. Qed.

(* ---- FontWeight / FontStyle numbers ---- *)
Theorem C17_font_weight_roundtrip : forall v k, In (v, k) font_weight_as -> num_to_variant font_weight_from k = Some v.
Proof. exact font_weight_roundtrip. Qed.
Theorem C17_font_style_roundtrip : forall v k, In (v, k) font_style_as -> num_to_variant font_style_from k = Some v.
Proof. exact font_style_roundtrip. Qed.

(* ==== THE HAND-WRITTEN serde IMPLS AT THE LEVEL OF THE SERDE DATA MODEL (Model/SerdeTok.v, Model/Serde17.v, Proofs/SerdeFacts.v).
   The eight types with hand-written Serialize / Deserialize (Axes, Faces, BinaryString, BrickColor, PhysicalProperties, Ref, SharedString,
   UniqueId) are modelled as functions to and from token streams, in both presentation modes (is_human_readable true: JSON-like; false: bincode /
   MessagePack-like).  For every value in the range of its Rust type and both modes, Deserialize reads back what Serialize wrote and leaves the
   rest of the stream untouched; Deserialize is total on EVERY token list (a value or an error, never a panic, no fuel); what it accepts is in range;
   human-readable Faces/Axes depend only on the SET of names (order and duplicates irrelevant); Ref reads either presentation in either mode;
   PhysicalProperties round-trips for every f32 bit pattern, its JSON-object form accepts the fields in any order and skips unknown ones;
   an f32 written as a JSON number (f64) reads back bit-exact unless it is a signalling NaN.  The tie: a recording Serializer and a replaying
   Deserializer in the harness (harness/src/serdetok.rs) — the real impls' token streams and read-backs equal the extracted model's, line by line,
   on boundary values and on malformed streams.  The concrete formats (serde_json, bincode, rmp-serde) map such streams to bytes: exercised. *)
From RbxVerif Require Import SerdeTok Serde17 SerdeFacts.

Theorem C17_serde17_roundtrip :
  forall (m : smode) (v : sv17) (rest : list tok),
       sv17_ok v = true -> de_value17 m (sv17_type v) (ser_value17 m v ++ rest) = Ok (v, rest).
Proof. exact serde17_roundtrip. Qed.

Theorem C17_run17_roundtrip :
  forall (m : smode) (v : sv17) (rest : list tok),
       sv17_ok v = true -> run_de17 m (st17_tag (sv17_type v)) (run_ser17 m v ++ rest) = Ok (v, rest).
Proof. exact run17_roundtrip. Qed.

Theorem C17_de_value17_total :
  forall (m : smode) (ty : st17) (ts : list tok),
       (exists (v : sv17) (rest : list tok), de_value17 m ty ts = Ok (v, rest)) \/
       (exists c : N, de_value17 m ty ts = Err c).
Proof. exact de_value17_total. Qed.

Theorem C17_de_value17_no_panic :
  forall (m : smode) (ty : st17) (ts : list tok), de_value17 m ty ts <> Panic.
Proof. exact de_value17_no_panic. Qed.

Theorem C17_de_value17_in_range :
  forall (m : smode) (ty : st17) (ts : list tok) (v : sv17) (rest : list tok),
       forallb tok_wf ts = true -> de_value17 m ty ts = Ok (v, rest) -> sv17_ok v = true /\ sv17_type v = ty.
Proof. exact de_value17_in_range. Qed.

Theorem C17_de_ser_de17 :
  forall (m : smode) (ty : st17) (ts : list tok) (v : sv17) (rest rest' : list tok),
       forallb tok_wf ts = true ->
       de_value17 m ty ts = Ok (v, rest) -> de_value17 m ty (ser_value17 m v ++ rest') = Ok (v, rest').
Proof. exact de_ser_de17. Qed.

Theorem C17_ser_value17_injective :
  forall (m : smode) (v1 v2 : sv17),
       sv17_ok v1 = true ->
       sv17_ok v2 = true -> sv17_type v1 = sv17_type v2 -> ser_value17 m v1 = ser_value17 m v2 -> v1 = v2.
Proof. exact ser_value17_injective. Qed.

Theorem C17_flags_human_set_eq :
  forall (t : flag_table) (n1 n2 : option N) (l1 l2 : list bytes) (rest : list tok),
       Forall (fun s : bytes => utf8_valid s = true) l1 ->
       Forall (fun s : bytes => utf8_valid s = true) l2 ->
       (forall s : bytes, In s l1 <-> In s l2) ->
       de_flags t Human (TSeq n1 :: List.map TStr l1 ++ TSeqEnd :: rest) =
       de_flags t Human (TSeq n2 :: List.map TStr l2 ++ TSeqEnd :: rest).
Proof. exact flags_human_set_eq. Qed.

Theorem C17_cross_ref_any_mode :
  forall (m m' : smode) (n : N) (rest : list tok),
       n < 2 ^ 128 -> de_Ref m (ser_Ref m' n ++ rest) = Ok (n, rest).
Proof. exact cross_ref_any_mode. Qed.

Theorem C17_physical_properties_serde_roundtrip :
  forall (m : smode) (v : option physprops) (rest : list tok),
       de_PhysicalProperties m (ser_PhysicalProperties m v ++ rest) = Ok (v, rest).
Proof. exact physical_properties_serde_roundtrip. Qed.

Theorem C17_unique_id_serde_roundtrip :
  forall (m : smode) (index time : N) (random : Z) (rest : list tok),
       index < 2 ^ 32 ->
       time < 2 ^ 32 ->
       (- 2 ^ 63 <= random < 2 ^ 63)%Z ->
       de_UniqueId m (ser_UniqueId m index time random ++ rest) = Ok (index, time, random, rest).
Proof. exact unique_id_serde_roundtrip. Qed.

Theorem C17_ref_serde_roundtrip :
  forall (m : smode) (n : N) (rest : list tok),
       n < 2 ^ 128 -> de_Ref m (ser_Ref m n ++ rest) = Ok (n, rest).
Proof. exact ref_serde_roundtrip. Qed.

Theorem C17_phys_human_object_any_order :
  forall (p : physprops) (order : list cfield) (n : option N) (rest : list tok),
       NoDup order ->
       (forall f : cfield, In f order) ->
       de_PhysicalProperties Human
         (TMap n
          :: flat_map (fun f : cfield => [TStr (field_name f); TF32 (phys_get p f)]) order ++ TMapEnd :: rest) =
       Ok (Some p, rest).
Proof. exact phys_human_object_any_order. Qed.

Theorem C17_custom_map_unknown_field :
  forall (raw : bool) (e : closer) (acc : cacc) (k : tok) (v tail : list tok),
       closes e k = false ->
       custom_key raw k = Ok KIgnore ->
       ignored_any (v ++ tail) = Ok tail ->
       custom_map raw e acc CKey (k :: v ++ tail) = custom_map raw e acc CKey tail.
Proof. exact custom_map_unknown_field. Qed.

Theorem C17_f32_via_f64 :
  forall x : N, x < 2 ^ 32 -> f32_is_nan x = false -> f64_to_f32 (BinValues.f64_of_f32 x) = x.
Proof. exact f32_via_f64. Qed.

Theorem C17_serde17_samples_roundtrip :
  forallb sample_roundtrips serde17_samples = true.
Proof. exact serde17_samples_roundtrip. Qed.

Theorem C17_brick_outside_table_refuted :
  brick_valid 4 = false /\
       (forall (m : smode) (rest : list tok), de_BrickColor m (ser_BrickColor m 4 ++ rest) = Err ERR_BRICK).
Proof. exact brick_outside_table_refuted. Qed.

