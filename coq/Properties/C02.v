(* C02 — XML round trip preserves the instance forest and every value.
   What is PROVEN here about the executable model of rbx_xml (Model/XmlEvents.v, XmlValues.v, XmlFile.v), which the
   xmlchannel / xmlfile correspondences tie to the implementation:
     * character data survives write_string -> emitter -> parser -> read_characters for EVERY string (markup characters,
       `]]>`, CR/LF, leading/trailing/only whitespace, empty), i.e. the CDATA switch and the coalescing are right;
     * the decimal text of every i16/i32/i64/u8/u16/u32/u64 reads back as the same number; base64 reads back as the same bytes;
     * read_xml (channel (write_xml v)) = v for String, Bool, Int32, Int64, Enum, BinaryString, Float32/Float64 (bit-exact
       for non-NaN, canonical NaN otherwise, under the stated law of the decimal-text oracle), Vector3 (the tag-array pattern);
       BrickColor comes back as Int32 of its number (documented normalisation);
     * forward references and the SharedStrings dictionary are resolved by the second pass (computed instance);
     * the reader step repaired by /repo 9d6f480a, for every input: whenever reflection is in use and the database has no
       `Name` descriptor for the class (unknown class, class deriving from Object), the Name element the writer writes is
       read and kept; computed through the whole codec with the default options (parent and child of unknown classes);
     * the writer step repaired by /repo 62703803 (computed instance over a one-class database): an instance carrying a
       legacy migrating property AND the property it migrates to keeps the explicit value through the round trip;
     * refutation of the property as stated, in the current tree: Content::Object panics the writer (F13);
     * for the record, about the `_pinned` definitions (the code before those commits): the Name of an instance of an
       unknown class was lost with the default options; the legacy value won over the explicit one.
   The forest-level theorems for arbitrary DOMs (xml_decode (channel (xml_encode d)) ~ d) are at the end of this file
   (Proofs/XmlRoundTrip.v).
   Each theorem is the full statement followed by `exact <lemma>`. *)
From Coq Require Import List NArith ZArith Bool String.
From RbxVerif Require Import Base Bytes Value Db CodecDom XmlEvents XmlValues XmlFile XmlInt XmlBase64 XmlText XmlCompound XmlFileFacts.
Import ListNotations.
Open Scope list_scope.
Open Scope N_scope.

Theorem C02_text_element_through_channel :
  forall (stack : list bytes) (t : tstate) (n : bytes) (a : attrs) (s : bytes) (rest : list wevent) (r : list revent),
  chan_go stack t0 rest = Ok r ->
  chan_go stack t (WStart n a :: w_string s ++ WEnd :: rest) = Ok (flush t ++ RStart n a :: text_events s ++ REnd n :: r).
Proof. exact chan_leaf. Qed.

Theorem C02_read_characters_returns_written_string :
  forall (s acc : bytes) (e : revent) (r : list revent),
  match e with RChars _ | RCData _ | RError => False | _ => True end ->
  x_chars_go acc (text_events s ++ e :: r) = Ok (acc ++ s, e :: r).
Proof. exact x_chars_text_events. Qed.

Theorem C02_cdata_split_loses_nothing : forall s : bytes, concat (split_cdata s) = s.
Proof. exact split_cdata_concat. Qed.

Theorem C02_decimal_i32 : forall z : Z, (-2147483648 <= z <= 2147483647)%Z -> parse_i32 (dec_of_Z z) = Some z.
Proof. exact parse_i32_dec. Qed.
Theorem C02_decimal_i64 : forall z : Z, (-9223372036854775808 <= z <= 9223372036854775807)%Z -> parse_i64 (dec_of_Z z) = Some z.
Proof. exact parse_i64_dec. Qed.
Theorem C02_decimal_i16 : forall z : Z, (-32768 <= z <= 32767)%Z -> parse_i16 (dec_of_Z z) = Some z.
Proof. exact parse_i16_dec. Qed.
Theorem C02_decimal_u32 : forall n : N, n < 4294967296 -> parse_u32 (dec_of_N n) = Some n.
Proof. exact parse_u32_dec. Qed.
Theorem C02_decimal_u64 : forall n : N, n < 18446744073709551616 -> parse_u64 (dec_of_N n) = Some n.
Proof. exact parse_u64_dec. Qed.
Theorem C02_decimal_u8 : forall n : N, n < 256 -> parse_u8 (dec_of_N n) = Some n.
Proof. exact parse_u8_dec. Qed.
Theorem C02_decimal_u16 : forall n : N, n < 65536 -> parse_u16 (dec_of_N n) = Some n.
Proof. exact parse_u16_dec. Qed.

Theorem C02_base64_roundtrip : forall b : bytes, Forall (fun x => x < 256) b -> b64_decode (b64_encode b) = Some b.
Proof. exact b64_roundtrip. Qed.

Theorem C02_string_roundtrip :
  forall (o : xoracle) (s name : bytes),
  chan_go [] t0 (WStart (B "string") [(B "name", name)] :: w_string s ++ [WEnd]) = Ok (outer_events (B "string") [(B "name", name)] s) /\
  read_value_xml o (B "string") (outer_events (B "string") [(B "name", name)] s) = Ok (RVal (VString s), []).
Proof. exact string_roundtrip. Qed.

Theorem C02_bool_roundtrip :
  forall (o : xoracle) (b : bool) (name : bytes),
  let a := [(B "name", name)] in
  let t := B (if b then "true" else "false") in
  chan_go [] t0 (WStart (B "bool") a :: [WChars t] ++ [WEnd]) = Ok (RStart (B "bool") a :: [RChars t] ++ [REnd (B "bool")]) /\
  read_value_xml o (B "bool") (RStart (B "bool") a :: [RChars t] ++ [REnd (B "bool")]) = Ok (RVal (VBool b), []).
Proof. exact bool_roundtrip. Qed.

Theorem C02_int32_roundtrip :
  forall (o : xoracle) (z : Z) (name : bytes),
  (-2147483648 <= z <= 2147483647)%Z ->
  let a := [(B "name", name)] in
  chan_go [] t0 (WStart (B "int") a :: w_string (dec_of_Z z) ++ [WEnd]) = Ok (outer_events (B "int") a (dec_of_Z z)) /\
  read_value_xml o (B "int") (outer_events (B "int") a (dec_of_Z z)) = Ok (RVal (VInt32 z), []).
Proof. exact int32_roundtrip. Qed.

Theorem C02_int64_roundtrip :
  forall (o : xoracle) (z : Z) (name : bytes),
  (-9223372036854775808 <= z <= 9223372036854775807)%Z ->
  let a := [(B "name", name)] in
  chan_go [] t0 (WStart (B "int64") a :: w_string (dec_of_Z z) ++ [WEnd]) = Ok (outer_events (B "int64") a (dec_of_Z z)) /\
  read_value_xml o (B "int64") (outer_events (B "int64") a (dec_of_Z z)) = Ok (RVal (VInt64 z), []).
Proof. exact int64_roundtrip. Qed.

Theorem C02_enum_roundtrip :
  forall (o : xoracle) (n : N) (name : bytes),
  n < 4294967296 ->
  let a := [(B "name", name)] in
  chan_go [] t0 (WStart (B "token") a :: w_string (dec_of_N n) ++ [WEnd]) = Ok (outer_events (B "token") a (dec_of_N n)) /\
  read_value_xml o (B "token") (outer_events (B "token") a (dec_of_N n)) = Ok (RVal (VEnum n), []).
Proof. exact enum_roundtrip. Qed.

(* the documented normalisation: a BrickColor is written as <int> and, without help from the database, read as Int32 *)
Theorem C02_brickcolor_written_as_int :
  forall (o : xoracle) (n : N) (name : bytes),
  n < 65536 ->
  let a := [(B "name", name)] in
  write_xml o (VBrickColor n) = Some (B "int", Ok (w_string (dec_of_N n))) /\
  read_value_xml o (B "int") (outer_events (B "int") a (dec_of_N n)) = Ok (RVal (VInt32 (Z.of_N n)), []).
Proof. exact brickcolor_roundtrip. Qed.

Theorem C02_binary_string_roundtrip :
  forall (o : xoracle) (b : list N) (name : bytes),
  Forall (fun x : N => x < 256) b ->
  let a := [(B "name", name)] in
  exists (evs : list wevent) (revs : list revent),
    write_xml o (VBinaryString b) = Some (B "BinaryString", Ok evs) /\
    chan_go [] t0 (WStart (B "BinaryString") a :: evs ++ [WEnd]) = Ok revs /\
    read_value_xml o (B "BinaryString") revs = Ok (RVal (VBinaryString b), []).
Proof. exact binary_string_roundtrip. Qed.

(* floats: exact through their decimal text, INF / -INF / NAN for the non-finite ones; the premise is the law of
   Rust's Display/FromStr that the correspondence validates (trusted base) *)
Theorem C02_float32_roundtrip :
  forall o : xoracle,
  (forall (x : f32) (t : bytes),
     f32_is_nan x = false -> x <> F32_INF -> x <> F32_NINF -> xo_show32 o x = Some t ->
     xo_parse32 o t = Some (Some x) /\ t <> B "INF" /\ t <> B "-INF" /\ t <> B "NAN") ->
  forall (x : N) (name t : bytes),
  x < 4294967296 -> text_f32 o x = Ok t ->
  let a := [(B "name", name)] in
  chan_go [] t0 (WStart (B "float") a :: w_string t ++ [WEnd]) = Ok (outer_events (B "float") a t) /\
  read_value_xml o (B "float") (outer_events (B "float") a t) = Ok (RVal (VFloat32 (norm_f32 x)), []).
Proof. exact float32_roundtrip. Qed.

Theorem C02_float64_roundtrip :
  forall o : xoracle,
  (forall (x : f64) (t : bytes),
     f64_is_nan x = false -> x <> F64_INF -> x <> F64_NINF -> xo_show64 o x = Some t ->
     xo_parse64 o t = Some (Some x) /\ t <> B "INF" /\ t <> B "-INF" /\ t <> B "NAN") ->
  forall (x : f64) (name t : bytes),
  text_f64 o x = Ok t ->
  let a := [(B "name", name)] in
  chan_go [] t0 (WStart (B "double") a :: w_string t ++ [WEnd]) = Ok (outer_events (B "double") a t) /\
  read_value_xml o (B "double") (outer_events (B "double") a t) = Ok (RVal (VFloat64 (norm_f64 x)), []).
Proof. exact float64_roundtrip. Qed.

Theorem C02_vector3_roundtrip :
  forall o : xoracle,
  (forall (x : f32) (t : bytes),
     f32_is_nan x = false -> x <> F32_INF -> x <> F32_NINF -> xo_show32 o x = Some t ->
     xo_parse32 o t = Some (Some x) /\ t <> B "INF" /\ t <> B "-INF" /\ t <> B "NAN") ->
  forall (x y z : f32) (tx ty tz name : bytes),
  text_f32 o x = Ok tx -> text_f32 o y = Ok ty -> text_f32 o z = Ok tz ->
  let a := [(B "name", name)] in
  let revs := RStart (B "Vector3") a :: leaf_events "X" tx (leaf_events "Y" ty (leaf_events "Z" tz [REnd (B "Vector3")])) in
  (exists evs : list wevent,
     write_xml o (VVector3 (mkV3 x y z)) = Some (B "Vector3", Ok evs) /\
     chan_go [] t0 (WStart (B "Vector3") a :: evs ++ [WEnd]) = Ok revs) /\
  read_value_xml o (B "Vector3") revs = Ok (RVal (VVector3 (mkV3 (norm_f32 x) (norm_f32 y) (norm_f32 z))), []).
Proof. exact vector3_roundtrip. Qed.

(* references to later instances and shared strings are restored by the second pass *)
Theorem C02_forward_ref_and_shared_string_resolved :
  xml_decode e0 DReadUnknown
    [RStartDoc; RStart (B "roblox") [(B "version", B "4")];
     RStart (B "Item") [(B "class", B "ObjectValue"); (B "referent", B "A")]; RStart (B "Properties") [];
     RStart (B "Ref") [(B "name", B "Value")]; RChars (B "B"); REnd (B "Ref");
     RStart (B "SharedString") [(B "name", B "S")]; RChars (B "k1"); REnd (B "SharedString");
     REnd (B "Properties"); REnd (B "Item");
     RStart (B "Item") [(B "class", B "Folder"); (B "referent", B "B")]; REnd (B "Item");
     RStart (B "SharedStrings") []; RStart (B "SharedString") [(B "md5", B "k1")]; RChars (B "eHl6"); REnd (B "SharedString"); REnd (B "SharedStrings");
     REnd (B "roblox"); REndDoc]
  = Ok [mkInst 1 0 (B "ObjectValue") (B "ObjectValue") [(B "S", VSharedString (B "xyz")); (B "Value", VRef 2)];
        mkInst 2 0 (B "Folder") (B "Folder") []].
Proof. exact forward_ref_and_shared_string_resolved. Qed.

(* ---- the Name element of a class without a Name descriptor (repaired by /repo 9d6f480a) *)
Theorem C02_name_of_undescribed_class_is_read :
  forall (e : xenv) (beh : dbehavior) (class : bytes) (id : N) (a : attrs) (s : bytes) (st : dstate)
         (props : list (bytes * value)) (rest : list revent),
  beh <> DNoReflection ->
  find_desc_xml (xe_db e) (S_ class) "Name" = Ok None ->
  deserialize_property e beh class id (B "string") (B "Name") st props (RStart (B "string") a :: text_events s ++ REnd (B "string") :: rest)
  = Ok ((st, bupd (B "Name") (VString s) props), rest).
Proof. exact name_of_undescribed_class_is_read. Qed.

Theorem C02_name_kept_for_unknown_class :
  through EIgnoreUnknown DIgnoreUnknown [mkInst 1 0 (B "Zzz") (B "hello") []; mkInst 2 1 (B "Yyy") (B " a ]]> b ") []] [1]
  = Ok [mkInst 1 0 (B "Zzz") (B "hello") []; mkInst 2 1 (B "Yyy") (B " a ]]> b ") []].
Proof. exact name_kept_for_unknown_class. Qed.

Theorem C02_name_kept_with_unknown_properties_retained :
  through EWriteUnknown DReadUnknown [mkInst 1 0 (B "Zzz") (B " hello ]]> ") []] [1] = Ok [mkInst 1 0 (B "Zzz") (B " hello ]]> ") []].
Proof. exact name_kept_with_read_unknown. Qed.

(* ---- an explicit value of the new property survives beside a legacy migrating one (repaired by /repo 62703803) *)
Theorem C02_explicit_new_value_wins :
  (evs <- xml_encode e_mesh EIgnoreUnknown mesh_both [1] ;; revs <- channel evs ;; xml_decode e_mesh DIgnoreUnknown revs)
  = Ok [mkInst 1 0 (B "Mesh") (B "m") [(B "MeshContent", VContent (CUri (B "explicit")))]].
Proof. exact explicit_new_value_wins. Qed.

(* ---- refutation of the property as stated (current tree) *)
Theorem C02_content_object_refuted : forall (o : xoracle) (r : N), write_xml o (VContent (CObject r)) = Some (B "Content", Panic).
Proof. exact content_object_panics. Qed.

(* ---- for the record: the code before 9d6f480a / 62703803 (`_pinned` definitions of Model/XmlFile.v) *)
Theorem C02_name_lost_for_unknown_class_pinned :
  through_pinned EIgnoreUnknown DIgnoreUnknown [mkInst 1 0 (B "Zzz") (B "hello") []] [1] = Ok [mkInst 1 0 (B "Zzz") (B "Zzz") []].
Proof. exact name_lost_for_unknown_class_pinned. Qed.

Theorem C02_explicit_new_value_lost_pinned :
  (evs <- xml_encode_pinned e_mesh EIgnoreUnknown mesh_both [1] ;; revs <- channel evs ;; xml_decode e_mesh DIgnoreUnknown revs)
  = Ok [mkInst 1 0 (B "Mesh") (B "m") [(B "MeshContent", VContent (CUri (B "legacy")))]].
Proof. exact explicit_new_value_lost_pinned. Qed.

(* ==== the remaining value types (Proofs/XmlCompound2.v): write_xml -> channel -> read_value_xml gives back the value, for ALL values of
   the type for which the writer succeeds: Vector2, Color3, Color3uint8, UDim, UDim2, Rect, Ray, Vector3int16, Vector2int16,
   NumberRange, CFrame (finite components bit-exact; non-finite ones through Rust's Display spelling, NaN canonicalised),
   null Ref / referent text, Content, ContentId, NumberSequence / ColorSequence (two or more keypoints: shorter ones are written
   but REJECTED by the reader — *_not_read_back), UniqueId, Font, PhysicalProperties, OptionalCFrame, SecurityCapabilities, Faces,
   Axes, SharedString key.  Premises on the float text oracle are stated in each theorem. *)
From RbxVerif Require Import XmlCompound2.

Theorem C02_vector2_roundtrip :
  forall o : xoracle,
  (forall (x : f32) (t : bytes),
     f32_is_nan x = false -> x <> F32_INF -> x <> F32_NINF -> xo_show32 o x = Some t ->
     xo_parse32 o t = Some (Some x) /\ t <> B "INF" /\ t <> B "-INF" /\ t <> B "NAN") ->
  forall (v : vec2) (evs : list wevent),
  write_xml o (VVector2 v) = Some (B "Vector2", Ok evs) ->
  forall name : bytes, exists revs : list revent,
    chan_go [] t0 (WStart (B "Vector2") [(B "name", name)] :: evs ++ [WEnd]) = Ok revs /\
    read_value_xml o (B "Vector2") revs = Ok (RVal (VVector2 (mkV2 (norm_f32 (v2x v)) (norm_f32 (v2y v)))), []).
Proof. exact vector2_roundtrip. Qed.

Theorem C02_color3_roundtrip :
  forall o : xoracle,
  (forall (x : f32) (t : bytes),
     f32_is_nan x = false -> x <> F32_INF -> x <> F32_NINF -> xo_show32 o x = Some t ->
     xo_parse32 o t = Some (Some x) /\ t <> B "INF" /\ t <> B "-INF" /\ t <> B "NAN") ->
  forall (r g b : f32) (evs : list wevent),
  write_xml o (VColor3 r g b) = Some (B "Color3", Ok evs) ->
  forall name : bytes, exists revs : list revent,
    chan_go [] t0 (WStart (B "Color3") [(B "name", name)] :: evs ++ [WEnd]) = Ok revs /\
    read_value_xml o (B "Color3") revs = Ok (RVal (VColor3 (norm_f32 r) (norm_f32 g) (norm_f32 b)), []).
Proof. exact color3_roundtrip. Qed.

Theorem C02_color3uint8_roundtrip :
  forall (o : xoracle) (r g b : N) (evs : list wevent),
  r < 256 -> g < 256 -> b < 256 ->
  write_xml o (VColor3uint8 r g b) = Some (B "Color3uint8", Ok evs) ->
  forall name : bytes, exists revs : list revent,
    chan_go [] t0 (WStart (B "Color3uint8") [(B "name", name)] :: evs ++ [WEnd]) = Ok revs /\
    read_value_xml o (B "Color3uint8") revs = Ok (RVal (VColor3uint8 r g b), []).
Proof. exact color3uint8_roundtrip. Qed.

Theorem C02_udim_roundtrip :
  forall o : xoracle,
  (forall (x : f32) (t : bytes),
     f32_is_nan x = false -> x <> F32_INF -> x <> F32_NINF -> xo_show32 o x = Some t ->
     xo_parse32 o t = Some (Some x) /\ t <> B "INF" /\ t <> B "-INF" /\ t <> B "NAN") ->
  forall (u : udim) (evs : list wevent),
  (-2147483648 <= ud_offset u <= 2147483647)%Z ->
  write_xml o (VUDim u) = Some (B "UDim", Ok evs) ->
  forall name : bytes, exists revs : list revent,
    chan_go [] t0 (WStart (B "UDim") [(B "name", name)] :: evs ++ [WEnd]) = Ok revs /\
    read_value_xml o (B "UDim") revs = Ok (RVal (VUDim (mkUDim (norm_f32 (ud_scale u)) (ud_offset u))), []).
Proof. exact udim_roundtrip. Qed.

Theorem C02_udim2_roundtrip :
  forall o : xoracle,
  (forall (x : f32) (t : bytes),
     f32_is_nan x = false -> x <> F32_INF -> x <> F32_NINF -> xo_show32 o x = Some t ->
     xo_parse32 o t = Some (Some x) /\ t <> B "INF" /\ t <> B "-INF" /\ t <> B "NAN") ->
  forall (x y : udim) (evs : list wevent),
  (-2147483648 <= ud_offset x <= 2147483647)%Z -> (-2147483648 <= ud_offset y <= 2147483647)%Z ->
  write_xml o (VUDim2 x y) = Some (B "UDim2", Ok evs) ->
  forall name : bytes, exists revs : list revent,
    chan_go [] t0 (WStart (B "UDim2") [(B "name", name)] :: evs ++ [WEnd]) = Ok revs /\
    read_value_xml o (B "UDim2") revs
      = Ok (RVal (VUDim2 (mkUDim (norm_f32 (ud_scale x)) (ud_offset x)) (mkUDim (norm_f32 (ud_scale y)) (ud_offset y))), []).
Proof. exact udim2_roundtrip. Qed.

Theorem C02_rect_roundtrip :
  forall o : xoracle,
  (forall (x : f32) (t : bytes),
     f32_is_nan x = false -> x <> F32_INF -> x <> F32_NINF -> xo_show32 o x = Some t ->
     xo_parse32 o t = Some (Some x) /\ t <> B "INF" /\ t <> B "-INF" /\ t <> B "NAN") ->
  forall (lo hi : vec2) (evs : list wevent),
  write_xml o (VRect lo hi) = Some (B "Rect2D", Ok evs) ->
  forall name : bytes, exists revs : list revent,
    chan_go [] t0 (WStart (B "Rect2D") [(B "name", name)] :: evs ++ [WEnd]) = Ok revs /\
    read_value_xml o (B "Rect2D") revs = Ok (RVal (VRect (norm_v2 lo) (norm_v2 hi)), []).
Proof. exact rect_roundtrip. Qed.

Theorem C02_ray_roundtrip :
  forall o : xoracle,
  (forall (x : f32) (t : bytes),
     f32_is_nan x = false -> x <> F32_INF -> x <> F32_NINF -> xo_show32 o x = Some t ->
     xo_parse32 o t = Some (Some x) /\ t <> B "INF" /\ t <> B "-INF" /\ t <> B "NAN") ->
  forall (orig dir : vec3) (evs : list wevent),
  write_xml o (VRay orig dir) = Some (B "Ray", Ok evs) ->
  forall name : bytes, exists revs : list revent,
    chan_go [] t0 (WStart (B "Ray") [(B "name", name)] :: evs ++ [WEnd]) = Ok revs /\
    read_value_xml o (B "Ray") revs = Ok (RVal (VRay (norm_v3 orig) (norm_v3 dir)), []).
Proof. exact ray_roundtrip. Qed.

Theorem C02_vector3int16_roundtrip :
  forall (o : xoracle) (x y z : Z) (evs : list wevent),
  (-32768 <= x <= 32767)%Z -> (-32768 <= y <= 32767)%Z -> (-32768 <= z <= 32767)%Z ->
  write_xml o (VVector3int16 x y z) = Some (B "Vector3int16", Ok evs) ->
  forall name : bytes, exists revs : list revent,
    chan_go [] t0 (WStart (B "Vector3int16") [(B "name", name)] :: evs ++ [WEnd]) = Ok revs /\
    read_value_xml o (B "Vector3int16") revs = Ok (RVal (VVector3int16 x y z), []).
Proof. exact vector3int16_roundtrip. Qed.

Theorem C02_vector2int16_roundtrip :
  forall (o : xoracle) (x y : Z) (evs : list wevent),
  (-32768 <= x <= 32767)%Z -> (-32768 <= y <= 32767)%Z ->
  write_xml o (VVector2int16 x y) = Some (B "Vector2int16", Ok evs) ->
  forall name : bytes, exists revs : list revent,
    chan_go [] t0 (WStart (B "Vector2int16") [(B "name", name)] :: evs ++ [WEnd]) = Ok revs /\
    read_value_xml o (B "Vector2int16") revs = Ok (RVal (VVector2int16 x y), []).
Proof. exact vector2int16_roundtrip. Qed.

Theorem C02_physical_properties_roundtrip :
  forall o : xoracle,
  (forall (x : f32) (t : bytes),
     f32_is_nan x = false -> x <> F32_INF -> x <> F32_NINF -> xo_show32 o x = Some t ->
     xo_parse32 o t = Some (Some x) /\ t <> B "INF" /\ t <> B "-INF" /\ t <> B "NAN") ->
  forall (p : option physprops) (evs : list wevent),
  write_xml o (VPhysicalProperties p) = Some (B "PhysicalProperties", Ok evs) ->
  forall name : bytes, exists revs : list revent,
    chan_go [] t0 (WStart (B "PhysicalProperties") [(B "name", name)] :: evs ++ [WEnd]) = Ok revs /\
    read_value_xml o (B "PhysicalProperties") revs = Ok (RVal (VPhysicalProperties (norm_phys p)), []).
Proof. exact physical_properties_roundtrip. Qed.

(* CFrame: (i) under the premise of C02_vector3_roundtrip, every CFrame with finite components, bit-exactly *)
Theorem C02_cframe_roundtrip_finite :
  forall o : xoracle,
  (forall (x : f32) (t : bytes),
     f32_is_nan x = false -> x <> F32_INF -> x <> F32_NINF -> xo_show32 o x = Some t ->
     xo_parse32 o t = Some (Some x) /\ t <> B "INF" /\ t <> B "-INF" /\ t <> B "NAN") ->
  forall (c : cframe) (evs : list wevent),
  P_cf (fun x => f32_is_nan x = false /\ x <> F32_INF /\ x <> F32_NINF) c ->
  write_xml o (VCFrame c) = Some (B "CoordinateFrame", Ok evs) ->
  forall name : bytes, exists revs : list revent,
    chan_go [] t0 (WStart (B "CoordinateFrame") [(B "name", name)] :: evs ++ [WEnd]) = Ok revs /\
    read_value_xml o (B "CoordinateFrame") revs = Ok (RVal (VCFrame c), []).
Proof. exact (fun o law c evs => cframe_roundtrip_finite o c evs law). Qed.

(* (ii) every CFrame, if the oracle's Display texts of ALL floats (also `inf`, `-inf`, `NaN`) parse back *)
Theorem C02_cframe_roundtrip_all :
  forall o : xoracle,
  (forall (x : f32) (t : bytes), True -> xo_show32 o x = Some t ->
     xo_parse32 o t = Some (Some (norm_f32 x)) /\ t <> B "INF" /\ t <> B "-INF" /\ t <> B "NAN") ->
  forall (c : cframe) (evs : list wevent),
  write_xml o (VCFrame c) = Some (B "CoordinateFrame", Ok evs) ->
  forall name : bytes, exists revs : list revent,
    chan_go [] t0 (WStart (B "CoordinateFrame") [(B "name", name)] :: evs ++ [WEnd]) = Ok revs /\
    read_value_xml o (B "CoordinateFrame") revs = Ok (RVal (VCFrame (norm_cf c)), []).
Proof. exact (fun o dl c evs => cframe_roundtrip_all o c evs dl). Qed.

Theorem C02_optional_cframe_roundtrip_finite :
  forall o : xoracle,
  (forall (x : f32) (t : bytes),
     f32_is_nan x = false -> x <> F32_INF -> x <> F32_NINF -> xo_show32 o x = Some t ->
     xo_parse32 o t = Some (Some x) /\ t <> B "INF" /\ t <> B "-INF" /\ t <> B "NAN") ->
  forall (c : option cframe) (evs : list wevent),
  match c with Some cf => P_cf finite32 cf | None => True end ->
  write_xml o (VOptionalCFrame c) = Some (B "OptionalCoordinateFrame", Ok evs) ->
  forall name : bytes, exists revs : list revent,
    chan_go [] t0 (WStart (B "OptionalCoordinateFrame") [(B "name", name)] :: evs ++ [WEnd]) = Ok revs /\
    read_value_xml o (B "OptionalCoordinateFrame") revs = Ok (RVal (VOptionalCFrame c), []).
Proof. exact (fun o law c evs => optional_cframe_roundtrip_finite o c evs law). Qed.

Theorem C02_optional_cframe_roundtrip_all :
  forall o : xoracle, display_law o all32 ->
  forall (c : option cframe) (evs : list wevent),
  write_xml o (VOptionalCFrame c) = Some (B "OptionalCoordinateFrame", Ok evs) ->
  forall name : bytes, exists revs : list revent,
    chan_go [] t0 (WStart (B "OptionalCoordinateFrame") [(B "name", name)] :: evs ++ [WEnd]) = Ok revs /\
    read_value_xml o (B "OptionalCoordinateFrame") revs = Ok (RVal (VOptionalCFrame (option_map norm_cf c)), []).
Proof. exact (fun o dl c evs => optional_cframe_roundtrip_all o c evs dl). Qed.

Theorem C02_number_range_roundtrip_finite :
  forall o : xoracle,
  (forall (x : f32) (t : bytes),
     f32_is_nan x = false -> x <> F32_INF -> x <> F32_NINF -> xo_show32 o x = Some t ->
     xo_parse32 o t = Some (Some x) /\ t <> B "INF" /\ t <> B "-INF" /\ t <> B "NAN") ->
  (forall (x : f32) (t : bytes), xo_show32 o x = Some t -> t <> [] /\ Forall (fun c => 32 < c < 127) t) ->
  forall (lo hi : f32) (evs : list wevent),
  finite32 lo -> finite32 hi ->
  write_xml o (VNumberRange lo hi) = Some (B "NumberRange", Ok evs) ->
  forall name : bytes, exists revs : list revent,
    chan_go [] t0 (WStart (B "NumberRange") [(B "name", name)] :: evs ++ [WEnd]) = Ok revs /\
    read_value_xml o (B "NumberRange") revs = Ok (RVal (VNumberRange lo hi), []).
Proof. exact (fun o law pl lo hi evs => number_range_roundtrip_finite o lo hi evs law pl). Qed.

Theorem C02_number_range_roundtrip_all :
  forall o : xoracle, display_law o all32 -> show32_plain o ->
  forall (lo hi : f32) (evs : list wevent),
  write_xml o (VNumberRange lo hi) = Some (B "NumberRange", Ok evs) ->
  forall name : bytes, exists revs : list revent,
    chan_go [] t0 (WStart (B "NumberRange") [(B "name", name)] :: evs ++ [WEnd]) = Ok revs /\
    read_value_xml o (B "NumberRange") revs = Ok (RVal (VNumberRange (norm_f32 lo) (norm_f32 hi)), []).
Proof. exact (fun o dl pl lo hi evs => number_range_roundtrip_all o lo hi evs dl pl). Qed.

Theorem C02_number_sequence_roundtrip_finite :
  forall o : xoracle,
  (forall (x : f32) (t : bytes),
     f32_is_nan x = false -> x <> F32_INF -> x <> F32_NINF -> xo_show32 o x = Some t ->
     xo_parse32 o t = Some (Some x) /\ t <> B "INF" /\ t <> B "-INF" /\ t <> B "NAN") ->
  show32_plain o ->
  forall (kps : list (f32 * f32 * f32)) (evs : list wevent),
  (2 <= length kps)%nat -> Forall (P_kp3 finite32) kps ->
  write_xml o (VNumberSequence kps) = Some (B "NumberSequence", Ok evs) ->
  forall name : bytes, exists revs : list revent,
    chan_go [] t0 (WStart (B "NumberSequence") [(B "name", name)] :: evs ++ [WEnd]) = Ok revs /\
    read_value_xml o (B "NumberSequence") revs = Ok (RVal (VNumberSequence kps), []).
Proof. exact (fun o law pl kps evs => number_sequence_roundtrip_finite o kps evs law pl). Qed.

Theorem C02_number_sequence_roundtrip_all :
  forall o : xoracle, display_law o all32 -> show32_plain o ->
  forall (kps : list (f32 * f32 * f32)) (evs : list wevent),
  (2 <= length kps)%nat ->
  write_xml o (VNumberSequence kps) = Some (B "NumberSequence", Ok evs) ->
  forall name : bytes, exists revs : list revent,
    chan_go [] t0 (WStart (B "NumberSequence") [(B "name", name)] :: evs ++ [WEnd]) = Ok revs /\
    read_value_xml o (B "NumberSequence") revs = Ok (RVal (VNumberSequence (List.map norm_kp3 kps)), []).
Proof. exact (fun o dl pl kps evs => number_sequence_roundtrip_all o kps evs dl pl). Qed.

Theorem C02_color_sequence_roundtrip_finite :
  forall o : xoracle,
  (forall (x : f32) (t : bytes),
     f32_is_nan x = false -> x <> F32_INF -> x <> F32_NINF -> xo_show32 o x = Some t ->
     xo_parse32 o t = Some (Some x) /\ t <> B "INF" /\ t <> B "-INF" /\ t <> B "NAN") ->
  show32_plain o -> (exists z, xo_parse32 o (B "0") = Some (Some z)) ->
  forall (kps : list (f32 * (f32 * f32 * f32))) (evs : list wevent),
  (2 <= length kps)%nat -> Forall (P_kp4 finite32) kps ->
  write_xml o (VColorSequence kps) = Some (B "ColorSequence", Ok evs) ->
  forall name : bytes, exists revs : list revent,
    chan_go [] t0 (WStart (B "ColorSequence") [(B "name", name)] :: evs ++ [WEnd]) = Ok revs /\
    read_value_xml o (B "ColorSequence") revs = Ok (RVal (VColorSequence kps), []).
Proof. exact (fun o law pl hz kps evs => color_sequence_roundtrip_finite o kps evs law pl hz). Qed.

Theorem C02_color_sequence_roundtrip_all :
  forall o : xoracle, display_law o all32 -> show32_plain o -> (exists z, xo_parse32 o (B "0") = Some (Some z)) ->
  forall (kps : list (f32 * (f32 * f32 * f32))) (evs : list wevent),
  (2 <= length kps)%nat ->
  write_xml o (VColorSequence kps) = Some (B "ColorSequence", Ok evs) ->
  forall name : bytes, exists revs : list revent,
    chan_go [] t0 (WStart (B "ColorSequence") [(B "name", name)] :: evs ++ [WEnd]) = Ok revs /\
    read_value_xml o (B "ColorSequence") revs = Ok (RVal (VColorSequence (List.map norm_kp4 kps)), []).
Proof. exact (fun o dl pl hz kps evs => color_sequence_roundtrip_all o kps evs dl pl hz). Qed.

Theorem C02_unique_id_roundtrip :
  forall (o : xoracle) (index time : N) (random : Z) (evs : list wevent),
  index < 2 ^ 32 -> time < 2 ^ 32 -> (- 2 ^ 63 <= random < 2 ^ 63)%Z ->
  write_xml o (VUniqueId index time random) = Some (B "UniqueId", Ok evs) ->
  forall name : bytes, exists revs : list revent,
    chan_go [] t0 (WStart (B "UniqueId") [(B "name", name)] :: evs ++ [WEnd]) = Ok revs /\
    read_value_xml o (B "UniqueId") revs = Ok (RVal (VUniqueId index time random), []).
Proof. exact unique_id_roundtrip. Qed.

Theorem C02_font_roundtrip :
  forall (o : xoracle) (f : font) (evs : list wevent),
  fo_weight f < 65536 ->
  write_xml o (VFont f) = Some (B "Font", Ok evs) ->
  forall name : bytes, exists revs : list revent,
    chan_go [] t0 (WStart (B "Font") [(B "name", name)] :: evs ++ [WEnd]) = Ok revs /\
    read_value_xml o (B "Font") revs
      = Ok (RVal (VFont (mkFont (fo_family f) (if font_weight_ok (fo_weight f) then fo_weight f else 400)
                                (if fo_style f =? 0 then 0 else 1) (fo_cached f))), []).
Proof. exact font_roundtrip. Qed.

Theorem C02_content_roundtrip :
  forall (o : xoracle) (c : content) (evs : list wevent),
  write_xml o (VContent c) = Some (B "Content", Ok evs) ->
  match c with CObject _ => False | _ => True end /\
  forall name : bytes, exists revs : list revent,
    chan_go [] t0 (WStart (B "Content") [(B "name", name)] :: evs ++ [WEnd]) = Ok revs /\
    read_value_xml o (B "Content") revs = Ok (RVal (VContent c), []).
Proof. exact content_roundtrip. Qed.

Theorem C02_content_id_roundtrip :
  forall (o : xoracle) (u : bytes) (evs : list wevent),
  write_xml o (VContentId u) = Some (B "ContentId", Ok evs) ->
  forall name : bytes, exists revs : list revent,
    chan_go [] t0 (WStart (B "ContentId") [(B "name", name)] :: evs ++ [WEnd]) = Ok revs /\
    read_value_xml o (B "ContentId") revs = Ok (RVal (VContentId u), []).
Proof. exact content_id_roundtrip. Qed.

Theorem C02_security_capabilities_roundtrip :
  forall (o : xoracle) (bits : N) (evs : list wevent),
  bits < 18446744073709551616 ->
  write_xml o (VSecurityCapabilities bits) = Some (B "SecurityCapabilities", Ok evs) ->
  forall name : bytes, exists revs : list revent,
    chan_go [] t0 (WStart (B "SecurityCapabilities") [(B "name", name)] :: evs ++ [WEnd]) = Ok revs /\
    read_value_xml o (B "SecurityCapabilities") revs = Ok (RVal (VSecurityCapabilities bits), []).
Proof. exact security_capabilities_roundtrip2. Qed.

Theorem C02_faces_roundtrip :
  forall (o : xoracle) (bits : N) (evs : list wevent),
  bits < 64 ->
  write_xml o (VFaces bits) = Some (B "Faces", Ok evs) ->
  forall name : bytes, exists revs : list revent,
    chan_go [] t0 (WStart (B "Faces") [(B "name", name)] :: evs ++ [WEnd]) = Ok revs /\
    read_value_xml o (B "Faces") revs = Ok (RVal (VFaces bits), []).
Proof. exact faces_roundtrip. Qed.

Theorem C02_axes_roundtrip :
  forall (o : xoracle) (bits : N) (evs : list wevent),
  bits < 8 ->
  write_xml o (VAxes bits) = Some (B "Axes", Ok evs) ->
  forall name : bytes, exists revs : list revent,
    chan_go [] t0 (WStart (B "Axes") [(B "name", name)] :: evs ++ [WEnd]) = Ok revs /\
    read_value_xml o (B "Axes") revs = Ok (RVal (VAxes bits), []).
Proof. exact axes_roundtrip. Qed.
Theorem C02_number_sequence_empty_not_read_back :
  forall (o : xoracle) (name : bytes),
       write_xml o (VNumberSequence []) = Some (B "NumberSequence", Ok []) /\
       chan_go [] t0 (WStart (B "NumberSequence") [(B "name", name)] :: [] ++ [WEnd]) =
       Ok [RStart (B "NumberSequence") [(B "name", name)]; REnd (B "NumberSequence")] /\
       read_value_xml o (B "NumberSequence")
         [RStart (B "NumberSequence") [(B "name", name)]; REnd (B "NumberSequence")] = 
       Err DE_CONTENT.
Proof. exact number_sequence_empty_not_read_back. Qed.

Theorem C02_color_sequence_empty_not_read_back :
  forall (o : xoracle) (name : bytes),
       write_xml o (VColorSequence []) = Some (B "ColorSequence", Ok []) /\
       chan_go [] t0 (WStart (B "ColorSequence") [(B "name", name)] :: [] ++ [WEnd]) =
       Ok [RStart (B "ColorSequence") [(B "name", name)]; REnd (B "ColorSequence")] /\
       read_value_xml o (B "ColorSequence")
         [RStart (B "ColorSequence") [(B "name", name)]; REnd (B "ColorSequence")] = 
       Err DE_CONTENT.
Proof. exact color_sequence_empty_not_read_back. Qed.

(* ==== THE WHOLE-FILE THEOREMS (Proofs/XmlRoundTrip.v): xml_decode (channel (xml_encode d roots)) for arbitrary DOMs.
   forest_rel: one decoded instance per written instance in document order, labelled 1,2,3.., same class, same name (any byte string),
   parent = label of the parent (0 for the roots), root order and child order preserved.  same_forest adds, per instance and key:
   VRef r -> VRef (label of r) (0 for the null Ref and for a Ref to an unwritten instance), VSharedString c -> VSharedString c (through the
   dictionary), any other value through the per-type law; keys absent in the source are absent after decoding.
   Proved in full for the plain pairing (no reflection, or Write/ReadUnknown on classes the database does not know); the forest for ANY
   behaviours and database under an explicit law of the reader's per-property step (generic) or computed from the database (reflection).
   Closed corollary for 26 value types under the two float-text laws.  Each hypothesis is shown necessary by a computed counter-example:
   a property literally called `Name` overrides the instance name (Instance documents Name as not being a property), overlapping roots,
   duplicate keys / referents, a database that makes `Name` an alias, a value the reader rejects (one-keypoint sequence), SharedStrings whose
   hashes agree on the 16 bytes written. *)
From RbxVerif Require Import XmlStructure XmlRoundTrip.

Theorem C02_xml_roundtrip_forest :
  forall (e : xenv) (ebeh : ebehavior) (dbeh : dbehavior) (d : cdom) (roots : list N)
         (evs : list wevent) (revs : list revent),
       input_ok d roots ->
       plain_mode e ebeh dbeh d roots ->
       hash_bytes e ->
       readable_dom e d roots ->
       xml_encode e ebeh d roots = Ok evs ->
       channel evs = Ok revs -> exists d' : cdom, xml_decode e dbeh revs = Ok d' /\ forest_rel d roots d'.
Proof. exact xml_roundtrip_forest. Qed.

Theorem C02_xml_roundtrip_forest_generic :
  forall (e : xenv) (ebeh : ebehavior) (dbeh : dbehavior) (D : dout) (d : cdom) 
         (roots : list N) (evs : list wevent) (revs : list revent),
       input_ok0 d roots ->
       hash_bytes e ->
       readable e ebeh d roots ->
       dec_law e ebeh dbeh D d roots ->
       xml_encode e ebeh d roots = Ok evs ->
       channel evs = Ok revs -> exists d' : cdom, xml_decode e dbeh revs = Ok d' /\ forest_rel d roots d'.
Proof. exact xml_roundtrip_forest_generic. Qed.

Theorem C02_xml_roundtrip_forest_reflection :
  forall (e : xenv) (ebeh : ebehavior) (dbeh : dbehavior) (d : cdom) (roots : list N)
         (evs : list wevent) (revs : list revent),
       input_ok0 d roots ->
       hash_bytes e ->
       readable e ebeh d roots ->
       refl_law e ebeh dbeh d roots ->
       xml_encode e ebeh d roots = Ok evs ->
       channel evs = Ok revs -> exists d' : cdom, xml_decode e dbeh revs = Ok d' /\ forest_rel d roots d'.
Proof. exact xml_roundtrip_forest_reflection. Qed.

Theorem C02_xml_roundtrip :
  forall (e : xenv) (ebeh : ebehavior) (dbeh : dbehavior) (d : cdom) (roots : list N)
         (evs : list wevent) (revs : list revent),
       input_ok d roots ->
       plain_mode e ebeh dbeh d roots ->
       hash_ok e ->
       readable_dom e d roots ->
       xml_encode e ebeh d roots = Ok evs ->
       channel evs = Ok revs -> exists d' : cdom, xml_decode e dbeh revs = Ok d' /\ same_forest e d roots d'.
Proof. exact xml_roundtrip. Qed.

Theorem C02_xml_roundtrip_values :
  forall (e : xenv) (ebeh : ebehavior) (dbeh : dbehavior) (d : cdom) (roots : list N)
         (norm : value -> value) (evs : list wevent) (revs : list revent),
       input_ok d roots ->
       plain_mode e ebeh dbeh d roots ->
       hash_ok e ->
       (forall (id : N) (i : inst) (k : bytes) (v : value),
        In id (written d roots) ->
        find_inst d id = Some i -> In (k, v) (i_props i) -> nonspecial v -> vlaw (xe_o e) v (norm v)) ->
       xml_encode e ebeh d roots = Ok evs ->
       channel evs = Ok revs ->
       exists d' : cdom,
         xml_decode e dbeh revs = Ok d' /\
         same_forest e d roots d' /\ Forall2 (values_back d (written d roots) norm) (written d roots) d'.
Proof. exact xml_roundtrip_values. Qed.

Theorem C02_xml_roundtrip_simple_types :
  forall (e : xenv) (ebeh : ebehavior) (dbeh : dbehavior) (d : cdom) (roots : list N)
         (evs : list wevent) (revs : list revent),
       input_ok d roots ->
       plain_mode e ebeh dbeh d roots ->
       hash_ok e ->
       float_laws (xe_o e) ->
       simple_dom d roots ->
       xml_encode e ebeh d roots = Ok evs ->
       channel evs = Ok revs ->
       exists d' : cdom,
         xml_decode e dbeh revs = Ok d' /\
         same_forest e d roots d' /\
         Forall2 (values_back d (written d roots) norm_simple) (written d roots) d'.
Proof. exact xml_roundtrip_simple_types. Qed.

Theorem C02_xml_roundtrip_refs :
  forall (e : xenv) (ebeh : ebehavior) (dbeh : dbehavior) (d : cdom) (roots : list N)
         (evs : list wevent) (revs : list revent),
       input_ok d roots ->
       plain_mode e ebeh dbeh d roots ->
       hash_ok e ->
       readable_dom e d roots ->
       xml_encode e ebeh d roots = Ok evs ->
       channel evs = Ok revs ->
       exists d' : cdom,
         xml_decode e dbeh revs = Ok d' /\
         Forall2 (refs_back d (written d roots)) (written d roots) d' /\
         label (written d roots) 0 = 0 /\
         (forall r : N, ~ In r (written d roots) -> label (written d roots) r = 0) /\
         (forall r : N,
          In r (written d roots) ->
          1 <= label (written d roots) r <= N.of_nat (Datatypes.length (written d roots)) /\
          nth_error (written d roots) (N.to_nat (label (written d roots) r) - 1) = Some r).
Proof. exact xml_roundtrip_refs. Qed.

Theorem C02_xml_roundtrip_example :
  written d_rt [1; 5] = [1; 2; 3; 5] /\
       input_ok d_rt [1; 5] /\
       plain_mode e_rt EWriteUnknown DReadUnknown d_rt [1; 5] /\
       hash_ok e_rt /\
       float_laws (xe_o e_rt) /\
       simple_dom d_rt [1; 5] /\
       (exists (evs : list wevent) (revs : list revent),
          xml_encode e_rt EWriteUnknown d_rt [1; 5] = Ok evs /\
          channel evs = Ok revs /\
          xml_decode e_rt DReadUnknown revs = Ok d_rt_back /\
          same_forest e_rt d_rt [1; 5] d_rt_back /\
          forest_rel d_rt [1; 5] d_rt_back /\
          Forall2 (values_back d_rt [1; 2; 3; 5] norm_simple) [1; 2; 3; 5] d_rt_back /\
          List.map (label [1; 2; 3; 5]) [1; 2; 3; 5; 0; 4; 99] = [1; 2; 3; 4; 0; 0; 0]).
Proof. exact xml_roundtrip_example. Qed.

Theorem C02_xml_roundtrip_reflection_example :
  input_ok0 d_refl [1] /\
       hash_bytes e_refl /\
       readable e_refl EIgnoreUnknown d_refl [1] /\
       refl_law e_refl EIgnoreUnknown DIgnoreUnknown d_refl [1] /\
       thru e_refl EIgnoreUnknown DIgnoreUnknown d_refl [1] =
       Ok
         [{|
            i_ref := 1;
            i_parent := 0;
            i_class := B "Part";
            i_name := B "p";
            i_props :=
              [(B "Transparency", VFloat32 XmlCompound2.F32_HALF);
               (B "Size", VVector3 {| vx := F32_ONE; vy := F32_ONE; vz := F32_ZERO |})]
          |};
          {|
            i_ref := 2;
            i_parent := 1;
            i_class := B "Part";
            i_name := B " kid ";
            i_props :=
              [(B "Size", VVector3 {| vx := XmlCompound2.F32_HALF; vy := F32_ONE; vz := F32_ZERO |})]
          |}; {| i_ref := 3; i_parent := 1; i_class := B "Gizmo"; i_name := B "g"; i_props := [] |}].
Proof. exact xml_roundtrip_reflection_example. Qed.

Theorem C02_name_property_refuted :
  thru XmlFileFacts.e0 ENoReflection DNoReflection
         [{|
            i_ref := 1;
            i_parent := 0;
            i_class := B "Folder";
            i_name := B "real";
            i_props := [(B "Name", VString (B "fake"))]
          |}] [1] =
       Ok [{| i_ref := 1; i_parent := 0; i_class := B "Folder"; i_name := B "fake"; i_props := [] |}].
Proof. exact name_property_refuted. Qed.

Theorem C02_name_property_not_string_refuted :
  thru XmlFileFacts.e0 ENoReflection DNoReflection
         [{|
            i_ref := 1;
            i_parent := 0;
            i_class := B "Folder";
            i_name := B "real";
            i_props := [(B "Name", VInt32 1)]
          |}] [1] = Err DE_NAME.
Proof. exact name_property_not_string_refuted. Qed.

Theorem C02_overlapping_roots_refuted :
  thru XmlFileFacts.e0 ENoReflection DNoReflection
         [{|
            i_ref := 1;
            i_parent := 0;
            i_class := B "Folder";
            i_name := B "a";
            i_props := [(B "Self", VRef 1)]
          |}] [1; 1] =
       Ok
         [{|
            i_ref := 1;
            i_parent := 0;
            i_class := B "Folder";
            i_name := B "a";
            i_props := [(B "Self", VRef 2)]
          |};
          {|
            i_ref := 2;
            i_parent := 0;
            i_class := B "Folder";
            i_name := B "a";
            i_props := [(B "Self", VRef 2)]
          |}] /\
       label
         (written
            [{|
               i_ref := 1;
               i_parent := 0;
               i_class := B "Folder";
               i_name := B "a";
               i_props := [(B "Self", VRef 1)]
             |}] [1; 1]) 1 = 1.
Proof. exact overlapping_roots_refuted. Qed.

Theorem C02_duplicate_key_refuted :
  thru XmlFileFacts.e0 ENoReflection DNoReflection
         [{|
            i_ref := 1;
            i_parent := 0;
            i_class := B "Folder";
            i_name := B "a";
            i_props := [(B "K", VInt32 1); (B "K", VInt32 2)]
          |}] [1] =
       Ok
         [{|
            i_ref := 1; i_parent := 0; i_class := B "Folder"; i_name := B "a"; i_props := [(B "K", VInt32 2)]
          |}] /\ bfind (B "K") [(B "K", VInt32 1); (B "K", VInt32 2)] = Some (VInt32 1).
Proof. exact duplicate_key_refuted. Qed.

Theorem C02_name_alias_refuted :
  thru e_alias EWriteUnknown DReadUnknown
         [{| i_ref := 1; i_parent := 0; i_class := B "Folder"; i_name := B "real"; i_props := [] |}] [1] =
       Ok
         [{|
            i_ref := 1;
            i_parent := 0;
            i_class := B "Folder";
            i_name := B "Folder";
            i_props := [(B "Title", VString (B "real"))]
          |}].
Proof. exact name_alias_refuted. Qed.

Theorem C02_unreadable_value_refuted :
  thru e_o1 ENoReflection DNoReflection
         [{|
            i_ref := 1;
            i_parent := 0;
            i_class := B "Folder";
            i_name := B "f";
            i_props := [(B "Seq", VNumberSequence [(0, F32_ONE, 0)])]
          |}] [1] = Err DE_CONTENT.
Proof. exact unreadable_value_refuted. Qed.

Theorem C02_hash_prefix_collision_refuted :
  firstn 16 h_a = firstn 16 h_b /\
       B "aaa" <> B "bbb" /\
       xe_hash e_amb (B "aaa") = Some h_a /\
       xe_hash e_amb (B "bbb") = Some h_b /\
       thru e_amb ENoReflection DNoReflection d_amb [1] =
       Ok
         [{|
            i_ref := 1;
            i_parent := 0;
            i_class := B "Folder";
            i_name := B "f";
            i_props := [(B "S2", VSharedString (B "bbb")); (B "S1", VSharedString (B "bbb"))]
          |}].
Proof. exact hash_prefix_collision_refuted. Qed.

(* ==== DATABASE-KNOWN PROPERTIES UNDER REFLECTION (Proofs/XmlKnownProps.v), generic in the per-value law of the value codec (26 simple types;
   extended codec: CFrame, OptionalCFrame, NumberRange, sequences, BrickColor, Tags, MaterialColors): for a described non-migrating property the
   writer emits exactly one element under the SERIALIZED name holding the value converted to the serialized type, and the reader stores, under
   the CANONICAL name, norm_known of it — the identity on NaN-free values except for the documented normalisations (Color3 in a byte-colour
   property quantised; Font clamping).  Whole file (xml_roundtrip_known): with the default options (IgnoreUnknown) and with Write/ReadUnknown, for
   DOMs with one spelling per logical property: same forest, every known property back under its canonical name with norm_known of its value,
   Refs relabelled, SharedStrings restored, unknown properties dropped by the default options (kept under their own key otherwise), no duplicate
   keys.  Instantiated on the BUNDLED database by an executable check over all 22 588 (class, key) pairs with exactly two exceptions, which are
   the recorded finding canonical-name-changes as theorems (seras_not_back_refuted: Sound.MaxDistance comes back as RollOffMaxDistance,
   MaterialService.Use2022Materials as Use2022MaterialsXml; seras_clash_refuted: with both set one value is lost).  Two spellings of one property
   on one instance: the outcome is a function of the property MAP (the spelling last in byte order survives), not of its listing. *)
From RbxVerif Require Import DbCheck XmlKnownProps.

Theorem C02_known_prop_step :
  forall (e : xenv) (vc : vcodec (xe_o e)) (ebeh : ebehavior) (dbeh : dbehavior) 
         (c : bytes) (keys : list bytes) (st : estate) (k : bytes) (v : value) (canon ser ser' : pdesc)
         (ev : list wevent) (st' : estate),
       ebeh <> ENoReflection ->
       dbeh <> DNoReflection ->
       find_desc_xml (xe_db e) (S_ c) (S_ k) = Ok (Some (canon, ser)) ->
       nonmig ser ->
       nonmig canon ->
       find_desc_xml (xe_db e) (S_ c) (pd_name ser) = Ok (Some (canon, ser')) ->
       nonspecial v ->
       (forall w : value, try_convert (xe_o e) v (dtype_vt (pd_type ser)) = Ok w -> vc_ok vc w) ->
       serialize_property e ebeh c keys st k v = Ok (ev, st') ->
       exists (w : value) (tag : bytes) (inner : list wevent) (revs : list revent),
         try_convert (xe_o e) v (dtype_vt (pd_type ser)) = Ok w /\
         write_xml (xe_o e) w = Some (tag, Ok inner) /\
         st' = st /\
         ev = WStart tag (name_attr (B (pd_name ser))) :: inner ++ [WEnd] /\
         chan_elems ev revs /\
         (forall v' : value,
          norm_known (xe_o e) (vc_norm vc) (dtype_vt (pd_type ser)) (dtype_vt (pd_type canon)) v = Ok v' ->
          forall (dst : dstate) (id : N) (props : list (bytes * value)) (e0 : revent) (rest : list revent),
          nonchar e0 ->
          deserialize_property e dbeh c id tag (B (pd_name ser)) dst props (revs ++ e0 :: rest)%list =
          Ok (dst, bupd (B (pd_name canon)) v' props, e0 :: rest)).
Proof. exact known_prop_step. Qed.

Theorem C02_xml_roundtrip_known :
  forall (e : xenv) (vc : vcodec (xe_o e)) (keep : bool) (d : cdom) (roots : list N) 
         (evs : list wevent) (revs : list revent),
       input_ok d roots ->
       hash_ok e ->
       known_dom e vc keep d roots ->
       xml_encode e (ebeh_of keep) d roots = Ok evs ->
       channel evs = Ok revs ->
       exists d' : cdom,
         xml_decode e (dbeh_of keep) revs = Ok d' /\
         forest_rel d roots d' /\ Forall2 (known_back e vc keep d (written d roots)) (written d roots) d'.
Proof. exact xml_roundtrip_known. Qed.

Theorem C02_xml_roundtrip_known_db :
  forall (e : xenv) (vc : vcodec (xe_o e)) (keep : bool) (exc : list (string * string)) 
         (d : cdom) (roots : list N) (evs : list wevent) (revs : list revent),
       db_coherent (xe_db e) = true ->
       db_keys_ok (xe_db e) exc = true ->
       db_names_ok (xe_db e) = true ->
       input_ok d roots ->
       hash_ok e ->
       db_dom e vc keep exc d roots ->
       xml_encode e (ebeh_of keep) d roots = Ok evs ->
       channel evs = Ok revs ->
       exists d' : cdom,
         xml_decode e (dbeh_of keep) revs = Ok d' /\
         forest_rel d roots d' /\ Forall2 (known_back e vc keep d (written d roots)) (written d roots) d'.
Proof. exact xml_roundtrip_known_db. Qed.

Theorem C02_xml_roundtrip_known_bundled :
  forall (e : xenv) (vc : vcodec (xe_o e)) (keep : bool) (d : cdom) (roots : list N) 
         (evs : list wevent) (revs : list revent),
       xe_db e = Database.database ->
       input_ok d roots ->
       hash_ok e ->
       db_dom e vc keep bundled_exceptions d roots ->
       xml_encode e (ebeh_of keep) d roots = Ok evs ->
       channel evs = Ok revs ->
       exists d' : cdom,
         xml_decode e (dbeh_of keep) revs = Ok d' /\
         forest_rel d roots d' /\ Forall2 (known_back e vc keep d (written d roots)) (written d roots) d'.
Proof. exact xml_roundtrip_known_bundled. Qed.

Theorem C02_bundled_keys_ok :
  db_keys_ok Database.database bundled_exceptions = true.
Proof. exact bundled_keys_ok. Qed.

Theorem C02_norm_known_identity :
  forall (o : xoracle) (v : value), nan_free v -> norm_known o norm_simple (vtype v) (vtype v) v = Ok v.
Proof. exact norm_known_identity. Qed.

Theorem C02_norm_known_color3_quantised :
  forall (o : xoracle) (cty : N) (r g b : f32) (r' g' b' : N),
       xo_quant o r = Some r' ->
       xo_quant o g = Some g' ->
       xo_quant o b = Some b' ->
       norm_known o norm_simple XT_Color3uint8 cty (VColor3 r g b) = Ok (VColor3uint8 r' g' b').
Proof. exact norm_known_color3_quantised. Qed.

Theorem C02_two_spellings_listing_irrelevant :
  forall (e : xenv) (eb : ebehavior) (db : dbehavior) (d d' : cdom) (roots : list N),
       XmlDeterminism.props_permuted d d' -> thru e eb db d' roots = thru e eb db d roots.
Proof. exact two_spellings_listing_irrelevant. Qed.

Theorem C02_two_spellings_last_wins :
  forall (e : xenv) (keep : bool) (c : bytes) (ps : list pelem) (t : bytes),
       Forall (rd_ok e c) ps ->
       bfind t (store_all (reflD e (dbeh_of keep)) c ps []) =
       blast t (List.map p_kv (filter_map (tr e keep c) ps)) None.
Proof. exact two_spellings_last_wins. Qed.

Theorem C02_seras_not_back_refuted :
  key_ok_b Database.database "Sound" "MaxDistance" = false /\
       key_ok_b Database.database "MaterialService" "Use2022Materials" = false /\
       thru e_b EIgnoreUnknown DIgnoreUnknown
         [{|
            i_ref := 1;
            i_parent := 0;
            i_class := B "Sound";
            i_name := B "s";
            i_props := [(B "MaxDistance", VFloat32 F32_ONE)]
          |}] [1] =
       Ok
         [{|
            i_ref := 1;
            i_parent := 0;
            i_class := B "Sound";
            i_name := B "s";
            i_props := [(B "RollOffMaxDistance", VFloat32 F32_ONE)]
          |}] /\
       thru e_b EIgnoreUnknown DIgnoreUnknown
         [{|
            i_ref := 1;
            i_parent := 0;
            i_class := B "MaterialService";
            i_name := B "s";
            i_props := [(B "Use2022Materials", VBool true)]
          |}] [1] =
       Ok
         [{|
            i_ref := 1;
            i_parent := 0;
            i_class := B "MaterialService";
            i_name := B "s";
            i_props := [(B "Use2022MaterialsXml", VBool true)]
          |}].
Proof. exact seras_not_back_refuted. Qed.

Theorem C02_seras_clash_refuted :
  thru e_b EIgnoreUnknown DIgnoreUnknown
         [{|
            i_ref := 1;
            i_parent := 0;
            i_class := B "Sound";
            i_name := B "s";
            i_props := [(B "MaxDistance", VFloat32 F32_ONE); (B "RollOffMaxDistance", VFloat32 F32_HALF)]
          |}] [1] =
       Ok
         [{|
            i_ref := 1;
            i_parent := 0;
            i_class := B "Sound";
            i_name := B "s";
            i_props := [(B "RollOffMaxDistance", VFloat32 F32_HALF)]
          |}].
Proof. exact seras_clash_refuted. Qed.


(* ---- round 2 of Proofs/XmlKnownProps.v: Attributes (known property: the decoded map; unknown property: the blob as BinaryString); migrating
   legacy properties inside the whole-file theorem (legacy name gone; migrated value alone; the explicit value stays when both are present);
   the recorded exception (Enum.Font items above 45) as a theorem *)
From RbxVerif Require Import Attr AttrFacts.
Theorem C02_explicit_value_stays :
  forall (e : xenv) (vc : vcodec (xe_o e)) (keep : bool) (W : list N) (c : bytes) 
         (keys : list bytes) (ps ps' : list (bytes * value)) (k : bytes) (v : value) 
         (canon ser : pdesc) (q : string) (op : migop) (qd qs : pdesc),
       props_known_back e vc keep W c keys ps ps' ->
       (forall k2 : bytes, In k2 keys -> exists v2 : value, In (k2, v2) ps) ->
       (forall k2 : bytes, In k2 keys -> exists r : option (pdesc * pdesc), kdesc e c k2 = Ok r) ->
       In (k, v) ps ->
       kdesc e c k = Ok (Some (canon, ser)) ->
       mig_of ser = Some (q, op) ->
       find_desc_xml (xe_db e) (S_ c) q = Ok (Some (qd, qs)) ->
       explicit_b e c keys k q = true ->
       bfind k ps' = None /\
       (exists (k2 : bytes) (v2 : value) (canon2 ser2 : pdesc),
          In (k2, v2) ps /\
          k2 <> k /\
          kdesc e c k2 = Ok (Some (canon2, ser2)) /\
          pd_name canon2 = pd_name qd /\
          (mig_of ser2 = None ->
           exists v' : value,
             bfind (B (pd_name qd)) ps' = Some v' /\
             value_known_back e vc W (dtype_vt (pd_type ser2)) (dtype_vt (pd_type canon2)) v2 v')).
Proof. exact explicit_value_stays. Qed.

Theorem C02_norm_known_attributes :
  forall (o : xoracle) (m : amap) (b : bytes),
       AttrFacts.wf_amap m = true ->
       attr_encode m = Ok b -> norm_known o ext_norm 1 33 (VAttributes m) = Ok (VAttributes (norm m)).
Proof. exact norm_known_attributes. Qed.

Theorem C02_unknown_attributes_back :
  forall (W : list N) (m : amap) (b : bytes),
       attr_encode m = Ok b -> value_back W ext_norm (VAttributes m) = VBinaryString b.
Proof. exact unknown_attributes_back. Qed.

Theorem C02_migration_undefined_refuted :
  migrate (xe_font e_b) (xe_brick e_b) MigFont (VEnum 46) = None /\
       thru e_b EIgnoreUnknown DIgnoreUnknown
         [{|
            i_ref := 1;
            i_parent := 0;
            i_class := B "TextLabel";
            i_name := B "t";
            i_props := [(B "Font", VEnum 46)]
          |}] [1] = Err DE_MIGRATION /\
       thru e_b EIgnoreUnknown DIgnoreUnknown
         [{|
            i_ref := 1;
            i_parent := 0;
            i_class := B "TextLabel";
            i_name := B "t";
            i_props :=
              [(B "Font", VEnum 46);
               (B "FontFace",
                VFont {| fo_family := B "x"; fo_weight := 400; fo_style := 0; fo_cached := None |})]
          |}] [1] =
       Ok
         [{|
            i_ref := 1;
            i_parent := 0;
            i_class := B "TextLabel";
            i_name := B "t";
            i_props :=
              [(B "FontFace",
                VFont {| fo_family := B "x"; fo_weight := 400; fo_style := 0; fo_cached := None |})]
          |}].
Proof. exact migration_undefined_refuted. Qed.

