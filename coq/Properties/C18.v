(* Property C18 — SharedString interning is safe and effective under concurrency (statements only).
   The proofs are in Proofs/InternFacts.v. *)
From Coq Require Import List Arith.
Import ListNotations.
From RbxVerif Require Import Intern InternFacts InternThreads.

(* the pinned clean-up (unconditional removal) loses deduplication: two live buffers, one hash *)
Theorem C18_dedup_refuted_pinned :
  exists s, run false init [New 7; DropA 0; New 7; DropB 0; New 7] = Some s /\
            alive s 1 = true /\ alive s 2 = true /\ hashof s 1 = hashof s 2 /\ 1 <> 2.
Proof. exact dedup_refuted_pinned. Qed.

(* for the repaired clean-up the invariant holds in every reachable state, whatever the interleaving *)
Theorem C18_inv_reachable : forall os s, run true init os = Some s -> Inv s.
Proof. exact inv_reachable. Qed.

Theorem C18_share_single_buffer : forall s b1 b2,
  Inv s -> alive s b1 = true -> alive s b2 = true -> hashof s b1 = hashof s b2 -> b1 = b2.
Proof. exact share_single_buffer. Qed.

Theorem C18_quiescent_table_empty : forall s,
  Inv s -> pend s = [] -> (forall b, cnt s b = 0) -> forall h, table s h = None.
Proof. exact quiescent_table_empty. Qed.

Theorem C18_handle_bytes_stable : forall fixed s o s' b,
  step fixed s o = Some s' -> b < next s -> hashof s' b = hashof s b.
Proof. exact hashof_stable. Qed.

Theorem C18_thread_steps_are_steps : forall fixed s tid s',
  tstep fixed s tid = Some s' -> exists o, step fixed (t_g s) o = Some (t_g s').
Proof. exact tstep_is_step. Qed.

(* a handle returned by `new` exposes exactly the bytes it was created from *)
Theorem C18_new_gives_content : forall fixed s h s',
  Inv s -> step fixed s (New h) = Some s' ->
  new_buf s h < next s' /\ hashof s' (new_buf s h) = h /\ alive s' (new_buf s h) = true.
Proof. exact new_gives_content. Qed.

(* no operation is stuck: new is always possible, clone/drop on a live handle, clean-up when pending *)
Theorem C18_new_enabled : forall fixed s h, step fixed s (New h) <> None.
Proof. exact new_enabled. Qed.
Theorem C18_clone_enabled : forall fixed s b, alive s b = true -> step fixed s (Clone b) <> None.
Proof. exact clone_enabled. Qed.
Theorem C18_dropA_enabled : forall fixed s b, alive s b = true -> step fixed s (DropA b) <> None.
Proof. exact dropA_enabled. Qed.
Theorem C18_dropB_enabled : forall fixed s b, In b (pend s) -> step fixed s (DropB b) <> None.
Proof. exact dropB_enabled. Qed.

(* thread level: for any schedule of any number of threads running slot-linear programs, the invariant
   holds and every unfinished thread can take its next step (no deadlock, no panic) *)
Theorem C18_threads_inv : forall progs sched s, trun true (tinit progs) sched = Some s -> Inv (t_g s).
Proof. exact tinv_reachable. Qed.
Theorem C18_no_deadlock : forall fixed progs sched s tid t,
  forallb (lin []) progs = true -> trun fixed (tinit progs) sched = Some s ->
  nth_error (t_thrs s) tid = Some t -> (t_pend t <> None \/ t_prog t <> []) ->
  tstep fixed s tid <> None.
Proof. exact no_deadlock. Qed.
