(* C05 — XML written is spec-conformant; spec-conformant foreign XML is read.
   PROVEN about the model of the writer: every document is a single `roblox` element of version 4; referents are decimal
   numbers and therefore never the reserved word `null`; an empty reference is written `null`; writing a SharedString
   value puts its content into the dictionary that is emitted; an infinite/NaN component of a CFrame (and of the number
   sequences) is written with Rust's Display text instead of the documented INF/NAN, and Content::Object panics the
   writer (refutations of the writer clause in the current tree).
   PROVEN about the model of the reader: forward references and the dictionary are resolved (computed instance); the step
   repaired by /repo 8e3b6855, for every input: with IgnoreUnknown a property without a descriptor leaves the parse state
   (both rewrite queues included) and the property map as they were, so neither pass can put it into the DOM; computed
   through the whole reader for a Ref and for a SharedString the dictionary defines.  For the record, about
   `xml_decode_pinned` (the code before that commit): both were inserted by the rewrite pass.  The spec side (Spec/XmlSpec.v, written from docs/xml.md) is EXECUTED on every generated document by
   modelrun and, together with expat + tools/xmlcheck.py on the real text, decides the writer direction per case; the
   reader direction is decided by the documents of the independent writer harness/src/xmlspecgen.rs.
   NOT proven: agreement of xspec_decode with xml_encode for arbitrary DOMs. *)
From Coq Require Import List NArith ZArith Bool String.
From RbxVerif Require Import Base Bytes Value Db CodecDom XmlEvents XmlValues XmlFile XmlInt XmlText XmlFileFacts.
Import ListNotations.
Open Scope list_scope.
Open Scope N_scope.

Theorem C05_single_roblox_element_version_4 :
  forall (e : xenv) (beh : ebehavior) (d : cdom) (roots : list N) (evs : list wevent),
  xml_encode e beh d roots = Ok evs ->
  exists body, evs = WStart (B "roblox") [(B "version", B "4")] :: body ++ [WEnd].
Proof. exact xml_encode_root. Qed.

Theorem C05_referent_never_null : forall n : N, dec_of_N n <> B "null".
Proof. exact referent_never_null. Qed.

Theorem C05_empty_reference_written_null :
  forall (e : xenv) (st : estate) (pname : bytes),
  write_value_xml e st pname (VRef 0) = Ok ([WStart (B "Ref") [(B "name", pname)]; WChars (B "null"); WEnd], st).
Proof. exact empty_ref_written_null. Qed.

Theorem C05_used_shared_string_enters_dictionary :
  forall (e : xenv) (st : estate) (pname c h : bytes) (evs : list wevent) (st' : estate),
  xe_hash e c = Some h -> write_value_xml e st pname (VSharedString c) = Ok (evs, st') ->
  exists c', bfind h (es_shared st') = Some c'.
Proof. exact shared_string_defined. Qed.

Theorem C05_reader_resolves_forward_refs_and_dictionary :
  xml_decode e0 DReadUnknown
    [RStartDoc; RStart (B "roblox") [(B "version", B "4")];
     RStart (B "Item") [(B "class", B "ObjectValue"); (B "referent", B "A")]; RStart (B "Properties") [];
     RStart (B "Ref") [(B "name", B "Value")]; RChars (B "B"); REnd (B "Ref");
     RStart (B "SharedString") [(B "name", B "S")]; RChars (B "k1"); REnd (B "SharedString");
     REnd (B "Properties"); REnd (B "Item");
     RStart (B "Item") [(B "class", B "Folder"); (B "referent", B "B")]; REnd (B "Item");
     RStart (B "SharedStrings") []; RStart (B "SharedString") [(B "md5", B "k1")]; RChars (B "eHl6"); REnd (B "SharedString"); REnd (B "SharedStrings");
     REnd (B "roblox"); REndDoc]
  = Ok [mkInst 1 0 (B "ObjectValue") (B "ObjectValue") [(B "S", VSharedString (B "xyz")); (B "Value", VRef 2)];
        mkInst 2 0 (B "Folder") (B "Folder") []].
Proof. exact forward_ref_and_shared_string_resolved. Qed.

(* ---- a property the reader ignores stays ignored (repaired by /repo 8e3b6855) *)
Theorem C05_ignored_property_leaves_no_trace :
  forall (e : xenv) (class : bytes) (id : N) (ty pname : bytes) (st : dstate) (props : list (bytes * value))
         (evs : list revent) (st' : dstate) (props' : list (bytes * value)) (rest : list revent),
  bytes_eqb pname (B "Name") = false ->
  find_desc_xml (xe_db e) (S_ class) (S_ pname) = Ok None ->
  deserialize_property e DIgnoreUnknown class id ty pname st props evs = Ok ((st', props'), rest) ->
  st' = st /\ props' = props.
Proof. exact ignored_property_leaves_no_trace. Qed.

Theorem C05_ignored_ref_property_stays_ignored :
  xml_decode e0 DIgnoreUnknown
    [RStartDoc; RStart (B "roblox") [(B "version", B "4")];
     RStart (B "Item") [(B "class", B "Folder"); (B "referent", B "RBX1")]; RStart (B "Properties") [];
     RStart (B "Ref") [(B "name", B "Future")]; RChars (B "RBX1"); REnd (B "Ref");
     REnd (B "Properties"); REnd (B "Item"); REnd (B "roblox"); REndDoc]
  = Ok [mkInst 1 0 (B "Folder") (B "Folder") []].
Proof. exact ignored_ref_property_stays_ignored. Qed.

Theorem C05_ignored_shared_string_property_stays_ignored :
  xml_decode e0 DIgnoreUnknown
    [RStartDoc; RStart (B "roblox") [(B "version", B "4")];
     RStart (B "Item") [(B "class", B "Folder"); (B "referent", B "RBX1")]; RStart (B "Properties") [];
     RStart (B "SharedString") [(B "name", B "Future")]; RChars (B "k1"); REnd (B "SharedString");
     REnd (B "Properties"); REnd (B "Item");
     RStart (B "SharedStrings") []; RStart (B "SharedString") [(B "md5", B "k1")]; RChars (B "eHl6"); REnd (B "SharedString"); REnd (B "SharedStrings");
     REnd (B "roblox"); REndDoc]
  = Ok [mkInst 1 0 (B "Folder") (B "Folder") []].
Proof. exact ignored_shared_string_property_stays_ignored. Qed.

(* ---- refutations (current tree) *)
Theorem C05_cframe_nonfinite_spelling_refuted :
  forall (o : xoracle) (x : f32) (t : bytes),
  xo_show32 o x = Some t -> xw_f32_display_tag o "X" x = Ok (w_elem (B "X") (w_string t)).
Proof. exact cframe_component_uses_display. Qed.

Theorem C05_writer_panics_on_content_object_refuted :
  forall (o : xoracle) (r : N), write_xml o (VContent (CObject r)) = Some (B "Content", Panic).
Proof. exact content_object_panics. Qed.

(* ---- for the record: the code before 8e3b6855 (`xml_decode_pinned` of Model/XmlFile.v) *)
Theorem C05_ignored_ref_property_resurrected_pinned :
  xml_decode_pinned e0 DIgnoreUnknown
    [RStartDoc; RStart (B "roblox") [(B "version", B "4")];
     RStart (B "Item") [(B "class", B "Folder"); (B "referent", B "RBX1")]; RStart (B "Properties") [];
     RStart (B "Ref") [(B "name", B "Future")]; RChars (B "RBX1"); REnd (B "Ref");
     REnd (B "Properties"); REnd (B "Item"); REnd (B "roblox"); REndDoc]
  = Ok [mkInst 1 0 (B "Folder") (B "Folder") [(B "Future", VRef 1)]].
Proof. exact ignored_ref_property_resurrected_pinned. Qed.

(* ==== the element name the writer model gives each value type is the XML_TAG_NAME of the Rust type that writes it, regenerated
   from rbx_xml/src/types/*.rs on every run (Gen/SourceTables.v; Proofs/SourceTablesFacts.v); it depends on the type only *)
From RbxVerif Require Import SourceTablesFacts.
Theorem C05_xml_tags_match_source : forallb xml_tag_ok xml_tag_samples = true.
Proof. exact xml_tags_match_source. Qed.
Theorem C05_xml_tag_depends_on_type_only : forall o o' v v',
  Value.vtype v = Value.vtype v' ->
  match XmlValues.write_xml o v, XmlValues.write_xml o' v' with
  | Some (t, _), Some (t', _) => t = t'
  | None, None => True
  | _, _ => False
  end.
Proof. exact xml_tag_depends_on_type_only. Qed.
