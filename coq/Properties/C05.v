(* C05 — XML written is spec-conformant; spec-conformant foreign XML is read.
   PROVEN about the model of the writer: every document is a single `roblox` element of version 4; referents are decimal
   numbers and therefore never the reserved word `null`; an empty reference is written `null`; writing a SharedString
   value puts its content into the dictionary that is emitted; an infinite/NaN component of a CFrame (and of the number
   sequences) is written with Rust's Display text instead of the documented INF/NAN, and Content::Object panics the
   writer (refutations of the writer clause in the current tree).
   PROVEN about the model of the reader: forward references and the dictionary are resolved (computed instance); the step
   repaired by /repo 8e3b6855, for every input: with IgnoreUnknown a property without a descriptor leaves the parse state
   (both rewrite queues included) and the property map as they were, so neither pass can put it into the DOM; computed
   through the whole reader for a Ref and for a SharedString the dictionary defines.  For the record, about
   `xml_decode_pinned` (the code before that commit): both were inserted by the rewrite pass.  The spec side (Spec/XmlSpec.v, written from docs/xml.md) is EXECUTED on every generated document by
   modelrun and, together with expat + tools/xmlcheck.py on the real text, decides the writer direction per case; the
   reader direction is decided by the documents of the independent writer harness/src/xmlspecgen.rs.
   Agreement of xspec_decode with xml_encode for arbitrary DOMs: proved at the end of this file (Proofs/XmlSpecAgree.v). *)
From Coq Require Import List NArith ZArith Bool String.
From RbxVerif Require Import Base Bytes Value Db CodecDom XmlEvents XmlValues XmlFile XmlInt XmlText XmlFileFacts.
Import ListNotations.
Open Scope list_scope.
Open Scope N_scope.

Theorem C05_single_roblox_element_version_4 :
  forall (e : xenv) (beh : ebehavior) (d : cdom) (roots : list N) (evs : list wevent),
  xml_encode e beh d roots = Ok evs ->
  exists body, evs = WStart (B "roblox") [(B "version", B "4")] :: body ++ [WEnd].
Proof. exact xml_encode_root. Qed.

Theorem C05_referent_never_null : forall n : N, dec_of_N n <> B "null".
Proof. exact referent_never_null. Qed.

Theorem C05_empty_reference_written_null :
  forall (e : xenv) (st : estate) (pname : bytes),
  write_value_xml e st pname (VRef 0) = Ok ([WStart (B "Ref") [(B "name", pname)]; WChars (B "null"); WEnd], st).
Proof. exact empty_ref_written_null. Qed.

Theorem C05_used_shared_string_enters_dictionary :
  forall (e : xenv) (st : estate) (pname c h : bytes) (evs : list wevent) (st' : estate),
  xe_hash e c = Some h -> write_value_xml e st pname (VSharedString c) = Ok (evs, st') ->
  exists c', bfind h (es_shared st') = Some c'.
Proof. exact shared_string_defined. Qed.

Theorem C05_reader_resolves_forward_refs_and_dictionary :
  xml_decode e0 DReadUnknown
    [RStartDoc; RStart (B "roblox") [(B "version", B "4")];
     RStart (B "Item") [(B "class", B "ObjectValue"); (B "referent", B "A")]; RStart (B "Properties") [];
     RStart (B "Ref") [(B "name", B "Value")]; RChars (B "B"); REnd (B "Ref");
     RStart (B "SharedString") [(B "name", B "S")]; RChars (B "k1"); REnd (B "SharedString");
     REnd (B "Properties"); REnd (B "Item");
     RStart (B "Item") [(B "class", B "Folder"); (B "referent", B "B")]; REnd (B "Item");
     RStart (B "SharedStrings") []; RStart (B "SharedString") [(B "md5", B "k1")]; RChars (B "eHl6"); REnd (B "SharedString"); REnd (B "SharedStrings");
     REnd (B "roblox"); REndDoc]
  = Ok [mkInst 1 0 (B "ObjectValue") (B "ObjectValue") [(B "S", VSharedString (B "xyz")); (B "Value", VRef 2)];
        mkInst 2 0 (B "Folder") (B "Folder") []].
Proof. exact forward_ref_and_shared_string_resolved. Qed.

(* ---- a property the reader ignores stays ignored (repaired by /repo 8e3b6855) *)
Theorem C05_ignored_property_leaves_no_trace :
  forall (e : xenv) (class : bytes) (id : N) (ty pname : bytes) (st : dstate) (props : list (bytes * value))
         (evs : list revent) (st' : dstate) (props' : list (bytes * value)) (rest : list revent),
  bytes_eqb pname (B "Name") = false ->
  find_desc_xml (xe_db e) (S_ class) (S_ pname) = Ok None ->
  deserialize_property e DIgnoreUnknown class id ty pname st props evs = Ok ((st', props'), rest) ->
  st' = st /\ props' = props.
Proof. exact ignored_property_leaves_no_trace. Qed.

Theorem C05_ignored_ref_property_stays_ignored :
  xml_decode e0 DIgnoreUnknown
    [RStartDoc; RStart (B "roblox") [(B "version", B "4")];
     RStart (B "Item") [(B "class", B "Folder"); (B "referent", B "RBX1")]; RStart (B "Properties") [];
     RStart (B "Ref") [(B "name", B "Future")]; RChars (B "RBX1"); REnd (B "Ref");
     REnd (B "Properties"); REnd (B "Item"); REnd (B "roblox"); REndDoc]
  = Ok [mkInst 1 0 (B "Folder") (B "Folder") []].
Proof. exact ignored_ref_property_stays_ignored. Qed.

Theorem C05_ignored_shared_string_property_stays_ignored :
  xml_decode e0 DIgnoreUnknown
    [RStartDoc; RStart (B "roblox") [(B "version", B "4")];
     RStart (B "Item") [(B "class", B "Folder"); (B "referent", B "RBX1")]; RStart (B "Properties") [];
     RStart (B "SharedString") [(B "name", B "Future")]; RChars (B "k1"); REnd (B "SharedString");
     REnd (B "Properties"); REnd (B "Item");
     RStart (B "SharedStrings") []; RStart (B "SharedString") [(B "md5", B "k1")]; RChars (B "eHl6"); REnd (B "SharedString"); REnd (B "SharedStrings");
     REnd (B "roblox"); REndDoc]
  = Ok [mkInst 1 0 (B "Folder") (B "Folder") []].
Proof. exact ignored_shared_string_property_stays_ignored. Qed.

(* ---- refutations (current tree) *)
Theorem C05_cframe_nonfinite_spelling_refuted :
  forall (o : xoracle) (x : f32) (t : bytes),
  xo_show32 o x = Some t -> xw_f32_display_tag o "X" x = Ok (w_elem (B "X") (w_string t)).
Proof. exact cframe_component_uses_display. Qed.

Theorem C05_writer_panics_on_content_object_refuted :
  forall (o : xoracle) (r : N), write_xml o (VContent (CObject r)) = Some (B "Content", Panic).
Proof. exact content_object_panics. Qed.

(* ---- for the record: the code before 8e3b6855 (`xml_decode_pinned` of Model/XmlFile.v) *)
Theorem C05_ignored_ref_property_resurrected_pinned :
  xml_decode_pinned e0 DIgnoreUnknown
    [RStartDoc; RStart (B "roblox") [(B "version", B "4")];
     RStart (B "Item") [(B "class", B "Folder"); (B "referent", B "RBX1")]; RStart (B "Properties") [];
     RStart (B "Ref") [(B "name", B "Future")]; RChars (B "RBX1"); REnd (B "Ref");
     REnd (B "Properties"); REnd (B "Item"); REnd (B "roblox"); REndDoc]
  = Ok [mkInst 1 0 (B "Folder") (B "Folder") [(B "Future", VRef 1)]].
Proof. exact ignored_ref_property_resurrected_pinned. Qed.

(* ==== the element name the writer model gives each value type is the XML_TAG_NAME of the Rust type that writes it, regenerated
   from rbx_xml/src/types/*.rs on every run (Gen/SourceTables.v; Proofs/SourceTablesFacts.v); it depends on the type only *)
From RbxVerif Require Import SourceTablesFacts.
Theorem C05_xml_tags_match_source : forallb xml_tag_ok xml_tag_samples = true.
Proof. exact xml_tags_match_source. Qed.
Theorem C05_xml_tag_depends_on_type_only : forall o o' v v',
  Value.vtype v = Value.vtype v' ->
  match XmlValues.write_xml o v, XmlValues.write_xml o' v' with
  | Some (t, _), Some (t', _) => t = t'
  | None, None => True
  | _, _ => False
  end.
Proof. exact xml_tag_depends_on_type_only. Qed.

(* ==== the structural clauses about EVERY document the writer model emits (Proofs/XmlStructure.v): the event list is the flattening of
   exactly one element tree (tree_of_wevents_iff); one roblox element version 4 = one Item per root then at most one SharedStrings;
   every Item at any depth has attributes class, referent, ONE Properties element first, then one Item per child in order;
   referent attributes are decimal numerals, never null, pairwise distinct for duplicate-free written sets (hypothesis necessary:
   duplicate_root_duplicate_referent); every Ref element holds null iff the Ref is null, else the numeral that is the referent
   attribute of exactly the target's Item (forward or backward; a dangling Ref's number is carried by no Item); the dictionary has
   one sorted entry per hash and every SharedString element's key is defined in it; Properties = Name first then the properties.
   Finding: keys are the FIRST 16 BYTES of the hash, so key uniqueness needs prefix-injectivity of the hash
   (truncated_hash_makes_dictionary_ambiguous). *)
From RbxVerif Require Import XmlDeterminism XmlStructure.
Open Scope N_scope.

Theorem C05_tree_of_wevents_iff :
  forall (evs : list wevent) (ts : list wnode), tree_of_wevents evs = Some ts <-> evs = flats ts.
Proof. exact tree_of_wevents_iff. Qed.

Theorem C05_flats_injective :
  forall ts ts' : list wnode, flats ts = flats ts' -> ts = ts'.
Proof. exact flats_injective. Qed.

Theorem C05_xml_encode_document :
  forall (e : xenv) (beh : ebehavior) (d : cdom) (roots : list N) (evs : list wevent),
       xml_encode e beh d roots = Ok evs ->
       exists (m : list (N * N)) (dict : list (bytes * bytes)) (items : list wnode),
         tree_of_wevents evs = Some [doc_node items (dict_nodes dict)] /\
         items_spec e beh d m dict roots items (written d roots) /\
         (forall r1 r2 x : N, lookup r1 m = Some x -> lookup r2 m = Some x -> r1 = r2) /\
         Sorted.StronglySorted klt dict /\ (forall h c : bytes, In (h, c) dict -> xe_hash e c = Some h).
Proof. exact xml_encode_document. Qed.

Theorem C05_xml_encode_skeleton :
  forall (e : xenv) (beh : ebehavior) (d : cdom) (roots : list N) (evs : list wevent),
       xml_encode e beh d roots = Ok evs ->
       exists items dictn : list wnode,
         tree_of_wevents evs = Some [WNode (B "roblox") [(B "version", B "4")] (items ++ dictn)] /\
         Forall2 (is_item_of d) roots items /\
         (dictn = [] \/
          (exists entries : list wnode, entries <> [] /\ dictn = [WNode (B "SharedStrings") [] entries])).
Proof. exact xml_encode_skeleton. Qed.

Theorem C05_xml_encode_items :
  forall (e : xenv) (beh : ebehavior) (d : cdom) (roots : list N) (evs : list wevent),
       xml_encode e beh d roots = Ok evs ->
       exists doc : wnode,
         tree_of_wevents evs = Some [doc] /\ Forall2 (item_shape d) (written d roots) (items_of doc).
Proof. exact xml_encode_items. Qed.

Theorem C05_xml_encode_referents :
  forall (e : xenv) (beh : ebehavior) (d : cdom) (roots : list N) (evs : list wevent),
       xml_encode e beh d roots = Ok evs ->
       exists (doc : wnode) (m : list (N * N)),
         tree_of_wevents evs = Some [doc] /\
         map_injective m /\
         Forall2 (item_referent d m) (written d roots) (items_of doc) /\
         (forall x : wnode,
          In x (items_of doc) ->
          exists v : N, attr_of (B "referent") x = Some (dec_of_N v) /\ dec_of_N v <> B "null") /\
         (NoDup (written d roots) -> NoDup (List.map (attr_of (B "referent")) (items_of doc))).
Proof. exact xml_encode_referents. Qed.

Theorem C05_xml_encode_dictionary :
  forall (e : xenv) (beh : ebehavior) (d : cdom) (roots : list N) (evs : list wevent),
       xml_encode e beh d roots = Ok evs ->
       exists (items : list wnode) (dict : list (bytes * bytes)),
         tree_of_wevents evs = Some [WNode (B "roblox") [(B "version", B "4")] (items ++ dict_nodes dict)] /\
         Sorted.StronglySorted klt dict /\
         (forall h c : bytes, In (h, c) dict -> xe_hash e c = Some h) /\
         Forall2
           (fun (id : N) (x : wnode) =>
            exists i : inst,
              find_inst d id = Some i /\
              (forall p : wnode,
               In p (props_of x) ->
               tag_of p = B "SharedString" ->
               exists k c h c' : bytes,
                 In (k, VSharedString c) (i_props i) /\
                 xe_hash e c = Some h /\
                 kids_of p = [leaf (md5_key h)] /\
                 In (h, c') dict /\ attr_of (B "md5") (dict_entry (h, c')) = Some (md5_key h)))
           (written d roots) (flat_map items_of items).
Proof. exact xml_encode_dictionary. Qed.

Theorem C05_xml_encode_dictionary_keys_unique :
  forall (e : xenv) (beh : ebehavior) (d : cdom) (roots : list N) (evs : list wevent),
       prefix_injective e ->
       hash_is_bytes e ->
       xml_encode e beh d roots = Ok evs ->
       exists (items : list wnode) (dict : list (bytes * bytes)),
         tree_of_wevents evs = Some [WNode (B "roblox") [(B "version", B "4")] (items ++ dict_nodes dict)] /\
         NoDup (List.map (attr_of (B "md5")) (List.map dict_entry dict)).
Proof. exact xml_encode_dictionary_keys_unique. Qed.

Theorem C05_xml_encode_refs :
  forall (e : xenv) (beh : ebehavior) (d : cdom) (roots : list N) (evs : list wevent),
       xml_encode e beh d roots = Ok evs ->
       exists (doc : wnode) (m : list (N * N)),
         tree_of_wevents evs = Some [doc] /\
         map_injective m /\
         Forall2 (item_referent d m) (written d roots) (items_of doc) /\
         Forall2
           (fun (id : N) (x : wnode) =>
            exists i : inst,
              find_inst d id = Some i /\
              (forall p : wnode,
               In p (props_of x) ->
               tag_of p = B "Ref" ->
               exists (k : bytes) (r : N),
                 In (k, VRef r) (i_props i) /\
                 kids_of p = [WText (ref_text m r)] /\
                 (ref_text m r = B "null" <-> r = 0) /\
                 (r <> 0 ->
                  (exists v : N, lookup r m = Some v /\ ref_text m r = dec_of_N v) /\
                  (forall (id' : N) (x' : wnode),
                   In x' (items_of doc) ->
                   item_referent d m id' x' -> attr_of (B "referent") x' = Some (ref_text m r) <-> id' = r))))
           (written d roots) (items_of doc).
Proof. exact xml_encode_refs. Qed.

Theorem C05_xml_encode_properties :
  forall (e : xenv) (beh : ebehavior) (d : cdom) (roots : list N) (evs : list wevent),
       xml_encode e beh d roots = Ok evs ->
       exists doc : wnode,
         tree_of_wevents evs = Some [doc] /\
         Forall2
           (fun (id : N) (x : wnode) =>
            exists (i : inst) (ons : list (option wnode)),
              find_inst d id = Some i /\
              props_of x =
              WNode (B "string") [(B "name", B "Name")] [leaf (i_name i)] :: flat_map opt_nodes ons /\
              Forall2
                (fun (kv : bytes * value) (on : option wnode) =>
                 forall p : wnode, on = Some p -> prop_elem e beh (i_class i) kv p) 
                (bsort (i_props i)) ons) (written d roots) (items_of doc).
Proof. exact xml_encode_properties. Qed.

Theorem C05_xml_encode_properties_sorted_noreflection :
  forall (e : xenv) (d : cdom) (roots : list N) (evs : list wevent),
       xml_encode e ENoReflection d roots = Ok evs ->
       exists doc : wnode,
         tree_of_wevents evs = Some [doc] /\
         Forall2
           (fun (id : N) (x : wnode) =>
            exists i : inst,
              find_inst d id = Some i /\
              subseq (List.map pname_of (tl (props_of x))) (List.map fst (bsort (i_props i))) /\
              (NoDup (List.map fst (i_props i)) ->
               Sorted.StronglySorted blt (List.map pname_of (tl (props_of x))))) 
           (written d roots) (items_of doc).
Proof. exact xml_encode_properties_sorted_noreflection. Qed.

Theorem C05_duplicate_root_duplicate_referent :
  xml_encode XmlFileFacts.e0 EWriteUnknown
         [{| i_ref := 1; i_parent := 0; i_class := B "Folder"; i_name := B "f"; i_props := [] |}] [
         1; 1] =
       Ok
         [WStart (B "roblox") [(B "version", B "4")];
          WStart (B "Item") [(B "class", B "Folder"); (B "referent", B "0")]; WStart (B "Properties") [];
          WStart (B "string") [(B "name", B "Name")]; WChars (B "f"); WEnd; WEnd; WEnd;
          WStart (B "Item") [(B "class", B "Folder"); (B "referent", B "0")]; WStart (B "Properties") [];
          WStart (B "string") [(B "name", B "Name")]; WChars (B "f"); WEnd; WEnd; WEnd; WEnd].
Proof. exact duplicate_root_duplicate_referent. Qed.

Theorem C05_truncated_hash_makes_dictionary_ambiguous :
  h_a <> h_b /\
       firstn 16 h_a = firstn 16 h_b /\
       (exists (items : list wnode) (e1 e2 : wnode),
          ' evs <- xml_encode e_amb EWriteUnknown d_amb [1];; Ok (tree_of_wevents evs) =
          Ok
            (Some
               [WNode (B "roblox") [(B "version", B "4")] (items ++ [WNode (B "SharedStrings") [] [e1; e2]])]) /\
          attr_of (B "md5") e1 = attr_of (B "md5") e2 /\
          kids_of e1 = [WText (B "YWFh")] /\
          kids_of e2 = [WText (B "YmJi")] /\
          ' evs <- xml_encode e_amb EWriteUnknown d_amb [1];;
          ' revs <- channel evs;; xml_decode e_amb DReadUnknown revs =
          Ok
            [{|
               i_ref := 1;
               i_parent := 0;
               i_class := B "Folder";
               i_name := B "f";
               i_props := [(B "S2", VSharedString (B "bbb")); (B "S1", VSharedString (B "bbb"))]
             |}]).
Proof. exact truncated_hash_makes_dictionary_ambiguous. Qed.

Theorem C05_names_not_sorted_with_reflection :
  exists doc x : wnode,
         ' evs <-
         xml_encode e_size EIgnoreUnknown
           [{|
              i_ref := 1;
              i_parent := 0;
              i_class := B "Part";
              i_name := B "p";
              i_props :=
                [(B "Transparency", VFloat32 0); (B "Size", VVector3 {| vx := 0; vy := 0; vz := 0 |})]
            |}] [1];; Ok (tree_of_wevents evs) = Ok (Some [doc]) /\
         items_of doc = [x] /\
         List.map pname_of (props_of x) = [B "Name"; B "size"; B "Transparency"] /\
         bytes_ltb (B "size") (B "Transparency") = false.
Proof. exact names_not_sorted_with_reflection. Qed.

(* ==== AGREEMENT OF THE DOCUMENT DECODER WITH THE SERIALIZER (Proofs/XmlSpecAgree.v), for arbitrary DOMs:
   the parser-side element tree of everything the writer emits is an explicit translation of the writer-side tree (text coalescing, dropped
   inter-markup white space, CDATA splitting as the channel does; fuel sufficient); the decoder written from docs/xml.md accepts it (never an
   SE_* error: one roblox root of version 4, every Item with class and a unique non-null referent, exactly one Properties, dictionary keys
   unique), lists exactly the written instances in document order with class, parent index and referent text as written, returns the emitted
   dictionary, and per instance reads the Name and every written property back: String, Bool, Int32/64, Enum token, base64 blobs exactly, Ref as
   the document index of the target's Item (None for null / unwritten), SharedString through the dictionary; floats and compound types are raw
   elements to this decoder (their layout is checked per case by tools/xmlcheck.py).  Hypotheses shown necessary: a root listed twice (SE_ITEM),
   hashes agreeing on the 16 bytes written (SE_SHARED), colliding hashes. *)
From RbxVerif Require Import Attr Tags BinValues XmlSpec XmlStructure XmlSpecAgree.

Theorem C05_tree_of_channel_flats :
  forall (ts : list wnode) (revs : list revent),
       channel (flats ts) = Ok revs -> tree_of_events revs = Some (nodes_of ts).
Proof. exact tree_of_channel_flats. Qed.

Theorem C05_xml_encode_tree_of_events :
  forall (e : xenv) (beh : ebehavior) (d : cdom) (roots : list N) (evs : list wevent)
         (revs : list revent),
       xml_encode e beh d roots = Ok evs ->
       channel evs = Ok revs ->
       exists ts : list wnode, tree_of_wevents evs = Some ts /\ tree_of_events revs = Some (nodes_of ts).
Proof. exact xml_encode_tree_of_events. Qed.

Theorem C05_xml_encode_spec_decode :
  forall (e : xenv) (beh : ebehavior) (d : cdom) (roots : list N) (evs : list wevent)
         (revs : list revent) (doc : list node),
       xml_encode e beh d roots = Ok evs ->
       channel evs = Ok revs ->
       tree_of_events revs = Some doc ->
       NoDup (written d roots) ->
       prefix_injective e ->
       hash_is_bytes e ->
       exists (m : list (N * N)) (dl : list (bytes * bytes)) (f : sfile) (pl : list (N * N)),
         map_injective m /\
         Sorted.StronglySorted XmlDeterminism.klt dl /\
         (forall h c : bytes, In (h, c) dl -> xe_hash e c = Some h) /\
         xspec_decode doc = Ok f /\
         idxs_spec d 0 1 roots pl /\
         List.map fst pl = written d roots /\
         Forall2 (inst_rel d m (prop_spec e beh m dl)) pl (sf_insts f) /\
         sf_dict f = dict_out dl /\
         (hash_dom_bytes e -> sf_dict f = List.map (fun hc : bytes * bytes => (md5_key (fst hc), snd hc)) dl) /\
         refs_resolved f = true.
Proof. exact xml_encode_spec_decode. Qed.

Theorem C05_decode_prop_written :
  forall (o : xoracle) (v : value) (tag : bytes) (inner : list wnode) (insts : list sinst)
         (dc : list (bytes * bytes)),
       write_xml o v = Some (tag, Ok (flats inner)) ->
       (forall b : bytes, binary_payload v = Some b -> Forall (fun x : N => x < 256) b) ->
       decode_prop insts dc tag (nodes_in t0 inner) = sval_of v tag (nodes_in t0 inner).
Proof. exact decode_prop_written. Qed.

Theorem C05_decode_prop_ref :
  forall (d : cdom) (m : list (N * N)) (Q : bytes -> bytes -> value -> option wnode -> Prop)
         (pl : list (N * N)) (sis : list sinst) (dc : list (bytes * bytes)) (r : N),
       map_injective m ->
       (r <> 0 -> exists x : N, lookup r m = Some x) ->
       Forall2 (inst_rel d m Q) pl sis ->
       decode_prop sis dc (B "Ref") (nodes_in t0 [WText (ref_text m r)]) =
       SRef (if r =? 0 then None else pos_of r (List.map fst pl) 1).
Proof. exact decode_prop_ref. Qed.

Theorem C05_decode_prop_shared :
  forall (e : xenv) (dl : list (bytes * bytes)) (sis : list sinst) (c h : bytes),
       prefix_injective e ->
       hash_is_bytes e ->
       hash_dom_bytes e ->
       hash_injective e ->
       Sorted.StronglySorted XmlDeterminism.klt dl ->
       (forall h0 c0 : bytes, In (h0, c0) dl -> xe_hash e c0 = Some h0) ->
       xe_hash e c = Some h ->
       In h (List.map fst dl) ->
       decode_prop sis (dict_out dl) (B "SharedString") (nodes_in t0 [leaf (md5_key h)]) = SShared (Some c).
Proof. exact decode_prop_shared. Qed.

Theorem C05_xml_encode_spec_agree :
  forall (e : xenv) (beh : ebehavior) (d : cdom) (roots : list N) (evs : list wevent)
         (revs : list revent) (doc : list node),
       xml_encode e beh d roots = Ok evs ->
       channel evs = Ok revs ->
       tree_of_events revs = Some doc ->
       NoDup (written d roots) ->
       prefix_injective e ->
       hash_is_bytes e ->
       hash_dom_bytes e ->
       hash_injective e ->
       exists (f : sfile) (pl : list (N * N)),
         xspec_decode doc = Ok f /\
         refs_resolved f = true /\
         idxs_spec d 0 1 roots pl /\
         List.map fst pl = written d roots /\
         Forall2 (inst_agree e beh d (written d roots) f) pl (sf_insts f).
Proof. exact xml_encode_spec_agree. Qed.

Theorem C05_prop_agree_noreflection :
  forall (e : xenv) (ids : list N) (sis : list sinst) (dc : list (bytes * bytes)) 
         (class : bytes) (kv : bytes * value) (on : option wnode),
       prop_agree e ENoReflection ids sis dc class kv on ->
       exists (tag : bytes) (inner : list wnode),
         on = Some (WNode tag (name_attr (fst kv)) inner) /\
         (payload_ok (snd kv) ->
          decode_prop sis dc tag (nodes_in t0 inner) = sval_full ids (snd kv) tag (nodes_in t0 inner)).
Proof. exact prop_agree_noreflection. Qed.

Theorem C05_duplicate_root_refuted :
  ' evs <-
       xml_encode XmlFileFacts.e0 EWriteUnknown
         [{| i_ref := 1; i_parent := 0; i_class := B "Folder"; i_name := B "f"; i_props := [] |}] [
         1; 1];; spec_read evs = Err SE_ITEM.
Proof. exact duplicate_root_refuted. Qed.

Theorem C05_truncated_hash_refuted :
  ' evs <- xml_encode e_amb EWriteUnknown d_amb [1];; spec_read evs = Err SE_SHARED.
Proof. exact truncated_hash_refuted. Qed.

Theorem C05_hash_collision_refuted :
  exists f : sfile,
         ' evs <- xml_encode e_col EWriteUnknown d_amb [1];; spec_read evs = Ok f /\
         List.map
           (fun i : sinst =>
            List.map
              (fun p : bytes * bytes * list node =>
               (fst (fst p), decode_prop (sf_insts f) (sf_dict f) (snd (fst p)) (snd p))) 
              (tl (si_props i))) (sf_insts f) =
         [[(B "S1", SShared (Some (B "bbb"))); (B "S2", SShared (Some (B "bbb")))]].
Proof. exact hash_collision_refuted. Qed.

Theorem C05_spec_agree_computed :
  written d_agree [1; 3] = [1; 2; 3] /\
       NoDup (written d_agree [1; 3]) /\
       (exists f : sfile,
          ' evs <- xml_encode e_ex EWriteUnknown d_agree [1; 3];; spec_read evs = Ok f /\
          List.map si_class (sf_insts f) = [B "Folder"; B "Model"; B "Part"] /\
          List.map si_referent (sf_insts f) = [B "0"; B "2"; B "1"] /\
          List.map si_parent (sf_insts f) = [0; 1; 0] /\
          List.map si_name (sf_insts f) = [Some (B "  a]]>b"); Some (B "m"); Some (B "p")] /\
          List.map
            (fun i : sinst =>
             List.map
               (fun p : bytes * bytes * list node =>
                (fst (fst p), decode_prop (sf_insts f) (sf_dict f) (snd (fst p)) (snd p))) 
               (tl (si_props i))) (sf_insts f) =
          [[(B "Blob", SShared (Some (B "xyz"))); (B "Count", SInt (-7)); (B "On", SBool true);
            (B "Target", SRef (Some 3))];
           [(B "Back", SRef (Some 1)); (B "Data", SBinary [1; 2; 3; 250]); (B "Gone", SRef None)];
           [(B "Big", SInt64 (-9223372036854775808)); (B "E", SToken 5);
            (B "F", SOther (B "float") [NText (B "INF")]); (B "None", SRef None)]] /\
          sf_dict f = [(B "BwcHBwcHBwcHBwcHBwcHBw==", B "xyz")] /\ refs_resolved f = true).
Proof. exact spec_agree_computed. Qed.

Theorem C05_float_is_raw :
  write_xml XmlFileFacts.o0 (VFloat32 F32_INF) = Some (B "float", Ok (flats [WText (B "INF")])) /\
       decode_prop [] [] (B "float") (nodes_in t0 [WText (B "INF")]) = SOther (B "float") [NText (B "INF")].
Proof. exact float_is_raw. Qed.

