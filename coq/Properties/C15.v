(* Property C15 — legacy properties migrate identically on every path; explicit new value wins (statements only).
   All four code paths (binary write, XML write, binary read, XML read) call the one function
   PropertyMigration::perform, modelled by Db.migrate over tables regenerated from migration.rs and
   brick_color.rs; the bundled database is regenerated from what the crates load. *)
From RbxVerif Require Import Base Bytes Value Db MigrationTables Database MigrateFacts.
Open Scope N_scope.

(* the migrated value is a function of the legacy value alone: the four paths agree whenever they perform it *)
Theorem C15_migrate_functional : forall op v w1 w2, mig op v = Some w1 -> mig op v = Some w2 -> w1 = w2.
Proof. exact migrate_functional. Qed.

Theorem C15_migrate_result_type : forall op v w, mig op v = Some w ->
  match op with MigInset => vtype w = 9 | MigFont => vtype w = 34 | MigBrick => vtype w = 6 | MigContent => vtype w = 39 end.
Proof. exact migrate_result_type. Qed.

(* every value of the legacy type is migratable: both booleans, every URI, every BrickColor of the table *)
Theorem C15_inset_total : forall b, mig MigInset (VBool b) = Some (VEnum (if b then 1 else 2)).
Proof. exact inset_total. Qed.
Theorem C15_content_total : forall u,
  mig MigContent (VContentId u) = Some (VContent (match u with [] => CNone | _ => CUri u end)).
Proof. exact content_total. Qed.
Theorem C15_brick_total : forall n rgb, In (n, rgb) brick_color_table -> is_some (mig MigBrick (VBrickColor n)) = true.
Proof. exact brick_total_In. Qed.

(* ... except Enum.Font: the database's own enum lists items above 45, which have no FontToFontFace arm
   (known finding `unmigratable`); the items up to 45 all migrate *)
Theorem C15_font_unmigratable_refuted :
  font_unmigratable <> [] /\ forallb (fun it => N.ltb 45 (snd it)) font_unmigratable = true.
Proof. exact font_unmigratable_refuted. Qed.
Theorem C15_font_migratable_below_46 :
  forallb (fun it => if N.leb (snd it) 45 then is_some (mig MigFont (VEnum (snd it))) else true) font_items = true.
Proof. exact font_migratable_below_46. Qed.

(* the bundled database has 12 Migrate pairs *)
Theorem C15_bundled_migrations_count : length bundled_migrations = 12%nat.
Proof. exact bundled_migrations_count. Qed.
