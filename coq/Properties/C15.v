(* Property C15 — legacy properties migrate identically on every path; explicit new value wins (statements only).
   All four code paths (binary write, XML write, binary read, XML read) call the one function
   PropertyMigration::perform, modelled by Db.migrate over tables regenerated from migration.rs and
   brick_color.rs; the bundled database is regenerated from what the crates load. *)
From RbxVerif Require Import Base Bytes Value Db MigrationTables Database MigrateFacts.
Open Scope N_scope.

(* the migrated value is a function of the legacy value alone: the four paths agree whenever they perform it *)
Theorem C15_migrate_functional : forall op v w1 w2, mig op v = Some w1 -> mig op v = Some w2 -> w1 = w2.
Proof. exact migrate_functional. Qed.

Theorem C15_migrate_result_type : forall op v w, mig op v = Some w ->
  match op with MigInset => vtype w = 9 | MigFont => vtype w = 34 | MigBrick => vtype w = 6 | MigContent => vtype w = 39 end.
Proof. exact migrate_result_type. Qed.

(* every value of the legacy type is migratable: both booleans, every URI, every BrickColor of the table *)
Theorem C15_inset_total : forall b, mig MigInset (VBool b) = Some (VEnum (if b then 1 else 2)).
Proof. exact inset_total. Qed.
Theorem C15_content_total : forall u,
  mig MigContent (VContentId u) = Some (VContent (match u with [] => CNone | _ => CUri u end)).
Proof. exact content_total. Qed.
Theorem C15_brick_total : forall n rgb, In (n, rgb) brick_color_table -> is_some (mig MigBrick (VBrickColor n)) = true.
Proof. exact brick_total_In. Qed.

(* ... except Enum.Font: the database's own enum lists items above 45, which have no FontToFontFace arm
   (known finding `unmigratable`); the items up to 45 all migrate *)
Theorem C15_font_unmigratable_refuted :
  font_unmigratable <> [] /\ forallb (fun it => N.ltb 45 (snd it)) font_unmigratable = true.
Proof. exact font_unmigratable_refuted. Qed.
Theorem C15_font_migratable_below_46 :
  forallb (fun it => if N.leb (snd it) 45 then is_some (mig MigFont (VEnum (snd it))) else true) font_items = true.
Proof. exact font_migratable_below_46. Qed.

(* the bundled database has 12 Migrate pairs *)
Theorem C15_bundled_migrations_count : length bundled_migrations = 12%nat.
Proof. exact bundled_migrations_count. Qed.

(* ==== the four code paths themselves (Proofs/MigratePaths.v), on the models of rbx_binary and rbx_xml, for an arbitrary database in
   which class.pname is a canonical legacy property migrating to q (itself canonical and serializable): binary read, XML read, XML
   write and binary write all deliver the same (q, w) with w the migrated value and never the legacy name; an explicit value of q
   wins on every path and in both encounter orders; instantiated on all 12 entries (52 class/legacy pairs with inheritance) of the
   bundled database.  When the migration fails the four paths do four different things (recorded finding): *_refuted. *)
From RbxVerif Require Import MigratePaths.
Open Scope N_scope.

Theorem C15_migrate_paths_agree :
  forall (d : db) (ft : font_table) (bt : brick_table) (class pname : bytes) 
         (pd : pdesc) (q : string) (op : migop) (qd qs : pdesc),
       find_desc_bin d (string_of_bytes class) (string_of_bytes pname) = Ok (Some (pd, Some pd)) ->
       pd_kind pd = KCanon (PMigrate q op) ->
       find_desc_bin d (string_of_bytes class) q = Ok (Some (qd, Some qs)) ->
       pd_name qd = q ->
       forall v w : value,
       migrate ft bt op v = Some w ->
       bin_read_delivers d ft bt class pname q v w /\
       xml_read_delivers d ft bt class pname pd q v w /\
       xml_write_delivers d ft bt class pname q v w /\ bin_write_delivers d ft bt class pname q op qs v w.
Proof. exact migrate_paths_agree. Qed.

Theorem C15_migrate_paths_explicit_wins :
  forall (d : db) (ft : font_table) (bt : brick_table) (class pname : bytes) 
         (pd : pdesc) (q : string) (op : migop),
       find_desc_bin d (string_of_bytes class) (string_of_bytes pname) = Ok (Some (pd, Some pd)) ->
       pd_kind pd = KCanon (PMigrate q op) ->
       forall v : value,
       (forall (infl : bytes -> N -> option bytes) (uid : value) (lim : option N) 
          (ty : BinValues.wire_type) (i : BinFile.dinst),
        Bin.has_prop i (bytes_of_string q) = true ->
        exists (name : bytes) (cty : N) (mg : option (bytes * migop)),
          BinFile.find_canonical_property d ty class pname = Ok (Some (name, cty, mg)) /\
          BinFile.add_property
            {|
              BinFile.dp_font := ft;
              BinFile.dp_brick := bt;
              BinFile.dp_inflate := infl;
              BinFile.dp_fresh_uid := uid;
              BinFile.dp_lim := lim
            |} i name mg v = i) /\
       (forall (o : XmlValues.xoracle) (h : bytes -> option bytes) (beh : XmlFile.dbehavior) 
          (id : N) (ty : bytes) (st st1 : XmlFile.dstate) (evs rest : list XmlEvents.revent)
          (props : list (bytes * value)) (x v0 : value),
        beh <> XmlFile.DNoReflection ->
        let e :=
          {|
            XmlFile.xe_db := d;
            XmlFile.xe_font := ft;
            XmlFile.xe_brick := bt;
            XmlFile.xe_o := o;
            XmlFile.xe_hash := h
          |} in
        XmlFile.read_prop_value e st ty id (bytes_of_string (pd_name pd)) evs = Ok (Some v0, st1, rest) ->
        XmlValues.try_convert o v0 (XmlFile.dtype_vt (pd_type pd)) = Ok v ->
        CodecDom.bfind (bytes_of_string q) props = Some x ->
        XmlFile.deserialize_property e beh class id ty pname st props evs = Ok (st1, props, rest)) /\
       (forall (o : XmlValues.xoracle) (h : bytes -> option bytes) (beh : XmlFile.ebehavior)
          (keys : list bytes) (st : XmlFile.estate) (v0 : value),
        beh <> XmlFile.ENoReflection ->
        let e :=
          {|
            XmlFile.xe_db := d;
            XmlFile.xe_font := ft;
            XmlFile.xe_brick := bt;
            XmlFile.xe_o := o;
            XmlFile.xe_hash := h
          |} in
        XmlValues.try_convert o v0 (XmlFile.dtype_vt (pd_type pd)) = Ok v ->
        XmlFile.has_explicit_new_value e class pname q keys = Ok true ->
        XmlFile.serialize_property e beh class keys st pname v0 = Ok ([], st)) /\
       (forall (quant : f32 -> N) (order : list bytes -> list bytes) (hash : list (bytes * bytes))
          (pi : BinFile.prop_info) (ord : list bytes) (i : CodecDom.inst) (ex : value),
        bytes_eqb (bytes_of_string q) BinFile.NAME = false ->
        BinFile.pi_migration pi = Some op ->
        CodecDom.bfind (bytes_of_string q) (CodecDom.i_props i) = Some ex ->
        vtype ex = mig_out_type op ->
        BinFile.prop_value
          {|
            BinFile.ep_font := ft;
            BinFile.ep_brick := bt;
            BinFile.ep_quant := quant;
            BinFile.ep_order := order;
            BinFile.ep_hash := hash
          |} (bytes_of_string q) pi ord i = ex).
Proof. exact migrate_paths_explicit_wins. Qed.

Theorem C15_migrate_failure_paths_disagree_refuted :
  forall (d : db) (ft : font_table) (bt : brick_table) (class pname : bytes) 
         (pd : pdesc) (q : string) (op : migop),
       find_desc_bin d (string_of_bytes class) (string_of_bytes pname) = Ok (Some (pd, Some pd)) ->
       pd_kind pd = KCanon (PMigrate q op) ->
       forall v : value,
       migrate ft bt op v = None ->
       (forall (infl : bytes -> N -> option bytes) (uid : value) (lim : option N) 
          (ty : BinValues.wire_type) (i : BinFile.dinst),
        exists (name : bytes) (cty : N) (mg : option (bytes * migop)),
          BinFile.find_canonical_property d ty class pname = Ok (Some (name, cty, mg)) /\
          BinFile.add_property
            {|
              BinFile.dp_font := ft;
              BinFile.dp_brick := bt;
              BinFile.dp_inflate := infl;
              BinFile.dp_fresh_uid := uid;
              BinFile.dp_lim := lim
            |} i name mg v = i) /\
       (forall (o : XmlValues.xoracle) (h : bytes -> option bytes) (beh : XmlFile.dbehavior) 
          (id : N) (ty : bytes) (st st1 : XmlFile.dstate) (evs rest : list XmlEvents.revent)
          (props : list (bytes * value)) (v0 : value),
        beh <> XmlFile.DNoReflection ->
        let e :=
          {|
            XmlFile.xe_db := d;
            XmlFile.xe_font := ft;
            XmlFile.xe_brick := bt;
            XmlFile.xe_o := o;
            XmlFile.xe_hash := h
          |} in
        XmlFile.read_prop_value e st ty id (bytes_of_string (pd_name pd)) evs = Ok (Some v0, st1, rest) ->
        XmlValues.try_convert o v0 (XmlFile.dtype_vt (pd_type pd)) = Ok v ->
        CodecDom.bfind (bytes_of_string q) props = None ->
        XmlFile.deserialize_property e beh class id ty pname st props evs = Err XmlValues.DE_MIGRATION) /\
       (forall (o : XmlValues.xoracle) (h : bytes -> option bytes) (beh : XmlFile.ebehavior)
          (keys : list bytes) (st : XmlFile.estate) (v0 : value),
        beh <> XmlFile.ENoReflection ->
        let e :=
          {|
            XmlFile.xe_db := d;
            XmlFile.xe_font := ft;
            XmlFile.xe_brick := bt;
            XmlFile.xe_o := o;
            XmlFile.xe_hash := h
          |} in
        XmlValues.try_convert o v0 (XmlFile.dtype_vt (pd_type pd)) = Ok v ->
        XmlFile.has_explicit_new_value e class pname q keys = Ok false ->
        XmlFile.serialize_property e beh class keys st pname v0 =
        XmlFile.write_value_xml e st (bytes_of_string (pd_name pd)) v) /\
       (forall (quant : f32 -> N) (order : list bytes -> list bytes) (hash : list (bytes * bytes))
          (pi : BinFile.prop_info) (ord : list bytes) (i : CodecDom.inst) (a : bytes),
        bytes_eqb (bytes_of_string q) BinFile.NAME = false ->
        BinFile.pi_migration pi = Some op ->
        CodecDom.bfind (bytes_of_string q) (CodecDom.i_props i) = None ->
        find (BinWrite.carried i) ord = Some a ->
        CodecDom.bfind a (CodecDom.i_props i) = Some v ->
        BinFile.prop_value
          {|
            BinFile.ep_font := ft;
            BinFile.ep_brick := bt;
            BinFile.ep_quant := quant;
            BinFile.ep_order := order;
            BinFile.ep_hash := hash
          |} (bytes_of_string q) pi ord i = v).
Proof. exact migrate_failure_paths_disagree_refuted. Qed.

Theorem C15_raw_legacy_value_in_new_column :
  forall (op : migop) (v : value) (wt : BinValues.wire_type) (ctx : BinValues.enc_ctx) (vs : list value),
       vtype v = mig_in_type op ->
       BinValues.from_rbx_type (mig_out_type op) = Some wt ->
       BinValues.enc_col wt ctx (v :: vs) = Err BinValues.EE_TYPE_MISMATCH.
Proof. exact raw_legacy_value_in_new_column. Qed.

Theorem C15_Bin_bin_read_explicit_wins_both_orders :
  forall (p : BinFile.dec_params) (i : BinFile.dinst) (name nn : bytes) (op : migop) (v ex : value),
       let legacy := fun i0 : BinFile.dinst => BinFile.add_property p i0 name (Some (nn, op)) v in
       let explicit := fun i0 : BinFile.dinst => BinFile.add_property p i0 nn None ex in
       legacy (explicit i) = explicit i /\
       CodecDom.bfind nn (BinFile.collect_props (BinFile.di_props (legacy (explicit i)))) = Some ex /\
       CodecDom.bfind nn (BinFile.collect_props (BinFile.di_props (explicit (legacy i)))) = Some ex.
Proof. exact Bin.bin_read_explicit_wins_both_orders. Qed.

Theorem C15_Bin_bin_read_legacy_name_never_a_key :
  forall (p : BinFile.dec_params) (i : BinFile.dinst) (name nn : bytes) (op : migop) 
         (v : value) (legacy : bytes),
       legacy <> nn ->
       ~ In legacy (List.map fst (BinFile.di_props i)) ->
       ~ In legacy (List.map fst (BinFile.di_props (BinFile.add_property p i name (Some (nn, op)) v))) /\
       CodecDom.bfind legacy
         (BinFile.collect_props (BinFile.di_props (BinFile.add_property p i name (Some (nn, op)) v))) = None.
Proof. exact Bin.bin_read_legacy_name_never_a_key. Qed.

Theorem C15_Xml_xml_read_explicit_then_legacy :
  forall (e : XmlFile.xenv) (beh : XmlFile.dbehavior) (class : bytes) (id : N)
         (props : list (bytes * value)) (tyq qname : bytes) (qd qs : pdesc) (st : XmlFile.dstate)
         (evs : list XmlEvents.revent) (x0 x : value) (st1 : XmlFile.dstate) (r1 : list XmlEvents.revent)
         (ty pname : bytes) (pd ser : pdesc) (q : string) (op : migop) (v0 v : value) 
         (st2 : XmlFile.dstate) (r2 : list XmlEvents.revent),
       beh <> XmlFile.DNoReflection ->
       find_desc_xml (XmlFile.xe_db e) (XmlFile.S_ class) (XmlFile.S_ qname) = Ok (Some (qd, qs)) ->
       match pd_kind qd with
       | KCanon (PMigrate _ _) => False
       | _ => True
       end ->
       pd_name qd = q ->
       XmlFile.read_prop_value e st tyq id (bytes_of_string (pd_name qd)) evs = Ok (Some x0, st1, r1) ->
       XmlValues.try_convert (XmlFile.xe_o e) x0 (XmlFile.dtype_vt (pd_type qd)) = Ok x ->
       find_desc_xml (XmlFile.xe_db e) (XmlFile.S_ class) (XmlFile.S_ pname) = Ok (Some (pd, ser)) ->
       pd_kind pd = KCanon (PMigrate q op) ->
       XmlFile.read_prop_value e st1 ty id (bytes_of_string (pd_name pd)) r1 = Ok (Some v0, st2, r2) ->
       XmlValues.try_convert (XmlFile.xe_o e) v0 (XmlFile.dtype_vt (pd_type pd)) = Ok v ->
       exists props1 : list (bytes * value),
         XmlFile.deserialize_property e beh class id tyq qname st props evs = Ok (st1, props1, r1) /\
         XmlFile.deserialize_property e beh class id ty pname st1 props1 r1 = Ok (st2, props1, r2) /\
         CodecDom.bfind (bytes_of_string q) props1 = Some x.
Proof. exact Xml.xml_read_explicit_then_legacy. Qed.

Theorem C15_Xml_xml_read_legacy_then_explicit :
  forall (e : XmlFile.xenv) (beh : XmlFile.dbehavior) (class : bytes) (id : N)
         (props : list (bytes * value)) (ty pname : bytes) (pd ser : pdesc) (q : string) 
         (op : migop) (st : XmlFile.dstate) (evs : list XmlEvents.revent) (v0 v : value)
         (st1 : XmlFile.dstate) (r1 : list XmlEvents.revent) (tyq qname : bytes) 
         (qd qs : pdesc) (x0 x : value) (st2 : XmlFile.dstate) (r2 : list XmlEvents.revent),
       beh <> XmlFile.DNoReflection ->
       find_desc_xml (XmlFile.xe_db e) (XmlFile.S_ class) (XmlFile.S_ pname) = Ok (Some (pd, ser)) ->
       pd_kind pd = KCanon (PMigrate q op) ->
       XmlFile.read_prop_value e st ty id (bytes_of_string (pd_name pd)) evs = Ok (Some v0, st1, r1) ->
       XmlValues.try_convert (XmlFile.xe_o e) v0 (XmlFile.dtype_vt (pd_type pd)) = Ok v ->
       CodecDom.bfind (bytes_of_string q) props <> None \/
       migrate (XmlFile.xe_font e) (XmlFile.xe_brick e) op v <> None ->
       find_desc_xml (XmlFile.xe_db e) (XmlFile.S_ class) (XmlFile.S_ qname) = Ok (Some (qd, qs)) ->
       match pd_kind qd with
       | KCanon (PMigrate _ _) => False
       | _ => True
       end ->
       pd_name qd = q ->
       XmlFile.read_prop_value e st1 tyq id (bytes_of_string (pd_name qd)) r1 = Ok (Some x0, st2, r2) ->
       XmlValues.try_convert (XmlFile.xe_o e) x0 (XmlFile.dtype_vt (pd_type qd)) = Ok x ->
       exists props1 : list (bytes * value),
         XmlFile.deserialize_property e beh class id ty pname st props evs = Ok (st1, props1, r1) /\
         XmlFile.deserialize_property e beh class id tyq qname st1 props1 r1 =
         Ok (st2, CodecDom.bupd (bytes_of_string q) x props1, r2) /\
         CodecDom.bfind (bytes_of_string q) (CodecDom.bupd (bytes_of_string q) x props1) = Some x.
Proof. exact Xml.xml_read_legacy_then_explicit. Qed.

Theorem C15_Xml_xml_read_legacy_name_never_a_key :
  forall (e : XmlFile.xenv) (beh : XmlFile.dbehavior) (class : bytes) (inst_id : N) 
         (ty pname : bytes) (pd ser : pdesc) (q : string) (op : migop),
       beh <> XmlFile.DNoReflection ->
       find_desc_xml (XmlFile.xe_db e) (XmlFile.S_ class) (XmlFile.S_ pname) = Ok (Some (pd, ser)) ->
       pd_kind pd = KCanon (PMigrate q op) ->
       forall (st st1 : XmlFile.dstate) (evs rest : list XmlEvents.revent) (v0 v : value),
       XmlFile.read_prop_value e st ty inst_id (bytes_of_string (pd_name pd)) evs = Ok (Some v0, st1, rest) ->
       XmlValues.try_convert (XmlFile.xe_o e) v0 (XmlFile.dtype_vt (pd_type pd)) = Ok v ->
       forall (props : list (bytes * value)) (st' : XmlFile.dstate) (props' : list (bytes * value))
         (rest' : list XmlEvents.revent) (legacy : bytes),
       legacy <> bytes_of_string q ->
       CodecDom.bfind legacy props = None ->
       XmlFile.deserialize_property e beh class inst_id ty pname st props evs = Ok (st', props', rest') ->
       CodecDom.bfind legacy props' = None.
Proof. exact Xml.xml_read_legacy_name_never_a_key. Qed.

Theorem C15_Xml_xml_read_failure_depends_on_element_order_refuted :
  forall (e : XmlFile.xenv) (beh : XmlFile.dbehavior) (class : bytes) (inst_id : N) 
         (ty pname : bytes) (pd ser : pdesc) (q : string) (op : migop),
       beh <> XmlFile.DNoReflection ->
       find_desc_xml (XmlFile.xe_db e) (XmlFile.S_ class) (XmlFile.S_ pname) = Ok (Some (pd, ser)) ->
       pd_kind pd = KCanon (PMigrate q op) ->
       forall (st st1 : XmlFile.dstate) (evs rest : list XmlEvents.revent) (v0 v : value),
       XmlFile.read_prop_value e st ty inst_id (bytes_of_string (pd_name pd)) evs = Ok (Some v0, st1, rest) ->
       XmlValues.try_convert (XmlFile.xe_o e) v0 (XmlFile.dtype_vt (pd_type pd)) = Ok v ->
       forall props : list (bytes * value),
       migrate (XmlFile.xe_font e) (XmlFile.xe_brick e) op v = None ->
       (forall x : value,
        CodecDom.bfind (bytes_of_string q) props = Some x ->
        XmlFile.deserialize_property e beh class inst_id ty pname st props evs = Ok (st1, props, rest)) /\
       (CodecDom.bfind (bytes_of_string q) props = None ->
        XmlFile.deserialize_property e beh class inst_id ty pname st props evs = Err XmlValues.DE_MIGRATION).
Proof. exact Xml.xml_read_failure_depends_on_element_order_refuted. Qed.

Theorem C15_Bundled_bundled_entries_ok :
  forallb (entry_ok database) bundled_migrations = true.
Proof. exact Bundled.bundled_entries_ok. Qed.

Theorem C15_Bundled_bundled_classes_ok :
  forallb (fun c : cdesc => forallb (class_entry_ok database (cd_name c)) Bundled.bundled_legacy_names)
         (db_classes database) = true.
Proof. exact Bundled.bundled_classes_ok. Qed.

Theorem C15_Bundled_bundled_migrate_paths_agree :
  forall (c p q : string) (op : migop) (v w : value),
       In (c, p, q, op) bundled_migrations ->
       mig op v = Some w ->
       exists pd qs : pdesc,
         pd_name pd = p /\
         bin_read_delivers database font_migration_table brick_color_table (bytes_of_string c)
           (bytes_of_string p) q v w /\
         xml_read_delivers database font_migration_table brick_color_table (bytes_of_string c)
           (bytes_of_string p) pd q v w /\
         xml_write_delivers database font_migration_table brick_color_table (bytes_of_string c)
           (bytes_of_string p) q v w /\
         bin_write_delivers database font_migration_table brick_color_table (bytes_of_string c)
           (bytes_of_string p) q op qs v w.
Proof. exact Bundled.bundled_migrate_paths_agree. Qed.

Theorem C15_Bundled_bundled_migrate_paths_agree_inherited :
  forall (c : cdesc) (p : string) (pd : pdesc) (ser : option pdesc) (q : string) 
         (op : migop) (v w : value),
       In c (db_classes database) ->
       In p Bundled.bundled_legacy_names ->
       find_desc_bin database (cd_name c) p = Ok (Some (pd, ser)) ->
       pd_kind pd = KCanon (PMigrate q op) ->
       mig op v = Some w ->
       exists qs : pdesc,
         bin_read_delivers database font_migration_table brick_color_table (bytes_of_string (cd_name c))
           (bytes_of_string p) q v w /\
         xml_read_delivers database font_migration_table brick_color_table (bytes_of_string (cd_name c))
           (bytes_of_string p) pd q v w /\
         xml_write_delivers database font_migration_table brick_color_table (bytes_of_string (cd_name c))
           (bytes_of_string p) q v w /\
         bin_write_delivers database font_migration_table brick_color_table (bytes_of_string (cd_name c))
           (bytes_of_string p) q op qs v w.
Proof. exact Bundled.bundled_migrate_paths_agree_inherited. Qed.

Theorem C15_EndToEnd_e2e_explicit_wins :
  EndToEnd.bin EndToEnd.db_none EndToEnd.db_first (EndToEnd.both "BrickColor" 194) =
       EndToEnd.explicit_kept /\
       EndToEnd.bin EndToEnd.db_none EndToEnd.db_last (EndToEnd.both "Tint" 194) = EndToEnd.explicit_kept /\
       EndToEnd.xml EndToEnd.db_none EndToEnd.db_first XmlFile.DIgnoreUnknown
         (EndToEnd.both "BrickColor" 194) = EndToEnd.explicit_kept /\
       EndToEnd.xml EndToEnd.db_none EndToEnd.db_last XmlFile.DIgnoreUnknown (EndToEnd.both "Tint" 194) =
       EndToEnd.explicit_kept /\
       EndToEnd.bin EndToEnd.db_first EndToEnd.db_none (EndToEnd.both "BrickColor" 194) =
       EndToEnd.explicit_kept /\
       EndToEnd.xml EndToEnd.db_first EndToEnd.db_none XmlFile.DReadUnknown (EndToEnd.both "BrickColor" 194) =
       EndToEnd.explicit_kept.
Proof. exact EndToEnd.e2e_explicit_wins. Qed.

Theorem C15_EndToEnd_e2e_paths_agree :
  EndToEnd.bin EndToEnd.db_none EndToEnd.db_first (EndToEnd.only "BrickColor" 194) =
       EndToEnd.migrated_kept /\
       EndToEnd.bin EndToEnd.db_first EndToEnd.db_none (EndToEnd.only "BrickColor" 194) =
       EndToEnd.migrated_kept /\
       EndToEnd.xml EndToEnd.db_none EndToEnd.db_first XmlFile.DIgnoreUnknown
         (EndToEnd.only "BrickColor" 194) = EndToEnd.migrated_kept /\
       EndToEnd.xml EndToEnd.db_first EndToEnd.db_none XmlFile.DReadUnknown (EndToEnd.only "BrickColor" 194) =
       EndToEnd.migrated_kept.
Proof. exact EndToEnd.e2e_paths_agree. Qed.

Theorem C15_EndToEnd_e2e_failure_paths_disagree_refuted :
  EndToEnd.bin EndToEnd.db_none EndToEnd.db_first (EndToEnd.only "BrickColor" 5) = Ok [[]] /\
       EndToEnd.bin EndToEnd.db_first EndToEnd.db_none (EndToEnd.only "BrickColor" 5) =
       Err BinValues.EE_TYPE_MISMATCH /\
       EndToEnd.xml EndToEnd.db_none EndToEnd.db_first XmlFile.DIgnoreUnknown (EndToEnd.only "BrickColor" 5) =
       Err XmlValues.DE_MIGRATION /\
       EndToEnd.xml EndToEnd.db_first EndToEnd.db_none XmlFile.DReadUnknown (EndToEnd.only "BrickColor" 5) =
       Ok [[(EndToEnd.bs "BrickColor", VInt32 5)]].
Proof. exact EndToEnd.e2e_failure_paths_disagree_refuted. Qed.

(* ---- binary write path, the order in which a column's aliases are consulted (Proofs/BinAliasOrder.v): with the legacy
   names consulted last (the writer since /repo 94a4bf2f) an explicit value of the new property spelled by an ALIAS wins
   over every legacy spelling the instance carries; with a legacy name in front (possible in the pinned code: one hash
   set, per-process order) the migrated legacy value was written — the recorded and repaired finding *)
From RbxVerif Require Import CodecDom BinValues BinFile BinAliasOrder.
Import List.ListNotations.
Open Scope string_scope.
Theorem C15_prop_value_alias_explicit_wins :
  forall (p : enc_params) (canon : bytes) (pi : prop_info) (i : inst) (op : migop)
         (is_legacy : bytes -> bool),
       bytes_eqb canon NAME = false ->
       pi_migration pi = Some op ->
       forall (ord : list bytes) (a : bytes) (ex : value),
       legacy_last is_legacy ord ->
       bfind canon (i_props i) = None ->
       In a ord ->
       is_legacy a = false ->
       bfind a (i_props i) = Some ex ->
       (forall (b : bytes) (v : value),
        In b ord -> is_legacy b = false -> bfind b (i_props i) = Some v -> v = ex) ->
       vtype ex = mig_out_type op -> prop_value p canon pi ord i = ex.
Proof. exact prop_value_alias_explicit_wins. Qed.

Theorem C15_prop_value_legacy_first_loses :
  forall (p : enc_params) (canon : bytes) (pi : prop_info) (i : inst) (op : migop),
       bytes_eqb canon NAME = false ->
       pi_migration pi = Some op ->
       forall (ord : list bytes) (l : bytes) (v w : value),
       bfind canon (i_props i) = None ->
       find (BinWrite.carried i) ord = Some l ->
       bfind l (i_props i) = Some v ->
       migrate (ep_font p) (ep_brick p) op v = Some w -> prop_value p canon pi ord i = w.
Proof. exact prop_value_legacy_first_loses. Qed.

Theorem C15_BinAliasOrderExample_ex_explicit_wins :
  prop_value BinAliasOrderExample.ex_ep (BinAliasOrderExample.B "Color") BinAliasOrderExample.ex_pi
         [BinAliasOrderExample.B "Color3uint8"; BinAliasOrderExample.B "BrickColor"]
         BinAliasOrderExample.ex_inst = VColor3uint8 1 2 3.
Proof. exact BinAliasOrderExample.ex_explicit_wins. Qed.

Theorem C15_BinAliasOrderExample_ex_legacy_first_loses :
  prop_value BinAliasOrderExample.ex_ep (BinAliasOrderExample.B "Color") BinAliasOrderExample.ex_pi
         [BinAliasOrderExample.B "BrickColor"; BinAliasOrderExample.B "Color3uint8"]
         BinAliasOrderExample.ex_inst = VColor3uint8 242 243 243.
Proof. exact BinAliasOrderExample.ex_legacy_first_loses. Qed.

(* ---- the same at column and file level (Proofs/BinAliasOrderFile.v): the column collect_type_info builds for a class whose instances carry the legacy
   name, an alias and/or the new name in any visiting order (migration set as soon as one instance carried the legacy name; aliases = exactly the
   non-canonical spellings met, each once: column_after_two_instances, any database); the PROP chunk under an order with the legacy names last holds the
   explicit value (prop_chunk_alias_explicit_wins, any database; the hypothesis is satisfiable for every database: partition_order_legacy_last); and
   encode_file followed by decode_file on the sample database (BrickColor -> Color, Color3uint8 an alias), generic in both values, both visiting orders,
   all of ep and dp: exactly {Color := ex} comes back; with the legacy name first the migrated legacy value comes back, and a legacy value WITHOUT
   migration makes the whole save fail although a valid explicit value is present (bin_write_legacy_first_unmigratable_fails_file) — the outcome is
   decided by the order alone (bin_write_outcome_is_the_order_file). *)
From RbxVerif Require Import BinAliasOrderFile.
Theorem C15_column_after_two_instances :
  forall (d : db) (class p a : bytes) (cd sd : pdesc) (q : string) (op : migop) (qd qs : pdesc),
       find_desc_bin d (string_of_bytes class) (string_of_bytes p) = Ok (Some (cd, Some sd)) ->
       pd_kind sd = KCanon (PMigrate q op) ->
       find_desc_bin d (string_of_bytes class) q = Ok (Some (qd, Some qs)) ->
       find_desc_bin d (string_of_bytes class) (string_of_bytes a) = Ok (Some (qd, Some qs)) ->
       find_desc_bin d (string_of_bytes class) (string_of_bytes (bstr (pd_name qd))) =
       Ok (Some (qd, Some qs)) ->
       match pd_kind qs with
       | KCanon (PMigrate _ _) => False
       | _ => True
       end ->
       bytes_eqb a p = false ->
       bytes_eqb (bstr (pd_name qd)) p = false ->
       bytes_eqb (bstr (pd_name qd)) NAME = false ->
       forall (dbdef : option value) (dv : value) (wt : wire_type),
       match get_class d (string_of_bytes class) with
       | Some c => find_default d c (string_of_bytes (bstr (pd_name qd)))
       | None => Ok None
       end = Ok dbdef ->
       match dbdef with
       | Some x => Some x
       | None => fallback_default_value (dtype_vt (pd_type qs))
       end = Some dv ->
       from_rbx_type (dtype_vt (pd_type qs)) = Some wt ->
       forall (st : ser_state) (i1 i2 : inst),
       i_class i1 = class ->
       i_class i2 = class ->
       bfind class (ss_types st) = None ->
       only_spellings p a qd (i_props i1) ->
       only_spellings p a qd (i_props i2) ->
       i_props i1 <> [] ->
       let names := List.map fst (i_props i1) ++ List.map fst (i_props i2) in
       exists (st1 st2 : ser_state) (ti2 : type_info) (pi : prop_info),
         collect_type_info d st i1 = Ok st1 /\
         collect_type_info d st1 i2 = Ok st2 /\
         bfind class (ss_types st2) = Some ti2 /\
         ti_instances ti2 = [i_ref i1; i_ref i2] /\
         bfind (bstr (pd_name qd)) (ti_props ti2) = Some pi /\
         (In p names -> pi_migration pi = Some op) /\
         (forall y : bytes, In y (pi_aliases pi) <-> In y names /\ bytes_eqb y (bstr (pd_name qd)) = false) /\
         NoDup (pi_aliases pi).
Proof. exact column_after_two_instances. Qed.

Theorem C15_prop_chunk_alias_explicit_wins :
  forall (d : db) (class : bytes) (ep : enc_params) (dom : cdom) (ctx : enc_ctx) 
         (ti : type_info) (can : bytes) (pi : prop_info) (op : migop) (r : N) (i : inst) 
         (a : bytes) (ex : value),
       ep_legacy_last d class ep ->
       bytes_eqb can NAME = false ->
       pi_migration pi = Some op ->
       ti_instances ti = [r] ->
       find_inst dom r = Some i ->
       bfind can (i_props i) = None ->
       In a (pi_aliases pi) ->
       is_legacy_db d class a = false ->
       bfind a (i_props i) = Some ex ->
       (forall (b : bytes) (v : value),
        In b (pi_aliases pi) -> is_legacy_db d class b = false -> bfind b (i_props i) = Some v -> v = ex) ->
       vtype ex = mig_out_type op ->
       prop_chunk ep dom ctx ti (can, pi) =
       ' col <- enc_col (pi_type pi) ctx [ex];;
       Ok (CH_PROP, w_le32 (ti_id ti) ++ w_bstr (pi_ser_name pi) ++ w_u8 (wire_id (pi_type pi)) ++ col).
Proof. exact prop_chunk_alias_explicit_wins. Qed.

Theorem C15_prop_chunk_legacy_first_loses :
  forall (ep : enc_params) (dom : cdom) (ctx : enc_ctx) (ti : type_info) (can : bytes) 
         (pi : prop_info) (op : migop) (r : N) (i : inst) (l : bytes) (v w : value),
       is_perm (ep_order ep (pi_aliases pi)) (pi_aliases pi) = true ->
       bytes_eqb can NAME = false ->
       pi_migration pi = Some op ->
       ti_instances ti = [r] ->
       find_inst dom r = Some i ->
       bfind can (i_props i) = None ->
       find (BinWrite.carried i) (ep_order ep (pi_aliases pi)) = Some l ->
       bfind l (i_props i) = Some v ->
       migrate (ep_font ep) (ep_brick ep) op v = Some w ->
       prop_chunk ep dom ctx ti (can, pi) =
       ' col <- enc_col (pi_type pi) ctx [w];;
       Ok (CH_PROP, w_le32 (ti_id ti) ++ w_bstr (pi_ser_name pi) ++ w_u8 (wire_id (pi_type pi)) ++ col).
Proof. exact prop_chunk_legacy_first_loses. Qed.

Theorem C15_partition_order_legacy_last :
  forall (d : db) (class : bytes) (ft : font_table) (bt : brick_table) (qu : f32 -> N)
         (hs : list (bytes * bytes)),
       ep_legacy_last d class
         {|
           ep_font := ft;
           ep_brick := bt;
           ep_quant := qu;
           ep_order := partition_order (is_legacy_db d class);
           ep_hash := hs
         |}.
Proof. exact partition_order_legacy_last. Qed.

Theorem C15_SampleFile_bin_write_alias_explicit_wins_file :
  forall (ep : enc_params) (dp : dec_params) (flip : bool) (v ex : value),
       ep_legacy_last SampleFile.sdb SampleFile.PART ep ->
       dp_lim dp = None ->
       (forall s : bytes, v <> VSharedString s) ->
       vtype ex = 6 -> SampleFile.roundtrip ep dp flip v ex = SampleFile.decoded ex.
Proof. exact SampleFile.bin_write_alias_explicit_wins_file. Qed.

Theorem C15_SampleFile_bin_write_legacy_first_loses_file :
  forall (ep : enc_params) (dp : dec_params) (flip : bool) (r g b : N),
       ep_legacy_first SampleFile.sdb SampleFile.PART ep ->
       ep_brick ep = Sample.sbt ->
       dp_lim dp = None ->
       SampleFile.roundtrip ep dp flip (VBrickColor 194) (VColor3uint8 r g b) =
       SampleFile.decoded (VColor3uint8 163 162 165).
Proof. exact SampleFile.bin_write_legacy_first_loses_file. Qed.

Theorem C15_SampleFile_bin_write_outcome_is_the_order_file :
  forall (ep : enc_params) (dp : dec_params) (flip : bool) (r g b : N),
       (forall l : list bytes, is_perm (ep_order ep l) l = true) ->
       ep_brick ep = Sample.sbt ->
       dp_lim dp = None ->
       SampleFile.roundtrip ep dp flip (VBrickColor 194) (VColor3uint8 r g b) =
       SampleFile.decoded (VColor3uint8 r g b) \/
       SampleFile.roundtrip ep dp flip (VBrickColor 194) (VColor3uint8 r g b) =
       SampleFile.decoded (VColor3uint8 163 162 165).
Proof. exact SampleFile.bin_write_outcome_is_the_order_file. Qed.

Theorem C15_SampleFile_bin_write_legacy_first_unmigratable_fails_file :
  forall (ep : enc_params) (flip : bool) (r g b : N),
       ep_legacy_first SampleFile.sdb SampleFile.PART ep ->
       ep_brick ep = Sample.sbt ->
       encode_file SampleFile.sdb ep None (SampleFile.dom flip (VBrickColor 5) (VColor3uint8 r g b)) [1] =
       Err EE_TYPE_MISMATCH.
Proof. exact SampleFile.bin_write_legacy_first_unmigratable_fails_file. Qed.

