(* Property C01 — Binary round trip preserves the instance forest and every value (statements only).
   Model: Model/BinValues.v (column codecs), Model/BinFile.v (file encoder / decoder), tied to rbx_binary by the
   byte-exact `binfile` correspondence.  Proofs: Proofs/BinValuesFacts.v, BinPostorder.v, BinFileFacts.v. *)
From RbxVerif Require Import Base Bytes Value Db CodecDom Rotation BrickColor BinValues BinFile
  BytesFacts BinValuesFacts BinPostorder BinFileFacts.
From RbxVerif Require BinaryTypes.
Open Scope N_scope.

(* ---- the tables of types.rs: the model's wire ids and VariantType -> wire type map are the regenerated ones *)
Theorem C01_wire_ids_match_source :
  List.map wire_id all_wire_types = List.map snd BinaryTypes.binary_type_ids.
Proof. exact wire_ids_match_source. Qed.

Theorem C01_wire_id_roundtrip : forall t, wire_of_id (wire_id t) = Some t.
Proof. exact wire_of_id_wire_id. Qed.

(* ---- per wire type: what the column encoder writes the column decoder reads back, bit for bit, leaving the
   rest of the chunk untouched (any encoder / decoder context) *)
Theorem C01_col_roundtrip_bool : forall c dc bs rest,
  exists b, enc_col WBool c (List.map VBool bs) = Ok b /\
            dec_col WBool VT_Bool dc (length bs) (b ++ rest) = Ok (List.map VBool bs, rest).
Proof. exact col_roundtrip_bool. Qed.

Theorem C01_col_roundtrip_int32 : forall c dc zs rest,
  Forall (fun z => in_i32 z = true) zs ->
  exists b, enc_col WInt32 c (List.map VInt32 zs) = Ok b /\
            dec_col WInt32 VT_Int32 dc (length zs) (b ++ rest) = Ok (List.map VInt32 zs, rest).
Proof. exact col_roundtrip_int32. Qed.

Theorem C01_col_roundtrip_int64 : forall c dc zs rest,
  Forall (fun z => in_i64 z = true) zs ->
  exists b, enc_col WInt64 c (List.map VInt64 zs) = Ok b /\
            dec_col WInt64 VT_Int64 dc (length zs) (b ++ rest) = Ok (List.map VInt64 zs, rest).
Proof. exact col_roundtrip_int64. Qed.

(* every f32 bit pattern: NaN payloads, signed zeros, subnormals, infinities *)
Theorem C01_col_roundtrip_float32 : forall c dc xs rest,
  Forall (fun x => f32_ok x = true) xs ->
  exists b, enc_col WFloat32 c (List.map VFloat32 xs) = Ok b /\
            dec_col WFloat32 VT_Float32 dc (length xs) (b ++ rest) = Ok (List.map VFloat32 xs, rest).
Proof. exact col_roundtrip_float32. Qed.

Theorem C01_col_roundtrip_enum : forall c dc ns rest,
  Forall (fun v => v < 2 ^ 32) ns ->
  exists b, enc_col WEnum c (List.map VEnum ns) = Ok b /\
            dec_col WEnum VT_Enum dc (length ns) (b ++ rest) = Ok (List.map VEnum ns, rest).
Proof. exact col_roundtrip_enum. Qed.

Theorem C01_col_roundtrip_brickcolor : forall c dc ns rest,
  Forall (fun v => v < 65536 /\ brick_valid v = true) ns ->
  exists b, enc_col WBrickColor c (List.map VBrickColor ns) = Ok b /\
            dec_col WBrickColor VT_BrickColor dc (length ns) (b ++ rest) = Ok (List.map VBrickColor ns, rest).
Proof. exact col_roundtrip_brickcolor. Qed.

Theorem C01_col_roundtrip_vector3 : forall c dc ps rest,
  Forall (fun p => vec3_ok p = true) ps ->
  exists b, enc_col WVector3 c (List.map VVector3 ps) = Ok b /\
            dec_col WVector3 VT_Vector3 dc (length ps) (b ++ rest) = Ok (List.map VVector3 ps, rest).
Proof. exact col_roundtrip_vector3. Qed.

Theorem C01_col_roundtrip_vector2 : forall c dc ps rest,
  Forall (fun p => vec2_ok p = true) ps ->
  exists b, enc_col WVector2 c (List.map VVector2 ps) = Ok b /\
            dec_col WVector2 VT_Vector2 dc (length ps) (b ++ rest) = Ok (List.map VVector2 ps, rest).
Proof. exact col_roundtrip_vector2. Qed.

Theorem C01_col_roundtrip_color3 : forall c dc (cs : list (f32 * f32 * f32)) rest,
  Forall (fun p => f32_ok (fst (fst p)) = true /\ f32_ok (snd (fst p)) = true /\ f32_ok (snd p) = true) cs ->
  exists b, enc_col WColor3 c (List.map (fun p => VColor3 (fst (fst p)) (snd (fst p)) (snd p)) cs) = Ok b /\
            dec_col WColor3 VT_Color3 dc (length cs) (b ++ rest)
            = Ok (List.map (fun p => VColor3 (fst (fst p)) (snd (fst p)) (snd p)) cs, rest).
Proof. exact col_roundtrip_color3. Qed.

Theorem C01_col_roundtrip_udim : forall c dc us rest,
  Forall (fun u => f32_ok (ud_scale u) = true /\ in_i32 (ud_offset u) = true) us ->
  exists b, enc_col WUDim c (List.map VUDim us) = Ok b /\
            dec_col WUDim VT_UDim dc (length us) (b ++ rest) = Ok (List.map VUDim us, rest).
Proof. exact col_roundtrip_udim. Qed.

(* Refs: the file referent of a written instance (-1 for anything else) goes through the reader's resolution *)
Theorem C01_col_roundtrip_ref : forall c dc rs rest,
  Forall (fun r => in_i32 (ref_id c r) = true) rs ->
  exists b, enc_col WRef c (List.map VRef rs) = Ok b /\
            dec_col WRef VT_Ref dc (length rs) (b ++ rest)
            = Ok (List.map (fun r => VRef (dc_resolve dc (ref_id c r))) rs, rest).
Proof. exact col_roundtrip_ref. Qed.

(* Ray, all six components (after repair de369328) *)
Theorem C01_col_roundtrip_ray : forall c dc (rs : list (vec3 * vec3)) rest,
  Forall (fun p => vec3_ok (fst p) = true /\ vec3_ok (snd p) = true) rs ->
  exists b, enc_col WRay c (List.map (fun p => VRay (fst p) (snd p)) rs) = Ok b /\
            dec_col WRay VT_Ray dc (length rs) (b ++ rest) = Ok (List.map (fun p => VRay (fst p) (snd p)) rs, rest).
Proof. exact col_roundtrip_ray. Qed.

Theorem C01_col_roundtrip_numberrange : forall c dc (rs : list (f32 * f32)) rest,
  Forall (fun p => f32_ok (fst p) = true /\ f32_ok (snd p) = true) rs ->
  exists b, enc_col WNumberRange c (List.map (fun p => VNumberRange (fst p) (snd p)) rs) = Ok b /\
            dec_col WNumberRange VT_NumberRange dc (length rs) (b ++ rest)
            = Ok (List.map (fun p => VNumberRange (fst p) (snd p)) rs, rest).
Proof. exact col_roundtrip_numberrange. Qed.

Theorem C01_col_roundtrip_faces : forall c dc ns rest,
  Forall (fun v => v < 64) ns ->
  exists b, enc_col WFaces c (List.map VFaces ns) = Ok b /\
            dec_col WFaces VT_Faces dc (length ns) (b ++ rest) = Ok (List.map VFaces ns, rest).
Proof. exact col_roundtrip_faces. Qed.

Theorem C01_col_roundtrip_axes : forall c dc ns rest,
  Forall (fun v => v < 8) ns ->
  exists b, enc_col WAxes c (List.map VAxes ns) = Ok b /\
            dec_col WAxes VT_Axes dc (length ns) (b ++ rest) = Ok (List.map VAxes ns, rest).
Proof. exact col_roundtrip_axes. Qed.

Theorem C01_col_roundtrip_seccap : forall c dc ns rest,
  Forall (fun v => v < 2 ^ 64) ns ->
  exists b, enc_col WSecurityCapabilities c (List.map VSecurityCapabilities ns) = Ok b /\
            dec_col WSecurityCapabilities VT_SecurityCapabilities dc (length ns) (b ++ rest)
            = Ok (List.map VSecurityCapabilities ns, rest).
Proof. exact col_roundtrip_seccap. Qed.

(* ---- the forest: the explicit-stack loop of add_instances visits the chosen (non-overlapping) subtrees in
   post-order, so relevant_instances / referent numbering / the PRNT chunk list children before parents *)
Theorem C01_add_instances_postorder : forall d dom ts fuel st st',
  Forall (agrees (children_of dom)) ts -> NoDup (flat_map refs ts) ->
  add_loop fuel d dom true (List.map root ts) None st = Ok st' ->
  ss_relevant st' = ss_relevant st ++ flat_map post ts.
Proof. exact add_loop_postorder. Qed.

Theorem C01_postorder_fuel_suffices : forall dom ts,
  Forall (agrees (children_of dom)) ts -> NoDup (flat_map refs ts) ->
  run (children_of dom) (3 * sizes ts + 3) true (List.map root ts) None [] = Some (flat_map post ts).
Proof. exact postorder_fuel_suffices. Qed.

(* ---- framing: Chunk::decode reads back ChunkBuilder::dump (uncompressed; compressed under the oracle law),
   FileHeader::decode reads back write_header *)
Theorem C01_chunk_roundtrip : forall p name payload rest,
  length name = 4%nat -> N.of_nat (length payload) < 2 ^ 32 -> dp_lim p = None ->
  decode_chunk p (frame_chunk None (name, payload) ++ rest) = Ok ((name, payload), rest).
Proof. exact chunk_roundtrip. Qed.

Theorem C01_chunk_roundtrip_compressed : forall p (compress : bytes -> bytes) name payload rest,
  length name = 4%nat -> N.of_nat (length payload) < 2 ^ 32 ->
  N.of_nat (length (compress payload)) < 2 ^ 32 -> compress payload <> [] -> dp_lim p = None ->
  dp_inflate p (compress payload) (N.of_nat (length payload)) = Some payload ->
  decode_chunk p (frame_chunk (Some compress) (name, payload) ++ rest) = Ok ((name, payload), rest).
Proof. exact chunk_roundtrip_compressed. Qed.

Theorem C01_header_roundtrip : forall nt ni rest,
  nt < 2 ^ 32 -> ni < 2 ^ 32 ->
  decode_header None (FILE_MAGIC_HEADER ++ FILE_SIGNATURE ++ w_le16 0 ++ w_le32 nt ++ w_le32 ni ++ [0; 0; 0; 0; 0; 0; 0; 0] ++ rest)
  = Ok ((nt, ni), rest).
Proof. exact header_roundtrip. Qed.

(* ---- a whole sample file through encode_file and decode_file *)
Theorem C01_sample_roundtrip :
  decode_file db0 (dp0 None) sample_file =
  Ok [ mkInst 2 0 (bstr "Folder0") (bstr "a") [(bstr "R", VRef 0); (bstr "Q", VBool true); (bstr "P", VInt32 7%Z)];
       mkInst 1 2 (bstr "Folder0") (bstr "b") [(bstr "R", VRef 2); (bstr "Q", VBool false); (bstr "P", VInt32 (-3)%Z)];
       mkInst 3 2 (bstr "Thing") (bstr "c") [(bstr "S", VBinaryString (bstr "hi"))] ].
Proof. exact sample_roundtrip. Qed.

(* ---- witnesses of behaviours outside the permitted normalisations (computed on the model; each reproduces on
   the implementation, see the C01 oracle classes) *)
(* the Ray arm before repair de369328 *)
Theorem C01_ray_refuted :
  dec_col WRay VT_Ray ctx0 1 (ray_bytes_pinned (mkV3 0 0 0) (mkV3 f32_4 f32_5 f32_6))
  = Ok ([VRay (mkV3 0 0 0) (mkV3 f32_4 f32_5 f32_4)], []).
Proof. exact ray_refuted. Qed.

(* the Color3uint8 arm before repair 459caf55, and after *)
Theorem C01_color3uint8_unknown_property_refuted :
  match enc_col WColor3uint8 ectx0 [VColor3uint8 1 2 3] with
  | Ok b => dec_color3uint8_pinned (to_default_rbx_type WColor3uint8) 1 b
  | _ => Ok ([], [])
  end = Err E_TYPE_MISMATCH.
Proof. exact color3uint8_unknown_property_refuted. Qed.

Theorem C01_color3uint8_unknown_property_repaired :
  enc_then_dec WColor3uint8 (to_default_rbx_type WColor3uint8) ectx0 ctx0 [VColor3uint8 1 2 3]
  = Ok ([VColor3uint8 1 2 3], []).
Proof. exact color3uint8_unknown_property_repaired. Qed.

(* the Content arm before repair 55a7c594 (object referents popped from the back), and after *)
Theorem C01_content_object_order_refuted :
  content_values_pinned dctx_id [2%Z; 2%Z] [] [7%Z; 9%Z] = Ok [VContent (CObject 9); VContent (CObject 7)].
Proof. exact content_object_order_refuted. Qed.

Theorem C01_content_object_order_repaired :
  enc_then_dec WContent VT_Content ectx_id dctx_id [VContent (CObject 7); VContent (CUri [97]); VContent (CObject 9); VContent CNone]
  = Ok ([VContent (CObject 7); VContent (CUri [97]); VContent (CObject 9); VContent CNone], []).
Proof. exact content_object_order_repaired. Qed.

Theorem C01_font_cached_empty_refuted :
  enc_then_dec WFont VT_Font ectx0 ctx0 [VFont (mkFont [97] 400 0 (Some []))]
  = Ok ([VFont (mkFont [97] 400 0 None)], []).
Proof. exact font_cached_empty_refuted. Qed.

Theorem C01_tags_refuted :
  enc_then_dec WString VT_Tags ectx0 ctx0 [VTags [[97]; []; [98; 0; 99]]] = Ok ([VTags [[97]; [98]; [99]]], []).
Proof. exact tags_refuted. Qed.

(* ==== the remaining wire types (Proofs/BinValuesFacts2.v): Float64, String/BinaryString incl. the unknown-property retyping, UDim2,
   Rect, Vector3int16, Color3uint8 incl. quantisation of Color3, UniqueId, PhysicalProperties *)
From RbxVerif Require Import Utf8 BinValuesFacts2.

Theorem C01_col_roundtrip_float64 :
  forall (c : enc_ctx) (dc : dec_ctx) (xs : list f64) (rest : list N),
       Forall (fun x : f64 => f64_ok x = true) xs ->
       exists b : bytes,
         enc_col WFloat64 c (List.map VFloat64 xs) = Ok b /\
         dec_col WFloat64 VT_Float64 dc (Datatypes.length xs) (b ++ rest) = Ok (List.map VFloat64 xs, rest).
Proof. exact col_roundtrip_float64. Qed.

Theorem C01_col_widen_float32_in_float64_column :
  forall (c : enc_ctx) (dc : dec_ctx) (xs : list f32) (rest : list N),
       Forall (fun x : f32 => f32_ok x = true) xs ->
       exists b : bytes,
         enc_col WFloat64 c (List.map VFloat32 xs) = Ok b /\
         dec_col WFloat64 VT_Float64 dc (Datatypes.length xs) (b ++ rest) =
         Ok (List.map (fun x : f32 => VFloat64 (f64_of_f32 x)) xs, rest).
Proof. exact col_widen_float32_in_float64_column. Qed.

Theorem C01_col_roundtrip_string :
  forall (c : enc_ctx) (dc : dec_ctx) (ss : list bytes) (rest : list N),
       Forall (fun s : bytes => bstr_ok (dc_lim dc) s = true /\ utf8_valid s = true) ss ->
       exists b : bytes,
         enc_col WString c (List.map VString ss) = Ok b /\
         dec_col WString VT_Str dc (Datatypes.length ss) (b ++ rest) = Ok (List.map VString ss, rest).
Proof. exact col_roundtrip_string. Qed.

Theorem C01_col_roundtrip_string_norm :
  forall (c : enc_ctx) (dc : dec_ctx) (ss : list bytes) (rest : list N),
       Forall (fun s : bytes => bstr_ok (dc_lim dc) s = true) ss ->
       exists b : bytes,
         enc_col WString c (List.map VString ss) = Ok b /\
         dec_col WString VT_Str dc (Datatypes.length ss) (b ++ rest) =
         Ok (List.map (fun s : bytes => VString (str_norm s)) ss, rest).
Proof. exact col_roundtrip_string_norm. Qed.

Theorem C01_col_roundtrip_binarystring :
  forall (c : enc_ctx) (dc : dec_ctx) (ss : list bytes) (rest : list N),
       Forall (fun s : bytes => bstr_ok (dc_lim dc) s = true) ss ->
       exists b : bytes,
         enc_col WString c (List.map VBinaryString ss) = Ok b /\
         dec_col WString VT_BinaryString dc (Datatypes.length ss) (b ++ rest) =
         Ok (List.map VBinaryString ss, rest).
Proof. exact col_roundtrip_binarystring. Qed.

Theorem C01_col_string_unknown_property :
  forall (c : enc_ctx) (dc : dec_ctx) (ss : list bytes) (rest : list N),
       Forall (fun s : bytes => bstr_ok (dc_lim dc) s = true) ss ->
       exists b : bytes,
         enc_col WString c (List.map VString ss) = Ok b /\
         dec_col WString (to_default_rbx_type WString) dc (Datatypes.length ss) (b ++ rest) =
         Ok (List.map VBinaryString ss, rest).
Proof. exact col_string_unknown_property. Qed.

Theorem C01_col_binarystring_unknown_property :
  forall (c : enc_ctx) (dc : dec_ctx) (ss : list bytes) (rest : list N),
       Forall (fun s : bytes => bstr_ok (dc_lim dc) s = true) ss ->
       exists b : bytes,
         enc_col WString c (List.map VBinaryString ss) = Ok b /\
         dec_col WString (to_default_rbx_type WString) dc (Datatypes.length ss) (b ++ rest) =
         Ok (List.map VBinaryString ss, rest).
Proof. exact col_binarystring_unknown_property. Qed.

Theorem C01_col_binarystring_as_string :
  forall (c : enc_ctx) (dc : dec_ctx) (ss : list bytes) (rest : list N),
       Forall (fun s : bytes => bstr_ok (dc_lim dc) s = true) ss ->
       exists b : bytes,
         enc_col WString c (List.map VBinaryString ss) = Ok b /\
         dec_col WString VT_Str dc (Datatypes.length ss) (b ++ rest) =
         Ok (List.map (fun s : bytes => VString (str_norm s)) ss, rest).
Proof. exact col_binarystring_as_string. Qed.

Theorem C01_col_roundtrip_udim2 :
  forall (c : enc_ctx) (dc : dec_ctx) (us : list (udim * udim)) (rest : list N),
       Forall (fun p : udim * udim => udim_ok (fst p) = true /\ udim_ok (snd p) = true) us ->
       exists b : bytes,
         enc_col WUDim2 c (List.map (fun p : udim * udim => VUDim2 (fst p) (snd p)) us) = Ok b /\
         dec_col WUDim2 VT_UDim2 dc (Datatypes.length us) (b ++ rest) =
         Ok (List.map (fun p : udim * udim => VUDim2 (fst p) (snd p)) us, rest).
Proof. exact col_roundtrip_udim2. Qed.

Theorem C01_col_roundtrip_rect :
  forall (c : enc_ctx) (dc : dec_ctx) (rs : list (vec2 * vec2)) (rest : list N),
       Forall (fun p : vec2 * vec2 => vec2_ok (fst p) = true /\ vec2_ok (snd p) = true) rs ->
       exists b : bytes,
         enc_col WRect c (List.map (fun p : vec2 * vec2 => VRect (fst p) (snd p)) rs) = Ok b /\
         dec_col WRect VT_Rect dc (Datatypes.length rs) (b ++ rest) =
         Ok (List.map (fun p : vec2 * vec2 => VRect (fst p) (snd p)) rs, rest).
Proof. exact col_roundtrip_rect. Qed.

Theorem C01_col_roundtrip_vector3int16 :
  forall (c : enc_ctx) (dc : dec_ctx) (ps : list (Z * Z * Z)) (rest : list N),
       Forall (fun p : Z * Z * Z => v3i16_ok p = true) ps ->
       exists b : bytes,
         enc_col WVector3int16 c
           (List.map (fun p : Z * Z * Z => VVector3int16 (fst (fst p)) (snd (fst p)) (snd p)) ps) = 
         Ok b /\
         dec_col WVector3int16 VT_Vector3int16 dc (Datatypes.length ps) (b ++ rest) =
         Ok (List.map (fun p : Z * Z * Z => VVector3int16 (fst (fst p)) (snd (fst p)) (snd p)) ps, rest).
Proof. exact col_roundtrip_vector3int16. Qed.

Theorem C01_col_roundtrip_color3uint8 :
  forall (c : enc_ctx) (dc : dec_ctx) (cty : N) (cs : list (N * N * N)) (rest : list N),
       cty = VT_Color3 \/ cty = VT_Color3uint8 ->
       exists b : bytes,
         enc_col WColor3uint8 c
           (List.map (fun p : N * N * N => VColor3uint8 (fst (fst p)) (snd (fst p)) (snd p)) cs) = 
         Ok b /\
         dec_col WColor3uint8 cty dc (Datatypes.length cs) (b ++ rest) =
         Ok (List.map (fun p : N * N * N => VColor3uint8 (fst (fst p)) (snd (fst p)) (snd p)) cs, rest).
Proof. exact col_roundtrip_color3uint8. Qed.

Theorem C01_col_quantise_color3_color3uint8 :
  forall (c : enc_ctx) (dc : dec_ctx) (cty : N) (cs : list (f32 * f32 * f32)) (rest : list N),
       cty = VT_Color3 \/ cty = VT_Color3uint8 ->
       exists b : bytes,
         enc_col WColor3uint8 c
           (List.map (fun p : f32 * f32 * f32 => VColor3 (fst (fst p)) (snd (fst p)) (snd p)) cs) = 
         Ok b /\
         dec_col WColor3uint8 cty dc (Datatypes.length cs) (b ++ rest) =
         Ok
           (List.map
              (fun p : f32 * f32 * f32 =>
               VColor3uint8 (ec_quant c (fst (fst p))) (ec_quant c (snd (fst p))) (ec_quant c (snd p))) cs,
            rest).
Proof. exact col_quantise_color3_color3uint8. Qed.

Theorem C01_col_roundtrip_color3uint8_mixed :
  forall (c : enc_ctx) (dc : dec_ctx) (cty : N) (xs : list c3in) (rest : list N),
       cty = VT_Color3 \/ cty = VT_Color3uint8 ->
       exists b : bytes,
         enc_col WColor3uint8 c (List.map c3_value xs) = Ok b /\
         dec_col WColor3uint8 cty dc (Datatypes.length xs) (b ++ rest) =
         Ok (List.map (c3_back (ec_quant c)) xs, rest).
Proof. exact col_roundtrip_color3uint8_mixed. Qed.

Theorem C01_col_roundtrip_uniqueid :
  forall (c : enc_ctx) (dc : dec_ctx) (us : list (N * N * Z)) (rest : list N),
       Forall (fun p : N * N * Z => uid_ok p = true) us ->
       exists b : bytes,
         enc_col WUniqueId c
           (List.map (fun p : N * N * Z => VUniqueId (fst (fst p)) (snd (fst p)) (snd p)) us) = 
         Ok b /\
         dec_col WUniqueId VT_UniqueId dc (Datatypes.length us) (b ++ rest) =
         Ok (List.map (fun p : N * N * Z => VUniqueId (fst (fst p)) (snd (fst p)) (snd p)) us, rest).
Proof. exact col_roundtrip_uniqueid. Qed.

Theorem C01_col_roundtrip_physicalproperties :
  forall (c : enc_ctx) (dc : dec_ctx) (os : list (option physprops)) (rest : list N),
       Forall (fun o : option physprops => physopt_ok o = true) os ->
       exists b : bytes,
         enc_col WPhysicalProperties c (List.map VPhysicalProperties os) = Ok b /\
         dec_col WPhysicalProperties VT_PhysicalProperties dc (Datatypes.length os) (b ++ rest) =
         Ok (List.map VPhysicalProperties os, rest).
Proof. exact col_roundtrip_physicalproperties. Qed.

(* ==== CFrame / OptionalCFrame (rotation normalisation norm_rot), NumberSequence, ColorSequence, SharedString, Font, Content
   (Proofs/BinValuesFacts3.v) *)
From RbxVerif Require Import Attr RotationFacts BinValuesFacts3.

Theorem C01_norm_rot_no_id : forall m, to_basic_rotation_id m = None -> norm_rot m = m.
Proof. exact norm_rot_no_id. Qed.
Theorem C01_norm_rot_id : forall m id, to_basic_rotation_id m = Some id -> from_basic_rotation_id id = Some (norm_rot m).
Proof. exact norm_rot_id. Qed.
Theorem C01_norm_rot_idempotent : forall m, norm_rot (norm_rot m) = norm_rot m.
Proof. exact norm_rot_idempotent. Qed.
Theorem C01_norm_rot_near : forall m, norm_rot m = m \/ near_mat m (norm_rot m).
Proof. exact norm_rot_near. Qed.

Theorem C01_col_roundtrip_cframe : forall c dc cfs rest,
  Forall (fun cf => cframe_ok cf = true) cfs ->
  exists b, enc_col WCFrame c (List.map VCFrame cfs) = Ok b /\
            dec_col WCFrame VT_CFrame dc (length cfs) (b ++ rest)
            = Ok (List.map (fun cf => VCFrame (mkCF (cf_pos cf) (norm_rot (cf_rot cf)))) cfs, rest).
Proof. exact col_roundtrip_cframe. Qed.

Theorem C01_col_roundtrip_optionalcframe : forall c dc os rest,
  Forall (fun o => ocf_ok o = true) os ->
  exists b, enc_col WOptionalCFrame c (List.map VOptionalCFrame os) = Ok b /\
            dec_col WOptionalCFrame VT_OptionalCFrame dc (length os) (b ++ rest)
            = Ok (List.map (fun o => VOptionalCFrame (option_map (fun cf => mkCF (cf_pos cf) (norm_rot (cf_rot cf))) o)) os,
                  rest).
Proof. exact col_roundtrip_optionalcframe. Qed.

Theorem C01_col_roundtrip_numbersequence : forall c dc ks rest,
  Forall (fun kps => nseq_ok (dc_lim dc) kps = true) ks ->
  exists b, enc_col WNumberSequence c (List.map VNumberSequence ks) = Ok b /\
            dec_col WNumberSequence VT_NumberSequence dc (length ks) (b ++ rest)
            = Ok (List.map VNumberSequence ks, rest).
Proof. exact col_roundtrip_numbersequence. Qed.

Theorem C01_col_roundtrip_colorsequence : forall c dc ks rest,
  Forall (fun kps => cseq_ok (dc_lim dc) kps = true) ks ->
  exists b, enc_col WColorSequence c (List.map VColorSequence ks) = Ok b /\
            dec_col WColorSequence VT_ColorSequence dc (length ks) (b ++ rest)
            = Ok (List.map VColorSequence ks, rest).
Proof. exact col_roundtrip_colorsequence. Qed.

Theorem C01_col_roundtrip_sharedstring : forall c dc ss rest,
  Forall (fun s => sstr_ok c dc s = true) ss ->
  exists b, enc_col WSharedString c (List.map VSharedString ss) = Ok b /\
            dec_col WSharedString VT_SharedString dc (length ss) (b ++ rest)
            = Ok (List.map (fun s => VSharedString (sstr_back c dc s)) ss, rest).
Proof. exact col_roundtrip_sharedstring. Qed.

Theorem C01_col_roundtrip_sharedstring_same : forall c dc ss rest,
  Forall (fun s => sstr_ok c dc s = true) ss ->
  (forall s id, ec_sstr c s = Some id -> id < N.of_nat (length (dc_sstr dc)) -> nth (N.to_nat id) (dc_sstr dc) [] = s) ->
  exists b, enc_col WSharedString c (List.map VSharedString ss) = Ok b /\
            dec_col WSharedString VT_SharedString dc (length ss) (b ++ rest) = Ok (List.map VSharedString ss, rest).
Proof. exact col_roundtrip_sharedstring_same. Qed.

Theorem C01_col_sharedstring_uncollected_panics : forall c ss1 ss2 s,
  Forall (fun s => ec_sstr c s <> None) ss1 -> ec_sstr c s = None ->
  enc_col WSharedString c (List.map VSharedString (ss1 ++ s :: ss2)) = Panic.
Proof. exact col_sharedstring_uncollected_panics. Qed.

Theorem C01_col_roundtrip_font : forall c dc fs rest,
  Forall (fun f => font_ok (dc_lim dc) f = true) fs ->
  exists b, enc_col WFont c (List.map VFont fs) = Ok b /\
            dec_col WFont VT_Font dc (length fs) (b ++ rest)
            = Ok (List.map (fun f => VFont (mkFont (fo_family f) (fo_weight f) (fo_style f)
                                                   (match fo_cached f with Some [] => None | o => o end))) fs, rest).
Proof. exact col_roundtrip_font. Qed.

Theorem C01_col_roundtrip_content : forall c dc cs rest,
  N.of_nat (length cs) < 2 ^ 32 ->
  lim_ok (dc_lim dc) (24 * N.of_nat (length (content_uris cs))) = true ->
  lim_ok (dc_lim dc) (4 * N.of_nat (length (content_objects c cs))) = true ->
  Forall (fun x => content_ok c dc x = true) cs ->
  exists b, enc_col WContent c (List.map VContent cs) = Ok b /\
            dec_col WContent VT_Content dc (length cs) (b ++ rest)
            = Ok (List.map (fun x => VContent (content_back c dc x)) cs, []).
Proof. exact col_roundtrip_content. Qed.

(* ==== framing transparency (Proofs/BinFraming.v): the byte-level chunk loop of Deserializer::deserialize on a framed file equals
   the loop over the de-framed chunk list, for CompressionType::None and for any compressor under the inflate law; the fuel
   decode_file supplies suffices; so decode_file of what encode_file writes is decode_chunks of what encode_chunks produced *)
From RbxVerif Require Import BinFraming.

Theorem C01_chunk_loop_framed :
  forall (d : db) (p : dec_params) (cmp : compression),
       dp_lim p = None ->
       forall cs : list (bytes * bytes),
       Forall (chunk_rt p cmp) cs ->
       forall (fuel : nat) (st : dstate) (extra : list N),
       (Datatypes.length cs < fuel)%nat ->
       chunk_loop fuel d p st (flat_map (frame_chunk cmp) cs ++ END_CHUNK ++ extra) =
       chunk_list_loop d p st (cs ++ [(CH_END, FILE_FOOTER)]).
Proof. exact chunk_loop_framed. Qed.

Theorem C01_chunk_loop_framed_none :
  forall (d : db) (p : dec_params) (cs : list (list N * list N)) (fuel : nat) (st : dstate),
       dp_lim p = None ->
       Forall
         (fun c : list N * list N =>
          Datatypes.length (fst c) = 4%nat /\ N.of_nat (Datatypes.length (snd c)) < 2 ^ 32) cs ->
       (Datatypes.length cs < fuel)%nat ->
       chunk_loop fuel d p st (flat_map (frame_chunk None) cs ++ END_CHUNK) =
       chunk_list_loop d p st (cs ++ [(CH_END, FILE_FOOTER)]).
Proof. exact chunk_loop_framed_none. Qed.

Theorem C01_chunk_loop_framed_compressed :
  forall (d : db) (p : dec_params) (f : list N -> list N) (cs : list (list N * list N)) 
         (fuel : nat) (st : dstate),
       dp_lim p = None ->
       Forall
         (fun c : list N * list N =>
          Datatypes.length (fst c) = 4%nat /\
          N.of_nat (Datatypes.length (snd c)) < 2 ^ 32 /\
          N.of_nat (Datatypes.length (f (snd c))) < 2 ^ 32 /\
          f (snd c) <> [] /\ dp_inflate p (f (snd c)) (N.of_nat (Datatypes.length (snd c))) = Some (snd c))
         cs ->
       (Datatypes.length cs < fuel)%nat ->
       chunk_loop fuel d p st (flat_map (frame_chunk (Some f)) cs ++ END_CHUNK) =
       chunk_list_loop d p st (cs ++ [(CH_END, FILE_FOOTER)]).
Proof. exact chunk_loop_framed_compressed. Qed.

Theorem C01_chunk_loop_framed_filefuel :
  forall (d : db) (p : dec_params) (cmp : compression),
       dp_lim p = None ->
       forall cs : list (bytes * bytes),
       Forall (chunk_rt p cmp) cs ->
       forall st : dstate,
       let rest := flat_map (frame_chunk cmp) cs ++ END_CHUNK in
       chunk_loop (S (Datatypes.length rest)) d p st rest =
       chunk_list_loop d p st (cs ++ [(CH_END, FILE_FOOTER)]).
Proof. exact chunk_loop_framed_filefuel. Qed.

Theorem C01_decode_file_framed :
  forall (d : db) (p : dec_params) (cmp : compression) (nt ni : N) (cs : list (bytes * bytes)),
       dp_lim p = None ->
       nt < 2 ^ 32 ->
       ni < 2 ^ 32 ->
       Forall (chunk_rt p cmp) cs ->
       decode_file d p (file_header nt ni ++ flat_map (frame_chunk cmp) cs ++ END_CHUNK) =
       decode_chunks d p (file_header nt ni) (cs ++ [(CH_END, FILE_FOOTER)]).
Proof. exact decode_file_framed. Qed.

Theorem C01_encode_chunks_shape :
  forall (d : db) (ep : enc_params) (dom : cdom) (roots : list N) (e : encoded),
       encode_chunks d ep dom roots = Ok e ->
       (exists nt ni : N, nt < 2 ^ 32 /\ ni < 2 ^ 32 /\ en_header e = file_header nt ni) /\
       Forall (fun c : bytes * bytes => In (fst c) enc_names) (en_chunks e).
Proof. exact encode_chunks_shape. Qed.

Theorem C01_decode_file_of_encode_chunks :
  forall (d : db) (ep : enc_params) (dom : cdom) (roots : list N) (e : encoded) 
         (p : dec_params) (cmp : compression),
       encode_chunks d ep dom roots = Ok e ->
       dp_lim p = None ->
       Forall
         (fun c : bytes * bytes =>
          sizes_ok cmp (snd c) /\
          match cmp with
          | Some f => dp_inflate p (f (snd c)) (N.of_nat (Datatypes.length (snd c))) = Some (snd c)
          | None => True
          end) (en_chunks e) ->
       decode_file d p (en_header e ++ flat_map (frame_chunk cmp) (en_chunks e) ++ END_CHUNK) =
       decode_chunks d p (en_header e) (en_chunks e ++ [(CH_END, FILE_FOOTER)]).
Proof. exact decode_file_of_encode_chunks. Qed.

Theorem C01_decode_file_of_encode_file :
  forall (d : db) (ep : enc_params) (dom : cdom) (roots : list N) (f : bytes) (p : dec_params),
       encode_file d ep None dom roots = Ok f ->
       dp_lim p = None ->
       (forall e : encoded,
        encode_chunks d ep dom roots = Ok e ->
        Forall (fun c : bytes * list N => N.of_nat (Datatypes.length (snd c)) < 2 ^ 32) (en_chunks e)) ->
       exists e : encoded,
         encode_chunks d ep dom roots = Ok e /\
         decode_file d p f = decode_chunks d p (en_header e) (en_chunks e ++ [(CH_END, FILE_FOOTER)]).
Proof. exact decode_file_of_encode_file. Qed.

(* ==== whole chunks (Proofs/BinChunkFacts.v): the PROP chunk the writer emits is read back by decode_prop into exactly one
   add_property per instance of the class (generic in the column law, so it composes with every col_roundtrip_* above); the Name
   chunk; the INST chunk registers the class's referents in order under consecutive fresh labels; the SSTR chunk *)
From RbxVerif Require Import BinSafe BinChunkFacts.

Theorem C01_decode_prop_chunk :
  forall (d : db) (p : dec_params) (st : dstate) (type_id : N) (cname : bytes) 
         (rs : list Z) (pname : list N) (ty : wire_type) (col name : bytes) (cty : N)
         (migration : option (bytes * migop)) (vs' : list value),
       type_id < 2 ^ 32 ->
       lookup type_id (ds_types st) = Some {| dt_name := cname; dt_referents := rs |} ->
       N.of_nat (Datatypes.length pname) < 2 ^ 32 ->
       alloc_ok (dp_lim p) (N.of_nat (Datatypes.length pname)) = true ->
       utf8_valid pname = true ->
       bytes_eqb pname NAME = false ->
       find_canonical_property d ty cname pname = Ok (Some (name, cty, migration)) ->
       run_chunk (dec_col ty cty (prop_dctx p st) (Datatypes.length rs)) col = Ok vs' ->
       decode_prop d p st (w_le32 type_id ++ w_bstr pname ++ w_u8 (wire_id ty) ++ col) =
       ' insts <-
       apply_values (fun (i : dinst) (v : value) => add_property p i name migration v) (ds_insts st) rs vs';;
       Ok (with_insts st insts).
Proof. exact decode_prop_chunk. Qed.

Theorem C01_prop_chunk_roundtrip :
  forall (d : db) (p : dec_params) (st : dstate) (type_id : N) (cname : bytes) 
         (rs : list Z) (pname : list N) (ty : wire_type) (ctx : enc_ctx) (vs : list value) 
         (col name : bytes) (cty : N) (migration : option (bytes * migop)) (vs' : list value),
       type_id < 2 ^ 32 ->
       lookup type_id (ds_types st) = Some {| dt_name := cname; dt_referents := rs |} ->
       Datatypes.length rs = Datatypes.length vs ->
       N.of_nat (Datatypes.length pname) < 2 ^ 32 ->
       alloc_ok (dp_lim p) (N.of_nat (Datatypes.length pname)) = true ->
       utf8_valid pname = true ->
       bytes_eqb pname NAME = false ->
       enc_col ty ctx vs = Ok col ->
       find_canonical_property d ty cname pname = Ok (Some (name, cty, migration)) ->
       (exists b : bytes,
          enc_col ty ctx vs = Ok b /\
          dec_col ty cty (prop_dctx p st) (Datatypes.length vs) (b ++ []) = Ok (vs', [])) ->
       decode_prop d p st (w_le32 type_id ++ w_bstr pname ++ w_u8 (wire_id ty) ++ col) =
       ' insts <-
       apply_values (fun (i : dinst) (v : value) => add_property p i name migration v) (ds_insts st) rs vs';;
       Ok (with_insts st insts).
Proof. exact prop_chunk_roundtrip. Qed.

Theorem C01_apply_values_spec :
  forall (A : Type),
  forall (f : dinst -> A -> dinst) (rs : list Z) (insts : list (Z * dinst)) (vs : list A),
       NoDup rs ->
       (forall r : Z, In r rs -> zfind r insts <> None) ->
       exists insts' : list (Z * dinst),
         apply_values f insts rs vs = Ok insts' /\
         (forall (k : nat) (r : Z) (v : A),
          nth_error rs k = Some r ->
          nth_error vs k = Some v ->
          exists i : dinst, zfind r insts = Some i /\ zfind r insts' = Some (f i v)) /\
         (forall z : Z, ~ In z rs -> zfind z insts' = zfind z insts) /\
         (forall (k : nat) (r : Z),
          nth_error rs k = Some r -> nth_error vs k = None -> zfind r insts' = zfind r insts).
Proof. intros A. exact (@apply_values_spec A). Qed.

Theorem C01_decode_prop_chunk_state_inv :
  forall (d : db) (p : dec_params) (st : dstate) (type_id : N) (cname : bytes) 
         (rs : list Z) (pname : list N) (ty : wire_type) (col name : bytes) (cty : N)
         (migration : option (bytes * migop)) (vs' : list value),
       inv st ->
       type_id < 2 ^ 32 ->
       lookup type_id (ds_types st) = Some {| dt_name := cname; dt_referents := rs |} ->
       N.of_nat (Datatypes.length pname) < 2 ^ 32 ->
       alloc_ok (dp_lim p) (N.of_nat (Datatypes.length pname)) = true ->
       utf8_valid pname = true ->
       bytes_eqb pname NAME = false ->
       find_canonical_property d ty cname pname = Ok (Some (name, cty, migration)) ->
       run_chunk (dec_col ty cty (prop_dctx p st) (Datatypes.length rs)) col = Ok vs' ->
       NoDup rs ->
       exists insts' : list (Z * dinst),
         decode_prop d p st (w_le32 type_id ++ w_bstr pname ++ w_u8 (wire_id ty) ++ col) =
         Ok (with_insts st insts') /\
         (forall (k : nat) (r : Z) (v : value),
          nth_error rs k = Some r ->
          nth_error vs' k = Some v ->
          exists i : dinst,
            zfind r (ds_insts st) = Some i /\ zfind r insts' = Some (add_property p i name migration v)) /\
         (forall z : Z, ~ In z rs -> zfind z insts' = zfind z (ds_insts st)) /\
         (forall (k : nat) (r : Z),
          nth_error rs k = Some r -> nth_error vs' k = None -> zfind r insts' = zfind r (ds_insts st)).
Proof. exact decode_prop_chunk_state_inv. Qed.

Theorem C01_prop_chunk_written_roundtrip :
  forall (d : db) (ep : enc_params) (dp : dec_params) (dom : cdom) (ctx : enc_ctx) 
         (ti : type_info) (canon : bytes) (pi : prop_info) (nm payload : bytes) (st : dstate) 
         (cname : bytes) (rs : list Z) (name : bytes) (cty : N) (migration : option (bytes * migop)),
       prop_chunk ep dom ctx ti (canon, pi) = Ok (nm, payload) ->
       ti_id ti < 2 ^ 32 ->
       lookup (ti_id ti) (ds_types st) = Some {| dt_name := cname; dt_referents := rs |} ->
       Datatypes.length rs = Datatypes.length (ti_instances ti) ->
       N.of_nat (Datatypes.length (pi_ser_name pi)) < 2 ^ 32 ->
       alloc_ok (dp_lim dp) (N.of_nat (Datatypes.length (pi_ser_name pi))) = true ->
       utf8_valid (pi_ser_name pi) = true ->
       bytes_eqb (pi_ser_name pi) NAME = false ->
       find_canonical_property d (pi_type pi) cname (pi_ser_name pi) = Ok (Some (name, cty, migration)) ->
       exists insts : list inst,
         Forall2 (fun (r : N) (i : inst) => find_inst dom r = Some i) (ti_instances ti) insts /\
         nm = CH_PROP /\
         (forall vs' : list value,
          (exists b : bytes,
             enc_col (pi_type pi) ctx (List.map (prop_value ep canon pi (ep_order ep (pi_aliases pi))) insts) =
             Ok b /\
             dec_col (pi_type pi) cty (prop_dctx dp st)
               (Datatypes.length (List.map (prop_value ep canon pi (ep_order ep (pi_aliases pi))) insts))
               (b ++ []) = Ok (vs', [])) ->
          decode_prop d dp st payload =
          ' insts' <-
          apply_values (fun (i : dinst) (v : value) => add_property dp i name migration v) 
            (ds_insts st) rs vs';; Ok (with_insts st insts')).
Proof. exact prop_chunk_written_roundtrip. Qed.

Theorem C01_decode_prop_name_chunk :
  forall (d : db) (p : dec_params) (st : dstate) (type_id : N) (cname : bytes) 
         (rs : list Z) (ty : wire_type) (names : list bytes) (tail : list N),
       type_id < 2 ^ 32 ->
       lookup type_id (ds_types st) = Some {| dt_name := cname; dt_referents := rs |} ->
       Datatypes.length rs = Datatypes.length names ->
       alloc_ok (dp_lim p) 4 = true ->
       Forall (fun s : bytes => bstr_ok (dp_lim p) s = true /\ utf8_valid s = true) names ->
       decode_prop d p st
         (w_le32 type_id ++ w_bstr NAME ++ w_u8 (wire_id ty) ++ flat_map w_bstr names ++ tail) =
       ' insts <- apply_values set_name (ds_insts st) rs names;; Ok (with_insts st insts).
Proof. exact decode_prop_name_chunk. Qed.

Theorem C01_name_prop_chunk_written_roundtrip :
  forall (d : db) (ep : enc_params) (dp : dec_params) (dom : cdom) (ctx : enc_ctx) 
         (ti : type_info) (aliases : list bytes) (dflt : value) (nm payload : bytes) 
         (st : dstate) (cname : bytes) (rs : list Z),
       prop_chunk ep dom ctx ti
         (NAME,
          {|
            pi_type := WString;
            pi_ser_name := NAME;
            pi_aliases := aliases;
            pi_default := dflt;
            pi_migration := None
          |}) = Ok (nm, payload) ->
       ti_id ti < 2 ^ 32 ->
       lookup (ti_id ti) (ds_types st) = Some {| dt_name := cname; dt_referents := rs |} ->
       Datatypes.length rs = Datatypes.length (ti_instances ti) ->
       alloc_ok (dp_lim dp) 4 = true ->
       (forall (r : N) (i : inst),
        In r (ti_instances ti) ->
        find_inst dom r = Some i -> bstr_ok (dp_lim dp) (i_name i) = true /\ utf8_valid (i_name i) = true) ->
       exists insts : list inst,
         Forall2 (fun (r : N) (i : inst) => find_inst dom r = Some i) (ti_instances ti) insts /\
         nm = CH_PROP /\
         decode_prop d dp st payload =
         ' insts' <- apply_values set_name (ds_insts st) rs (List.map i_name insts);;
         Ok (with_insts st insts').
Proof. exact name_prop_chunk_written_roundtrip. Qed.

Theorem C01_decode_inst_payload :
  forall (lim : option N) (st : dstate) (type_id : N) (cname : list N) (service : bool) 
         (ids : list Z) (marker : list N),
       type_id < 2 ^ 32 ->
       N.of_nat (Datatypes.length cname) < 2 ^ 32 ->
       alloc_ok lim (N.of_nat (Datatypes.length cname)) = true ->
       utf8_valid cname = true ->
       N.of_nat (Datatypes.length ids) < 2 ^ 32 ->
       alloc_ok lim (4 * N.of_nat (Datatypes.length ids)) = true ->
       Forall (fun v : Z => in_i32 v = true) ids ->
       decode_inst lim st
         (w_le32 type_id ++
          w_bstr cname ++
          w_bool service ++ w_le32 (N.of_nat (Datatypes.length ids)) ++ enc_ref_array ids ++ marker) =
       Ok (inst_register st type_id cname ids, marker).
Proof. exact decode_inst_payload. Qed.

Theorem C01_inst_chunk_roundtrip :
  forall (lim : option N) (st : dstate) (refs : list (N * Z)) (cname : bytes) 
         (ti : type_info) (nm payload : bytes),
       inst_chunk refs (cname, ti) = Ok (nm, payload) ->
       ti_id ti < 2 ^ 32 ->
       N.of_nat (Datatypes.length cname) < 2 ^ 32 ->
       alloc_ok lim (N.of_nat (Datatypes.length cname)) = true ->
       utf8_valid cname = true ->
       N.of_nat (Datatypes.length (ti_instances ti)) < 2 ^ 32 ->
       alloc_ok lim (4 * N.of_nat (Datatypes.length (ti_instances ti))) = true ->
       (forall (r : N) (z : Z), In r (ti_instances ti) -> lookup r refs = Some z -> in_i32 z = true) ->
       exists ids : list Z,
         Forall2 (fun (r : N) (z : Z) => lookup r refs = Some z) (ti_instances ti) ids /\
         nm = CH_INST /\ run_chunk (decode_inst lim st) payload = Ok (inst_register st (ti_id ti) cname ids).
Proof. exact inst_chunk_roundtrip. Qed.

Theorem C01_fresh_insts_spec :
  forall (cname : bytes) (ids : list Z) (insts : list (Z * dinst)) (next : N),
       NoDup ids ->
       (forall (k : nat) (id : Z),
        nth_error ids k = Some id ->
        zfind id (fst (fresh_insts cname ids insts next)) =
        Some
          {|
            di_label := next + N.of_nat k;
            di_class := cname;
            di_name := cname;
            di_props := [];
            di_children := []
          |}) /\
       (forall z : Z, ~ In z ids -> zfind z (fst (fresh_insts cname ids insts next)) = zfind z insts).
Proof. exact fresh_insts_spec. Qed.

Theorem C01_sstr_chunk_roundtrip :
  forall (lim : option N) (l : list bytes) (rest : list N),
       N.of_nat (Datatypes.length l) < 2 ^ 32 ->
       Forall (fun s : bytes => bstr_ok lim s = true) l ->
       decode_sstr lim (sstr_payload l ++ rest) = Ok (l, rest).
Proof. exact sstr_chunk_roundtrip. Qed.


(* ==== the forest, reader side (Proofs/BinFinish.v): prnt_links builds, for any row list over registered referents, the per-parent
   child lists in row order; finish (breadth-first, with the fuel it supplies) reconstructs every forest whose shape the state
   describes: each instance once, parents as labels, root order and sibling order preserved (Definition reconstructs); labels are
   consecutive and distinct for every state the chunk loop reaches; for the writer's post-order rows the per-parent subsequence is
   the original sibling order, so the writer's PRNT rows give back the same ordered forest *)
From RbxVerif Require Import BinFinish.
Open Scope N_scope.

Theorem C01_prnt_links_spec :
  forall (pairs : list (Z * Z)) (insts : list (Z * dinst)) (roots : list Z),
       (forall c par : Z, In (c, par) pairs -> par = (-1)%Z \/ zfind par insts <> None) ->
       exists insts' : list (Z * dinst),
         prnt_links insts roots pairs = Ok (insts', roots ++ rows_of (-1) pairs) /\
         (forall k : Z,
          zfind k insts' =
          match zfind k insts with
          | Some i => Some (add_children i (rows_to k pairs))
          | None => None
          end).
Proof. exact prnt_links_spec. Qed.

Theorem C01_prnt_links_unknown :
  forall (pre : list (Z * Z)) (insts : list (Z * dinst)) (roots : list Z) (c par : Z)
         (post : list (Z * Z)),
       (forall c' par' : Z, In (c', par') pre -> par' = (-1)%Z \/ zfind par' insts <> None) ->
       par <> (-1)%Z ->
       zfind par insts = None -> prnt_links insts roots (pre ++ (c, par) :: post) = Err E_UNKNOWN_REFERENT.
Proof. exact prnt_links_unknown. Qed.

Theorem C01_prnt_links_never_panics :
  forall (pairs : list (Z * Z)) (insts : list (Z * dinst)) (roots : list Z),
       prnt_links insts roots pairs <> Panic /\ prnt_links insts roots pairs <> OutOfFuel.
Proof. exact prnt_links_never_panics. Qed.

Theorem C01_finish_forest :
  forall (D : Z -> dinst) (p : dec_params) (sstr : list bytes) (types : list (N * dtinfo))
         (insts : list (Z * dinst)) (roots : list Z) (next : N) (F : list ztree),
       Forall (shaped D) F ->
       NoDup (zfrefs F) ->
       (forall k : Z, In k (zfrefs F) -> zfind k insts = Some (D k)) ->
       roots = List.map zroot F ->
       finish p
         {| ds_sstr := sstr; ds_types := types; ds_insts := insts; ds_roots := roots; ds_next := next |} =
       Ok (uid_pass D p [] (List.map qproj (bfs_all D F))).
Proof. exact finish_forest. Qed.

Theorem C01_finish_reconstructs :
  forall (p : dec_params) (sstr : list bytes) (types : list (N * dtinfo)) (insts : list (Z * dinst))
         (roots : list Z) (next : N) (F : list ztree),
       let D := dinst_of insts in
       Forall (shaped D) F ->
       NoDup (List.map (lab D) (zfrefs F)) ->
       (forall k : Z, In k (zfrefs F) -> zfind k insts <> None /\ lab D k <> 0) ->
       roots = List.map zroot F ->
       exists out : cdom,
         finish p
           {| ds_sstr := sstr; ds_types := types; ds_insts := insts; ds_roots := roots; ds_next := next |} =
         Ok out /\ reconstructs D p F out.
Proof. exact finish_reconstructs. Qed.

Theorem C01_bfs_all_roots_first :
  forall (D : Z -> dinst) (F : list ztree),
       bfs_all D F =
       List.map (fun t : ztree => (t, 0)) F ++ bfsP D (zfsize F - Datatypes.length F) (flat_map (qkids D) F).
Proof. exact bfs_all_roots_first. Qed.

Theorem C01_bfs_all_perm :
  forall (D : Z -> dinst) (F : list ztree),
       Permutation.Permutation (List.map fst (bfs_all D F)) (zfsubtrees F).
Proof. exact bfs_all_perm. Qed.

Theorem C01_built_parent :
  forall (D : Z -> dinst) (p : dec_params) (F : list ztree) (i : inst),
       In i (built D p F) ->
       (exists t : ztree, In t F /\ i_ref i = lab D (zroot t) /\ i_parent i = 0) \/
       (exists t' c : ztree,
          In t' (zfsubtrees F) /\
          In c (zsubs t') /\ i_ref i = lab D (zroot c) /\ i_parent i = lab D (zroot t')).
Proof. exact built_parent. Qed.

Theorem C01_built_children :
  forall (D : Z -> dinst) (p : dec_params) (F : list ztree) (t0 : ztree),
       NoDup (List.map (lab D) (zfrefs F)) ->
       (forall k : Z, In k (zfrefs F) -> lab D k <> 0) ->
       In t0 (zfsubtrees F) ->
       children_of (built D p F) (lab D (zroot t0)) = List.map (fun c : ztree => lab D (zroot c)) (zsubs t0).
Proof. exact built_children. Qed.

Theorem C01_built_roots :
  forall (D : Z -> dinst) (p : dec_params) (F : list ztree),
       (forall k : Z, In k (zfrefs F) -> lab D k <> 0) ->
       children_of (built D p F) 0 = List.map (fun t : ztree => lab D (zroot t)) F.
Proof. exact built_roots. Qed.

Theorem C01_prnt_then_finish :
  forall (p : dec_params) (sstr : list bytes) (types : list (N * dtinfo)) (insts0 : list (Z * dinst))
         (next : N) (pairs : list (Z * Z)) (F : list ztree),
       let D := dinst_of insts0 in
       (forall c par : Z, In (c, par) pairs -> par = (-1)%Z \/ zfind par insts0 <> None) ->
       (forall k : Z,
        In k (zfrefs F) -> exists i : dinst, zfind k insts0 = Some i /\ di_children i = [] /\ di_label i <> 0) ->
       NoDup (List.map (lab D) (zfrefs F)) ->
       rows_describe pairs F ->
       exists insts' : list (Z * dinst),
         prnt_links insts0 [] pairs = Ok (insts', List.map zroot F) /\
         (exists out : cdom,
            finish p
              {|
                ds_sstr := sstr;
                ds_types := types;
                ds_insts := insts';
                ds_roots := List.map zroot F;
                ds_next := next
              |} = Ok out /\ reconstructs D p F out).
Proof. exact prnt_then_finish. Qed.

Theorem C01_post_rows_describe :
  forall F : list ztree,
       NoDup (zfrefs F) -> ~ In (-1)%Z (zfrefs F) -> rows_describe (fpost_rows (-1) F) F.
Proof. exact post_rows_describe. Qed.

Theorem C01_post_rows_then_finish :
  forall (p : dec_params) (sstr : list bytes) (types : list (N * dtinfo)) (insts0 : list (Z * dinst))
         (next : N) (F : list ztree),
       let D := dinst_of insts0 in
       (forall k : Z,
        In k (zfrefs F) -> exists i : dinst, zfind k insts0 = Some i /\ di_children i = [] /\ di_label i <> 0) ->
       NoDup (List.map (lab D) (zfrefs F)) ->
       ~ In (-1)%Z (zfrefs F) ->
       exists insts' : list (Z * dinst),
         prnt_links insts0 [] (fpost_rows (-1) F) = Ok (insts', List.map zroot F) /\
         (exists out : cdom,
            finish p
              {|
                ds_sstr := sstr;
                ds_types := types;
                ds_insts := insts';
                ds_roots := List.map zroot F;
                ds_next := next
              |} = Ok out /\ reconstructs D p F out).
Proof. exact post_rows_then_finish. Qed.

Theorem C01_WriterRows_writer_rows_then_finish :
  forall (db : db) (dom : cdom) (ts : list tree) (fuel : nat) (st' : ser_state) 
         (f pz : N -> Z) (p : dec_params) (sstr : list bytes) (types : list (N * dtinfo))
         (insts0 : list (Z * dinst)) (next : N),
       Forall (agrees (children_of dom)) ts ->
       NoDup (flat_map refs ts) ->
       add_loop fuel db dom true (List.map root ts) None ser_state0 = Ok st' ->
       Forall (WriterRows.parents_ok f pz (-1)) ts ->
       ~ In (-1)%Z (List.map f (flat_map refs ts)) ->
       let F := List.map (WriterRows.ztree_of f) ts in
       let D := dinst_of insts0 in
       (forall k : Z,
        In k (zfrefs F) -> exists i : dinst, zfind k insts0 = Some i /\ di_children i = [] /\ di_label i <> 0) ->
       NoDup (List.map (lab D) (zfrefs F)) ->
       exists insts' : list (Z * dinst),
         prnt_links insts0 [] (List.map (fun r : N => (f r, pz r)) (ss_relevant st')) =
         Ok (insts', List.map zroot F) /\
         (exists out : cdom,
            finish p
              {|
                ds_sstr := sstr;
                ds_types := types;
                ds_insts := insts';
                ds_roots := List.map zroot F;
                ds_next := next
              |} = Ok out /\ reconstructs D p F out).
Proof. exact WriterRows.writer_rows_then_finish. Qed.

Theorem C01_decoded_state_labels :
  forall (d : db) (p : dec_params) (fuel : nat) (b : bytes) (st : dstate),
       chunk_loop fuel d p dstate0 b = Ok st -> lab_inv st.
Proof. exact decoded_state_labels. Qed.

Theorem C01_labels_ok_hyp :
  forall (insts : list (Z * dinst)) (next : N) (ks : list Z),
       labels_ok insts next ->
       NoDup ks ->
       (forall k : Z, In k ks -> zfind k insts <> None) ->
       NoDup (List.map (lab (dinst_of insts)) ks) /\ (forall k : Z, In k ks -> lab (dinst_of insts) k <> 0).
Proof. exact labels_ok_hyp. Qed.

Theorem C01_decode_file_forest :
  forall (d : db) (p : dec_params) (b : bytes) (hdr : N * N) (rest : bytes) 
         (st : dstate) (F : list ztree),
       decode_header (dp_lim p) b = Ok (hdr, rest) ->
       chunk_loop (S (Datatypes.length rest)) d p dstate0 rest = Ok st ->
       let D := dinst_of (ds_insts st) in
       Forall (shaped D) F ->
       NoDup (zfrefs F) ->
       (forall k : Z, In k (zfrefs F) -> zfind k (ds_insts st) <> None) ->
       ds_roots st = List.map zroot F ->
       exists out : cdom, decode_file d p b = Ok out /\ reconstructs D p F out.
Proof. exact decode_file_forest. Qed.


(* ==== THE WHOLE-FILE THEOREMS (Proofs/BinRoundTrip.v): the layers above composed into statements about decode_file (encode_file ..).
   For every database, encoder parameters, DOM with unique non-null referents and any non-overlapping root selection, every compressor
   under the inflate law: (1) file_tree_roundtrip_names — the decoded DOM is the same forest (same_forest: one instance per written
   instance, breadth-first construction order, root order and every sibling order preserved, class names and instance names equal),
   provided the reader accepts the PROP chunks; (2) file_values_roundtrip — given the column law of each PROP chunk (any of the
   col_roundtrip_* theorems), no further assumption on the reader: every decoded instance holds, for each column of its class, the
   read-back of its own value or of the column default, up to the UniqueId rule; (3) unknown_props_roundtrip — closed statement on the
   DOM for properties unknown to the database with values of the simple types: i_props = own values and defaults for missing
   columns, Strings retyped BinaryString, Refs renamed to the new instances / null outside the written set.
   Needed hypotheses shown necessary: duplicate_referent_breaks_forest, zero_referent_breaks_forest. *)
From RbxVerif Require Import BinPostorder BinFinish BinStructure BinChunkFacts BinFraming BinRoundTrip.
Open Scope N_scope.

Theorem C01_tree_roundtrip :
  forall (d : db) (ep : enc_params) (dom : cdom) (ts : list tree) (e : encoded) 
         (p : dec_params) (st1 : dstate),
       input_ok dom ts ->
       encode_chunks d ep dom (List.map root ts) = Ok e ->
       dp_lim p = None ->
       run_chunks d p dstate0 (removelast (en_chunks e)) = Ok st1 ->
       exists (st : ser_state) (out : cdom),
         add_instances d ep dom (List.map root ts) = Ok st /\
         decode_chunks d p (en_header e) (en_chunks e ++ [(CH_END, FILE_FOOTER)]) = Ok out /\
         reconstructs (dinst_of (ds_insts st1)) p (List.map (WriterRows.ztree_of (fz st)) ts) out /\
         registered dom st (ds_insts st1).
Proof. exact tree_roundtrip. Qed.

Theorem C01_tree_roundtrip_forest :
  forall (d : db) (ep : enc_params) (dom : cdom) (ts : list tree) (e : encoded) 
         (p : dec_params) (st1 : dstate),
       input_ok dom ts ->
       encode_chunks d ep dom (List.map root ts) = Ok e ->
       dp_lim p = None ->
       run_chunks d p dstate0 (removelast (en_chunks e)) = Ok st1 ->
       exists (st : ser_state) (out : cdom),
         add_instances d ep dom (List.map root ts) = Ok st /\
         decode_chunks d p (en_header e) (en_chunks e ++ [(CH_END, FILE_FOOTER)]) = Ok out /\
         same_forest dom ts (lbl st) out /\
         (forall r : N,
          In r (flat_map refs ts) ->
          exists i' : inst,
            find_inst out (lbl st r) = Some i' /\ i_ref i' = lbl st r /\ i_class i' = class_of dom r).
Proof. exact tree_roundtrip_forest. Qed.

Theorem C01_tree_roundtrip_names :
  forall (d : db) (ep : enc_params) (dom : cdom) (ts : list tree) (e : encoded) 
         (p : dec_params) (st : ser_state) (st1 : dstate),
       input_ok dom ts ->
       names_ok dom ->
       encode_chunks d ep dom (List.map root ts) = Ok e ->
       add_instances d ep dom (List.map root ts) = Ok st ->
       dp_lim p = None ->
       ser_names_ok st ->
       name_cols_ok st ->
       run_chunks d p dstate0 (removelast (en_chunks e)) = Ok st1 ->
       exists out : cdom,
         decode_chunks d p (en_header e) (en_chunks e ++ [(CH_END, FILE_FOOTER)]) = Ok out /\
         same_forest dom ts (lbl st) out /\
         (forall r : N,
          In r (flat_map refs ts) ->
          exists i' : inst,
            find_inst out (lbl st r) = Some i' /\
            i_ref i' = lbl st r /\ i_class i' = class_of dom r /\ i_name i' = i_name (src dom r)).
Proof. exact tree_roundtrip_names. Qed.

Theorem C01_file_tree_roundtrip :
  forall (d : db) (ep : enc_params) (cmp : compression) (dom : cdom) (ts : list tree) 
         (b : bytes) (p : dec_params),
       input_ok dom ts ->
       encode_file d ep cmp dom (List.map root ts) = Ok b ->
       dp_lim p = None ->
       (forall e : encoded,
        encode_chunks d ep dom (List.map root ts) = Ok e ->
        frame_ok p cmp e /\ (exists st1 : dstate, run_chunks d p dstate0 (removelast (en_chunks e)) = Ok st1)) ->
       exists (st : ser_state) (out : cdom),
         add_instances d ep dom (List.map root ts) = Ok st /\
         decode_file d p b = Ok out /\
         same_forest dom ts (lbl st) out /\
         (forall r : N,
          In r (flat_map refs ts) ->
          exists i' : inst,
            find_inst out (lbl st r) = Some i' /\ i_ref i' = lbl st r /\ i_class i' = class_of dom r).
Proof. exact file_tree_roundtrip. Qed.

Theorem C01_file_tree_roundtrip_names :
  forall (d : db) (ep : enc_params) (cmp : compression) (dom : cdom) (ts : list tree) 
         (b : bytes) (p : dec_params) (st : ser_state),
       input_ok dom ts ->
       names_ok dom ->
       encode_file d ep cmp dom (List.map root ts) = Ok b ->
       add_instances d ep dom (List.map root ts) = Ok st ->
       dp_lim p = None ->
       ser_names_ok st ->
       name_cols_ok st ->
       (forall e : encoded,
        encode_chunks d ep dom (List.map root ts) = Ok e ->
        frame_ok p cmp e /\ (exists st1 : dstate, run_chunks d p dstate0 (removelast (en_chunks e)) = Ok st1)) ->
       exists out : cdom,
         decode_file d p b = Ok out /\
         same_forest dom ts (lbl st) out /\
         (forall r : N,
          In r (flat_map refs ts) ->
          exists i' : inst,
            find_inst out (lbl st r) = Some i' /\
            i_ref i' = lbl st r /\ i_class i' = class_of dom r /\ i_name i' = i_name (src dom r)).
Proof. exact file_tree_roundtrip_names. Qed.

Theorem C01_enc_name_entry :
  forall (d : db) (ep : enc_params) (dom : cdom) (roots : list N) (st : ser_state),
       add_instances d ep dom roots = Ok st ->
       forall (c : bytes) (ti : type_info), In (c, ti) (ss_types st) -> name_entry ti.
Proof. exact enc_name_entry. Qed.

Theorem C01_values_roundtrip_dom :
  forall (d : db) (ep : enc_params) (dom : cdom) (ts : list tree) (e : encoded) 
         (p : dec_params) (st : ser_state) (R : column -> col_read),
       input_ok dom ts ->
       names_ok dom ->
       encode_chunks d ep dom (List.map root ts) = Ok e ->
       add_instances d ep dom (List.map root ts) = Ok st ->
       dp_lim p = None ->
       sstr_ok st ->
       ser_names_ok st ->
       name_cols_ok st ->
       (forall x : column,
        In x (cols (ss_types st)) -> fst (snd x) <> NAME -> col_law d ep p dom st (stI_of st) x (R x)) ->
       exists out : cdom,
         decode_chunks d p (en_header e) (en_chunks e ++ [(CH_END, FILE_FOOTER)]) = Ok out /\
         same_forest dom ts (lbl st) out /\
         (forall (c : bytes) (ti : type_info) (k : nat) (r : N),
          In (c, ti) (ss_types st) ->
          nth_error (ti_instances ti) k = Some r ->
          exists i' : inst,
            find_inst out (lbl st r) = Some i' /\
            i_ref i' = lbl st r /\
            i_class i' = class_of dom r /\
            i_name i' = i_name (src dom r) /\
            uid_norm p (collect_props (read_props p R (c, ti) k)) (i_props i')).
Proof. exact values_roundtrip_dom. Qed.

Theorem C01_file_values_roundtrip :
  forall (d : db) (ep : enc_params) (cmp : compression) (dom : cdom) (ts : list tree) 
         (b : bytes) (p : dec_params) (st : ser_state) (R : column -> col_read),
       input_ok dom ts ->
       names_ok dom ->
       encode_file d ep cmp dom (List.map root ts) = Ok b ->
       add_instances d ep dom (List.map root ts) = Ok st ->
       dp_lim p = None ->
       (forall e : encoded, encode_chunks d ep dom (List.map root ts) = Ok e -> frame_ok p cmp e) ->
       sstr_ok st ->
       ser_names_ok st ->
       name_cols_ok st ->
       (forall x : column,
        In x (cols (ss_types st)) -> fst (snd x) <> NAME -> col_law d ep p dom st (stI_of st) x (R x)) ->
       exists out : cdom,
         decode_file d p b = Ok out /\
         same_forest dom ts (lbl st) out /\
         (forall (c : bytes) (ti : type_info) (k : nat) (r : N),
          In (c, ti) (ss_types st) ->
          nth_error (ti_instances ti) k = Some r ->
          exists i' : inst,
            find_inst out (lbl st r) = Some i' /\
            i_ref i' = lbl st r /\
            i_class i' = class_of dom r /\
            i_name i' = i_name (src dom r) /\
            uid_norm p (collect_props (read_props p R (c, ti) k)) (i_props i')).
Proof. exact file_values_roundtrip. Qed.

Theorem C01_resolve_ref :
  forall (d : db) (ep : enc_params) (p : dec_params) (dom : cdom) (ts : list tree) 
         (st : ser_state) (ds : dstate) (r : N),
       add_instances d ep dom (List.map root ts) = Ok st ->
       NoDup (ss_relevant st) ->
       same_skel (stI_of st) ds -> dc_resolve (prop_dctx p ds) (fz st r) = ref_new st r.
Proof. exact resolve_ref. Qed.

Theorem C01_simple_col_law :
  forall (d : db) (ep : enc_params) (p : dec_params) (dom : cdom) (ts : list tree) 
         (st : ser_state) (x : column),
       add_instances d ep dom (List.map root ts) = Ok st ->
       NoDup (ss_relevant st) ->
       (Z.of_nat (Datatypes.length (ss_relevant st)) <= 2147483647)%Z ->
       dp_lim p = None ->
       find_desc_bin d (string_of_bytes (fst (fst x))) (string_of_bytes (pi_ser_name (snd (snd x)))) =
       Ok None ->
       simple_col (pi_type (snd (snd x))) (col_values ep dom x) ->
       col_law d ep p dom st (stI_of st) x
         (Some (pi_ser_name (snd (snd x)), None, List.map (norm_val st) (col_values ep dom x))).
Proof. exact simple_col_law. Qed.

Theorem C01_unknown_props_roundtrip :
  forall (d : db) (ep : enc_params) (cmp : compression) (dom : cdom) (ts : list tree) 
         (b : bytes) (p : dec_params) (st : ser_state),
       input_ok dom ts ->
       names_ok dom ->
       unknown_props d dom ->
       ep_order ep [] = [] ->
       encode_file d ep cmp dom (List.map root ts) = Ok b ->
       add_instances d ep dom (List.map root ts) = Ok st ->
       dp_lim p = None ->
       (forall e : encoded, encode_chunks d ep dom (List.map root ts) = Ok e -> frame_ok p cmp e) ->
       sstr_ok st ->
       (forall x : column,
        In x (cols (ss_types st)) ->
        fst (snd x) <> NAME -> simple_col (pi_type (snd (snd x))) (col_values ep dom x)) ->
       exists out : cdom,
         decode_file d p b = Ok out /\
         same_forest dom ts (lbl st) out /\
         (forall (c : bytes) (ti : type_info) (k : nat) (r : N),
          In (c, ti) (ss_types st) ->
          nth_error (ti_instances ti) k = Some r ->
          exists i' : inst,
            find_inst out (lbl st r) = Some i' /\
            i_ref i' = lbl st r /\
            i_class i' = class_of dom r /\
            i_name i' = i_name (src dom r) /\ i_props i' = collect_props (source_props st ti (src dom r))).
Proof. exact unknown_props_roundtrip. Qed.

Theorem C01_SampleRoundTrip2_sample_unknown_roundtrip :
  exists out : cdom,
         decode_file db0 (dp0 None) sample_file = Ok out /\
         same_forest sample_dom [sample_tree] (lbl SampleRoundTrip.sample_st) out /\
         (forall (c : bytes) (ti : type_info) (k : nat) (r : N),
          In (c, ti) (ss_types SampleRoundTrip.sample_st) ->
          nth_error (ti_instances ti) k = Some r ->
          exists i' : inst,
            find_inst out (lbl SampleRoundTrip.sample_st r) = Some i' /\
            i_ref i' = lbl SampleRoundTrip.sample_st r /\
            i_class i' = class_of sample_dom r /\
            i_name i' = i_name (src sample_dom r) /\
            i_props i' = collect_props (source_props SampleRoundTrip.sample_st ti (src sample_dom r))).
Proof. exact SampleRoundTrip2.sample_unknown_roundtrip. Qed.

Theorem C01_SampleRoundTrip2_sample_described2 :
  bfs_order [sample_tree] = [1; 2; 3] /\
       List.map (lbl SampleRoundTrip.sample_st) (bfs_order [sample_tree]) = [2; 1; 3] /\
       List.map
         (fun r : N =>
          collect_props
            (source_props SampleRoundTrip.sample_st
               match bfind (class_of sample_dom r) (ss_types SampleRoundTrip.sample_st) with
               | Some ti => ti
               | None =>
                   {|
                     ti_id := 0;
                     ti_service := false;
                     ti_instances := [];
                     ti_props := [];
                     ti_class := None;
                     ti_visited := []
                   |}
               end (src sample_dom r))) [1; 2; 3] =
       [[(bstr "R", VRef 0); (bstr "Q", VBool true); (bstr "P", VInt32 7)];
        [(bstr "R", VRef 2); (bstr "Q", VBool false); (bstr "P", VInt32 (-3))];
        [(bstr "S", VBinaryString (bstr "hi"))]].
Proof. exact SampleRoundTrip2.sample_described2. Qed.

Theorem C01_duplicate_referent_breaks_forest :
  Forall (agrees (children_of dup_dom)) [Node 1 [Node 2 []]] /\
       NoDup (flat_map refs [Node 1 [Node 2 []]]) /\
       ~ In 0 (flat_map refs [Node 1 [Node 2 []]]) /\
       (exists (b : bytes) (out : cdom),
          encode_file db0 ep0 None dup_dom [1] = Ok b /\
          decode_file db0 (dp0 None) b = Ok out /\ children_of out 0 = [1; 2] /\ children_of out 2 = []).
Proof. exact duplicate_referent_breaks_forest. Qed.

Theorem C01_zero_referent_breaks_forest :
  NoDup (List.map i_ref zero_dom) /\
       Forall (agrees (children_of zero_dom)) [Node 0 [Node 1 []]] /\
       NoDup (flat_map refs [Node 0 [Node 1 []]]) /\
       (exists (b : bytes) (out : cdom),
          encode_file db0 ep0 None zero_dom [0] = Ok b /\
          decode_file db0 (dp0 None) b = Ok out /\ children_of out 0 = [1; 2] /\ children_of out 2 = []).
Proof. exact zero_referent_breaks_forest. Qed.
(* ==== CLOSED WHOLE-FILE STATEMENT FOR DATABASE-KNOWN PROPERTIES (Proofs/BinKnownProps.v).  Under executable predicates on the DOM (dom_values_ok:
   the range conditions of the column theorems and, per property, the reader's back-lookup of the serialized name returning the same canonical
   name; dom_sstrs_ok) and on the database (class_good, spelling agreement: both passed by the bundled database, the back-lookup with exactly the two
   recorded exceptions Sound.MaxDistance / MaterialService.Use2022Materials), encode_file succeeds, decode_file succeeds, the forest is the same, no
   legacy or alias name survives, and for every column of the instance's class the decoded instance holds under the CANONICAL name: normB of its
   own (migrated) value when it carried a spelling of the property, and normB of the (migrated) default of its own class (nearest ancestor) when
   it did not but a class-mate did — never another instance's value.  normB = the documented normalisations only (String-like of unknown
   properties as BinaryString, Color3 quantised into byte colours, Refs through the numbering, CFrame rotation snap).  ALL 31 wire types, the widening
   cells (Int32 for Int64, Float32 for Float64, EnumItem, Int32 in BrickColor) and the string-likes in String columns (Tags, Attributes,
   MaterialColors, ContentId) included; a UniqueId already in use reads back as the fresh one (reads_back).  Computed on the bundled database:
   a Part with legacy BrickColor 21, a Part with Size only, an instance of an unknown class. *)
From RbxVerif Require Import DbCheck Attr BinPostorder BinStructure BinTypeInfoFacts BinKnownProps BinKnownPropsBundled.
From RbxVerif Require BinRoundTrip Database.

Theorem C01_known_col_roundtrip :
  forall (c : enc_ctx) (dc : dec_ctx),
       dc_lim dc = None ->
       (forall r : N, in_i32 (ref_id c r) = true) ->
       forall (wt : wire_type) (cty : N) (vs : list value),
       vs <> [] ->
       N.of_nat (Datatypes.length vs) < 2 ^ 32 ->
       Forall (fun v : value => cell_ok wt cty v = true) vs ->
       (forall s : bytes,
        In (VSharedString s) vs ->
        BinValuesFacts3.sstr_ok c dc s = true /\ BinValuesFacts3.sstr_back c dc s = s) ->
       exists b : bytes,
         enc_col wt c vs = Ok b /\
         dec_col wt cty dc (Datatypes.length vs) (b ++ []) =
         Ok (List.map (normB (ec_quant c) (fun r : N => dc_resolve dc (ref_id c r)) wt cty) vs, []).
Proof. exact known_col_roundtrip. Qed.

Theorem C01_known_columns_cells :
  forall (d : db) (ep : enc_params) (dom : cdom) (ts : list tree) (st : ser_state),
       enc_ready d ep dom ts ->
       dom_spellings_agree d dom ->
       (forall i : inst, In i dom -> class_good d (i_class i)) ->
       dom_values_ok d ep dom = true ->
       add_instances d ep dom (List.map root ts) = Ok st ->
       forall (cn : bytes) (ti : type_info) (canon : bytes) (pi : prop_info),
       In (cn, ti) (ss_types st) ->
       In (canon, pi) (ti_props ti) ->
       (canon <> NAME ->
        exists cty : N,
          find_canonical_property d (pi_type pi) cn (pi_ser_name pi) = Ok (Some (canon, cty, None)) /\
          (forall (r : N) (i : inst),
           In r (ti_instances ti) ->
           find_inst dom r = Some i ->
           cell_ok (pi_type pi) cty (prop_value ep canon pi (ep_order ep (pi_aliases pi)) i) = true /\
           (forall (n : bytes) (v : value) (s : bytes) (ty : N) (m : option migop),
            In (n, v) (i_props i) ->
            resolve_prop d cn n v = Ok (RProp canon s ty m) -> migv ep (pi_migration pi) v = migv ep m v)) /\
          utf8_valid (pi_ser_name pi) = true /\
          N.of_nat (Datatypes.length (pi_ser_name pi)) < 2 ^ 32 /\ pi_ser_name pi <> NAME) /\
       (canon = NAME -> pi_migration pi = None).
Proof. exact known_columns_cells. Qed.

Theorem C01_plan_hyps_from_dom :
  forall (d : db) (ep : enc_params) (dom : cdom) (ts : list tree) (st : ser_state),
       enc_ready d ep dom ts ->
       dom_spellings_agree d dom ->
       (forall i : inst, In i dom -> class_good d (i_class i)) ->
       dom_values_ok d ep dom = true ->
       dom_sstrs_ok d dom = true ->
       add_instances d ep dom (List.map root ts) = Ok st ->
       BinRoundTrip.sstr_ok st /\
       BinRoundTrip.ser_names_ok st /\
       BinRoundTrip.name_cols_ok st /\
       (forall (cn : bytes) (ti : type_info), In (cn, ti) (ss_types st) -> NoDup (List.map fst (ti_props ti))).
Proof. exact plan_hyps_from_dom. Qed.

Theorem C01_known_props_roundtrip :
  forall (d : db) (ep : enc_params) (cmp : compression) (dom : cdom) (ts : list tree) (p : dec_params),
       enc_ready d ep dom ts ->
       BinRoundTrip.input_ok dom ts ->
       BinRoundTrip.names_ok dom ->
       dom_spellings_agree d dom ->
       (forall i : inst, In i dom -> class_good d (i_class i)) ->
       dom_values_ok d ep dom = true ->
       dom_sstrs_ok d dom = true ->
       dp_lim p = None ->
       (forall e : encoded, encode_chunks d ep dom (List.map root ts) = Ok e -> BinRoundTrip.frame_ok p cmp e) ->
       exists (b : bytes) (st : ser_state) (out : cdom),
         encode_file d ep cmp dom (List.map root ts) = Ok b /\
         add_instances d ep dom (List.map root ts) = Ok st /\
         decode_file d p b = Ok out /\
         BinRoundTrip.same_forest dom ts (BinRoundTrip.lbl st) out /\
         (forall (cn : bytes) (ti : type_info) (k : nat) (r : N),
          In (cn, ti) (ss_types st) ->
          nth_error (ti_instances ti) k = Some r ->
          exists i i' : inst,
            find_inst dom r = Some i /\
            i_class i = cn /\
            find_inst out (BinRoundTrip.lbl st r) = Some i' /\
            i_ref i' = BinRoundTrip.lbl st r /\
            i_class i' = cn /\
            i_name i' = i_name i /\
            (forall (k0 : bytes) (v : value),
             In (k0, v) (i_props i') -> k0 <> NAME /\ (exists pi : prop_info, In (k0, pi) (ti_props ti))) /\
            (forall (canon : bytes) (pi : prop_info),
             In (canon, pi) (ti_props ti) ->
             canon <> NAME ->
             exists cty : N,
               find_canonical_property d (pi_type pi) cn (pi_ser_name pi) = Ok (Some (canon, cty, None)) /\
               (inst_one_spelling d i ->
                forall (n : bytes) (v : value) (s : bytes) (ty : N) (m : option migop),
                In (n, v) (i_props i) ->
                resolve_prop d cn n v = Ok (RProp canon s ty m) ->
                reads_back p canon
                  (normB (ep_quant ep) (BinRoundTrip.ref_new st) (pi_type pi) cty (migv ep m v)) 
                  (i_props i')) /\
               ((forall (n : bytes) (v : value) (s : bytes) (ty : N) (m : option migop),
                 In (n, v) (i_props i) -> resolve_prop d cn n v <> Ok (RProp canon s ty m)) ->
                reads_back p canon
                  (normB (ep_quant ep) (BinRoundTrip.ref_new st) (pi_type pi) cty
                     (migv ep (pi_migration pi) (pi_default pi))) (i_props i') /\
                (exists ty0 : N,
                   col_plan d (get_class d (string_of_bytes cn)) canon ty0 = Ok (pi_default pi, pi_type pi))))).
Proof. exact known_props_roundtrip. Qed.

Theorem C01_known_props_roundtrip_bundled :
  forall (ep : enc_params) (cmp : compression) (dom : cdom) (ts : list tree) (p : dec_params),
       enc_ready Database.database ep dom ts ->
       BinRoundTrip.input_ok dom ts ->
       BinRoundTrip.names_ok dom ->
       (forall (cn n : bytes) (v1 v2 : value),
        In (n, v1) (class_pairs dom cn) ->
        In (n, v2) (class_pairs dom cn) ->
        known_resolve Database.database (string_of_bytes cn) (string_of_bytes n) = Ok None ->
        vtype v1 = vtype v2) ->
       dom_values_ok Database.database ep dom = true ->
       dom_sstrs_ok Database.database dom = true ->
       dp_lim p = None ->
       (forall e : encoded,
        encode_chunks Database.database ep dom (List.map root ts) = Ok e -> BinRoundTrip.frame_ok p cmp e) ->
       exists (b : bytes) (st : ser_state) (out : cdom),
         encode_file Database.database ep cmp dom (List.map root ts) = Ok b /\
         add_instances Database.database ep dom (List.map root ts) = Ok st /\
         decode_file Database.database p b = Ok out /\
         BinRoundTrip.same_forest dom ts (BinRoundTrip.lbl st) out /\
         (forall (cn : bytes) (ti : type_info) (k : nat) (r : N),
          In (cn, ti) (ss_types st) ->
          nth_error (ti_instances ti) k = Some r ->
          exists i i' : inst,
            find_inst dom r = Some i /\
            i_class i = cn /\
            find_inst out (BinRoundTrip.lbl st r) = Some i' /\
            i_ref i' = BinRoundTrip.lbl st r /\
            i_class i' = cn /\
            i_name i' = i_name i /\
            (forall (k0 : bytes) (v : value),
             In (k0, v) (i_props i') -> k0 <> NAME /\ (exists pi : prop_info, In (k0, pi) (ti_props ti))) /\
            (forall (canon : bytes) (pi : prop_info),
             In (canon, pi) (ti_props ti) ->
             canon <> NAME ->
             exists cty : N,
               find_canonical_property Database.database (pi_type pi) cn (pi_ser_name pi) =
               Ok (Some (canon, cty, None)) /\
               (inst_one_spelling Database.database i ->
                forall (n : bytes) (v : value) (s : bytes) (ty : N) (m : option migop),
                In (n, v) (i_props i) ->
                resolve_prop Database.database cn n v = Ok (RProp canon s ty m) ->
                reads_back p canon
                  (normB (ep_quant ep) (BinRoundTrip.ref_new st) (pi_type pi) cty (migv ep m v)) 
                  (i_props i')) /\
               ((forall (n : bytes) (v : value) (s : bytes) (ty : N) (m : option migop),
                 In (n, v) (i_props i) -> resolve_prop Database.database cn n v <> Ok (RProp canon s ty m)) ->
                reads_back p canon
                  (normB (ep_quant ep) (BinRoundTrip.ref_new st) (pi_type pi) cty
                     (migv ep (pi_migration pi) (pi_default pi))) (i_props i') /\
                (exists ty0 : N,
                   col_plan Database.database (get_class Database.database (string_of_bytes cn)) canon ty0 =
                   Ok (pi_default pi, pi_type pi))))).
Proof. exact known_props_roundtrip_bundled. Qed.

Theorem C01_bundled_back_offenders :
  back_offenders Database.database =
       [("MaterialService"%string, "Use2022Materials"%string); ("Sound"%string, "MaxDistance"%string)].
Proof. exact bundled_back_offenders. Qed.

Theorem C01_bundled_example_roundtrip :
  (exists (b : bytes) (st : ser_state) (out : cdom),
          encode_file Database.database ep_ex None ex_dom (List.map root ex_ts) = Ok b /\
          add_instances Database.database ep_ex ex_dom (List.map root ex_ts) = Ok st /\
          decode_file Database.database dp_ex b = Ok out /\
          BinRoundTrip.same_forest ex_dom ex_ts (BinRoundTrip.lbl st) out) /\
       obs
         (' b <- encode_file Database.database ep_ex None ex_dom [1; 2; 3];;
          decode_file Database.database dp_ex b) =
       [(bstr "Part", bstr "A",
         [(bstr "Size", VVector3 {| vx := 1082130432; vy := 1067030938; vz := 1073741824 |});
          (bstr "Color", VColor3uint8 196 40 28)]);
        (bstr "Part", bstr "B",
         [(bstr "Size", VVector3 {| vx := F32_ONE; vy := F32_ONE; vz := F32_ONE |});
          (bstr "Color", VColor3uint8 163 162 165)]);
        (bstr "NotAClass", bstr "C", [(bstr "Note", VBinaryString [104; 105]); (bstr "Flag", VBool true)])].
Proof. exact bundled_example_roundtrip. Qed.

Theorem C01_all_cells_roundtrip :
  dom_values_ok db_cells ep_cells cells_dom = true /\
       (exists (b : bytes) (st : ser_state) (out : cdom),
          encode_file db_cells ep_cells None cells_dom [1; 2] = Ok b /\
          add_instances db_cells ep_cells cells_dom [1; 2] = Ok st /\
          decode_file db_cells dp_cells b = Ok out /\
          BinRoundTrip.same_forest cells_dom [Node 1 []; Node 2 []] (BinRoundTrip.lbl st) out) /\
       look (' b <- encode_file db_cells ep_cells None cells_dom [1; 2];; decode_file db_cells dp_cells b)
         (bstr "all")
         [bstr "N64"; bstr "F64"; bstr "En"; bstr "Bc"; bstr "St"; bstr "At"; bstr "Fo"; bstr "Ss"; bstr "Uq"] =
       [Some (VInt64 7); Some (VFloat64 4607182418800017408); Some (VEnum 1); Some (VBrickColor 21);
        Some (VString [104; 105]); Some (VAttributes [([120], VBool true)]);
        Some (VFont {| fo_family := [102]; fo_weight := 400; fo_style := 0; fo_cached := None |});
        Some (VSharedString [7; 7]); Some (VUniqueId 1 2 3)] /\
       look (' b <- encode_file db_cells ep_cells None cells_dom [1; 2];; decode_file db_cells dp_cells b)
         (bstr "none") [bstr "N64"; bstr "At"; bstr "Ss"; bstr "Uq"; bstr "AtS"] =
       [Some (VInt64 0); Some (VAttributes []); Some (VSharedString []); Some (VUniqueId 0 0 0); None].
Proof. exact all_cells_roundtrip. Qed.

Theorem C01_normB_attributes :
  forall (q : f32 -> N) (rn : N -> N) (m : amap) (b : bytes),
       AttrFacts.wf_amap m = true ->
       attr_encode m = Ok b -> normB q rn WString VT_Attributes (VAttributes m) = VAttributes (norm m).
Proof. exact normB_attributes. Qed.

Theorem C01_normB_int32_for_int64 :
  forall (q : f32 -> N) (rn : N -> N) (z : Z), normB q rn WInt32 VT_Int64 (VInt32 z) = VInt64 z.
Proof. exact normB_int32_for_int64. Qed.

Theorem C01_normB_float32_for_float64 :
  forall (q : f32 -> N) (rn : N -> N) (x : f32),
       normB q rn WFloat32 VT_Float64 (VFloat32 x) = VFloat64 (f64_of_f32 x).
Proof. exact normB_float32_for_float64. Qed.

