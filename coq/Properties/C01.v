(* Property C01 — Binary round trip preserves the instance forest and every value (statements only).
   Model: Model/BinValues.v (column codecs), Model/BinFile.v (file encoder / decoder), tied to rbx_binary by the
   byte-exact `binfile` correspondence.  Proofs: Proofs/BinValuesFacts.v, BinPostorder.v, BinFileFacts.v. *)
From RbxVerif Require Import Base Bytes Value Db CodecDom Rotation BrickColor BinValues BinFile
  BytesFacts BinValuesFacts BinPostorder BinFileFacts.
From RbxVerif Require BinaryTypes.
Open Scope N_scope.

(* ---- the tables of types.rs: the model's wire ids and VariantType -> wire type map are the regenerated ones *)
Theorem C01_wire_ids_match_source :
  List.map wire_id all_wire_types = List.map snd BinaryTypes.binary_type_ids.
Proof. exact wire_ids_match_source. Qed.

Theorem C01_wire_id_roundtrip : forall t, wire_of_id (wire_id t) = Some t.
Proof. exact wire_of_id_wire_id. Qed.

(* ---- per wire type: what the column encoder writes the column decoder reads back, bit for bit, leaving the
   rest of the chunk untouched (any encoder / decoder context) *)
Theorem C01_col_roundtrip_bool : forall c dc bs rest,
  exists b, enc_col WBool c (List.map VBool bs) = Ok b /\
            dec_col WBool VT_Bool dc (length bs) (b ++ rest) = Ok (List.map VBool bs, rest).
Proof. exact col_roundtrip_bool. Qed.

Theorem C01_col_roundtrip_int32 : forall c dc zs rest,
  Forall (fun z => in_i32 z = true) zs ->
  exists b, enc_col WInt32 c (List.map VInt32 zs) = Ok b /\
            dec_col WInt32 VT_Int32 dc (length zs) (b ++ rest) = Ok (List.map VInt32 zs, rest).
Proof. exact col_roundtrip_int32. Qed.

Theorem C01_col_roundtrip_int64 : forall c dc zs rest,
  Forall (fun z => in_i64 z = true) zs ->
  exists b, enc_col WInt64 c (List.map VInt64 zs) = Ok b /\
            dec_col WInt64 VT_Int64 dc (length zs) (b ++ rest) = Ok (List.map VInt64 zs, rest).
Proof. exact col_roundtrip_int64. Qed.

(* every f32 bit pattern: NaN payloads, signed zeros, subnormals, infinities *)
Theorem C01_col_roundtrip_float32 : forall c dc xs rest,
  Forall (fun x => f32_ok x = true) xs ->
  exists b, enc_col WFloat32 c (List.map VFloat32 xs) = Ok b /\
            dec_col WFloat32 VT_Float32 dc (length xs) (b ++ rest) = Ok (List.map VFloat32 xs, rest).
Proof. exact col_roundtrip_float32. Qed.

Theorem C01_col_roundtrip_enum : forall c dc ns rest,
  Forall (fun v => v < 2 ^ 32) ns ->
  exists b, enc_col WEnum c (List.map VEnum ns) = Ok b /\
            dec_col WEnum VT_Enum dc (length ns) (b ++ rest) = Ok (List.map VEnum ns, rest).
Proof. exact col_roundtrip_enum. Qed.

Theorem C01_col_roundtrip_brickcolor : forall c dc ns rest,
  Forall (fun v => v < 65536 /\ brick_valid v = true) ns ->
  exists b, enc_col WBrickColor c (List.map VBrickColor ns) = Ok b /\
            dec_col WBrickColor VT_BrickColor dc (length ns) (b ++ rest) = Ok (List.map VBrickColor ns, rest).
Proof. exact col_roundtrip_brickcolor. Qed.

Theorem C01_col_roundtrip_vector3 : forall c dc ps rest,
  Forall (fun p => vec3_ok p = true) ps ->
  exists b, enc_col WVector3 c (List.map VVector3 ps) = Ok b /\
            dec_col WVector3 VT_Vector3 dc (length ps) (b ++ rest) = Ok (List.map VVector3 ps, rest).
Proof. exact col_roundtrip_vector3. Qed.

Theorem C01_col_roundtrip_vector2 : forall c dc ps rest,
  Forall (fun p => vec2_ok p = true) ps ->
  exists b, enc_col WVector2 c (List.map VVector2 ps) = Ok b /\
            dec_col WVector2 VT_Vector2 dc (length ps) (b ++ rest) = Ok (List.map VVector2 ps, rest).
Proof. exact col_roundtrip_vector2. Qed.

Theorem C01_col_roundtrip_color3 : forall c dc (cs : list (f32 * f32 * f32)) rest,
  Forall (fun p => f32_ok (fst (fst p)) = true /\ f32_ok (snd (fst p)) = true /\ f32_ok (snd p) = true) cs ->
  exists b, enc_col WColor3 c (List.map (fun p => VColor3 (fst (fst p)) (snd (fst p)) (snd p)) cs) = Ok b /\
            dec_col WColor3 VT_Color3 dc (length cs) (b ++ rest)
            = Ok (List.map (fun p => VColor3 (fst (fst p)) (snd (fst p)) (snd p)) cs, rest).
Proof. exact col_roundtrip_color3. Qed.

Theorem C01_col_roundtrip_udim : forall c dc us rest,
  Forall (fun u => f32_ok (ud_scale u) = true /\ in_i32 (ud_offset u) = true) us ->
  exists b, enc_col WUDim c (List.map VUDim us) = Ok b /\
            dec_col WUDim VT_UDim dc (length us) (b ++ rest) = Ok (List.map VUDim us, rest).
Proof. exact col_roundtrip_udim. Qed.

(* Refs: the file referent of a written instance (-1 for anything else) goes through the reader's resolution *)
Theorem C01_col_roundtrip_ref : forall c dc rs rest,
  Forall (fun r => in_i32 (ref_id c r) = true) rs ->
  exists b, enc_col WRef c (List.map VRef rs) = Ok b /\
            dec_col WRef VT_Ref dc (length rs) (b ++ rest)
            = Ok (List.map (fun r => VRef (dc_resolve dc (ref_id c r))) rs, rest).
Proof. exact col_roundtrip_ref. Qed.

(* Ray, all six components (after repair de369328) *)
Theorem C01_col_roundtrip_ray : forall c dc (rs : list (vec3 * vec3)) rest,
  Forall (fun p => vec3_ok (fst p) = true /\ vec3_ok (snd p) = true) rs ->
  exists b, enc_col WRay c (List.map (fun p => VRay (fst p) (snd p)) rs) = Ok b /\
            dec_col WRay VT_Ray dc (length rs) (b ++ rest) = Ok (List.map (fun p => VRay (fst p) (snd p)) rs, rest).
Proof. exact col_roundtrip_ray. Qed.

Theorem C01_col_roundtrip_numberrange : forall c dc (rs : list (f32 * f32)) rest,
  Forall (fun p => f32_ok (fst p) = true /\ f32_ok (snd p) = true) rs ->
  exists b, enc_col WNumberRange c (List.map (fun p => VNumberRange (fst p) (snd p)) rs) = Ok b /\
            dec_col WNumberRange VT_NumberRange dc (length rs) (b ++ rest)
            = Ok (List.map (fun p => VNumberRange (fst p) (snd p)) rs, rest).
Proof. exact col_roundtrip_numberrange. Qed.

Theorem C01_col_roundtrip_faces : forall c dc ns rest,
  Forall (fun v => v < 64) ns ->
  exists b, enc_col WFaces c (List.map VFaces ns) = Ok b /\
            dec_col WFaces VT_Faces dc (length ns) (b ++ rest) = Ok (List.map VFaces ns, rest).
Proof. exact col_roundtrip_faces. Qed.

Theorem C01_col_roundtrip_axes : forall c dc ns rest,
  Forall (fun v => v < 8) ns ->
  exists b, enc_col WAxes c (List.map VAxes ns) = Ok b /\
            dec_col WAxes VT_Axes dc (length ns) (b ++ rest) = Ok (List.map VAxes ns, rest).
Proof. exact col_roundtrip_axes. Qed.

Theorem C01_col_roundtrip_seccap : forall c dc ns rest,
  Forall (fun v => v < 2 ^ 64) ns ->
  exists b, enc_col WSecurityCapabilities c (List.map VSecurityCapabilities ns) = Ok b /\
            dec_col WSecurityCapabilities VT_SecurityCapabilities dc (length ns) (b ++ rest)
            = Ok (List.map VSecurityCapabilities ns, rest).
Proof. exact col_roundtrip_seccap. Qed.

(* ---- the forest: the explicit-stack loop of add_instances visits the chosen (non-overlapping) subtrees in
   post-order, so relevant_instances / referent numbering / the PRNT chunk list children before parents *)
Theorem C01_add_instances_postorder : forall d dom ts fuel st st',
  Forall (agrees (children_of dom)) ts -> NoDup (flat_map refs ts) ->
  add_loop fuel d dom true (List.map root ts) None st = Ok st' ->
  ss_relevant st' = ss_relevant st ++ flat_map post ts.
Proof. exact add_loop_postorder. Qed.

Theorem C01_postorder_fuel_suffices : forall dom ts,
  Forall (agrees (children_of dom)) ts -> NoDup (flat_map refs ts) ->
  run (children_of dom) (3 * sizes ts + 3) true (List.map root ts) None [] = Some (flat_map post ts).
Proof. exact postorder_fuel_suffices. Qed.

(* ---- framing: Chunk::decode reads back ChunkBuilder::dump (uncompressed; compressed under the oracle law),
   FileHeader::decode reads back write_header *)
Theorem C01_chunk_roundtrip : forall p name payload rest,
  length name = 4%nat -> N.of_nat (length payload) < 2 ^ 32 -> dp_lim p = None ->
  decode_chunk p (frame_chunk None (name, payload) ++ rest) = Ok ((name, payload), rest).
Proof. exact chunk_roundtrip. Qed.

Theorem C01_chunk_roundtrip_compressed : forall p (compress : bytes -> bytes) name payload rest,
  length name = 4%nat -> N.of_nat (length payload) < 2 ^ 32 ->
  N.of_nat (length (compress payload)) < 2 ^ 32 -> compress payload <> [] -> dp_lim p = None ->
  dp_inflate p (compress payload) (N.of_nat (length payload)) = Some payload ->
  decode_chunk p (frame_chunk (Some compress) (name, payload) ++ rest) = Ok ((name, payload), rest).
Proof. exact chunk_roundtrip_compressed. Qed.

Theorem C01_header_roundtrip : forall nt ni rest,
  nt < 2 ^ 32 -> ni < 2 ^ 32 ->
  decode_header None (FILE_MAGIC_HEADER ++ FILE_SIGNATURE ++ w_le16 0 ++ w_le32 nt ++ w_le32 ni ++ [0; 0; 0; 0; 0; 0; 0; 0] ++ rest)
  = Ok ((nt, ni), rest).
Proof. exact header_roundtrip. Qed.

(* ---- a whole sample file through encode_file and decode_file *)
Theorem C01_sample_roundtrip :
  decode_file db0 (dp0 None) sample_file =
  Ok [ mkInst 2 0 (bstr "Folder0") (bstr "a") [(bstr "R", VRef 0); (bstr "Q", VBool true); (bstr "P", VInt32 7%Z)];
       mkInst 1 2 (bstr "Folder0") (bstr "b") [(bstr "R", VRef 2); (bstr "Q", VBool false); (bstr "P", VInt32 (-3)%Z)];
       mkInst 3 2 (bstr "Thing") (bstr "c") [(bstr "S", VBinaryString (bstr "hi"))] ].
Proof. exact sample_roundtrip. Qed.

(* ---- witnesses of behaviours outside the permitted normalisations (computed on the model; each reproduces on
   the implementation, see the C01 oracle classes) *)
(* the Ray arm before repair de369328 *)
Theorem C01_ray_refuted :
  dec_col WRay VT_Ray ctx0 1 (ray_bytes_pinned (mkV3 0 0 0) (mkV3 f32_4 f32_5 f32_6))
  = Ok ([VRay (mkV3 0 0 0) (mkV3 f32_4 f32_5 f32_4)], []).
Proof. exact ray_refuted. Qed.

(* the Color3uint8 arm before repair 459caf55, and after *)
Theorem C01_color3uint8_unknown_property_refuted :
  match enc_col WColor3uint8 ectx0 [VColor3uint8 1 2 3] with
  | Ok b => dec_color3uint8_pinned (to_default_rbx_type WColor3uint8) 1 b
  | _ => Ok ([], [])
  end = Err E_TYPE_MISMATCH.
Proof. exact color3uint8_unknown_property_refuted. Qed.

Theorem C01_color3uint8_unknown_property_repaired :
  enc_then_dec WColor3uint8 (to_default_rbx_type WColor3uint8) ectx0 ctx0 [VColor3uint8 1 2 3]
  = Ok ([VColor3uint8 1 2 3], []).
Proof. exact color3uint8_unknown_property_repaired. Qed.

(* the Content arm before repair 55a7c594 (object referents popped from the back), and after *)
Theorem C01_content_object_order_refuted :
  content_values_pinned dctx_id [2%Z; 2%Z] [] [7%Z; 9%Z] = Ok [VContent (CObject 9); VContent (CObject 7)].
Proof. exact content_object_order_refuted. Qed.

Theorem C01_content_object_order_repaired :
  enc_then_dec WContent VT_Content ectx_id dctx_id [VContent (CObject 7); VContent (CUri [97]); VContent (CObject 9); VContent CNone]
  = Ok ([VContent (CObject 7); VContent (CUri [97]); VContent (CObject 9); VContent CNone], []).
Proof. exact content_object_order_repaired. Qed.

Theorem C01_font_cached_empty_refuted :
  enc_then_dec WFont VT_Font ectx0 ctx0 [VFont (mkFont [97] 400 0 (Some []))]
  = Ok ([VFont (mkFont [97] 400 0 None)], []).
Proof. exact font_cached_empty_refuted. Qed.

Theorem C01_tags_refuted :
  enc_then_dec WString VT_Tags ectx0 ctx0 [VTags [[97]; []; [98; 0; 99]]] = Ok ([VTags [[97]; [98]; [99]]], []).
Proof. exact tags_refuted. Qed.
