(* RefDestroy.v — WeakDom::destroy (Model/Dom.v [dom_destroy]) refines the forest operation
   [a_destroy] = delete the subtree (Model/Tree.v).  The BFS removal loop is handled by a queue lemma:
   the queue always is [map troot ts] for a list [ts] of pending trees whose nodes are all still in the
   table with exactly their tree children; one iteration turns [t :: ts] into [ts ++ tkids t]. *)
From RbxVerif Require Import Base Dom Tree BaseFacts TreeFacts Rep TreeOps.
From Coq Require Import Lia Permutation.

(* every node of [t] is in the table [m], listing exactly its tree children and holding its properties *)
Inductive Present (m : map inst) : tree -> Prop :=
| Present_node r n c ps kids i :
    lookup r m = Some i -> i_children i = List.map troot kids -> i_props i = ps ->
    Forall (Present m) kids -> Present m (Node r n c ps kids).

Lemma Present_ext m m' t :
  (forall x, In x (trefs t) -> lookup x m' = lookup x m) -> Present m t -> Present m' t.
Proof.
  induction t as [x n c ps kids IH] using tree_ind'. intros Hag HP.
  inversion HP as [x' n' c' ps' kids' i Hl Hc Hp Hk]; subst.
  apply Present_node with (i := i).
  - rewrite Hag; [exact Hl|]. rewrite trefs_eq. now left.
  - exact Hc.
  - reflexivity.
  - rewrite Forall_forall in IH, Hk. apply Forall_forall. intros k Hkin.
    apply IH; [exact Hkin| |now apply Hk].
    intros y Hy. apply Hag. rewrite trefs_eq. right. apply in_frefs. eauto.
Qed.

Lemma Present_tflat p t : NoDup (trefs t) -> Present (tflat p t) t.
Proof.
  revert p. induction t as [x n c ps kids IH] using tree_ind'. intros p Hnd.
  pose proof (NoDup_trefs_node _ _ _ _ _ Hnd) as [Hx Hk].
  apply Present_node with (i := mkInst p (List.map troot kids) n c ps).
  - apply lookup_tflat_root.
  - reflexivity.
  - reflexivity.
  - rewrite Forall_forall in IH. apply Forall_forall. intros k Hkin.
    assert (Hndk : NoDup (trefs k)) by (eapply NoDup_frefs_In; eauto).
    apply Present_ext with (m := tflat x k); [|now apply IH].
    intros y Hy. rewrite lookup_tflat_node.
    destruct (N.eqb y x) eqn:E.
    + apply N.eqb_eq in E. subst y. exfalso. apply Hx. apply in_frefs. eauto.
    + now apply lookup_fflat_in_tree.
Qed.

Lemma remove_loop_nil fuel d : remove_loop fuel d [] = Ok d.
Proof. destruct fuel; reflexivity. Qed.

(* the queue lemma *)
Lemma remove_loop_spec : forall n ts fuel d,
  (fsize ts <= n)%nat -> (fsize ts <= fuel)%nat ->
  NoDup (frefs ts) -> Forall (Present (d_insts d)) ts ->
  exists d', remove_loop fuel d (List.map troot ts) = Ok d' /\
    (forall x, In x (frefs ts) -> lookup x (d_insts d') = None) /\
    (forall x, ~ In x (frefs ts) -> lookup x (d_insts d') = lookup x (d_insts d)) /\
    d_root d' = d_root d /\
    (forall u, mem u (d_uids d') = true <-> ~ In u (fuids ts) /\ mem u (d_uids d) = true) /\
    (NoDup (keys (d_insts d)) -> NoDup (keys (d_insts d'))).
Proof.
  assert (Hnil : forall fuel d,
    exists d', remove_loop fuel d (List.map troot []) = Ok d' /\
      (forall x, In x (frefs []) -> lookup x (d_insts d') = None) /\
      (forall x, ~ In x (frefs []) -> lookup x (d_insts d') = lookup x (d_insts d)) /\
      d_root d' = d_root d /\
      (forall u, mem u (d_uids d') = true <-> ~ In u (fuids []) /\ mem u (d_uids d) = true) /\
      (NoDup (keys (d_insts d)) -> NoDup (keys (d_insts d')))).
  { intros fuel d. exists d. cbn [List.map]. rewrite remove_loop_nil.
    split; [reflexivity|]. split; [intros x Hx; contradiction|]. split; [reflexivity|].
    split; [reflexivity|]. split; [|auto]. intros u. cbn [fuids flat_map In]. tauto. }
  induction n as [|n IH]; intros ts fuel d Hn Hfuel Hnd HP.
  - destruct ts as [|t ts]; [apply Hnil|].
    exfalso. rewrite fsize_cons in Hn. pose proof (tsize_pos t). lia.
  - destruct ts as [|t ts]; [apply Hnil|].
    destruct t as [r nm c ps kids].
    inversion HP as [|t0 ts0 HPt HPts]; subst.
    inversion HPt as [r' n' c' ps' kids' i Hl Hc Hp Hk]; subst.
    rewrite fsize_cons, tsize_eq in Hn, Hfuel.
    destruct fuel as [|f]; [lia|].
    rewrite frefs_cons, trefs_eq in Hnd. cbn [app] in Hnd.
    inversion Hnd as [|? ? Hrnot Hnd']; subst.
    rewrite in_app_iff in Hrnot.
    cbn [List.map troot remove_loop]. unfold inner_remove. rewrite Hl, Hc, <- map_app.
    set (us := match get_uid (i_props i) with Some u => sremove u (d_uids d) | None => d_uids d end).
    set (d1 := mkDom (remove r (d_insts d)) (d_root d) us).
    assert (Hsz : fsize (ts ++ kids) = (fsize ts + fsize kids)%nat) by apply fsize_app.
    assert (Hnd1 : NoDup (frefs (ts ++ kids))).
    { rewrite frefs_app. eapply Permutation_NoDup; [apply Permutation_app_comm|exact Hnd']. }
    assert (HP1 : Forall (Present (d_insts d1)) (ts ++ kids)).
    { apply Forall_app. rewrite Forall_forall in HPts, Hk. split; apply Forall_forall; intros k Hkin.
      - apply Present_ext with (m := d_insts d); [|now apply HPts].
        intros y Hy. cbn [d1 d_insts]. apply lookup_remove_neq. intros ->.
        apply Hrnot. right. apply in_frefs. eauto.
      - apply Present_ext with (m := d_insts d); [|now apply Hk].
        intros y Hy. cbn [d1 d_insts]. apply lookup_remove_neq. intros ->.
        apply Hrnot. left. apply in_frefs. eauto. }
    destruct (IH (ts ++ kids) f d1) as [d' [Hrun [Hgone [Hframe [Hroot [Huid Hkeys]]]]]];
      [lia|lia|exact Hnd1|exact HP1|].
    exists d'. split; [exact Hrun|].
    assert (Hin1 : forall x, In x (frefs (ts ++ kids)) <-> In x (frefs kids) \/ In x (frefs ts)).
    { intros x. rewrite frefs_app, in_app_iff. tauto. }
    split; [|split; [|split; [|split]]].
    + intros x Hx. rewrite frefs_cons, trefs_eq in Hx. cbn [app In] in Hx. rewrite in_app_iff in Hx.
      destruct (in_dec N.eq_dec x (frefs (ts ++ kids))) as [Hi|Hn'].
      * now apply Hgone.
      * rewrite (Hframe x Hn'). rewrite Hin1 in Hn'. destruct Hx as [Hx|Hx]; [|tauto].
        subst x. cbn [d1 d_insts]. apply lookup_remove_eq.
    + intros x Hx. rewrite frefs_cons, trefs_eq in Hx. cbn [app In] in Hx. rewrite in_app_iff in Hx.
      rewrite Hframe by (rewrite Hin1; tauto).
      cbn [d1 d_insts]. apply lookup_remove_neq. intros ->. tauto.
    + exact Hroot.
    + intros u. rewrite Huid. rewrite fuids_cons, tuids_eq.
      unfold fuids at 1. rewrite flat_map_app. fold (fuids ts). fold (fuids kids).
      rewrite !in_app_iff. cbn [d1 d_uids]. unfold us.
      destruct (get_uid (i_props i)) as [u0|].
      * rewrite mem_sremove, andb_true_iff, negb_true_iff, N.eqb_neq. cbn [In].
        split.
        -- intros [H1 [H2 H3]]. split; [|exact H3]. intros [[[H4|H4]|H4]|H4]; try tauto. congruence.
        -- intros [H1 H2]. split; [tauto|]. split; [|exact H2]. intros ->. apply H1. left. left. now left.
      * cbn [In]. tauto.
    + intros Hnk. apply Hkeys. cbn [d1 d_insts]. now apply NoDup_keys_remove.
Qed.

Lemma destroy_refines : refines_destroy.
Proof.
  intros d a r a' HR Ha.
  destruct HR as [Hlk [Hnd [Hnone [Hroot [Hrootin [Huids [Hunodup Hkeys]]]]]]].
  unfold a_destroy in Ha.
  destruct (negb (N.eqb r (a_root a)) && hasnode r (a_trees a))%bool eqn:Hg; [|discriminate].
  injection Ha as <-. apply andb_true_iff in Hg. destruct Hg as [Hg1 Hg2].
  apply negb_true_iff in Hg1. apply hasnode_true_iff in Hg2.
  destruct (ffind_In_Some _ _ Hg2) as [sub Hf].
  pose proof (ffind_root _ _ _ Hf) as Hsubroot.
  pose proof (ffind_NoDup _ _ _ Hf Hnd) as Hsubnd.
  destruct (fdel_flat_spec r (a_trees a) rnone sub Hnd Hnone Hf)
    as [ir [p [Hir [Hirp [Hirc [Hirps [Hpsub [Hpin [Hsubl [Hdelnone [Hdelframe Hdelp]]]]]]]]]]].
  set (F' := fdel r (a_trees a)) in *.
  (* the detaching step *)
  assert (Hd1 : exists d1,
    (if N.eqb p rnone then Ok d else of_opt (unlink_child d p r)) = Ok d1 /\
    d_root d1 = d_root d /\ d_uids d1 = d_uids d /\ NoDup (keys (d_insts d1)) /\
    (forall x, In x (trefs sub) -> lookup x (d_insts d1) = lookup x (tflat p sub)) /\
    (forall x, ~ In x (trefs sub) -> lookup x (d_insts d1) = lookup x (flat_map (tflat rnone) F'))).
  { destruct (N.eqb p rnone) eqn:Ep.
    - apply N.eqb_eq in Ep. exists d. split; [reflexivity|]. split; [reflexivity|].
      split; [reflexivity|]. split; [exact Hkeys|]. split.
      + intros x Hx. rewrite Hlk. unfold aflat. now apply Hsubl.
      + intros x Hx. rewrite Hlk. unfold aflat. destruct (N.eq_dec x p) as [->|Hne].
        * rewrite Ep. rewrite !lookup_fflat_notin; [reflexivity| |exact Hnone].
          intros Hi. apply Hnone. now apply (fdel_incl r (a_trees a)).
        * symmetry. now apply Hdelframe.
    - apply N.eqb_neq in Ep. destruct Hpin as [Hpin|Hpin]; [contradiction|].
      destruct (lookup_fflat_in rnone (a_trees a) p Hpin) as [pi Hpi].
      unfold unlink_child. rewrite Hlk. unfold aflat. rewrite Hpi. cbn [of_opt].
      eexists. split; [reflexivity|]. cbn [d_root d_uids d_insts].
      split; [reflexivity|]. split; [reflexivity|]. split; [now apply NoDup_keys_upd|]. split.
      + intros x Hx. rewrite lookup_upd_neq by (intros ->; contradiction).
        rewrite Hlk. unfold aflat. now apply Hsubl.
      + intros x Hx. destruct (N.eq_dec x p) as [->|Hne].
        * rewrite lookup_upd_eq. symmetry. now apply Hdelp.
        * rewrite lookup_upd_neq by exact Hne. rewrite Hlk. unfold aflat. symmetry. now apply Hdelframe. }
  destruct Hd1 as [d1 [Hstep [Hroot1 [Huids1 [Hkeys1 [Hin1 Hout1]]]]]].
  (* the removal loop *)
  assert (HP : Forall (Present (d_insts d1)) [sub]).
  { constructor; [|constructor]. apply Present_ext with (m := tflat p sub); [exact Hin1|].
    now apply Present_tflat. }
  assert (Hfuel : (fsize [sub] <= S (dom_size d))%nat).
  { cbn [fsize fold_right]. pose proof (fsize_fdel_le _ _ _ Hf Hnd) as Hsz.
    assert (Hle : (fsize (a_trees a) <= length (d_insts d))%nat).
    { apply fsize_le_table; [exact Hnd|]. intros x Hx. rewrite Hlk. unfold aflat.
      destruct (lookup_fflat_in rnone (a_trees a) x Hx) as [i Hi]. rewrite Hi. discriminate. }
    unfold dom_size. lia. }
  assert (Hnd1 : NoDup (frefs [sub])).
  { unfold frefs. cbn [flat_map]. now rewrite app_nil_r. }
  destruct (remove_loop_spec (fsize [sub]) [sub] (S (dom_size d)) d1 (le_n _) Hfuel Hnd1 HP)
    as [d' [Hrun [Hgone [Hframe [Hroot' [Huid' Hkeys']]]]]].
  assert (Hfr : forall x, In x (frefs [sub]) <-> In x (trefs sub)).
  { intros x. unfold frefs. cbn [flat_map]. now rewrite app_nil_r. }
  assert (Hfu : forall u, In u (fuids [sub]) <-> In u (tuids sub)).
  { intros u. unfold fuids. cbn [flat_map]. now rewrite app_nil_r. }
  cbn [List.map] in Hrun. rewrite Hsubroot in Hrun.
  exists d'. split.
  - unfold dom_destroy. rewrite Hroot, Hg1, Hlk. unfold aflat. rewrite Hir, Hirp.
    rewrite Hstep. cbn [rbind]. exact Hrun.
  - unfold Rep. cbn [a_trees a_root]. fold F'. split; [|split; [|split; [|split; [|split; [|split; [|split]]]]]].
    + intros x. unfold aflat. cbn [a_trees]. destruct (in_dec N.eq_dec x (trefs sub)) as [Hi|Hn].
      * rewrite Hgone by (now apply Hfr). symmetry. now apply Hdelnone.
      * rewrite Hframe by (now rewrite Hfr). now apply Hout1.
    + eapply NoDup_frefs_fdel; eauto.
    + intros Hi. apply Hnone. now apply (fdel_incl r (a_trees a)).
    + rewrite Hroot', Hroot1. exact Hroot.
    + unfold F'. rewrite map_troot_fdel. apply retain_ne_In. split; [exact Hrootin|].
      intros Heq. rewrite Heq, N.eqb_refl in Hg1. discriminate.
    + intros u. apply eq_true_iff_eq. rewrite Huid', Hfu, Huids1, Huids, !mem_In.
      unfold F'. rewrite (fuids_fdel_In r (a_trees a) sub u Hf Hnd Hunodup). tauto.
    + eapply NoDup_fuids_fdel; eauto.
    + now apply Hkeys'.
Qed.

Print Assumptions destroy_refines.
