(* BinAliasOrderFile.v — C15, binary write path END TO END with the explicit value under an ALIAS spelling.

   Proofs/BinAliasOrder.v states, for one column value, what the order in which a column's aliases are consulted buys.
   Here the same is stated for collect_type_info (the column) and for the whole writer followed by the whole reader.

     Y1  cti_fold, collect_type_info_existing / _fresh / _two (Section Column, ANY database, any set of spellings of one column):
         the loop of collect_type_info over the properties of the instances of a class computes `col_fold`;
         col_fold_migration / col_fold_aliases / col_fold_nodup say what that is;
         column_after_two_instances (Section ColumnDb): through find_desc_bin, for a legacy migrating name p (-> q), an alias a of
         q and q itself, two instances (or one: i_props i2 = []) carrying any of them in any order: the column of q has
         pi_migration = Some op as soon as one carried p, and pi_aliases = exactly the non-canonical spellings met, each once.
     Y2  SampleFile.bin_write_alias_explicit_wins_file: on MigratePaths.Sample.sdb (Part: BrickColor -> Color, Color3uint8 an alias
         and the serialized name), encode_file ; decode_file of a Part carrying {BrickColor := v, Color3uint8 := ex} under ANY
         enc_params whose alias order is, for every alias list, a permutation with the legacy names last (ep_legacy_last, with
         `is_legacy_db` read off the database), any migration tables / quantiser / hash table, any decoder parameters without
         allocation limit, any legacy value v that is not a SharedString, any ex of type Color3uint8, both visiting orders of the two
         properties: the decoded DOM is one Part holding exactly Color := ex.   (symbolic evaluation, v ex ep dp variables;
         the order function is brought to a computing form by encode_file_order_ext, which holds for every database)
     Y2' prop_chunk_alias_explicit_wins (ANY database, any column): legacy names last => the PROP chunk of the column, for a class with
         one instance carrying the new property under a plain alias, is the column of the explicit value; and the converse
         prop_chunk_legacy_first_loses.  (the writer's half of Y2 for an arbitrary database)
     Y3  SampleFile.bin_write_legacy_first_loses_file: legacy names FIRST => Color := the migrated BrickColor;
         SampleFile.bin_write_legacy_first_unmigratable_fails_file: ... and an unmigratable legacy value then makes the writer fail
         (PropTypeMismatch) although the instance carries a good explicit value;
         SampleFile.bin_write_outcome_is_the_order_file: under the model's own requirement (a permutation, nothing more) the outcome
         is one of the two, so the order is the only thing that decides.
     SampleFile.shared_string_legacy_value_refuted: the hypothesis on v is needed.

   NOT proved here (left open): Y2 for an arbitrary database satisfying MigratePaths.mig_hyps plus the alias hypotheses of
   Section ColumnDb, i.e.
       forall d class p a q op ... ep dp v ex, mig_hyps d class p pd q op qd qs -> <a resolves to (qd, qs)> -> ep_legacy_last d class ep ->
         vtype ex = dtype_vt (pd_type qs) -> <ex encodable, round-trips through its column> ->
         exists b out, encode_file d ep None [Part{p := v, a := ex}] [1] = Ok b /\ decode_file d dp b = Ok out /\ out holds exactly q := ex.
   What is missing is the plumbing from Y1 (the column, generic) and prop_chunk_alias_explicit_wins (its chunk, generic)
   through add_loop / encode_chunks / the reader, i.e. an instance of BinRoundTrip.file_values_roundtrip with a col_law for a migrating column.
   Standard library only. *)
From Coq Require Import List NArith ZArith Bool Lia String Arith.
From RbxVerif Require Import Base Bytes Value Db CodecDom BinValues BinFile MigratePaths BinAliasOrder.
Import MigratePaths.BinWrite.
Import ListNotations.
Open Scope list_scope.
Open Scope N_scope.

(* ------------------------------------------------------------------ the alias order only matters pointwise *)
Lemma map_res_ext {A B} (f g : A -> res B) l : (forall x, f x = g x) -> map_res f l = map_res g l.
Proof. intro H. induction l as [|x l IH]; cbn [map_res]; [reflexivity|]. now rewrite H, IH. Qed.

Definition with_order (p : enc_params) (o : list bytes -> list bytes) : enc_params :=
  mkEP (ep_font p) (ep_brick p) (ep_quant p) o (ep_hash p).

Lemma prop_chunk_order_ext p o dom ctx ti cp :
  (forall l, ep_order p l = o l) -> prop_chunk (with_order p o) dom ctx ti cp = prop_chunk p dom ctx ti cp.
Proof.
  intro H. unfold prop_chunk. destruct cp as [canon pi]. unfold with_order. cbn [ep_order]. rewrite <- H. reflexivity.
Qed.

Lemma encode_chunks_order_ext d p o dom roots :
  (forall l, ep_order p l = o l) -> encode_chunks d (with_order p o) dom roots = encode_chunks d p dom roots.
Proof.
  intro H. unfold encode_chunks.
  change (add_instances d (with_order p o) dom roots) with (add_instances d p dom roots).
  destruct (add_instances d p dom roots) as [st| | |]; cbn [rbind]; try reflexivity.
  destruct (Z.ltb _ _); cbn [rbind]; try reflexivity.
  destruct (map_res (inst_chunk _) _) as [insts| | |]; cbn [rbind]; try reflexivity.
  change (ep_quant (with_order p o)) with (ep_quant p).
  erewrite (map_res_ext (fun ct => map_res (prop_chunk (with_order p o) dom _ (snd ct)) (ti_props (snd ct)))).
  - reflexivity.
  - intro ct. apply map_res_ext. intro cp. now apply prop_chunk_order_ext.
Qed.

Theorem encode_file_order_ext d p o cmp dom roots :
  (forall l, ep_order p l = o l) -> encode_file d (with_order p o) cmp dom roots = encode_file d p cmp dom roots.
Proof. intro H. unfold encode_file. now rewrite (encode_chunks_order_ext d p o dom roots H). Qed.

(* ------------------------------------------------------------------ the repaired order, read off the database *)
(* a legacy name of a class: it resolves to a descriptor whose serialization is Migrate *)
Definition is_legacy_db (d : db) (class a : bytes) : bool :=
  match find_desc_bin d (string_of_bytes class) (string_of_bytes a) with
  | Ok (Some (_, Some sd)) => match pd_kind sd with KCanon (PMigrate _ _) => true | _ => false end
  | _ => false
  end.

(* for every alias list the writer's order is a permutation of it with the legacy names last *)
Definition ep_legacy_last (d : db) (class : bytes) (ep : enc_params) : Prop :=
  forall l, is_perm (ep_order ep l) l = true /\ legacy_last (is_legacy_db d class) (ep_order ep l).
Definition ep_legacy_first (d : db) (class : bytes) (ep : enc_params) : Prop :=
  forall l, is_perm (ep_order ep l) l = true /\
            exists leg plain, ep_order ep l = leg ++ plain /\ forallb (is_legacy_db d class) leg = true /\
                              forallb (fun a => negb (is_legacy_db d class a)) plain = true.

Lemma bmem_in x l : bmem x l = true -> In x l.
Proof.
  unfold bmem. intro H. apply existsb_exists in H. destruct H as (y & Hy & E). apply mp_eqb_eq in E. now subst.
Qed.

Lemma is_perm_nil ord : is_perm ord [] = true -> ord = [].
Proof. unfold is_perm. destruct ord; [reflexivity|]. cbn [length Nat.eqb andb]. discriminate. Qed.

Lemma is_perm_two_split ord p a plain leg isl :
  is_perm ord [p; a] = true -> ord = plain ++ leg ->
  forallb (fun x => negb (isl x)) plain = true -> forallb isl leg = true -> isl p = true -> isl a = false ->
  plain = [a] /\ leg = [p].
Proof.
  intros Hperm -> Hpl Hlg Hp Ha.
  unfold is_perm in Hperm. apply andb_true_iff in Hperm. destruct Hperm as [Hperm Hback].
  apply andb_true_iff in Hperm. destruct Hperm as [Hlen Hall].
  apply Nat.eqb_eq in Hlen. rewrite forallb_forall in Hall, Hpl, Hlg.
  cbn [forallb] in Hback. rewrite !andb_true_iff in Hback. destruct Hback as (Hpin & Hain & _).
  apply bmem_in in Hpin. apply bmem_in in Hain.
  assert (Two : forall x, In x (plain ++ leg) -> x = p \/ x = a).
  { intros x Hx. specialize (Hall x Hx). apply bmem_in in Hall. cbn [In] in Hall. intuition. }
  assert (Pl : forall x, In x plain -> x = a).
  { intros x Hx. destruct (Two x (in_or_app _ _ _ (or_introl Hx))) as [-> | ->]; [|reflexivity].
    specialize (Hpl p Hx). rewrite Hp in Hpl. discriminate. }
  assert (Lg : forall x, In x leg -> x = p).
  { intros x Hx. destruct (Two x (in_or_app _ _ _ (or_intror Hx))) as [-> | ->]; [reflexivity|].
    specialize (Hlg a Hx). rewrite Ha in Hlg. discriminate. }
  assert (Hne : p <> a) by (intro E; subst; rewrite Hp in Ha; discriminate).
  assert (Hpl' : In p leg).
  { apply in_app_or in Hpin. destruct Hpin as [H|H]; [|exact H]. apply Pl in H. contradiction. }
  assert (Hal' : In a plain).
  { apply in_app_or in Hain. destruct Hain as [H|H]; [exact H|]. apply Lg in H. symmetry in H. contradiction. }
  rewrite app_length in Hlen. cbn [length] in Hlen.
  destruct plain as [|x plain]; [destruct Hal'|]. destruct leg as [|y leg]; [destruct Hpl'|].
  destruct plain; destruct leg; cbn [length] in Hlen; try lia.
  rewrite (Pl x (or_introl eq_refl)), (Lg y (or_introl eq_refl)). split; reflexivity.
Qed.

Lemma legacy_last_two isl ord p a :
  is_perm ord [p; a] = true -> legacy_last isl ord -> isl p = true -> isl a = false -> ord = [a; p].
Proof.
  intros Hperm (plain & leg & E & Hpl & Hlg) Hp Ha.
  destruct (is_perm_two_split ord p a plain leg isl Hperm E Hpl Hlg Hp Ha) as [-> ->]. exact E.
Qed.

Lemma is_perm_swap2 ord p a : is_perm ord [a; p] = true -> is_perm ord [p; a] = true.
Proof.
  unfold is_perm. cbn [length forallb]. intro H. rewrite !andb_true_iff in *. destruct H as ((H1 & H2) & H3 & H4 & _).
  repeat split; try assumption. rewrite forallb_forall in *. intros x Hx. specialize (H2 x Hx).
  unfold bmem in *. cbn [existsb] in *. rewrite !orb_true_iff in *. tauto.
Qed.

(* list equality on byte strings, to name the two alias lists that occur *)
Fixpoint lb_eqb (a b : list bytes) : bool :=
  match a, b with
  | [], [] => true
  | x :: a', y :: b' => bytes_eqb x y && lb_eqb a' b'
  | _, _ => false
  end.
Lemma lb_eqb_eq a b : lb_eqb a b = true -> a = b.
Proof.
  revert b. induction a as [|x a IH]; intros [|y b] H; cbn [lb_eqb] in H; try discriminate; [reflexivity|].
  apply andb_true_iff in H. destruct H as [H1 H2]. apply mp_eqb_eq in H1. apply IH in H2. congruence.
Qed.

(* an order meeting the hypothesis, for every database: the stable partition (what the repaired writer's two chained sets amount to) *)
Definition partition_order (isl : bytes -> bool) (l : list bytes) : list bytes :=
  filter (fun a => negb (isl a)) l ++ filter isl l.
Definition partition_order_rev (isl : bytes -> bool) (l : list bytes) : list bytes :=
  filter isl l ++ filter (fun a => negb (isl a)) l.

Lemma in_bmem x l : In x l -> bmem x l = true.
Proof. intro H. unfold bmem. apply existsb_exists. exists x. split; [exact H|apply mp_eqb_refl]. Qed.

Lemma filter_partition_length {A} (f : A -> bool) l :
  length (filter (fun a => negb (f a)) l ++ filter f l) = length l /\ length (filter f l ++ filter (fun a => negb (f a)) l) = length l.
Proof.
  rewrite !app_length. induction l as [|x l IH]; cbn [filter length]; [split; reflexivity|].
  destruct (f x); cbn [negb length]; lia.
Qed.

Lemma partition_is_perm isl l : is_perm (partition_order isl l) l = true /\ is_perm (partition_order_rev isl l) l = true.
Proof.
  unfold is_perm, partition_order, partition_order_rev.
  destruct (filter_partition_length isl l) as [L1 L2]. rewrite L1, L2, Nat.eqb_refl. cbn [andb].
  split; apply andb_true_iff; split; apply forallb_forall; intros x Hx; apply in_bmem.
  - apply in_app_or in Hx. destruct Hx as [H|H]; apply filter_In in H; tauto.
  - apply in_or_app. destruct (isl x) eqn:E; [right|left]; apply filter_In; rewrite E; auto.
  - apply in_app_or in Hx. destruct Hx as [H|H]; apply filter_In in H; tauto.
  - apply in_or_app. destruct (isl x) eqn:E; [left|right]; apply filter_In; rewrite E; auto.
Qed.

Lemma forallb_filter {A} (f : A -> bool) l : forallb f (filter f l) = true.
Proof. apply forallb_forall. intros x H. apply filter_In in H. tauto. Qed.

Lemma partition_order_legacy_last d class ft bt qu hs :
  ep_legacy_last d class (mkEP ft bt qu (partition_order (is_legacy_db d class)) hs).
Proof.
  intro l. cbn [ep_order]. split; [apply partition_is_perm|].
  exists (filter (fun a => negb (is_legacy_db d class a)) l), (filter (is_legacy_db d class) l).
  split; [reflexivity|]. split; apply forallb_filter.
Qed.
Lemma partition_order_rev_legacy_first d class ft bt qu hs :
  ep_legacy_first d class (mkEP ft bt qu (partition_order_rev (is_legacy_db d class)) hs).
Proof.
  intro l. cbn [ep_order]. split; [apply partition_is_perm|].
  exists (filter (is_legacy_db d class) l), (filter (fun a => negb (is_legacy_db d class a)) l).
  split; [reflexivity|]. split; [apply forallb_filter|apply (forallb_filter (fun a => negb (is_legacy_db d class a)))].
Qed.

Lemma NoDup_app_single {A} (l : list A) x : NoDup l -> ~ In x l -> NoDup (l ++ [x]).
Proof.
  induction l as [|y l IH]; intros H Hn; cbn [app]; [constructor; [intros []|constructor]|].
  inversion H as [|? ? Hy Hl]. subst. constructor.
  - rewrite in_app_iff. cbn [In]. intros [H1|[H1|[]]]; [contradiction|]. subst. apply Hn. now left.
  - apply IH; [exact Hl|]. intro H1. apply Hn. now right.
Qed.

(* ================================================================================================ Y1: the column collect_type_info builds *)
(* Generic database.  All the spellings in play resolve to ONE column: canonical name [can], serialized name [ser], type [ty];
   [mgs x] is the migration operation the spelling x brings (Some for a legacy migrating name, None for an alias or the
   canonical name itself).  The column state is an option (None: not created yet). *)
Section Column.
Variables (d : db) (class can ser : bytes) (ty : N) (mgs : bytes -> option migop).
Variables (tc : option cdesc) (dbdef : option value) (dv : value) (wt : wire_type).
Hypothesis Hdef : match tc with Some c => find_default d c (string_of_bytes can) | None => Ok None end = Ok dbdef.
Hypothesis Hdv : match dbdef with Some x => Some x | None => fallback_default_value ty end = Some dv.
Hypothesis Hwt : from_rbx_type ty = Some wt.

(* what one spelling does to an existing column *)
Definition col_add (x : bytes) (pi : prop_info) : prop_info :=
  if bytes_eqb x can then pi else
  mkPI (pi_type pi) (pi_ser_name pi) (if bmem x (pi_aliases pi) then pi_aliases pi else pi_aliases pi ++ [x]) (pi_default pi)
       (match mgs x with Some op => Some op | None => pi_migration pi end).
(* ... and to a column that may not exist yet *)
Definition col_add' (x : bytes) (o : option prop_info) : prop_info :=
  col_add x (match o with Some pi => pi | None => mkPI wt ser [] dv (mgs x) end).
(* the traversal: names already visited (by an earlier instance of the class) are skipped *)
Fixpoint col_fold (vis : list bytes) (o : option prop_info) (xs : list bytes) : list bytes * option prop_info :=
  match xs with
  | [] => (vis, o)
  | x :: r => if bmem x vis then col_fold vis o r else col_fold (x :: vis) (Some (col_add' x o)) r
  end.

Lemma cti_step ss ti x val o :
  ti_class ti = tc ->
  bmem x (ti_visited ti) = false ->
  resolve_prop d class x val = Ok (RProp can ser ty (mgs x)) ->
  bfind can (ti_props ti) = o ->
  exists ss' props',
    cti_prop d class (ss, ti) (x, val)
    = Ok (ss', mkTI (ti_id ti) (ti_service ti) (ti_instances ti) props' (ti_class ti) (x :: ti_visited ti)) /\
    bfind can props' = Some (col_add' x o).
Proof.
  intros Htc Hnv Hres Hfind. unfold cti_prop. rewrite Hnv, Hres. cbn [rbind].
  cbn [ti_props ti_class ti_id ti_service ti_instances ti_visited].
  destruct o as [pi|]; rewrite Hfind.
  - cbn [rbind]. destruct (bytes_eqb x can) eqn:E.
    + eexists _, _. split; [reflexivity|]. unfold col_add', col_add. rewrite E. exact Hfind.
    + cbn [ti_props ti_class ti_id ti_service ti_instances ti_visited]. rewrite Hfind.
      eexists _, _. split; [reflexivity|]. unfold col_add', col_add. rewrite E.
      destruct (mgs x); apply bfind_bset_same; rewrite Hfind; discriminate.
  - rewrite Htc, Hdef. cbn [rbind]. rewrite Hdv, Hwt. cbn [rbind].
    destruct (bytes_eqb x can) eqn:E.
    + eexists _, _. split; [reflexivity|]. unfold col_add', col_add. rewrite E. now apply bfind_binsert_same.
    + cbn [ti_props ti_class ti_id ti_service ti_instances ti_visited].
      rewrite (bfind_binsert_same can _ _ Hfind).
      eexists _, _. split; [reflexivity|]. unfold col_add', col_add. rewrite E.
      cbn [pi_aliases pi_type pi_ser_name pi_default pi_migration].
      destruct (mgs x); apply bfind_bset_same; rewrite (bfind_binsert_same can _ _ Hfind); discriminate.
Qed.

Lemma cti_skip ss ti x val : bmem x (ti_visited ti) = true -> cti_prop d class (ss, ti) (x, val) = Ok (track_sstr val ss, ti).
Proof. intro H. unfold cti_prop. now rewrite H. Qed.

(* THE FOLD: the loop over the properties of an instance (and, by composition, over the instances of the class) *)
Theorem cti_fold xs : forall ss ti,
  ti_class ti = tc ->
  (forall x val, In (x, val) xs -> resolve_prop d class x val = Ok (RProp can ser ty (mgs x))) ->
  exists ss' props',
    fold_res (cti_prop d class) (ss, ti) xs
    = Ok (ss', mkTI (ti_id ti) (ti_service ti) (ti_instances ti) props' (ti_class ti)
                    (fst (col_fold (ti_visited ti) (bfind can (ti_props ti)) (List.map fst xs)))) /\
    bfind can props' = snd (col_fold (ti_visited ti) (bfind can (ti_props ti)) (List.map fst xs)).
Proof.
  induction xs as [|[x val] xs IH]; intros ss ti Htc Hres.
  - cbn [fold_res List.map col_fold fst snd]. exists ss, (ti_props ti). split; [now destruct ti|reflexivity].
  - cbn [fold_res List.map fst col_fold].
    assert (Hres' : forall y w, In (y, w) xs -> resolve_prop d class y w = Ok (RProp can ser ty (mgs y)))
      by (intros; apply Hres; now right).
    destruct (bmem x (ti_visited ti)) eqn:Hv.
    + rewrite (cti_skip ss ti x val Hv). cbn [rbind]. exact (IH _ ti Htc Hres').
    + destruct (cti_step ss ti x val _ Htc Hv (Hres x val (or_introl eq_refl)) eq_refl) as (ss1 & props1 & E & F).
      rewrite E. cbn [rbind].
      destruct (IH ss1 (mkTI (ti_id ti) (ti_service ti) (ti_instances ti) props1 (ti_class ti) (x :: ti_visited ti)) Htc Hres')
        as (ss2 & props2 & E2 & F2).
      cbn [ti_props ti_class ti_id ti_service ti_instances ti_visited] in E2, F2. rewrite F in E2, F2.
      exists ss2, props2. split; [exact E2|exact F2].
Qed.

Lemma col_fold_app xs ys : forall vis o,
  col_fold vis o (xs ++ ys) = col_fold (fst (col_fold vis o xs)) (snd (col_fold vis o xs)) ys.
Proof.
  induction xs as [|x xs IH]; intros vis o; cbn [app col_fold fst snd]; [reflexivity|]. destruct (bmem x vis); apply IH.
Qed.

(* ---- collect_type_info for one instance of the class: the class seen before, and the class seen for the first time *)
Definition names_resolve (xs : list (bytes * value)) : Prop :=
  forall x val, In (x, val) xs -> resolve_prop d class x val = Ok (RProp can ser ty (mgs x)).

Lemma collect_type_info_existing st i ti :
  i_class i = class -> bfind class (ss_types st) = Some ti -> ti_class ti = tc -> names_resolve (i_props i) ->
  exists st' ti',
    collect_type_info d st i = Ok st' /\ bfind class (ss_types st') = Some ti' /\ ti_class ti' = tc /\
    ti_instances ti' = ti_instances ti ++ [i_ref i] /\
    ti_visited ti' = fst (col_fold (ti_visited ti) (bfind can (ti_props ti)) (List.map fst (i_props i))) /\
    bfind can (ti_props ti') = snd (col_fold (ti_visited ti) (bfind can (ti_props ti)) (List.map fst (i_props i))).
Proof.
  intros Hc Hf Htc Hres. unfold collect_type_info. rewrite Hc, Hf. cbv beta iota zeta.
  destruct (cti_fold (i_props i) (ss_sstr st)
              (mkTI (ti_id ti) (ti_service ti) (ti_instances ti ++ [i_ref i]) (ti_props ti) (ti_class ti) (ti_visited ti))
              Htc Hres) as (ss' & props' & E & F).
  cbn [ti_props ti_class ti_id ti_service ti_instances ti_visited] in E, F. rewrite E. cbn [rbind].
  eexists _, _. split; [reflexivity|]. cbn [ss_types]. split; [apply bfind_bset_same; rewrite Hf; discriminate|].
  cbn [ti_props ti_class ti_id ti_service ti_instances ti_visited]. repeat split; auto.
Qed.

Lemma collect_type_info_fresh st i :
  i_class i = class -> bfind class (ss_types st) = None -> get_class d (string_of_bytes class) = tc ->
  bytes_eqb can NAME = false -> names_resolve (i_props i) ->
  exists st' ti',
    collect_type_info d st i = Ok st' /\ bfind class (ss_types st') = Some ti' /\ ti_class ti' = tc /\
    ti_instances ti' = [i_ref i] /\
    ti_visited ti' = fst (col_fold [] None (List.map fst (i_props i))) /\
    bfind can (ti_props ti') = snd (col_fold [] None (List.map fst (i_props i))).
Proof.
  intros Hc Hf Htc Hn Hres. unfold collect_type_info. rewrite Hc, Hf. cbv beta iota zeta.
  unfold new_type_info. rewrite Htc. cbn [ti_props ti_class ti_id ti_service ti_instances ti_visited app].
  destruct (cti_fold (i_props i) (ss_sstr st)
              (mkTI (ss_next_id st) match tc with Some c => cd_service c | None => false end [i_ref i]
                    [(NAME, mkPI WString NAME [] (VString []) None)] tc [])
              eq_refl Hres) as (ss' & props' & E & F).
  cbn [ti_props ti_class ti_id ti_service ti_instances ti_visited bfind] in E, F. rewrite Hn in E, F. rewrite E. cbn [rbind].
  eexists _, _. split; [reflexivity|]. cbn [ss_types].
  split; [apply bfind_bset_same; rewrite (bfind_binsert_same class _ _ Hf); discriminate|].
  cbn [ti_props ti_class ti_id ti_service ti_instances ti_visited]. repeat split; auto.
Qed.

(* TWO instances of a class met for the first time, in this visiting order: the column is the fold over both property lists *)
Theorem collect_type_info_two st i1 i2 :
  i_class i1 = class -> i_class i2 = class -> bfind class (ss_types st) = None -> get_class d (string_of_bytes class) = tc ->
  bytes_eqb can NAME = false -> names_resolve (i_props i1) -> names_resolve (i_props i2) ->
  exists st1 st2 ti2,
    collect_type_info d st i1 = Ok st1 /\ collect_type_info d st1 i2 = Ok st2 /\
    bfind class (ss_types st2) = Some ti2 /\ ti_instances ti2 = [i_ref i1; i_ref i2] /\
    bfind can (ti_props ti2) = snd (col_fold [] None (List.map fst (i_props i1) ++ List.map fst (i_props i2))).
Proof.
  intros Hc1 Hc2 Hf Htc Hn Hr1 Hr2.
  destruct (collect_type_info_fresh st i1 Hc1 Hf Htc Hn Hr1) as (st1 & ti1 & E1 & F1 & C1 & I1 & V1 & P1).
  destruct (collect_type_info_existing st1 i2 ti1 Hc2 F1 C1 Hr2) as (st2 & ti2 & E2 & F2 & C2 & I2 & V2 & P2).
  exists st1, st2, ti2. split; [exact E1|]. split; [exact E2|]. split; [exact F2|]. split; [now rewrite I2, I1|].
  now rewrite P2, V1, P1, col_fold_app.
Qed.

(* ---- what the fold computes (pure list facts) *)
(* all migrating spellings of the column bring the same operation (they migrate to the same property) *)
Variable op : migop.
Hypothesis Hop : forall x op', mgs x = Some op' -> op' = op.

Definition omig (o : option prop_info) : option migop := match o with Some pi => pi_migration pi | None => None end.
Definition oali (o : option prop_info) : list bytes := match o with Some pi => pi_aliases pi | None => [] end.

Lemma col_add'_mig x o : omig (Some (col_add' x o)) = match mgs x with Some _ => Some op | None => omig o end
                          \/ (bytes_eqb x can = true).
Proof.
  destruct (bytes_eqb x can) eqn:E; [now right|left].
  unfold col_add', col_add. rewrite E. cbn [omig pi_migration].
  destruct (mgs x) as [op'|] eqn:M; [now rewrite (Hop x op' M)|]. destruct o; cbn [pi_migration omig]; reflexivity.
Qed.

Lemma col_add'_keeps_mig x o : omig o = Some op -> omig (Some (col_add' x o)) = Some op.
Proof.
  intro H. destruct o as [pi|]; [|discriminate]. cbn [omig] in H. unfold col_add', col_add.
  destruct (bytes_eqb x can); [exact H|]. cbn [omig pi_migration].
  destruct (mgs x) as [op'|] eqn:M; [now rewrite (Hop x op' M)|exact H].
Qed.

Lemma col_fold_keeps_mig xs : forall vis o, omig o = Some op -> omig (snd (col_fold vis o xs)) = Some op.
Proof.
  induction xs as [|x xs IH]; intros vis o H; cbn [col_fold snd]; [exact H|].
  destruct (bmem x vis); [now apply IH|]. apply IH. now apply col_add'_keeps_mig.
Qed.

(* as soon as ONE instance carried a legacy migrating spelling (not skipped as already visited) the column migrates *)
Theorem col_fold_migration xs : forall vis o x,
  In x xs -> bmem x vis = false -> mgs x <> None -> bytes_eqb x can = false ->
  omig (snd (col_fold vis o xs)) = Some op.
Proof.
  induction xs as [|y xs IH]; intros vis o x Hin Hv Hm Hc; [destruct Hin|].
  cbn [col_fold]. destruct (bmem y vis) eqn:Hy.
  - destruct Hin as [->|Hin]; [rewrite Hv in Hy; discriminate|]. now apply (IH vis o x).
  - destruct Hin as [->|Hin].
    + apply col_fold_keeps_mig. destruct (col_add'_mig x o) as [E|E]; [|rewrite Hc in E; discriminate].
      rewrite E. destruct (mgs x); [reflexivity|now elim Hm].
    + destruct (bmem x (y :: vis)) eqn:Hx.
      * (* x = y: it was just processed *)
        unfold bmem in Hx, Hv. cbn [existsb] in Hx. rewrite Hv, orb_false_r in Hx. apply mp_eqb_eq in Hx. subst y.
        apply col_fold_keeps_mig. destruct (col_add'_mig x o) as [E|E]; [|rewrite Hc in E; discriminate].
        rewrite E. destruct (mgs x); [reflexivity|now elim Hm].
      * now apply (IH (y :: vis) _ x).
Qed.

(* the aliases: exactly the old ones and the non-canonical spellings met that were not skipped *)
Lemma col_add'_aliases x o y :
  In y (oali (Some (col_add' x o))) <-> In y (oali o) \/ (y = x /\ bytes_eqb x can = false).
Proof.
  unfold col_add', col_add. destruct (bytes_eqb x can) eqn:E.
  - destruct o; cbn [oali pi_aliases In]; intuition discriminate.
  - cbn [oali pi_aliases]. destruct o as [pi|]; cbn [pi_aliases oali].
    + destruct (bmem x (pi_aliases pi)) eqn:M.
      * apply bmem_in in M. split; [tauto|]. intros [H|[-> _]]; assumption.
      * rewrite in_app_iff. cbn [In]. intuition.
    + cbn [bmem existsb app In]. intuition.
Qed.

Theorem col_fold_aliases xs : forall vis o y,
  In y (oali (snd (col_fold vis o xs))) <->
  In y (oali o) \/ (In y xs /\ bmem y vis = false /\ bytes_eqb y can = false).
Proof.
  induction xs as [|x xs IH]; intros vis o y; cbn [col_fold snd].
  - cbn [In]. tauto.
  - destruct (bmem x vis) eqn:Hx.
    + rewrite IH. cbn [In]. split; [tauto|]. intros [H|[[->|H] [H2 H3]]]; [tauto| |tauto]. rewrite Hx in H2. discriminate.
    + rewrite IH, col_add'_aliases. cbn [In]. unfold bmem at 1. cbn [existsb]. fold (bmem y vis).
      split.
      * intros [[H|[-> H]]|[H1 [H2 H3]]]; [tauto|right; tauto|].
        apply orb_false_iff in H2. right. tauto.
      * intros [H|[[->|H1] [H2 H3]]]; [tauto|tauto|].
        destruct (bytes_eqb y x) eqn:E.
        -- apply mp_eqb_eq in E. subst. tauto.
        -- right. rewrite H2. cbn [orb]. tauto.
Qed.

(* each once *)
Lemma col_add'_nodup x o : NoDup (oali o) -> NoDup (oali (Some (col_add' x o))).
Proof.
  intro H. unfold col_add', col_add. destruct (bytes_eqb x can).
  - destruct o; cbn [oali pi_aliases]; [exact H|constructor].
  - cbn [oali pi_aliases]. destruct o as [pi|]; cbn [pi_aliases oali] in *.
    + destruct (bmem x (pi_aliases pi)) eqn:M; [exact H|].
      apply NoDup_app_single; [exact H|]. intro Hin. apply in_bmem in Hin. rewrite Hin in M. discriminate.
    + cbn [bmem existsb app]. constructor; [intros []|constructor].
Qed.

Theorem col_fold_nodup xs : forall vis o, NoDup (oali o) -> NoDup (oali (snd (col_fold vis o xs))).
Proof.
  induction xs as [|x xs IH]; intros vis o H; cbn [col_fold snd]; [exact H|].
  destruct (bmem x vis); [now apply IH|]. apply IH. now apply col_add'_nodup.
Qed.
End Column.

(* ---- Y1 through the database: a legacy migrating name [p] (-> q), an alias [a] of q, and q itself *)
Lemma resolve_plain d class x val qd qs :
  find_desc_bin d (string_of_bytes class) (string_of_bytes x) = Ok (Some (qd, Some qs)) ->
  match pd_kind qs with KCanon (PMigrate _ _) => False | _ => True end ->
  resolve_prop d class x val = Ok (RProp (bstr (pd_name qd)) (bstr (pd_name qs)) (dtype_vt (pd_type qs)) None).
Proof.
  intros H Hk. unfold resolve_prop. rewrite H. cbn [rbind]. destruct (pd_kind qs) as [[| | |t o]|]; try reflexivity. destruct Hk.
Qed.

Section ColumnDb.
Variables (d : db) (class p a : bytes) (cd sd : pdesc) (q : string) (op : migop) (qd qs : pdesc).
Hypothesis Hlk : find_desc_bin d (string_of_bytes class) (string_of_bytes p) = Ok (Some (cd, Some sd)).
Hypothesis Hk : pd_kind sd = KCanon (PMigrate q op).
Hypothesis Hq : find_desc_bin d (string_of_bytes class) q = Ok (Some (qd, Some qs)).
Let can := bstr (pd_name qd).
Let ser := bstr (pd_name qs).
Let ty := dtype_vt (pd_type qs).
(* the alias and the canonical name resolve to the descriptors of q, which does not migrate further *)
Hypothesis Ha : find_desc_bin d (string_of_bytes class) (string_of_bytes a) = Ok (Some (qd, Some qs)).
Hypothesis Hcan : find_desc_bin d (string_of_bytes class) (string_of_bytes can) = Ok (Some (qd, Some qs)).
Hypothesis Hplain : match pd_kind qs with KCanon (PMigrate _ _) => False | _ => True end.
Hypothesis Hap : bytes_eqb a p = false.
Hypothesis Hcp : bytes_eqb can p = false.
Hypothesis Hname : bytes_eqb can NAME = false.
(* the default and the wire type of the column *)
Variables (dbdef : option value) (dv : value) (wt : wire_type).
Hypothesis Hdef : match get_class d (string_of_bytes class) with
                  | Some c => find_default d c (string_of_bytes can) | None => Ok None end = Ok dbdef.
Hypothesis Hdv : match dbdef with Some x => Some x | None => fallback_default_value ty end = Some dv.
Hypothesis Hwt : from_rbx_type ty = Some wt.

Definition mgs_of (x : bytes) : option migop := if bytes_eqb x p then Some op else None.
Definition only_spellings (xs : list (bytes * value)) : Prop := forall x val, In (x, val) xs -> x = p \/ x = a \/ x = can.

Lemma spellings_resolve xs : only_spellings xs -> names_resolve d class can ser ty mgs_of xs.
Proof.
  intros H x val Hin. unfold mgs_of. destruct (H _ _ Hin) as [-> | [-> | ->]].
  - rewrite mp_eqb_refl. exact (bin_write_resolves d class p cd sd q op Hlk Hk qd qs val Hq).
  - rewrite Hap. now apply resolve_plain.
  - rewrite Hcp. now apply resolve_plain.
Qed.

Lemma col_fold_some_stays xs : forall vis pi, exists pi', snd (col_fold can ser mgs_of dv wt vis (Some pi) xs) = Some pi'.
Proof.
  induction xs as [|x xs IH]; intros vis pi; cbn [col_fold snd]; [eauto|]. destruct (bmem x vis); apply IH.
Qed.

(* Y1, two instances of a class met for the first time (either may carry any of the three spellings, in any order; take
   i_props i2 = [] for the one-instance case): the column filed under the canonical name has the migration operation as soon
   as one of them carried the legacy name, and its aliases are exactly the non-canonical spellings met, each once *)
Theorem column_after_two_instances st i1 i2 :
  i_class i1 = class -> i_class i2 = class -> bfind class (ss_types st) = None ->
  only_spellings (i_props i1) -> only_spellings (i_props i2) -> i_props i1 <> [] ->
  let names := List.map fst (i_props i1) ++ List.map fst (i_props i2) in
  exists st1 st2 ti2 pi,
    collect_type_info d st i1 = Ok st1 /\ collect_type_info d st1 i2 = Ok st2 /\
    bfind class (ss_types st2) = Some ti2 /\ ti_instances ti2 = [i_ref i1; i_ref i2] /\
    bfind can (ti_props ti2) = Some pi /\
    (In p names -> pi_migration pi = Some op) /\
    (forall y, In y (pi_aliases pi) <-> In y names /\ bytes_eqb y can = false) /\
    NoDup (pi_aliases pi).
Proof.
  intros Hc1 Hc2 Hf Ho1 Ho2 Hne names.
  destruct (collect_type_info_two d class can ser ty mgs_of _ dbdef dv wt Hdef Hdv Hwt st i1 i2 Hc1 Hc2 Hf eq_refl Hname
              (spellings_resolve _ Ho1) (spellings_resolve _ Ho2)) as (st1 & st2 & ti2 & E1 & E2 & F2 & I2 & P2).
  fold names in P2.
  assert (S : exists pi, snd (col_fold can ser mgs_of dv wt [] None names) = Some pi).
  { subst names. destruct (i_props i1) as [|[x val] r]; [now elim Hne|]. cbn [List.map fst app col_fold bmem existsb].
    apply col_fold_some_stays. }
  destruct S as [pi S]. exists st1, st2, ti2, pi. rewrite S in P2.
  repeat (split; [assumption|]).
  assert (Hop : forall x op', mgs_of x = Some op' -> op' = op).
  { intros x op'. unfold mgs_of. destruct (bytes_eqb x p); [now intros [= <-]|discriminate]. }
  split; [|split].
  - intro Hin.
    pose proof (col_fold_migration can ser mgs_of dv wt op Hop names [] None p Hin eq_refl) as M. rewrite S in M.
    apply M; [unfold mgs_of; rewrite mp_eqb_refl; discriminate|]. now rewrite mp_eqb_sym.
  - intro y. pose proof (col_fold_aliases can ser mgs_of dv wt names [] None y) as A. rewrite S in A. cbn [oali In] in A.
    rewrite A. unfold bmem. cbn [existsb]. tauto.
  - pose proof (col_fold_nodup can ser mgs_of dv wt names [] None (NoDup_nil _)) as N. now rewrite S in N.
Qed.
End ColumnDb.

(* ================================================================================================ Y2, the generic core: the PROP chunk *)
(* ANY database, any column: with the legacy names last, the PROP chunk written for a class with one instance that carries the new
   property under a plain alias (besides any legacy spellings) holds the column of the EXPLICIT value and nothing else.
   Together with Y1 (the column has the migration operation and the alias) this is the writer's half of the file statement for an
   arbitrary database; the sample-database theorems below close the loop through the framing and the reader by evaluation. *)
Lemma is_perm_in_iff ord l x : is_perm ord l = true -> (In x ord <-> In x l).
Proof.
  unfold is_perm. intro H. apply andb_true_iff in H. destruct H as [H Hback]. apply andb_true_iff in H. destruct H as [_ Hall].
  rewrite forallb_forall in Hall, Hback. split; intro Hx; apply bmem_in; auto.
Qed.

Section ChunkGeneric.
Variables (d : db) (class : bytes) (ep : enc_params) (dom : cdom) (ctx : enc_ctx) (ti : type_info).
Variables (can : bytes) (pi : prop_info) (op : migop) (r : N) (i : inst) (a : bytes) (ex : value).
Hypothesis Hord : ep_legacy_last d class ep.
Hypothesis Hname : bytes_eqb can NAME = false.
Hypothesis Hmig : pi_migration pi = Some op.
Hypothesis Hinsts : ti_instances ti = [r].
Hypothesis Hfind : find_inst dom r = Some i.
Hypothesis Hnc : bfind can (i_props i) = None.
Hypothesis Hain : In a (pi_aliases pi).
Hypothesis Hpl : is_legacy_db d class a = false.
Hypothesis Hex : bfind a (i_props i) = Some ex.
Hypothesis Hone : forall b v, In b (pi_aliases pi) -> is_legacy_db d class b = false -> bfind b (i_props i) = Some v -> v = ex.
Hypothesis Hty : vtype ex = mig_out_type op.

Theorem prop_chunk_alias_explicit_wins :
  prop_chunk ep dom ctx ti (can, pi)
  = (col <- enc_col (pi_type pi) ctx [ex] ;;
     Ok (CH_PROP, w_le32 (ti_id ti) ++ w_bstr (pi_ser_name pi) ++ w_u8 (wire_id (pi_type pi)) ++ col)).
Proof.
  destruct (Hord (pi_aliases pi)) as [Hperm Hll].
  assert (V : prop_value ep can pi (ep_order ep (pi_aliases pi)) i = ex).
  { apply (prop_value_alias_explicit_wins ep can pi i op (is_legacy_db d class) Hname Hmig _ a ex Hll Hnc); auto.
    - now apply (is_perm_in_iff _ _ a Hperm).
    - intros b v Hb. apply Hone. now apply (is_perm_in_iff _ _ b Hperm). }
  unfold prop_chunk. rewrite Hperm. cbn [negb]. rewrite Hinsts. cbn [fold_res]. rewrite Hfind. cbn [rbind app fold_res List.map].
  now rewrite V.
Qed.
End ChunkGeneric.

(* the converse, same generality: a legacy name the instance carries in front of every carried alias => the migrated legacy value *)
Theorem prop_chunk_legacy_first_loses ep dom ctx ti can pi op r i l v w :
  is_perm (ep_order ep (pi_aliases pi)) (pi_aliases pi) = true ->
  bytes_eqb can NAME = false -> pi_migration pi = Some op ->
  ti_instances ti = [r] -> find_inst dom r = Some i -> bfind can (i_props i) = None ->
  find (carried i) (ep_order ep (pi_aliases pi)) = Some l -> bfind l (i_props i) = Some v ->
  migrate (ep_font ep) (ep_brick ep) op v = Some w ->
  prop_chunk ep dom ctx ti (can, pi)
  = (col <- enc_col (pi_type pi) ctx [w] ;;
     Ok (CH_PROP, w_le32 (ti_id ti) ++ w_bstr (pi_ser_name pi) ++ w_u8 (wire_id (pi_type pi)) ++ col)).
Proof.
  intros Hperm Hname Hmig Hinsts Hfind Hnc Hf Hl Hm.
  pose proof (prop_value_legacy_first_loses ep can pi i op Hname Hmig _ l v w Hnc Hf Hl Hm) as V.
  unfold prop_chunk. rewrite Hperm. cbn [negb]. rewrite Hinsts. cbn [fold_res]. rewrite Hfind. cbn [rbind app fold_res List.map].
  now rewrite V.
Qed.

(* ================================================================================================ Y2 / Y3 on the sample database *)
Module SampleFile.
Definition B := bytes_of_string.
Definition sdb : db := MigratePaths.Sample.sdb.
Definition PART := B "Part".
Definition LEG := B "BrickColor".      (* legacy, migrates to Color *)
Definition ALI := B "Color3uint8".     (* alias of Color (and its serialized name) *)
Definition CAN := B "Color".           (* canonical *)

Example sample_is_legacy : is_legacy_db sdb PART LEG = true /\ is_legacy_db sdb PART ALI = false /\ is_legacy_db sdb PART CAN = false.
Proof. vm_compute. repeat split. Qed.

(* one Part; [flip] chooses the order in which collect_type_info and serialize_properties meet the two spellings *)
Definition dom (flip : bool) (v ex : value) : cdom :=
  [mkInst 1 0 PART (B "P") (if flip then [(ALI, ex); (LEG, v)] else [(LEG, v); (ALI, ex)])].
Definition roundtrip (ep : enc_params) (dp : dec_params) (flip : bool) (v ex : value) : res cdom :=
  b <- encode_file sdb ep None (dom flip v ex) [1] ;; decode_file sdb dp b.
Definition decoded (x : value) : res cdom := Ok [mkInst 1 0 PART (B "P") [(CAN, x)]].

(* the order function restricted to the three alias lists this DOM produces, computing *)
Definition fixed_order (first second : bytes) (o : list bytes -> list bytes) (l : list bytes) : list bytes :=
  match l with
  | [] => []
  | _ => if lb_eqb l [LEG; ALI] || lb_eqb l [ALI; LEG] then [first; second] else o l
  end.

Lemma legacy_last_fixed ep : ep_legacy_last sdb PART ep -> forall l, ep_order ep l = fixed_order ALI LEG (ep_order ep) l.
Proof.
  intros H l. unfold fixed_order. destruct l as [|x l'] eqn:El.
  - destruct (H []) as [Hp _]. now apply is_perm_nil.
  - rewrite <- El. destruct (lb_eqb l [LEG; ALI]) eqn:E1; cbn [orb].
    + apply lb_eqb_eq in E1. rewrite E1. destruct (H [LEG; ALI]) as [Hp Hl].
      apply (legacy_last_two (is_legacy_db sdb PART)); auto; reflexivity.
    + destruct (lb_eqb l [ALI; LEG]) eqn:E2; [|reflexivity].
      apply lb_eqb_eq in E2. rewrite E2. destruct (H [ALI; LEG]) as [Hp Hl].
      apply (legacy_last_two (is_legacy_db sdb PART)); auto; try reflexivity. now apply is_perm_swap2.
Qed.

Lemma legacy_first_fixed ep : ep_legacy_first sdb PART ep -> forall l, ep_order ep l = fixed_order LEG ALI (ep_order ep) l.
Proof.
  intros H l. unfold fixed_order. destruct l as [|x l'] eqn:El.
  - destruct (H []) as [Hp _]. now apply is_perm_nil.
  - rewrite <- El.
    assert (G : forall l0, is_perm (ep_order ep l0) [LEG; ALI] = true ->
                (exists leg plain, ep_order ep l0 = leg ++ plain /\ forallb (is_legacy_db sdb PART) leg = true /\
                                   forallb (fun a => negb (is_legacy_db sdb PART a)) plain = true) ->
                ep_order ep l0 = [LEG; ALI]).
    { intros l0 Hp (leg & plain & E & Hlg & Hpl).
      (* mirror image of is_perm_two_split: swap the roles with the negated predicate *)
      assert (Hp' : is_perm (ep_order ep l0) [ALI; LEG] = true) by now apply is_perm_swap2.
      destruct (is_perm_two_split (ep_order ep l0) ALI LEG leg plain (fun a => negb (is_legacy_db sdb PART a)) Hp' E) as [-> ->];
        try reflexivity; try exact E.
      - rewrite forallb_forall in *. intros y Hy. rewrite (Hlg y Hy). reflexivity.
      - exact Hpl. }
    destruct (lb_eqb l [LEG; ALI]) eqn:E1; cbn [orb].
    + apply lb_eqb_eq in E1. rewrite E1. destruct (H [LEG; ALI]) as [Hp Hl]. now apply G.
    + destruct (lb_eqb l [ALI; LEG]) eqn:E2; [|reflexivity].
      apply lb_eqb_eq in E2. rewrite E2. destruct (H [ALI; LEG]) as [Hp Hl]. apply G; [now apply is_perm_swap2|exact Hl].
Qed.

(* ---- Y2 *)
Theorem bin_write_alias_explicit_wins_file ep dp flip v ex :
  ep_legacy_last sdb PART ep ->
  dp_lim dp = None ->
  (forall s, v <> VSharedString s) ->
  vtype ex = 6 ->                               (* Color3uint8, the serialized type of Part.Color *)
  roundtrip ep dp flip v ex = decoded ex.
Proof.
  intros Hord Hlim Hv Hex. unfold roundtrip.
  rewrite <- (encode_file_order_ext sdb ep _ None (dom flip v ex) [1] (legacy_last_fixed ep Hord)).
  destruct ep as [ft bt qu o hs]. destruct dp as [dft dbt infl uid lim]. cbn [dp_lim] in Hlim. subst lim.
  unfold with_order. cbn [ep_font ep_brick ep_quant ep_hash ep_order].
  destruct ex; try discriminate Hex. clear Hex.
  destruct flip; destruct v; try (exfalso; eapply Hv; reflexivity); vm_compute; reflexivity.
Qed.

(* the hypothesis on v is necessary: a SharedString legacy value is registered by collect_type_info before anything is known about
   the property, and a hash table that does not know it makes the writer fail (the model's E_HASH_ORDER: no order supplied) *)
Lemma shared_string_legacy_value_refuted :
  exists ep dp, ep_legacy_last sdb PART ep /\ dp_lim dp = None /\
    roundtrip ep dp false (VSharedString [1]) (VColor3uint8 1 2 3) <> decoded (VColor3uint8 1 2 3).
Proof.
  exists (mkEP [] [] (fun _ => 0) (partition_order (is_legacy_db sdb PART)) []), (mkDP [] [] (fun _ _ => None) (VUniqueId 0 0 0%Z) None).
  split; [apply partition_order_legacy_last|]. split; [reflexivity|]. vm_compute. discriminate.
Qed.

(* ---- Y3: legacy names FIRST (possible with the single hash set of the pinned code): the migrated legacy value is what the file holds *)
Theorem bin_write_legacy_first_loses_file ep dp flip r g b :
  ep_legacy_first sdb PART ep ->
  ep_brick ep = MigratePaths.Sample.sbt ->
  dp_lim dp = None ->
  roundtrip ep dp flip (VBrickColor 194) (VColor3uint8 r g b) = decoded (VColor3uint8 163 162 165).
Proof.
  intros Hord Hbt Hlim. unfold roundtrip.
  rewrite <- (encode_file_order_ext sdb ep _ None (dom flip _ _) [1] (legacy_first_fixed ep Hord)).
  destruct ep as [ft bt qu o hs]. destruct dp as [dft dbt infl uid lim]. cbn [dp_lim] in Hlim. cbn [ep_brick] in Hbt. subst lim bt.
  unfold with_order. cbn [ep_font ep_brick ep_quant ep_hash ep_order].
  destruct flip; vm_compute; reflexivity.
Qed.

(* ... and when the legacy value cannot be migrated (BrickColor 5 is not in the table) the raw BrickColor lands in the Color3uint8
   column and the file cannot be written at all, although the instance carries a perfectly good explicit value *)
Theorem bin_write_legacy_first_unmigratable_fails_file ep flip r g b :
  ep_legacy_first sdb PART ep ->
  ep_brick ep = MigratePaths.Sample.sbt ->
  encode_file sdb ep None (dom flip (VBrickColor 5) (VColor3uint8 r g b)) [1] = Err EE_TYPE_MISMATCH.
Proof.
  intros Hord Hbt.
  rewrite <- (encode_file_order_ext sdb ep _ None (dom flip _ _) [1] (legacy_first_fixed ep Hord)).
  destruct ep as [ft bt qu o hs]. cbn [ep_brick] in Hbt. subst bt.
  unfold with_order. cbn [ep_font ep_brick ep_quant ep_hash ep_order].
  destruct flip; vm_compute; reflexivity.
Qed.
(* whereas with the legacy names last the same DOM is written and read back with the explicit value: instance of Y2 *)
Corollary bin_write_legacy_last_unmigratable_ok_file ep dp flip r g b :
  ep_legacy_last sdb PART ep -> dp_lim dp = None ->
  roundtrip ep dp flip (VBrickColor 5) (VColor3uint8 r g b) = decoded (VColor3uint8 r g b).
Proof. intros Ho Hl. apply bin_write_alias_explicit_wins_file; auto. discriminate. Qed.

(* ---- the order is the ONLY thing that decides: under the model's own requirement (ep_order returns a permutation, nothing
   said about legacy names) the file holds either the explicit value or the migrated legacy value, nothing else *)
Lemma is_perm_two_cases ord p a : is_perm ord [p; a] = true -> p <> a -> ord = [p; a] \/ ord = [a; p].
Proof.
  intros H Hne. unfold is_perm in H. apply andb_true_iff in H. destruct H as [H Hback].
  apply andb_true_iff in H. destruct H as [Hlen Hall]. apply Nat.eqb_eq in Hlen.
  destruct ord as [|x [|y [|z r]]]; cbn [length] in Hlen; try discriminate.
  cbn [forallb] in Hall, Hback. rewrite !andb_true_iff in Hall, Hback.
  destruct Hall as (Hx & Hy & _). destruct Hback as (Hp & Ha & _).
  apply bmem_in in Hx. apply bmem_in in Hy. apply bmem_in in Hp. apply bmem_in in Ha. cbn [In] in Hx, Hy, Hp, Ha.
  destruct Hx as [<-|[<-|[]]]; destruct Hy as [<-|[<-|[]]]; auto; exfalso.
  - destruct Ha as [E|[E|[]]]; now apply Hne.
  - destruct Hp as [E|[E|[]]]; apply Hne; now symmetry.
Qed.

Definition fixed_one (l0 r0 : list bytes) (o : list bytes -> list bytes) (l : list bytes) : list bytes :=
  match l with [] => [] | _ => if lb_eqb l l0 then r0 else o l end.
Lemma fixed_one_ext ep l0 r0 :
  (forall l, is_perm (ep_order ep l) l = true) -> ep_order ep l0 = r0 ->
  forall l, ep_order ep l = fixed_one l0 r0 (ep_order ep) l.
Proof.
  intros Hp H0 l. unfold fixed_one. destruct l as [|x l'] eqn:El; [apply is_perm_nil, Hp|]. rewrite <- El.
  destruct (lb_eqb l l0) eqn:E; [apply lb_eqb_eq in E; now subst|reflexivity].
Qed.

Theorem bin_write_outcome_is_the_order_file ep dp flip r g b :
  (forall l, is_perm (ep_order ep l) l = true) ->
  ep_brick ep = MigratePaths.Sample.sbt -> dp_lim dp = None ->
  roundtrip ep dp flip (VBrickColor 194) (VColor3uint8 r g b) = decoded (VColor3uint8 r g b) \/
  roundtrip ep dp flip (VBrickColor 194) (VColor3uint8 r g b) = decoded (VColor3uint8 163 162 165).
Proof.
  intros Hperm Hbt Hlim. unfold roundtrip.
  assert (Hne : ALI <> LEG) by (vm_compute; discriminate).
  assert (Hne' : LEG <> ALI) by (vm_compute; discriminate).
  destruct flip.
  - destruct (is_perm_two_cases _ ALI LEG (Hperm [ALI; LEG]) Hne) as [E|E];
      rewrite <- (encode_file_order_ext sdb ep _ None _ [1] (fixed_one_ext ep _ _ Hperm E));
      destruct ep as [ft bt qu o hs]; destruct dp as [dft dbt infl uid lim]; cbn [dp_lim] in Hlim; cbn [ep_brick] in Hbt; subst lim bt;
      unfold with_order; cbn [ep_font ep_brick ep_quant ep_hash ep_order]; [left|right]; vm_compute; reflexivity.
  - destruct (is_perm_two_cases _ LEG ALI (Hperm [LEG; ALI]) Hne') as [E|E];
      rewrite <- (encode_file_order_ext sdb ep _ None _ [1] (fixed_one_ext ep _ _ Hperm E));
      destruct ep as [ft bt qu o hs]; destruct dp as [dft dbt infl uid lim]; cbn [dp_lim] in Hlim; cbn [ep_brick] in Hbt; subst lim bt;
      unfold with_order; cbn [ep_font ep_brick ep_quant ep_hash ep_order]; [right|left]; vm_compute; reflexivity.
Qed.

(* ---- non-vacuity of Y1: two Parts, the first carrying the legacy name only, the second the alias and the canonical name *)
Definition y1_i1 : inst := mkInst 1 0 PART (B "P1") [(LEG, VBrickColor 194)].
Definition y1_i2 : inst := mkInst 2 0 PART (B "P2") [(ALI, VColor3uint8 1 2 3); (CAN, VColor3uint8 4 5 6)].
Definition y1_pd : pdesc := mkPD "BrickColor" (DValue 3) (KCanon (PMigrate "Color" MigBrick)).
Definition y1_qd : pdesc := mkPD "Color" (DValue 5) (KCanon (PSerAs "Color3uint8")).
Definition y1_qs : pdesc := mkPD "Color3uint8" (DValue 6) (KAlias "Color").

Example ex_column_after_two_instances :
  exists st1 st2 ti2 pi,
    collect_type_info sdb ser_state0 y1_i1 = Ok st1 /\ collect_type_info sdb st1 y1_i2 = Ok st2 /\
    bfind PART (ss_types st2) = Some ti2 /\ ti_instances ti2 = [1; 2] /\
    bfind CAN (ti_props ti2) = Some pi /\
    (In LEG [LEG; ALI; CAN] -> pi_migration pi = Some MigBrick) /\
    (forall y, In y (pi_aliases pi) <-> In y [LEG; ALI; CAN] /\ bytes_eqb y CAN = false) /\
    NoDup (pi_aliases pi).
Proof.
  refine (column_after_two_instances sdb PART LEG ALI y1_pd y1_pd "Color" MigBrick y1_qd y1_qs
            eq_refl eq_refl eq_refl eq_refl eq_refl I eq_refl eq_refl eq_refl
            (Some (VColor3uint8 1 2 3)) (VColor3uint8 1 2 3) WColor3uint8 eq_refl eq_refl eq_refl
            ser_state0 y1_i1 y1_i2 eq_refl eq_refl eq_refl _ _ _).
  - intros x val [[= <- _]|[]]. now left.
  - intros x val [[= <- _]|[[= <- _]|[]]]; [right; now left|right; now right].
  - discriminate.
Qed.
(* ... and the column itself, computed through the same two calls *)
Example ex_column_computed :
  (st1 <- collect_type_info sdb ser_state0 y1_i1 ;; st2 <- collect_type_info sdb st1 y1_i2 ;;
   Ok (match bfind PART (ss_types st2) with Some ti => bfind CAN (ti_props ti) | None => None end))
  = Ok (Some (mkPI WColor3uint8 ALI [LEG; ALI] (VColor3uint8 1 2 3) (Some MigBrick))).
Proof. vm_compute. reflexivity. Qed.

(* ---- non-vacuity of the generic chunk theorems, on the column Y1 computes for the one-Part DOM *)
Definition ex_ep_first0 : enc_params := mkEP [] MigratePaths.Sample.sbt (fun _ => 0) (partition_order_rev (is_legacy_db sdb PART)) [].
Definition ch_pi : prop_info := mkPI WColor3uint8 ALI [LEG; ALI] (VColor3uint8 1 2 3) (Some MigBrick).
Definition ch_ti : type_info := mkTI 0 false [1] [(CAN, ch_pi)] None [ALI; LEG].
Definition ch_dom : cdom := dom false (VBrickColor 194) (VColor3uint8 7 8 9).
Definition ch_inst : inst := mkInst 1 0 PART (B "P") [(LEG, VBrickColor 194); (ALI, VColor3uint8 7 8 9)].
Definition ch_ctx : enc_ctx := mkEC (fun _ => None) (fun _ => None) (fun _ => 0).

Example ex_prop_chunk_alias_explicit_wins (ep : enc_params) :
  ep_legacy_last sdb PART ep ->
  prop_chunk ep ch_dom ch_ctx ch_ti (CAN, ch_pi)
  = Ok (CH_PROP, w_le32 0 ++ w_bstr ALI ++ w_u8 (wire_id WColor3uint8) ++ [7; 8; 9]).
Proof.
  intro H.
  rewrite (prop_chunk_alias_explicit_wins sdb PART ep ch_dom ch_ctx ch_ti CAN ch_pi MigBrick 1 ch_inst ALI (VColor3uint8 7 8 9)
             H eq_refl eq_refl eq_refl eq_refl eq_refl); try reflexivity.
  - right. now left.
  - intros b v [<-|[<-|[]]] Hl Hv; [discriminate Hl|now inversion Hv].
Qed.
Example ex_prop_chunk_legacy_first_loses :
  prop_chunk ex_ep_first0 ch_dom ch_ctx ch_ti (CAN, ch_pi)
  = Ok (CH_PROP, w_le32 0 ++ w_bstr ALI ++ w_u8 (wire_id WColor3uint8) ++ [163; 162; 165]).
Proof.
  rewrite (prop_chunk_legacy_first_loses ex_ep_first0 ch_dom ch_ctx ch_ti CAN ch_pi MigBrick 1 ch_inst LEG (VBrickColor 194)
             (VColor3uint8 163 162 165)); reflexivity.
Qed.

(* ---- non-vacuity: both orders on the sample database *)
Definition ex_ep_last : enc_params := mkEP [] MigratePaths.Sample.sbt (fun _ => 0) (partition_order (is_legacy_db sdb PART)) [].
Definition ex_ep_first : enc_params := mkEP [] MigratePaths.Sample.sbt (fun _ => 0) (partition_order_rev (is_legacy_db sdb PART)) [].
Definition ex_dp : dec_params := mkDP [] MigratePaths.Sample.sbt (fun _ _ => None) (VUniqueId 0 0 0%Z) None.

Example ex_last_is_legacy_last : ep_legacy_last sdb PART ex_ep_last.
Proof. apply partition_order_legacy_last. Qed.
Example ex_first_is_legacy_first : ep_legacy_first sdb PART ex_ep_first.
Proof. apply partition_order_rev_legacy_first. Qed.
Example ex_orders :
  ep_order ex_ep_last [LEG; ALI] = [ALI; LEG] /\ ep_order ex_ep_last [ALI; LEG] = [ALI; LEG] /\
  ep_order ex_ep_first [LEG; ALI] = [LEG; ALI] /\ ep_order ex_ep_first [ALI; LEG] = [LEG; ALI].
Proof. vm_compute. repeat split. Qed.

Example ex_explicit_wins_file flip :
  roundtrip ex_ep_last ex_dp flip (VBrickColor 194) (VColor3uint8 1 2 3) = decoded (VColor3uint8 1 2 3).
Proof.
  apply bin_write_alias_explicit_wins_file; [exact ex_last_is_legacy_last|reflexivity|discriminate|reflexivity].
Qed.
Example ex_explicit_wins_file_computed :
  roundtrip ex_ep_last ex_dp false (VBrickColor 194) (VColor3uint8 1 2 3)
  = Ok [mkInst 1 0 (B "Part") (B "P") [(B "Color", VColor3uint8 1 2 3)]] /\
  roundtrip ex_ep_last ex_dp true (VBrickColor 194) (VColor3uint8 1 2 3)
  = Ok [mkInst 1 0 (B "Part") (B "P") [(B "Color", VColor3uint8 1 2 3)]].
Proof. split; vm_compute; reflexivity. Qed.
Example ex_legacy_first_loses_file flip :
  roundtrip ex_ep_first ex_dp flip (VBrickColor 194) (VColor3uint8 1 2 3) = decoded (VColor3uint8 163 162 165).
Proof. apply bin_write_legacy_first_loses_file; [exact ex_first_is_legacy_first|reflexivity|reflexivity]. Qed.
Example ex_legacy_first_loses_file_computed :
  roundtrip ex_ep_first ex_dp false (VBrickColor 194) (VColor3uint8 1 2 3)
  = Ok [mkInst 1 0 (B "Part") (B "P") [(B "Color", VColor3uint8 163 162 165)]] /\
  roundtrip ex_ep_first ex_dp true (VBrickColor 194) (VColor3uint8 1 2 3)
  = Ok [mkInst 1 0 (B "Part") (B "P") [(B "Color", VColor3uint8 163 162 165)]].
Proof. split; vm_compute; reflexivity. Qed.
End SampleFile.

Print Assumptions cti_fold.
Print Assumptions collect_type_info_two.
Print Assumptions column_after_two_instances.
Print Assumptions SampleFile.ex_column_after_two_instances.
Print Assumptions prop_chunk_alias_explicit_wins.
Print Assumptions prop_chunk_legacy_first_loses.
Print Assumptions encode_file_order_ext.
Print Assumptions SampleFile.bin_write_alias_explicit_wins_file.
Print Assumptions SampleFile.bin_write_legacy_first_loses_file.
Print Assumptions SampleFile.bin_write_legacy_first_unmigratable_fails_file.
Print Assumptions SampleFile.shared_string_legacy_value_refuted.
Print Assumptions SampleFile.bin_write_outcome_is_the_order_file.
Print Assumptions SampleFile.ex_explicit_wins_file.
Print Assumptions SampleFile.ex_legacy_first_loses_file.
