(* XmlSpecAgree.v — property C05, both directions joined: the independent document decoder of Spec/XmlSpec.v
   ([tree_of_events], [xspec_decode], [decode_prop]) reads every document the model of the real XML serializer
   ([xml_encode], through the [channel]) writes, and reads it back to the DOM that was written.
     (E1) tree level: the parser events of a writer forest build the translated forest [nodes_of]
     (E2) structure: [xspec_decode] succeeds; instances, classes, parents, referents, dictionary
     (E3) values: [decode_prop] on the element the writer emits for a value gives the [sval] describing it
     (E4) composition: instance by instance agreement with the source [cdom]
   Standard library only. *)
From Coq Require Import List NArith ZArith Bool Lia String Permutation Sorted.
From RbxVerif Require Import Base Bytes Value Db Attr Tags BinValues CodecDom XmlEvents XmlValues XmlFile XmlInt XmlText XmlBase64 XmlCompound2
  XmlFileFacts XmlDeterminism XmlStructure XmlSpec.
Import ListNotations.
Open Scope list_scope.
Open Scope N_scope.

(* ================================================================= (E1) the tree level *)
(* [build] without its fuel: the recursion is structural in the event list *)
Fixpoint build' (evs : list revent) (stack : list (bytes * attrs * list node)) (top : list node) : option (list node) :=
  match evs with
  | [] => match stack with [] => Some (rev top) | _ => None end
  | RStart n a :: r => build' r ((n, a, top) :: stack) []
  | REnd n :: r =>
      match stack with
      | (n', a, up) :: st => if bytes_eqb n n' then build' r st (NElem n a (rev top) :: up) else None
      | [] => None
      end
  | RChars s :: r | RCData s :: r => build' r stack (NText s :: top)
  | RStartDoc :: r | REndDoc :: r | RPI _ :: r => build' r stack top
  | RError :: _ => None
  end.

(* the fuel [tree_of_events] passes suffices *)
Lemma build_fuel evs : forall f stack top, (length evs < f)%nat -> build f evs stack top = build' evs stack top.
Proof.
  induction evs as [|ev evs IH]; intros f stack top Hf; (destruct f as [|f]; [cbn [length] in Hf; lia|]).
  - reflexivity.
  - cbn [length] in Hf. assert (Hf' : (length evs < f)%nat) by lia.
    destruct ev; cbn [build build']; rewrite ?(IH f) by exact Hf'; try reflexivity.
    destruct stack as [|[[n' a] up] st]; [reflexivity|]. destruct (bytes_eqb name n'); [|reflexivity].
    apply IH. exact Hf'.
Qed.

Lemma tree_of_events_build' evs : tree_of_events evs = build' evs [] [].
Proof. unfold tree_of_events. apply build_fuel. lia. Qed.

(* the text state of the parser, on trees: what a flush leaves in the tree *)
Definition flushn (t : tstate) : list node :=
  match tbuf t with [] => [] | _ => if tiws t then [] else [NText (tbuf t)] end.

(* one writer node read in text state [t]: the nodes it completes, and the text state after it.  Character events are
   coalesced into the buffer (and dropped at the next markup when they are whitespace only and no CDATA section with
   other content came before); a CDATA node gives one text node per section [split_cdata] cuts it into *)
Fixpoint step (t : tstate) (n : wnode) : list node * tstate :=
  match n with
  | WNode nm a ks =>
      (flushn t ++ [NElem nm a (let (e, t') := (fix walk (t : tstate) (l : list wnode) : list node * tstate :=
                                   match l with
                                   | [] => ([], t)
                                   | x :: r => let (e1, t1) := step t x in let (e2, t2) := walk t1 r in (e1 ++ e2, t2)
                                   end) t0 ks in e ++ flushn t')], t0)
  | WText s => ([], mkT (tbuf t ++ s) (tiws t && all_ws s))
  | WCD s => (flushn t ++ List.map NText (split_cdata s), mkT [] (last_ws (split_cdata s) true))
  end.
Fixpoint walk (t : tstate) (l : list wnode) : list node * tstate :=
  match l with
  | [] => ([], t)
  | x :: r => let (e1, t1) := step t x in let (e2, t2) := walk t1 r in (e1 ++ e2, t2)
  end.
Definition nodes_in (t : tstate) (ks : list wnode) : list node := let (e, t') := walk t ks in e ++ flushn t'.
(* the translation of a writer forest *)
Definition nodes_of (ts : list wnode) : list node := nodes_in t0 ts.

Lemma step_node t nm a ks : step t (WNode nm a ks) = (flushn t ++ [NElem nm a (nodes_in t0 ks)], t0).
Proof. reflexivity. Qed.

Lemma build'_app_flush t tail stack top :
  build' (flush t ++ tail) stack top = build' tail stack (rev (flushn t) ++ top).
Proof.
  unfold flush, flushn. destruct (tbuf t) as [|c r]; [reflexivity|]. destruct (tiws t); reflexivity.
Qed.

Lemma build'_cdata ps : forall tail stack top,
  build' (List.map RCData ps ++ tail) stack top = build' tail stack (rev (List.map NText ps) ++ top).
Proof.
  induction ps as [|p ps IH]; intros tail stack top; [reflexivity|].
  cbn [List.map app build' rev]. rewrite IH, <- app_assoc. reflexivity.
Qed.

(* the events the channel delivers for a forest (followed by [rest]) build the translated nodes *)
Definition chan_tree_P (n : wnode) : Prop :=
  forall cstack t rest revs, chan_go cstack t (flat n ++ rest) = Ok revs ->
    exists revs', chan_go cstack (snd (step t n)) rest = Ok revs' /\
      forall tail stack top, build' (revs ++ tail) stack top = build' (revs' ++ tail) stack (rev (fst (step t n)) ++ top).

Definition chan_forest_P (ks : list wnode) : Prop :=
  forall cstack t rest revs, chan_go cstack t (flats ks ++ rest) = Ok revs ->
    exists revs', chan_go cstack (snd (walk t ks)) rest = Ok revs' /\
      forall tail stack top, build' (revs ++ tail) stack top = build' (revs' ++ tail) stack (rev (fst (walk t ks)) ++ top).

Lemma chan_forest_of_nodes ks : Forall chan_tree_P ks -> chan_forest_P ks.
Proof.
  induction 1 as [|n ks Hn _ IH]; intros cstack t rest revs H.
  - exists revs. split; [exact H|]. intros. reflexivity.
  - rewrite flats_cons, <- app_assoc in H. destruct (Hn _ _ _ _ H) as (revs1 & H1 & B1).
    destruct (IH _ _ _ _ H1) as (revs2 & H2 & B2). cbn [walk].
    destruct (step t n) as [e1 t1] eqn:E1. cbn [fst snd] in *. destruct (walk t1 ks) as [e2 t2] eqn:E2. cbn [fst snd] in *.
    exists revs2. split; [exact H2|]. intros tail stack top. rewrite B1, B2, rev_app_distr, <- app_assoc. reflexivity.
Qed.

Lemma chan_tree n : chan_tree_P n.
Proof.
  induction n as [nm a ks IH| |] using wnode_ind'; intros cstack t rest revs H.
  - apply chan_forest_of_nodes in IH. rewrite flat_node in H. cbn [app chan_go] in H. rewrite <- app_assoc in H.
    destruct (chan_go (nm :: cstack) t0 (flats ks ++ [WEnd] ++ rest)) as [rest1| |c|] eqn:E1; cbn [rbind] in H; try discriminate.
    inversion H; subst revs; clear H.
    destruct (IH _ _ _ _ E1) as (revs1 & H1 & B1). cbn [app chan_go] in H1.
    destruct (chan_go cstack t0 rest) as [rest2| |c|] eqn:E2; cbn [rbind] in H1; try discriminate.
    inversion H1; subst revs1; clear H1.
    rewrite step_node. cbn [fst snd]. exists rest2. split; [exact E2|]. intros tail stack top.
    rewrite <- app_assoc, build'_app_flush. cbn [app build']. rewrite B1, <- app_assoc, build'_app_flush.
    cbn [app build']. rewrite bytes_eqb_refl. rewrite rev_app_distr. cbn [rev app]. f_equal. f_equal. f_equal.
    unfold nodes_in. destruct (walk t0 ks) as [e2 t2]. cbn [fst snd]. rewrite app_nil_r, rev_app_distr, !rev_involutive.
    reflexivity.
  - cbn [flat app chan_go] in H. destruct cstack as [|c0 cstack]; [discriminate|].
    exists revs. split; [exact H|]. intros. reflexivity.
  - cbn [flat app chan_go] in H. destruct cstack as [|c0 cstack]; [discriminate|]. cbv zeta in H.
    destruct (chan_go (c0 :: cstack) (mkT [] (last_ws (split_cdata s) true)) rest) as [rest1| |c|] eqn:E1; cbn [rbind] in H; try discriminate.
    inversion H; subst revs; clear H. exists rest1. split; [exact E1|]. intros tail stack top. cbn [step fst snd].
    rewrite <- !app_assoc, build'_app_flush, build'_cdata, rev_app_distr, <- app_assoc. reflexivity.
Qed.

Lemma chan_forest ks : chan_forest_P ks.
Proof. apply chan_forest_of_nodes. apply Forall_forall. intros n _. apply chan_tree. Qed.

(* (E1) the parser events of a writer forest build the translated forest *)
Theorem tree_of_channel_flats ts revs :
  channel (flats ts) = Ok revs -> tree_of_events revs = Some (nodes_of ts).
Proof.
  unfold channel. destruct (flats ts) as [|ev0 evs0] eqn:Ef; [discriminate|]. rewrite <- Ef. clear ev0 evs0 Ef.
  destruct (forallb wevent_legal (flats ts)); [|discriminate].
  destruct (chan_go [] t0 (flats ts)) as [body| |c|] eqn:E; cbn [rbind]; try discriminate.
  intro H; inversion H; subst revs; clear H. rewrite tree_of_events_build'. cbn [build'].
  rewrite <- (app_nil_r (flats ts)) in E. destruct (chan_forest ts _ _ _ _ E) as (revs' & H1 & B1).
  cbn [chan_go] in H1. inversion H1; subst revs'; clear H1.
  rewrite B1, build'_app_flush. cbn [build']. unfold nodes_of, nodes_in. destruct (walk t0 ts) as [e2 t2]. cbn [fst snd].
  rewrite app_nil_r, <- rev_app_distr, rev_involutive. reflexivity.
Qed.
Print Assumptions tree_of_channel_flats.

(* every event list with a tree view, in particular everything [xml_encode] emits *)
Corollary tree_of_channel_wevents evs ts revs :
  tree_of_wevents evs = Some ts -> channel evs = Ok revs -> tree_of_events revs = Some (nodes_of ts).
Proof. intros Ht Hc. apply tree_of_wevents_iff in Ht. subst evs. now apply tree_of_channel_flats. Qed.

(* ================================================================= the translation of element forests and text leaves *)
Definition is_elem (n : wnode) : bool := match n with WNode _ _ _ => true | _ => false end.

Lemma nodes_in_nil : nodes_in t0 [] = [].
Proof. reflexivity. Qed.

Lemma nodes_in_cons_node nm a ks r : nodes_in t0 (WNode nm a ks :: r) = NElem nm a (nodes_in t0 ks) :: nodes_in t0 r.
Proof.
  unfold nodes_in at 1 3. cbn [walk]. rewrite step_node. destruct (walk t0 r) as [e2 t2]. reflexivity.
Qed.

Lemma nodes_in_app a b : forallb is_elem a = true -> nodes_in t0 (a ++ b) = nodes_in t0 a ++ nodes_in t0 b.
Proof.
  induction a as [|[nm at_ ks| |] a IH]; cbn [forallb is_elem andb app]; intro H; try discriminate; [reflexivity|].
  rewrite !nodes_in_cons_node, (IH H). reflexivity.
Qed.

Lemma text_of_map_NText ps : text_of (List.map NText ps) = concat ps.
Proof. induction ps as [|p ps IH]; [reflexivity|]. cbn [List.map text_of concat]. now rewrite IH. Qed.

(* the character data of a text leaf comes back unchanged: CDATA sections are glued, nothing is trimmed *)
Lemma text_of_leaf s : text_of (nodes_in t0 [leaf s]) = s.
Proof.
  unfold leaf. destruct (has_outer_ws s) eqn:E.
  - unfold nodes_in. cbn [walk step flushn t0 tbuf tiws app fst snd]. rewrite !app_nil_r, text_of_map_NText.
    apply split_cdata_concat.
  - unfold nodes_in. cbn [walk step flushn t0 tbuf tiws app fst snd andb]. destruct s as [|c r]; [reflexivity|].
    destruct (all_ws (c :: r)) eqn:A.
    + rewrite (all_ws_outer (c :: r) ltac:(discriminate) A) in E. discriminate.
    + cbn [text_of]. apply app_nil_r.
Qed.

Lemma text_of_text_nonws s : s <> [] -> all_ws s = false -> nodes_in t0 [WText s] = [NText s].
Proof.
  intros Hne A. unfold nodes_in. cbn [walk step flushn t0 tbuf tiws app fst snd andb]. rewrite A.
  destruct s; [congruence|reflexivity].
Qed.

(* ================================================================= (E2) the structure *)
Fixpoint fsize (l : list node) : nat := match l with [] => O | k :: r => (nsize k + fsize r)%nat end.
Lemma nsize_elem n a ks : nsize (NElem n a ks) = S (fsize ks).
Proof. reflexivity. Qed.
Lemma nsize_pos k : (1 <= nsize k)%nat.
Proof. destruct k; cbn [nsize]; lia. Qed.

(* the loop over the children of a Properties element inside [items] *)
Fixpoint props_go (l : list node) : res (list (bytes * bytes * list node)) :=
  match l with
  | [] => Ok []
  | NElem tn ta tk :: l' =>
      match attr (sb "name") ta with
      | Some pn => rest <- props_go l' ;; Ok ((pn, tn, tk) :: rest)
      | None => Err SE_NAME
      end
  | NText _ :: l' => props_go l'
  end.

Lemma items_S f parent next kids :
  items (S f) parent next kids =
  match kids with
  | [] => Ok ([], next)
  | NElem n a ks :: r =>
      if bytes_eqb n (sb "Item") then
        match attr (sb "class") a, attr (sb "referent") a with
        | Some c, Some rf =>
            if bytes_eqb rf (sb "null") then Err SE_ITEM else
            if negb (ws_only ks) then Err SE_CHILD else
            match filter (name_is "Properties") ks with
            | [NElem _ _ ps] =>
                if negb (forallb (fun k => name_is "Properties" k || name_is "Item" k) (elems ks)) then Err SE_CHILD else
                props <- props_go ps ;;
                '(sub, next1) <- items f next (next + 1) ks ;;
                '(rest, next2) <- items f parent next1 r ;;
                Ok (mkSI c rf parent props :: sub ++ rest, next2)
            | _ => Err SE_PROPS
            end
        | _, _ => Err SE_ITEM
        end
      else items f parent next r
  | NText _ :: r => items f parent next r
  end.
Proof. reflexivity. Qed.

(* [items] run with any sufficient fuel *)
Definition items_ok (parent next : N) (kids : list node) (out : list sinst) (next' : N) : Prop :=
  forall f, (fsize kids < f)%nat -> items f parent next kids = Ok (out, next').

Lemma items_ok_nil parent next : items_ok parent next [] [] next.
Proof. intros f Hf. destruct f; [cbn in Hf; lia|reflexivity]. Qed.

Lemma items_ok_skip parent next n a ks r out next' :
  bytes_eqb n (sb "Item") = false -> items_ok parent next r out next' -> items_ok parent next (NElem n a ks :: r) out next'.
Proof.
  intros Hn Hr f Hf. destruct f; [lia|]. rewrite items_S, Hn. apply Hr. cbn [fsize] in Hf.
  pose proof (nsize_pos (NElem n a ks)). lia.
Qed.

Lemma items_ok_item parent next c rf ps ks tl props sub next1 rest next2 :
  bytes_eqb rf (sb "null") = false ->
  ws_only ks = true ->
  filter (name_is "Properties") ks = [] ->
  forallb (fun k => name_is "Properties" k || name_is "Item" k) (elems ks) = true ->
  props_go ps = Ok props ->
  items_ok next (next + 1) ks sub next1 ->
  items_ok parent next1 tl rest next2 ->
  items_ok parent next
    (NElem (B "Item") [(B "class", c); (B "referent", rf)] (NElem (B "Properties") [] ps :: ks) :: tl)
    (mkSI c rf parent props :: sub ++ rest) next2.
Proof.
  intros Hnull Hws Hfil Hall Hps Hsub Hrest f Hf. destruct f as [|f]; [lia|]. rewrite items_S.
  cbn [fsize] in Hf. rewrite nsize_elem in Hf. cbn [fsize] in Hf. rewrite nsize_elem in Hf.
  replace (bytes_eqb (B "Item") (sb "Item")) with true by reflexivity.
  cbn [attr]. replace (bytes_eqb (B "class") (sb "class")) with true by reflexivity.
  replace (bytes_eqb (B "class") (sb "referent")) with false by reflexivity.
  replace (bytes_eqb (B "referent") (sb "referent")) with true by reflexivity.
  rewrite Hnull. cbn [ws_only forallb] . fold (ws_only ks). rewrite Hws. cbn [negb].
  cbn [filter name_is]. replace (bytes_eqb (B "Properties") (sb "Properties")) with true by reflexivity.
  rewrite Hfil. cbn [elems filter forallb name_is]. fold (elems ks).
  replace (bytes_eqb (B "Properties") (sb "Properties")) with true by reflexivity. cbn [orb andb]. rewrite Hall. cbn [negb].
  rewrite Hps. cbn [rbind].
  assert (Hk : items f next (next + 1) (NElem (B "Properties") [] ps :: ks) = Ok (sub, next1)).
  { destruct f as [|f]; [lia|]. rewrite items_S. replace (bytes_eqb (B "Properties") (sb "Item")) with false by reflexivity.
    apply Hsub. lia. }
  rewrite Hk. cbn [rbind]. rewrite (Hrest f) by lia. reflexivity.
Qed.

(* ---- the Item trees of a document, with the relation between a property and its element left open *)
Section ISpec.
  Variables (d : cdom) (m : list (N * N)).
  Variable Q : bytes -> bytes -> value -> option wnode -> Prop.

  Inductive ispec : N -> wnode -> list N -> Prop :=
  | IS id i x ons knodes kids :
      find_inst d id = Some i -> lookup id m = Some x ->
      Forall2 (fun kv on => Q (i_class i) (fst kv) (snd kv) on) (bsort (i_props i)) ons ->
      isspec (children_of d id) knodes kids ->
      ispec id (item_node (i_class i) (dec_of_N x) (name_node (i_name i) :: flat_map opt_nodes ons) knodes) (id :: kids)
  with isspec : list N -> list wnode -> list N -> Prop :=
  | IS_nil : isspec [] [] []
  | IS_cons c n ids1 r ns ids2 : ispec c n ids1 -> isspec r ns ids2 -> isspec (c :: r) (n :: ns) (ids1 ++ ids2).

  Scheme ispec_ind2 := Minimality for ispec Sort Prop
    with isspec_ind2 := Minimality for isspec Sort Prop.
  Combined Scheme ispec_mutind from ispec_ind2, isspec_ind2.

  (* the instances in document order, each with the document-order index (from 1) of the Item of its parent; 0 for the
     Items directly under `roblox`.  [next] = the index of the first Item of the forest *)
  Inductive idx_spec : N -> N -> N -> list (N * N) -> Prop :=
  | IX parent next id kids :
      idxs_spec next (next + 1) (children_of d id) kids -> idx_spec parent next id ((id, parent) :: kids)
  with idxs_spec : N -> N -> list N -> list (N * N) -> Prop :=
  | IX_nil parent next : idxs_spec parent next [] []
  | IX_cons parent next c r l1 l2 :
      idx_spec parent next c l1 -> idxs_spec parent (next + N.of_nat (length l1)) r l2 ->
      idxs_spec parent next (c :: r) (l1 ++ l2).

  (* what the spec decoder keeps of one property element: name attribute, element name, translated content *)
  Definition ptriple (p : wnode) : list (bytes * bytes * list node) :=
    match p with
    | WNode tag a inner => match attr (sb "name") a with Some pn => [(pn, tag, nodes_in t0 inner)] | None => [] end
    | _ => []
    end.

  (* the [sinst] read for instance [fst ip] whose parent's Item has index [snd ip] *)
  Definition inst_rel (ip : N * N) (si : sinst) : Prop :=
    exists i x ons, find_inst d (fst ip) = Some i /\ lookup (fst ip) m = Some x /\
      Forall2 (fun kv on => Q (i_class i) (fst kv) (snd kv) on) (bsort (i_props i)) ons /\
      si = mkSI (i_class i) (dec_of_N x) (snd ip) (flat_map ptriple (name_node (i_name i) :: flat_map opt_nodes ons)).

  Definition is_named (p : wnode) : Prop := exists tag pn inner, p = WNode tag (name_attr pn) inner.
  Definition is_item_elem (n : wnode) : Prop := exists a ks, n = WNode (B "Item") a ks.

  Hypothesis HQ : forall class k v p, Q class k v (Some p) -> is_named p.

  Lemma props_go_named ps : Forall is_named ps -> props_go (nodes_in t0 ps) = Ok (flat_map ptriple ps).
  Proof.
    induction 1 as [|p ps (tag & pn & inner & ->) _ IH]; [reflexivity|].
    rewrite nodes_in_cons_node. cbn [props_go flat_map ptriple name_attr attr].
    replace (bytes_eqb (B "name") (sb "name")) with true by reflexivity. rewrite IH. reflexivity.
  Qed.

  Lemma Q_named class ps ons :
    Forall2 (fun kv on => Q class (fst kv) (snd kv) on) ps ons -> Forall is_named (flat_map opt_nodes ons).
  Proof.
    induction 1 as [|kv on ps ons H _ IH]; [constructor|]. cbn [flat_map]. apply Forall_app. split; [|exact IH].
    destruct on as [p|]; [|constructor]. constructor; [|constructor]. eapply HQ; exact H.
  Qed.

  Lemma item_elems_facts ns : Forall is_item_elem ns ->
    forallb is_elem ns = true /\ ws_only (nodes_in t0 ns) = true /\ filter (name_is "Properties") (nodes_in t0 ns) = [] /\
    filter (name_is "SharedStrings") (nodes_in t0 ns) = [] /\
    forallb (fun k => name_is "Properties" k || name_is "Item" k) (elems (nodes_in t0 ns)) = true /\
    forallb (fun k => name_is "Meta" k || name_is "External" k || name_is "Item" k || name_is "SharedStrings" k) (elems (nodes_in t0 ns)) = true.
  Proof.
    induction 1 as [|n ns (a & ks & ->) _ (I1 & I2 & I3 & I4 & I5 & I6)]; [repeat split; reflexivity|].
    rewrite nodes_in_cons_node. cbn [forallb is_elem ws_only filter name_is elems andb].
    fold (ws_only (nodes_in t0 ns)). fold (elems (nodes_in t0 ns)).
    replace (bytes_eqb (B "Item") (sb "Properties")) with false by reflexivity.
    replace (bytes_eqb (B "Item") (sb "SharedStrings")) with false by reflexivity.
    replace (bytes_eqb (B "Item") (sb "Item")) with true by reflexivity.
    replace (bytes_eqb (B "Item") (sb "Meta")) with false by reflexivity.
    replace (bytes_eqb (B "Item") (sb "External")) with false by reflexivity.
    cbn [orb andb forallb]. rewrite I1, I2, I3, I4, I5, I6. repeat split; reflexivity.
  Qed.

  Lemma ispec_items :
    (forall id n ids, ispec id n ids ->
       is_item_elem n /\
       forall parent next, exists pl sis,
         idx_spec parent next id pl /\ List.map fst pl = ids /\ Forall2 inst_rel pl sis /\
         forall tl tres next', items_ok parent (next + N.of_nat (length ids)) tl tres next' ->
           items_ok parent next (nodes_in t0 [n] ++ tl) (sis ++ tres) next') /\
    (forall cs ns ids, isspec cs ns ids ->
       Forall is_item_elem ns /\
       forall parent next, exists pl sis,
         idxs_spec parent next cs pl /\ List.map fst pl = ids /\ Forall2 inst_rel pl sis /\
         forall tl tres next', items_ok parent (next + N.of_nat (length ids)) tl tres next' ->
           items_ok parent next (nodes_in t0 ns ++ tl) (sis ++ tres) next').
  Proof.
    apply ispec_mutind.
    - intros id i x ons knodes kids Hf Hx Hp _ [Hel IHk]. split; [eexists _, _; reflexivity|].
      intros parent next. destruct (IHk next (next + 1)) as (plk & sisk & Hidx & Hfst & Hrel & Hit).
      exists ((id, parent) :: plk),
             (mkSI (i_class i) (dec_of_N x) parent (flat_map ptriple (name_node (i_name i) :: flat_map opt_nodes ons)) :: sisk).
      split; [constructor; exact Hidx|]. split; [cbn [List.map fst]; now rewrite Hfst|].
      split; [constructor; [|exact Hrel]; exists i, x, ons; cbn [fst snd]; auto|].
      intros tl tres next' Htl. unfold item_node. rewrite nodes_in_cons_node, nodes_in_nil, nodes_in_cons_node.
      cbn [app]. destruct (item_elems_facts knodes Hel) as (_ & F2 & F3 & _ & F5 & _).
      apply (items_ok_item parent next (i_class i) (dec_of_N x) _ _ tl _ sisk (next + 1 + N.of_nat (length kids)) tres next').
      + apply bytes_eqb_neq. apply dec_of_N_not_null.
      + exact F2.
      + exact F3.
      + exact F5.
      + apply props_go_named. constructor; [eexists _, _, _; reflexivity|]. eapply Q_named; exact Hp.
      + specialize (Hit [] [] (next + 1 + N.of_nat (length kids)) (items_ok_nil _ _)). rewrite !app_nil_r in Hit. exact Hit.
      + replace (next + 1 + N.of_nat (length kids)) with (next + N.of_nat (length (id :: kids))) by (cbn [length]; lia).
        exact Htl.
    - split; [constructor|]. intros parent next. exists [], []. split; [constructor|]. split; [reflexivity|]. split; [constructor|].
      intros tl tres next' Htl. cbn [length N.of_nat] in Htl. rewrite N.add_0_r in Htl. exact Htl.
    - intros c n ids1 r ns ids2 _ [Hn IH1] _ [Hns IH2]. split; [constructor; assumption|]. intros parent next.
      destruct (IH1 parent next) as (pl1 & sis1 & Hi1 & Hf1 & Hr1 & Ht1).
      destruct (IH2 parent (next + N.of_nat (length pl1))) as (pl2 & sis2 & Hi2 & Hf2 & Hr2 & Ht2).
      exists (pl1 ++ pl2), (sis1 ++ sis2). split; [constructor; assumption|]. split; [now rewrite map_app, Hf1, Hf2|].
      split; [now apply Forall2_app|]. intros tl tres next' Htl.
      assert (Hlen : length pl1 = length ids1) by (rewrite <- Hf1, map_length; reflexivity).
      change (n :: ns) with ([n] ++ ns). rewrite nodes_in_app.
      2:{ destruct Hn as (a & ks & ->). reflexivity. }
      rewrite <- !app_assoc. apply Ht1. rewrite <- Hlen. apply Ht2. rewrite Hlen.
      replace (next + N.of_nat (length ids1) + N.of_nat (length ids2)) with (next + N.of_nat (length (ids1 ++ ids2)))
        by (rewrite app_length; lia).
      exact Htl.
  Qed.
End ISpec.

(* the Item trees [xml_encode_document] describes are of this form *)
Lemma item_spec_ispec e beh d m dict :
  (forall id n ids, item_spec e beh d m dict id n ids -> ispec d m (prop_spec e beh m dict) id n ids) /\
  (forall cs ns ids, items_spec e beh d m dict cs ns ids -> isspec d m (prop_spec e beh m dict) cs ns ids).
Proof.
  apply spec_mutind.
  - intros id i x ons knodes kids Hf Hx Hp _ IH. now apply IS.
  - constructor.
  - intros c n ids1 r ns ids2 _ H1 _ H2. now constructor.
Qed.

Lemma prop_spec_named e beh m dict class k v p : prop_spec e beh m dict class k v (Some p) -> is_named p.
Proof. intro H. inversion H; subst; eexists _, _, _; reflexivity. Qed.

(* ---- base64 as the spec reads it *)
Ltac ndm := zify; Z.to_euclidean_division_equations; lia.

Lemma b64v_char d : d < 64 -> b64v (b64_char d) = Some d.
Proof. intro H. change (b64v (b64_char d)) with (b64_val (b64_char d)). apply (b64_val_char d H). Qed.

Theorem spec_base64_encode b : Forall (fun x => x < 256) b -> spec_base64 (b64_encode b) = b.
Proof.
  unfold spec_base64. induction b as [|x|x y|x y z r IH] using list_ind3; intro HF.
  - reflexivity.
  - inversion HF as [|? ? Hx _]; subst. cbn [b64_encode sextets_of].
    assert (S1 : x / 4 < 64) by ndm. assert (S2 : (x mod 4) * 16 < 64) by ndm.
    rewrite (b64v_char _ S1), (b64v_char _ S2). change (b64v 61) with (@None N). cbn [sextets_of bytes_of_sextets].
    f_equal. ndm.
  - inversion HF as [|? ? Hx HF']; subst. inversion HF' as [|? ? Hy _]; subst. cbn [b64_encode sextets_of].
    assert (S1 : x / 4 < 64) by ndm. assert (S2 : (x mod 4) * 16 + y / 16 < 64) by ndm. assert (S3 : (y mod 16) * 4 < 64) by ndm.
    rewrite (b64v_char _ S1), (b64v_char _ S2), (b64v_char _ S3). change (b64v 61) with (@None N). cbn [sextets_of bytes_of_sextets].
    f_equal; [ndm|]. f_equal. ndm.
  - inversion HF as [|? ? Hx HF']; subst. inversion HF' as [|? ? Hy HF'']; subst. inversion HF'' as [|? ? Hz HFr]; subst.
    specialize (IH HFr).
    assert (S1 : x / 4 < 64) by ndm. assert (S2 : (x mod 4) * 16 + y / 16 < 64) by ndm.
    assert (S3 : (y mod 16) * 4 + z / 64 < 64) by ndm. assert (S4 : z mod 64 < 64) by ndm.
    assert (B1 : (x / 4) * 4 + ((x mod 4) * 16 + y / 16) / 16 = x) by ndm.
    assert (B2 : (((x mod 4) * 16 + y / 16) mod 16) * 16 + ((y mod 16) * 4 + z / 64) / 4 = y) by ndm.
    assert (B3 : (((y mod 16) * 4 + z / 64) mod 4) * 64 + z mod 64 = z) by ndm.
    change (b64_encode (x :: y :: z :: r)) with
      (b64_char (x / 4) :: b64_char ((x mod 4) * 16 + y / 16) :: b64_char ((y mod 16) * 4 + z / 64) :: b64_char (z mod 64) :: b64_encode r).
    cbn [sextets_of]. rewrite (b64v_char _ S1), (b64v_char _ S2), (b64v_char _ S3), (b64v_char _ S4).
    cbn [bytes_of_sextets]. rewrite IH, B1, B2, B3. reflexivity.
Qed.

(* ---- referents *)
Lemma index_of_none rf l : forall k, index_of rf l k = None <-> ~ In rf (List.map si_referent l).
Proof.
  induction l as [|i l IH]; intro k; cbn [index_of List.map In]; [tauto|].
  destruct (bytes_eqb (si_referent i) rf) eqn:E.
  - apply beqb_true_iff in E. split; [discriminate|]. intro H. exfalso. apply H. now left.
  - apply beqb_false_iff in E. rewrite IH. tauto.
Qed.

Lemma nodup_referents_true l : NoDup (List.map si_referent l) -> nodup_referents l = true.
Proof.
  induction l as [|i l IH]; intro H; [reflexivity|]. cbn [List.map] in H. inversion H as [|? ? Hn Hl]; subst.
  cbn [nodup_referents]. destruct (index_of (si_referent i) l 0) eqn:E.
  - exfalso. apply (proj2 (index_of_none _ _ 0)) in Hn. congruence.
  - now apply IH.
Qed.

Lemma Forall2_map_l {A B C} (R : B -> C -> Prop) (f : A -> B) l l' :
  Forall2 (fun a c => R (f a) c) l l' -> Forall2 R (List.map f l) l'.
Proof. induction 1; constructor; auto. Qed.

(* ---- the dictionary element *)
Lemma attr_none k (l : list (bytes * bytes)) : ~ In k (List.map fst l) -> attr k l = None.
Proof.
  induction l as [|[n v] l IH]; intro H; [reflexivity|]. cbn [attr]. cbn [List.map fst In] in H.
  rewrite bytes_eqb_neq by (intro E; apply H; now left). apply IH. tauto.
Qed.

Lemma attr_some k (l : list (bytes * bytes)) : In k (List.map fst l) -> exists v, attr k l = Some v.
Proof.
  induction l as [|[n v] l IH]; intro H; [contradiction|]. cbn [attr]. destruct (bytes_eqb n k) eqn:E; [eexists; reflexivity|].
  apply beqb_false_iff in E. destruct H as [H|H]; [cbn [fst] in H; congruence|]. now apply IH.
Qed.

(* what the spec decoder reads of the dictionary [dict] *)
Definition dict_out (dict : list (bytes * bytes)) : list (bytes * bytes) :=
  List.map (fun hc => (md5_key (fst hc), spec_base64 (b64_encode (snd hc)))) dict.

Lemma dict_out_keys dict : List.map fst (dict_out dict) = List.map (fun hc => md5_key (fst hc)) dict.
Proof. unfold dict_out. rewrite map_map. reflexivity. Qed.

Lemma dict_entries dl : NoDup (List.map (fun hc => md5_key (fst hc)) dl) ->
  dict (nodes_in t0 (List.map dict_entry dl)) = Ok (dict_out dl).
Proof.
  induction dl as [|hc dl IH]; intro Hnd; [reflexivity|]. cbn [List.map] in Hnd. inversion Hnd as [|? ? Hn Hl]; subst.
  cbn [List.map]. unfold dict_entry at 1. rewrite nodes_in_cons_node. cbn [dict].
  replace (bytes_eqb (B "SharedString") (sb "SharedString")) with true by reflexivity. cbn [attr].
  replace (bytes_eqb (B "md5") (sb "md5")) with true by reflexivity. rewrite (IH Hl). cbn [rbind].
  rewrite attr_none by (rewrite dict_out_keys; exact Hn). rewrite text_of_leaf. reflexivity.
Qed.

Definition root_child_ok (k : node) : bool := name_is "Meta" k || name_is "External" k || name_is "Item" k || name_is "SharedStrings" k.

Lemma dictn_facts dl : NoDup (List.map (fun hc => md5_key (fst hc)) dl) ->
  ws_only (nodes_in t0 (dict_nodes dl)) = true /\
  forallb root_child_ok (elems (nodes_in t0 (dict_nodes dl))) = true /\
  (forall nx, items_ok 0 nx (nodes_in t0 (dict_nodes dl)) [] nx) /\
  match filter (name_is "SharedStrings") (nodes_in t0 (dict_nodes dl)) with
  | [] => Ok []
  | [NElem _ _ ds] => dict ds
  | _ => Err SE_SHARED
  end = Ok (dict_out dl).
Proof.
  intro Hnd. unfold dict_nodes. destruct dl as [|x r]; [repeat split; try reflexivity; intro nx; apply items_ok_nil|].
  set (l := x :: r) in *. rewrite nodes_in_cons_node, nodes_in_nil. repeat split; try reflexivity.
  - intro nx. apply items_ok_skip; [reflexivity|apply items_ok_nil].
  - cbn [filter name_is]. replace (bytes_eqb (B "SharedStrings") (sb "SharedStrings")) with true by reflexivity.
    now apply dict_entries.
Qed.

Lemma ws_only_app a b : ws_only (a ++ b) = ws_only a && ws_only b.
Proof. apply forallb_app. Qed.
Lemma elems_app a b : elems (a ++ b) = elems a ++ elems b.
Proof. apply filter_app. Qed.

(* ---- the whole document *)
Section Document.
  Variables (d : cdom) (m : list (N * N)) (Q : bytes -> bytes -> value -> option wnode -> Prop).
  Hypothesis HQ : forall class k v p, Q class k v (Some p) -> is_named p.

  Lemma inst_rel_referents pl sis :
    map_injective m -> Forall2 (inst_rel d m Q) pl sis -> NoDup (List.map fst pl) -> NoDup (List.map si_referent sis).
  Proof.
    intros Hinj Hrel Hnd.
    apply (Forall2_NoDup_map (fun id si => exists x, lookup id m = Some x /\ si_referent si = dec_of_N x) si_referent (List.map fst pl)).
    - intros a a' b b' (x & Hx & Hb) (x' & Hx' & Hb') E. rewrite Hb, Hb' in E. apply dec_of_N_inj in E. subst x'.
      exact (Hinj _ _ _ Hx Hx').
    - apply Forall2_map_l. eapply Forall2_imp; [|exact Hrel]. intros ip si (i & x & ons & _ & Hx & _ & ->). exists x. split; [exact Hx|reflexivity].
    - exact Hnd.
  Qed.

  Theorem xspec_decode_document roots items ids dl :
    isspec d m Q roots items ids -> NoDup ids -> map_injective m -> NoDup (List.map (fun hc => md5_key (fst hc)) dl) ->
    exists pl sis,
      idxs_spec d 0 1 roots pl /\ List.map fst pl = ids /\ Forall2 (inst_rel d m Q) pl sis /\
      xspec_decode (nodes_of [doc_node items (dict_nodes dl)]) = Ok (mkSF sis (dict_out dl)).
  Proof.
    intros Hs Hnd Hinj Hkeys.
    destruct (proj2 (ispec_items d m Q HQ) _ _ _ Hs) as (Hel & Hit).
    destruct (Hit 0 1) as (pl & sis & Hidx & Hfst & Hrel & Hitems). clear Hit.
    exists pl, sis. split; [exact Hidx|]. split; [exact Hfst|]. split; [exact Hrel|].
    destruct (item_elems_facts items Hel) as (F1 & F2 & _ & F4 & _ & F6).
    destruct (dictn_facts dl Hkeys) as (D1 & D2 & D3 & D4).
    unfold nodes_of, doc_node. rewrite nodes_in_cons_node, nodes_in_nil, (nodes_in_app _ _ F1).
    set (ni := nodes_in t0 items) in *. set (nd := nodes_in t0 (dict_nodes dl)) in *.
    unfold xspec_decode. cbn [elems filter].
    replace (bytes_eqb (B "roblox") (sb "roblox")) with true by reflexivity. cbn [negb attr].
    replace (bytes_eqb (B "version") (sb "version")) with true by reflexivity.
    replace (bytes_eqb (B "4") (sb "4")) with true by reflexivity. cbn [negb].
    rewrite ws_only_app, F2, D1. cbn [andb negb]. rewrite elems_app, forallb_app.
    fold root_child_ok. unfold root_child_ok in F6 |- *. rewrite F6. fold root_child_ok. rewrite D2. cbn [andb negb].
    specialize (Hitems nd [] _ (D3 _)). rewrite app_nil_r in Hitems. rewrite Hitems.
    2:{ rewrite nsize_elem. lia. }
    cbn [rbind]. rewrite nodup_referents_true.
    2:{ apply (inst_rel_referents pl sis Hinj Hrel). rewrite Hfst. exact Hnd. }
    cbn [negb]. rewrite filter_app, F4. cbn [app]. rewrite D4. reflexivity.
  Qed.
End Document.

(* ---- references and shared strings are resolved *)
Lemma decode_prop_shared_inv insts dc tag ks x : decode_prop insts dc tag ks = SShared x -> bytes_eqb tag (sb "SharedString") = true.
Proof.
  unfold decode_prop.
  destruct (bytes_eqb tag (sb "string") || bytes_eqb tag (sb "ProtectedString")); [discriminate|].
  destruct (bytes_eqb tag (sb "bool")).
  { destruct (bytes_eqb (text_of ks) (sb "true")); [discriminate|]. destruct (bytes_eqb (text_of ks) (sb "false")); discriminate. }
  destruct (bytes_eqb tag (sb "int")); [destruct (int_val (text_of ks)); discriminate|].
  destruct (bytes_eqb tag (sb "int64")); [destruct (int_val (text_of ks)); discriminate|].
  destruct (bytes_eqb tag (sb "token")); [destruct (nat_val 0 (text_of ks)); discriminate|].
  destruct (bytes_eqb tag (sb "Ref")); [destruct (bytes_eqb (text_of ks) (sb "null")); discriminate|].
  destruct (bytes_eqb tag (sb "BinaryString")); [discriminate|].
  destruct (bytes_eqb tag (sb "SharedString")); [reflexivity|discriminate].
Qed.

(* [decode_prop] at each element name it knows *)
Lemma decode_prop_string insts dc ks : decode_prop insts dc (B "string") ks = SString (text_of ks).
Proof. reflexivity. Qed.
Lemma decode_prop_bool insts dc ks : decode_prop insts dc (B "bool") ks =
  if bytes_eqb (text_of ks) (sb "true") then SBool true else if bytes_eqb (text_of ks) (sb "false") then SBool false else SOther (B "bool") ks.
Proof. reflexivity. Qed.
Lemma decode_prop_int insts dc ks : decode_prop insts dc (B "int") ks =
  match int_val (text_of ks) with Some z => SInt z | None => SOther (B "int") ks end.
Proof. reflexivity. Qed.
Lemma decode_prop_int64 insts dc ks : decode_prop insts dc (B "int64") ks =
  match int_val (text_of ks) with Some z => SInt64 z | None => SOther (B "int64") ks end.
Proof. reflexivity. Qed.
Lemma decode_prop_token insts dc ks : decode_prop insts dc (B "token") ks =
  match nat_val 0 (text_of ks) with Some n => SToken n | None => SOther (B "token") ks end.
Proof. reflexivity. Qed.
Lemma decode_prop_Ref insts dc ks : decode_prop insts dc (B "Ref") ks =
  if bytes_eqb (text_of ks) (sb "null") then SRef None else SRef (index_of (text_of ks) insts 1).
Proof. reflexivity. Qed.
Lemma decode_prop_BinaryString insts dc ks : decode_prop insts dc (B "BinaryString") ks = SBinary (spec_base64 (text_of ks)).
Proof. reflexivity. Qed.
Lemma decode_prop_SharedString insts dc ks : decode_prop insts dc (B "SharedString") ks = SShared (attr (text_of ks) dc).
Proof. reflexivity. Qed.

Definition triple_resolved (insts : list sinst) (dc : list (bytes * bytes)) (p : bytes * bytes * list node) : bool :=
  match decode_prop insts dc (snd (fst p)) (snd p) with SShared None => false | _ => true end.

Lemma prop_spec_cases e beh m dl class k v p : prop_spec e beh m dl class k v (Some p) ->
  (exists r pn, v = VRef r /\ (r <> 0 -> exists x, lookup r m = Some x) /\ p = WNode (B "Ref") (name_attr pn) [WText (ref_text m r)]) \/
  (exists c h pn, v = VSharedString c /\ xe_hash e c = Some h /\ In h (List.map fst dl) /\
                  p = WNode (B "SharedString") (name_attr pn) [leaf (md5_key h)]) \/
  (exists tag pn inner, (forall r, v <> VRef r) /\ (forall c, v <> VSharedString c) /\
                        bytes_eqb tag (B "Ref") = false /\ bytes_eqb tag (B "SharedString") = false /\ p = WNode tag (name_attr pn) inner).
Proof.
  intro H. inversion H as [|r pn Hv Hn Hl|c h pn Hv Hn Hh Hin|tag pn inner N1 N2 Hn T1 T2 T3 Hi]; subst.
  - left. exists r, pn. auto.
  - right. left. exists c, h, pn. auto.
  - right. right. exists tag, pn, inner. auto.
Qed.

Lemma ptriple_named tag pn inner : ptriple (WNode tag (name_attr pn) inner) = [(pn, tag, nodes_in t0 inner)].
Proof. reflexivity. Qed.

Lemma prop_spec_resolved e beh m dl class k v p insts :
  prop_spec e beh m dl class k v (Some p) -> forallb (triple_resolved insts (dict_out dl)) (ptriple p) = true.
Proof.
  intro H. destruct (prop_spec_cases _ _ _ _ _ _ _ _ H) as [(r & pn & _ & _ & ->)|[(c & h & pn & _ & _ & Hin & ->)|(tag & pn & inner & _ & _ & _ & T3 & ->)]];
    rewrite ptriple_named; cbn [forallb]; rewrite andb_true_r; unfold triple_resolved; cbn [fst snd].
  - rewrite decode_prop_Ref. destruct (bytes_eqb _ _); reflexivity.
  - rewrite decode_prop_SharedString, text_of_leaf.
    destruct (attr_some (md5_key h) (dict_out dl)) as (c' & ->); [|reflexivity].
    rewrite dict_out_keys. apply in_map_iff in Hin. destruct Hin as ([h' c'] & <- & Hin). apply in_map_iff. eexists. split; [|exact Hin]. reflexivity.
  - destruct (decode_prop insts (dict_out dl) tag (nodes_in t0 inner)) as [| | | | | | |[c|]|] eqn:E; try reflexivity.
    apply decode_prop_shared_inv in E. change (sb "SharedString") with (B "SharedString") in E. congruence.
Qed.

Lemma name_node_resolved s insts dc : forallb (triple_resolved insts dc) (ptriple (name_node s)) = true.
Proof. reflexivity. Qed.

Lemma props_resolved e beh m dl class ps ons insts :
  Forall2 (fun kv on => prop_spec e beh m dl class (fst kv) (snd kv) on) ps ons ->
  forallb (triple_resolved insts (dict_out dl)) (flat_map ptriple (flat_map opt_nodes ons)) = true.
Proof.
  induction 1 as [|kv on ps ons H _ IH]; [reflexivity|]. cbn [flat_map]. rewrite flat_map_app, forallb_app, IH, andb_true_r.
  destruct on as [p|]; [|reflexivity]. cbn [opt_nodes flat_map]. rewrite app_nil_r. eapply prop_spec_resolved; exact H.
Qed.

Lemma insts_resolved e beh d m dl pl sis insts :
  Forall2 (inst_rel d m (prop_spec e beh m dl)) pl sis ->
  forallb (fun i => forallb (triple_resolved insts (dict_out dl)) (si_props i)) sis = true.
Proof.
  induction 1 as [|ip si pl sis (i & x & ons & _ & _ & Hp & ->) _ IH]; [reflexivity|].
  cbn [forallb si_props]. rewrite IH, andb_true_r. cbn [flat_map]. rewrite forallb_app, name_node_resolved.
  eapply props_resolved; exact Hp.
Qed.

(* the contents of the dictionary come back when they are byte strings *)
Definition hash_dom_bytes (e : xenv) : Prop := forall c h, xe_hash e c = Some h -> Forall (fun x => x < 256) c.

Lemma dict_out_bytes e dl : hash_dom_bytes e -> (forall h c, In (h, c) dl -> xe_hash e c = Some h) ->
  dict_out dl = List.map (fun hc => (md5_key (fst hc), snd hc)) dl.
Proof.
  intros Hb Hh. unfold dict_out. apply map_ext_in. intros [h c] Hin. cbn [fst snd]. f_equal.
  apply spec_base64_encode. eapply Hb. apply Hh. exact Hin.
Qed.

(* (E2) the spec decoder accepts every document the serializer emits for a DOM in which no instance is written twice,
   under a hash whose 16 byte prefixes identify it; it lists the written instances in document order with class, referent
   numeral, parent index and the property elements, reads the emitted dictionary, and resolves every shared string *)
Theorem xml_encode_spec_decode e beh d roots evs revs doc :
  xml_encode e beh d roots = Ok evs -> channel evs = Ok revs -> tree_of_events revs = Some doc ->
  NoDup (written d roots) -> prefix_injective e -> hash_is_bytes e ->
  exists m dl f pl,
    map_injective m /\ StronglySorted klt dl /\ (forall h c, In (h, c) dl -> xe_hash e c = Some h) /\
    xspec_decode doc = Ok f /\
    idxs_spec d 0 1 roots pl /\ List.map fst pl = written d roots /\
    Forall2 (inst_rel d m (prop_spec e beh m dl)) pl (sf_insts f) /\
    sf_dict f = dict_out dl /\ (hash_dom_bytes e -> sf_dict f = List.map (fun hc => (md5_key (fst hc), snd hc)) dl) /\
    refs_resolved f = true.
Proof.
  intros He Hc Ht Hnd Hpi Hb.
  destruct (xml_encode_document _ _ _ _ _ He) as (m & dl & items & Hw & Hs & Hinj & Hsort & Hh).
  pose proof (tree_of_channel_wevents _ _ _ Hw Hc) as Ht'. rewrite Ht in Ht'. inversion Ht' as [Hdoc]. clear Ht'.
  apply (proj2 (item_spec_ispec e beh d m dl)) in Hs.
  destruct (xspec_decode_document d m (prop_spec e beh m dl) (prop_spec_named e beh m dl) roots items _ dl Hs Hnd Hinj
              (dictionary_keys_unique e dl Hpi Hb Hsort Hh)) as (pl & sis & Hidx & Hfst & Hrel & Hdec).
  exists m, dl, (mkSF sis (dict_out dl)), pl. repeat split; try assumption.
  - intro Hdb. cbn [sf_dict]. eapply dict_out_bytes; eassumption.
  - unfold refs_resolved. cbn [sf_insts sf_dict]. exact (insts_resolved e beh d m dl pl sis sis Hrel).
Qed.
Print Assumptions xml_encode_spec_decode.

(* the hypotheses of (E2) are needed: a root listed twice is written twice under one referent, and the spec decoder
   rejects the document ("referent MUST be unique") ... *)
Definition spec_read (evs : list wevent) : res sfile :=
  revs <- channel evs ;; match tree_of_events revs with Some doc => xspec_decode doc | None => Panic end.

Example duplicate_root_refuted :
  (evs <- xml_encode e0 EWriteUnknown [mkInst 1 0 (B "Folder") (B "f") []] [1; 1] ;; spec_read evs) = Err SE_ITEM.
Proof. vm_compute. reflexivity. Qed.

(* ... and two contents whose hashes agree on the first 16 bytes give two dictionary entries under one md5 key, which the
   spec decoder rejects ("md5 MUST be unique") *)
Example truncated_hash_refuted :
  (evs <- xml_encode e_amb EWriteUnknown d_amb [1] ;; spec_read evs) = Err SE_SHARED.
Proof. vm_compute. reflexivity. Qed.

(* ================================================================= (E3) the values *)
Lemma nat_val_digits s : forall acc, nat_val acc s = digits_val acc s.
Proof. induction s as [|c r IH]; intro acc; [reflexivity|]. cbn [nat_val digits_val]. unfold digit. rewrite IH. reflexivity. Qed.

Lemma nat_val_dec n : nat_val 0 (dec_of_N n) = Some n.
Proof. rewrite nat_val_digits. apply digits_val_dec. Qed.

Lemma int_val_not_minus c r : c <> 45 -> int_val (c :: r) = match nat_val 0 (c :: r) with Some n => Some (Z.of_N n) | None => None end.
Proof.
  intro Hne. unfold int_val. destruct c as [|p]; [reflexivity|].
  do 7 (try (destruct p as [p|p|]; try reflexivity)). congruence.
Qed.
Lemma int_val_minus c r : int_val (45 :: c :: r) = match nat_val 0 (c :: r) with Some n => Some (- Z.of_N n)%Z | None => None end.
Proof. reflexivity. Qed.

Lemma int_val_dec_N n : int_val (dec_of_N n) = Some (Z.of_N n).
Proof.
  pose proof (nat_val_dec n) as D. destruct (dec_of_N_head n) as (c & r & E & Hc). rewrite E in *.
  rewrite int_val_not_minus, D; [reflexivity|]. intros ->. discriminate Hc.
Qed.

(* "a number in the range ...": the decimal text of every integer is read back, whatever its size *)
Lemma int_val_dec_Z z : int_val (dec_of_Z z) = Some z.
Proof.
  destruct z as [|p|p]; cbn [dec_of_Z].
  - reflexivity.
  - apply (int_val_dec_N (Npos p)).
  - pose proof (nat_val_dec (Npos p)) as D. destruct (dec_of_N_head (Npos p)) as (c & r & E & _). rewrite E in *.
    rewrite int_val_minus, D. reflexivity.
Qed.

Lemma flats_leaf_inv inner s : w_string s = flats inner -> inner = [leaf s].
Proof. intro H. apply flats_injective. rewrite <- H. cbn [flats flat_map]. rewrite flat_leaf, app_nil_r. reflexivity. Qed.

Lemma flats_text_inv inner s : [WChars s] = flats inner -> inner = [WText s].
Proof. intro H. apply flats_injective. rewrite <- H. reflexivity. Qed.

Lemma flats_cd_inv inner s : [WCData s] = flats inner -> inner = [WCD s].
Proof. intro H. apply flats_injective. rewrite <- H. reflexivity. Qed.

Lemma flats_nil_inv inner : [] = flats inner -> inner = [].
Proof. intro H. apply flats_injective. rewrite <- H. reflexivity. Qed.

Lemma text_of_cd s : text_of (nodes_in t0 [WCD s]) = s.
Proof.
  unfold nodes_in. cbn [walk step flushn t0 tbuf tiws app fst snd]. rewrite !app_nil_r, text_of_map_NText.
  apply split_cdata_concat.
Qed.

(* the bytes a value is written as base64 of, if it is *)
Definition binary_payload (v : value) : option bytes :=
  match v with
  | VBinaryString b => Some b
  | VTags ts => Some (tags_encode ts)
  | VMaterialColors m => Some (matcol_encode m)
  | VAttributes m => match attr_encode m with Ok buf => Some buf | _ => None end
  | _ => None
  end.

(* the [sval] that describes a value written by [write_xml] under the element name [tag] with content [kids]: the scalar,
   text and binary types are decoded; every other type is left as the raw element *)
Definition sval_of (v : value) (tag : bytes) (kids : list node) : sval :=
  match v with
  | VString s => SString s
  | VBool b => SBool b
  | VInt32 z => SInt z
  | VBrickColor n => SInt (Z.of_N n)
  | VInt64 z => SInt64 z
  | VEnum n => SToken n
  | VBinaryString _ | VTags _ | VMaterialColors _ | VAttributes _ =>
      match binary_payload v with Some b => SBinary b | None => SOther tag kids end
  | _ => SOther tag kids
  end.

Lemma some_ok_inv (a c : bytes) (b d : list wevent) : Some (a, Ok b) = Some (c, Ok d) -> c = a /\ b = d.
Proof. intro H. inversion H. auto. Qed.

Theorem decode_prop_written o v tag inner insts dc :
  write_xml o v = Some (tag, Ok (flats inner)) ->
  (forall b, binary_payload v = Some b -> Forall (fun x => x < 256) b) ->
  decode_prop insts dc tag (nodes_in t0 inner) = sval_of v tag (nodes_in t0 inner).
Proof.
  intros H Hb. destruct v; cbn [write_xml] in H; try discriminate H.
  all: try (match type of H with Some (_, match ?c with _ => _ end) = _ => destruct c eqn:Ec end); try discriminate H.
  all: try (inversion H; subst tag; reflexivity).
  - (* BinaryString *)
    destruct (some_ok_inv _ _ _ _ H) as [Ht Hi]. subst tag. rewrite decode_prop_BinaryString. cbn [sval_of binary_payload]. f_equal.
    destruct b as [|x b].
    + apply flats_nil_inv in Hi. subst inner. reflexivity.
    + apply flats_cd_inv in Hi. subst inner. rewrite text_of_cd. apply spec_base64_encode. apply Hb. reflexivity.
  - (* bool *)
    destruct (some_ok_inv _ _ _ _ H) as [Ht Hi]. subst tag. apply flats_text_inv in Hi. subst inner. rewrite decode_prop_bool.
    destruct b; reflexivity.
  - (* BrickColor *)
    destruct (some_ok_inv _ _ _ _ H) as [Ht Hi]. subst tag. apply flats_leaf_inv in Hi. subst inner. rewrite decode_prop_int, text_of_leaf, int_val_dec_N.
    reflexivity.
  - (* token *)
    destruct (some_ok_inv _ _ _ _ H) as [Ht Hi]. subst tag. apply flats_leaf_inv in Hi. subst inner. rewrite decode_prop_token, text_of_leaf, nat_val_dec.
    reflexivity.
  - (* int *)
    destruct (some_ok_inv _ _ _ _ H) as [Ht Hi]. subst tag. apply flats_leaf_inv in Hi. subst inner. rewrite decode_prop_int, text_of_leaf, int_val_dec_Z.
    reflexivity.
  - (* int64 *)
    destruct (some_ok_inv _ _ _ _ H) as [Ht Hi]. subst tag. apply flats_leaf_inv in Hi. subst inner. rewrite decode_prop_int64, text_of_leaf, int_val_dec_Z.
    reflexivity.
  - (* string *)
    destruct (some_ok_inv _ _ _ _ H) as [Ht Hi]. subst tag. apply flats_leaf_inv in Hi. subst inner. rewrite decode_prop_string, text_of_leaf.
    reflexivity.
  - (* Tags *)
    destruct (some_ok_inv _ _ _ _ H) as [Ht Hi]. subst tag. apply flats_leaf_inv in Hi. subst inner. rewrite decode_prop_BinaryString, text_of_leaf.
    cbn [sval_of binary_payload]. f_equal. apply spec_base64_encode. apply Hb. reflexivity.
  - (* Attributes *)
    cbn [sval_of binary_payload]. cbn [binary_payload] in Hb. rewrite Ec in Hb |- *.
    destruct (some_ok_inv _ _ _ _ H) as [Ht Hi]. subst tag. apply flats_leaf_inv in Hi. subst inner. rewrite decode_prop_BinaryString, text_of_leaf.
    f_equal. apply spec_base64_encode. apply Hb. reflexivity.
  - (* MaterialColors *)
    destruct (some_ok_inv _ _ _ _ H) as [Ht Hi]. subst tag. apply flats_leaf_inv in Hi. subst inner. rewrite decode_prop_BinaryString, text_of_leaf.
    cbn [sval_of binary_payload]. f_equal. apply spec_base64_encode. apply Hb. reflexivity.
  - (* Content *)
    assert (Ht : tag = B "Content") by (destruct c; inversion H; reflexivity). subst tag. reflexivity.
Qed.
Print Assumptions decode_prop_written.

(* ---- Ref and SharedString elements *)
(* the document-order index (from [k]) of the first Item of instance [r] *)
Fixpoint pos_of (r : N) (ids : list N) (k : N) : option N :=
  match ids with [] => None | id :: rest => if id =? r then Some k else pos_of r rest (k + 1) end.

Lemma index_of_pos d m Q pl sis r x :
  map_injective m -> lookup r m = Some x -> Forall2 (inst_rel d m Q) pl sis ->
  forall k, index_of (dec_of_N x) sis k = pos_of r (List.map fst pl) k.
Proof.
  intros Hinj Hx. induction 1 as [|ip si pl sis (i & x' & ons & _ & Hx' & _ & ->) _ IH]; intro k; [reflexivity|].
  cbn [index_of List.map pos_of si_referent]. destruct (N.eqb_spec (fst ip) r) as [E|E].
  - rewrite E in Hx'. assert (x' = x) by congruence. subst x'. rewrite bytes_eqb_refl. reflexivity.
  - rewrite bytes_eqb_neq; [apply IH|]. intro C. apply dec_of_N_inj in C. subst x'. apply E. exact (Hinj _ _ _ Hx' Hx).
Qed.

Lemma ref_text_leaf m r : (r <> 0 -> exists x, lookup r m = Some x) -> WText (ref_text m r) = leaf (ref_text m r).
Proof.
  intro H. unfold ref_text. destruct (N.eqb_spec r 0) as [E|E]; [reflexivity|]. destruct (H E) as (x & ->). now rewrite leaf_dec.
Qed.

(* a Ref element is read as the index of the Item of its target: `null` and targets that are not written give None *)
Lemma decode_prop_ref d m Q pl sis dc r :
  map_injective m -> (r <> 0 -> exists x, lookup r m = Some x) -> Forall2 (inst_rel d m Q) pl sis ->
  decode_prop sis dc (B "Ref") (nodes_in t0 [WText (ref_text m r)]) = SRef (if r =? 0 then None else pos_of r (List.map fst pl) 1).
Proof.
  intros Hinj Hl Hrel. rewrite decode_prop_Ref, (ref_text_leaf m r Hl), text_of_leaf. unfold ref_text.
  destruct (N.eqb_spec r 0) as [E|E]; [reflexivity|]. destruct (Hl E) as (x & Hx). rewrite Hx.
  rewrite bytes_eqb_neq by apply dec_of_N_not_null. f_equal. eapply index_of_pos; eassumption.
Qed.

Lemma attr_in_nodup k v (l : list (bytes * bytes)) : NoDup (List.map fst l) -> In (k, v) l -> attr k l = Some v.
Proof.
  induction l as [|[n u] l IH]; intros Hnd Hin; [contradiction|]. cbn [List.map fst] in Hnd. inversion Hnd as [|? ? Hn Hl]; subst.
  cbn [attr]. destruct Hin as [E|Hin].
  - inversion E; subst. now rewrite bytes_eqb_refl.
  - rewrite bytes_eqb_neq; [now apply IH|]. intros ->. apply Hn. apply in_map_iff. exists (k, v). split; [reflexivity|exact Hin].
Qed.

Definition hash_injective (e : xenv) : Prop := forall c1 c2 h, xe_hash e c1 = Some h -> xe_hash e c2 = Some h -> c1 = c2.

(* a SharedString element is read as the content it was written for *)
Lemma decode_prop_shared e dl sis c h :
  prefix_injective e -> hash_is_bytes e -> hash_dom_bytes e -> hash_injective e ->
  StronglySorted klt dl -> (forall h c, In (h, c) dl -> xe_hash e c = Some h) ->
  xe_hash e c = Some h -> In h (List.map fst dl) ->
  decode_prop sis (dict_out dl) (B "SharedString") (nodes_in t0 [leaf (md5_key h)]) = SShared (Some c).
Proof.
  intros Hpi Hb Hdb Hhi Hs Hh Hc Hin. rewrite decode_prop_SharedString, text_of_leaf. f_equal.
  destruct (in_dict_keys _ _ Hin) as (c' & Hc'). assert (c' = c) by (eapply Hhi; [apply Hh; exact Hc'|exact Hc]). subst c'.
  rewrite (dict_out_bytes e dl Hdb Hh). apply attr_in_nodup.
  - rewrite map_map. cbn [fst]. exact (dictionary_keys_unique e dl Hpi Hb Hs Hh).
  - apply in_map_iff. exists (h, c). split; [reflexivity|exact Hc'].
Qed.

(* ================================================================= (E4) the run once more, keeping the value written *)
Section RunX.
  Variables (e : xenv) (beh : ebehavior) (d : cdom).

  (* [on] is what [serialize_property] emits for the property (k, v), in some state *)
  Definition prop_link (class k : bytes) (v : value) (on : option wnode) : Prop :=
    exists keys st st', serialize_property e beh class keys st k v = Ok (flats (opt_nodes on), st').

  Inductive props_runx (class : bytes) : estate -> list (bytes * value) -> list (option wnode) -> estate -> Prop :=
  | PRx_nil st : props_runx class st [] [] st
  | PRx_cons st k v on st1 r ons st2 :
      prop_step e beh class st k v on st1 -> prop_link class k v on -> props_runx class st1 r ons st2 ->
      props_runx class st ((k, v) :: r) (on :: ons) st2.

  Inductive irunx : estate -> N -> wnode -> list N -> estate -> Prop :=
  | IRunx st id i ons st2 knodes kids st3 :
      find_inst d id = Some i ->
      props_runx (i_class i) (snd (XmlFile.map_id st id)) (bsort (i_props i)) ons st2 ->
      kids_runx st2 (children_of d id) knodes kids st3 ->
      irunx st id (item_node (i_class i) (dec_of_N (fst (XmlFile.map_id st id)))
                             (name_node (i_name i) :: flat_map opt_nodes ons) knodes)
            (id :: kids) st3
  with kids_runx : estate -> list N -> list wnode -> list N -> estate -> Prop :=
  | KRx_nil st : kids_runx st [] [] [] st
  | KRx_cons st c n ids1 st1 r ns ids2 st2 :
      irunx st c n ids1 st1 -> kids_runx st1 r ns ids2 st2 ->
      kids_runx st (c :: r) (n :: ns) (ids1 ++ ids2) st2.

  Scheme irunx_ind2 := Induction for irunx Sort Prop
    with kids_runx_ind2 := Induction for kids_runx Sort Prop.
  Combined Scheme runx_mutind from irunx_ind2, kids_runx_ind2.

  Lemma props_runx_run class st ps ons st' : props_runx class st ps ons st' -> props_run e beh class st ps ons st'.
  Proof. induction 1; econstructor; eassumption. Qed.

  Lemma runx_run :
    (forall st id n ids st', irunx st id n ids st' -> irun e beh d st id n ids st') /\
    (forall st cs ns ids st', kids_runx st cs ns ids st' -> kids_run e beh d st cs ns ids st').
  Proof.
    apply runx_mutind.
    - intros st id i ons st2 knodes kids st3 Hf Hp Hk IHk. apply (IRun e beh d st id i ons st2); [exact Hf|now apply props_runx_run|exact IHk].
    - constructor.
    - intros. econstructor; eassumption.
  Qed.

  Lemma serialize_properties_runx class keys : forall ps st ev st',
    serialize_properties e beh class keys st ps = Ok (ev, st') ->
    exists ons, ev = flats (flat_map opt_nodes ons) /\ props_runx class st ps ons st'.
  Proof.
    unfold serialize_properties. induction ps as [|[k v] ps IH]; intros st ev st' H; cbn [serialize_properties_with] in H.
    - inversion H; subst. exists []. split; [reflexivity|constructor].
    - destruct (serialize_property e beh class keys st k v) as [[ev1 st1]| |c|] eqn:E1; cbn [rbind] in H; try discriminate.
      destruct (serialize_properties_with serialize_property e beh class keys st1 ps) as [[ev2 st2]| |c|] eqn:E2; cbn [rbind] in H; try discriminate.
      inversion H; subst. destruct (serialize_property_cases _ _ _ _ _ _ _ _ _ E1) as (on & -> & Hon).
      destruct (IH _ _ _ E2) as (ons & -> & Hons). exists (on :: ons). split.
      + cbn [flat_map]. unfold flats. now rewrite flat_map_app.
      + econstructor; [exact Hon| |exact Hons]. exists keys, st, st1. exact E1.
  Qed.

  Lemma seq_with_runx (F : estate -> N -> res (list wevent * estate)) (sub : N -> list N) :
    (forall st c ev st', F st c = Ok (ev, st') -> exists n, ev = flat n /\ irunx st c n (sub c) st') ->
    forall cs st ev st', seq_with F cs st = Ok (ev, st') ->
      exists ns, ev = flats ns /\ kids_runx st cs ns (flat_map sub cs) st'.
  Proof.
    intros HF cs. induction cs as [|c r IH]; intros st ev st' H; cbn [seq_with] in H.
    - inversion H; subst. exists []. split; [reflexivity|constructor].
    - destruct (F st c) as [[e1 s1]| |k|] eqn:E1; cbn [rbind] in H; try discriminate.
      fold (seq_with F) in H. destruct (seq_with F r s1) as [[e2 s2]| |k|] eqn:E2; cbn [rbind] in H; try discriminate.
      inversion H; subst. destruct (HF _ _ _ _ E1) as (n & -> & Hn). destruct (IH _ _ _ E2) as (ns & -> & Hns).
      exists (n :: ns). split; [reflexivity|]. cbn [flat_map]. econstructor; eassumption.
  Qed.

  Lemma serialize_instance_runx f : forall st id ev st',
    serialize_instance f e beh d st id = Ok (ev, st') -> exists n, ev = flat n /\ irunx st id n (subtree d f id) st'.
  Proof.
    unfold serialize_instance. induction f as [|f IH]; intros st id ev st' H; [discriminate|].
    rewrite serialize_instance_with_S in H. destruct (find_inst d id) as [i|] eqn:Ef; [|discriminate].
    destruct (XmlFile.map_id st id) as [mapped st0] eqn:Em. rewrite write_name in H. cbn [rbind] in H. cbv zeta in H.
    destruct (serialize_properties_with serialize_property e beh (i_class i) (List.map fst (bsort (i_props i))) st0 (bsort (i_props i)))
      as [[pev st2]| |c|] eqn:Ep; cbn [rbind] in H; try discriminate.
    destruct (seq_with (serialize_instance_with serialize_property f e beh d) (children_of d id) st2) as [[cev st3]| |c|] eqn:Ec;
      cbn [rbind] in H; try discriminate.
    destruct (serialize_properties_runx _ _ _ _ _ _ Ep) as (ons & -> & Hons).
    destruct (seq_with_runx _ (subtree d f) IH _ _ _ _ Ec) as (ns & -> & Hns).
    match type of H with Ok (?a, ?b) = Ok (?c, ?d) => assert (Ha : c = a) by congruence; assert (Hb : d = b) by congruence end.
    clear H. subst ev st'.
    exists (item_node (i_class i) (dec_of_N mapped) (name_node (i_name i) :: flat_map opt_nodes ons) ns). split.
    - rewrite flat_item_node. reflexivity.
    - cbn [subtree]. replace mapped with (fst (XmlFile.map_id st id)) by now rewrite Em.
      apply (IRunx st id i ons st2); [exact Ef| rewrite Em; exact Hons|exact Hns].
  Qed.

  (* the property relation of the enriched document: the final-state description of XmlStructure and the link *)
  Definition propx (m : list (N * N)) (dl : list (bytes * bytes)) (class k : bytes) (v : value) (on : option wnode) : Prop :=
    prop_spec e beh m dl class k v on /\ prop_link class k v on.

  Lemma props_runx_spec class st ps ons st2 stF :
    props_runx class st ps ons st2 -> st_le st2 stF ->
    Forall2 (fun kv on => propx (es_map stF) (es_shared stF) class (fst kv) (snd kv) on) ps ons.
  Proof.
    induction 1 as [|st k v on st1 r ons st2 H1 HL H2 IH]; intro L; [constructor|].
    constructor; [|now apply IH]. cbn [fst snd]. split; [|exact HL]. eapply prop_step_spec; [exact H1|].
    eapply st_le_trans; [apply (props_run_ext _ _ _ _ _ _ _ (props_runx_run _ _ _ _ _ H2))|exact L].
  Qed.

  Lemma runx_spec :
    (forall st id n ids st', irunx st id n ids st' ->
       forall stF, st_le st' stF -> ispec d (es_map stF) (propx (es_map stF) (es_shared stF)) id n ids) /\
    (forall st cs ns ids st', kids_runx st cs ns ids st' ->
       forall stF, st_le st' stF -> isspec d (es_map stF) (propx (es_map stF) (es_shared stF)) cs ns ids).
  Proof.
    apply runx_mutind.
    - intros st id i ons st2 knodes kids st3 Hf Hp Hk IHk stF L.
      pose proof (proj1 (proj2 (run_ext e beh d) _ _ _ _ _ (proj2 runx_run _ _ _ _ _ Hk))) as L23.
      pose proof (proj1 (props_run_ext _ _ _ _ _ _ _ (props_runx_run _ _ _ _ _ Hp))) as L02.
      assert (L2F : st_le st2 stF) by (eapply st_le_trans; eassumption).
      apply IS; [exact Hf| |eapply props_runx_spec; eassumption|now apply IHk].
      apply (proj1 L), (proj1 L23), (proj1 L02), lookup_map_id.
    - intros st stF _. constructor.
    - intros st c n ids1 st1 r ns ids2 st2 H1 IH1 H2 IH2 stF L. constructor; [|now apply IH2].
      apply IH1. eapply st_le_trans; [apply (proj1 (proj2 (run_ext e beh d) _ _ _ _ _ (proj2 runx_run _ _ _ _ _ H2)))|exact L].
  Qed.
End RunX.

(* the master statement of XmlStructure with the link kept *)
Theorem xml_encode_documentx e beh d roots evs :
  xml_encode e beh d roots = Ok evs ->
  exists m dl items,
    tree_of_wevents evs = Some [doc_node items (dict_nodes dl)] /\
    isspec d m (propx e beh m dl) roots items (written d roots) /\
    map_injective m /\ StronglySorted klt dl /\ (forall h c, In (h, c) dl -> xe_hash e c = Some h).
Proof.
  unfold xml_encode. rewrite xml_encode_with_eq.
  destruct (seq_with (serialize_instance_with serialize_property (S (List.length d)) e beh d) roots es0) as [[body stF]| |c|] eqn:E;
    cbn [rbind]; try discriminate.
  intro H. inversion H; subst; clear H.
  destruct (seq_with_runx e beh d _ (subtree d (S (List.length d))) (serialize_instance_runx e beh d (S (List.length d))) _ _ _ _ E)
    as (items & -> & Hrun).
  pose proof (proj2 (runx_run e beh d) _ _ _ _ _ Hrun) as Hrun0.
  destruct (proj2 (proj2 (run_ext e beh d) _ _ _ _ _ Hrun0) (st_ok_es0 e)) as (_ & Hinj & Hd).
  exists (es_map stF), (es_shared stF), items. split; [|split; [|split; [|split]]].
  - apply tree_of_wevents_iff. rewrite flats_dict. unfold doc_node. cbn [flats flat_map]. rewrite flat_node, flats_app, app_nil_r, <- app_assoc.
    reflexivity.
  - apply (proj2 (runx_spec e beh d) _ _ _ _ _ Hrun). apply st_le_refl.
  - exact Hinj.
  - exact (xml_encode_dictionary_sorted e beh d roots _ _ E).
  - exact Hd.
Qed.

(* ---- what the link says: the name the element is written under and the value written *)
(* [w] is the value written for the property (k, v) and [pn] the name it is written under: the property itself when the
   database has nothing to say; else the value converted to the type of the serialized form, under that form's name, or,
   for a migrated property, the migrated value under the new name *)
Definition conv_rel (e : xenv) (beh : ebehavior) (class k : bytes) (v : value) (pn : bytes) (w : value) : Prop :=
  (desc_lookup e beh class k = Ok None /\ pn = k /\ w = v) \/
  (exists canon ser conv, desc_lookup e beh class k = Ok (Some (canon, ser)) /\
     try_convert (xe_o e) v (dtype_vt (pd_type ser)) = Ok conv /\
     ((pn = bytes_of_string (pd_name ser) /\ w = conv) \/
      (exists to op, pd_kind ser = KCanon (PMigrate to op) /\ pn = bytes_of_string to /\
                     migrate (xe_font e) (xe_brick e) op conv = Some w))).

Lemma conv_rel_special e beh class k v pn w : conv_rel e beh class k v pn w ->
  (forall r, w = VRef r <-> v = VRef r) /\ (forall c, w = VSharedString c <-> v = VSharedString c).
Proof.
  intros [(_ & _ & ->)|(canon & ser & conv & _ & Hc & [(_ & ->)|(to & op & _ & _ & Hm)])]; [split; tauto| |].
  - exact (try_convert_special _ _ _ _ Hc).
  - destruct (try_convert_special _ _ _ _ Hc) as [Cr Cs]. destruct (migrate_special _ _ _ _ _ Hm) as [Mr Ms]. split.
    + intro r. split; [intro E; destruct (Mr r E)|]. intro E. apply Cr in E. subst conv. destruct op; discriminate Hm.
    + intro c. split; [intro E; destruct (Ms c E)|]. intro E. apply Cs in E. subst conv. destruct op; discriminate Hm.
Qed.

Lemma flat_not_nil p : flat p <> [].
Proof. destruct p; discriminate. Qed.

Lemma prop_link_cases e beh class k v p : prop_link e beh class k v (Some p) ->
  exists pn w st st', conv_rel e beh class k v pn w /\ write_value_xml e st pn w = Ok (flat p, st').
Proof.
  intros (keys & st & st' & H). cbn [opt_nodes flats flat_map] in H. rewrite app_nil_r in H.
  unfold serialize_property in H. fold (desc_lookup e beh class k) in H.
  destruct (desc_lookup e beh class k) as [[[canon ser]|]| |c|] eqn:Ed; cbn [rbind] in H; try discriminate.
  - destruct (try_convert (xe_o e) v (dtype_vt (pd_type ser))) as [conv| |c|] eqn:Ec; cbn [rbind] in H; try discriminate.
    2:{ destruct (c =? DE_CONVERT); discriminate. }
    assert (W : write_value_xml e st (bytes_of_string (pd_name ser)) conv = Ok (flat p, st') ->
                exists pn w st st', conv_rel e beh class k v pn w /\ write_value_xml e st pn w = Ok (flat p, st')).
    { intro H'. exists (bytes_of_string (pd_name ser)), conv, st, st'. split; [|exact H'].
      right. exists canon, ser, conv. split; [exact Ed|split; [exact Ec|left; split; reflexivity]]. }
    destruct (pd_kind ser) as [[| | |to op]|] eqn:Ek; try (exact (W H)).
    destruct (has_explicit_new_value e class k to keys) as [[|]| |c|]; cbn [rbind] in H; try discriminate.
    + inversion H as [[H1 H2]]. symmetry in H1. destruct (flat_not_nil p H1).
    + destruct (migrate (xe_font e) (xe_brick e) op conv) as [nv|] eqn:Em; [|exact (W H)].
      exists (bytes_of_string to), nv, st, st'. split; [|exact H].
      right. exists canon, ser, conv. split; [exact Ed|split; [exact Ec|right; exists to, op; auto]].
  - assert (W : write_value_xml e st k v = Ok (flat p, st') ->
                exists pn w st st', conv_rel e beh class k v pn w /\ write_value_xml e st pn w = Ok (flat p, st')).
    { intro H'. exists k, v, st, st'. split; [left; auto|exact H']. }
    destruct beh; try (exact (W H)); try discriminate.
    inversion H as [[H1 H2]]. symmetry in H1. destruct (flat_not_nil p H1).
Qed.

(* when nothing is written for a property: it is unknown and the behaviour is IgnoreUnknown, or it is a migrated legacy
   property and the instance carries the new property itself *)
Definition skip_rel (e : xenv) (beh : ebehavior) (class k : bytes) : Prop :=
  (desc_lookup e beh class k = Ok None /\ beh = EIgnoreUnknown) \/
  (exists canon ser to op keys, desc_lookup e beh class k = Ok (Some (canon, ser)) /\ pd_kind ser = KCanon (PMigrate to op) /\
                                has_explicit_new_value e class k to keys = Ok true).

Lemma write_value_xml_not_nil e st pn w st' : write_value_xml e st pn w <> Ok ([], st').
Proof. intro H. destruct (write_value_xml_cases _ _ _ _ _ _ H) as (n & E & _). exact (flat_not_nil n (eq_sym E)). Qed.

Lemma prop_link_none e beh class k v : prop_link e beh class k v None -> skip_rel e beh class k.
Proof.
  intros (keys & st & st' & H). cbn [opt_nodes flats flat_map] in H.
  unfold serialize_property in H. fold (desc_lookup e beh class k) in H.
  destruct (desc_lookup e beh class k) as [[[canon ser]|]| |c|] eqn:Ed; cbn [rbind] in H; try discriminate.
  - destruct (try_convert (xe_o e) v (dtype_vt (pd_type ser))) as [conv| |c|] eqn:Ec; cbn [rbind] in H; try discriminate.
    2:{ destruct (c =? DE_CONVERT); discriminate. }
    destruct (pd_kind ser) as [[| | |to op]|] eqn:Ek; try (destruct (write_value_xml_not_nil _ _ _ _ _ H)).
    destruct (has_explicit_new_value e class k to keys) as [[|]| |c|] eqn:Eh; cbn [rbind] in H; try discriminate.
    + right. exists canon, ser, to, op, keys. auto.
    + destruct (migrate (xe_font e) (xe_brick e) op conv); destruct (write_value_xml_not_nil _ _ _ _ _ H).
  - destruct beh; try (destruct (write_value_xml_not_nil _ _ _ _ _ H)); try discriminate. left. auto.
Qed.

Lemma conv_rel_noreflection e class k v pn w : conv_rel e ENoReflection class k v pn w -> pn = k /\ w = v.
Proof. intros [(_ & -> & ->)|(canon & ser & conv & Hd & _)]; [auto|discriminate Hd]. Qed.

Lemma skip_rel_noreflection e class k : ~ skip_rel e ENoReflection class k.
Proof. intros [(_ & C)|(canon & ser & to & op & keys & Hd & _)]; discriminate. Qed.

Lemma flat_inj n n' : flat n = flat n' -> n = n'.
Proof.
  intro H. assert (E : [n] = [n']) by (apply flats_injective; cbn [flats flat_map]; now rewrite H). now inversion E.
Qed.

Lemma write_value_xml_name e st pn w tag pn' inner st' :
  write_value_xml e st pn w = Ok (flat (WNode tag (name_attr pn') inner), st') -> pn' = pn.
Proof.
  intro H. destruct (write_value_xml_cases _ _ _ _ _ _ H) as (n & E & Hn). apply flat_inj in E. subst n.
  inversion Hn; subst; reflexivity.
Qed.

Lemma write_value_xml_other e st pn w tag inner st' :
  (forall r, w <> VRef r) -> (forall c, w <> VSharedString c) ->
  write_value_xml e st pn w = Ok (flat (WNode tag (name_attr pn) inner), st') ->
  write_xml (xe_o e) w = Some (tag, Ok (flats inner)).
Proof.
  intros N1 N2. rewrite flat_node.
  assert (G : match write_xml (xe_o e) w with
              | Some (tag0, r) => evs <- r ;; Ok (WStart tag0 (name_attr pn) :: evs ++ [WEnd], st)
              | None => Err EE_TYPE
              end = Ok (WStart tag (name_attr pn) :: flats inner ++ [WEnd], st') ->
              write_xml (xe_o e) w = Some (tag, Ok (flats inner))).
  { destruct (write_xml (xe_o e) w) as [[tag0 rr]|]; [|discriminate]. destruct rr as [evs| |c|]; cbn [rbind]; try discriminate.
    intro H. inversion H as [[Ht Hi Hs]]. apply app_inv_tail in Hi. subst. reflexivity. }
  destruct w; try exact G.
  - destruct (N1 r eq_refl).
  - destruct (N2 b eq_refl).
Qed.

(* the [sval] that describes a written value: Refs as the index of the target's Item, shared strings as their content *)
Definition sval_full (ids : list N) (w : value) (tag : bytes) (kids : list node) : sval :=
  match w with
  | VRef r => SRef (if r =? 0 then None else pos_of r ids 1)
  | VSharedString c => SShared (Some c)
  | _ => sval_of w tag kids
  end.

Definition payload_ok (w : value) : Prop := forall b, binary_payload w = Some b -> Forall (fun x => x < 256) b.

(* the element [on] written for the property [kv] of an instance of class [class] is read back as the value written *)
Definition prop_agree (e : xenv) (beh : ebehavior) (ids : list N) (sis : list sinst) (dc : list (bytes * bytes))
  (class : bytes) (kv : bytes * value) (on : option wnode) : Prop :=
  (on = None -> skip_rel e beh class (fst kv)) /\
  forall p, on = Some p ->
    exists pn w tag inner, p = WNode tag (name_attr pn) inner /\ conv_rel e beh class (fst kv) (snd kv) pn w /\
      (payload_ok w -> decode_prop sis dc tag (nodes_in t0 inner) = sval_full ids w tag (nodes_in t0 inner)).

(* instance by instance: class, parent index, name, and every property element *)
Definition inst_agree (e : xenv) (beh : ebehavior) (d : cdom) (ids : list N) (f : sfile) (ip : N * N) (si : sinst) : Prop :=
  exists i ons,
    find_inst d (fst ip) = Some i /\ si_class si = i_class i /\ si_parent si = snd ip /\ si_name si = Some (i_name i) /\
    si_referent si <> sb "null" /\
    si_props si = (B "Name", B "string", nodes_in t0 [leaf (i_name i)]) :: flat_map ptriple (flat_map opt_nodes ons) /\
    Forall2 (prop_agree e beh ids (sf_insts f) (sf_dict f) (i_class i)) (bsort (i_props i)) ons.

Section Agree.
  Variables (e : xenv) (beh : ebehavior) (d : cdom) (m : list (N * N)) (dl : list (bytes * bytes)).
  Hypotheses (Hpi : prefix_injective e) (Hb : hash_is_bytes e) (Hdb : hash_dom_bytes e) (Hhi : hash_injective e).
  Hypotheses (Hinj : map_injective m) (Hsort : StronglySorted klt dl) (Hh : forall h c, In (h, c) dl -> xe_hash e c = Some h).
  Variables (pl : list (N * N)) (sis : list sinst).
  Hypothesis Hrel : Forall2 (inst_rel d m (propx e beh m dl)) pl sis.

  Lemma propx_agree class kv on :
    propx e beh m dl class (fst kv) (snd kv) on -> prop_agree e beh (List.map fst pl) sis (dict_out dl) class kv on.
  Proof.
    intros [Hs Hl]. split; [intros ->; eapply prop_link_none; exact Hl|]. intros p ->. destruct (prop_link_cases _ _ _ _ _ _ Hl) as (pn & w & st & st' & Hc & Hw).
    destruct (conv_rel_special _ _ _ _ _ _ _ Hc) as [Cr Cs].
    destruct (prop_spec_cases _ _ _ _ _ _ _ _ Hs) as [(r & pn' & Hv & Hlk & ->)|[(c & h & pn' & Hv & Hc' & Hin & ->)|(tag & pn' & inner & N1 & N2 & _ & _ & ->)]];
      pose proof (write_value_xml_name _ _ _ _ _ _ _ _ Hw) as En; subst pn'.
    - exists pn, w, (B "Ref"), [WText (ref_text m r)]. split; [reflexivity|]. split; [exact Hc|]. intros _.
      apply Cr in Hv. subst w. cbn [sval_full]. eapply decode_prop_ref; eassumption.
    - exists pn, w, (B "SharedString"), [leaf (md5_key h)]. split; [reflexivity|]. split; [exact Hc|]. intros _.
      apply Cs in Hv. subst w. cbn [sval_full]. eapply decode_prop_shared; eassumption.
    - exists pn, w, tag, inner. split; [reflexivity|]. split; [exact Hc|]. intro Hp.
      assert (N1' : forall r, w <> VRef r) by (intros r E; apply Cr in E; exact (N1 r E)).
      assert (N2' : forall c, w <> VSharedString c) by (intros c E; apply Cs in E; exact (N2 c E)).
      pose proof (write_value_xml_other _ _ _ _ _ _ _ N1' N2' Hw) as Hx.
      rewrite (decode_prop_written _ _ _ _ sis (dict_out dl) Hx Hp). destruct w; try reflexivity.
      + destruct (N1' r eq_refl).
      + destruct (N2' b eq_refl).
  Qed.

  Lemma inst_rel_agree ip si :
    inst_rel d m (propx e beh m dl) ip si -> inst_agree e beh d (List.map fst pl) (mkSF sis (dict_out dl)) ip si.
  Proof.
    intros (i & x & ons & Hf & Hx & Hp & ->). exists i, ons. cbn [si_class si_parent si_referent si_props sf_insts sf_dict].
    split; [exact Hf|]. split; [reflexivity|]. split; [reflexivity|]. split; [|split; [apply dec_of_N_not_null|split; [reflexivity|]]].
    - unfold si_name. cbn [si_props flat_map ptriple name_node name_attr attr].
      replace (bytes_eqb (B "name") (sb "name")) with true by reflexivity. cbn [app filter fst snd].
      replace (bytes_eqb (B "Name") (sb "Name")) with true by reflexivity.
      replace (bytes_eqb (B "string") (sb "string")) with true by reflexivity. cbn [orb]. now rewrite text_of_leaf.
    - eapply Forall2_imp; [|exact Hp]. intros kv on. apply propx_agree.
  Qed.
End Agree.

Lemma propx_named e beh m dl class k v p : propx e beh m dl class k v (Some p) -> is_named p.
Proof. intros [H _]. eapply prop_spec_named; exact H. Qed.

(* (E4) the DOM the spec decoder reads is the DOM that was written: the instances in document order with class, parent
   and name, and every property element read back as the value written under the name it was written for *)
Theorem xml_encode_spec_agree e beh d roots evs revs doc :
  xml_encode e beh d roots = Ok evs -> channel evs = Ok revs -> tree_of_events revs = Some doc ->
  NoDup (written d roots) -> prefix_injective e -> hash_is_bytes e -> hash_dom_bytes e -> hash_injective e ->
  exists f pl,
    xspec_decode doc = Ok f /\ refs_resolved f = true /\
    idxs_spec d 0 1 roots pl /\ List.map fst pl = written d roots /\
    Forall2 (inst_agree e beh d (written d roots) f) pl (sf_insts f).
Proof.
  intros He Hc Ht Hnd Hpi Hb Hdb Hhi.
  destruct (xml_encode_documentx _ _ _ _ _ He) as (m & dl & items & Hw & Hs & Hinj & Hsort & Hh).
  pose proof (tree_of_channel_wevents _ _ _ Hw Hc) as Ht'. rewrite Ht in Ht'. inversion Ht' as [Hdoc]. clear Ht'.
  destruct (xspec_decode_document d m (propx e beh m dl) (propx_named e beh m dl) roots items _ dl Hs Hnd Hinj
              (dictionary_keys_unique e dl Hpi Hb Hsort Hh)) as (pl & sis & Hidx & Hfst & Hrel & Hdec).
  exists (mkSF sis (dict_out dl)), pl. split; [exact Hdec|]. split; [|split; [exact Hidx|split; [exact Hfst|]]].
  - unfold refs_resolved. cbn [sf_insts sf_dict]. apply (insts_resolved e beh d m dl pl sis sis).
    eapply Forall2_imp; [|exact Hrel]. intros ip si (i & x & ons & Hf & Hx & Hp & E). exists i, x, ons. repeat split; try assumption.
    eapply Forall2_imp; [|exact Hp]. intros kv on [H _]. exact H.
  - cbn [sf_insts]. rewrite <- Hfst. eapply Forall2_imp; [|exact Hrel]. intros ip si H.
    eapply inst_rel_agree; eassumption.
Qed.
Print Assumptions xml_encode_spec_agree.

(* without reflection nothing is skipped, renamed or converted: every property is an element under its own key that is read
   back as its own value *)
Corollary prop_agree_noreflection e ids sis dc class kv on :
  prop_agree e ENoReflection ids sis dc class kv on ->
  exists tag inner, on = Some (WNode tag (name_attr (fst kv)) inner) /\
    (payload_ok (snd kv) -> decode_prop sis dc tag (nodes_in t0 inner) = sval_full ids (snd kv) tag (nodes_in t0 inner)).
Proof.
  intros [Hnone Hsome]. destruct on as [p|].
  - destruct (Hsome p eq_refl) as (pn & w & tag & inner & -> & Hc & Hd). apply conv_rel_noreflection in Hc. destruct Hc as [-> ->].
    exists tag, inner. split; [reflexivity|exact Hd].
  - destruct (skip_rel_noreflection _ _ _ (Hnone eq_refl)).
Qed.

(* ================================================================= what the indices mean *)
Lemma pos_of_some r ids : forall k j, pos_of r ids k = Some j -> k <= j /\ nth_error ids (N.to_nat (j - k)) = Some r.
Proof.
  induction ids as [|id ids IH]; intros k j H; [discriminate|]. cbn [pos_of] in H. destruct (N.eqb_spec id r) as [E|E].
  - inversion H; subst. rewrite N.sub_diag. split; [lia|reflexivity].
  - destruct (IH _ _ H) as [Hle Hn]. split; [lia|]. replace (N.to_nat (j - k)) with (S (N.to_nat (j - (k + 1)))) by lia. exact Hn.
Qed.

Lemma pos_of_none r ids : forall k, pos_of r ids k = None <-> ~ In r ids.
Proof.
  induction ids as [|id ids IH]; intro k; cbn [pos_of In]; [tauto|]. destruct (N.eqb_spec id r) as [E|E].
  - split; [discriminate|]. intro H. exfalso. apply H. now left.
  - rewrite IH. tauto.
Qed.

Scheme idx_spec_ind2 := Minimality for idx_spec Sort Prop
  with idxs_spec_ind2 := Minimality for idxs_spec Sort Prop.
Combined Scheme idx_spec_mutind from idx_spec_ind2, idxs_spec_ind2.

(* in [idx_spec]/[idxs_spec] every entry is an instance of the forest paired with 0 resp. the context's parent index, or a
   child of an earlier entry paired with that entry's index *)
Lemma idx_spec_parent d :
  (forall parent next id pl, idx_spec d parent next id pl ->
     forall j c p, nth_error pl j = Some (c, p) ->
       (j = O /\ c = id /\ p = parent) \/
       (exists j' pid q, (j' < j)%nat /\ nth_error pl j' = Some (pid, q) /\ In c (children_of d pid) /\ p = next + N.of_nat j')) /\
  (forall parent next cs pl, idxs_spec d parent next cs pl ->
     forall j c p, nth_error pl j = Some (c, p) ->
       (In c cs /\ p = parent) \/
       (exists j' pid q, (j' < j)%nat /\ nth_error pl j' = Some (pid, q) /\ In c (children_of d pid) /\ p = next + N.of_nat j')).
Proof.
  apply (idx_spec_mutind d
    (fun parent next id pl => forall j c p, nth_error pl j = Some (c, p) ->
       (j = O /\ c = id /\ p = parent) \/
       (exists j' pid q, (j' < j)%nat /\ nth_error pl j' = Some (pid, q) /\ In c (children_of d pid) /\ p = next + N.of_nat j'))
    (fun parent next cs pl => forall j c p, nth_error pl j = Some (c, p) ->
       (In c cs /\ p = parent) \/
       (exists j' pid q, (j' < j)%nat /\ nth_error pl j' = Some (pid, q) /\ In c (children_of d pid) /\ p = next + N.of_nat j'))).
  - intros parent next id kids _ IH j c p Hn. destruct j as [|j]; [inversion Hn; subst; left; auto|]. right.
    cbn [nth_error] in Hn. destruct (IH _ _ _ Hn) as [[Hin ->]|(j' & pid & q & Hlt & Hj' & Hin & ->)].
    + exists O, id, parent. split; [lia|]. split; [reflexivity|]. split; [exact Hin|]. cbn [N.of_nat]. lia.
    + exists (S j'), pid, q. split; [lia|]. split; [exact Hj'|]. split; [exact Hin|]. lia.
  - intros parent next j c p Hn. destruct j; discriminate.
  - intros parent next c0 r l1 l2 _ IH1 _ IH2 j c p Hn.
    destruct (Nat.lt_ge_cases j (length l1)) as [Hlt|Hge].
    + rewrite nth_error_app1 in Hn by exact Hlt. destruct (IH1 _ _ _ Hn) as [(-> & -> & ->)|(j' & pid & q & Hl & Hj' & Hin & ->)].
      * left. split; [now left|reflexivity].
      * right. exists j', pid, q. split; [exact Hl|]. split; [|auto]. rewrite nth_error_app1 by lia. exact Hj'.
    + rewrite nth_error_app2 in Hn by exact Hge. destruct (IH2 _ _ _ Hn) as [[Hin ->]|(j' & pid & q & Hl & Hj' & Hin & ->)].
      * left. split; [now right|reflexivity].
      * right. exists (length l1 + j')%nat, pid, q. split; [lia|]. split; [|split; [exact Hin|lia]].
        rewrite nth_error_app2 by lia. replace (length l1 + j' - length l1)%nat with j' by lia. exact Hj'.
Qed.

(* for the document: roots are paired with 0, every other instance with the (1-based) index of an earlier entry of which it
   is a child *)
Corollary idxs_spec_document d roots pl : idxs_spec d 0 1 roots pl ->
  forall j c p, nth_error pl j = Some (c, p) ->
    (In c roots /\ p = 0) \/
    (exists j' pid q, (j' < j)%nat /\ nth_error pl j' = Some (pid, q) /\ In c (children_of d pid) /\ p = N.of_nat (S j')).
Proof.
  intros H j c p Hn. destruct (proj2 (idx_spec_parent d) _ _ _ _ H _ _ _ Hn) as [?|(j' & pid & q & Hl & Hj' & Hin & ->)]; [now left|].
  right. exists j', pid, q. repeat split; try assumption. lia.
Qed.


(* ================================================================= non-vacuity *)
(* (E1) character events are coalesced, whitespace-only runs between markup are dropped, a CDATA section containing `]]>`
   comes back as two text nodes, whitespace after a CDATA section with content is kept *)
Definition ts_ex : list wnode :=
  [WNode (B "a") [(B "k", B "v")]
     [WText (B " "); WText (B "x"); WCD (B "  y]]>z"); WText (B "  "); WNode (B "b") [] [WText [32; 10]]; WText (B " ")]].

Example tree_of_channel_flats_ex :
  exists revs, channel (flats ts_ex) = Ok revs /\ tree_of_events revs = Some (nodes_of ts_ex) /\
    nodes_of ts_ex = [NElem (B "a") [(B "k", B "v")] [NText (B " x"); NText (B "  y]]"); NText (B ">z"); NText (B "  "); NElem (B "b") [] []]].
Proof. eexists. split; [vm_compute; reflexivity|]. split; vm_compute; reflexivity. Qed.

(* (E2)-(E4): two roots, a nested child, a forward Ref (1 -> 3, written `1` before the Item with referent 1), a backward
   one, a null one, a dangling one, a shared string, a name with leading blanks and `]]>` *)
Definition d_agree : cdom :=
  [mkInst 1 0 (B "Folder") (B "  a]]>b")
     [(B "Target", VRef 3); (B "Blob", VSharedString (B "xyz")); (B "Count", VInt32 (-7)); (B "On", VBool true)];
   mkInst 2 1 (B "Model") (B "m") [(B "Back", VRef 1); (B "Data", VBinaryString [1; 2; 3; 250]); (B "Gone", VRef 99)];
   mkInst 3 0 (B "Part") (B "p")
     [(B "E", VEnum 5); (B "None", VRef 0); (B "F", VFloat32 F32_INF); (B "Big", VInt64 (-9223372036854775808))]].

Example e_ex_hash_ok : prefix_injective e_ex /\ hash_is_bytes e_ex /\ hash_dom_bytes e_ex /\ hash_injective e_ex.
Proof.
  destruct e_ex_keys_unique as [H1 H2]. split; [exact H1|]. split; [exact H2|]. split.
  - intros c h. cbn [xe_hash e_ex]. destruct (bytes_eqb c (B "xyz")) eqn:E1; [|destruct (bytes_eqb c (B "abc")) eqn:E2; [|discriminate]];
      intros _; [apply beqb_true_iff in E1|apply beqb_true_iff in E2]; subst c; repeat constructor.
  - intros c1 c2 h. cbn [xe_hash e_ex].
    destruct (bytes_eqb c1 (B "xyz")) eqn:A1; [|destruct (bytes_eqb c1 (B "abc")) eqn:A2; [|discriminate]];
      (destruct (bytes_eqb c2 (B "xyz")) eqn:B1; [|destruct (bytes_eqb c2 (B "abc")) eqn:B2; [|intros _ C; discriminate C]]);
      intros X Y; inversion X; subst h; try (vm_compute in Y; discriminate Y);
      repeat match goal with H : bytes_eqb _ _ = true |- _ => apply beqb_true_iff in H end; congruence.
Qed.

Example spec_agree_computed :
  written d_agree [1; 3] = [1; 2; 3] /\ NoDup (written d_agree [1; 3]) /\
  exists f,
    (evs <- xml_encode e_ex EWriteUnknown d_agree [1; 3] ;; spec_read evs) = Ok f /\
    List.map si_class (sf_insts f) = [B "Folder"; B "Model"; B "Part"] /\
    List.map si_referent (sf_insts f) = [B "0"; B "2"; B "1"] /\
    List.map si_parent (sf_insts f) = [0; 1; 0] /\
    List.map si_name (sf_insts f) = [Some (B "  a]]>b"); Some (B "m"); Some (B "p")] /\
    List.map (fun i => List.map (fun p => (fst (fst p), decode_prop (sf_insts f) (sf_dict f) (snd (fst p)) (snd p))) (tl (si_props i)))
             (sf_insts f) =
      [[(B "Blob", SShared (Some (B "xyz"))); (B "Count", SInt (-7)); (B "On", SBool true); (B "Target", SRef (Some 3))];
       [(B "Back", SRef (Some 1)); (B "Data", SBinary [1; 2; 3; 250]); (B "Gone", SRef None)];
       [(B "Big", SInt64 (-9223372036854775808)); (B "E", SToken 5); (B "F", SOther (B "float") [NText (B "INF")]); (B "None", SRef None)]] /\
    sf_dict f = [(B "BwcHBwcHBwcHBwcHBwcHBw==", B "xyz")] /\ refs_resolved f = true.
Proof.
  split; [reflexivity|]. split; [vm_compute; repeat constructor; cbn; intuition discriminate|].
  eexists. split; [vm_compute; reflexivity|].
  split; [vm_compute; reflexivity|]. split; [vm_compute; reflexivity|]. split; [vm_compute; reflexivity|].
  split; [vm_compute; reflexivity|]. split; [vm_compute; reflexivity|]. split; vm_compute; reflexivity.
Qed.

(* the hypotheses of (E2) and (E4) hold of this input, so their conclusions do *)
Example spec_agree_instance :
  exists evs revs doc f pl,
    xml_encode e_ex EWriteUnknown d_agree [1; 3] = Ok evs /\ channel evs = Ok revs /\ tree_of_events revs = Some doc /\
    xspec_decode doc = Ok f /\ refs_resolved f = true /\
    idxs_spec d_agree 0 1 [1; 3] pl /\ List.map fst pl = written d_agree [1; 3] /\
    Forall2 (inst_agree e_ex EWriteUnknown d_agree (written d_agree [1; 3]) f) pl (sf_insts f).
Proof.
  destruct e_ex_hash_ok as (H1 & H2 & H3 & H4).
  assert (X : exists evs revs, xml_encode e_ex EWriteUnknown d_agree [1; 3] = Ok evs /\ channel evs = Ok revs)
    by (eexists; eexists; split; vm_compute; reflexivity).
  destruct X as (evs & revs & E & Ec).
  pose proof (xml_encode_document _ _ _ _ _ E) as (m & dl & items & Hw & _).
  pose proof (tree_of_channel_wevents _ _ _ Hw Ec) as Ht.
  assert (Hnd : NoDup (written d_agree [1; 3])) by (vm_compute; repeat constructor; cbn; intuition discriminate).
  destruct (xml_encode_spec_agree _ _ _ _ _ _ _ E Ec Ht Hnd H1 H2 H3 H4) as (f & pl & A1 & A2 & A3 & A4 & A5).
  exists evs, revs, (nodes_of [doc_node items (dict_nodes dl)]), f, pl. repeat split; assumption.
Qed.

(* (E3) the elements of single values *)
Example decode_prop_written_ex :
  write_xml o0 (VInt64 (-12)) = Some (B "int64", Ok (flats [WText (B "-12")])) /\
  decode_prop [] [] (B "int64") (nodes_in t0 [WText (B "-12")]) = SInt64 (-12) /\
  write_xml o0 (VString (B " a ")) = Some (B "string", Ok (flats [WCD (B " a ")])) /\
  decode_prop [] [] (B "string") (nodes_in t0 [WCD (B " a ")]) = SString (B " a ") /\
  write_xml o0 (VBinaryString [0; 255; 16]) = Some (B "BinaryString", Ok (flats [WCD (B "AP8Q")])) /\
  decode_prop [] [] (B "BinaryString") (nodes_in t0 [WCD (B "AP8Q")]) = SBinary [0; 255; 16] /\
  payload_ok (VBinaryString [0; 255; 16]).
Proof.
  repeat split; try (vm_compute; reflexivity). intros b H. inversion H; subst. repeat constructor.
Qed.

(* the byte hypothesis of (E3) is needed in the model (a `byte` of 300 is not a byte) *)
Example binary_not_bytes_refuted :
  exists inner, write_xml o0 (VBinaryString [300]) = Some (B "BinaryString", Ok (flats inner)) /\
    decode_prop [] [] (B "BinaryString") (nodes_in t0 inner) <> sval_of (VBinaryString [300]) (B "BinaryString") (nodes_in t0 inner).
Proof. eexists [WCD _]. split; [vm_compute; reflexivity|]. vm_compute. discriminate. Qed.

(* [hash_injective] is needed in (E4): two contents with one hash share one dictionary entry, and the property written
   for the first content is read back as the second (the real reader does the same: the dictionary is keyed by the hash) *)
Definition e_col : xenv := mkXE (mkDb [] []) [] [] o0
  (fun c => if bytes_eqb c (B "aaa") || bytes_eqb c (B "bbb") then Some h_a else None).

Example hash_collision_refuted :
  exists f, (evs <- xml_encode e_col EWriteUnknown d_amb [1] ;; spec_read evs) = Ok f /\
    List.map (fun i => List.map (fun p => (fst (fst p), decode_prop (sf_insts f) (sf_dict f) (snd (fst p)) (snd p))) (tl (si_props i)))
             (sf_insts f) = [[(B "S1", SShared (Some (B "bbb"))); (B "S2", SShared (Some (B "bbb")))]].
Proof. eexists. split; vm_compute; reflexivity. Qed.

(* What the spec decoder does NOT decode: float, double and every compound type (Vector3, CoordinateFrame, Color3, UDim2,
   NumberRange, the sequences, ...) are [SOther] in Spec/XmlSpec.v, i.e. the raw element; (E3) proves exactly that for them
   ([sval_of]).  The known spelling differences of the writer (`inf`/`NaN` by Display inside CoordinateFrame, NumberRange
   and the sequences instead of the documented INF/NAN) therefore cannot be observed by [decode_prop]. *)
Example float_is_raw :
  write_xml o0 (VFloat32 F32_INF) = Some (B "float", Ok (flats [WText (B "INF")])) /\
  decode_prop [] [] (B "float") (nodes_in t0 [WText (B "INF")]) = SOther (B "float") [NText (B "INF")].
Proof. split; vm_compute; reflexivity. Qed.

(* EXPORT (for Properties/C05.v):
     tree_of_channel_flats tree_of_channel_wevents          (E1)  nodes_of; example tree_of_channel_flats_ex
     xml_encode_spec_decode                                 (E2)  hypotheses needed: duplicate_root_refuted truncated_hash_refuted
     xspec_decode_document ispec_items                      (E2)  on the tree level, for any property relation
     idxs_spec_document pos_of_some pos_of_none             what the parent indices and Ref targets mean
     decode_prop_written decode_prop_ref decode_prop_shared (E3)  sval_of / sval_full; spec_base64_encode int_val_dec_Z text_of_leaf
                                                                  needed: binary_not_bytes_refuted
     xml_encode_documentx                                   the master statement of XmlStructure with the written value kept
     xml_encode_spec_agree                                  (E4)  needed: hash_collision_refuted
     spec_agree_computed spec_agree_instance e_ex_hash_ok   non-vacuity *)

(* (E1) for the serializer: whatever [xml_encode] emits and the channel accepts builds a tree, the translation of its tree view *)
Corollary xml_encode_tree_of_events e beh d roots evs revs :
  xml_encode e beh d roots = Ok evs -> channel evs = Ok revs ->
  exists ts, tree_of_wevents evs = Some ts /\ tree_of_events revs = Some (nodes_of ts).
Proof.
  intros He Hc. destruct (xml_encode_document _ _ _ _ _ He) as (m & dl & items & Hw & _).
  eexists. split; [exact Hw|]. exact (tree_of_channel_wevents _ _ _ Hw Hc).
Qed.
Print Assumptions xml_encode_tree_of_events.
Print Assumptions xspec_decode_document.
Print Assumptions decode_prop_ref.
Print Assumptions decode_prop_shared.
Print Assumptions xml_encode_documentx.
Print Assumptions idxs_spec_document.
Print Assumptions spec_agree_instance.
