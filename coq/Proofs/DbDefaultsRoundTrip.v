(* DbDefaultsRoundTrip.v — property C16, last clause: "an instance of any database class populated with that class's
   default properties is written and read back unchanged by both file formats", as a THEOREM about the codec models
   (Model/BinFile.v, Model/XmlFile.v + Model/XmlEvents.v) on the regenerated bundled database (Gen/Database.v), decided by
   exhaustive computation over its 797 classes (7333 default properties).  The database and the oracle tables
   (Gen/DefaultOracle.v: float Display / parse, Color3 quantisation, byte/255, blake3 of the default SharedStrings; computed by
   the real Rust functions) are regenerated from the crates on every run, so the theorems are re-checked against what the code
   loads now.  A missing oracle entry is an error (XML: ERR_TABLE) or a symbolic, universally quantified fallback (binary
   [ep_quant], which is a total function in the model), never a guess.

   T1  [default_instance], [default_instance_spec]: its ties to Model/Db.v ([find_default], [find_desc_bin], [find_desc_xml])
   T2  [bundled_defaults_binary]  / [bundled_defaults_binary_all]      (CompressionType::None)
       [bundled_defaults_binary_compressed]                            (any compressor the decoder's inflate undoes)
   T3  [bundled_defaults_xml]     / [bundled_defaults_xml_all]
   T4  [bundled_defaults_agree]
   and, because `Instance.properties` is a hash map, for EVERY order in which the table is listed:
       [bundled_defaults_binary_any_order], [bundled_defaults_xml_any_order], [bundled_defaults_agree_any_order]
   Timing (one core): binary 797 classes ~10 s, XML ~11 s (13-14 ms per class and codec on average; the largest instance,
   HumanoidRigDescription with 96 properties, 0.17 s per codec; Part 0.08 s; Folder 0.007 s); the whole file builds in under a minute,
   so the computation is not split into chunks.
   EXCEPTION LIST: empty.  In the model every class comes back unchanged from both codecs, with no normalisation of any value.
   The recorded findings (Sound.MaxDistance / MinDistance, MaterialService.Use2022Materials read back under another canonical
   name) are about names that are NOT keys of the default tables of these classes (the tables carry RollOffMaxDistance / RollOffMinDistance /
   Use2022MaterialsXml): [recorded_findings_not_default_keys]; they stay visible when such a property is written alone:
   [recorded_finding_sound_maxdistance], [recorded_finding_use2022materials]. *)
From Coq Require Import List NArith ZArith String Lia Bool Permutation.
From RbxVerif Require Import Base Bytes Value Db CodecDom BinValues BinFile BinColumnsFacts BinTypeInfoFacts DbFacts.
From RbxVerif Require XmlValues XmlEvents XmlFile XmlDeterminism BinFraming.
From RbxVerif Require Database MigrationTables DefaultOracle.
Import ListNotations.
Open Scope N_scope.

(* ===================================================================================== (0) decidable equality of values *)
(* executable equality on [value] (bit patterns: NaN payloads and signed zeros count) with its soundness, so that a computed
   `true` means Leibniz equality of the value written and the value read *)
Definition vec3_eqb (a b : vec3) : bool := (vx a =? vx b) && (vy a =? vy b) && (vz a =? vz b).
Definition vec2_eqb (a b : vec2) : bool := (v2x a =? v2x b) && (v2y a =? v2y b).
Definition cframe_eqb (a b : cframe) : bool :=
  vec3_eqb (cf_pos a) (cf_pos b) && vec3_eqb (mx (cf_rot a)) (mx (cf_rot b)) &&
  vec3_eqb (my (cf_rot a)) (my (cf_rot b)) && vec3_eqb (mz (cf_rot a)) (mz (cf_rot b)).
Definition udim_eqb (a b : udim) : bool := (ud_scale a =? ud_scale b) && Z.eqb (ud_offset a) (ud_offset b).
Definition n3_eqb (p q : N * N * N) : bool :=
  let '(a, b, c) := p in let '(a', b', c') := q in (a =? a') && (b =? b') && (c =? c').
Definition z3_eqb (p q : Z * Z * Z) : bool :=
  let '(a, b, c) := p in let '(a', b', c') := q in Z.eqb a a' && Z.eqb b b' && Z.eqb c c'.
Definition keyed_eqb (p q : N * (N * N * N)) : bool := (fst p =? fst q) && n3_eqb (snd p) (snd q).
Definition phys_eqb (p q : physprops) : bool :=
  (ph_density p =? ph_density q) && (ph_friction p =? ph_friction q) && (ph_elasticity p =? ph_elasticity q) &&
  (ph_friction_weight p =? ph_friction_weight q) && (ph_elasticity_weight p =? ph_elasticity_weight q).
Definition font_eqb (x y : font) : bool :=
  bytes_eqb (fo_family x) (fo_family y) && (fo_weight x =? fo_weight y) && (fo_style x =? fo_style y) &&
  match fo_cached x, fo_cached y with None, None => true | Some a, Some b => bytes_eqb a b | _, _ => false end.
Definition content_eqb (x y : content) : bool :=
  match x, y with CNone, CNone => true | CUri a, CUri b => bytes_eqb a b | CObject a, CObject b => a =? b | _, _ => false end.
Fixpoint list_eqb {A} (e : A -> A -> bool) (a b : list A) : bool :=
  match a, b with [], [] => true | x :: a', y :: b' => e x y && list_eqb e a' b' | _, _ => false end.
Definition opt_eqb' {A} (e : A -> A -> bool) (a b : option A) : bool :=
  match a, b with None, None => true | Some x, Some y => e x y | _, _ => false end.

Fixpoint value_eqb (a b : value) {struct a} : bool :=
  match a, b with
  | VAxes x, VAxes y => x =? y
  | VBinaryString x, VBinaryString y => bytes_eqb x y
  | VBool x, VBool y => Bool.eqb x y
  | VBrickColor x, VBrickColor y => x =? y
  | VCFrame x, VCFrame y => cframe_eqb x y
  | VColor3 r g b, VColor3 r' g' b' => n3_eqb (r, g, b) (r', g', b')
  | VColor3uint8 r g b, VColor3uint8 r' g' b' => n3_eqb (r, g, b) (r', g', b')
  | VColorSequence x, VColorSequence y => list_eqb keyed_eqb x y
  | VContentId x, VContentId y => bytes_eqb x y
  | VEnum x, VEnum y => x =? y
  | VFaces x, VFaces y => x =? y
  | VFloat32 x, VFloat32 y => x =? y
  | VFloat64 x, VFloat64 y => x =? y
  | VInt32 x, VInt32 y => Z.eqb x y
  | VInt64 x, VInt64 y => Z.eqb x y
  | VNumberRange a b, VNumberRange a' b' => (a =? a') && (b =? b')
  | VNumberSequence x, VNumberSequence y => list_eqb n3_eqb x y
  | VPhysicalProperties x, VPhysicalProperties y => opt_eqb' phys_eqb x y
  | VRay a b, VRay a' b' => vec3_eqb a a' && vec3_eqb b b'
  | VRect a b, VRect a' b' => vec2_eqb a a' && vec2_eqb b b'
  | VRef x, VRef y => x =? y
  | VRegion3 a b, VRegion3 a' b' => vec3_eqb a a' && vec3_eqb b b'
  | VRegion3int16 a b, VRegion3int16 a' b' => z3_eqb a a' && z3_eqb b b'
  | VSharedString x, VSharedString y => bytes_eqb x y
  | VString x, VString y => bytes_eqb x y
  | VUDim x, VUDim y => udim_eqb x y
  | VUDim2 a b, VUDim2 a' b' => udim_eqb a a' && udim_eqb b b'
  | VVector2 x, VVector2 y => vec2_eqb x y
  | VVector2int16 a b, VVector2int16 a' b' => Z.eqb a a' && Z.eqb b b'
  | VVector3 x, VVector3 y => vec3_eqb x y
  | VVector3int16 a b c, VVector3int16 a' b' c' => z3_eqb (a, b, c) (a', b', c')
  | VOptionalCFrame x, VOptionalCFrame y => opt_eqb' cframe_eqb x y
  | VTags x, VTags y => list_eqb bytes_eqb x y
  | VAttributes x, VAttributes y =>
      (fix go (x y : list (bytes * value)) {struct x} : bool :=
         match x, y with
         | [], [] => true
         | (k, v) :: x', (k', v') :: y' => bytes_eqb k k' && value_eqb v v' && go x' y'
         | _, _ => false
         end) x y
  | VFont x, VFont y => font_eqb x y
  | VUniqueId a b c, VUniqueId a' b' c' => (a =? a') && (b =? b') && Z.eqb c c'
  | VMaterialColors x, VMaterialColors y => list_eqb keyed_eqb x y
  | VSecurityCapabilities x, VSecurityCapabilities y => x =? y
  | VEnumItem t n, VEnumItem t' n' => bytes_eqb t t' && (n =? n')
  | VContent x, VContent y => content_eqb x y
  | _, _ => false
  end.

Ltac eqb_split :=
  repeat match goal with
         | H : _ && _ = true |- _ => apply andb_true_iff in H; destruct H
         end.
Ltac eqb_atoms :=
  repeat match goal with
         | H : (_ =? _) = true |- _ => apply N.eqb_eq in H
         | H : Z.eqb _ _ = true |- _ => apply Z.eqb_eq in H
         | H : bytes_eqb _ _ = true |- _ => apply bytes_eqb_eq in H
         | H : Bool.eqb _ _ = true |- _ => apply Bool.eqb_prop in H
         end.

Lemma vec3_eqb_eq a b : vec3_eqb a b = true -> a = b.
Proof. destruct a, b. unfold vec3_eqb. cbn. intro H. eqb_split. eqb_atoms. congruence. Qed.
Lemma vec2_eqb_eq a b : vec2_eqb a b = true -> a = b.
Proof. destruct a, b. unfold vec2_eqb. cbn. intro H. eqb_split. eqb_atoms. congruence. Qed.
Lemma cframe_eqb_eq a b : cframe_eqb a b = true -> a = b.
Proof.
  destruct a as [p [x y z]], b as [p' [x' y' z']]. unfold cframe_eqb. cbn. intro H. eqb_split.
  repeat match goal with H : vec3_eqb _ _ = true |- _ => apply vec3_eqb_eq in H end. congruence.
Qed.
Lemma udim_eqb_eq a b : udim_eqb a b = true -> a = b.
Proof. destruct a, b. unfold udim_eqb. cbn. intro H. eqb_split. eqb_atoms. congruence. Qed.
Lemma n3_eqb_eq p q : n3_eqb p q = true -> p = q.
Proof. destruct p as [[a b] c], q as [[a' b'] c']. cbn [n3_eqb]. intro H. eqb_split. eqb_atoms. congruence. Qed.
Lemma z3_eqb_eq p q : z3_eqb p q = true -> p = q.
Proof. destruct p as [[a b] c], q as [[a' b'] c']. cbn [z3_eqb]. intro H. eqb_split. eqb_atoms. congruence. Qed.
Lemma keyed_eqb_eq p q : keyed_eqb p q = true -> p = q.
Proof. destruct p as [a x], q as [a' x']. unfold keyed_eqb. cbn [fst snd]. intro H. eqb_split. eqb_atoms. apply n3_eqb_eq in H0. congruence. Qed.
Lemma phys_eqb_eq p q : phys_eqb p q = true -> p = q.
Proof. destruct p, q. unfold phys_eqb. cbn. intro H. eqb_split. eqb_atoms. congruence. Qed.
Lemma font_eqb_eq x y : font_eqb x y = true -> x = y.
Proof.
  destruct x as [f w s c], y as [f' w' s' c']. unfold font_eqb. cbn. intro H. eqb_split.
  destruct c, c'; try discriminate; eqb_atoms; congruence.
Qed.
Lemma content_eqb_eq x y : content_eqb x y = true -> x = y.
Proof. destruct x, y; cbn [content_eqb]; intro H; try discriminate; eqb_atoms; congruence. Qed.
Lemma list_eqb_eq {A} (e : A -> A -> bool) (He : forall x y, e x y = true -> x = y) a : forall b, list_eqb e a b = true -> a = b.
Proof.
  induction a as [|x a IH]; intros [|y b] H; cbn [list_eqb] in H; try discriminate; [reflexivity|].
  eqb_split. f_equal; [now apply He|now apply IH].
Qed.
Lemma opt_eqb'_eq {A} (e : A -> A -> bool) (He : forall x y, e x y = true -> x = y) a b : opt_eqb' e a b = true -> a = b.
Proof. destruct a, b; cbn [opt_eqb']; intro H; try discriminate; [f_equal; now apply He|reflexivity]. Qed.

Lemma value_eqb_eq : forall a b, value_eqb a b = true -> a = b.
Proof.
  fix IH 1. intros a b. destruct a; destruct b; cbn [value_eqb]; try discriminate; intro H.
  all: try (eqb_split; eqb_atoms; congruence).
  all: try (eqb_split; repeat match goal with
            | H : vec3_eqb _ _ = true |- _ => apply vec3_eqb_eq in H
            | H : vec2_eqb _ _ = true |- _ => apply vec2_eqb_eq in H
            | H : udim_eqb _ _ = true |- _ => apply udim_eqb_eq in H
            | H : cframe_eqb _ _ = true |- _ => apply cframe_eqb_eq in H
            | H : n3_eqb _ _ = true |- _ => apply n3_eqb_eq in H
            | H : z3_eqb _ _ = true |- _ => apply z3_eqb_eq in H
            | H : font_eqb _ _ = true |- _ => apply font_eqb_eq in H
            | H : content_eqb _ _ = true |- _ => apply content_eqb_eq in H
            end; congruence).
  - f_equal. apply (list_eqb_eq keyed_eqb keyed_eqb_eq _ _ H).
  - f_equal. apply (list_eqb_eq n3_eqb n3_eqb_eq _ _ H).
  - f_equal. apply (opt_eqb'_eq phys_eqb phys_eqb_eq _ _ H).
  - f_equal. apply (opt_eqb'_eq cframe_eqb cframe_eqb_eq _ _ H).
  - f_equal. apply (list_eqb_eq bytes_eqb bytes_eqb_eq _ _ H).
  - f_equal. revert m0 H.
    refine ((fix go (x : list (bytes * value)) : forall y, _ x y = true -> x = y := _) m).
    intros y H. destruct x as [|[k v] x']; destruct y as [|[k' v'] y']; try discriminate H; [reflexivity|].
    eqb_split. eqb_atoms. apply IH in H1. apply go in H0. congruence.
  - f_equal. apply (list_eqb_eq keyed_eqb keyed_eqb_eq _ _ H).
Qed.

(* ---- property tables compared as maps *)
Fixpoint nodupb (l : list bytes) : bool :=
  match l with [] => true | x :: r => negb (bmem x r) && nodupb r end.
Lemma nodupb_NoDup l : nodupb l = true -> NoDup l.
Proof.
  induction l as [|x r IH]; cbn [nodupb]; intro H; [constructor|].
  apply andb_true_iff in H. destruct H as [H1 H2]. constructor; [|now apply IH].
  intro Hin. apply negb_true_iff in H1. unfold bmem in H1.
  assert (E : existsb (bytes_eqb x) r = true) by (apply existsb_exists; exists x; split; [exact Hin|apply bytes_eqb_refl]).
  congruence.
Qed.

(* [b] (read) is the same map as [a] (written): same keys, equal values, no key twice *)
Definition map_eqb (a b : list (bytes * value)) : bool :=
  nodupb (List.map fst b) && Nat.eqb (length b) (length a) &&
  forallb (fun kv => match bfind (fst kv) b with Some w => value_eqb (snd kv) w | None => false end) a &&
  forallb (fun kv => match bfind (fst kv) a with Some _ => true | None => false end) b.
Definition same_map (a b : list (bytes * value)) : Prop :=
  NoDup (List.map fst b) /\ length b = length a /\ forall k, bfind k b = bfind k a.

Lemma map_eqb_sound a b : map_eqb a b = true -> same_map a b.
Proof.
  unfold map_eqb, same_map. intro H.
  apply andb_true_iff in H. destruct H as [H Hb]. apply andb_true_iff in H. destruct H as [H Ha].
  apply andb_true_iff in H. destruct H as [Hnd Hlen].
  split; [apply nodupb_NoDup; exact Hnd|]. split; [apply Nat.eqb_eq; exact Hlen|]. intro k.
  rewrite forallb_forall in Ha, Hb.
  destruct (bfind k a) as [v|] eqn:Ea.
  - apply bfind_in in Ea. specialize (Ha _ Ea). cbn [fst snd] in Ha.
    destruct (bfind k b) as [w|]; [|discriminate Ha]. apply value_eqb_eq in Ha. congruence.
  - destruct (bfind k b) as [w|] eqn:Eb; [|reflexivity].
    apply bfind_in in Eb. specialize (Hb _ Eb). cbn [fst] in Hb. rewrite Ea in Hb. discriminate Hb.
Qed.

(* ===================================================================================== (1) T1: the default instance *)
Definition D : db := Database.database.

(* harness/src/dbdefaults.rs chain_defaults: name -> value, nearest class first (`out.entry(k).or_insert_with(..)` while walking
   the superclass chain) *)
Fixpoint add_missing (acc l : list (string * value)) : list (string * value) :=
  match l with
  | [] => acc
  | (k, v) :: r => add_missing (match find_assoc acc k with Some _ => acc | None => acc ++ [(k, v)] end) r
  end.
Definition chain_defaults (d : db) (c : cdesc) : list (string * value) :=
  fold_left add_missing (List.map cd_defaults (superclasses (S (length (db_classes d))) d c)) [].
(* dbdefaults.rs serializes: rbx_binary's find_property_descriptors(class, prop).map(|d| d.serialized.is_some()).unwrap_or(false);
   a panic counts as false *)
Definition serializes (d : db) (cn pn : string) : bool :=
  match find_desc_bin d cn pn with Ok (Some (_, Some _)) => true | _ => false end.
Definition default_props (d : db) (c : cdesc) : list (bytes * value) :=
  List.map (fun kv => (bstr (fst kv), snd kv)) (filter (fun kv => serializes d (cd_name c) (fst kv)) (chain_defaults d c)).
(* referent 1, child of the DOM root, a name of its own (a reader that loses the Name falls back to the class name) *)
Definition OWN_NAME : bytes := bstr "d".
Definition default_instance (d : db) (c : cdesc) : inst :=
  mkInst 1 0 (bstr (cd_name c)) OWN_NAME (default_props d c).

(* ---- ties to Model/Db.v, all by exhaustive computation on the bundled database *)
Definition str_ne (a b : string) : bool := negb (String.eqb a b).
(* (a) every entry of [chain_defaults] is what ReflectionDatabase::find_default_property returns: nearest ancestor wins *)
Definition chain_is_find_default_b (c : cdesc) : bool :=
  forallb (fun kv => match find_default D c (fst kv) with Ok (Some w) => value_eqb (snd kv) w | _ => false end) (chain_defaults D c).
(* (b) nothing is forgotten: every default of every class of the chain is a key of [chain_defaults] *)
Definition chain_complete_in (cds : list (string * value)) (c : cdesc) : bool :=
  forallb (fun s => forallb (fun kv => match find_assoc cds (fst kv) with Some _ => true | None => false end) (cd_defaults s))
          (superclasses (S (length (db_classes D))) D c).
Definition chain_complete_b (c : cdesc) : bool := chain_complete_in (chain_defaults D c) c.
(* (c) every default is keyed by the canonical name of a property that serializes (Serializes / SerializesAs) and does not
   migrate, for both copies of find_property_descriptors: the filter [serializes] drops nothing on this database *)
Definition default_key_ok_b (c : cdesc) (k : string) : bool :=
  match find_desc_bin D (cd_name c) k with
  | Ok (Some (canon, Some ser)) =>
      String.eqb (pd_name canon) k &&
      match pd_kind canon with KCanon PSerializes | KCanon (PSerAs _) => true | _ => false end &&
      match pd_kind ser with KCanon (PMigrate _ _) => false | _ => true end
  | _ => false
  end &&
  match find_desc_xml D (cd_name c) k with
  | Ok (Some (canon, _)) => String.eqb (pd_name canon) k
  | _ => false
  end.
Definition default_keys_ok_b (c : cdesc) : bool := forallb (fun kv => default_key_ok_b c (fst kv)) (chain_defaults D c).
(* (d) the written table has no key twice, and the instance's own name is not its class name *)
Definition default_shape_ok_b (c : cdesc) : bool :=
  nodupb (List.map fst (default_props D c)) && negb (bytes_eqb (bstr (cd_name c)) OWN_NAME).

Theorem bundled_chain_is_find_default : forallb chain_is_find_default_b (db_classes D) = true.
Proof. vm_cast_no_check (eq_refl true). Time Qed.
Theorem bundled_chain_complete : forallb chain_complete_b (db_classes D) = true.
Proof. vm_cast_no_check (eq_refl true). Time Qed.
Theorem bundled_default_keys_ok : forallb default_keys_ok_b (db_classes D) = true.
Proof. vm_cast_no_check (eq_refl true). Time Qed.
Theorem bundled_default_shape_ok : forallb default_shape_ok_b (db_classes D) = true.
Proof. vm_cast_no_check (eq_refl true). Time Qed.
(* the exhaustive domain: 797 classes, 7333 default properties written (none skipped) *)
Theorem bundled_defaults_count :
  N.of_nat (length (db_classes D)) = 797 /\
  N.of_nat (list_sum (List.map (fun c => length (chain_defaults D c)) (db_classes D))) = 7333 /\
  N.of_nat (list_sum (List.map (fun c => length (default_props D c)) (db_classes D))) = 7333.
Proof. split; [vm_cast_no_check (eq_refl 797)|split; vm_cast_no_check (eq_refl 7333)]. Qed.

Lemma find_assoc_in {V} (l : list (string * V)) k v : find_assoc l k = Some v -> In (k, v) l.
Proof.
  induction l as [|[k' v'] l IH]; cbn [find_assoc]; [discriminate|].
  destruct (String.eqb k' k) eqn:E; [|intro H; right; now apply IH].
  intros [= ->]. apply String.eqb_eq in E. subst. now left.
Qed.

Lemma filter_all_id {A} (f : A -> bool) l : (forall x, In x l -> f x = true) -> filter f l = l.
Proof.
  induction l as [|x l IH]; intro H; [reflexivity|]. cbn [filter]. rewrite (H x (or_introl eq_refl)). f_equal.
  apply IH. intros y Hy. apply H. now right.
Qed.

(* T1, Prop form: what [default_instance D c] is, for every class of the bundled database *)
Theorem default_instance_spec c : In c (db_classes D) ->
  (* its properties are exactly the defaults of the chain, nearest ancestor first, as find_default_property answers *)
  (forall k v, In (k, v) (chain_defaults D c) -> find_default D c k = Ok (Some v)) /\
  (forall s k v, In s (superclasses (S (length (db_classes D))) D c) -> In (k, v) (cd_defaults s) ->
     exists w, In (k, w) (chain_defaults D c)) /\
  (* each under the canonical name of a property that serializes and does not migrate, in both codecs' lookups *)
  (forall k v, In (k, v) (chain_defaults D c) ->
     serializes D (cd_name c) k = true /\
     (exists canon ser, find_desc_bin D (cd_name c) k = Ok (Some (canon, Some ser)) /\ pd_name canon = k /\
        (pd_kind canon = KCanon PSerializes \/ exists n, pd_kind canon = KCanon (PSerAs n)) /\
        forall t op, pd_kind ser <> KCanon (PMigrate t op)) /\
     (exists canon ser, find_desc_xml D (cd_name c) k = Ok (Some (canon, ser)) /\ pd_name canon = k)) /\
  i_props (default_instance D c) = List.map (fun kv => (bstr (fst kv), snd kv)) (chain_defaults D c) /\
  NoDup (List.map fst (i_props (default_instance D c))) /\
  i_name (default_instance D c) <> i_class (default_instance D c).
Proof.
  intro Hc.
  pose proof (proj1 (forallb_forall _ _) bundled_chain_is_find_default c Hc) as H1.
  pose proof (proj1 (forallb_forall _ _) bundled_chain_complete c Hc) as H2.
  pose proof (proj1 (forallb_forall _ _) bundled_default_keys_ok c Hc) as H3.
  pose proof (proj1 (forallb_forall _ _) bundled_default_shape_ok c Hc) as H4.
  unfold chain_is_find_default_b in H1. unfold chain_complete_b, chain_complete_in in H2. unfold default_keys_ok_b in H3. unfold default_shape_ok_b in H4.
  rewrite forallb_forall in H1, H2, H3.
  assert (K : forall k v, In (k, v) (chain_defaults D c) ->
     serializes D (cd_name c) k = true /\
     (exists canon ser, find_desc_bin D (cd_name c) k = Ok (Some (canon, Some ser)) /\ pd_name canon = k /\
        (pd_kind canon = KCanon PSerializes \/ exists n, pd_kind canon = KCanon (PSerAs n)) /\
        forall t op, pd_kind ser <> KCanon (PMigrate t op)) /\
     (exists canon ser, find_desc_xml D (cd_name c) k = Ok (Some (canon, ser)) /\ pd_name canon = k)).
  { intros k v Hkv. specialize (H3 _ Hkv). cbn [fst] in H3. unfold default_key_ok_b in H3. unfold serializes.
    destruct (find_desc_bin D (cd_name c) k) as [[[canon [ser|]]|]| | |]; try discriminate H3.
    destruct (find_desc_xml D (cd_name c) k) as [[[xc xs]|]| | |]; try (rewrite andb_false_r in H3; discriminate H3).
    apply andb_true_iff in H3. destruct H3 as [H3 X1]. apply andb_true_iff in H3. destruct H3 as [H3 X2].
    apply andb_true_iff in H3. destruct H3 as [X3 X4].
    apply String.eqb_eq in X1, X3.
    split; [reflexivity|]. split.
    - exists canon, ser. split; [reflexivity|]. split; [exact X3|]. split.
      + destruct (pd_kind canon) as [[| |n|]|]; try discriminate X4; [now left|right; now exists n].
      + intros t op E. rewrite E in X2. discriminate X2.
    - exists xc, xs. split; [reflexivity|exact X1]. }
  split; [|split; [|split; [exact K|split; [|split]]]].
  - intros k v Hkv. specialize (H1 _ Hkv). cbn [fst snd] in H1.
    destruct (find_default D c k) as [[w|]| | |]; try discriminate H1. apply value_eqb_eq in H1. now subst.
  - intros s k v Hs Hkv. specialize (H2 _ Hs). rewrite forallb_forall in H2. specialize (H2 _ Hkv). cbn [fst] in H2.
    destruct (find_assoc (chain_defaults D c) k) as [w|] eqn:E; [|discriminate H2]. exists w. now apply find_assoc_in.
  - cbn [default_instance i_props]. unfold default_props. f_equal.
    apply filter_all_id. intros [k v] Hkv. cbn [fst]. apply (K k v Hkv).
  - cbn [default_instance i_props]. apply andb_true_iff in H4. apply nodupb_NoDup. apply H4.
  - cbn [default_instance i_name i_class]. apply andb_true_iff in H4. destruct H4 as [_ H4]. apply negb_true_iff in H4.
    intro E. rewrite <- E, bytes_eqb_refl in H4. discriminate H4.
Qed.

(* ===================================================================================== (2) the round trips, as predicates *)
(* what "read back unchanged" means for the one-instance forest: exactly one instance comes back, child of the (fresh) root, of
   the same class, under its own name, and its property table is the written one AS A MAP *)
Definition back_okb (c : cdesc) (r : res cdom) : bool :=
  match r with
  | Ok [i] =>
      (i_ref i =? 1) && (i_parent i =? 0) && bytes_eqb (i_class i) (bstr (cd_name c)) && bytes_eqb (i_name i) OWN_NAME &&
      map_eqb (default_props D c) (i_props i)
  | _ => false
  end.
Definition back_unchanged (c : cdesc) (r : res cdom) : Prop :=
  exists ps, r = Ok [mkInst 1 0 (bstr (cd_name c)) OWN_NAME ps] /\ same_map (default_props D c) ps.

Lemma back_okb_sound c r : back_okb c r = true -> back_unchanged c r.
Proof.
  unfold back_okb, back_unchanged. destruct r as [[|[r0 p0 c0 n0 ps] [|]]| | |]; try discriminate. cbn [i_ref i_parent i_class i_name i_props].
  intro H. apply andb_true_iff in H. destruct H as [H Hm]. apply andb_true_iff in H. destruct H as [H Hn].
  apply andb_true_iff in H. destruct H as [H Hc]. apply andb_true_iff in H. destruct H as [Hr Hp].
  apply N.eqb_eq in Hr, Hp. apply bytes_eqb_eq in Hc, Hn. subst. exists ps. split; [reflexivity|]. now apply map_eqb_sound.
Qed.

(* ===================================================================================== (3) T2: binary *)
(* [ep_quant] is a total function in the model: the table of Gen/DefaultOracle.v, and OUTSIDE the table an arbitrary function [f]
   over which the theorems quantify (so no entry is guessed: the result does not depend on it).  In the same way the decoder's
   inflate function (never called: CompressionType::None) and the UniqueId drawn on a collision (never drawn: one instance) are
   universally quantified.  [ep_order] = identity (no property of a default instance has an alias set: every key is canonical). *)
Definition quant_or (f : f32 -> N) (x : f32) : N :=
  match lookup x DefaultOracle.default_quant with Some b => b | None => f x end.
Definition ep_of (f : f32 -> N) : enc_params :=
  mkEP MigrationTables.font_migration_table MigrationTables.brick_color_table (quant_or f) (fun l => l) DefaultOracle.default_hash.
Definition dp_of (inflate : bytes -> N -> option bytes) (fresh : value) : dec_params :=
  mkDP MigrationTables.font_migration_table MigrationTables.brick_color_table inflate fresh None.
Definition bin_thru (ep : enc_params) (dp : dec_params) (c : cdesc) : res cdom :=
  b <- encode_file D ep None [default_instance D c] [1] ;; decode_file D dp b.
Definition bin_default_ok (ep : enc_params) (dp : dec_params) (c : cdesc) : bool := back_okb c (bin_thru ep dp c).

Theorem bundled_defaults_binary f inflate fresh :
  forallb (bin_default_ok (ep_of f) (dp_of inflate fresh)) (db_classes D) = true.
Proof. vm_cast_no_check (eq_refl true). Time Qed.

Theorem bundled_defaults_binary_all f inflate fresh c : In c (db_classes D) ->
  back_unchanged c (bin_thru (ep_of f) (dp_of inflate fresh) c).
Proof.
  intro Hc. apply back_okb_sound.
  exact (proj1 (forallb_forall _ _) (bundled_defaults_binary f inflate fresh) c Hc).
Qed.

(* ===================================================================================== (4) T3: XML *)
(* the oracle: association-list lookup in Gen/DefaultOracle.v; a missing entry is None, which the codec turns into ERR_TABLE *)
Definition default_oracle : XmlValues.xoracle :=
  XmlValues.mkXO
    (fun x => lookup x DefaultOracle.default_show32)
    (fun x => lookup x DefaultOracle.default_show64)
    (fun s => match bfind s DefaultOracle.default_parse32 with Some b => Some (Some b) | None => None end)
    (fun s => match bfind s DefaultOracle.default_parse64 with Some b => Some (Some b) | None => None end)
    (fun x => lookup x DefaultOracle.default_quant)
    (fun b => lookup b DefaultOracle.default_unit).
Definition default_xenv : XmlFile.xenv :=
  XmlFile.mkXE D MigrationTables.font_migration_table MigrationTables.brick_color_table default_oracle
               (fun c => bfind c DefaultOracle.default_hash).
(* to_writer_default / from_reader_default: EncodePropertyBehavior::IgnoreUnknown, DecodePropertyBehavior::IgnoreUnknown *)
Definition xml_thru (c : cdesc) : res cdom :=
  evs <- XmlFile.xml_encode default_xenv XmlFile.EIgnoreUnknown [default_instance D c] [1] ;;
  revs <- XmlEvents.channel evs ;;
  XmlFile.xml_decode default_xenv XmlFile.DIgnoreUnknown revs.
Definition xml_default_ok (c : cdesc) : bool := back_okb c (xml_thru c).

Theorem bundled_defaults_xml : forallb xml_default_ok (db_classes D) = true.
Proof. vm_cast_no_check (eq_refl true). Time Qed.

Theorem bundled_defaults_xml_all c : In c (db_classes D) -> back_unchanged c (xml_thru c).
Proof. intro Hc. apply back_okb_sound. exact (proj1 (forallb_forall _ _) bundled_defaults_xml c Hc). Qed.

(* ===================================================================================== (5) T4: the two decoders agree (C06 on defaults) *)
Theorem bundled_defaults_agree f inflate fresh c : In c (db_classes D) ->
  exists psB psX,
    bin_thru (ep_of f) (dp_of inflate fresh) c = Ok [mkInst 1 0 (bstr (cd_name c)) OWN_NAME psB] /\
    xml_thru c = Ok [mkInst 1 0 (bstr (cd_name c)) OWN_NAME psX] /\
    NoDup (List.map fst psB) /\ NoDup (List.map fst psX) /\ length psB = length psX /\
    forall k, bfind k psB = bfind k psX.
Proof.
  intro Hc.
  destruct (bundled_defaults_binary_all f inflate fresh c Hc) as (psB & EB & NB & LB & FB).
  destruct (bundled_defaults_xml_all c Hc) as (psX & EX & NX & LX & FX).
  exists psB, psX. repeat split; try assumption; [congruence|]. intro k. rewrite FB, FX. reflexivity.
Qed.

(* ===================================================================================== (5') in whatever order the table is listed *)
(* `Instance.properties` is a hash map: the order in which the writers meet the properties is not fixed.  The models take that
   order as given by [i_props]; the results above are for the listing of [default_props].  They hold for EVERY listing of the
   same table: the XML writer sorts the properties (Proofs/XmlDeterminism.v), and the binary file is a function of the table as
   a map when no instance spells one logical property twice (Proofs/BinTypeInfoFacts.v [encode_file_props_perm]), which a default
   instance does not: every key resolves to itself, without migration. *)
Definition bin_file (ep : enc_params) (dp : dec_params) (i : inst) : res cdom :=
  b <- encode_file D ep None [i] [1] ;; decode_file D dp b.
Definition xml_file (i : inst) : res cdom :=
  evs <- XmlFile.xml_encode default_xenv XmlFile.EIgnoreUnknown [i] [1] ;;
  revs <- XmlEvents.channel evs ;;
  XmlFile.xml_decode default_xenv XmlFile.DIgnoreUnknown revs.
Lemma bin_thru_file ep dp c : bin_thru ep dp c = bin_file ep dp (default_instance D c).
Proof. reflexivity. Qed.
Lemma xml_thru_file c : xml_thru c = xml_file (default_instance D c).
Proof. reflexivity. Qed.

Definition key_resolves_to_itself_b (c : cdesc) (kv : bytes * value) : bool :=
  match resolve_prop D (bstr (cd_name c)) (fst kv) (snd kv) with
  | Ok (RProp canon _ _ None) => bytes_eqb canon (fst kv)
  | _ => false
  end.
Theorem bundled_default_keys_resolve :
  forallb (fun c => forallb (key_resolves_to_itself_b c) (default_props D c)) (db_classes D) = true.
Proof. vm_cast_no_check (eq_refl true). Time Qed.

Lemma default_key_resolves c n v : In c (db_classes D) -> In (n, v) (default_props D c) ->
  exists s t, resolve_prop D (bstr (cd_name c)) n v = Ok (RProp n s t None).
Proof.
  intros Hc Hn. pose proof (proj1 (forallb_forall _ _) bundled_default_keys_resolve c Hc) as H. cbv beta in H.
  rewrite forallb_forall in H. specialize (H _ Hn). unfold key_resolves_to_itself_b in H. cbn [fst snd] in H.
  destruct (resolve_prop D (bstr (cd_name c)) n v) as [[|canon s t [m|]]| | |]; try discriminate H.
  apply bytes_eqb_eq in H. subst canon. now exists s, t.
Qed.

Lemma default_key_spells c n v x : In c (db_classes D) -> In (n, v) (default_props D c) ->
  spells D (bstr (cd_name c)) n x -> x = n.
Proof.
  intros Hc Hn [->|(v' & s & t & m & Hr)]; [reflexivity|].
  destruct (default_key_resolves c n v Hc Hn) as (s0 & t0 & R0).
  destruct (resolve_value_indep D (bstr (cd_name c)) n v' v) as [E|[E1 _]].
  - rewrite E, R0 in Hr. now injection Hr as <- _ _ _.
  - rewrite E1 in Hr. now injection Hr as <- _ _ _.
Qed.

Lemma default_props_nodup c : In c (db_classes D) -> NoDup (List.map fst (default_props D c)).
Proof. intro Hc. exact (proj1 (proj2 (proj2 (proj2 (proj2 (default_instance_spec c Hc)))))). Qed.

Lemma default_dom_one_spelling c : In c (db_classes D) -> dom_one_spelling D [default_instance D c].
Proof.
  intros Hc i n1 n2 x [<-|[]] H1 H2 S1 S2. cbn [default_instance i_props i_class] in *.
  unfold haskey in H1, H2.
  destruct (bfind n1 (default_props D c)) as [v1|] eqn:E1; [|discriminate H1].
  destruct (bfind n2 (default_props D c)) as [v2|] eqn:E2; [|discriminate H2].
  apply bfind_in in E1, E2.
  rewrite <- (default_key_spells c n1 v1 x Hc E1 S1). exact (default_key_spells c n2 v2 x Hc E2 S2).
Qed.

Lemma default_dom_agree c : In c (db_classes D) -> dom_agree D [default_instance D c].
Proof.
  intros Hc i [<-|[]]. cbn [default_instance i_props i_class].
  assert (K : forall n1 v1 n2 v2 x s1 t1 m1 s2 t2 m2,
             In (n1, v1) (default_props D c) -> In (n2, v2) (default_props D c) ->
             resolve_prop D (bstr (cd_name c)) n1 v1 = Ok (RProp x s1 t1 m1) ->
             resolve_prop D (bstr (cd_name c)) n2 v2 = Ok (RProp x s2 t2 m2) ->
             s1 = s2 /\ t1 = t2 /\ m1 = None /\ m2 = None).
  { intros n1 v1 n2 v2 x s1 t1 m1 s2 t2 m2 I1 I2 R1 R2.
    destruct (default_key_resolves c n1 v1 Hc I1) as (a1 & b1 & Q1).
    destruct (default_key_resolves c n2 v2 Hc I2) as (a2 & b2 & Q2).
    rewrite Q1 in R1. injection R1 as <- <- <- <-. rewrite Q2 in R2. injection R2 as E <- <- <-. subst n2.
    pose proof (default_props_nodup c Hc) as Hnd.
    pose proof (in_bfind _ _ _ Hnd I1) as F1. pose proof (in_bfind _ _ _ Hnd I2) as F2.
    rewrite F1 in F2. injection F2 as <-. rewrite Q1 in Q2. injection Q2 as <- <-. auto. }
  split.
  - intros n1 v1 n2 v2 x s1 t1 m1 s2 t2 m2 I1 I2 R1 R2.
    destruct (K _ _ _ _ _ _ _ _ _ _ _ I1 I2 R1 R2) as (A & B & _). auto.
  - intros n1 v1 n2 v2 x s1 t1 m1 s2 t2 m2 I1 I2 R1 R2.
    destruct (K _ _ _ _ _ _ _ _ _ _ _ I1 I2 R1 R2) as (_ & _ & A & B). subst m1 m2.
    split; [intros o1 o2 E; discriminate E|intro E; now elim E].
Qed.

Lemma default_hash_inj : hash_inj DefaultOracle.default_hash.
Proof.
  assert (H : nodupb (List.map snd DefaultOracle.default_hash) = true) by (vm_compute; reflexivity).
  apply nodupb_NoDup in H. intros s1 s2 h F1 F2. apply bfind_in in F1, F2.
  revert H F1 F2. generalize DefaultOracle.default_hash. intro l.
  induction l as [|[k x] l IH]; intros Hnd F1 F2; [destruct F1|].
  cbn [List.map snd] in Hnd. apply NoDup_cons_iff in Hnd. destruct Hnd as [Hx Hnd].
  destruct F1 as [F1|F1], F2 as [F2|F2].
  - congruence.
  - injection F1 as -> ->. elim Hx. apply in_map_iff. now exists (s2, h).
  - injection F2 as -> ->. elim Hx. apply in_map_iff. now exists (s1, h).
  - now apply IH.
Qed.

(* the instance of class c whose table is listed as [ps] *)
Definition listed (c : cdesc) (ps : list (bytes * value)) : inst := mkInst 1 0 (bstr (cd_name c)) OWN_NAME ps.

Theorem bundled_defaults_binary_any_order f inflate fresh c ps : In c (db_classes D) ->
  Permutation (default_props D c) ps ->
  bin_file (ep_of f) (dp_of inflate fresh) (listed c ps) = bin_thru (ep_of f) (dp_of inflate fresh) c /\
  back_unchanged c (bin_file (ep_of f) (dp_of inflate fresh) (listed c ps)).
Proof.
  intros Hc Hp.
  pose proof (bundled_defaults_binary_all f inflate fresh c Hc) as Hb.
  assert (E : bin_file (ep_of f) (dp_of inflate fresh) (listed c ps) = bin_thru (ep_of f) (dp_of inflate fresh) c).
  { destruct Hb as (ps0 & Hb & _). unfold bin_thru in Hb |- *. unfold bin_file.
    destruct (encode_file D (ep_of f) None [default_instance D c] [1]) as [b| | |] eqn:Eb; cbn [rbind] in Hb; try discriminate Hb.
    assert (Eb' : encode_file D (ep_of f) None [listed c ps] [1] = Ok b).
    { apply (encode_file_props_perm D (ep_of f) None [default_instance D c] [listed c ps] [1] b).
      - constructor; [|constructor]. unfold inst_perm, default_instance, listed. cbn [i_ref i_parent i_class i_name i_props]. auto.
      - intros i [<-|[]]. cbn [default_instance i_props]. now apply default_props_nodup.
      - now apply default_dom_agree.
      - now apply default_dom_one_spelling.
      - intro l. apply Permutation_refl.
      - exact default_hash_inj.
      - exact Eb. }
    rewrite Eb'. reflexivity. }
  split; [exact E|]. rewrite E. exact Hb.
Qed.

Theorem bundled_defaults_xml_any_order c ps : In c (db_classes D) ->
  Permutation (default_props D c) ps ->
  xml_file (listed c ps) = xml_thru c /\ back_unchanged c (xml_file (listed c ps)).
Proof.
  intros Hc Hp.
  assert (E : xml_file (listed c ps) = xml_thru c).
  { unfold xml_file, xml_thru.
    rewrite (XmlDeterminism.xml_encode_props_order default_xenv XmlFile.EIgnoreUnknown [default_instance D c] [listed c ps] [1]); [reflexivity|].
    constructor; [|constructor]. unfold XmlDeterminism.same_but_props_order, default_instance, listed.
    cbn [i_ref i_parent i_class i_name i_props]. repeat split; try reflexivity; [exact Hp|now apply default_props_nodup]. }
  split; [exact E|]. rewrite E. now apply bundled_defaults_xml_all.
Qed.

(* C06 on defaults, each writer meeting the table in an order of its own *)
Theorem bundled_defaults_agree_any_order f inflate fresh c psB psX : In c (db_classes D) ->
  Permutation (default_props D c) psB -> Permutation (default_props D c) psX ->
  exists outB outX,
    bin_file (ep_of f) (dp_of inflate fresh) (listed c psB) = Ok [mkInst 1 0 (bstr (cd_name c)) OWN_NAME outB] /\
    xml_file (listed c psX) = Ok [mkInst 1 0 (bstr (cd_name c)) OWN_NAME outX] /\
    forall k, bfind k outB = bfind k outX /\ bfind k outB = bfind k (default_props D c).
Proof.
  intros Hc HB HX.
  destruct (bundled_defaults_binary_any_order f inflate fresh c psB Hc HB) as (_ & outB & EB & _ & _ & FB).
  destruct (bundled_defaults_xml_any_order c psX Hc HX) as (_ & outX & EX & _ & _ & FX).
  exists outB, outX. split; [exact EB|]. split; [exact EX|]. intro k. rewrite FB, FX. auto.
Qed.

(* ===================================================================================== (5'') T2 with a compressor *)
(* T2 is stated for CompressionType::None.  `rbx_binary::to_writer` compresses (LZ4 by default); compression is an oracle of the
   model.  For ANY compressor [g] that the decoder's [inflate] undoes on the chunk payloads of the file at hand (compressed
   chunks non-empty and below 4 GiB), the compressed file decodes to exactly what the uncompressed one decodes to
   (Proofs/BinFraming.v), hence unchanged. *)
Definition compressor_ok (g : bytes -> bytes) (inflate : bytes -> N -> option bytes) (e : encoded) : Prop :=
  Forall (fun ch => g (snd ch) <> [] /\ N.of_nat (length (g (snd ch))) < 2 ^ 32 /\
                    inflate (g (snd ch)) (N.of_nat (length (snd ch))) = Some (snd ch)) (en_chunks e).
Definition payloads_small_b (f : f32 -> N) (c : cdesc) : bool :=
  match encode_chunks D (ep_of f) [default_instance D c] [1] with
  | Ok e => forallb (fun ch => N.ltb (N.of_nat (length (snd ch))) 4294967296) (en_chunks e)
  | _ => false
  end.
Theorem bundled_default_payloads_small f : forallb (payloads_small_b f) (db_classes D) = true.
Proof. vm_cast_no_check (eq_refl true). Time Qed.

Theorem bundled_defaults_binary_compressed f g inflate fresh c : In c (db_classes D) ->
  exists e, encode_chunks D (ep_of f) [default_instance D c] [1] = Ok e /\
    (compressor_ok g inflate e ->
     (b <- encode_file D (ep_of f) (Some g) [default_instance D c] [1] ;; decode_file D (dp_of inflate fresh) b)
       = bin_thru (ep_of f) (dp_of inflate fresh) c /\
     back_unchanged c (b <- encode_file D (ep_of f) (Some g) [default_instance D c] [1] ;; decode_file D (dp_of inflate fresh) b)).
Proof.
  intro Hc. pose proof (proj1 (forallb_forall _ _) (bundled_default_payloads_small f) c Hc) as Hs. unfold payloads_small_b in Hs.
  destruct (encode_chunks D (ep_of f) [default_instance D c] [1]) as [e| | |] eqn:He; try discriminate Hs.
  exists e. split; [reflexivity|]. intro Hg.
  rewrite forallb_forall in Hs.
  assert (E : (b <- encode_file D (ep_of f) (Some g) [default_instance D c] [1] ;; decode_file D (dp_of inflate fresh) b)
              = bin_thru (ep_of f) (dp_of inflate fresh) c).
  { unfold bin_thru, encode_file. rewrite He. cbn [rbind].
    rewrite (BinFraming.decode_file_of_encode_chunks D (ep_of f) [default_instance D c] [1] e (dp_of inflate fresh) (Some g) He eq_refl).
    - rewrite (BinFraming.decode_file_of_encode_chunks D (ep_of f) [default_instance D c] [1] e (dp_of inflate fresh) None He eq_refl); [reflexivity|].
      apply Forall_forall. intros ch Hch. split; [|exact I]. split; [|exact I].
      change (2 ^ 32) with 4294967296. apply N.ltb_lt. now apply Hs.
    - unfold compressor_ok in Hg. rewrite Forall_forall in Hg. apply Forall_forall. intros ch Hch.
      destruct (Hg ch Hch) as (G1 & G2 & G3). split; [|exact G3]. split; [|split; [exact G2|exact G1]].
      change (2 ^ 32) with 4294967296. apply N.ltb_lt. now apply Hs. }
  split; [exact E|]. rewrite E. now apply bundled_defaults_binary_all.
Qed.

Definition compressor_okb (g : bytes -> bytes) (inflate : bytes -> N -> option bytes) (e : encoded) : bool :=
  forallb (fun ch => match g (snd ch) with [] => false | _ => true end &&
                     N.ltb (N.of_nat (length (g (snd ch)))) 4294967296 &&
                     match inflate (g (snd ch)) (N.of_nat (length (snd ch))) with Some x => bytes_eqb x (snd ch) | None => false end)
          (en_chunks e).
Lemma compressor_okb_sound g inflate e : compressor_okb g inflate e = true -> compressor_ok g inflate e.
Proof.
  unfold compressor_okb, compressor_ok. rewrite forallb_forall. intro H. apply Forall_forall. intros ch Hch.
  specialize (H ch Hch). apply andb_true_iff in H. destruct H as [H H3]. apply andb_true_iff in H. destruct H as [H1 H2].
  split; [intro E; rewrite E in H1; discriminate H1|]. split; [change (2 ^ 32) with 4294967296; now apply N.ltb_lt|].
  destruct (inflate (g (snd ch)) (N.of_nat (length (snd ch)))) as [x|]; [|discriminate H3]. apply bytes_eqb_eq in H3. now subst.
Qed.

(* ===================================================================================== (6) non-vacuity and computed instances *)
Lemma get_class_in n c : get_class D n = Some c -> In c (db_classes D).
Proof. apply find_class_in. Qed.

(* the only hypothesis of the theorems is [In c (db_classes D)].  BackpackItem: 4 defaults of its own, 16 with its ancestors'
   (the nearest-ancestor rule is exercised); Part: 57 properties; the largest instance (HumanoidRigDescription): 96 *)
Example default_instance_example :
  (exists c, get_class D "BackpackItem" = Some c /\ In c (db_classes D) /\
             length (cd_defaults c) = 4%nat /\ length (i_props (default_instance D c)) = 16%nat) /\
  (exists c, get_class D "Part" = Some c /\ In c (db_classes D) /\ length (i_props (default_instance D c)) = 57%nat) /\
  (exists c, get_class D "HumanoidRigDescription" = Some c /\ In c (db_classes D) /\ length (i_props (default_instance D c)) = 96%nat).
Proof.
  split; [|split].
  - destruct (get_class D "BackpackItem") as [c|] eqn:E; [|vm_compute in E; discriminate E].
    exists c. split; [reflexivity|]. split; [now apply (get_class_in "BackpackItem")|].
    vm_compute in E. injection E as <-. split; vm_compute; reflexivity.
  - destruct (get_class D "Part") as [c|] eqn:E; [|vm_compute in E; discriminate E].
    exists c. split; [reflexivity|]. split; [now apply (get_class_in "Part")|].
    vm_compute in E. injection E as <-. vm_compute; reflexivity.
  - destruct (get_class D "HumanoidRigDescription") as [c|] eqn:E; [|vm_compute in E; discriminate E].
    exists c. split; [reflexivity|]. split; [now apply (get_class_in "HumanoidRigDescription")|].
    vm_compute in E. injection E as <-. vm_compute; reflexivity.
Qed.

(* the conclusion computed on a small class: a Folder carries 8 defaults (3 of them Instance's); both decoders return them all,
   value for value (listed in the reverse of the writing order: both readers build the table by HashMap insertion) *)
Example folder_roundtrip_example f inflate fresh :
  exists c, get_class D "Folder" = Some c /\ In c (db_classes D) /\
    default_props D c =
      [(bstr "Archivable", VBool true); (bstr "Attributes", VAttributes []); (bstr "Capabilities", VSecurityCapabilities 0);
       (bstr "HistoryId", VUniqueId 0 0 0%Z); (bstr "Sandboxed", VBool false); (bstr "SourceAssetId", VInt64 (-1)%Z);
       (bstr "Tags", VTags []); (bstr "UniqueId", VUniqueId 0 0 0%Z)] /\
    bin_thru (ep_of f) (dp_of inflate fresh) c = Ok [mkInst 1 0 (bstr "Folder") OWN_NAME (rev (default_props D c))] /\
    xml_thru c = Ok [mkInst 1 0 (bstr "Folder") OWN_NAME (rev (default_props D c))].
Proof.
  destruct (get_class D "Folder") as [c|] eqn:E; [|vm_compute in E; discriminate E].
  exists c. split; [reflexivity|]. split; [now apply (get_class_in "Folder")|].
  vm_compute in E. injection E as <-. repeat split; vm_compute; reflexivity.
Qed.

(* the compressed form is not vacuous: the "stored" compressor (one marker byte in front) with the inflate that strips it *)
Example compressed_example f fresh :
  let g := fun x : bytes => 0 :: x in
  let inflate := fun (y : bytes) (_ : N) => Some (tl y) in
  exists c e, get_class D "Folder" = Some c /\ In c (db_classes D) /\
    encode_chunks D (ep_of f) [default_instance D c] [1] = Ok e /\ compressor_ok g inflate e /\
    (b <- encode_file D (ep_of f) (Some g) [default_instance D c] [1] ;; decode_file D (dp_of inflate fresh) b)
      = Ok [mkInst 1 0 (bstr "Folder") OWN_NAME (rev (default_props D c))].
Proof.
  intros g inflate.
  destruct (get_class D "Folder") as [c|] eqn:E; [|vm_compute in E; discriminate E].
  pose proof (get_class_in _ _ E) as Hin.
  destruct (bundled_defaults_binary_compressed f g inflate fresh c Hin) as (e & He & Hth).
  vm_compute in E. injection E as <-.
  assert (Hg : compressor_ok g inflate e).
  { apply compressor_okb_sound.
    match type of He with ?enc = _ =>
      assert (H : match enc with Ok e0 => compressor_okb g inflate e0 | _ => false end = true) by (vm_compute; reflexivity) end.
    rewrite He in H. exact H. }
  eexists. exists e. split; [reflexivity|]. split; [exact Hin|]. split; [exact He|]. split; [exact Hg|].
  destruct (Hth Hg) as [Eq _]. etransitivity; [exact Eq|]. vm_compute. reflexivity.
Qed.

(* Terrain.MaterialColors: the default carries all 21 materials and comes back with all 21, from both codecs *)
Example terrain_material_colors_example f inflate fresh :
  exists c m psB psX, get_class D "Terrain" = Some c /\
    bfind (bstr "MaterialColors") (default_props D c) = Some (VMaterialColors m) /\ length m = 21%nat /\
    bin_thru (ep_of f) (dp_of inflate fresh) c = Ok [mkInst 1 0 (bstr "Terrain") OWN_NAME psB] /\
    xml_thru c = Ok [mkInst 1 0 (bstr "Terrain") OWN_NAME psX] /\
    bfind (bstr "MaterialColors") psB = Some (VMaterialColors m) /\ bfind (bstr "MaterialColors") psX = Some (VMaterialColors m).
Proof.
  destruct (get_class D "Terrain") as [c|] eqn:E; [|vm_compute in E; discriminate E].
  pose proof (get_class_in _ _ E) as Hin. pose proof (find_class_name _ _ _ E) as Hn.
  destruct (bundled_defaults_agree f inflate fresh c Hin) as (psB & psX & EB & EX & _ & _ & _ & Hag).
  destruct (bundled_defaults_binary_all f inflate fresh c Hin) as (psB' & EB' & _ & _ & HB).
  rewrite EB in EB'. injection EB' as <-.
  assert (Hm : exists m, bfind (bstr "MaterialColors") (default_props D c) = Some (VMaterialColors m) /\ length m = 21%nat).
  { vm_compute in E. injection E as <-. eexists. split; vm_compute; reflexivity. }
  destruct Hm as (m & Hm & Hl). exists c, m, psB, psX. rewrite Hn in EB, EX.
  repeat split; try assumption; [rewrite HB; exact Hm|rewrite <- Hag, HB; exact Hm].
Qed.

(* the oracle is not a guess: a float whose text is not in the tables stops the XML writer with ERR_TABLE *)
Example missing_oracle_entry_is_an_error :
  (evs <- XmlFile.xml_encode default_xenv XmlFile.EIgnoreUnknown [mkInst 1 0 (bstr "Sound") OWN_NAME [(bstr "Volume", VFloat32 1056964609)]] [1] ;;
   revs <- XmlEvents.channel evs ;; XmlFile.xml_decode default_xenv XmlFile.DIgnoreUnknown revs) = Err XmlValues.ERR_TABLE.
Proof. vm_compute. reflexivity. Qed.

(* ===================================================================================== (7) the recorded findings *)
(* The implementation-side run records Sound.MaxDistance and MaterialService.Use2022Materials as properties that come back under
   another canonical name.  They are not exceptions of the theorems above, because the default tables of these classes are not keyed by them ... *)
(* ... the tables carry the names the properties come back under ... *)
Example recorded_findings_not_default_keys :
  (exists c, get_class D "Sound" = Some c /\
     bfind (bstr "MaxDistance") (default_props D c) = None /\ bfind (bstr "MinDistance") (default_props D c) = None /\
     bfind (bstr "RollOffMaxDistance") (default_props D c) = Some (VFloat32 1176256512) /\
     bfind (bstr "RollOffMinDistance") (default_props D c) = Some (VFloat32 1092616192)) /\
  (exists c, get_class D "MaterialService" = Some c /\
     bfind (bstr "Use2022Materials") (default_props D c) = None /\
     bfind (bstr "Use2022MaterialsXml") (default_props D c) = Some (VBool false)).
Proof.
  split.
  - destruct (get_class D "Sound") as [c|] eqn:E; [|vm_compute in E; discriminate E].
    exists c. split; [reflexivity|]. vm_compute in E. injection E as <-. repeat split; vm_compute; reflexivity.
  - destruct (get_class D "MaterialService") as [c|] eqn:E; [|vm_compute in E; discriminate E].
    exists c. split; [reflexivity|]. vm_compute in E. injection E as <-. split; vm_compute; reflexivity.
Qed.
(* ... and the findings themselves are reproduced by the models when such a property is written alone: both codecs return
   Sound.MaxDistance as RollOffMaxDistance (both serialize as xmlRead_MaxDistance_3, an alias of RollOffMaxDistance) and
   MaterialService.Use2022Materials as Use2022MaterialsXml (its SerializesAs target is a canonical property of its own);
   Sound.MinDistance is DoesNotSerialize in this database and is dropped *)
Definition one_bin (cn k : string) (v : value) : res cdom :=
  b <- encode_file D (ep_of (fun _ => 0)) None [mkInst 1 0 (bstr cn) OWN_NAME [(bstr k, v)]] [1] ;;
  decode_file D (dp_of (fun _ _ => None) (VUniqueId 0 0 0%Z)) b.
Definition one_xml (cn k : string) (v : value) : res cdom :=
  evs <- XmlFile.xml_encode default_xenv XmlFile.EIgnoreUnknown [mkInst 1 0 (bstr cn) OWN_NAME [(bstr k, v)]] [1] ;;
  revs <- XmlEvents.channel evs ;; XmlFile.xml_decode default_xenv XmlFile.DIgnoreUnknown revs.
Example recorded_finding_sound_maxdistance :
  one_bin "Sound" "MaxDistance" (VFloat32 1176256512) = Ok [mkInst 1 0 (bstr "Sound") OWN_NAME [(bstr "RollOffMaxDistance", VFloat32 1176256512)]] /\
  one_xml "Sound" "MaxDistance" (VFloat32 1176256512) = Ok [mkInst 1 0 (bstr "Sound") OWN_NAME [(bstr "RollOffMaxDistance", VFloat32 1176256512)]].
Proof. split; vm_compute; reflexivity. Qed.
Example recorded_finding_use2022materials :
  one_bin "MaterialService" "Use2022Materials" (VBool false) = Ok [mkInst 1 0 (bstr "MaterialService") OWN_NAME [(bstr "Use2022MaterialsXml", VBool false)]] /\
  one_xml "MaterialService" "Use2022Materials" (VBool false) = Ok [mkInst 1 0 (bstr "MaterialService") OWN_NAME [(bstr "Use2022MaterialsXml", VBool false)]].
Proof. split; vm_compute; reflexivity. Qed.
Example recorded_finding_sound_mindistance :
  find_prop (cd_props (match get_class D "Sound" with Some c => c | None => mkCD "" None false [] [] end)) "MinDistance"
    = Some (mkPD "MinDistance" (DValue 11) (KCanon PDoesNot)) /\
  one_bin "Sound" "MinDistance" (VFloat32 1092616192) = Ok [mkInst 1 0 (bstr "Sound") OWN_NAME []] /\
  one_xml "Sound" "MinDistance" (VFloat32 1092616192) = Ok [mkInst 1 0 (bstr "Sound") OWN_NAME []].
Proof. repeat split; vm_compute; reflexivity. Qed.

Print Assumptions default_instance_spec.
Print Assumptions bundled_defaults_binary.
Print Assumptions bundled_defaults_binary_all.
Print Assumptions bundled_defaults_xml.
Print Assumptions bundled_defaults_xml_all.
Print Assumptions bundled_defaults_agree.
Print Assumptions bundled_defaults_binary_any_order.
Print Assumptions bundled_defaults_xml_any_order.
Print Assumptions bundled_defaults_agree_any_order.
Print Assumptions bundled_defaults_binary_compressed.
Print Assumptions compressed_example.
Print Assumptions recorded_findings_not_default_keys.
Print Assumptions folder_roundtrip_example.
Print Assumptions terrain_material_colors_example.
