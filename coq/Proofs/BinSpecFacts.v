(* BinSpecFacts.v — the document codec of the binary format (Spec/BinSpec.v) round-trips with itself:
   per value type (from the laws of Proofs/BytesFacts.v), per chunk, per file; and the structural clauses of C03 that hold by
   construction of the decoder.  Standard library only, no axioms. *)
From Coq Require Import List NArith ZArith Lia Bool Arith.
From RbxVerif Require Import Base Bytes Value BytesFacts Lz4 Lz4Facts BinSpec.
Import ListNotations.
Open Scope N_scope.

Local Notation "x <~ p ;; k" := (pbind p (fun x => k)) (at level 61, p at next level, right associativity).

(* ------------------------------------------------------------------------------------------ *)
(* 0. small tools                                                                               *)
(* ------------------------------------------------------------------------------------------ *)
Lemma forallb_In {A} (f : A -> bool) l x : forallb f l = true -> In x l -> f x = true.
Proof. intros H. rewrite forallb_forall in H. apply H. Qed.

Lemma pow32 : 2 ^ 32 = 4294967296. Proof. reflexivity. Qed.
Lemma pow64 : 2 ^ 64 = 18446744073709551616. Proof. reflexivity. Qed.

Lemma f32_ok_lt x : f32_ok x = true -> x < 2 ^ 32.
Proof. unfold f32_ok. rewrite pow32. apply N.ltb_lt. Qed.
Lemma u32_ok_lt x : u32_ok x = true -> x < 2 ^ 32.
Proof. unfold u32_ok. rewrite pow32. apply N.ltb_lt. Qed.

Lemma combine_map {A B C} (f : A -> B) (g : A -> C) l :
  combine (List.map f l) (List.map g l) = List.map (fun x => (f x, g x)) l.
Proof. induction l as [|x l IH]; cbn; [reflexivity|now rewrite IH]. Qed.

Lemma map_id_ext {A} (f : A -> A) l : (forall x, f x = x) -> List.map f l = l.
Proof. intros H. induction l as [|x l IH]; cbn; [reflexivity|now rewrite H, IH]. Qed.

Lemma read_le_n_app n v rest : v < 2 ^ (8 * N.of_nat n) -> read_le n (le_bytes n v ++ rest) = Ok (v, rest).
Proof. apply read_le_app. Qed.

Lemma read_le4 v rest : v < 4294967296 -> read_le 4 (le_bytes 4 v ++ rest) = Ok (v, rest).
Proof. intros H. now apply read_le_app. Qed.
Lemma read_le8 v rest : v < 18446744073709551616 -> read_le 8 (le_bytes 8 v ++ rest) = Ok (v, rest).
Proof. intros H. now apply read_le_app. Qed.
Lemma read_le2 v rest : v < 65536 -> read_le 2 (le_bytes 2 v ++ rest) = Ok (v, rest).
Proof. intros H. now apply read_le_app. Qed.
Lemma read_le1 v rest : v < 256 -> read_le 1 (le_bytes 1 v ++ rest) = Ok (v, rest).
Proof. intros H. now apply read_le_app. Qed.

Lemma read_u8_cons v rest : v < 256 -> read_u8 (v :: rest) = Ok (v, rest).
Proof.
  intros H. unfold read_u8, pbind, read_exact. cbn [take_n]. unfold pret. cbn [of_le].
  f_equal. f_equal. lia.
Qed.

(* the bind of a parser that succeeds *)
Lemma pb {A B} (p : parser A) (f : A -> parser B) b a b1 : p b = Ok (a, b1) -> pbind p f b = f a b1.
Proof. apply pbind_ok_intro. Qed.

(* ------------------------------------------------------------------------------------------ *)
(* 1. primitives                                                                                *)
(* ------------------------------------------------------------------------------------------ *)
Lemma len_ok_lt {A} (l : list A) : len_ok l = true -> N.of_nat (length l) < 4294967296.
Proof. unfold len_ok, u32_ok. apply N.ltb_lt. Qed.

Lemma p_count_app {A} (l : list A) body rest :
  len_ok l = true -> (length l <= length body)%nat ->
  p_count (e_len l ++ body ++ rest) = Ok (length l, body ++ rest).
Proof.
  intros Hl Hb. unfold p_count, e_len. rewrite read_le4 by now apply len_ok_lt.
  rewrite shorter_than_spec. replace (N.ltb _ _) with false.
  - now rewrite Nat2N.id.
  - symmetry. apply N.ltb_ge. rewrite app_length. lia.
Qed.

Lemma p_count4_app {A} (l : list A) body rest :
  len_ok l = true -> (4 * length l <= length body)%nat ->
  p_count4 (e_len l ++ body ++ rest) = Ok (length l, body ++ rest).
Proof.
  intros Hl Hb. unfold p_count4, e_len. rewrite read_le4 by now apply len_ok_lt.
  rewrite shorter_than_spec. replace (N.ltb _ _) with false.
  - now rewrite Nat2N.id.
  - symmetry. apply N.ltb_ge. rewrite app_length. lia.
Qed.

Lemma p_string_app s rest : len_ok s = true -> p_string (e_string s ++ rest) = Ok (s, rest).
Proof.
  intros H. unfold p_string, e_string. rewrite <- app_assoc.
  rewrite (pb _ _ _ (length s) (s ++ rest)) by (apply p_count_app; [exact H|lia]).
  apply read_exact_app.
Qed.

Lemma str_ok_len s : str_ok s = true -> len_ok s = true.
Proof. unfold str_ok. intros H. now apply andb_true_iff in H. Qed.

Lemma prepeat_app {A} (p : parser A) (enc : A -> bytes) l rest :
  (forall v r, In v l -> p (enc v ++ r) = Ok (v, r)) ->
  prepeat (length l) p (flat_map enc l ++ rest) = Ok (l, rest).
Proof.
  intros H. induction l as [|x l IH]; cbn [length prepeat flat_map app].
  - reflexivity.
  - rewrite <- app_assoc. rewrite (pb _ _ _ x (flat_map enc l ++ rest)) by (apply H; now left).
    rewrite (pb _ _ _ l rest) by (apply IH; intros; apply H; now right).
    reflexivity.
Qed.

Lemma flat_map_min_length {A} (enc : A -> bytes) l :
  (forall v, In v l -> (1 <= length (enc v))%nat) -> (length l <= length (flat_map enc l))%nat.
Proof.
  intros H. induction l as [|x l IH]; cbn [flat_map length]; [lia|].
  rewrite app_length. specialize (H x (or_introl eq_refl)) as Hx.
  assert (length l <= length (flat_map enc l))%nat by (apply IH; intros; apply H; now right). lia.
Qed.

Lemma p_f32le_app x rest : f32_ok x = true -> p_f32le (e_f32le x ++ rest) = Ok (x, rest).
Proof. intros H. unfold p_f32le, e_f32le. apply read_le4. now apply N.ltb_lt. Qed.

Lemma e_f32le_length x : length (e_f32le x) = 4%nat.
Proof. apply le_bytes_length. Qed.

Lemma p_v3le_app v rest : vec3_ok v = true -> p_v3le (e_v3le v ++ rest) = Ok (v, rest).
Proof.
  destruct v as [x y z]. unfold vec3_ok. cbn [vx vy vz]. intros H.
  apply andb_true_iff in H. destruct H as [H Hz]. apply andb_true_iff in H. destruct H as [Hx Hy].
  unfold p_v3le, e_v3le. cbn [vx vy vz]. rewrite <- !app_assoc.
  rewrite (pb _ _ _ x _ (p_f32le_app x _ Hx)).
  rewrite (pb _ _ _ y _ (p_f32le_app y _ Hy)).
  rewrite (pb _ _ _ z _ (p_f32le_app z _ Hz)).
  reflexivity.
Qed.

Lemma e_v3le_length v : length (e_v3le v) = 12%nat.
Proof. unfold e_v3le. rewrite !app_length, !e_f32le_length. reflexivity. Qed.

Lemma wrap16 z : in_i16 z = true -> wrap_s 16 (wrap_u 16 z) = z.
Proof.
  unfold in_i16, wrap_s, wrap_u. intros H. apply andb_true_iff in H. destruct H as [H1 H2].
  apply Z.leb_le in H1. apply Z.ltb_lt in H2.
  change (2 ^ Z.of_N 16)%Z with 65536%Z. change (2 ^ (16 - 1)) with 32768.
  destruct (Z_lt_le_dec z 0) as [Hn|Hp].
  - assert (E : (z mod 65536 = z + 65536)%Z).
    { symmetry. apply (Z.mod_unique _ _ (-1)); lia. }
    rewrite E. replace (N.ltb _ _) with false.
    + rewrite Z2N.id by lia. lia.
    + symmetry. apply N.ltb_ge. apply N2Z.inj_le. rewrite Z2N.id by lia. cbn. lia.
  - rewrite Z.mod_small by lia. replace (N.ltb _ _) with true.
    + rewrite Z2N.id by lia. reflexivity.
    + symmetry. apply N.ltb_lt. apply N2Z.inj_lt. rewrite Z2N.id by lia. cbn. lia.
Qed.

Lemma p_i16_app z rest : in_i16 z = true -> p_i16 (e_i16 z ++ rest) = Ok (z, rest).
Proof.
  intros H. unfold p_i16, e_i16, read_le_i.
  rewrite (pb _ _ _ (wrap_u 16 z) rest).
  - unfold pret. now rewrite wrap16.
  - apply read_le2. unfold wrap_u. change (2 ^ Z.of_N 16)%Z with 65536%Z.
    pose proof (Z.mod_pos_bound z 65536 ltac:(lia)). apply N2Z.inj_lt. rewrite Z2N.id by lia. cbn. lia.
Qed.

Lemma p_bool_app b rest : p_bool (e_bool b :: rest) = Ok (b, rest).
Proof.
  unfold p_bool. destruct b; cbn [e_bool].
  - rewrite (pb _ _ _ 1 rest) by (apply read_u8_cons; lia). reflexivity.
  - rewrite (pb _ _ _ 0 rest) by (apply read_u8_cons; lia). reflexivity.
Qed.

(* ------------------------------------------------------------------------------------------ *)
(* 2. arrays of components                                                                      *)
(* ------------------------------------------------------------------------------------------ *)
Lemma f32arr_app {A} (g : A -> f32) (l : list A) rest :
  (forall x, In x l -> f32_ok (g x) = true) ->
  dec_f32_array (length l) (enc_f32_array (List.map g l) ++ rest) = Ok (List.map g l, rest).
Proof.
  intros H. rewrite <- (map_length g l). apply f32_array_roundtrip.
  apply Forall_forall. intros v Hv. apply in_map_iff in Hv. destruct Hv as [x [<- Hx]]. now apply f32_ok_lt, H.
Qed.

Lemma i32arr_app {A} (g : A -> Z) (l : list A) rest :
  (forall x, In x l -> in_i32 (g x) = true) ->
  dec_i32_array (length l) (enc_i32_array (List.map g l) ++ rest) = Ok (List.map g l, rest).
Proof.
  intros H. rewrite <- (map_length g l). apply i32_array_roundtrip.
  apply Forall_forall. intros v Hv. apply in_map_iff in Hv. destruct Hv as [x [<- Hx]]. now apply H.
Qed.

Lemma p_v3s_app l rest : forallb vec3_ok l = true -> p_v3s (length l) (e_v3s l ++ rest) = Ok (l, rest).
Proof.
  intros H. unfold p_v3s, e_v3s. rewrite <- !app_assoc.
  assert (Hc : forall x, In x l -> vec3_ok x = true) by (intros; eapply forallb_In; eauto).
  rewrite (pb _ _ _ _ _ (f32arr_app vx l _ ltac:(intros x Hx; specialize (Hc x Hx); unfold vec3_ok in Hc; now repeat (apply andb_true_iff in Hc; destruct Hc as [Hc ?])))).
  rewrite (pb _ _ _ _ _ (f32arr_app vy l _ ltac:(intros x Hx; specialize (Hc x Hx); unfold vec3_ok in Hc; apply andb_true_iff in Hc; destruct Hc as [Hc ?]; now apply andb_true_iff in Hc))).
  rewrite (pb _ _ _ _ _ (f32arr_app vz l _ ltac:(intros x Hx; specialize (Hc x Hx); unfold vec3_ok in Hc; now apply andb_true_iff in Hc))).
  unfold pret. f_equal. f_equal.
  rewrite combine_map, combine_map, map_map. apply map_id_ext. now intros [x y z].
Qed.

Lemma p_v2s_app l rest : forallb vec2_ok l = true -> p_v2s (length l) (e_v2s l ++ rest) = Ok (l, rest).
Proof.
  intros H. unfold p_v2s, e_v2s. rewrite <- !app_assoc.
  assert (Hc : forall x, In x l -> vec2_ok x = true) by (intros; eapply forallb_In; eauto).
  rewrite (pb _ _ _ _ _ (f32arr_app v2x l _ ltac:(intros x Hx; specialize (Hc x Hx); unfold vec2_ok in Hc; now apply andb_true_iff in Hc))).
  rewrite (pb _ _ _ _ _ (f32arr_app v2y l _ ltac:(intros x Hx; specialize (Hc x Hx); unfold vec2_ok in Hc; now apply andb_true_iff in Hc))).
  unfold pret. f_equal. f_equal.
  rewrite combine_map, map_map. apply map_id_ext. now intros [x y].
Qed.

Lemma e_v3s_length l : length (e_v3s l) = (12 * length l)%nat.
Proof. unfold e_v3s. rewrite !app_length, !enc_f32_array_length, !map_length. lia. Qed.

(* ---- rotation ids *)
Lemma vec3_eqb_eq a b : bs_vec3_eqb a b = true -> a = b.
Proof.
  destruct a as [a1 a2 a3], b as [b1 b2 b3]. unfold bs_vec3_eqb. cbn [vx vy vz]. intros H.
  apply andb_true_iff in H. destruct H as [H H3]. apply andb_true_iff in H. destruct H as [H1 H2].
  apply N.eqb_eq in H1, H2, H3. now subst.
Qed.
Lemma mat3_eqb_eq a b : bs_mat3_eqb a b = true -> a = b.
Proof.
  destruct a as [a1 a2 a3], b as [b1 b2 b3]. unfold bs_mat3_eqb. cbn [mx my mz]. intros H.
  apply andb_true_iff in H. destruct H as [H H3]. apply andb_true_iff in H. destruct H as [H1 H2].
  apply vec3_eqb_eq in H1, H2, H3. now subst.
Qed.

(* the document's table: 24 distinct ids, none of them 0, all below 256 *)
Lemma rot_ids_nodup : NoDup (List.map fst bs_rot_table).
Proof.
  unfold bs_rot_table. rewrite map_map. cbn [fst]. 
  change (NoDup (List.map (fun e : N * (Z * Z * Z) => fst e) bs_rot_angles)).
  vm_compute. repeat (constructor; [cbn; intuition discriminate|]). constructor.
Qed.

Lemma id_by_rot_sound t m id : NoDup (List.map fst t) -> id_by_rot t m = Some id -> rot_by_id t id = Some m.
Proof.
  induction t as [|[i m'] t IH]; intros Hnd H; cbn in H; [discriminate|].
  cbn [rot_by_id]. destruct (bs_mat3_eqb m' m) eqn:E.
  - injection H as <-. rewrite N.eqb_refl. now apply mat3_eqb_eq in E; subst.
  - cbn [List.map fst] in Hnd. inversion Hnd as [|? ? Hni Hnd']; subst.
    destruct (N.eqb i id) eqn:Ei.
    + apply N.eqb_eq in Ei. subst. exfalso. apply Hni.
      clear -H. induction t as [|[j mj] t IH]; cbn in H; [discriminate|].
      destruct (bs_mat3_eqb mj m); [injection H as <-; now left|right; now apply IH].
    + now apply IH.
Qed.

Lemma id_by_rot_range m id : id_by_rot bs_rot_table m = Some id -> id <> 0 /\ id < 256.
Proof.
  intros H.
  assert (In id (List.map fst bs_rot_table)).
  { revert H. generalize bs_rot_table. induction l as [|[j mj] t IH]; cbn; [discriminate|].
    destruct (bs_mat3_eqb mj m); intros H; [injection H as <-; now left|right; now apply IH]. }
  revert H0. vm_compute. intuition (subst; try discriminate; reflexivity).
Qed.

Lemma mat3_ok_rows m : mat3_ok m = true -> vec3_ok (mx m) = true /\ vec3_ok (my m) = true /\ vec3_ok (mz m) = true.
Proof.
  unfold mat3_ok. intros H. apply andb_true_iff in H. destruct H as [H H3]. apply andb_true_iff in H. now destruct H.
Qed.

Lemma p_rot_app u m rest : mat3_ok m = true -> p_rot (e_rot u m ++ rest) = Ok (m, rest).
Proof.
  intros Hm. unfold p_rot, e_rot.
  destruct (if u then id_by_rot bs_rot_table m else None) as [id|] eqn:E.
  - destruct u; [|discriminate].
    pose proof (id_by_rot_range _ _ E) as [Hnz Hlt].
    cbn [app]. rewrite (pb _ _ _ id rest) by (now apply read_u8_cons).
    replace (N.eqb id 0) with false by (symmetry; now apply N.eqb_neq).
    now rewrite (id_by_rot_sound _ _ _ rot_ids_nodup E).
  - cbn [app]. rewrite (pb _ _ _ 0 _) by (apply read_u8_cons; lia).
    cbn [N.eqb]. destruct (mat3_ok_rows _ Hm) as [H1 [H2 H3]]. rewrite <- !app_assoc.
    rewrite (pb _ _ _ _ _ (p_v3le_app (mx m) _ H1)).
    rewrite (pb _ _ _ _ _ (p_v3le_app (my m) _ H2)).
    rewrite (pb _ _ _ _ _ (p_v3le_app (mz m) _ H3)).
    unfold pret. now destruct m.
Qed.

Lemma cframe_ok_parts c : cframe_ok c = true -> vec3_ok (cf_pos c) = true /\ mat3_ok (cf_rot c) = true.
Proof. unfold cframe_ok. intros H. now apply andb_true_iff in H. Qed.

Lemma p_cframes_app u l rest : forallb cframe_ok l = true -> p_cframes (length l) (e_cframes u l ++ rest) = Ok (l, rest).
Proof.
  intros H. unfold p_cframes, e_cframes. rewrite <- app_assoc.
  assert (Hc : forall x, In x l -> cframe_ok x = true) by (intros; eapply forallb_In; eauto).
  assert (E1 : forall tail, prepeat (length l) p_rot (flat_map (fun c => e_rot u (cf_rot c)) l ++ tail)
               = Ok (List.map cf_rot l, tail)).
  { clear H. induction l as [|c l IH]; intros tail; cbn [length prepeat flat_map app List.map]; [reflexivity|].
    rewrite <- app_assoc. rewrite (pb _ _ _ (cf_rot c) _) by (apply p_rot_app, cframe_ok_parts, Hc; now left).
    rewrite (pb _ _ _ _ _ (IH ltac:(intros; apply Hc; now right) tail)). reflexivity. }
  rewrite (pb _ _ _ _ _ (E1 _)).
  rewrite <- (map_length cf_pos l) at 1.
  rewrite (pb _ _ _ _ _ (p_v3s_app (List.map cf_pos l) rest ltac:(apply forallb_forall; intros x Hx; apply in_map_iff in Hx; destruct Hx as [c [<- Hc']]; now apply cframe_ok_parts, Hc))).
  unfold pret. f_equal. f_equal. rewrite combine_map, map_map. apply map_id_ext. now intros [p r].
Qed.

(* ------------------------------------------------------------------------------------------ *)
(* 3. elements of the types stored in sequence                                                  *)
(* ------------------------------------------------------------------------------------------ *)
Lemma andb3 a b c : a && b && c = true -> a = true /\ b = true /\ c = true.
Proof. intros H. apply andb_true_iff in H. destruct H as [H ?]. apply andb_true_iff in H. tauto. Qed.

Lemma p_nseq_app k rest :
  len_ok k = true -> forallb (fun t : f32 * f32 * f32 => f32_ok (fst (fst t)) && f32_ok (snd (fst t)) && f32_ok (snd t)) k = true ->
  p_nseq (e_nseq k ++ rest) = Ok (k, rest).
Proof.
  intros Hl Hk. unfold p_nseq, e_nseq. rewrite <- app_assoc.
  erewrite pb.
  2:{ apply p_count_app; [exact Hl|]. apply flat_map_min_length. intros v _. rewrite !app_length, !e_f32le_length. lia. }
  apply prepeat_app. intros [[t v] e] r Hin. pose proof (forallb_In _ _ _ Hk Hin) as H. cbn [fst snd] in H.
  apply andb3 in H. destruct H as [H1 [H2 H3]]. cbn [fst snd]. rewrite <- !app_assoc.
  rewrite (pb _ _ _ _ _ (p_f32le_app t _ H1)), (pb _ _ _ _ _ (p_f32le_app v _ H2)), (pb _ _ _ _ _ (p_f32le_app e _ H3)).
  reflexivity.
Qed.

Lemma p_cseq_app k rest :
  len_ok k = true -> forallb (fun t : f32 * vec3 * f32 => f32_ok (fst (fst t)) && vec3_ok (snd (fst t)) && f32_ok (snd t)) k = true ->
  p_cseq (e_cseq k ++ rest) = Ok (k, rest).
Proof.
  intros Hl Hk. unfold p_cseq, e_cseq. rewrite <- app_assoc.
  erewrite pb.
  2:{ apply p_count_app; [exact Hl|]. apply flat_map_min_length. intros v _. rewrite !app_length, !e_f32le_length, e_v3le_length. lia. }
  apply prepeat_app. intros [[t v] e] r Hin. pose proof (forallb_In _ _ _ Hk Hin) as H. cbn [fst snd] in H.
  apply andb3 in H. destruct H as [H1 [H2 H3]]. cbn [fst snd]. rewrite <- !app_assoc.
  rewrite (pb _ _ _ _ _ (p_f32le_app t _ H1)), (pb _ _ _ _ _ (p_v3le_app v _ H2)), (pb _ _ _ _ _ (p_f32le_app e _ H3)).
  reflexivity.
Qed.

Lemma p_phys_app p rest : phys_ok p = true -> p_phys (e_phys p ++ rest) = Ok (p, rest).
Proof.
  unfold p_phys, e_phys. destruct p as [q|]; intros H.
  - cbn [app]. rewrite (pb _ _ _ 1 _) by (apply read_u8_cons; lia). cbn [N.eqb Pos.eqb].
    cbn [phys_ok] in H. destruct q as [d f e fw ew]. cbn [ph_density ph_friction ph_elasticity ph_friction_weight ph_elasticity_weight] in *.
    apply andb_true_iff in H. destruct H as [H H5]. apply andb_true_iff in H. destruct H as [H H4].
    apply andb3 in H. destruct H as [H1 [H2 H3]]. rewrite <- !app_assoc.
    rewrite (pb _ _ _ _ _ (p_f32le_app d _ H1)), (pb _ _ _ _ _ (p_f32le_app f _ H2)), (pb _ _ _ _ _ (p_f32le_app e _ H3)),
            (pb _ _ _ _ _ (p_f32le_app fw _ H4)), (pb _ _ _ _ _ (p_f32le_app ew _ H5)).
    reflexivity.
  - cbn [app]. rewrite (pb _ _ _ 0 _) by (apply read_u8_cons; lia). reflexivity.
Qed.

Lemma p_font_app t rest :
  (let '(fam, w, s, c) := t in str_ok fam && N.ltb w 65536 && byte_ok s && str_ok c) = true ->
  p_font (e_font t ++ rest) = Ok (t, rest).
Proof.
  destruct t as [[[fam w] s] c]. intros H.
  apply andb_true_iff in H. destruct H as [H Hc]. apply andb3 in H. destruct H as [Hf [Hw Hs]].
  apply N.ltb_lt in Hw. apply N.ltb_lt in Hs.
  unfold p_font, e_font. rewrite <- !app_assoc.
  rewrite (pb _ _ _ _ _ (p_string_app fam _ (str_ok_len _ Hf))).
  rewrite (pb _ _ _ _ _ (read_le2 w _ Hw)).
  erewrite (pb read_u8).
  2:{ unfold read_u8. change (pbind (read_exact 1) (fun b => pret (of_le b))) with (read_le 1). now apply read_le1. }
  rewrite (pb _ _ _ _ _ (p_string_app c _ (str_ok_len _ Hc))). reflexivity.
Qed.

(* UniqueId rows, under every reading *)
Lemma firstn_app_exact {A} (a b : list A) n : length a = n -> firstn n (a ++ b) = a.
Proof. intros <-. rewrite firstn_app, Nat.sub_diag, firstn_all. cbn. apply app_nil_r. Qed.
Lemma skipn_app_exact {A} (a b : list A) n : length a = n -> skipn n (a ++ b) = b.
Proof. intros <-. rewrite skipn_app, Nat.sub_diag, skipn_all. reflexivity. Qed.

Lemma wrap_u64_lt z : wrap_u 64 z < 2 ^ 64.
Proof. rewrite pow64. apply wrap_u64_bound. Qed.

Lemma d_uid_e_uid rd t :
  (u32_ok (fst (fst t)) && u32_ok (snd (fst t)) && in_i64 (snd t)) = true ->
  length (e_uid rd t) = 16%nat /\ d_uid rd (e_uid rd t) = t.
Proof.
  destruct t as [[i tm] r]. cbn [fst snd]. intros H. apply andb3 in H. destruct H as [Hi [Ht Hr]].
  apply u32_ok_lt in Hi, Ht. rewrite pow32 in Hi, Ht.
  unfold e_uid, d_uid.
  set (rb := if rd_uid_rot rd then rotl64 (wrap_u 64 r) else wrap_u 64 r).
  assert (Hrb : rb < 18446744073709551616).
  { unfold rb. destruct (rd_uid_rot rd); [rewrite <- pow64; apply rotl64_bound|]; apply wrap_u64_lt. }
  assert (Hback : wrap_s 64 (if rd_uid_rot rd then rotr64 rb else rb) = r).
  { unfold rb. destruct (rd_uid_rot rd).
    - rewrite rot64_roundtrip by apply wrap_u64_lt. now apply wrap_roundtrip64.
    - now apply wrap_roundtrip64. }
  destruct (rd_uid_be rd).
  - split; [rewrite !app_length, !be_bytes_length; reflexivity|].
    rewrite (firstn_app_exact (be_bytes 4 i)) by apply be_bytes_length.
    rewrite (skipn_app_exact (be_bytes 4 i)) by apply be_bytes_length.
    rewrite (firstn_app_exact (be_bytes 4 tm)) by apply be_bytes_length.
    rewrite app_assoc.
    rewrite (skipn_app_exact (be_bytes 4 i ++ be_bytes 4 tm)) by (rewrite app_length, !be_bytes_length; reflexivity).
    rewrite !be4_roundtrip by assumption. rewrite be8_roundtrip by assumption. now rewrite Hback.
  - split; [rewrite !app_length, !le_bytes_length; reflexivity|].
    rewrite (firstn_app_exact (le_bytes 4 i)) by apply le_bytes_length.
    rewrite (skipn_app_exact (le_bytes 4 i)) by apply le_bytes_length.
    rewrite (firstn_app_exact (le_bytes 4 tm)) by apply le_bytes_length.
    rewrite app_assoc.
    rewrite (skipn_app_exact (le_bytes 4 i ++ le_bytes 4 tm)) by (rewrite app_length, !le_bytes_length; reflexivity).
    rewrite !(le_roundtrip 4) by assumption. rewrite (le_roundtrip 8) by assumption. now rewrite Hback.
Qed.

(* SharedString indices, under both readings *)
Lemma p_sstr_idx_app rd l rest : forallb u32_ok l = true ->
  p_sstr_idx rd (length l) (e_sstr_idx rd l ++ rest) = Ok (l, rest).
Proof.
  intros H. unfold p_sstr_idx, e_sstr_idx. destruct (rd_sstr_be rd).
  - apply u32_array_roundtrip. apply Forall_forall. intros v Hv. apply u32_ok_lt. eapply forallb_In; eauto.
  - apply (array_roundtrip_gen 4 (le_bytes 4) of_le). intros v Hv. split; [apply le_bytes_length|].
    apply (le_roundtrip 4). pose proof (forallb_In _ _ _ H Hv) as Hu. apply u32_ok_lt in Hu. now rewrite pow32 in Hu.
Qed.

(* Content *)
Lemma content_zip_ok l :
  content_zip (List.map content_type l) (content_uris l) (content_objs l) = Some l.
Proof.
  induction l as [|c l IH]; [reflexivity|].
  destruct c; cbn [List.map content_type content_uris content_objs content_zip N.eqb Pos.eqb]; now rewrite IH.
Qed.

Lemma p_ctypes_app rd (l : list bs_content) rest :
  p_ctypes rd (length l) (e_ctypes rd (List.map content_type l) ++ rest) = Ok (List.map content_type l, rest).
Proof.
  unfold p_ctypes, e_ctypes. destruct (rd_content_types_i32 rd).
  - rewrite map_map.
    rewrite (pb _ _ _ _ _ (i32arr_app (fun c => Z.of_N (content_type c)) l rest ltac:(intros c _; now destruct c))).
    unfold pret. f_equal. f_equal. rewrite map_map. apply map_ext. now intros [].
  - rewrite <- (map_length content_type l). apply u32_array_roundtrip.
    apply Forall_forall. intros v Hv. apply in_map_iff in Hv. destruct Hv as [c [<- _]]. now destruct c.
Qed.

Lemma content_parts l : forallb content_ok l = true ->
  forallb str_ok (content_uris l) = true /\ forallb in_i32 (content_objs l) = true.
Proof.
  induction l as [|c l IH]; [now split|]. cbn [forallb]. intros H. apply andb_true_iff in H. destruct H as [Hc H].
  destruct (IH H) as [H1 H2]. destruct c; cbn [content_uris content_objs forallb content_ok] in *; split; try assumption.
  - now rewrite Hc.
  - now rewrite Hc.
Qed.

Lemma filter_len_le_uris l : (length (content_uris l) <= length l)%nat.
Proof. induction l as [|[] l IH]; cbn; lia. Qed.
Lemma filter_len_le_objs l : (length (content_objs l) <= length l)%nat.
Proof. induction l as [|[] l IH]; cbn; lia. Qed.

Lemma len_ok_le {A B} (a : list A) (b : list B) : (length a <= length b)%nat -> len_ok b = true -> len_ok a = true.
Proof. unfold len_ok, u32_ok. intros H Hb. apply N.ltb_lt in Hb. apply N.ltb_lt. lia. Qed.

Lemma in_i32_Forall l : forallb in_i32 l = true -> Forall (fun v => in_i32 v = true) l.
Proof. intros H. apply Forall_forall. intros v Hv. eapply forallb_In; eauto. Qed.

Lemma p_content_app rd l ext rest :
  forallb content_ok l = true -> forallb in_i32 ext = true -> len_ok l = true -> len_ok ext = true ->
  p_content rd (length l) (e_content rd l ext ++ rest) = Ok (KContent l ext, rest).
Proof.
  intros Hl He Hll Hle. destruct (content_parts l Hl) as [Hu Ho].
  unfold p_content, e_content. rewrite <- !app_assoc.
  rewrite (pb _ _ _ _ _ (p_ctypes_app rd l _)).
  erewrite (pb p_count).
  2:{ apply p_count_app; [apply (len_ok_le _ l (filter_len_le_uris l) Hll)|].
      apply flat_map_min_length. intros v _. unfold e_string, e_len. rewrite app_length, le_bytes_length. lia. }
  erewrite (pb (prepeat _ _)).
  2:{ apply prepeat_app. intros v r Hv. apply p_string_app, str_ok_len. eapply forallb_In; eauto. }
  erewrite (pb p_count4).
  2:{ apply p_count4_app; [apply (len_ok_le _ l (filter_len_le_objs l) Hll)|]. rewrite enc_ref_array_length. lia. }
  rewrite (pb _ _ _ _ _ (ref_array_roundtrip (content_objs l) _ (in_i32_Forall _ Ho))).
  erewrite (pb p_count4).
  2:{ rewrite <- (app_nil_r (enc_ref_array ext)) at 1. rewrite <- app_assoc. cbn [app].
      replace (enc_ref_array ext ++ rest) with (enc_ref_array ext ++ rest) by reflexivity.
      apply (p_count4_app ext (enc_ref_array ext) rest Hle). rewrite enc_ref_array_length. lia. }
  rewrite (pb _ _ _ _ _ (ref_array_roundtrip ext _ (in_i32_Forall _ He))).
  now rewrite content_zip_ok.
Qed.

(* ------------------------------------------------------------------------------------------ *)
(* 4. columns: the Values field of a PROP chunk, every Type ID of the document                  *)
(* ------------------------------------------------------------------------------------------ *)
Ltac col_start H :=
  intros H; cbn [bs_col_ok] in H; cbn [bs_col_type bs_col_len bs_enc_col];
  unfold bs_dec_col; cbv iota.

Lemma strings_app l rest : forallb str_ok l = true ->
  prepeat (length l) p_string (flat_map e_string l ++ rest) = Ok (l, rest).
Proof.
  intros H. apply prepeat_app. intros v r Hv. apply p_string_app, str_ok_len. eapply forallb_In; eauto.
Qed.

Lemma bools_app l rest : prepeat (length l) p_bool (List.map e_bool l ++ rest) = Ok (l, rest).
Proof.
  induction l as [|b l IH]; cbn [length prepeat List.map app]; [reflexivity|].
  rewrite (pb _ _ _ _ _ (p_bool_app b _)). now rewrite (pb _ _ _ _ _ IH).
Qed.

Lemma read_exact_bytes l rest : read_exact (length l) (l ++ rest) = Ok (l, rest).
Proof. apply read_exact_app. Qed.

Lemma p_marker_app m rest : m < 256 -> p_marker m (m :: rest) = Ok (tt, rest).
Proof.
  intros H. unfold p_marker. rewrite (pb _ _ _ m rest) by now apply read_u8_cons. now rewrite N.eqb_refl.
Qed.

Theorem bs_col_roundtrip rd u c rest : bs_col_ok c = true ->
  bs_dec_col rd (bs_col_type c) (bs_col_len c) (bs_enc_col rd u c ++ rest) = Ok (c, rest).
Proof.
  destruct c.
  - (* String *) col_start H. now rewrite (pb _ _ _ _ _ (strings_app l rest H)).
  - (* Bool *) col_start H. now rewrite (pb _ _ _ _ _ (bools_app l rest)).
  - (* Int32 *) col_start H. now rewrite (pb _ _ _ _ _ (i32_array_roundtrip l rest (in_i32_Forall _ H))).
  - (* Float32 *) col_start H.
    rewrite (pb _ _ _ l rest); [reflexivity|].
    apply f32_array_roundtrip, Forall_forall. intros v Hv. apply f32_ok_lt. eapply forallb_In; eauto.
  - (* Float64 *) col_start H.
    rewrite (pb _ _ _ l rest); [reflexivity|].
    apply prepeat_app. intros v r Hv. apply read_le8. apply N.ltb_lt. exact (forallb_In _ _ _ H Hv).
  - (* UDim *) col_start H. rewrite <- app_assoc.
    assert (Hc : forall x, In x l -> udim_ok x = true) by (intros; eapply forallb_In; eauto).
    rewrite (pb _ _ _ _ _ (f32arr_app ud_scale l _ ltac:(intros x Hx; specialize (Hc x Hx); unfold udim_ok in Hc; now apply andb_true_iff in Hc))).
    rewrite (pb _ _ _ _ _ (i32arr_app ud_offset l _ ltac:(intros x Hx; specialize (Hc x Hx); unfold udim_ok in Hc; now apply andb_true_iff in Hc))).
    unfold pret. f_equal. f_equal. f_equal. rewrite combine_map, map_map. apply map_id_ext. now intros [s o].
  - (* UDim2 *) col_start H. rewrite <- !app_assoc.
    assert (Hc : forall x, In x l -> udim_ok (fst x) = true /\ udim_ok (snd x) = true).
    { intros x Hx. pose proof (forallb_In _ _ _ H Hx) as Hy. now apply andb_true_iff in Hy. }
    rewrite (pb _ _ _ _ _ (f32arr_app (fun t => ud_scale (fst t)) l _ ltac:(intros x Hx; destruct (Hc x Hx) as [Ha Hb]; unfold udim_ok in Ha; now apply andb_true_iff in Ha))).
    rewrite (pb _ _ _ _ _ (f32arr_app (fun t => ud_scale (snd t)) l _ ltac:(intros x Hx; destruct (Hc x Hx) as [Ha Hb]; unfold udim_ok in Hb; now apply andb_true_iff in Hb))).
    rewrite (pb _ _ _ _ _ (i32arr_app (fun t => ud_offset (fst t)) l _ ltac:(intros x Hx; destruct (Hc x Hx) as [Ha Hb]; unfold udim_ok in Ha; now apply andb_true_iff in Ha))).
    rewrite (pb _ _ _ _ _ (i32arr_app (fun t => ud_offset (snd t)) l _ ltac:(intros x Hx; destruct (Hc x Hx) as [Ha Hb]; unfold udim_ok in Hb; now apply andb_true_iff in Hb))).
    unfold pret. f_equal. f_equal. f_equal. rewrite !combine_map, map_map. apply map_id_ext. now intros [[a b] [c d]].
  - (* Ray *) col_start H.
    rewrite (pb _ _ _ l rest); [reflexivity|].
    apply (prepeat_app _ (fun t : vec3 * vec3 => e_v3le (fst t) ++ e_v3le (snd t))). intros [o d] r Hv.
    pose proof (forallb_In _ _ _ H Hv) as Hy. cbn [fst snd] in *. apply andb_true_iff in Hy. destruct Hy as [Ho Hd].
    rewrite <- app_assoc. rewrite (pb _ _ _ _ _ (p_v3le_app o _ Ho)), (pb _ _ _ _ _ (p_v3le_app d _ Hd)). reflexivity.
  - (* Faces *) col_start H. now rewrite (pb _ _ _ _ _ (read_exact_bytes l rest)).
  - (* Axes *) col_start H. now rewrite (pb _ _ _ _ _ (read_exact_bytes l rest)).
  - (* BrickColor *) col_start H.
    rewrite (pb _ _ _ l rest); [reflexivity|].
    apply u32_array_roundtrip, Forall_forall. intros v Hv. apply u32_ok_lt. eapply forallb_In; eauto.
  - (* Color3 *) col_start H. now rewrite (pb _ _ _ _ _ (p_v3s_app l rest H)).
  - (* Vector2 *) col_start H. now rewrite (pb _ _ _ _ _ (p_v2s_app l rest H)).
  - (* Vector3 *) col_start H. now rewrite (pb _ _ _ _ _ (p_v3s_app l rest H)).
  - (* CFrame *) col_start H. now rewrite (pb _ _ _ _ _ (p_cframes_app u l rest H)).
  - (* Enum *) col_start H.
    rewrite (pb _ _ _ l rest); [reflexivity|].
    apply u32_array_roundtrip, Forall_forall. intros v Hv. apply u32_ok_lt. eapply forallb_In; eauto.
  - (* Referent *) col_start H. now rewrite (pb _ _ _ _ _ (ref_array_roundtrip l rest (in_i32_Forall _ H))).
  - (* Vector3int16 *) col_start H.
    rewrite (pb _ _ _ l rest); [reflexivity|].
    apply (prepeat_app _ (fun t : Z * Z * Z => e_i16 (fst (fst t)) ++ e_i16 (snd (fst t)) ++ e_i16 (snd t))). intros [[x y] z] r Hv.
    pose proof (forallb_In _ _ _ H Hv) as Hy. cbn [fst snd] in *. apply andb3 in Hy. destruct Hy as [Hx [Hy Hz]].
    rewrite <- !app_assoc.
    rewrite (pb _ _ _ _ _ (p_i16_app x _ Hx)), (pb _ _ _ _ _ (p_i16_app y _ Hy)), (pb _ _ _ _ _ (p_i16_app z _ Hz)). reflexivity.
  - (* NumberSequence *) col_start H.
    rewrite (pb _ _ _ l rest); [reflexivity|].
    apply prepeat_app. intros k r Hv. pose proof (forallb_In _ _ _ H Hv) as Hy. apply andb_true_iff in Hy. destruct Hy.
    now apply p_nseq_app.
  - (* ColorSequence *) col_start H.
    rewrite (pb _ _ _ l rest); [reflexivity|].
    apply prepeat_app. intros k r Hv. pose proof (forallb_In _ _ _ H Hv) as Hy. apply andb_true_iff in Hy. destruct Hy.
    now apply p_cseq_app.
  - (* NumberRange *) col_start H.
    rewrite (pb _ _ _ l rest); [reflexivity|].
    apply (prepeat_app _ (fun t : f32 * f32 => e_f32le (fst t) ++ e_f32le (snd t))). intros [a b] r Hv.
    pose proof (forallb_In _ _ _ H Hv) as Hy. cbn [fst snd] in *. apply andb_true_iff in Hy. destruct Hy as [Ha Hb].
    rewrite <- app_assoc. rewrite (pb _ _ _ _ _ (p_f32le_app a _ Ha)), (pb _ _ _ _ _ (p_f32le_app b _ Hb)). reflexivity.
  - (* Rect *) col_start H. rewrite <- app_assoc.
    assert (H1 : forallb vec2_ok (List.map fst l) = true).
    { apply forallb_forall. intros x Hx. apply in_map_iff in Hx. destruct Hx as [t [<- Ht]].
      pose proof (forallb_In _ _ _ H Ht) as Hy. now apply andb_true_iff in Hy. }
    assert (H2 : forallb vec2_ok (List.map snd l) = true).
    { apply forallb_forall. intros x Hx. apply in_map_iff in Hx. destruct Hx as [t [<- Ht]].
      pose proof (forallb_In _ _ _ H Ht) as Hy. now apply andb_true_iff in Hy. }
    rewrite <- (map_length fst l) at 1. rewrite (pb _ _ _ _ _ (p_v2s_app _ _ H1)).
    rewrite <- (map_length snd l) at 1. rewrite (pb _ _ _ _ _ (p_v2s_app _ _ H2)).
    unfold pret. f_equal. f_equal. f_equal. rewrite combine_map. apply map_id_ext. now intros [a b].
  - (* PhysicalProperties *) col_start H.
    rewrite (pb _ _ _ l rest); [reflexivity|].
    apply prepeat_app. intros p r Hv. apply p_phys_app. eapply forallb_In; eauto.
  - (* Color3uint8 *) col_start H. rewrite <- !app_assoc.
    rewrite <- (map_length (fun t : N * N * N => fst (fst t)) l) at 1. rewrite (pb _ _ _ _ _ (read_exact_bytes _ _)).
    rewrite <- (map_length (fun t : N * N * N => snd (fst t)) l) at 1. rewrite (pb _ _ _ _ _ (read_exact_bytes _ _)).
    rewrite <- (map_length (@snd (N * N) N) l) at 1. rewrite (pb _ _ _ _ _ (read_exact_bytes _ _)).
    unfold pret. f_equal. f_equal. f_equal. rewrite !combine_map, map_map. apply map_id_ext. now intros [[a b] c].
  - (* Int64 *) col_start H.
    rewrite (pb _ _ _ l rest); [reflexivity|].
    apply i64_array_roundtrip, Forall_forall. intros v Hv. eapply forallb_In; eauto.
  - (* SharedString *) col_start H. now rewrite (pb _ _ _ _ _ (p_sstr_idx_app rd l rest H)).
  - (* Bytecode *) col_start H. now rewrite (pb _ _ _ _ _ (strings_app l rest H)).
  - (* OptionalCFrame *) col_start H. cbn [app].
    rewrite (pb _ _ _ _ _ (p_marker_app 16 _ ltac:(lia))).
    assert (Hc : forallb cframe_ok (List.map fst l) = true).
    { apply forallb_forall. intros x Hx. apply in_map_iff in Hx. destruct Hx as [t [<- Ht]]. exact (forallb_In _ _ _ H Ht). }
    rewrite <- app_assoc. rewrite <- (map_length fst l) at 1. rewrite (pb _ _ _ _ _ (p_cframes_app u _ _ Hc)).
    cbn [app]. rewrite (pb _ _ _ _ _ (p_marker_app 2 _ ltac:(lia))).
    rewrite <- (map_length snd l) at 1.
    replace (List.map (fun t : cframe * bool => e_bool (snd t)) l) with (List.map e_bool (List.map snd l)) by now rewrite map_map.
    rewrite (pb _ _ _ _ _ (bools_app _ rest)).
    unfold pret. f_equal. f_equal. f_equal. rewrite combine_map. apply map_id_ext. now intros [a b].
  - (* UniqueId *) col_start H.
    rewrite (pb _ _ _ (interleave 16 (List.map (e_uid rd) l)) rest).
    + unfold pret. f_equal. f_equal. f_equal.
      rewrite <- (map_length (e_uid rd) l). rewrite deinterleave_interleave.
      * rewrite map_map. rewrite <- (map_id l) at 2. apply map_ext_in. intros t Ht.
        apply d_uid_e_uid. exact (forallb_In _ _ _ H Ht).
      * apply Forall_forall. intros r Hr. apply in_map_iff in Hr. destruct Hr as [t [<- Ht]].
        apply d_uid_e_uid. exact (forallb_In _ _ _ H Ht).
    + replace (length l * 16)%nat with (length (interleave 16 (List.map (e_uid rd) l)))
        by (rewrite interleave_length, map_length; lia).
      apply read_exact_app.
  - (* Font *) col_start H.
    rewrite (pb _ _ _ l rest); [reflexivity|].
    apply prepeat_app. intros t r Hv. apply p_font_app. exact (forallb_In _ _ _ H Hv).
  - (* Content *) col_start H.
    apply andb_true_iff in H. destruct H as [H H4]. apply andb3 in H. destruct H as [H1 [H2 H3]].
    now apply p_content_app.
Qed.

(* ------------------------------------------------------------------------------------------ *)
(* 5. chunks                                                                                    *)
(* ------------------------------------------------------------------------------------------ *)
Definition body_ok (n : nat) (b : bs_body) : bool :=
  match b with
  | BValues c => bs_col_ok c && Nat.eqb (bs_col_len c) n
  | BTruncated => true
  | BUnknown ty raw => byte_ok ty && negb (bs_known_type ty) && bytes_ok raw
  end.

(* what one chunk needs in order to be read back, [seen] = the (class id, instance count) of the INST chunks before it *)
Definition item_ok (seen : list (N * nat)) (it : bs_item) : bool :=
  match it with
  | IMeta l => len_ok l && forallb kv_ok l
  | ISstr l => len_ok l && forallb sstr_entry_ok l
  | IInst c => class_ok c
  | IProp p => u32_ok (bp_class p) && str_ok (bp_name p) &&
               match seen_count seen (bp_class p) with Some n => body_ok n (bp_body p) | None => false end
  | IPrnt rows => forallb (fun t => in_i32 (fst t) && in_i32 (snd t)) rows && len_ok rows
  | IEnd => true
  | IUnknown name data => Nat.eqb (length name) 4 && negb (known_name name)
  end.

Fixpoint items_ok (seen : list (N * nat)) (items : list bs_item) : bool :=
  match items with
  | [] => true
  | it :: r => item_ok seen it && items_ok (seen_add seen it) r
  end.

Lemma p_end_nil {A} (a : A) : p_end a [] = Ok (a, []).
Proof. reflexivity. Qed.

Lemma kvs_app l rest : forallb kv_ok l = true ->
  prepeat (length l) (k <~ p_string ;; v <~ p_string ;; pret (k, v)) (flat_map e_pair l ++ rest) = Ok (l, rest).
Proof.
  intros H. apply prepeat_app. intros [k v] r Hv. pose proof (forallb_In _ _ _ H Hv) as Hy.
  unfold kv_ok in Hy. cbn [fst snd] in Hy. apply andb_true_iff in Hy. destruct Hy as [Hk Hv'].
  unfold e_pair. cbn [fst snd]. rewrite <- ?app_assoc.
  rewrite (pb _ _ _ _ _ (p_string_app k _ (str_ok_len _ Hk))), (pb _ _ _ _ _ (p_string_app v _ (str_ok_len _ Hv'))). reflexivity.
Qed.

Lemma sstr_entries_app l rest : forallb sstr_entry_ok l = true ->
  prepeat (length l) (h <~ read_exact 16 ;; s <~ p_string ;; pret (h, s)) (flat_map e_sstr_entry l ++ rest) = Ok (l, rest).
Proof.
  intros H. apply prepeat_app. intros [h s] r Hv. pose proof (forallb_In _ _ _ H Hv) as Hy.
  unfold sstr_entry_ok in Hy. cbn [fst snd] in Hy. apply andb3 in Hy. destruct Hy as [_ [Hl Hs]]. apply Nat.eqb_eq in Hl.
  unfold e_sstr_entry. cbn [fst snd]. rewrite <- ?app_assoc.
  rewrite <- Hl at 1. rewrite (pb _ _ _ _ _ (read_exact_app h _)).
  rewrite (pb _ _ _ _ _ (p_string_app s _ (str_ok_len _ Hs))). reflexivity.
Qed.

Lemma e_string_min s : (1 <= length (e_string s))%nat.
Proof. unfold e_string, e_len. rewrite app_length, le_bytes_length. lia. Qed.

Lemma name_eqb_refl n : bytes_eqb n n = true.
Proof. induction n as [|x n IH]; cbn; [reflexivity|]. now rewrite N.eqb_refl, IH. Qed.

Lemma bytes_eqb_eq a b : bytes_eqb a b = true -> a = b.
Proof.
  revert b. induction a as [|x a IH]; destruct b as [|y b]; cbn; try discriminate; [reflexivity|].
  intros H. apply andb_true_iff in H. destruct H as [H1 H2]. apply N.eqb_eq in H1. apply IH in H2. now subst.
Qed.

Lemma u32_le4 v rest : u32_ok v = true -> read_le 4 (e_u32 v ++ rest) = Ok (v, rest).
Proof. intros H. apply read_le4. now apply N.ltb_lt. Qed.

Theorem bs_item_roundtrip rd u seen it : item_ok seen it = true ->
  bs_parse_item rd seen (fst (bs_enc_item rd u it)) (snd (bs_enc_item rd u it)) = Ok it.
Proof.
  destruct it as [l|l|c|p|rows| |name data]; cbn [item_ok bs_enc_item fst snd]; intros H.
  - (* META *)
    apply andb_true_iff in H. destruct H as [Hl Hk].
    unfold bs_parse_item. cbn [bytes_eqb NAME_META N.eqb Pos.eqb andb].
    unfold p_meta. rewrite <- (app_nil_r (flat_map e_pair l)).
    erewrite (pb p_count).
    2:{ apply p_count_app; [exact Hl|]. apply flat_map_min_length. intros v _. unfold e_pair. rewrite app_length. pose proof (e_string_min (fst v)). lia. }
    rewrite (pb _ _ _ _ _ (kvs_app l [] Hk)). reflexivity.
  - (* SSTR *)
    apply andb_true_iff in H. destruct H as [Hl Hk].
    unfold bs_parse_item. cbn [bytes_eqb NAME_META NAME_SSTR N.eqb Pos.eqb andb].
    unfold p_sstr. rewrite <- ?app_assoc.
    rewrite (pb _ _ _ _ _ (u32_le4 0 _ eq_refl)). cbn [N.eqb negb].
    rewrite <- (app_nil_r (flat_map e_sstr_entry l)).
    erewrite (pb p_count).
    2:{ apply p_count_app; [exact Hl|]. apply flat_map_min_length. intros v _. unfold e_sstr_entry. rewrite app_length. pose proof (e_string_min (snd v)). lia. }
    rewrite (pb _ _ _ _ _ (sstr_entries_app l [] Hk)). reflexivity.
  - (* INST *)
    unfold class_ok in H. destruct c as [id name svc refs marks]. cbn [cls_id cls_name cls_service cls_refs cls_markers] in *.
    apply andb_true_iff in H. destruct H as [H Hm]. apply andb_true_iff in H. destruct H as [H Hlen].
    apply andb3 in H. destruct H as [Hid [Hname Hrefs]].
    unfold bs_parse_item. cbn [bytes_eqb NAME_META NAME_SSTR NAME_INST N.eqb Pos.eqb andb].
    unfold p_inst. rewrite <- ?app_assoc.
    rewrite (pb _ _ _ _ _ (u32_le4 id _ Hid)).
    rewrite (pb _ _ _ _ _ (p_string_app name _ (str_ok_len _ Hname))).
    cbn [app]. rewrite (pb _ _ _ (e_bool svc) _) by (apply read_u8_cons; destruct svc; cbn; lia).
    replace (negb (N.eqb (e_bool svc) 0 || N.eqb (e_bool svc) 1)) with false by now destruct svc.
    erewrite (pb p_count4).
    2:{ apply p_count4_app; [exact Hlen|]. rewrite enc_ref_array_length. lia. }
    rewrite (pb _ _ _ _ _ (ref_array_roundtrip refs _ (in_i32_Forall _ Hrefs))).
    destruct svc; cbn [e_bool N.eqb Pos.eqb].
    + apply andb_true_iff in Hm. destruct Hm as [Hm _]. apply Nat.eqb_eq in Hm.
      rewrite <- Hm. rewrite <- (app_nil_r marks) at 2. rewrite (pb _ _ _ _ _ (read_exact_app marks [])). reflexivity.
    + destruct marks; [|discriminate]. unfold pret at 1. cbn. reflexivity.
  - (* PROP *)
    destruct p as [cid name body]. cbn [bp_class bp_name bp_body] in *.
    apply andb_true_iff in H. destruct H as [H Hb]. apply andb_true_iff in H. destruct H as [Hid Hname].
    unfold bs_parse_item. cbn [bytes_eqb NAME_META NAME_SSTR NAME_INST NAME_PROP N.eqb Pos.eqb andb].
    unfold p_prop. rewrite <- ?app_assoc.
    rewrite (pb _ _ _ _ _ (u32_le4 cid _ Hid)).
    rewrite (pb _ _ _ _ _ (p_string_app name _ (str_ok_len _ Hname))).
    destruct (seen_count seen cid) as [n|]; [|discriminate].
    destruct body as [c| |ty raw]; cbn [body_ok] in Hb.
    + apply andb_true_iff in Hb. destruct Hb as [Hc Hn]. apply Nat.eqb_eq in Hn. subst n.
      assert (Hk : bs_known_type (bs_col_type c) = true) by now destruct c.
      rewrite Hk. rewrite <- (app_nil_r (bs_enc_col rd u c)).
      rewrite (pb _ _ _ _ _ (bs_col_roundtrip rd u c [] Hc)). now rewrite Nat.eqb_refl.
    + reflexivity.
    + apply andb3 in Hb. destruct Hb as [_ [Hk _]]. apply negb_true_iff in Hk. now rewrite Hk.
  - (* PRNT *)
    apply andb_true_iff in H. destruct H as [Hr Hl].
    unfold bs_parse_item. cbn [bytes_eqb NAME_META NAME_SSTR NAME_INST NAME_PROP NAME_PRNT N.eqb Pos.eqb andb].
    unfold p_prnt. cbn [app]. rewrite (pb _ _ _ 0 _) by (apply read_u8_cons; lia). cbn [N.eqb negb].
    rewrite <- ?app_assoc.
    erewrite (pb p_count4).
    2:{ apply (p_count4_app rows); [exact Hl|]. rewrite enc_ref_array_length, map_length. lia. }
    assert (H1 : Forall (fun v => in_i32 v = true) (List.map fst rows)).
    { apply Forall_forall. intros v Hv. apply in_map_iff in Hv. destruct Hv as [t [<- Ht]].
      pose proof (forallb_In _ _ _ Hr Ht) as Hy. now apply andb_true_iff in Hy. }
    assert (H2 : Forall (fun v => in_i32 v = true) (List.map snd rows)).
    { apply Forall_forall. intros v Hv. apply in_map_iff in Hv. destruct Hv as [t [<- Ht]].
      pose proof (forallb_In _ _ _ Hr Ht) as Hy. now apply andb_true_iff in Hy. }
    rewrite <- (map_length fst rows) at 1. rewrite (pb _ _ _ _ _ (ref_array_roundtrip _ _ H1)).
    rewrite <- (map_length snd rows) at 1. rewrite <- (app_nil_r (enc_ref_array (List.map snd rows))).
    rewrite (pb _ _ _ _ _ (ref_array_roundtrip _ [] H2)).
    cbn [p_end]. f_equal. f_equal. rewrite combine_map. apply map_id_ext. now intros [a b].
  - (* END *) reflexivity.
  - (* unknown name *)
    apply andb_true_iff in H. destruct H as [_ Hk]. apply negb_true_iff in Hk. unfold known_name in Hk.
    repeat (apply orb_false_iff in Hk; destruct Hk as [Hk ?]).
    unfold bs_parse_item. now rewrite Hk, H3, H2, H1, H0, H.
Qed.

Theorem bs_items_roundtrip rd u items : forall seen, items_ok seen items = true ->
  bs_parse_items rd seen (List.map (bs_enc_item rd u) items) = Ok items.
Proof.
  induction items as [|it r IH]; intros seen H; [reflexivity|].
  cbn [items_ok] in H. apply andb_true_iff in H. destruct H as [H1 H2].
  cbn [List.map bs_parse_items].
  destruct (bs_enc_item rd u it) as [name data] eqn:E.
  pose proof (bs_item_roundtrip rd u seen it H1) as Hi. rewrite E in Hi. cbn [fst snd] in Hi.
  rewrite Hi. cbn [rbind]. rewrite (IH _ H2). reflexivity.
Qed.

(* ------------------------------------------------------------------------------------------ *)
(* 6. file header and chunk framing (uncompressed and LZ4 literal-only)                          *)
(* ------------------------------------------------------------------------------------------ *)
Lemma read_i32le_app z rest : in_i32 z = true -> read_le_i 4 32 (e_i32le z ++ rest) = Ok (z, rest).
Proof.
  intros H. unfold read_le_i, e_i32le.
  rewrite (pb _ _ _ (wrap_u 32 z) rest) by (apply read_le4; apply wrap_u32_bound).
  unfold pret. now rewrite wrap_roundtrip32.
Qed.

Lemma p_header_app hdr rest :
  (0 <= fst hdr < 2147483648)%Z -> (0 <= snd hdr < 2147483648)%Z ->
  p_header (bs_enc_header hdr ++ rest) = Ok (hdr, rest).
Proof.
  destruct hdr as [cc ic]. cbn [fst snd]. intros Hc Hi.
  unfold p_header, bs_enc_header. cbn [fst snd]. rewrite <- !app_assoc.
  rewrite (pb _ _ _ _ _ (read_exact_app BS_FILE_MAGIC _)).
  rewrite (pb _ _ _ _ _ (read_exact_app BS_FILE_SIGNATURE _)).
  rewrite (pb _ _ _ _ _ (read_le2 0 _ ltac:(lia))).
  assert (Hi32 : forall z, (0 <= z < 2147483648)%Z -> in_i32 z = true).
  { intros z Hz. apply in_i32_iff. lia. }
  rewrite (pb _ _ _ _ _ (read_i32le_app cc _ (Hi32 _ Hc))).
  rewrite (pb _ _ _ _ _ (read_i32le_app ic _ (Hi32 _ Hi))).
  rewrite (pb _ _ _ _ _ (read_le8 0 rest ltac:(lia))).
  rewrite !name_eqb_refl. cbn [N.eqb andb]. reflexivity.
Qed.

(* the chunk header a frame carries *)
Definition raw_of (compress : bool) (c : bytes * bytes) : bs_raw :=
  if compress then mkRaw (fst c) (N.of_nat (length (literal_only_block (snd c)))) (N.of_nat (length (snd c))) (literal_only_block (snd c))
  else mkRaw (fst c) 0 (N.of_nat (length (snd c))) (snd c).

Definition frame_ok (compress : bool) (c : bytes * bytes) : bool :=
  Nat.eqb (length (fst c)) 4 && len_ok (snd c) && (if compress then len_ok (literal_only_block (snd c)) else true).

Lemma read_exact_N_app a rest : read_exact_N (N.of_nat (length a)) (a ++ rest) = Ok (a, rest).
Proof.
  unfold read_exact_N. rewrite shorter_than_spec, app_length.
  replace (N.ltb _ _) with false by (symmetry; apply N.ltb_ge; lia).
  rewrite Nat2N.id. apply read_exact_app.
Qed.

Lemma p_raw_frame b c rest : frame_ok b c = true -> p_raw (bs_frame b c ++ rest) = Ok (raw_of b c, rest).
Proof.
  destruct c as [name data]. unfold frame_ok. cbn [fst snd]. intros H.
  apply andb3 in H. destruct H as [Hn [Hd Hz]]. apply Nat.eqb_eq in Hn.
  unfold p_raw, bs_frame, raw_of. cbn [fst snd]. destruct b.
  - rewrite <- !app_assoc. rewrite <- Hn at 1.
    rewrite (pb _ _ _ _ _ (read_exact_app name _)).
    unfold e_len.
    rewrite (pb _ _ _ _ _ (read_le4 _ _ (len_ok_lt _ Hz))).
    rewrite (pb _ _ _ _ _ (read_le4 _ _ (len_ok_lt _ Hd))).
    rewrite (pb _ _ _ _ _ (read_le4 0 _ ltac:(lia))). cbn [N.eqb negb].
    replace (N.eqb (N.of_nat (length (literal_only_block data))) 0) with false.
    + rewrite (pb _ _ _ _ _ (read_exact_N_app _ rest)). reflexivity.
    + symmetry. apply N.eqb_neq. pose proof (literal_only_nonempty data). destruct (literal_only_block data); [contradiction|cbn; lia].
  - rewrite <- !app_assoc. rewrite <- Hn at 1.
    rewrite (pb _ _ _ _ _ (read_exact_app name _)).
    unfold e_len.
    rewrite (pb _ _ _ _ _ (read_le4 0 _ ltac:(lia))).
    rewrite (pb _ _ _ _ _ (read_le4 _ _ (len_ok_lt _ Hd))).
    rewrite (pb _ _ _ _ _ (read_le4 0 _ ltac:(lia))). cbn [N.eqb negb].
    rewrite (pb _ _ _ _ _ (read_exact_N_app _ rest)). reflexivity.
Qed.

Lemma bs_inflate_raw zstd b c : bs_inflate zstd (raw_of b c) = Ok (snd c).
Proof.
  destruct c as [name data]. unfold raw_of, bs_inflate. cbn [fst snd]. destruct b; cbn [rw_clen rw_ulen rw_data rw_name].
  - replace (N.eqb (N.of_nat (length (literal_only_block data))) 0) with false.
    2:{ symmetry. apply N.eqb_neq. pose proof (literal_only_nonempty data). destruct (literal_only_block data); [contradiction|cbn; lia]. }
    replace (bytes_eqb (firstn 4 (literal_only_block data)) ZSTD_MAGIC) with false.
    + apply lz4_inflate_literal_only.
    + symmetry. pose proof (literal_only_not_zstd data) as Hh.
      destruct (literal_only_block data) as [|x r]; [reflexivity|]. cbn [hd] in Hh.
      cbn [firstn ZSTD_MAGIC bytes_eqb]. replace (N.eqb x 40) with false by (symmetry; now apply N.eqb_neq). reflexivity.
  - reflexivity.
Qed.

(* the chunk list of a file: every name but the last differs from END, the last one is END *)
Fixpoint end_shape (cs : list (bytes * bytes)) : Prop :=
  match cs with
  | [] => False
  | [c] => fst c = NAME_END
  | c :: r => bytes_eqb (fst c) NAME_END = false /\ end_shape r
  end.

Fixpoint raws_of (comp : list bool) (cs : list (bytes * bytes)) : list bs_raw :=
  match cs with
  | [] => []
  | c :: r =>
    let here := match comp with b :: _ => b | [] => false end in
    let here := if bytes_eqb (fst c) NAME_END then false else here in
    raw_of here c :: raws_of (tl comp) r
  end.
Fixpoint frames_ok (comp : list bool) (cs : list (bytes * bytes)) : bool :=
  match cs with
  | [] => true
  | c :: r =>
    let here := match comp with b :: _ => b | [] => false end in
    let here := if bytes_eqb (fst c) NAME_END then false else here in
    frame_ok here c && frames_ok (tl comp) r
  end.

Lemma frame_nonempty b c rest : frame_ok b c = true -> bs_frame b c ++ rest <> [].
Proof.
  destruct c as [name data]. unfold frame_ok. cbn [fst snd]. intros H. apply andb3 in H. destruct H as [Hn _].
  apply Nat.eqb_eq in Hn. unfold bs_frame. destruct name; [discriminate|]. destruct b; discriminate.
Qed.

Lemma raw_of_name b c : rw_name (raw_of b c) = fst c.
Proof. unfold raw_of. now destruct b. Qed.

Lemma deframe_frames cs : forall comp fuel, (length cs < fuel)%nat -> end_shape cs -> frames_ok comp cs = true ->
  bs_deframe_loop fuel (bs_frame_all comp cs) = Ok (raws_of comp cs).
Proof.
  induction cs as [|c r IH]; intros comp fuel Hf Hs Hok; [contradiction|].
  destruct fuel as [|f]; [cbn in Hf; lia|].
  cbn [bs_frame_all raws_of frames_ok] in *.
  set (here := if bytes_eqb (fst c) NAME_END then false else match comp with b :: _ => b | [] => false end) in *.
  apply andb_true_iff in Hok. destruct Hok as [Hc Hr].
  cbn [bs_deframe_loop].
  pose proof (frame_nonempty here c (bs_frame_all (tl comp) r) Hc) as Hne.
  destruct (bs_frame here c ++ bs_frame_all (tl comp) r) as [|x0 xs] eqn:Eb; [contradiction|]. rewrite <- Eb.
  rewrite (p_raw_frame here c _ Hc). rewrite raw_of_name.
  destruct r as [|c2 r2].
  - cbn [end_shape] in Hs. rewrite Hs, name_eqb_refl. reflexivity.
  - destruct Hs as [Hn Hs]. rewrite Hn.
    rewrite (IH (tl comp) f ltac:(cbn [length] in *; lia) Hs Hr). reflexivity.
Qed.

Lemma inflate_raws zstd cs : forall comp, bs_inflate_all zstd (raws_of comp cs) = Ok cs.
Proof.
  induction cs as [|c r IH]; intros comp; [reflexivity|].
  cbn [raws_of bs_inflate_all]. rewrite bs_inflate_raw. cbn [rbind]. rewrite IH. cbn [rbind].
  rewrite raw_of_name. now destruct c.
Qed.

Lemma raws_end_uncompressed cs : forall comp,
  forallb (fun c => negb (bytes_eqb (rw_name c) NAME_END) || N.eqb (rw_clen c) 0) (raws_of comp cs) = true.
Proof.
  induction cs as [|c r IH]; intros comp; [reflexivity|].
  cbn [raws_of forallb]. rewrite IH, andb_true_r. rewrite raw_of_name.
  destruct (bytes_eqb (fst c) NAME_END) eqn:E; [|reflexivity]. cbn [negb orb]. unfold raw_of. reflexivity.
Qed.

(* ------------------------------------------------------------------------------------------ *)
(* 7. the file: canonical chunk order                                                           *)
(* ------------------------------------------------------------------------------------------ *)
Lemma flat_map_map {A B C} (g : A -> B) (f : B -> list C) l : flat_map f (List.map g l) = flat_map (fun x => f (g x)) l.
Proof. induction l as [|x l IH]; cbn; [reflexivity|now rewrite IH]. Qed.

Lemma flat_map_nth_gen {A B} (g : A -> B) (pre l : list A) :
  flat_map (fun k => match nth_error (pre ++ l) k with Some x => [g x] | None => [] end) (seq (length pre) (length l))
  = List.map g l.
Proof.
  revert pre. induction l as [|x l IH]; intros pre; [reflexivity|].
  cbn [length seq flat_map List.map].
  rewrite nth_error_app2 by lia. rewrite Nat.sub_diag. cbn [nth_error app]. f_equal.
  specialize (IH (pre ++ [x])). rewrite app_length in IH. cbn [length] in IH.
  rewrite Nat.add_1_r in IH. rewrite <- app_assoc in IH. exact IH.
Qed.

Lemma flat_map_nth {A B} (g : A -> B) (l : list A) :
  flat_map (fun k => match nth_error l k with Some x => [g x] | None => [] end) (seq 0 (length l)) = List.map g l.
Proof. exact (flat_map_nth_gen g [] l). Qed.

Definition meta_items (f : bs_file) := match bf_meta f with Some l => [IMeta l] | None => [] end.
Definition sstr_items (f : bs_file) := match bf_sstr f with Some l => [ISstr l] | None => [] end.
Definition unk_item (t : bytes * bytes) := IUnknown (fst t) (snd t).

Lemma canonical_items f :
  bs_items_of (bs_canonical_order f) f =
  meta_items f ++ sstr_items f ++ List.map IInst (bf_classes f) ++ List.map IProp (bf_props f)
  ++ [IPrnt (bf_prnt f)] ++ List.map unk_item (bf_unknown f) ++ [IEnd].
Proof.
  unfold bs_items_of, bs_canonical_order. rewrite !flat_map_app, !flat_map_map. cbn [flat_map item_of_key app].
  rewrite !app_nil_r.
  rewrite (flat_map_nth IInst (bf_classes f)), (flat_map_nth IProp (bf_props f)).
  replace (flat_map (fun x => match nth_error (bf_unknown f) x with Some (n, d) => [IUnknown n d] | None => [] end) (seq 0 (length (bf_unknown f))))
    with (List.map unk_item (bf_unknown f)).
  - unfold meta_items, sstr_items. now rewrite <- !app_assoc.
  - rewrite <- (flat_map_nth unk_item (bf_unknown f)). apply flat_map_ext. intros k.
    destruct (nth_error (bf_unknown f) k) as [[n d]|]; reflexivity.
Qed.

(* items_ok over concatenations *)
Lemma items_ok_app seen a b :
  items_ok seen (a ++ b) = items_ok seen a && items_ok (fold_left seen_add a seen) b.
Proof.
  revert seen. induction a as [|x a IH]; intros seen; [reflexivity|].
  cbn [app items_ok fold_left]. rewrite IH. now rewrite andb_assoc.
Qed.

Definition seen_of (cs : list bs_class) : list (N * nat) := List.map (fun c => (cls_id c, length (cls_refs c))) cs.

Lemma fold_seen_insts cs seen : fold_left seen_add (List.map IInst cs) seen = rev (seen_of cs) ++ seen.
Proof.
  revert seen. induction cs as [|c cs IH]; intros seen; [reflexivity|].
  cbn [List.map fold_left seen_add seen_of rev]. rewrite IH. unfold seen_of. now rewrite <- app_assoc.
Qed.

Lemma fold_seen_other items seen : (forall it, In it items -> match it with IInst _ => False | _ => True end) ->
  fold_left seen_add items seen = seen.
Proof.
  revert seen. induction items as [|x r IH]; intros seen H; [reflexivity|].
  cbn [fold_left]. rewrite IH by (intros; apply H; now right).
  specialize (H x (or_introl eq_refl)). now destruct x.
Qed.

Lemma seen_count_app_notin a b id : seen_count a id = None -> seen_count (a ++ b) id = seen_count b id.
Proof.
  induction a as [|[i n] a IH]; [reflexivity|]. cbn [seen_count app]. destruct (N.eqb i id); [discriminate|exact IH].
Qed.
Lemma seen_count_app_in a b id n : seen_count a id = Some n -> seen_count (a ++ b) id = Some n.
Proof.
  induction a as [|[i m] a IH]; [discriminate|]. cbn [seen_count app]. destruct (N.eqb i id); [trivial|exact IH].
Qed.
Lemma seen_count_notin l id : ~ In id (List.map fst l) -> seen_count l id = None.
Proof.
  induction l as [|[i n] l IH]; [reflexivity|]. cbn [List.map fst In seen_count]. intros H.
  destruct (N.eqb i id) eqn:E; [apply N.eqb_eq in E; tauto|]. apply IH. tauto.
Qed.

Lemma nodup_N_NoDup l : nodup_N l = true -> NoDup l.
Proof.
  induction l as [|x l IH]; [constructor|]. cbn [nodup_N]. intros H. apply andb_true_iff in H. destruct H as [H1 H2].
  constructor; [|now apply IH]. intros Hin. apply negb_true_iff in H1.
  clear -H1 Hin. induction l as [|y l IH]; [contradiction|]. cbn [mem] in H1.
  destruct (N.eqb x y) eqn:E; [discriminate|]. destruct Hin as [->|Hin]; [now rewrite N.eqb_refl in E|now apply IH].
Qed.

Lemma seen_count_rev l id : NoDup (List.map fst l) -> seen_count (rev l) id = seen_count l id.
Proof.
  induction l as [|[i n] l IH]; [reflexivity|]. cbn [List.map fst rev]. intros H. inversion H as [|? ? Hni Hnd]; subst.
  cbn [seen_count]. destruct (N.eqb i id) eqn:E.
  - apply N.eqb_eq in E. subst. rewrite seen_count_app_notin.
    + cbn [seen_count]. now rewrite N.eqb_refl.
    + apply seen_count_notin. rewrite map_rev. now rewrite <- in_rev.
  - destruct (seen_count (rev l) id) eqn:Er.
    + rewrite (seen_count_app_in _ _ _ _ Er). exact (IH Hnd).
    + rewrite (seen_count_app_notin _ _ _ Er). cbn [seen_count]. rewrite E. exact (IH Hnd).
Qed.

(* the sizes of the encoded chunks: every payload (and its literal-only LZ4 block where the choice compresses it) below 2^32 *)
Definition bs_sizes_ok (rd : bs_reading) (c : bs_choices) (f : bs_file) : bool :=
  frames_ok (ch_comp c) (bspec_encode_chunks rd c f).

Lemma wf_items_ok f : bs_wf f = true -> items_ok [] (bs_items_of (bs_canonical_order f) f) = true.
Proof.
  unfold bs_wf. intros H.
  apply andb_true_iff in H. destruct H as [H Hic].
  apply andb_true_iff in H. destruct H as [H Hcc].
  apply andb_true_iff in H. destruct H as [H Hunk].
  apply andb_true_iff in H. destruct H as [H Hlp].
  apply andb_true_iff in H. destruct H as [H Hprnt].
  apply andb_true_iff in H. destruct H as [H Hprops].
  apply andb_true_iff in H. destruct H as [H Hnd].
  apply andb_true_iff in H. destruct H as [H Hcls].
  apply andb_true_iff in H. destruct H as [Hmeta Hsstr].
  rewrite canonical_items.
  assert (Hm1 : forall it, In it (meta_items f) -> match it with IInst _ => False | _ => True end).
  { unfold meta_items. destruct (bf_meta f); intros it Hit; [destruct Hit as [<-|[]]; exact I|destruct Hit]. }
  assert (Hs1 : forall it, In it (sstr_items f) -> match it with IInst _ => False | _ => True end).
  { unfold sstr_items. destruct (bf_sstr f); intros it Hit; [destruct Hit as [<-|[]]; exact I|destruct Hit]. }
  rewrite items_ok_app, (fold_seen_other _ _ Hm1). apply andb_true_iff. split.
  { unfold meta_items. destruct (bf_meta f); [|reflexivity]. cbn [items_ok item_ok]. now rewrite Hmeta. }
  rewrite items_ok_app, (fold_seen_other _ _ Hs1). apply andb_true_iff. split.
  { unfold sstr_items. destruct (bf_sstr f); [|reflexivity]. cbn [items_ok item_ok]. now rewrite Hsstr. }
  rewrite items_ok_app, fold_seen_insts, app_nil_r. apply andb_true_iff. split.
  { generalize (@nil (N * nat)). revert Hcls. generalize (bf_classes f). induction l as [|c l IH]; intros Hc seen; [reflexivity|].
    cbn [forallb] in Hc. apply andb_true_iff in Hc. destruct Hc as [Hc1 Hc2].
    cbn [List.map items_ok item_ok]. now rewrite Hc1, IH. }
  set (seen := rev (seen_of (bf_classes f))).
  assert (Hseen : forall id, seen_count seen id = class_count (bf_classes f) id).
  { intros id. unfold seen, class_count. apply seen_count_rev.
    unfold seen_of. rewrite map_map. cbn [fst]. now apply nodup_N_NoDup. }
  rewrite items_ok_app. apply andb_true_iff. split.
  { clear -Hprops Hseen. revert Hprops. generalize (bf_props f). induction l as [|p l IH]; intros Hp; [reflexivity|].
    cbn [forallb] in Hp. apply andb_true_iff in Hp. destruct Hp as [Hp1 Hp2].
    cbn [List.map items_ok item_ok seen_add]. rewrite (IH Hp2), andb_true_r.
    unfold prop_ok in Hp1. apply andb_true_iff in Hp1. destruct Hp1 as [Hp1 Hb]. rewrite Hp1. cbn [andb].
    rewrite Hseen. destruct (class_count (bf_classes f) (bp_class p)); [|discriminate]. exact Hb. }
  rewrite fold_seen_other by (intros it Hit; apply in_map_iff in Hit; destruct Hit as [p [<- _]]; exact I).
  cbn [app items_ok item_ok seen_add]. rewrite Hprnt, Hlp. cbn [andb].
  rewrite items_ok_app. apply andb_true_iff. split; [|reflexivity].
  clear -Hunk. revert Hunk. generalize (bf_unknown f). induction l as [|[n d] l IH]; intros Hu; [reflexivity|].
  cbn [forallb fst snd] in Hu. apply andb_true_iff in Hu. destruct Hu as [Hu1 Hu2].
  cbn [List.map unk_item fst snd items_ok item_ok seen_add]. rewrite (IH Hu2), andb_true_r.
  repeat (apply andb_true_iff in Hu1; destruct Hu1 as [Hu1 ?]). now rewrite Hu1, H1.
Qed.

Lemma fm_map_none {A B C} (ex : B -> list C) (K : A -> B) l : (forall x, ex (K x) = []) -> flat_map ex (List.map K l) = [].
Proof. intros H. induction l as [|x l IH]; cbn; [reflexivity|now rewrite H, IH]. Qed.
Lemma fm_map_some {A B C} (ex : B -> list C) (K : A -> B) (h : A -> C) l :
  (forall x, ex (K x) = [h x]) -> flat_map ex (List.map K l) = List.map h l.
Proof. intros H. induction l as [|x l IH]; cbn; [reflexivity|now rewrite H, IH]. Qed.

Lemma end_last_cons2 x y r : end_last (x :: y :: r) = negb (is_end x) && end_last (y :: r).
Proof. reflexivity. Qed.

Lemma end_last_app pre : forallb (fun it => negb (is_end it)) pre = true -> end_last (pre ++ [IEnd]) = true.
Proof.
  induction pre as [|x pre IH]; [reflexivity|]. cbn [forallb]. intros H. apply andb_true_iff in H. destruct H as [H1 H2].
  cbn [app]. specialize (IH H2). destruct (pre ++ [IEnd]) as [|y r] eqn:E; [destruct pre; discriminate|].
  now rewrite end_last_cons2, H1, IH.
Qed.

Lemma canonical_pre_no_end f :
  forallb (fun it => negb (is_end it))
    (meta_items f ++ sstr_items f ++ List.map IInst (bf_classes f) ++ List.map IProp (bf_props f)
     ++ [IPrnt (bf_prnt f)] ++ List.map unk_item (bf_unknown f)) = true.
Proof.
  rewrite !forallb_app. unfold meta_items, sstr_items.
  repeat (apply andb_true_iff; split); try (destruct (bf_meta f); reflexivity); try (destruct (bf_sstr f); reflexivity);
    try reflexivity; apply forallb_forall; intros it Hit; apply in_map_iff in Hit; destruct Hit as [x [<- _]]; reflexivity.
Qed.

Lemma assemble_canonical f : bs_wf f = true ->
  bs_assemble (bs_header_of f) (bs_items_of (bs_canonical_order f) f) = Ok f.
Proof.
  intros Hwf. rewrite canonical_items.
  set (items := meta_items f ++ sstr_items f ++ List.map IInst (bf_classes f) ++ List.map IProp (bf_props f)
                ++ [IPrnt (bf_prnt f)] ++ List.map unk_item (bf_unknown f) ++ [IEnd]).
  assert (Hend : end_last items = true).
  { unfold items. pose proof (end_last_app _ (canonical_pre_no_end f)) as H. now rewrite <- !app_assoc in H. }
  assert (Hm : bs_metas items = match bf_meta f with Some l => [l] | None => [] end).
  { unfold items, bs_metas. rewrite !flat_map_app.
    rewrite (fm_map_none _ IInst), (fm_map_none _ IProp), (fm_map_none _ unk_item) by reflexivity.
    unfold meta_items, sstr_items. destruct (bf_meta f), (bf_sstr f); reflexivity. }
  assert (Hs : bs_sstrs items = match bf_sstr f with Some l => [l] | None => [] end).
  { unfold items, bs_sstrs. rewrite !flat_map_app.
    rewrite (fm_map_none _ IInst), (fm_map_none _ IProp), (fm_map_none _ unk_item) by reflexivity.
    unfold meta_items, sstr_items. destruct (bf_meta f), (bf_sstr f); reflexivity. }
  assert (Hi : bs_insts items = bf_classes f).
  { unfold items, bs_insts. rewrite !flat_map_app.
    rewrite (fm_map_some _ IInst (fun c => c)), (fm_map_none _ IProp), (fm_map_none _ unk_item) by reflexivity.
    rewrite map_id. unfold meta_items, sstr_items. destruct (bf_meta f), (bf_sstr f); cbn; now rewrite app_nil_r. }
  assert (Hp : bs_props items = bf_props f).
  { unfold items, bs_props. rewrite !flat_map_app.
    rewrite (fm_map_none _ IInst), (fm_map_some _ IProp (fun c => c)), (fm_map_none _ unk_item) by reflexivity.
    rewrite map_id. unfold meta_items, sstr_items. destruct (bf_meta f), (bf_sstr f); cbn; now rewrite app_nil_r. }
  assert (Hr : bs_prnts items = [bf_prnt f]).
  { unfold items, bs_prnts. rewrite !flat_map_app.
    rewrite (fm_map_none _ IInst), (fm_map_none _ IProp), (fm_map_none _ unk_item) by reflexivity.
    unfold meta_items, sstr_items. destruct (bf_meta f), (bf_sstr f); reflexivity. }
  assert (Hu : bs_unknowns items = bf_unknown f).
  { unfold items, bs_unknowns. rewrite !flat_map_app.
    rewrite (fm_map_none _ IInst), (fm_map_none _ IProp), (fm_map_some _ unk_item (fun t => t)) by (try reflexivity; now intros []).
    rewrite map_id. unfold meta_items, sstr_items. destruct (bf_meta f), (bf_sstr f); cbn; now rewrite app_nil_r. }
  unfold bs_assemble. rewrite Hend. cbn [negb]. rewrite Hm, Hs, Hr.
  assert (Hids : cl_unique_class_ids items = true).
  { unfold cl_unique_class_ids. rewrite Hi. unfold bs_wf in Hwf.
    repeat (apply andb_true_iff in Hwf; destruct Hwf as [Hwf ?]). assumption. }
  assert (Hcounts : cl_header_counts (bs_header_of f) items = true).
  { unfold cl_header_counts, bs_header_of. rewrite Hi. cbn [fst snd]. now rewrite !Z.eqb_refl. }
  destruct (bf_meta f) eqn:Em, (bf_sstr f) eqn:Es; cbn [opt_single rbind]; rewrite Hids, Hcounts; cbn [negb];
    rewrite Hi, Hp, Hu; clear - Em Es; destruct f; cbn in Em, Es; now subst.
Qed.

(* ------------------------------------------------------------------------------------------ *)
(* 8. the file round trip                                                                       *)
(* ------------------------------------------------------------------------------------------ *)
Lemma item_name_not_end rd u seen x : is_end x = false -> item_ok seen x = true ->
  bytes_eqb (fst (bs_enc_item rd u x)) NAME_END = false.
Proof.
  destruct x; cbn [is_end bs_enc_item fst item_ok]; intros He Hok; try reflexivity; try discriminate.
  apply andb_true_iff in Hok. destruct Hok as [_ Hk]. apply negb_true_iff in Hk. unfold known_name in Hk.
  now apply orb_false_iff in Hk.
Qed.

Lemma end_shape_items rd u pre : forall seen, items_ok seen (pre ++ [IEnd]) = true ->
  forallb (fun it => negb (is_end it)) pre = true ->
  end_shape (List.map (bs_enc_item rd u) (pre ++ [IEnd])).
Proof.
  induction pre as [|x pre IH]; intros seen Hok Hne; [reflexivity|].
  cbn [forallb] in Hne. apply andb_true_iff in Hne. destruct Hne as [Hx Hne]. apply negb_true_iff in Hx.
  cbn [app items_ok] in Hok. apply andb_true_iff in Hok. destruct Hok as [Hok1 Hok2].
  cbn [app List.map]. specialize (IH _ Hok2 Hne).
  destruct (List.map (bs_enc_item rd u) (pre ++ [IEnd])) as [|y r] eqn:E; [destruct pre; discriminate|].
  cbn [end_shape]. split; [now apply (item_name_not_end rd u seen)|exact IH].
Qed.

Lemma frames_length cs : forall c, frames_ok c cs = true -> (length cs <= length (bs_frame_all c cs))%nat.
Proof.
  induction cs as [|x r IH]; intros c H; [cbn; lia|].
  cbn [frames_ok bs_frame_all] in *. apply andb_true_iff in H. destruct H as [H1 H2].
  rewrite app_length. specialize (IH _ H2).
  pose proof (frame_nonempty _ x [] H1) as Hne. rewrite app_nil_r in Hne.
  destruct (bs_frame _ x); [contradiction|]. cbn [length]. lia.
Qed.

Theorem bspec_roundtrip rd comp u f :
  bs_wf f = true ->
  bs_sizes_ok rd (mkChoices (bs_canonical_order f) comp u) f = true ->
  bspec_decode rd (bspec_encode rd (mkChoices (bs_canonical_order f) comp u) f) = Ok f.
Proof.
  intros Hwf Hsz. unfold bspec_decode, bspec_decode_gen, bspec_encode, bs_sizes_ok, bspec_encode_chunks in *.
  cbn [ch_order ch_comp ch_rot_ids] in *.
  set (items := bs_items_of (bs_canonical_order f) f) in *.
  set (chunks := List.map (bs_enc_item rd u) items) in *.
  assert (Hhdr : (0 <= fst (bs_header_of f) < 2147483648)%Z /\ (0 <= snd (bs_header_of f) < 2147483648)%Z).
  { unfold bs_wf in Hwf. apply andb_true_iff in Hwf. destruct Hwf as [Hwf Hic]. apply andb_true_iff in Hwf. destruct Hwf as [_ Hcc].
    apply Z.ltb_lt in Hic, Hcc. unfold bs_header_of. cbn [fst snd]. lia. }
  rewrite (p_header_app _ _ (proj1 Hhdr) (proj2 Hhdr)).
  pose proof (wf_items_ok f Hwf) as Hok. fold items in Hok.
  assert (Hshape : end_shape chunks).
  { unfold chunks, items. rewrite canonical_items. rewrite !app_assoc.
    eapply end_shape_items.
    - rewrite <- !app_assoc. rewrite <- canonical_items. exact Hok.
    - rewrite <- !app_assoc. apply canonical_pre_no_end. }
  unfold bs_deframe. rewrite (deframe_frames chunks comp (S (length (bs_frame_all comp chunks))) ltac:(pose proof (frames_length chunks comp Hsz); lia) Hshape Hsz).
  cbn [rbind]. rewrite raws_end_uncompressed. cbn [negb]. rewrite inflate_raws. cbn [rbind].
  unfold bspec_decode_chunks. unfold chunks. rewrite (bs_items_roundtrip rd u items [] Hok). cbn [rbind].
  apply assemble_canonical. exact Hwf.
Qed.

(* the uncompressed instance spelled out *)
Corollary bspec_roundtrip_uncompressed rd u f :
  bs_wf f = true ->
  bs_sizes_ok rd (mkChoices (bs_canonical_order f) [] u) f = true ->
  bspec_decode rd (bspec_encode rd (mkChoices (bs_canonical_order f) [] u) f) = Ok f.
Proof. apply bspec_roundtrip. Qed.

(* ------------------------------------------------------------------------------------------ *)
(* 9. structural clauses that hold for every file the document decoder accepts                  *)
(* ------------------------------------------------------------------------------------------ *)
Lemma opt_single_ok {A} code (l : list A) o : opt_single code l = Ok o -> (length l <= 1)%nat /\ l = match o with Some a => [a] | None => [] end.
Proof.
  destruct l as [|a [|b r]]; cbn; intros H; try discriminate; injection H as <-; split; (lia || reflexivity).
Qed.

(* header counts match the body; one INST per class id; one PRNT, at most one META / SSTR; END is the last chunk and only the last *)
Theorem decode_chunks_clauses rd hdr chunks f : bspec_decode_chunks rd hdr chunks = Ok f ->
  exists items, bs_parse_items rd [] chunks = Ok items /\
    end_last items = true /\ cl_header_counts hdr items = true /\ cl_unique_class_ids items = true /\
    bs_prnts items = [bf_prnt f] /\ (length (bs_metas items) <= 1)%nat /\ (length (bs_sstrs items) <= 1)%nat /\
    bf_classes f = bs_insts items /\ bf_props f = bs_props items.
Proof.
  unfold bspec_decode_chunks. destruct (bs_parse_items rd [] chunks) as [items| | |]; cbn [rbind]; try discriminate.
  intros H. exists items. split; [reflexivity|]. unfold bs_assemble in H.
  destruct (end_last items); cbn [negb] in H; [|destruct (existsb is_end items); discriminate].
  destruct (opt_single BS_DUP_CHUNK (bs_metas items)) as [m| | |] eqn:Em; cbn [rbind] in H; try discriminate.
  destruct (opt_single BS_DUP_CHUNK (bs_sstrs items)) as [s| | |] eqn:Es; cbn [rbind] in H; try discriminate.
  destruct (opt_single BS_DUP_CHUNK (bs_prnts items)) as [p| | |] eqn:Ep; cbn [rbind] in H; try discriminate.
  destruct p as [rows|]; [|discriminate].
  destruct (cl_unique_class_ids items); cbn [negb] in H; [|discriminate].
  destruct (cl_header_counts hdr items); cbn [negb] in H; [|discriminate].
  injection H as <-. cbn [bf_prnt bf_classes bf_props].
  apply opt_single_ok in Em, Es, Ep. destruct Em as [Em _], Es as [Es _], Ep as [_ Ep].
  repeat split; assumption.
Qed.

(* ---- chunk length fields *)
Definition raw_lengths_ok (c : bs_raw) : Prop :=
  N.of_nat (length (rw_data c)) = (if N.eqb (rw_clen c) 0 then rw_ulen c else rw_clen c).

Lemma read_exact_N_len n b h t : read_exact_N n b = Ok (h, t) -> N.of_nat (length h) = n.
Proof.
  unfold read_exact_N. destruct (shorter_than _ _); [discriminate|]. intros H. apply read_exact_ok in H.
  destruct H as [H _]. rewrite H. apply N2Nat.id.
Qed.

Lemma p_raw_lengths b c rest : p_raw b = Ok (c, rest) -> raw_lengths_ok c.
Proof.
  unfold p_raw. intros H.
  apply pbind_ok in H. destruct H as [name [b1 [_ H]]].
  apply pbind_ok in H. destruct H as [cl [b2 [_ H]]].
  apply pbind_ok in H. destruct H as [ul [b3 [_ H]]].
  apply pbind_ok in H. destruct H as [rs [b4 [_ H]]].
  destruct (negb (N.eqb rs 0)); [discriminate|].
  apply pbind_ok in H. destruct H as [data [b5 [Hd H]]].
  unfold pret in H. injection H as <- _. unfold raw_lengths_ok. cbn [rw_data rw_clen rw_ulen].
  now apply read_exact_N_len in Hd.
Qed.

Lemma deframe_props fuel : forall b raws, bs_deframe_loop fuel b = Ok raws ->
  Forall raw_lengths_ok raws /\ exists pre c, raws = pre ++ [c] /\ bytes_eqb (rw_name c) NAME_END = true.
Proof.
  induction fuel as [|f IH]; intros b raws H; [discriminate|].
  cbn [bs_deframe_loop] in H. destruct b as [|x b]; [discriminate|].
  destruct (p_raw (x :: b)) as [[c rest]| | |] eqn:E; try discriminate.
  pose proof (p_raw_lengths _ _ _ E) as Hc.
  destruct (bytes_eqb (rw_name c) NAME_END) eqn:En.
  - destruct rest; [|discriminate]. injection H as <-. split; [now constructor|]. exists [], c. now split.
  - destruct (bs_deframe_loop f rest) as [r| | |] eqn:Er; cbn [rbind] in H; try discriminate.
    injection H as <-. destruct (IH _ _ Er) as [Hf [pre [c' [-> Hn]]]].
    split; [now constructor|]. exists (c :: pre), c'. now split.
Qed.

Lemma inflate_all_each zstd raws : forall chunks, bs_inflate_all zstd raws = Ok chunks ->
  Forall2 (fun c ch => fst ch = rw_name c /\ bs_inflate zstd c = Ok (snd ch)) raws chunks.
Proof.
  induction raws as [|c r IH]; intros chunks H; cbn [bs_inflate_all] in H.
  - injection H as <-. constructor.
  - destruct (bs_inflate zstd c) as [d| | |] eqn:Ed; cbn [rbind] in H; try discriminate.
    destruct (bs_inflate_all zstd r) as [rest| | |] eqn:Er; cbn [rbind] in H; try discriminate.
    injection H as <-. constructor; [now split|now apply IH].
Qed.

Lemma inflate_len zstd c d : bs_inflate zstd c = Ok d -> N.eqb (rw_clen c) 0 = false -> N.of_nat (length d) = rw_ulen c.
Proof.
  unfold bs_inflate. intros H E. rewrite E in H.
  destruct (bytes_eqb (firstn 4 (rw_data c)) ZSTD_MAGIC).
  - destruct (zstd (rw_data c)) as [r|]; [|discriminate]. destruct (N.eqb _ _) eqn:El; [|discriminate].
    injection H as <-. now apply N.eqb_eq.
  - now apply lz4_inflate_length in H.
Qed.

Lemma chunk_lengths_hold zstd raws chunks : Forall raw_lengths_ok raws -> bs_inflate_all zstd raws = Ok chunks ->
  cl_chunk_lengths zstd raws = true.
Proof.
  intros Hf Hi. apply inflate_all_each in Hi. unfold cl_chunk_lengths. apply forallb_forall. intros c Hc.
  rewrite Forall_forall in Hf. specialize (Hf c Hc). unfold raw_lengths_ok in Hf.
  assert (exists d, bs_inflate zstd c = Ok d) as [d Hd].
  { clear -Hi Hc. induction Hi as [|c' ch r chs [_ H] _ IH]; [contradiction|]. destruct Hc as [->|Hc]; [eauto|now apply IH]. }
  destruct (N.eqb (rw_clen c) 0) eqn:E.
  - now apply N.eqb_eq.
  - rewrite Hd. apply andb_true_iff. split; apply N.eqb_eq; [exact Hf|now apply (inflate_len zstd c d)].
Qed.

Lemma parse_items_each rd chunks : forall seen items, bs_parse_items rd seen chunks = Ok items ->
  forall name data, In (name, data) chunks -> exists seen' it, bs_parse_item rd seen' name data = Ok it.
Proof.
  induction chunks as [|[n d] r IH]; intros seen items H name data Hin; [contradiction|].
  cbn [bs_parse_items] in H.
  destruct (bs_parse_item rd seen n d) as [it| | |] eqn:Ei; cbn [rbind] in H; try discriminate.
  destruct (bs_parse_items rd (seen_add seen it) r) as [rest| | |] eqn:Er; cbn [rbind] in H; try discriminate.
  destruct Hin as [Heq|Hin]; [injection Heq as -> ->; eauto|]. eapply IH; eauto.
Qed.

Lemma end_chunk_magic rd seen name data it :
  bytes_eqb name NAME_END = true -> bs_parse_item rd seen name data = Ok it -> bytes_eqb data END_MAGIC = true.
Proof.
  intros Hn. apply bytes_eqb_eq in Hn. subst name. unfold bs_parse_item.
  cbn [bytes_eqb NAME_END NAME_META NAME_SSTR NAME_INST NAME_PROP NAME_PRNT N.eqb Pos.eqb andb].
  unfold p_endchunk. destruct (bytes_eqb data END_MAGIC); [reflexivity|discriminate].
Qed.

(* chunk length fields match the (de)compressed payloads; the file ends with the uncompressed END chunk holding `</roblox>` *)
Theorem decode_gen_framing rd zstd b f : bspec_decode_gen rd zstd b = Ok f ->
  exists hdr rest raws, p_header b = Ok (hdr, rest) /\ bs_deframe rest = Ok raws /\
    cl_chunk_lengths zstd raws = true /\ cl_ends_with_end raws = true.
Proof.
  unfold bspec_decode_gen. destruct (p_header b) as [[hdr rest]| | |] eqn:Eh; try discriminate.
  destruct (bs_deframe rest) as [raws| | |] eqn:Ed; cbn [rbind]; try discriminate.
  destruct (forallb _ raws) eqn:Ee; cbn [negb]; [|discriminate].
  destruct (bs_inflate_all zstd raws) as [chunks| | |] eqn:Ei; cbn [rbind]; try discriminate.
  intros H. exists hdr, rest, raws. split; [reflexivity|]. split; [exact Ed|].
  unfold bs_deframe in Ed. destruct (deframe_props _ _ _ Ed) as [Hlen [pre [c [-> Hn]]]].
  split; [now apply (chunk_lengths_hold zstd _ chunks)|].
  unfold cl_ends_with_end. rewrite rev_app_distr. cbn [rev app]. rewrite Hn. cbn [andb].
  rewrite forallb_app in Ee. apply andb_true_iff in Ee. destruct Ee as [_ Ee]. cbn [forallb] in Ee.
  rewrite Hn in Ee. cbn [negb orb andb] in Ee. rewrite andb_true_r in Ee. rewrite Ee. cbn [andb].
  (* the payload of END *)
  unfold bspec_decode_chunks in H. destruct (bs_parse_items rd [] chunks) as [items| | |] eqn:Ep; cbn [rbind] in H; try discriminate.
  pose proof (inflate_all_each _ _ _ Ei) as Hall.
  apply Forall2_app_inv_l in Hall. destruct Hall as [ch1 [ch2 [_ [Hlast ->]]]].
  inversion Hlast as [|? ch ? ? [Hname Hinf] Hnil]; subst. inversion Hnil; subst.
  unfold bs_inflate in Hinf. rewrite Ee in Hinf. injection Hinf as Hd.
  destruct ch as [nm d]. cbn [fst snd] in *. subst.
  destruct (parse_items_each rd _ _ _ Ep (rw_name c) (rw_data c) ltac:(apply in_or_app; right; now left)) as [seen' [it Hit]].
  exact (end_chunk_magic rd seen' _ _ it Hn Hit).
Qed.

(* ---- every PROP carries exactly one value per instance of its class *)
Lemma run_ok {A} (p : parser A) data (it : A) :
  match p data with Ok (x, _) => Ok x | Panic => Panic | Err c => Err c | OutOfFuel => OutOfFuel end = Ok it ->
  exists b', p data = Ok (it, b').
Proof. destruct (p data) as [[x b']| | |]; intros H; try discriminate. injection H as <-. eauto. Qed.

Lemma p_end_inv {A} (a : A) b r b' : p_end a b = Ok (r, b') -> r = a.
Proof. destruct b; cbn; intros H; [now injection H as <-|discriminate]. Qed.

Lemma parse_item_prop rd seen name data p c :
  bs_parse_item rd seen name data = Ok (IProp p) -> bp_body p = BValues c ->
  exists n, seen_count seen (bp_class p) = Some n /\ bs_col_len c = n.
Proof.
  unfold bs_parse_item. intros H Hb.
  destruct (bytes_eqb name NAME_META).
  { apply run_ok in H. destruct H as [b' H]. unfold p_meta in H.
    apply pbind_ok in H. destruct H as [? [? [_ H]]]. apply pbind_ok in H. destruct H as [? [? [_ H]]].
    apply p_end_inv in H. discriminate. }
  destruct (bytes_eqb name NAME_SSTR).
  { apply run_ok in H. destruct H as [b' H]. unfold p_sstr in H.
    apply pbind_ok in H. destruct H as [ver [? [_ H]]]. destruct (negb (N.eqb ver 0)); [discriminate|].
    apply pbind_ok in H. destruct H as [? [? [_ H]]]. apply pbind_ok in H. destruct H as [? [? [_ H]]].
    apply p_end_inv in H. discriminate. }
  destruct (bytes_eqb name NAME_INST).
  { apply run_ok in H. destruct H as [b' H]. unfold p_inst in H.
    apply pbind_ok in H. destruct H as [? [? [_ H]]]. apply pbind_ok in H. destruct H as [? [? [_ H]]].
    apply pbind_ok in H. destruct H as [fmt [? [_ H]]]. destruct (negb _); [discriminate|].
    apply pbind_ok in H. destruct H as [? [? [_ H]]]. apply pbind_ok in H. destruct H as [? [? [_ H]]].
    apply pbind_ok in H. destruct H as [? [? [_ H]]]. apply p_end_inv in H. discriminate. }
  destruct (bytes_eqb name NAME_PROP).
  { apply run_ok in H. destruct H as [b' H]. unfold p_prop in H.
    apply pbind_ok in H. destruct H as [id [b1 [_ H]]]. apply pbind_ok in H. destruct H as [nm [b2 [_ H]]].
    destruct (seen_count seen id) as [n|] eqn:En; [|discriminate].
    destruct b2 as [|ty vals].
    - injection H as Hp _. subst p. cbn in Hb. discriminate.
    - destruct (bs_known_type ty).
      + apply pbind_ok in H. destruct H as [c' [b3 [_ H]]].
        destruct (Nat.eqb (bs_col_len c') n) eqn:El; [|discriminate].
        apply p_end_inv in H. injection H as Hp. subst p. cbn [bp_body bp_class] in *. injection Hb as Hc. subst c'.
        exists n. split; [exact En|now apply Nat.eqb_eq].
      + injection H as Hp _. subst p. cbn in Hb. discriminate. }
  destruct (bytes_eqb name NAME_PRNT).
  { apply run_ok in H. destruct H as [b' H]. unfold p_prnt in H.
    apply pbind_ok in H. destruct H as [ver [? [_ H]]]. destruct (negb (N.eqb ver 0)); [discriminate|].
    apply pbind_ok in H. destruct H as [? [? [_ H]]]. apply pbind_ok in H. destruct H as [? [? [_ H]]].
    apply pbind_ok in H. destruct H as [? [? [_ H]]]. apply p_end_inv in H. discriminate. }
  destruct (bytes_eqb name NAME_END).
  { apply run_ok in H. destruct H as [b' H]. unfold p_endchunk in H. destruct (bytes_eqb data END_MAGIC); [|discriminate].
    injection H as H _. discriminate. }
  discriminate.
Qed.

Lemma parse_item_inst_seen rd seen name data it :
  bs_parse_item rd seen name data = Ok it -> seen_add seen it = match it with IInst c => (cls_id c, length (cls_refs c)) :: seen | _ => seen end.
Proof. intros _. reflexivity. Qed.

Lemma nodup_app_l {A} (a b : list A) : NoDup (a ++ b) -> NoDup a.
Proof.
  induction a as [|x a IH]; [constructor|]. cbn [app]. intros H. inversion H as [|? ? Hni Hnd]; subst.
  constructor; [|now apply IH]. intros Hin. apply Hni. apply in_or_app. now left.
Qed.

Lemma prop_lengths_gen rd chunks : forall seen pre items,
  seen = rev (seen_of pre) ->
  bs_parse_items rd seen chunks = Ok items ->
  NoDup (List.map cls_id (pre ++ bs_insts items)) ->
  forallb (fun p => match bp_body p with
                    | BValues c => match class_count (pre ++ bs_insts items) (bp_class p) with
                                   | Some n => Nat.eqb (bs_col_len c) n | None => false end
                    | _ => true end) (bs_props items) = true.
Proof.
  induction chunks as [|[name data] r IH]; intros seen pre items Hs H Hnd; cbn [bs_parse_items] in H.
  - injection H as <-. reflexivity.
  - destruct (bs_parse_item rd seen name data) as [it| | |] eqn:Ei; cbn [rbind] in H; try discriminate.
    destruct (bs_parse_items rd (seen_add seen it) r) as [rest| | |] eqn:Er; cbn [rbind] in H; try discriminate.
    injection H as <-.
    destruct it as [l|l|c|p|rows| |n d].
    1,2,5,6,7: (cbn [bs_insts bs_props flat_map app seen_add] in *; exact (IH seen pre rest Hs Er Hnd)).
    + (* INST *)
      cbn [bs_insts bs_props flat_map app seen_add] in *.
      assert (E : pre ++ c :: flat_map (fun it => match it with IInst c0 => [c0] | _ => [] end) rest
                  = (pre ++ [c]) ++ bs_insts rest) by (unfold bs_insts; now rewrite <- app_assoc).
      rewrite E in *. apply (IH ((cls_id c, length (cls_refs c)) :: seen) (pre ++ [c]) rest); [|exact Er|exact Hnd].
      rewrite Hs. unfold seen_of. rewrite map_app, rev_app_distr. reflexivity.
    + (* PROP *)
      cbn [bs_insts bs_props flat_map app seen_add forallb] in *.
      apply andb_true_iff. split; [|exact (IH seen pre rest Hs Er Hnd)].
      destruct (bp_body p) as [col| |] eqn:Eb; try reflexivity.
      destruct (parse_item_prop rd seen name data p col Ei Eb) as [n [Hn Hl]].
      unfold class_count.
      assert (Hpre : NoDup (List.map fst (seen_of pre))).
      { unfold seen_of. rewrite map_map. cbn [fst]. rewrite map_app in Hnd. now apply nodup_app_l in Hnd. }
      rewrite Hs, seen_count_rev in Hn by exact Hpre.
      change (List.map (fun c0 => (cls_id c0, length (cls_refs c0))) (pre ++ bs_insts rest)) with (seen_of (pre ++ bs_insts rest)).
      unfold seen_of. rewrite map_app. fold (seen_of pre). rewrite (seen_count_app_in _ _ _ _ Hn). now apply Nat.eqb_eq.
Qed.

Theorem decode_chunks_prop_lengths rd hdr chunks f : bspec_decode_chunks rd hdr chunks = Ok f ->
  exists items, bs_parse_items rd [] chunks = Ok items /\ cl_prop_lengths items = true.
Proof.
  intros H. destruct (decode_chunks_clauses rd hdr chunks f H) as [items [Hp [_ [_ [Hu _]]]]].
  exists items. split; [exact Hp|]. unfold cl_prop_lengths.
  apply (prop_lengths_gen rd chunks [] [] items eq_refl Hp).
  cbn [app]. unfold cl_unique_class_ids in Hu. now apply nodup_N_NoDup.
Qed.

Print Assumptions bs_col_roundtrip.
Print Assumptions bs_items_roundtrip.
Print Assumptions bspec_roundtrip.
Print Assumptions decode_chunks_clauses.
Print Assumptions decode_gen_framing.
Print Assumptions decode_chunks_prop_lengths.
