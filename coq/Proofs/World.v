(* World.v — the C09 theorem over whole histories: every DOM reachable from the empty world by any
   finite sequence of new / insert / destroy / transfer_within / transfer / clone operations, each called
   inside its documented preconditions (the specification [astep] is defined) on fresh builders, is well
   formed ([WF]); the concrete model neither panics nor runs out of fuel on such a history.

   The proof composes the per-operation refinement lemmas (Ref*.v) through the world relation [RepW],
   which carries, next to [Rep] for every DOM, the allocator bounds the per-operation lemmas need
   ([uids_below], [refs_below], [prefs_below]) and the invariant [props_nodup].  Where a per-operation
   lemma does not re-establish one of these, it is derived here from the shape of the abstract result,
   through the list of nodes [fnodes] of a forest. *)
From RbxVerif Require Import Base Dom Tree BaseFacts TreeFacts Rep RepWF TreeOps RefInsert RefCloneAux
  RefClone RefCloneFinal RefDestroy RefMoveWithin RefMove.
From Coq Require Import Lia.

(* ------------------------------------------------------------------------------------------ *)
(* Part 0: nth_opt / set_nth against Forall / Forall2                                          *)
(* ------------------------------------------------------------------------------------------ *)

Lemma Forall2_nth_opt {A B} (R : A -> B -> Prop) (l1 : list A) (l2 : list B) :
  Forall2 R l1 l2 -> forall k b, nth_opt k l2 = Some b -> exists a, nth_opt k l1 = Some a /\ R a b.
Proof.
  induction 1 as [|x y l1 l2 Hxy _ IH]; intros k b Hk.
  - destruct k; cbn [nth_opt] in Hk; discriminate.
  - destruct k as [|k]; cbn [nth_opt] in *.
    + injection Hk as <-. exists x. split; [reflexivity|exact Hxy].
    + apply IH. exact Hk.
Qed.

Lemma Forall2_set_nth {A B} (R : A -> B -> Prop) (l1 : list A) (l2 : list B) :
  Forall2 R l1 l2 -> forall k a b, R a b -> Forall2 R (set_nth k a l1) (set_nth k b l2).
Proof.
  induction 1 as [|x y l1 l2 Hxy HF IH]; intros k a b Hab.
  - destruct k; cbn [set_nth]; constructor.
  - destruct k as [|k]; cbn [set_nth].
    + constructor; [exact Hab|exact HF].
    + constructor; [exact Hxy|apply IH; exact Hab].
Qed.

Lemma Forall_nth_opt {A} (P : A -> Prop) (l : list A) :
  Forall P l -> forall k a, nth_opt k l = Some a -> P a.
Proof.
  induction 1 as [|x l Hx _ IH]; intros k a Hk.
  - destruct k; cbn [nth_opt] in Hk; discriminate.
  - destruct k as [|k]; cbn [nth_opt] in Hk.
    + injection Hk as <-. exact Hx.
    + eapply IH. exact Hk.
Qed.

Lemma Forall_set_nth {A} (P : A -> Prop) (l : list A) :
  Forall P l -> forall k a, P a -> Forall P (set_nth k a l).
Proof.
  induction 1 as [|x l Hx HF IH]; intros k a Ha.
  - destruct k; cbn [set_nth]; constructor.
  - destruct k as [|k]; cbn [set_nth].
    + constructor; [exact Ha|exact HF].
    + constructor; [exact Hx|apply IH; exact Ha].
Qed.

Lemma Forall2_Forall_l {A B} (R : A -> B -> Prop) (P : A -> Prop) (l1 : list A) (l2 : list B) :
  (forall a b, R a b -> P a) -> Forall2 R l1 l2 -> Forall P l1.
Proof.
  intros HRP. induction 1 as [|x y l1 l2 Hxy _ IH]; constructor; [eapply HRP; exact Hxy|exact IH].
Qed.

(* ------------------------------------------------------------------------------------------ *)
(* Part 1: the nodes (referent, property table) of a forest                                    *)
(* ------------------------------------------------------------------------------------------ *)

Fixpoint tnodes (t : tree) : list (ref * props) :=
  match t with
  | Node r _ _ ps kids =>
      (r, ps) :: (fix go ks := match ks with [] => [] | k :: ks' => tnodes k ++ go ks' end) kids
  end.
Definition fnodes (ts : list tree) : list (ref * props) := flat_map tnodes ts.

Lemma tnodes_eq r n c ps kids : tnodes (Node r n c ps kids) = (r, ps) :: fnodes kids.
Proof. reflexivity. Qed.
Lemma fnodes_nil : fnodes [] = [].
Proof. reflexivity. Qed.
Lemma fnodes_cons t ts : fnodes (t :: ts) = tnodes t ++ fnodes ts.
Proof. reflexivity. Qed.
Lemma fnodes_app a b : fnodes (a ++ b) = fnodes a ++ fnodes b.
Proof. unfold fnodes. apply flat_map_app. Qed.
Lemma fnodes_single t : fnodes [t] = tnodes t.
Proof. rewrite fnodes_cons, fnodes_nil. apply app_nil_r. Qed.

Global Opaque tnodes.

Definition nd_uid (e : ref * props) : list N :=
  match get_uid (snd e) with Some u => [u] | None => [] end.
Definition nd_vals (e : ref * props) : list pval := List.map snd (snd e).
Definition nd_entry (yi : ref * inst) : ref * props := (fst yi, i_props (snd yi)).

(* referents, UniqueIds, property values and flattened entries, all read off the node list *)
Lemma trefs_tnodes :
  (forall t, trefs t = List.map fst (tnodes t)) /\ (forall ts, frefs ts = List.map fst (fnodes ts)).
Proof.
  apply tree_forest_ind.
  - intros r n c ps kids IH. rewrite trefs_eq, tnodes_eq. cbn [List.map fst]. f_equal. exact IH.
  - reflexivity.
  - intros t ts IHt IHts. rewrite frefs_cons, fnodes_cons, map_app, IHt, IHts. reflexivity.
Qed.

Lemma tuids_tnodes :
  (forall t, tuids t = flat_map nd_uid (tnodes t)) /\ (forall ts, fuids ts = flat_map nd_uid (fnodes ts)).
Proof.
  apply tree_forest_ind.
  - intros r n c ps kids IH. rewrite tuids_eq, tnodes_eq. cbn [flat_map]. unfold nd_uid at 1. cbn [snd].
    f_equal. exact IH.
  - reflexivity.
  - intros t ts IHt IHts. rewrite TreeOps.fuids_cons, fnodes_cons, flat_map_app, IHt, IHts. reflexivity.
Qed.

Lemma tpvals_tnodes :
  (forall t, tpvals t = flat_map nd_vals (tnodes t)) /\ (forall ts, fpvals ts = flat_map nd_vals (fnodes ts)).
Proof.
  apply tree_forest_ind.
  - intros r n c ps kids IH. rewrite tpvals_eq, tnodes_eq. cbn [flat_map]. unfold nd_vals at 1. cbn [snd].
    f_equal. exact IH.
  - reflexivity.
  - intros t ts IHt IHts. change (fpvals (t :: ts)) with (tpvals t ++ fpvals ts).
    rewrite fnodes_cons, flat_map_app, IHt, IHts. reflexivity.
Qed.

Lemma tnodes_tflat :
  (forall t p, List.map nd_entry (tflat p t) = tnodes t) /\
  (forall ts p, List.map nd_entry (flat_map (tflat p) ts) = fnodes ts).
Proof.
  apply tree_forest_ind.
  - intros r n c ps kids IH p. rewrite tflat_eq, tnodes_eq. cbn [List.map]. unfold nd_entry at 1.
    cbn [fst snd i_props]. f_equal. apply IH.
  - intros p. reflexivity.
  - intros t ts IHt IHts p. cbn [flat_map]. rewrite map_app, fnodes_cons, IHt, IHts. reflexivity.
Qed.

Lemma In_tnodes_trefs t x ps : In (x, ps) (tnodes t) -> In x (trefs t).
Proof.
  intros H. rewrite (proj1 trefs_tnodes). apply in_map_iff. exists (x, ps). split; [reflexivity|exact H].
Qed.

Lemma In_tnodes_tpvals t x ps v : In (x, ps) (tnodes t) -> In v (List.map snd ps) -> In v (tpvals t).
Proof.
  intros H Hv. rewrite (proj1 tpvals_tnodes). apply in_flat_map. exists (x, ps). split; [exact H|exact Hv].
Qed.

(* ---- where the nodes of the results of fdel / ffind / fgraft / apply_uids come from ---- *)

Lemma tnodes_del r :
  (forall t t' e, tdel r t = Some t' -> In e (tnodes t') -> In e (tnodes t)) /\
  (forall ts e, In e (fnodes (fdel r ts)) -> In e (fnodes ts)).
Proof.
  apply tree_forest_ind.
  - intros x n c ps kids IH t' e. rewrite tdel_eq. destruct (N.eqb x r) eqn:E; [discriminate|].
    intros Ht'. injection Ht' as <-. rewrite !tnodes_eq. cbn [In].
    intros [H|H]; [left; exact H|right; apply IH; exact H].
  - intros e H. exact H.
  - intros t ts IHt IHts e. cbn [fdel]. destruct (tdel r t) as [t'|] eqn:E.
    + rewrite !fnodes_cons, !in_app_iff. intros [H|H].
      * left. eapply IHt; [reflexivity|exact H].
      * right. apply IHts. exact H.
    + intros H. rewrite fnodes_cons, in_app_iff. right. apply IHts. exact H.
Qed.

Lemma fnodes_fdel r ts e : In e (fnodes (fdel r ts)) -> In e (fnodes ts).
Proof. apply tnodes_del. Qed.

Lemma tnodes_find r :
  (forall t sub e, tfind r t = Some sub -> In e (tnodes sub) -> In e (tnodes t)) /\
  (forall ts sub e, ffind r ts = Some sub -> In e (tnodes sub) -> In e (fnodes ts)).
Proof.
  apply tree_forest_ind.
  - intros x n c ps kids IH sub e. rewrite tfind_eq. destruct (N.eqb x r) eqn:E.
    + intros Hs. injection Hs as <-. intros H. exact H.
    + intros Hs H. rewrite tnodes_eq. right. eapply IH; [exact Hs|exact H].
  - intros sub e. cbn [ffind]. discriminate.
  - intros t ts IHt IHts sub e. cbn [ffind]. destruct (tfind r t) as [s|] eqn:E.
    + intros Hs. injection Hs as <-. intros H. rewrite fnodes_cons, in_app_iff. left.
      eapply IHt; [reflexivity|exact H].
    + intros Hs H. rewrite fnodes_cons, in_app_iff. right. eapply IHts; [exact Hs|exact H].
Qed.

Lemma fnodes_ffind r ts sub e : ffind r ts = Some sub -> In e (tnodes sub) -> In e (fnodes ts).
Proof. apply tnodes_find. Qed.

Lemma tnodes_graft p sub :
  (forall t e, In e (tnodes (tgraft p sub t)) -> In e (tnodes t) \/ In e (tnodes sub)) /\
  (forall ts e, In e (fnodes (List.map (tgraft p sub) ts)) -> In e (fnodes ts) \/ In e (tnodes sub)).
Proof.
  apply tree_forest_ind.
  - intros x n c ps kids IH e. rewrite tgraft_eq. destruct (N.eqb x p) eqn:E; rewrite !tnodes_eq; cbn [In].
    + rewrite fnodes_app, fnodes_single, in_app_iff. intros [H|[H|H]].
      * left. left. exact H.
      * apply IH in H. destruct H as [H|H]; [left; right; exact H|right; exact H].
      * right. exact H.
    + intros [H|H].
      * left. left. exact H.
      * apply IH in H. destruct H as [H|H]; [left; right; exact H|right; exact H].
  - intros e H. cbn [List.map] in H. rewrite fnodes_nil in H. contradiction.
  - intros t ts IHt IHts e. cbn [List.map]. rewrite !fnodes_cons, !in_app_iff. intros [H|H].
    + apply IHt in H. destruct H as [H|H]; [left; left; exact H|right; exact H].
    + apply IHts in H. destruct H as [H|H]; [left; right; exact H|right; exact H].
Qed.

Lemma fnodes_fgraft p sub ts e :
  In e (fnodes (fgraft p sub ts)) -> In e (fnodes ts) \/ In e (tnodes sub).
Proof.
  unfold fgraft. destruct (N.eqb p rnone).
  - rewrite fnodes_app, fnodes_single, in_app_iff. intros H. exact H.
  - apply tnodes_graft.
Qed.

Lemma tnodes_apply_uids asg :
  (forall t x ps', In (x, ps') (tnodes (apply_uids asg t)) ->
      exists ps, In (x, ps) (tnodes t) /\ ps' = new_props asg x ps) /\
  (forall ts x ps', In (x, ps') (fnodes (List.map (apply_uids asg) ts)) ->
      exists ps, In (x, ps) (fnodes ts) /\ ps' = new_props asg x ps).
Proof.
  apply tree_forest_ind.
  - intros r n c ps0 kids IH x ps'. rewrite apply_uids_eq, !tnodes_eq. cbn [In]. intros [H|H].
    + injection H as <- <-. exists ps0. split; [left; reflexivity|reflexivity].
    + apply IH in H. destruct H as [ps [H1 H2]]. exists ps. split; [right; exact H1|exact H2].
  - intros x ps' H. cbn [List.map] in H. rewrite fnodes_nil in H. contradiction.
  - intros t ts IHt IHts x ps'. cbn [List.map]. rewrite !fnodes_cons, in_app_iff. intros [H|H].
    + apply IHt in H. destruct H as [ps [H1 H2]]. exists ps. split; [apply in_app_iff; left; exact H1|exact H2].
    + apply IHts in H. destruct H as [ps [H1 H2]]. exists ps. split; [apply in_app_iff; right; exact H1|exact H2].
Qed.

(* ------------------------------------------------------------------------------------------ *)
(* Part 2: the per-DOM side conditions, in node form                                           *)
(* ------------------------------------------------------------------------------------------ *)

Definition adom_ok (nu nr : N) (a : adom) : Prop :=
  uids_below nu a /\ refs_below nr a /\ prefs_below nr a /\ props_nodup a.

(* referent below the Ref allocator, planted Ref values below it, no repeated property key *)
Definition node_ok (nr : N) (x : ref) (ps : props) : Prop :=
  x < nr /\ (forall r, In (PRef r) (List.map snd ps) -> r < nr) /\ NoDup (keys ps).
Definition nodes_ok (nr : N) (ts : list tree) : Prop :=
  forall x ps, In (x, ps) (fnodes ts) -> node_ok nr x ps.
Definition nodes_uids_ok (nu : N) (ts : list tree) : Prop :=
  forall x ps u, In (x, ps) (fnodes ts) -> get_uid ps = Some u -> u < nu.

Lemma uids_below_iff nu a : uids_below nu a <-> nodes_uids_ok nu (a_trees a).
Proof.
  unfold uids_below, nodes_uids_ok. rewrite (proj2 tuids_tnodes). split.
  - intros H x ps u Hin Hu. apply H. apply in_flat_map. exists (x, ps). split; [exact Hin|].
    unfold nd_uid. cbn [snd]. rewrite Hu. left. reflexivity.
  - intros H u Hin. apply in_flat_map in Hin. destruct Hin as [[x ps] [Hin Hu]].
    unfold nd_uid in Hu. cbn [snd] in Hu. destruct (get_uid ps) as [u0|] eqn:E; [|contradiction].
    destruct Hu as [<-|[]]. eapply H; [exact Hin|exact E].
Qed.

Lemma rest_ok_iff nr a :
  (refs_below nr a /\ prefs_below nr a /\ props_nodup a) <-> nodes_ok nr (a_trees a).
Proof.
  unfold refs_below, prefs_below, props_nodup, nodes_ok, node_ok. split.
  - intros [Hr [Hp Hn]] x ps Hin. split; [|split].
    + apply Hr. rewrite (proj2 trefs_tnodes). apply in_map_iff. exists (x, ps). split; [reflexivity|exact Hin].
    + intros r Hv. apply Hp. rewrite (proj2 tpvals_tnodes). apply in_flat_map. exists (x, ps).
      split; [exact Hin|exact Hv].
    + rewrite <- (proj2 tnodes_tflat (a_trees a) rnone) in Hin. apply in_map_iff in Hin.
      destruct Hin as [[y i] [He Hi]]. unfold nd_entry in He. cbn [fst snd] in He. injection He as <- <-.
      exact (Hn y i Hi).
  - intros H. split; [|split].
    + intros r Hr. rewrite (proj2 trefs_tnodes) in Hr. apply in_map_iff in Hr.
      destruct Hr as [[x ps] [He Hin]]. cbn [fst] in He. subst x. exact (proj1 (H _ _ Hin)).
    + intros r Hr. rewrite (proj2 tpvals_tnodes) in Hr. apply in_flat_map in Hr.
      destruct Hr as [[x ps] [Hin Hv]]. exact (proj1 (proj2 (H _ _ Hin)) r Hv).
    + intros x i Hin. apply (H x (i_props i)). rewrite <- (proj2 tnodes_tflat (a_trees a) rnone).
      apply in_map_iff. exists (x, i). split; [reflexivity|exact Hin].
Qed.

Lemma adom_ok_iff nu nr a : adom_ok nu nr a <-> nodes_uids_ok nu (a_trees a) /\ nodes_ok nr (a_trees a).
Proof. unfold adom_ok. rewrite <- uids_below_iff, <- rest_ok_iff. reflexivity. Qed.

Lemma adom_ok_intro nu nr a : uids_below nu a -> nodes_ok nr (a_trees a) -> adom_ok nu nr a.
Proof. intros Hu Hn. apply rest_ok_iff in Hn. unfold adom_ok. tauto. Qed.

Lemma adom_ok_nodes nu nr a : adom_ok nu nr a -> nodes_ok nr (a_trees a).
Proof. intros H. apply adom_ok_iff in H. exact (proj2 H). Qed.

Lemma adom_ok_mono nu nr nu' nr' a : nu <= nu' -> nr <= nr' -> adom_ok nu nr a -> adom_ok nu' nr' a.
Proof.
  intros Hnu Hnr [Hu [Hr [Hp Hn]]]. unfold adom_ok, uids_below, refs_below, prefs_below in *.
  split; [|split; [|split]].
  - intros u Hin. specialize (Hu u Hin). lia.
  - intros r Hin. specialize (Hr r Hin). lia.
  - intros r Hin. specialize (Hp r Hin). lia.
  - exact Hn.
Qed.

Lemma nodes_ok_incl nr ts ts' :
  (forall e, In e (fnodes ts') -> In e (fnodes ts)) -> nodes_ok nr ts -> nodes_ok nr ts'.
Proof. intros Hi H x ps Hin. apply H. apply Hi. exact Hin. Qed.

Lemma nodes_uids_ok_incl nu ts ts' :
  (forall e, In e (fnodes ts') -> In e (fnodes ts)) -> nodes_uids_ok nu ts -> nodes_uids_ok nu ts'.
Proof. intros Hi H x ps u Hin Hu. eapply H; [apply Hi; exact Hin|exact Hu]. Qed.

(* nothing but old nodes: the side conditions carry over *)
Lemma adom_ok_incl nu nr a a' :
  (forall e, In e (fnodes (a_trees a')) -> In e (fnodes (a_trees a))) -> adom_ok nu nr a -> adom_ok nu nr a'.
Proof.
  intros Hi H. apply adom_ok_iff in H. destruct H as [Hu Hn]. apply adom_ok_iff. split.
  - eapply nodes_uids_ok_incl; [exact Hi|exact Hu].
  - eapply nodes_ok_incl; [exact Hi|exact Hn].
Qed.

(* settling a UniqueId only rewrites the UniqueId entry: keys stay distinct, no Ref value appears *)
Lemma node_ok_new_props nr asg x ps : node_ok nr x ps -> node_ok nr x (new_props asg x ps).
Proof.
  intros [Hx [Hp Hn]]. unfold new_props. destruct (lookup x asg) as [u|]; [|split; [exact Hx|split; assumption]].
  split; [exact Hx|split].
  - intros r Hin. apply in_map_iff in Hin. destruct Hin as [[k v] [Hv Hin]]. cbn [snd] in Hv. subst v.
    apply RefCloneAux.In_upd in Hin. destruct Hin as [[_ Hv]|Hin]; [discriminate|].
    apply Hp. apply in_map_iff. exists (k, PRef r). split; [reflexivity|exact Hin].
  - apply RefCloneAux.NoDup_keys_upd. exact Hn.
Qed.

Lemma nodes_ok_apply_uids nr asg t :
  (forall x ps, In (x, ps) (tnodes t) -> node_ok nr x ps) ->
  forall x ps, In (x, ps) (tnodes (apply_uids asg t)) -> node_ok nr x ps.
Proof.
  intros H x ps' Hin. apply (proj1 (tnodes_apply_uids asg)) in Hin. destruct Hin as [ps [Hin ->]].
  apply node_ok_new_props. apply H. exact Hin.
Qed.

(* ------------------------------------------------------------------------------------------ *)
(* Part 3: builders                                                                             *)
(* ------------------------------------------------------------------------------------------ *)

(* every property value a builder contributes, after [props_of_list] (later duplicates overwrite) *)
Fixpoint bpvals (b : btree) : list pval :=
  match b with
  | BNode _ _ _ ps kids =>
      List.map snd (props_of_list ps)
      ++ (fix go ks := match ks with [] => [] | k :: ks' => bpvals k ++ go ks' end) kids
  end.

Lemma brefs_tob b : trefs (tree_of_builder b) = brefs b.
Proof.
  induction b as [r n c ps kids IH] using btree_ind'.
  rewrite tree_of_builder_eq, trefs_eq. cbn [brefs]. f_equal.
  induction IH as [|k ks Hk _ IHks]; [reflexivity|].
  cbn [List.map]. rewrite frefs_cons. rewrite Hk, IHks. reflexivity.
Qed.

Lemma bpvals_tob b : tpvals (tree_of_builder b) = bpvals b.
Proof.
  induction b as [r n c ps kids IH] using btree_ind'.
  rewrite tree_of_builder_eq, tpvals_eq. cbn [bpvals]. f_equal.
  induction IH as [|k ks Hk _ IHks]; [reflexivity|].
  cbn [List.map]. change (fpvals (tree_of_builder k :: List.map tree_of_builder ks))
    with (tpvals (tree_of_builder k) ++ fpvals (List.map tree_of_builder ks)).
  rewrite Hk, IHks. reflexivity.
Qed.

Lemma buids_tob b : tuids (tree_of_builder b) = buids b.
Proof. exact (tuids_tob b). Qed.

Lemma tob_nodes_nodup b : forall x ps, In (x, ps) (tnodes (tree_of_builder b)) -> NoDup (keys ps).
Proof.
  induction b as [r n c ps0 kids IH] using btree_ind'. intros x ps.
  rewrite tree_of_builder_eq, tnodes_eq. cbn [In]. intros [H|H].
  - injection H as _ <-. apply NoDup_keys_pol.
  - unfold fnodes in H. apply in_flat_map in H. destruct H as [t [Ht Hin]].
    apply in_map_iff in Ht. destruct Ht as [k [<- Hk]]. rewrite Forall_forall in IH.
    exact (IH k Hk x ps Hin).
Qed.

Definition builder_ok (aw : aworld) (b : btree) : Prop :=
  (forall u, In u (buids b) -> u < aw_nu aw) /\
  (forall r, In r (brefs b) -> r < aw_nr aw) /\
  (forall r, In (PRef r) (bpvals b) -> r < aw_nr aw).

Lemma tob_nodes_ok nr b :
  (forall r, In r (brefs b) -> r < nr) -> (forall r, In (PRef r) (bpvals b) -> r < nr) ->
  forall x ps, In (x, ps) (tnodes (tree_of_builder b)) -> node_ok nr x ps.
Proof.
  intros Hr Hp x ps Hin. split; [|split].
  - apply Hr. rewrite <- brefs_tob. eapply In_tnodes_trefs. exact Hin.
  - intros r Hv. apply Hp. rewrite <- bpvals_tob. eapply In_tnodes_tpvals; [exact Hin|exact Hv].
  - eapply tob_nodes_nodup. exact Hin.
Qed.

(* ------------------------------------------------------------------------------------------ *)
(* Part 4: the shape of the abstract results                                                   *)
(* ------------------------------------------------------------------------------------------ *)

Lemma a_insert_shape a nu p b a' nu' :
  a_insert a nu p b = Some (a', nu') ->
  exists asg, a' = mkADom (a_root a) (fgraft p (apply_uids asg (tree_of_builder b)) (a_trees a)).
Proof.
  unfold a_insert. intros H.
  match type of H with (if ?c then _ else _) = _ => destruct c; [|discriminate] end.
  unfold arrive in H.
  destruct (settle (fuids (a_trees a)) nu (bfs_all [tree_of_builder b])) as [asg nu0].
  cbn [List.map] in H. injection H as <- <-. exists asg. reflexivity.
Qed.

Lemma a_destroy_shape a r a' :
  a_destroy a r = Some a' -> a' = mkADom (a_root a) (fdel r (a_trees a)).
Proof.
  unfold a_destroy. intros H.
  match type of H with (if ?c then _ else _) = _ => destruct c; [|discriminate] end.
  injection H as <-. reflexivity.
Qed.

Lemma a_move_within_shape a r dest a' :
  a_move_within a r dest = Some a' ->
  exists sub, ffind r (a_trees a) = Some sub /\
              a' = mkADom (a_root a) (fgraft dest sub (fdel r (a_trees a))).
Proof.
  unfold a_move_within. intros H. destruct (N.eqb r (a_root a)); [discriminate|].
  destruct (ffind r (a_trees a)) as [sub|] eqn:Ef; [|discriminate].
  destruct (hasnode dest (fdel r (a_trees a))); [|discriminate].
  injection H as <-. exists sub. split; reflexivity.
Qed.

Lemma a_move_shape s t nu r dest s' t' nu' :
  a_move s t nu r dest = Some (s', t', nu') ->
  exists sub asg, ffind r (a_trees s) = Some sub /\
                  s' = mkADom (a_root s) (fdel r (a_trees s)) /\
                  t' = mkADom (a_root t) (fgraft dest (apply_uids asg sub) (a_trees t)).
Proof.
  unfold a_move. intros H. destruct (N.eqb r (a_root s)); [discriminate|].
  destruct (ffind r (a_trees s)) as [sub|] eqn:Ef; [|discriminate].
  match type of H with (if ?c then _ else _) = _ => destruct c; [|discriminate] end.
  unfold arrive in H.
  destruct (settle (fuids (a_trees t)) nu (bfs_all [sub])) as [asg nu0].
  cbn [List.map] in H. injection H as <- <- <-. exists sub, asg. split; [reflexivity|split; reflexivity].
Qed.

(* ---- the side conditions of the results ---- *)

Lemma insert_nodes_ok nr a nu p b a' nu' :
  nodes_ok nr (a_trees a) ->
  (forall r, In r (brefs b) -> r < nr) -> (forall r, In (PRef r) (bpvals b) -> r < nr) ->
  a_insert a nu p b = Some (a', nu') -> nodes_ok nr (a_trees a').
Proof.
  intros Hok Hr Hp Hins. destruct (a_insert_shape _ _ _ _ _ _ Hins) as [asg ->]. cbn [a_trees].
  intros x ps Hin. apply fnodes_fgraft in Hin. destruct Hin as [Hin|Hin].
  - apply Hok. exact Hin.
  - revert x ps Hin. apply nodes_ok_apply_uids. apply tob_nodes_ok; assumption.
Qed.

Lemma destroy_ok nu nr a r a' : adom_ok nu nr a -> a_destroy a r = Some a' -> adom_ok nu nr a'.
Proof.
  intros Hok Hd. rewrite (a_destroy_shape _ _ _ Hd). eapply adom_ok_incl; [|exact Hok].
  cbn [a_trees]. intros e. apply fnodes_fdel.
Qed.

Lemma move_within_ok nu nr a r dest a' :
  adom_ok nu nr a -> a_move_within a r dest = Some a' -> adom_ok nu nr a'.
Proof.
  intros Hok Hm. destruct (a_move_within_shape _ _ _ _ Hm) as [sub [Hf ->]].
  eapply adom_ok_incl; [|exact Hok]. cbn [a_trees]. intros e Hin.
  apply fnodes_fgraft in Hin. destruct Hin as [Hin|Hin].
  - eapply fnodes_fdel. exact Hin.
  - eapply fnodes_ffind; [exact Hf|exact Hin].
Qed.

Lemma move_nodes_ok nr s t nu r dest s' t' nu' :
  nodes_ok nr (a_trees s) -> nodes_ok nr (a_trees t) ->
  a_move s t nu r dest = Some (s', t', nu') ->
  nodes_ok nr (a_trees s') /\ nodes_ok nr (a_trees t').
Proof.
  intros Hs Ht Hm. destruct (a_move_shape _ _ _ _ _ _ _ _ Hm) as [sub [asg [Hf [-> ->]]]]. cbn [a_trees]. split.
  - eapply nodes_ok_incl; [|exact Hs]. intros e. apply fnodes_fdel.
  - intros x ps Hin. apply fnodes_fgraft in Hin. destruct Hin as [Hin|Hin].
    + apply Ht. exact Hin.
    + revert x ps Hin. apply nodes_ok_apply_uids. intros x ps Hin. apply Hs.
      eapply fnodes_ffind; [exact Hf|exact Hin].
Qed.

(* ------------------------------------------------------------------------------------------ *)
(* Part 5: worlds                                                                               *)
(* ------------------------------------------------------------------------------------------ *)

Definition RepW (w : world) (aw : aworld) : Prop :=
  Forall2 Rep (w_doms w) (aw_doms aw) /\
  w_nu w = aw_nu aw /\
  w_nr w = aw_nr aw /\
  (forall a, In a (aw_doms aw) ->
     uids_below (aw_nu aw) a /\ refs_below (aw_nr aw) a /\ prefs_below (aw_nr aw) a /\ props_nodup a).

Lemma RepW_Forall w aw :
  RepW w aw <->
  Forall2 Rep (w_doms w) (aw_doms aw) /\ w_nu w = aw_nu aw /\ w_nr w = aw_nr aw /\
  Forall (adom_ok (aw_nu aw) (aw_nr aw)) (aw_doms aw).
Proof. unfold RepW, adom_ok. rewrite Forall_forall. reflexivity. Qed.

Definition op_ok (aw : aworld) (o : op) : Prop :=
  match o with
  | ONew b => builder_ok aw b
  | OInsert _ _ b => builder_ok aw b
  | _ => True
  end.

Fixpoint arun (aw : aworld) (ops : list op) : option aworld :=
  match ops with
  | [] => Some aw
  | o :: rest => match astep aw o with Some (aw1, _) => arun aw1 rest | None => None end
  end.

Fixpoint ops_ok (aw : aworld) (ops : list op) : Prop :=
  match ops with
  | [] => True
  | o :: rest => op_ok aw o /\ match astep aw o with Some (aw1, _) => ops_ok aw1 rest | None => True end
  end.

Lemma RepW_get w aw k a :
  RepW w aw -> nth_opt k (aw_doms aw) = Some a ->
  exists d, nth_opt k (w_doms w) = Some d /\ Rep d a /\ adom_ok (aw_nu aw) (aw_nr aw) a.
Proof.
  intros HW Hk. apply RepW_Forall in HW. destruct HW as [HF [_ [_ Hok]]].
  destruct (Forall2_nth_opt _ _ _ HF k a Hk) as [d [Hd HR]].
  exists d. split; [exact Hd|]. split; [exact HR|]. exact (Forall_nth_opt _ _ Hok k a Hk).
Qed.

(* replace one DOM; the allocators may have grown *)
Lemma RepW_set w aw k d' a' nu' nr' :
  RepW w aw -> aw_nu aw <= nu' -> aw_nr aw <= nr' -> Rep d' a' -> adom_ok nu' nr' a' ->
  RepW (mkWorld (set_nth k d' (w_doms w)) nu' nr') (mkAWorld (set_nth k a' (aw_doms aw)) nu' nr').
Proof.
  intros HW Hnu Hnr HR Hok'. apply RepW_Forall in HW. destruct HW as [HF [_ [_ Hok]]].
  apply RepW_Forall. cbn [w_doms w_nu w_nr aw_doms aw_nu aw_nr].
  split; [apply Forall2_set_nth; [exact HF|exact HR]|].
  split; [reflexivity|]. split; [reflexivity|].
  apply Forall_set_nth; [|exact Hok'].
  eapply Forall_impl; [|exact Hok]. intros a0. apply adom_ok_mono; assumption.
Qed.

(* append one DOM *)
Lemma RepW_app w aw d' a' nu' :
  RepW w aw -> aw_nu aw <= nu' -> Rep d' a' -> adom_ok nu' (aw_nr aw) a' ->
  RepW (mkWorld (w_doms w ++ [d']) nu' (w_nr w)) (mkAWorld (aw_doms aw ++ [a']) nu' (aw_nr aw)).
Proof.
  intros HW Hnu HR Hok'. apply RepW_Forall in HW. destruct HW as [HF [_ [Hnr Hok]]].
  apply RepW_Forall. cbn [w_doms w_nu w_nr aw_doms aw_nu aw_nr].
  split; [apply Forall2_app; [exact HF|constructor; [exact HR|constructor]]|].
  split; [reflexivity|]. split; [exact Hnr|].
  apply Forall_app. split.
  - eapply Forall_impl; [|exact Hok]. intros a0. apply adom_ok_mono; [exact Hnu|lia].
  - constructor; [exact Hok'|constructor].
Qed.

Lemma RepW_nu w aw : RepW w aw -> w_nu w = aw_nu aw.
Proof. intros H. exact (proj1 (proj2 H)). Qed.
Lemma RepW_nr w aw : RepW w aw -> w_nr w = aw_nr aw.
Proof. intros H. exact (proj1 (proj2 (proj2 H))). Qed.

(* ---- one lemma per operation ---- *)

Lemma step_new w aw b aw' ret :
  RepW w aw -> builder_ok aw b -> astep aw (ONew b) = Some (aw', ret) ->
  exists w', step w (ONew b) = Ok (w', ret) /\ RepW w' aw'.
Proof.
  intros HW [Hbu [Hbr Hbp]] Hs. cbn [astep] in Hs.
  destruct (a_new (aw_nu aw) b) as [[a nu']|] eqn:Ea; [|discriminate]. injection Hs as <- <-.
  destruct (new_refines (aw_nu aw) b a nu' Hbu Ea) as [d' [Ed [HR [Hub Hle]]]].
  exists (mkWorld (w_doms w ++ [d']) nu' (w_nr w)). split.
  - cbn [step]. rewrite (RepW_nu _ _ HW), Ed. cbn [rbind]. reflexivity.
  - apply RepW_app; [exact HW|exact Hle|exact HR|].
    apply adom_ok_intro; [exact Hub|]. unfold a_new in Ea.
    eapply insert_nodes_ok; [|exact Hbr|exact Hbp|exact Ea].
    cbn [a_trees]. intros x ps Hin. rewrite fnodes_nil in Hin. contradiction.
Qed.

Lemma step_insert w aw k p b aw' ret :
  RepW w aw -> builder_ok aw b -> astep aw (OInsert k p b) = Some (aw', ret) ->
  exists w', step w (OInsert k p b) = Ok (w', ret) /\ RepW w' aw'.
Proof.
  intros HW [Hbu [Hbr Hbp]] Hs. cbn [astep] in Hs.
  destruct (nth_opt k (aw_doms aw)) as [a|] eqn:Ek; [|discriminate].
  destruct (a_insert a (aw_nu aw) p b) as [[a1 nu']|] eqn:Ea; [|discriminate]. injection Hs as <- <-.
  destruct (RepW_get _ _ _ _ HW Ek) as [d [Ed [HRd Hoka]]].
  destruct (insert_refines d a (aw_nu aw) p b a1 nu' HRd (proj1 Hoka) Hbu Ea) as [d' [Ei [HR' [Hub Hle]]]].
  exists (mkWorld (put_dom w k d') nu' (w_nr w)). split.
  - cbn [step]. unfold get_dom. rewrite Ed. cbn [of_opt rbind].
    rewrite (RepW_nu _ _ HW), Ei. cbn [rbind]. reflexivity.
  - unfold put_dom. rewrite (RepW_nr _ _ HW). apply RepW_set; [exact HW|exact Hle|lia|exact HR'|].
    apply adom_ok_intro; [exact Hub|].
    eapply insert_nodes_ok; [|exact Hbr|exact Hbp|exact Ea]. eapply adom_ok_nodes. exact Hoka.
Qed.

Lemma step_destroy w aw k r aw' ret :
  RepW w aw -> astep aw (ODestroy k r) = Some (aw', ret) ->
  exists w', step w (ODestroy k r) = Ok (w', ret) /\ RepW w' aw'.
Proof.
  intros HW Hs. cbn [astep] in Hs.
  destruct (nth_opt k (aw_doms aw)) as [a|] eqn:Ek; [|discriminate].
  destruct (a_destroy a r) as [a1|] eqn:Ea; [|discriminate]. injection Hs as <- <-.
  destruct (RepW_get _ _ _ _ HW Ek) as [d [Ed [HRd Hoka]]].
  destruct (destroy_refines d a r a1 HRd Ea) as [d' [Ei HR']].
  exists (mkWorld (put_dom w k d') (w_nu w) (w_nr w)). split.
  - cbn [step]. unfold get_dom. rewrite Ed. cbn [of_opt rbind]. rewrite Ei. cbn [rbind]. reflexivity.
  - unfold put_dom. rewrite (RepW_nu _ _ HW), (RepW_nr _ _ HW).
    apply RepW_set; [exact HW|lia|lia|exact HR'|]. eapply destroy_ok; [exact Hoka|exact Ea].
Qed.

Lemma step_move_within w aw k r dest aw' ret :
  RepW w aw -> astep aw (OMoveWithin k r dest) = Some (aw', ret) ->
  exists w', step w (OMoveWithin k r dest) = Ok (w', ret) /\ RepW w' aw'.
Proof.
  intros HW Hs. cbn [astep] in Hs.
  destruct (nth_opt k (aw_doms aw)) as [a|] eqn:Ek; [|discriminate].
  destruct (a_move_within a r dest) as [a1|] eqn:Ea; [|discriminate]. injection Hs as <- <-.
  destruct (RepW_get _ _ _ _ HW Ek) as [d [Ed [HRd Hoka]]].
  destruct (move_within_refines d a r dest a1 HRd Ea) as [d' [Ei HR']].
  exists (mkWorld (put_dom w k d') (w_nu w) (w_nr w)). split.
  - cbn [step]. unfold get_dom. rewrite Ed. cbn [of_opt rbind]. rewrite Ei. cbn [rbind]. reflexivity.
  - unfold put_dom. rewrite (RepW_nu _ _ HW), (RepW_nr _ _ HW).
    apply RepW_set; [exact HW|lia|lia|exact HR'|]. eapply move_within_ok; [exact Hoka|exact Ea].
Qed.

Lemma step_move w aw k r k2 dest aw' ret :
  RepW w aw -> astep aw (OMove k r k2 dest) = Some (aw', ret) ->
  exists w', step w (OMove k r k2 dest) = Ok (w', ret) /\ RepW w' aw'.
Proof.
  intros HW Hs. cbn [astep] in Hs.
  destruct (Nat.eqb k k2) eqn:Ekk; [discriminate|].
  destruct (nth_opt k (aw_doms aw)) as [sa|] eqn:Ek; [|discriminate].
  destruct (nth_opt k2 (aw_doms aw)) as [ta|] eqn:Ek2; [|discriminate].
  destruct (a_move sa ta (aw_nu aw) r dest) as [[[sa1 ta1] nu']|] eqn:Ea; [|discriminate].
  injection Hs as <- <-.
  destruct (RepW_get _ _ _ _ HW Ek) as [s [Es [HRs Hoks]]].
  destruct (RepW_get _ _ _ _ HW Ek2) as [t [Et [HRt Hokt]]].
  destruct (move_refines s t sa ta (aw_nu aw) r dest sa1 ta1 nu' HRs HRt (proj1 Hoks) (proj1 Hokt) Ea)
    as [s' [t' [Em [HRs' [HRt' [Hus' [Hut' Hle]]]]]]].
  destruct (move_nodes_ok (aw_nr aw) sa ta (aw_nu aw) r dest sa1 ta1 nu'
              (adom_ok_nodes _ _ _ Hoks) (adom_ok_nodes _ _ _ Hokt) Ea) as [Hns' Hnt'].
  exists (mkWorld (set_nth k2 t' (set_nth k s' (w_doms w))) nu' (w_nr w)). split.
  - cbn [step]. rewrite Ekk. unfold get_dom. rewrite Es, Et. cbn [of_opt rbind].
    rewrite (RepW_nu _ _ HW), Em. cbn [rbind]. reflexivity.
  - rewrite (RepW_nr _ _ HW).
    pose proof (RepW_set w aw k s' sa1 nu' (aw_nr aw) HW Hle (N.le_refl _) HRs'
                  (adom_ok_intro _ _ _ Hus' Hns')) as HW1.
    exact (RepW_set _ _ k2 t' ta1 nu' (aw_nr aw) HW1 (N.le_refl _) (N.le_refl _) HRt'
             (adom_ok_intro _ _ _ Hut' Hnt')).
Qed.

Lemma step_clone_within w aw k r aw' ret :
  RepW w aw -> astep aw (OCloneWithin k r) = Some (aw', ret) ->
  exists w', step w (OCloneWithin k r) = Ok (w', ret) /\ RepW w' aw'.
Proof.
  intros HW Hs. cbn [astep] in Hs.
  destruct (nth_opt k (aw_doms aw)) as [a|] eqn:Ek; [|discriminate].
  destruct (a_clone a a (aw_nu aw) (aw_nr aw) [r]) as [[[[a1 nu'] nr'] roots]|] eqn:Ea; [|discriminate].
  injection Hs as <- <-.
  destruct (RepW_get _ _ _ _ HW Ek) as [d [Ed [HRd [Hu [Hr [Hp Hn]]]]]].
  destruct (clone_within_refines d a (aw_nu aw) (aw_nr aw) [r] a1 nu' nr' roots HRd Hu Hr Hp Hn Ea)
    as [d' [Ec [HR' [Hu' [Hr' [Hp' [Hn' [Hlu Hlr]]]]]]]].
  exists (mkWorld (put_dom w k d') nu' nr'). split.
  - cbn [step]. unfold get_dom. rewrite Ed. cbn [of_opt rbind].
    rewrite (RepW_nu _ _ HW), (RepW_nr _ _ HW), Ec. cbn [rbind]. reflexivity.
  - unfold put_dom. apply RepW_set; [exact HW|exact Hlu|exact Hlr|exact HR'|].
    unfold adom_ok. tauto.
Qed.

(* clone_into_external and clone_multiple_into_external: the same call with one or several roots *)
Lemma step_clone_ext_gen w aw k rs k2 aw' ret :
  RepW w aw ->
  (if Nat.eqb k k2 then None else
     match nth_opt k (aw_doms aw), nth_opt k2 (aw_doms aw) with
     | Some s, Some t =>
         match a_clone s t (aw_nu aw) (aw_nr aw) rs with
         | Some (t1, nu, nr, roots) => Some (mkAWorld (set_nth k2 t1 (aw_doms aw)) nu nr, roots)
         | None => None end
     | _, _ => None
     end) = Some (aw', ret) ->
  exists w',
    (if Nat.eqb k k2 then Panic else
       s <- get_dom w k ;;
       t <- get_dom w k2 ;;
       '(t1, nu, nr, roots) <- dom_clone (Some s) t (w_nu w) (w_nr w) rs ;;
       Ok (mkWorld (put_dom w k2 t1) nu nr, roots)) = Ok (w', ret) /\ RepW w' aw'.
Proof.
  intros HW Hs.
  destruct (Nat.eqb k k2) eqn:Ekk; [discriminate|].
  destruct (nth_opt k (aw_doms aw)) as [sa|] eqn:Ek; [|discriminate].
  destruct (nth_opt k2 (aw_doms aw)) as [ta|] eqn:Ek2; [|discriminate].
  destruct (a_clone sa ta (aw_nu aw) (aw_nr aw) rs) as [[[[ta1 nu'] nr'] roots]|] eqn:Ea; [|discriminate].
  injection Hs as <- <-.
  destruct (RepW_get _ _ _ _ HW Ek) as [s [Es [HRs [Hus [Hrs [Hps Hns]]]]]].
  destruct (RepW_get _ _ _ _ HW Ek2) as [t [Et [HRt [Hut [Hrt [Hpt Hnt]]]]]].
  destruct (clone_ext_refines s t sa ta (aw_nu aw) (aw_nr aw) rs ta1 nu' nr' roots
              HRs HRt Hus Hut Hrs Hrt Hps Hpt Hns Hnt Ea)
    as [t' [Ec [HR' [Hu' [Hr' [Hp' [Hn' [Hlu Hlr]]]]]]]].
  exists (mkWorld (put_dom w k2 t') nu' nr'). split.
  - unfold get_dom. rewrite Es, Et. cbn [of_opt rbind].
    rewrite (RepW_nu _ _ HW), (RepW_nr _ _ HW), Ec. cbn [rbind]. reflexivity.
  - unfold put_dom. apply RepW_set; [exact HW|exact Hlu|exact Hlr|exact HR'|].
    unfold adom_ok. tauto.
Qed.

(* ---- one step, any operation ---- *)

Theorem refines_step : forall w aw o aw' ret,
  RepW w aw -> op_ok aw o -> astep aw o = Some (aw', ret) ->
  exists w', step w o = Ok (w', ret) /\ RepW w' aw'.
Proof.
  intros w aw o aw' ret HW Hop Hs.
  destruct o as [b|k p b|k r|k r dest|k r k2 dest|k r|k r k2|k rs k2].
  - exact (step_new w aw b aw' ret HW Hop Hs).
  - exact (step_insert w aw k p b aw' ret HW Hop Hs).
  - exact (step_destroy w aw k r aw' ret HW Hs).
  - exact (step_move_within w aw k r dest aw' ret HW Hs).
  - exact (step_move w aw k r k2 dest aw' ret HW Hs).
  - exact (step_clone_within w aw k r aw' ret HW Hs).
  - exact (step_clone_ext_gen w aw k [r] k2 aw' ret HW Hs).
  - exact (step_clone_ext_gen w aw k rs k2 aw' ret HW Hs).
Qed.

(* ---- whole histories ---- *)

Theorem refines_run : forall ops w aw aw',
  RepW w aw -> ops_ok aw ops -> arun aw ops = Some aw' ->
  exists w', run w ops = Ok w' /\ RepW w' aw'.
Proof.
  induction ops as [|o rest IH]; intros w aw aw' HW Hok Hrun.
  - cbn [arun] in Hrun. injection Hrun as <-. exists w. split; [reflexivity|exact HW].
  - cbn [arun] in Hrun. cbn [ops_ok] in Hok. destruct Hok as [Ho Hrest].
    destruct (astep aw o) as [[aw1 ret]|] eqn:Es; [|discriminate].
    destruct (refines_step w aw o aw1 ret HW Ho Es) as [w1 [E1 HW1]].
    destruct (IH w1 aw1 aw' HW1 Hrest Hrun) as [w' [E' HW']].
    exists w'. split; [|exact HW']. cbn [run]. rewrite E1. cbn [rbind]. exact E'.
Qed.

Lemma repw_init : RepW world0 aworld0.
Proof.
  unfold RepW, world0, aworld0. cbn [w_doms w_nu w_nr aw_doms aw_nu aw_nr].
  split; [constructor|]. split; [reflexivity|]. split; [reflexivity|]. intros a [].
Qed.

Lemma RepW_WF w aw : RepW w aw -> Forall WF (w_doms w).
Proof. intros [HF _]. eapply Forall2_Forall_l; [exact rep_wf|exact HF]. Qed.

(* C09: every DOM reachable by any history inside the documented preconditions is well formed *)
Theorem wf_reachable : forall ops aw',
  ops_ok aworld0 ops -> arun aworld0 ops = Some aw' ->
  exists w', run world0 ops = Ok w' /\ Forall WF (w_doms w').
Proof.
  intros ops aw' Hok Hrun.
  destruct (refines_run ops world0 aworld0 aw' repw_init Hok Hrun) as [w' [E HW]].
  exists w'. split; [exact E|]. eapply RepW_WF. exact HW.
Qed.

(* the reached world moreover represents the specification's world, DOM by DOM *)
Corollary reachable_represents : forall ops aw',
  ops_ok aworld0 ops -> arun aworld0 ops = Some aw' ->
  exists w', run world0 ops = Ok w' /\ RepW w' aw'.
Proof. intros ops aw' Hok Hrun. exact (refines_run ops world0 aworld0 aw' repw_init Hok Hrun). Qed.

(* ------------------------------------------------------------------------------------------ *)
(* Part 6: the premises are satisfiable                                                        *)
(* ------------------------------------------------------------------------------------------ *)

(* boolean check of [ops_ok], for concrete histories *)
Definition pval_below (nr : N) (v : pval) : bool := match v with PRef r => N.ltb r nr | _ => true end.
Definition builder_okb (aw : aworld) (b : btree) : bool :=
  forallb (fun u => N.ltb u (aw_nu aw)) (buids b) &&
  forallb (fun r => N.ltb r (aw_nr aw)) (brefs b) &&
  forallb (pval_below (aw_nr aw)) (bpvals b).
Definition op_okb (aw : aworld) (o : op) : bool :=
  match o with ONew b => builder_okb aw b | OInsert _ _ b => builder_okb aw b | _ => true end.
Fixpoint ops_okb (aw : aworld) (ops : list op) : bool :=
  match ops with
  | [] => true
  | o :: rest => op_okb aw o && match astep aw o with Some (aw1, _) => ops_okb aw1 rest | None => true end
  end.

Lemma builder_okb_ok aw b : builder_okb aw b = true -> builder_ok aw b.
Proof.
  unfold builder_okb, builder_ok. intros H.
  apply andb_true_iff in H. destruct H as [H H3]. apply andb_true_iff in H. destruct H as [H1 H2].
  rewrite forallb_forall in H1, H2, H3. split; [|split].
  - intros u Hu. apply N.ltb_lt. exact (H1 u Hu).
  - intros r Hr. apply N.ltb_lt. exact (H2 r Hr).
  - intros r Hr. apply N.ltb_lt. exact (H3 (PRef r) Hr).
Qed.

Lemma op_okb_ok aw o : op_okb aw o = true -> op_ok aw o.
Proof. destruct o; cbn [op_okb op_ok]; try (intros _; exact I); apply builder_okb_ok. Qed.

Lemma ops_okb_ok ops : forall aw, ops_okb aw ops = true -> ops_ok aw ops.
Proof.
  induction ops as [|o rest IH]; intros aw H; cbn [ops_ok]; [exact I|].
  cbn [ops_okb] in H. apply andb_true_iff in H. destruct H as [Ho Hrest].
  split; [apply op_okb_ok; exact Ho|].
  destruct (astep aw o) as [[aw1 ret]|]; [apply IH; exact Hrest|exact I].
Qed.

(* two DOMs, every kind of operation: new x2, insert (with a colliding UniqueId), transfer_within,
   transfer, clone_within, clone_into_external, clone_multiple_into_external, destroy *)
Definition ex_ops : list op :=
  [ ONew (BNode 1 0 0 [] [BNode 2 0 0 [(UIDKEY, PUid 5)] []; BNode 3 0 0 [(1, PRef 2); (2, POther 7)] []]);
    ONew (BNode 10 0 0 [] [BNode 11 0 0 [(UIDKEY, PUid 5)] []]);
    OInsert 0 2 (BNode 4 0 0 [(UIDKEY, PUid 5); (3, PRef 3)] []);
    OMoveWithin 0 3 2;
    OMove 0 2 1 11;
    OCloneWithin 1 2;
    OCloneExt 1 11 0;
    OCloneMulti 1 [4; 3] 0;
    ODestroy 1 2 ].

Example ex_ops_ok : ops_ok aworld0 ex_ops.
Proof. apply ops_okb_ok. vm_compute. reflexivity. Qed.

Example ex_ops_defined : exists aw', arun aworld0 ex_ops = Some aw' /\ length (aw_doms aw') = 2%nat.
Proof. eexists. split; [vm_compute; reflexivity|reflexivity]. Qed.

Example ex_ops_wf : exists w', run world0 ex_ops = Ok w' /\ Forall WF (w_doms w').
Proof.
  destruct ex_ops_defined as [aw' [Hrun _]]. exact (wf_reachable ex_ops aw' ex_ops_ok Hrun).
Qed.

Print Assumptions refines_step.
Print Assumptions refines_run.
Print Assumptions wf_reachable.
