(* DomFacts.v — first facts about the concrete WeakDom model. *)
From RbxVerif Require Import Base Dom BaseFacts.
From Coq Require Import Lia.

(* inner_remove makes the instance unreachable by lookup and frees its UniqueId *)
Lemma inner_remove_gone d r d' i :
  inner_remove d r = Some (d', i) -> lookup r (d_insts d') = None /\ lookup r (d_insts d) = Some i.
Proof.
  unfold inner_remove. destruct (lookup r (d_insts d)) as [i0|] eqn:E; [|discriminate].
  intros [= <- <-]. cbn. split; [apply lookup_remove_eq|reflexivity].
Qed.

Lemma inner_remove_frame d r d' i x :
  inner_remove d r = Some (d', i) -> x <> r -> lookup x (d_insts d') = lookup x (d_insts d).
Proof.
  unfold inner_remove. destruct (lookup r (d_insts d)) as [i0|]; [|discriminate].
  intros [= <- <-] Hne. cbn. now apply lookup_remove_neq.
Qed.

(* the guard added to transfer_within: a successful move never goes under the moved instance's own subtree *)
Lemma transfer_within_guard d r dest d' :
  dom_transfer_within d r dest = Ok d' ->
  r <> d_root d /\ anc_loop (S (dom_size d)) d dest r = Ok false.
Proof.
  unfold dom_transfer_within.
  destruct (N.eqb r (d_root d)) eqn:Er; [discriminate|].
  apply N.eqb_neq in Er.
  destruct (anc_loop (S (dom_size d)) d dest r) as [b| | |] eqn:Ea; cbn; try discriminate.
  destruct b; [discriminate|]. intros _. split; [exact Er|reflexivity].
Qed.

(* UniqueId bookkeeping of inner_insert: the id set afterwards contains the id the instance ends up with *)
Lemma inner_insert_uid d nu r i d' nu' :
  inner_insert d nu r i = (d', nu') ->
  exists i', lookup r (d_insts d') = Some i' /\
             (forall u, get_uid (i_props i') = Some u -> mem u (d_uids d') = true) /\
             (forall x, x <> r -> lookup x (d_insts d') = lookup x (d_insts d)).
Proof.
  unfold inner_insert. destruct (get_uid (i_props i)) as [u|] eqn:Eu.
  - destruct (mem u (d_uids d)) eqn:Em; intros [= <- <-]; cbn.
    + eexists. split; [apply lookup_upd_eq|]. split.
      * intros u0. unfold get_uid. cbn [i_props set_props]. rewrite lookup_upd_eq.
        intros [= <-]. rewrite mem_sadd, N.eqb_refl. reflexivity.
      * intros x Hx. now apply lookup_upd_neq.
    + eexists. split; [apply lookup_upd_eq|]. split.
      * intros u0 Hu0. rewrite Eu in Hu0. injection Hu0 as <-. rewrite mem_sadd, N.eqb_refl. reflexivity.
      * intros x Hx. now apply lookup_upd_neq.
  - intros [= <- <-]; cbn. eexists. split; [apply lookup_upd_eq|]. split.
    + intros u Hu. congruence.
    + intros x Hx. now apply lookup_upd_neq.
Qed.
