(* BinSafeDb.v — decode_file_total instantiated: for every database that passes the coherence check of C16
   (Model/DbCheck.v), in particular the bundled one regenerated into Gen/Database.v, the binary decoder model
   returns a DOM or an error on every byte string. *)
From RbxVerif Require Import Base Bytes Value Db DbCheck DbFacts CodecDom BinValues BinFile BinSafe.
From RbxVerif Require Database.

Lemma coherent_db_total d : db_coherent d = true -> db_total d.
Proof. intros H cn pn. exact (proj1 (coherent_lookups_total d H cn pn)). Qed.

Theorem decode_file_total_coherent d p b : db_coherent d = true ->
  decode_file d p b <> Panic /\ decode_file d p b <> OutOfFuel.
Proof. intros H. apply decode_file_total. now apply coherent_db_total. Qed.

Theorem decode_file_total_bundled p b :
  decode_file Database.database p b <> Panic /\ decode_file Database.database p b <> OutOfFuel.
Proof. apply decode_file_total_coherent. exact bundled_coherent. Qed.
