(* XmlDeterminism.v — property C07 for the XML format: the events (hence, through the event writer, the bytes)
   [xml_encode] produces are a function of the logical content of the DOM alone.
     (1) the byte order of names is a strict total order; [bsort] sorts and permutes; sorting forgets the insertion order
     (2) the document does not depend on the order in which each instance lists its properties
     (5) the SharedStrings dictionary does not depend on the order of discovery
     (3) the document does not depend on the Ref values (any renaming injective on the refs that occur, fixing null)
     (4) both at once.
   Standard library only. *)
From Coq Require Import List NArith ZArith Bool Lia String Permutation Sorted.
From RbxVerif Require Import Base Bytes Value Db CodecDom XmlEvents XmlValues XmlFile XmlText XmlFileFacts.
Import ListNotations.
Open Scope list_scope.
Open Scope N_scope.

(* ================================================================= (1a) the order of names: a strict total order *)
Lemma bltb_irrefl a : bytes_ltb a a = false.
Proof. induction a as [|x a IH]; [reflexivity|]. cbn [bytes_ltb]. now rewrite N.ltb_irrefl. Qed.

Lemma bltb_trans a : forall b c, bytes_ltb a b = true -> bytes_ltb b c = true -> bytes_ltb a c = true.
Proof.
  induction a as [|x a IH]; intros [|y b] [|z c]; cbn [bytes_ltb]; try easy.
  destruct (N.ltb_spec x y), (N.ltb_spec y x), (N.ltb_spec y z), (N.ltb_spec z y), (N.ltb_spec x z), (N.ltb_spec z x);
    try easy; try lia. apply IH.
Qed.

Lemma bltb_asym a b : bytes_ltb a b = true -> bytes_ltb b a = false.
Proof.
  intro H. destruct (bytes_ltb b a) eqn:E; [|reflexivity].
  pose proof (bltb_trans _ _ _ H E) as C. rewrite bltb_irrefl in C. discriminate.
Qed.

(* totality: two names neither of which is below the other are the same name *)
Lemma bltb_total a : forall b, bytes_ltb a b = false -> bytes_ltb b a = false -> a = b.
Proof.
  induction a as [|x a IH]; intros [|y b]; cbn [bytes_ltb]; try easy.
  destruct (N.ltb_spec x y); [easy|]. destruct (N.ltb_spec y x); [easy|].
  intros H1 H2. f_equal; [lia|]. now apply IH.
Qed.

Lemma beqb_true_iff a : forall b, bytes_eqb a b = true <-> a = b.
Proof.
  induction a as [|x a IH]; intros [|y b]; cbn [bytes_eqb]; try easy.
  rewrite andb_true_iff, N.eqb_eq, IH. split; [intros [-> ->]; reflexivity|intro H; inversion H; auto].
Qed.

Lemma beqb_false_iff a b : bytes_eqb a b = false <-> a <> b.
Proof.
  destruct (bytes_eqb a b) eqn:E.
  - apply beqb_true_iff in E. split; [discriminate|congruence].
  - split; [|reflexivity]. intros _ H. apply beqb_true_iff in H. congruence.
Qed.

(* trichotomy: exactly one of  a < b,  a = b,  b < a *)
Inductive btri (a b : bytes) : Prop :=
| BLt : bytes_ltb a b = true -> bytes_eqb a b = false -> bytes_ltb b a = false -> btri a b
| BEq : bytes_ltb a b = false -> bytes_eqb a b = true -> bytes_ltb b a = false -> btri a b
| BGt : bytes_ltb a b = false -> bytes_eqb a b = false -> bytes_ltb b a = true -> btri a b.

Theorem bltb_trichotomy a b : btri a b.
Proof.
  destruct (bytes_ltb a b) eqn:E1.
  - apply BLt; [assumption| |now apply bltb_asym].
    apply beqb_false_iff. intros ->. rewrite bltb_irrefl in E1. discriminate.
  - destruct (bytes_ltb b a) eqn:E2.
    + apply BGt; [assumption| |assumption].
      apply beqb_false_iff. intros ->. rewrite bltb_irrefl in E2. discriminate.
    + apply BEq; [assumption| |assumption]. apply beqb_true_iff. now apply bltb_total.
Qed.

(* ================================================================= (1b) lists sorted by key *)
Section KeySorted.
  Context {V : Type}.
  Definition klt (x y : bytes * V) : Prop := bytes_ltb (fst x) (fst y) = true.
  Definition kle (x y : bytes * V) : Prop := bytes_ltb (fst y) (fst x) = false.

  Lemma klt_irrefl x : ~ klt x x.
  Proof. unfold klt. rewrite bltb_irrefl. discriminate. Qed.
  Lemma klt_trans x y z : klt x y -> klt y z -> klt x z.
  Proof. unfold klt. apply bltb_trans. Qed.
  Lemma klt_kle x y : klt x y -> kle x y.
  Proof. unfold klt, kle. apply bltb_asym. Qed.

  (* two strictly sorted lists with the same elements are the same list *)
  Lemma strictly_sorted_ext (l : list (bytes * V)) : forall l',
    StronglySorted klt l -> StronglySorted klt l' -> (forall x, In x l <-> In x l') -> l = l'.
  Proof.
    induction l as [|a r IH]; intros [|a' r'] Hs Hs' Hin.
    - reflexivity.
    - exfalso. apply (proj2 (Hin a')). left; reflexivity.
    - exfalso. apply (proj1 (Hin a)). left; reflexivity.
    - apply StronglySorted_inv in Hs. destruct Hs as [Hsr Ha].
      apply StronglySorted_inv in Hs'. destruct Hs' as [Hsr' Ha'].
      rewrite Forall_forall in Ha, Ha'.
      assert (Haa : a = a').
      { destruct (proj1 (Hin a) (or_introl eq_refl)) as [E|E]; [auto|].
        destruct (proj2 (Hin a') (or_introl eq_refl)) as [E'|E']; [auto|].
        exfalso. apply (klt_irrefl a). apply (klt_trans _ a'); [apply Ha|apply Ha']; assumption. }
      subst a'. f_equal. apply IH; try assumption.
      intro x. split; intro Hx.
      + destruct (proj1 (Hin x) (or_intror Hx)) as [E|E]; [|exact E].
        subst x. exfalso. apply (klt_irrefl a). now apply Ha.
      + destruct (proj2 (Hin x) (or_intror Hx)) as [E|E]; [|exact E].
        subst x. exfalso. apply (klt_irrefl a). now apply Ha'.
  Qed.

  Lemma strictly_sorted_perm (l l' : list (bytes * V)) :
    StronglySorted klt l -> StronglySorted klt l' -> Permutation l l' -> l = l'.
  Proof.
    intros Hs Hs' Hp. apply strictly_sorted_ext; try assumption.
    intro x. split; apply Permutation_in; [assumption|now apply Permutation_sym].
  Qed.

  (* ---- binsert / bsort *)
  Lemma binsert_perm kv (l : list (bytes * V)) : Permutation (binsert kv l) (kv :: l).
  Proof.
    induction l as [|x r IH]; cbn [binsert]; [apply Permutation_refl|].
    destruct (bytes_ltb (fst x) (fst kv)).
    - eapply perm_trans; [apply perm_skip, IH|apply perm_swap].
    - apply Permutation_refl.
  Qed.

  Theorem bsort_permutation (l : list (bytes * V)) : Permutation (bsort l) l.
  Proof.
    induction l as [|x r IH]; [apply Permutation_refl|].
    change (bsort (x :: r)) with (binsert x (bsort r)).
    eapply perm_trans; [apply binsert_perm|apply perm_skip, IH].
  Qed.

  Lemma binsert_In kv (l : list (bytes * V)) x : In x (binsert kv l) <-> x = kv \/ In x l.
  Proof.
    split; intro H.
    - apply (Permutation_in _ (binsert_perm kv l)) in H. destruct H; auto.
    - apply (Permutation_in _ (Permutation_sym (binsert_perm kv l))). destruct H; [left|right]; auto.
  Qed.

  (* weakly sorted, whatever the keys *)
  Lemma binsert_sorted_weak kv (l : list (bytes * V)) : StronglySorted kle l -> StronglySorted kle (binsert kv l).
  Proof.
    induction l as [|x r IH]; intro Hs; cbn [binsert].
    - constructor; constructor.
    - apply StronglySorted_inv in Hs. destruct Hs as [Hsr Hx].
      destruct (bytes_ltb (fst x) (fst kv)) eqn:E.
      + constructor; [now apply IH|]. rewrite Forall_forall in *. intros y Hy.
        apply binsert_In in Hy. destruct Hy as [->|Hy]; [|now apply Hx].
        apply klt_kle. exact E.
      + constructor; [constructor; assumption|]. constructor; [exact E|].
        rewrite Forall_forall in *. intros y Hy. specialize (Hx y Hy). unfold kle in *.
        destruct (bytes_ltb (fst y) (fst kv)) eqn:E2; [|reflexivity].
        (* y < kv, not (x < kv), not (y < x): impossible by totality *)
        exfalso. destruct (bltb_trichotomy (fst x) (fst kv)) as [H1 _ _|_ H2 _|_ _ H3].
        * congruence.
        * apply beqb_true_iff in H2. rewrite <- H2 in E2. congruence.
        * pose proof (bltb_trans _ _ _ E2 H3). congruence.
  Qed.

  Theorem bsort_sorted_weak (l : list (bytes * V)) : StronglySorted kle (bsort l).
  Proof.
    induction l as [|x r IH]; [constructor|].
    change (bsort (x :: r)) with (binsert x (bsort r)). now apply binsert_sorted_weak.
  Qed.

  (* strictly sorted when the keys are distinct *)
  Lemma binsert_sorted kv (l : list (bytes * V)) :
    StronglySorted klt l -> ~ In (fst kv) (List.map fst l) -> StronglySorted klt (binsert kv l).
  Proof.
    induction l as [|x r IH]; intros Hs Hn; cbn [binsert].
    - constructor; constructor.
    - apply StronglySorted_inv in Hs. destruct Hs as [Hsr Hx].
      cbn [List.map In] in Hn.
      destruct (bytes_ltb (fst x) (fst kv)) eqn:E.
      + constructor; [apply IH; tauto|]. rewrite Forall_forall in *. intros y Hy.
        apply binsert_In in Hy. destruct Hy as [->|Hy]; [exact E|now apply Hx].
      + assert (Hkx : klt kv x).
        { unfold klt. destruct (bltb_trichotomy (fst kv) (fst x)) as [H _ _|_ H _|_ _ H]; [exact H| |congruence].
          apply beqb_true_iff in H. exfalso. apply Hn. left. now symmetry. }
        constructor; [constructor; assumption|]. constructor; [exact Hkx|].
        rewrite Forall_forall in *. intros y Hy. apply (klt_trans _ x); [exact Hkx|now apply Hx].
  Qed.

  Lemma bsort_keys_perm (l : list (bytes * V)) : Permutation (List.map fst (bsort l)) (List.map fst l).
  Proof. apply Permutation_map, bsort_permutation. Qed.

  Theorem bsort_sorted (l : list (bytes * V)) : NoDup (List.map fst l) -> StronglySorted klt (bsort l).
  Proof.
    induction l as [|x r IH]; intro Hnd; [constructor|].
    change (bsort (x :: r)) with (binsert x (bsort r)). cbn [List.map] in Hnd. inversion Hnd as [|? ? Hx Hr]; subst.
    apply binsert_sorted; [now apply IH|].
    intro Hin. apply Hx. eapply Permutation_in; [apply bsort_keys_perm|exact Hin].
  Qed.

  (* sorting kills the insertion order *)
  Theorem bsort_perm (l l' : list (bytes * V)) :
    Permutation l l' -> NoDup (List.map fst l) -> bsort l = bsort l'.
  Proof.
    intros Hp Hnd.
    assert (Hnd' : NoDup (List.map fst l')).
    { eapply Permutation_NoDup; [apply Permutation_map, Hp|exact Hnd]. }
    apply strictly_sorted_perm; [now apply bsort_sorted|now apply bsort_sorted|].
    eapply perm_trans; [apply bsort_permutation|]. eapply perm_trans; [exact Hp|].
    apply Permutation_sym, bsort_permutation.
  Qed.
End KeySorted.

(* the hypothesis is needed: with a repeated key the (stable) insertion sort keeps the two entries in insertion order *)
Example bsort_perm_needs_distinct_keys :
  bsort [(B "a", 1); (B "a", 2)] <> bsort [(B "a", 2); (B "a", 1)].
Proof. vm_compute. discriminate. Qed.

Print Assumptions bsort_perm.

(* ================================================================= the two loops of the serializer, named *)
(* `for child_id in instance.children()` in serialize_instance and `for id in ids` in encode_internal: the same loop *)
Definition seq_with (F : estate -> N -> res (list wevent * estate)) : list N -> estate -> res (list wevent * estate) :=
  fix kids (cs : list N) (s : estate) : res (list wevent * estate) :=
    match cs with
    | [] => Ok ([], s)
    | c :: r =>
        '(e1, s1) <- F s c ;;
        '(e2, s2) <- kids r s1 ;;
        Ok (e1 ++ e2, s2)
    end.

Lemma serialize_instance_with_S sprop f e beh d st id :
  serialize_instance_with sprop (S f) e beh d st id =
  match find_inst d id with
  | None => Panic
  | Some i =>
      let (mapped, st0) := map_id st id in
      '(nev, st1) <- write_value_xml e st0 (B "Name") (VString (i_name i)) ;;
      let sorted := bsort (i_props i) in
      '(pev, st2) <- serialize_properties_with sprop e beh (i_class i) (List.map fst sorted) st1 sorted ;;
      '(cev, st3) <- seq_with (serialize_instance_with sprop f e beh d) (children_of d id) st2 ;;
      Ok (WStart (B "Item") [(B "class", i_class i); (B "referent", dec_of_N mapped)]
            :: WStart (B "Properties") [] :: nev ++ pev ++ WEnd :: cev ++ [WEnd], st3)
  end.
Proof. reflexivity. Qed.

Lemma xml_encode_with_eq sprop e beh d roots :
  xml_encode_with sprop e beh d roots =
  ('(body, st) <- seq_with (serialize_instance_with sprop (S (length d)) e beh d) roots es0 ;;
   Ok (WStart (B "roblox") [(B "version", B "4")] :: body ++ serialize_shared_strings st ++ [WEnd])).
Proof. reflexivity. Qed.

Lemma seq_with_ext F G : (forall s c, F s c = G s c) -> forall cs s, seq_with F cs s = seq_with G cs s.
Proof.
  intros H cs. induction cs as [|c r IH]; intro s; [reflexivity|].
  cbn [seq_with]. rewrite H. destruct (G s c) as [[e1 s1]| |k|]; cbn [rbind]; try reflexivity.
  fold (seq_with F). fold (seq_with G). rewrite IH. reflexivity.
Qed.

(* ================================================================= (2) the order of the properties *)
(* [i'] is [i] with its properties listed in another order *)
Definition same_but_props_order (i i' : inst) : Prop :=
  i_ref i' = i_ref i /\ i_parent i' = i_parent i /\ i_class i' = i_class i /\ i_name i' = i_name i /\
  Permutation (i_props i) (i_props i') /\ NoDup (List.map fst (i_props i)).
(* the same instances in the same order, each with its properties listed in some other order *)
Definition props_permuted (d d' : cdom) : Prop := Forall2 same_but_props_order d d'.

Lemma find_inst_permuted d d' id : props_permuted d d' ->
  match find_inst d id, find_inst d' id with
  | Some i, Some i' => same_but_props_order i i'
  | None, None => True
  | _, _ => False
  end.
Proof.
  induction 1 as [|i i' d d' Hi Hd IH]; cbn [find_inst]; [exact I|].
  destruct Hi as (Hr & Hi). rewrite Hr. destruct (i_ref i =? id); [|exact IH].
  split; [exact Hr|exact Hi].
Qed.

Lemma children_of_permuted d d' id : props_permuted d d' -> children_of d' id = children_of d id.
Proof.
  unfold children_of. induction 1 as [|i i' d d' Hi Hd IH]; [reflexivity|].
  destruct Hi as (Hr & Hp & _). cbn [filter]. rewrite Hp.
  destruct (i_parent i =? id); cbn [List.map]; rewrite ?Hr, IH; reflexivity.
Qed.

Lemma serialize_instance_with_permuted sprop e beh d d' : props_permuted d d' ->
  forall f st id, serialize_instance_with sprop f e beh d' st id = serialize_instance_with sprop f e beh d st id.
Proof.
  intros Hd f. induction f as [|f IH]; intros st id; [reflexivity|].
  rewrite !serialize_instance_with_S.
  pose proof (find_inst_permuted d d' id Hd) as Hf.
  destruct (find_inst d id) as [i|], (find_inst d' id) as [i'|]; try contradiction; [|reflexivity].
  destruct Hf as (_ & _ & Hc & Hn & Hp & Hnd).
  rewrite Hc, Hn, <- (bsort_perm _ _ Hp Hnd), (children_of_permuted d d' id Hd).
  destruct (map_id st id) as [mapped st0].
  destruct (write_value_xml e st0 (B "Name") (VString (i_name i))) as [[nev st1]| |c|]; cbn [rbind]; try reflexivity.
  cbv zeta. destruct (serialize_properties_with sprop e beh (i_class i) (List.map fst (bsort (i_props i))) st1 (bsort (i_props i)))
    as [[pev st2]| |c|]; cbn [rbind]; try reflexivity.
  rewrite (seq_with_ext _ _ IH). reflexivity.
Qed.

Lemma props_permuted_length d d' : props_permuted d d' -> List.length d' = List.length d.
Proof. induction 1; cbn [List.length]; congruence. Qed.

(* the document does not depend on the order in which the instances list their properties (in the crate: on the hash-map
   iteration order of `instance.properties`), for every property step [sprop], environment and behaviour *)
Theorem xml_encode_with_props_order sprop e beh d d' roots :
  props_permuted d d' -> xml_encode_with sprop e beh d' roots = xml_encode_with sprop e beh d roots.
Proof.
  intro Hd. rewrite !xml_encode_with_eq. rewrite (props_permuted_length d d' Hd).
  rewrite (seq_with_ext _ _ (serialize_instance_with_permuted sprop e beh d d' Hd (S (length d)))).
  reflexivity.
Qed.

Theorem xml_encode_props_order e beh d d' roots :
  props_permuted d d' -> xml_encode e beh d' roots = xml_encode e beh d roots.
Proof. apply xml_encode_with_props_order. Qed.
Print Assumptions xml_encode_props_order.

(* non-vacuity: an instance with three properties (a Ref among them) listed in two orders, and a child *)
Definition d_abc : cdom :=
  [mkInst 7 0 (B "Folder") (B "f") [(B "Zeta", VInt32 1%Z); (B "Alpha", VBool true); (B "Mid", VRef 9)];
   mkInst 9 7 (B "Part") (B "p") [(B "B", VString (B "x")); (B "A", VRef 7)]].
Definition d_cab : cdom :=
  [mkInst 7 0 (B "Folder") (B "f") [(B "Mid", VRef 9); (B "Zeta", VInt32 1%Z); (B "Alpha", VBool true)];
   mkInst 9 7 (B "Part") (B "p") [(B "A", VRef 7); (B "B", VString (B "x"))]].

Lemma nodup_keys_dec {V} (l : list (bytes * V)) :
  (fix nd (ks : list bytes) : bool :=
     match ks with [] => true | k :: r => negb (existsb (bytes_eqb k) r) && nd r end) (List.map fst l) = true ->
  NoDup (List.map fst l).
Proof.
  induction (List.map fst l) as [|k r IH]; intro H; [constructor|].
  apply andb_true_iff in H. destruct H as [Hk Hr]. constructor; [|now apply IH].
  intro Hin. apply negb_true_iff in Hk. assert (existsb (bytes_eqb k) r = true); [|congruence].
  apply existsb_exists. exists k. split; [exact Hin|now apply beqb_true_iff].
Qed.

Example props_permuted_abc : props_permuted d_abc d_cab.
Proof.
  constructor; [|constructor; [|constructor]].
  - repeat split; cbn [i_props].
    + apply Permutation_sym. apply (Permutation_cons_app [_; _] []). apply Permutation_refl.
    + apply nodup_keys_dec. vm_compute. reflexivity.
  - repeat split; cbn [i_props].
    + apply perm_swap.
    + apply nodup_keys_dec. vm_compute. reflexivity.
Qed.

Example xml_encode_props_order_abc :
  xml_encode e0 EWriteUnknown d_cab [7] = xml_encode e0 EWriteUnknown d_abc [7] /\
  exists evs, xml_encode e0 EWriteUnknown d_abc [7] = Ok evs /\ List.length evs = 31%nat.
Proof. split; [apply xml_encode_props_order, props_permuted_abc|]. eexists. split; vm_compute; reflexivity. Qed.

(* ================================================================= (5) the SharedStrings dictionary *)
(* [shared_insert] = BTreeMap::insert: the dictionary stays strictly sorted by hash (so: duplicate-free in hashes), the new
   entry replaces an entry of the same hash, every other entry stays *)
Lemma shared_insert_In h c (m : list (bytes * bytes)) x : StronglySorted klt m ->
  (In x (shared_insert h c m) <-> x = (h, c) \/ (In x m /\ fst x <> h)).
Proof.
  induction m as [|[h' c'] r IH]; intro Hs; cbn [shared_insert].
  - cbn [In]. split; [intros [H|[]]; left; now symmetry|intros [H|[[] _]]; left; now symmetry].
  - apply StronglySorted_inv in Hs. destruct Hs as [Hsr Hh']. rewrite Forall_forall in Hh'.
    destruct (bltb_trichotomy h h') as [H1 H2 H3|H1 H2 H3|H1 H2 H3]; rewrite H1; [|rewrite H2|rewrite H2].
    + (* h < h': everything in m is above h *)
      cbn [In]. split.
      * intros [H|[H|H]]; [left; now symmetry| |].
        -- right. split; [left; exact H|]. subst x. cbn [fst]. intros ->. rewrite bltb_irrefl in H1. discriminate.
        -- right. split; [right; exact H|]. intros E. specialize (Hh' x H). unfold klt in Hh'. cbn [fst] in Hh'.
           rewrite E in Hh'. pose proof (bltb_trans _ _ _ H1 Hh') as C. rewrite bltb_irrefl in C. discriminate.
      * intros [H|[[H|H] _]]; [left; now symmetry|right; left; exact H|right; right; exact H].
    + (* h = h': replaced *)
      apply beqb_true_iff in H2. subst h'. cbn [In]. split.
      * intros [H|H]; [left; now symmetry|]. right. split; [right; exact H|].
        intros E. specialize (Hh' x H). unfold klt in Hh'. cbn [fst] in Hh'. rewrite E, bltb_irrefl in Hh'. discriminate.
      * intros [H|[[H|H] Hne]]; [left; now symmetry| |right; exact H].
        subst x. exfalso. apply Hne. reflexivity.
    + (* h' < h *)
      cbn [In]. rewrite (IH Hsr). split.
      * intros [H|[H|[H Hne]]]; [|left; exact H|right; split; [right; exact H|exact Hne]].
        right. split; [left; exact H|]. subst x. cbn [fst]. intros ->. rewrite bltb_irrefl in H3. discriminate.
      * intros [H|[[H|H] Hne]]; [right; left; exact H|left; exact H|right; right; split; assumption].
Qed.

Lemma shared_insert_sorted h c (m : list (bytes * bytes)) :
  StronglySorted klt m -> StronglySorted klt (shared_insert h c m).
Proof.
  induction m as [|[h' c'] r IH]; intro Hs; cbn [shared_insert]; [constructor; constructor|].
  pose proof Hs as Hs0. apply StronglySorted_inv in Hs. destruct Hs as [Hsr Hh'].
  destruct (bltb_trichotomy h h') as [H1 H2 H3|H1 H2 H3|H1 H2 H3]; rewrite H1; [|rewrite H2|rewrite H2].
  - constructor; [exact Hs0|]. constructor; [exact H1|].
    rewrite Forall_forall in *. intros y Hy. apply (klt_trans _ (h', c')); [exact H1|now apply Hh'].
  - apply beqb_true_iff in H2. subst h'. constructor; assumption.
  - constructor; [now apply IH|]. rewrite Forall_forall in *. intros y Hy.
    apply (shared_insert_In h c r y Hsr) in Hy. destruct Hy as [->|[Hy _]]; [exact H3|now apply Hh'].
Qed.

(* insertions of different hashes commute *)
Theorem shared_insert_comm h1 c1 h2 c2 (m : list (bytes * bytes)) : StronglySorted klt m -> h1 <> h2 ->
  shared_insert h1 c1 (shared_insert h2 c2 m) = shared_insert h2 c2 (shared_insert h1 c1 m).
Proof.
  intros Hs Hne. apply strictly_sorted_ext; try (apply shared_insert_sorted, shared_insert_sorted, Hs).
  intro x. rewrite !shared_insert_In by (try apply shared_insert_sorted; exact Hs).
  split.
  - intros [H|[[H|[H Hn2]] Hn1]].
    + right. split; [left; exact H|]. subst x. exact Hne.
    + left; exact H.
    + right. split; [right; split; assumption|exact Hn2].
  - intros [H|[[H|[H Hn1]] Hn2]].
    + right. split; [left; exact H|]. subst x. cbn [fst]. congruence.
    + left; exact H.
    + right. split; [right; split; assumption|exact Hn1].
Qed.

(* of two insertions under one hash the later one stays (in the crate the hash is a function of the content, so the two
   contents are the same unless blake3 collides: see [shared_insert_idem]) *)
Theorem shared_insert_same_hash h c1 c2 (m : list (bytes * bytes)) : StronglySorted klt m ->
  shared_insert h c1 (shared_insert h c2 m) = shared_insert h c1 m.
Proof.
  intros Hs. apply strictly_sorted_ext; try (repeat apply shared_insert_sorted; exact Hs).
  intro x. rewrite !shared_insert_In by (try apply shared_insert_sorted; exact Hs).
  split.
  - intros [H|[[H|[H Hn2]] Hn1]]; [left; exact H| |right; split; assumption].
    subst x. exfalso. apply Hn1. reflexivity.
  - intros [H|[H Hn]]; [left; exact H|]. right. split; [right; split; assumption|exact Hn].
Qed.

Corollary shared_insert_idem h c (m : list (bytes * bytes)) : StronglySorted klt m ->
  shared_insert h c (shared_insert h c m) = shared_insert h c m.
Proof. apply shared_insert_same_hash. Qed.

(* hence whenever equal hashes come with equal contents, any two insertions commute *)
Corollary shared_insert_comm_content h1 c1 h2 c2 (m : list (bytes * bytes)) : StronglySorted klt m ->
  (h1 = h2 -> c1 = c2) ->
  shared_insert h1 c1 (shared_insert h2 c2 m) = shared_insert h2 c2 (shared_insert h1 c1 m).
Proof.
  intros Hs Hc. destruct (bytes_eqb h1 h2) eqn:E.
  - apply beqb_true_iff in E. subst h2. rewrite (Hc eq_refl). reflexivity.
  - apply beqb_false_iff in E. now apply shared_insert_comm.
Qed.

(* the dictionary a run collects: the (hash, content) pairs in the order of discovery, inserted one after the other *)
Definition shared_collect (ps : list (bytes * bytes)) (m : list (bytes * bytes)) : list (bytes * bytes) :=
  fold_left (fun m hc => shared_insert (fst hc) (snd hc) m) ps m.
Definition shared_of (ps : list (bytes * bytes)) : list (bytes * bytes) := shared_collect ps [].

(* a hash stands for one content *)
Definition functional (l : list (bytes * bytes)) : Prop := forall h c1 c2, In (h, c1) l -> In (h, c2) l -> c1 = c2.

Lemma shared_collect_sorted ps : forall m, StronglySorted klt m -> StronglySorted klt (shared_collect ps m).
Proof.
  induction ps as [|[h c] ps IH]; intros m Hs; [exact Hs|].
  cbn [shared_collect fold_left fst snd]. apply IH. now apply shared_insert_sorted.
Qed.

Lemma shared_collect_In ps : forall m x, StronglySorted klt m -> functional (m ++ ps) ->
  (In x (shared_collect ps m) <-> In x m \/ In x ps).
Proof.
  induction ps as [|[h c] ps IH]; intros m x Hs Hf.
  - cbn [shared_collect fold_left In]. tauto.
  - cbn [shared_collect fold_left fst snd]. fold (shared_collect ps (shared_insert h c m)).
    rewrite IH; [|now apply shared_insert_sorted|].
    + rewrite (shared_insert_In h c m x Hs). cbn [In]. split.
      * intros [[H|[H _]]|H]; [right; left; now symmetry|left; exact H|right; right; exact H].
      * intros [H|[H|H]]; [|left; left; now symmetry|right; exact H].
        destruct (bytes_eqb (fst x) h) eqn:E.
        -- apply beqb_true_iff in E. destruct x as [hx cx]. cbn [fst] in E. subst hx.
           left. left. f_equal. apply (Hf h); apply in_or_app; [left; exact H|right; left; reflexivity].
        -- apply beqb_false_iff in E. left. right. split; assumption.
    + intros h0 a b Ha Hb. apply (Hf h0).
      * apply in_app_or in Ha. apply in_or_app. destruct Ha as [Ha|Ha]; [|right; right; exact Ha].
        apply (shared_insert_In h c m _ Hs) in Ha. destruct Ha as [Ha|[Ha _]]; [right; left; now symmetry|left; exact Ha].
      * apply in_app_or in Hb. apply in_or_app. destruct Hb as [Hb|Hb]; [|right; right; exact Hb].
        apply (shared_insert_In h c m _ Hs) in Hb. destruct Hb as [Hb|[Hb _]]; [right; left; now symmetry|left; exact Hb].
Qed.

(* the dictionary is a function of the SET of pairs discovered: neither the order of discovery nor the number of times a
   shared string is met matters *)
Theorem shared_of_set ps ps' : functional ps -> (forall x, In x ps <-> In x ps') -> shared_of ps = shared_of ps'.
Proof.
  intros Hf Hin.
  assert (Hf' : functional ps') by (intros h a b Ha Hb; apply (Hf h); apply Hin; assumption).
  apply strictly_sorted_ext; try (apply shared_collect_sorted; constructor).
  intro x. unfold shared_of. rewrite !shared_collect_In by (try constructor; assumption). cbn [In].
  rewrite Hin. tauto.
Qed.

Corollary shared_of_perm ps ps' : functional ps -> Permutation ps ps' -> shared_of ps = shared_of ps'.
Proof.
  intros Hf Hp. apply shared_of_set; [exact Hf|].
  intro x. split; apply Permutation_in; [exact Hp|now apply Permutation_sym].
Qed.

(* ... and so is the SharedStrings element written at the end of the document *)
Theorem shared_strings_element_of_set ps ps' m n m' n' : functional ps -> (forall x, In x ps <-> In x ps') ->
  serialize_shared_strings (mkES m n (shared_of ps)) = serialize_shared_strings (mkES m' n' (shared_of ps')).
Proof. intros Hf Hin. unfold serialize_shared_strings. cbn [es_shared]. rewrite (shared_of_set ps ps' Hf Hin). reflexivity. Qed.
Print Assumptions shared_insert_comm.
Print Assumptions shared_of_set.
Print Assumptions shared_strings_element_of_set.

(* what a value adds to the dictionary is exactly one [shared_insert] *)
Lemma write_shared_string_collects e st pname c h :
  xe_hash e c = Some h ->
  exists evs, write_value_xml e st pname (VSharedString c) = Ok (evs, mkES (es_map st) (es_next st) (shared_collect [(h, c)] (es_shared st))).
Proof. intro Hh. cbn [write_value_xml]. rewrite Hh. cbn [ask rbind]. eexists. reflexivity. Qed.

(* non-vacuity, and the role of [functional]: under one hash with two contents (a hash collision) the later discovery wins *)
Example shared_of_set_example :
  shared_of [(B "h2", B "two"); (B "h1", B "one"); (B "h2", B "two")] = shared_of [(B "h1", B "one"); (B "h2", B "two")]
  /\ shared_of [(B "h1", B "one"); (B "h2", B "two")] = [(B "h1", B "one"); (B "h2", B "two")].
Proof. split; vm_compute; reflexivity. Qed.
Example shared_of_collision_order_matters :
  shared_of [(B "h", B "one"); (B "h", B "two")] <> shared_of [(B "h", B "two"); (B "h", B "one")].
Proof. vm_compute. discriminate. Qed.

(* ================================================================= (3) the Ref values *)
(* Which refs reach the output, and how (Model/XmlFile.v [write_value_xml], [serialize_instance_with]):
     - the ref of an instance being written and every non-null Ref VALUE go through [map_id], whether or not the value
       points at an instance that is written or exists at all (a dangling Ref gets a number no Item carries: the recorded
       finding); the null Ref (0) is written `null` without a look at the map;
     - a Content value holding an object ref never gets as far as its ref ([write_xml] panics: todo!(), [try_convert] to
       ContentId fails), so its ref cannot influence the output either;
     - refs inside an Attributes map are not renamed: rbx_types has no attribute encoding for Ref.
   So the renaming has to be injective on all of: instance refs, parent refs, roots, Ref values, and 0, and fix 0. *)
Definition rename_value (phi : N -> N) (v : value) : value :=
  match v with
  | VRef r => VRef (phi r)
  | VContent (CObject r) => VContent (CObject (phi r))
  | _ => v
  end.
Definition rename_props (phi : N -> N) (ps : list (bytes * value)) : list (bytes * value) :=
  List.map (fun kv => (fst kv, rename_value phi (snd kv))) ps.
Definition rename_inst (phi : N -> N) (i : inst) : inst :=
  mkInst (phi (i_ref i)) (phi (i_parent i)) (i_class i) (i_name i) (rename_props phi (i_props i)).
Definition rename_dom (phi : N -> N) (d : cdom) : cdom := List.map (rename_inst phi) d.
Definition rename_st (phi : N -> N) (st : estate) : estate :=
  mkES (List.map (fun kv => (phi (fst kv), snd kv)) (es_map st)) (es_next st) (es_shared st).

(* the refs the serializer looks at *)
Definition value_refs (v : value) : list N := match v with VRef r => [r] | _ => [] end.
Definition props_refs (ps : list (bytes * value)) : list N := flat_map (fun kv => value_refs (snd kv)) ps.
Definition inst_refs (i : inst) : list N := i_ref i :: i_parent i :: props_refs (i_props i).
Definition dom_refs (d : cdom) (roots : list N) : list N := 0 :: roots ++ flat_map inst_refs d.

(* neither a Ref nor a Content object: [rename_value] leaves it alone *)
Definition plain (v : value) : bool := match v with VRef _ | VContent (CObject _) => false | _ => true end.

Lemma rename_plain phi v : plain v = true -> rename_value phi v = v /\ value_refs v = [].
Proof. destruct v as [| | | | | | | | | | | | | | | | | | | | | | | | | | | | | | | | | | | | | | |c]; try discriminate; try (split; reflexivity). destruct c; try discriminate; split; reflexivity. Qed.

Lemma try_convert_plain o v t w : plain v = true -> try_convert o v t = Ok w -> plain w = true.
Proof.
  destruct v as [| | | | | | | | | | | | | | | | | | | | | | | | | | | | | | | | | | | | | | |c]; try discriminate; intros Hp; cbn [try_convert];
    try (intro H; inversion H; reflexivity).
  - (* BinaryString *)
    repeat match goal with
           | |- (if ?c then _ else _) = _ -> _ => destruct c
           | |- match ?x with _ => _ end = _ -> _ => destruct x
           end; intro H; inversion H; reflexivity.
  - (* Color3 *)
    destruct (t =? XT_Color3uint8); [|intro H; inversion H; reflexivity].
    destruct (xo_quant o r); cbn [ask rbind]; [|discriminate].
    destruct (xo_quant o g); cbn [ask rbind]; [|discriminate].
    destruct (xo_quant o b); cbn [ask rbind]; [|discriminate].
    intro H; inversion H; reflexivity.
  - (* Float32 *) destruct (t =? XT_Float64); intro H; inversion H; reflexivity.
  - (* Int32 *)
    destruct (t =? XT_Int64); [intro H; inversion H; reflexivity|].
    destruct (t =? XT_BrickColor); [|intro H; inversion H; reflexivity].
    match goal with |- (if ?c then _ else _) = _ -> _ => destruct c end; intro H; inversion H; reflexivity.
  - (* EnumItem *) destruct (t =? XT_Enum); intro H; inversion H; reflexivity.
  - (* Content *)
    destruct c; try discriminate Hp; destruct (t =? XT_ContentId); intro H; inversion H; reflexivity.
Qed.

Lemma migrate_plain ft bt op v w : migrate ft bt op v = Some w -> plain w = true.
Proof.
  destruct op, v; cbn [migrate]; try discriminate.
  - intro H; inversion H; reflexivity.
  - destruct (font_lookup ft n) as [[[fam wt] s]|]; [|discriminate]. intro H; inversion H; reflexivity.
  - destruct (brick_lookup bt n) as [[[r g] b]|]; [|discriminate]. intro H; inversion H; reflexivity.
  - intro H; inversion H. destruct s; reflexivity.
Qed.

Lemma migrate_not_plain ft bt op v : plain v = false -> migrate ft bt op v = None.
Proof. destruct op, v; try discriminate; reflexivity. Qed.

Lemma plain_rename phi v : plain (rename_value phi v) = plain v.
Proof. destruct v as [| | | | | | | | | | | | | | | | | | | | | | | | | | | | | | | | | | | | | | |c]; try reflexivity. destruct c; reflexivity. Qed.

(* conversion and migration do not look at refs *)
Lemma try_convert_rename phi o v t :
  try_convert o (rename_value phi v) t =
  match try_convert o v t with Ok w => Ok (rename_value phi w) | Panic => Panic | Err c => Err c | OutOfFuel => OutOfFuel end.
Proof.
  destruct (plain v) eqn:Hp.
  - rewrite (proj1 (rename_plain phi v Hp)). destruct (try_convert o v t) as [w| |c|] eqn:E; try reflexivity.
    rewrite (proj1 (rename_plain phi w (try_convert_plain _ _ _ _ Hp E))). reflexivity.
  - destruct v as [| | | | | | | | | | | | | | | | | | | | | | | | | | | | | | | | | | | | | | |c]; try discriminate; [reflexivity|].
    destruct c; try discriminate. cbn [rename_value try_convert]. destruct (t =? XT_ContentId); reflexivity.
Qed.

Lemma try_convert_refs o v t w : try_convert o v t = Ok w -> value_refs w = value_refs v.
Proof.
  destruct (plain v) eqn:Hp.
  - intro E. rewrite (proj2 (rename_plain (fun x => x) w (try_convert_plain _ _ _ _ Hp E))).
    rewrite (proj2 (rename_plain (fun x => x) v Hp)). reflexivity.
  - destruct v as [| | | | | | | | | | | | | | | | | | | | | | | | | | | | | | | | | | | | | | |c]; try discriminate.
    + cbn [try_convert]. intro H; inversion H; reflexivity.
    + destruct c; try discriminate. cbn [try_convert]. destruct (t =? XT_ContentId); intro H; inversion H; reflexivity.
Qed.

Lemma migrate_rename phi ft bt op v :
  migrate ft bt op (rename_value phi v) = option_map (rename_value phi) (migrate ft bt op v).
Proof.
  destruct (plain v) eqn:Hp.
  - rewrite (proj1 (rename_plain phi v Hp)). destruct (migrate ft bt op v) as [w|] eqn:E; [|reflexivity].
    cbn [option_map]. rewrite (proj1 (rename_plain phi w (migrate_plain _ _ _ _ _ E))). reflexivity.
  - rewrite !migrate_not_plain; [reflexivity|exact Hp|]. rewrite plain_rename. exact Hp.
Qed.

(* sorting by key commutes with a change of the values *)
Lemma binsert_map_values {V W} (g : V -> W) kv (l : list (bytes * V)) :
  binsert (fst kv, g (snd kv)) (List.map (fun x => (fst x, g (snd x))) l) = List.map (fun x => (fst x, g (snd x))) (binsert kv l).
Proof.
  induction l as [|x r IH]; [reflexivity|]. cbn [List.map binsert fst].
  destruct (bytes_ltb (fst x) (fst kv)); cbn [List.map]; [rewrite IH|]; reflexivity.
Qed.
Lemma bsort_map_values {V W} (g : V -> W) (l : list (bytes * V)) :
  bsort (List.map (fun x => (fst x, g (snd x))) l) = List.map (fun x => (fst x, g (snd x))) (bsort l).
Proof.
  induction l as [|x r IH]; [reflexivity|].
  change (bsort (x :: r)) with (binsert x (bsort r)). rewrite <- binsert_map_values, <- IH. reflexivity.
Qed.
Lemma map_fst_map_values {V W} (g : V -> W) (l : list (bytes * V)) :
  List.map fst (List.map (fun x => (fst x, g (snd x))) l) = List.map fst l.
Proof. rewrite map_map. apply map_ext. reflexivity. Qed.

Section Rename.
  Variable phi : N -> N.
  Variable P : N -> Prop.                     (* the refs that matter *)
  Hypothesis P0 : P 0.
  Hypothesis phi0 : phi 0 = 0.
  Hypothesis phi_inj : forall a b, P a -> P b -> phi a = phi b -> a = b.

  Lemma phi_eqb a b : P a -> P b -> (phi a =? phi b) = (a =? b).
  Proof.
    intros Ha Hb. destruct (N.eqb_spec a b) as [->|Hne]; [apply N.eqb_refl|].
    apply N.eqb_neq. intro H. apply Hne. now apply phi_inj.
  Qed.
  Lemma phi_eqb0 a : P a -> (phi a =? 0) = (a =? 0).
  Proof. intro Ha. rewrite <- phi0 at 1. now apply phi_eqb. Qed.

  Definition keysP (st : estate) : Prop := Forall P (List.map fst (es_map st)).
  Definition rres := res (list wevent * estate).
  Definition res_rn (r : rres) : rres :=
    match r with Ok (ev, st) => Ok (ev, rename_st phi st) | Panic => Panic | Err c => Err c | OutOfFuel => OutOfFuel end.
  Definition res_keys (r : rres) : Prop := match r with Ok (_, st) => keysP st | _ => True end.
  (* the renamed run [r'] follows the original run [r]: the same events, the same error, the renamed state *)
  Definition sim (r' r : rres) : Prop := r' = res_rn r /\ res_keys r.

  Lemma sim_ok ev st : keysP st -> sim (Ok (ev, rename_st phi st)) (Ok (ev, st)).
  Proof. intro H. split; [reflexivity|exact H]. Qed.
  Lemma sim_fail (r : rres) : match r with Ok _ => False | _ => True end -> sim r r.
  Proof. destruct r; try contradiction; intros _; split; try reflexivity; exact I. Qed.

  Lemma sim_bind (r' r : rres) (k' k : list wevent * estate -> rres) :
    sim r' r -> (forall ev st, keysP st -> sim (k' (ev, rename_st phi st)) (k (ev, st))) -> sim (rbind r' k') (rbind r k).
  Proof.
    intros [-> Hk] Hf. destruct r as [[ev st]| |c|]; cbn [res_rn rbind]; [apply Hf, Hk| | |]; split; try reflexivity; exact I.
  Qed.

  (* ---- map_id *)
  Lemma lookup_rename r (m : list (N * N)) : P r -> Forall P (List.map fst m) ->
    lookup (phi r) (List.map (fun kv => (phi (fst kv), snd kv)) m) = lookup r m.
  Proof.
    intros Hr. induction m as [|[k v] m IH]; intro Hm; [reflexivity|].
    cbn [List.map fst] in Hm. inversion Hm as [|? ? Hk Hm']; subst.
    cbn [List.map lookup fst snd]. rewrite (phi_eqb r k Hr Hk). destruct (r =? k); [reflexivity|now apply IH].
  Qed.

  Lemma map_id_rename st r : P r -> keysP st ->
    map_id (rename_st phi st) (phi r) = (fst (map_id st r), rename_st phi (snd (map_id st r))) /\ keysP (snd (map_id st r)).
  Proof.
    intros Hr Hk. unfold map_id. cbn [rename_st es_map es_next es_shared].
    rewrite (lookup_rename r (es_map st) Hr Hk).
    destruct (lookup r (es_map st)) as [v|]; cbn [fst snd].
    - split; [reflexivity|exact Hk].
    - split; [reflexivity|]. unfold keysP. cbn [es_map List.map fst]. constructor; assumption.
  Qed.

  (* ---- write_value_xml *)
  Lemma write_value_xml_plain_rn e st pname v : plain v = true -> keysP st ->
    sim (write_value_xml e (rename_st phi st) pname v) (write_value_xml e st pname v).
  Proof.
    intros Hp Hk.
    destruct v as [| | | | | | | | | | | | | | | | | | | | | | | | | | | | | | | | | | | | | | |c]; try discriminate;
      try (cbn [write_value_xml];
           match goal with |- sim (match ?w with _ => _ end) _ => destruct w as [[tag [evs| |k|]]|] end;
           cbn [rbind]; first [apply sim_ok; exact Hk|apply sim_fail; exact I]).
    - (* SharedString *)
      cbn [write_value_xml]. destruct (xe_hash e b) as [h|]; cbn [ask rbind]; [|apply sim_fail; exact I].
      split; [reflexivity|exact Hk].
  Qed.

  Lemma write_value_xml_rn e st pname v : Forall P (value_refs v) -> keysP st ->
    sim (write_value_xml e (rename_st phi st) pname (rename_value phi v)) (write_value_xml e st pname v).
  Proof.
    intros Hv Hk. destruct (plain v) eqn:Hp.
    - rewrite (proj1 (rename_plain phi v Hp)). now apply write_value_xml_plain_rn.
    - destruct v as [| | | | | | | | | | | | | | | | | | | | | | | | | | | | | | | | | | | | | | |c]; try discriminate.
      + (* Ref *)
        cbn [value_refs] in Hv. inversion Hv as [|? ? Hr _]; subst.
        cbn [rename_value write_value_xml]. rewrite (phi_eqb0 r Hr).
        destruct (r =? 0); [apply sim_ok; exact Hk|].
        destruct (map_id_rename st r Hr Hk) as [-> Hk']. destruct (map_id st r) as [id st']. cbn [fst snd] in *.
        apply sim_ok. exact Hk'.
      + (* Content object: todo!() *)
        destruct c; try discriminate. cbn [rename_value write_value_xml write_xml rbind]. apply sim_fail. exact I.
  Qed.

  (* ---- the property step *)
  Definition sprop_rn (sprop : sprop_t) : Prop :=
    forall e beh class keys st k v, keysP st -> Forall P (value_refs v) ->
      sim (sprop e beh class keys (rename_st phi st) k (rename_value phi v)) (sprop e beh class keys st k v).

  Lemma serialize_property_rn : sprop_rn serialize_property.
  Proof.
    intros e beh class keys st k v Hk Hv. unfold serialize_property.
    destruct (match beh with ENoReflection => Ok None | _ => find_desc_xml (xe_db e) (S_ class) (S_ k) end)
      as [[[canon ser]|]| |c|]; cbn [rbind]; try (apply sim_fail; exact I).
    - rewrite try_convert_rename.
      pose proof (try_convert_refs (xe_o e) v (dtype_vt (pd_type ser))) as Hrefs.
      destruct (try_convert (xe_o e) v (dtype_vt (pd_type ser))) as [conv| |c|]; cbn [rbind]; try (apply sim_fail; exact I).
      2:{ destruct (c =? DE_CONVERT); cbn [rbind]; apply sim_fail; exact I. }
      assert (Hc : Forall P (value_refs conv)) by (rewrite (Hrefs conv eq_refl); exact Hv).
      destruct (pd_kind ser) as [[| | |to op]|]; try (now apply write_value_xml_rn).
      destruct (has_explicit_new_value e class k to keys) as [[|]| |c|]; cbn [rbind]; try (apply sim_fail; exact I).
      + apply sim_ok. exact Hk.
      + rewrite migrate_rename. destruct (migrate (xe_font e) (xe_brick e) op conv) as [nv|] eqn:Em; cbn [option_map].
        * apply write_value_xml_rn; [|exact Hk].
          rewrite (proj2 (rename_plain phi nv (migrate_plain _ _ _ _ _ Em))). constructor.
        * now apply write_value_xml_rn.
    - destruct beh; try (now apply write_value_xml_rn); try (apply sim_fail; exact I). apply sim_ok. exact Hk.
  Qed.

  Lemma serialize_property_pinned_rn : sprop_rn serialize_property_pinned.
  Proof.
    intros e beh class keys st k v Hk Hv. unfold serialize_property_pinned.
    destruct (match beh with ENoReflection => Ok None | _ => find_desc_xml (xe_db e) (S_ class) (S_ k) end)
      as [[[canon ser]|]| |c|]; cbn [rbind]; try (apply sim_fail; exact I).
    - rewrite try_convert_rename.
      pose proof (try_convert_refs (xe_o e) v (dtype_vt (pd_type ser))) as Hrefs.
      destruct (try_convert (xe_o e) v (dtype_vt (pd_type ser))) as [conv| |c|]; cbn [rbind]; try (apply sim_fail; exact I).
      2:{ destruct (c =? DE_CONVERT); cbn [rbind]; apply sim_fail; exact I. }
      assert (Hc : Forall P (value_refs conv)) by (rewrite (Hrefs conv eq_refl); exact Hv).
      destruct (pd_kind ser) as [[| | |to op]|]; try (now apply write_value_xml_rn).
      rewrite migrate_rename. destruct (migrate (xe_font e) (xe_brick e) op conv) as [nv|] eqn:Em; cbn [option_map].
      + apply write_value_xml_rn; [|exact Hk].
        rewrite (proj2 (rename_plain phi nv (migrate_plain _ _ _ _ _ Em))). constructor.
      + now apply write_value_xml_rn.
    - destruct beh; try (now apply write_value_xml_rn); try (apply sim_fail; exact I). apply sim_ok. exact Hk.
  Qed.

  (* ---- the properties of one instance *)
  Lemma serialize_properties_with_rn sprop e beh class keys : sprop_rn sprop ->
    forall ps st, keysP st -> Forall P (props_refs ps) ->
      sim (serialize_properties_with sprop e beh class keys (rename_st phi st) (rename_props phi ps))
          (serialize_properties_with sprop e beh class keys st ps).
  Proof.
    intros Hsp ps. induction ps as [|[k v] ps IH]; intros st Hk Hps.
    - apply sim_ok. exact Hk.
    - cbn [props_refs flat_map snd] in Hps. apply Forall_app in Hps. destruct Hps as [Hv Hps].
      cbn [rename_props List.map fst snd serialize_properties_with].
      apply sim_bind; [now apply Hsp|]. intros ev1 st1 Hk1. cbv beta iota.
      apply sim_bind; [now apply IH|]. intros ev2 st2 Hk2. cbv beta iota. apply sim_ok. exact Hk2.
  Qed.

  (* ---- the loops *)
  Lemma seq_with_rn (F' F : estate -> N -> rres) :
    (forall s c, P c -> keysP s -> sim (F' (rename_st phi s) (phi c)) (F s c)) ->
    forall cs s, Forall P cs -> keysP s -> sim (seq_with F' (List.map phi cs) (rename_st phi s)) (seq_with F cs s).
  Proof.
    intros HF cs. induction cs as [|c r IH]; intros s Hcs Hk.
    - apply sim_ok. exact Hk.
    - inversion Hcs as [|? ? Hc Hr]; subst. cbn [List.map seq_with].
      apply sim_bind; [now apply HF|]. intros e1 s1 Hk1. cbv beta iota.
      fold (seq_with F'). fold (seq_with F).
      apply sim_bind; [now apply IH|]. intros e2 s2 Hk2. cbv beta iota. apply sim_ok. exact Hk2.
  Qed.

  (* ---- the DOM *)
  Definition inst_ok (i : inst) : Prop := P (i_ref i) /\ P (i_parent i) /\ Forall P (props_refs (i_props i)).
  Definition dom_ok (d : cdom) : Prop := Forall inst_ok d.

  Lemma find_inst_rename d id : dom_ok d -> P id ->
    find_inst (rename_dom phi d) (phi id) = option_map (rename_inst phi) (find_inst d id).
  Proof.
    intros Hd Hid. induction Hd as [|i d Hi Hd IH]; [reflexivity|].
    cbn [rename_dom List.map find_inst]. unfold rename_inst at 1. cbn [i_ref].
    destruct Hi as (Hr & _). rewrite (phi_eqb _ _ Hr Hid). destruct (i_ref i =? id); [reflexivity|exact IH].
  Qed.

  Lemma children_of_rename d id : dom_ok d -> P id ->
    children_of (rename_dom phi d) (phi id) = List.map phi (children_of d id).
  Proof.
    intros Hd Hid. unfold children_of. induction Hd as [|i d Hi Hd IH]; [reflexivity|].
    cbn [rename_dom List.map filter]. unfold rename_inst at 1. cbn [i_parent].
    destruct Hi as (_ & Hp & _). rewrite (phi_eqb _ _ Hp Hid).
    destruct (i_parent i =? id); cbn [List.map i_ref]; [f_equal|]; exact IH.
  Qed.

  Lemma children_of_ok d id : dom_ok d -> Forall P (children_of d id).
  Proof.
    intros Hd. unfold children_of. induction Hd as [|i d Hi Hd IH]; [constructor|].
    cbn [filter]. destruct (i_parent i =? id); [|exact IH]. cbn [List.map]. constructor; [apply Hi|exact IH].
  Qed.

  Lemma find_inst_ok d id i : dom_ok d -> find_inst d id = Some i -> inst_ok i.
  Proof.
    intros Hd. induction Hd as [|j d Hj Hd IH]; [discriminate|]. cbn [find_inst].
    destruct (i_ref j =? id); [intro H; inversion H; subst; exact Hj|exact IH].
  Qed.

  Lemma bsort_refs_ok (ps : list (bytes * value)) : Forall P (props_refs ps) -> Forall P (props_refs (bsort ps)).
  Proof.
    intro H. rewrite Forall_forall in *. intros r Hr. apply H.
    unfold props_refs in *. apply in_flat_map in Hr. destruct Hr as (kv & Hkv & Hr). apply in_flat_map.
    exists kv. split; [|exact Hr]. eapply Permutation_in; [apply bsort_permutation|exact Hkv].
  Qed.

  Lemma serialize_instance_with_rn sprop e beh d : sprop_rn sprop -> dom_ok d ->
    forall f st id, P id -> keysP st ->
      sim (serialize_instance_with sprop f e beh (rename_dom phi d) (rename_st phi st) (phi id))
          (serialize_instance_with sprop f e beh d st id).
  Proof.
    intros Hsp Hd f. induction f as [|f IH]; intros st id Hid Hk; [apply sim_fail; exact I|].
    rewrite !serialize_instance_with_S. rewrite (find_inst_rename d id Hd Hid).
    destruct (find_inst d id) as [i|] eqn:Ef; cbn [option_map]; [|apply sim_fail; exact I].
    destruct (find_inst_ok d id i Hd Ef) as (_ & _ & Hps).
    destruct (map_id_rename st id Hid Hk) as [-> Hk0]. destruct (map_id st id) as [mapped st0]. cbn [fst snd] in *.
    cbn [rename_inst i_name i_class i_props].
    apply sim_bind; [now apply write_value_xml_plain_rn|]. intros nev st1 Hk1. cbv beta iota zeta.
    unfold rename_props at 1 2. rewrite bsort_map_values, map_fst_map_values. fold (rename_props phi (bsort (i_props i))).
    apply sim_bind; [apply serialize_properties_with_rn; [exact Hsp|exact Hk1|now apply bsort_refs_ok]|].
    intros pev st2 Hk2. cbv beta iota.
    rewrite (children_of_rename d id Hd Hid).
    apply sim_bind; [apply seq_with_rn; [intros s c Hc Hs; now apply IH|now apply children_of_ok|exact Hk2]|].
    intros cev st3 Hk3. cbv beta iota. apply sim_ok. exact Hk3.
  Qed.

  Lemma rename_dom_length d : List.length (rename_dom phi d) = List.length d.
  Proof. apply map_length. Qed.

  Theorem xml_encode_with_rn sprop e beh d roots : sprop_rn sprop -> dom_ok d -> Forall P roots ->
    xml_encode_with sprop e beh (rename_dom phi d) (List.map phi roots) = xml_encode_with sprop e beh d roots.
  Proof.
    intros Hsp Hd Hroots. rewrite !xml_encode_with_eq, rename_dom_length.
    assert (Hs : sim (seq_with (serialize_instance_with sprop (S (List.length d)) e beh (rename_dom phi d)) (List.map phi roots) (rename_st phi es0))
                     (seq_with (serialize_instance_with sprop (S (List.length d)) e beh d) roots es0)).
    { apply seq_with_rn; [intros s c Hc Hk; now apply serialize_instance_with_rn|exact Hroots|constructor]. }
    change (rename_st phi es0) with es0 in Hs. destruct Hs as [-> _].
    destruct (seq_with (serialize_instance_with sprop (S (List.length d)) e beh d) roots es0) as [[body st]| |c|];
      reflexivity.
  Qed.
End Rename.

(* ---- the statement about documents *)
Definition injective_on (R : list N) (phi : N -> N) : Prop := forall a b, In a R -> In b R -> phi a = phi b -> a = b.

Lemma dom_ok_refs d roots : dom_ok (fun r => In r (dom_refs d roots)) d.
Proof.
  unfold dom_ok. apply Forall_forall. intros i Hi.
  assert (Hsub : forall r, In r (inst_refs i) -> In r (dom_refs d roots)).
  { intros r Hr. unfold dom_refs. right. apply in_or_app. right. apply in_flat_map. exists i. split; assumption. }
  repeat split.
  - apply Hsub. left. reflexivity.
  - apply Hsub. right. left. reflexivity.
  - apply Forall_forall. intros r Hr. apply Hsub. right. right. exact Hr.
Qed.

(* the document does not depend on the Ref values: for every property step that follows a renaming, ... *)
Theorem xml_encode_with_rename (sprop : sprop_t) (phi : N -> N) e beh d roots :
  (forall P : N -> Prop, P 0 -> (forall a b, P a -> P b -> phi a = phi b -> a = b) -> sprop_rn phi P sprop) -> injective_on (dom_refs d roots) phi ->
  xml_encode_with sprop e beh (rename_dom phi d) (List.map phi roots) = xml_encode_with sprop e beh d roots.
Proof.
  intros Hsp Hinj.
  assert (HP0 : In 0 (dom_refs d roots)) by (left; reflexivity).
  apply (xml_encode_with_rn phi (fun r => In r (dom_refs d roots)) Hinj).
  - apply Hsp; assumption.
  - apply dom_ok_refs.
  - apply Forall_forall. intros r Hr. unfold dom_refs. right. apply in_or_app. left. exact Hr.
Qed.

(* ... in particular for the serializer as it is, and as it was before 62703803 *)
Theorem xml_encode_rename phi e beh d roots :
  phi 0 = 0 -> injective_on (dom_refs d roots) phi ->
  xml_encode e beh (rename_dom phi d) (List.map phi roots) = xml_encode e beh d roots.
Proof. intro H0. apply xml_encode_with_rename. intros P HP0 Hinj. now apply serialize_property_rn. Qed.

Theorem xml_encode_pinned_rename phi e beh d roots :
  phi 0 = 0 -> injective_on (dom_refs d roots) phi ->
  xml_encode_pinned e beh (rename_dom phi d) (List.map phi roots) = xml_encode_pinned e beh d roots.
Proof. intro H0. apply xml_encode_with_rename. intros P HP0 Hinj. now apply serialize_property_pinned_rn. Qed.
Print Assumptions xml_encode_rename.

(* ================================================================= (4) a function of the content alone *)
Lemma props_permuted_refs d d' roots : props_permuted d d' -> forall r, In r (dom_refs d' roots) -> In r (dom_refs d roots).
Proof.
  intros Hd r. unfold dom_refs. cbn [In]. intros [H|H]; [left; exact H|right].
  apply in_app_or in H. apply in_or_app. destruct H as [H|H]; [left; exact H|right].
  induction Hd as [|i i' d d' Hi Hd IH]; [exact H|].
  cbn [flat_map] in *. apply in_app_or in H. apply in_or_app. destruct H as [H|H]; [left|right; now apply IH].
  destruct Hi as (Hr & Hp & _ & _ & Hperm & _). unfold inst_refs in *. rewrite Hr, Hp in H.
  destruct H as [H|[H|H]]; [left; exact H|right; left; exact H|right; right].
  unfold props_refs in *. apply in_flat_map in H. destruct H as (kv & Hkv & H). apply in_flat_map.
  exists kv. split; [|exact H]. eapply Permutation_in; [apply Permutation_sym, Hperm|exact Hkv].
Qed.

(* rebuilding the same tree with other referent values and another insertion order of the properties gives the same
   document: [d'] lists each instance's properties in another order and [phi] renames the refs *)
Theorem xml_encode_function_of_content phi e beh d d' roots :
  props_permuted d d' -> phi 0 = 0 -> injective_on (dom_refs d roots) phi ->
  xml_encode e beh (rename_dom phi d') (List.map phi roots) = xml_encode e beh d roots.
Proof.
  intros Hd H0 Hinj. rewrite xml_encode_rename; [now apply xml_encode_props_order|exact H0|].
  intros a b Ha Hb. apply Hinj; now apply (props_permuted_refs d d' roots Hd).
Qed.
Print Assumptions xml_encode_function_of_content.

(* ---- non-vacuity and the need for the hypotheses *)
Definition phi_ex (r : N) : N := if r =? 7 then 100 else if r =? 9 then 3 else r.

Example phi_ex_injective : phi_ex 0 = 0 /\ injective_on (dom_refs d_abc [7]) phi_ex.
Proof.
  split; [reflexivity|]. intros a b Ha Hb.
  cbn in Ha, Hb.
  repeat (destruct Ha as [<-|Ha]; [repeat (destruct Hb as [<-|Hb]; [vm_compute; intro; first [reflexivity|discriminate]|]); contradiction|]).
  contradiction.
Qed.

Example xml_encode_function_of_content_ex :
  rename_dom phi_ex d_cab =
    [mkInst 100 0 (B "Folder") (B "f") [(B "Mid", VRef 3); (B "Zeta", VInt32 1%Z); (B "Alpha", VBool true)];
     mkInst 3 100 (B "Part") (B "p") [(B "A", VRef 100); (B "B", VString (B "x"))]] /\
  xml_encode e0 EWriteUnknown (rename_dom phi_ex d_cab) (List.map phi_ex [7]) = xml_encode e0 EWriteUnknown d_abc [7].
Proof.
  split; [reflexivity|].
  apply xml_encode_function_of_content; [exact props_permuted_abc|exact (proj1 phi_ex_injective)|exact (proj2 phi_ex_injective)].
Qed.

(* a renaming that identifies two refs, or sends a ref to null, changes the document *)
Example rename_needs_injectivity :
  xml_encode e0 EWriteUnknown (rename_dom (fun r => if r =? 9 then 7 else r) d_abc) [7] <> xml_encode e0 EWriteUnknown d_abc [7].
Proof. vm_compute. discriminate. Qed.
Example rename_needs_null_fixed :
  let d := [mkInst 1 0 (B "Folder") (B "f") [(B "R", VRef 0)]] in
  xml_encode e0 EWriteUnknown (rename_dom (fun r => r + 1) d) [2] <> xml_encode e0 EWriteUnknown d [1].
Proof. vm_compute. discriminate. Qed.

(* the recorded finding, as it shows here: a Ref to an instance that is not written (or does not exist) is given the
   next referent number, which no Item of the document carries; the renaming theorem covers such refs as well *)
Example dangling_ref_gets_a_number_no_item_carries :
  xml_encode e0 EWriteUnknown [mkInst 1 0 (B "Folder") (B "f") [(B "R", VRef 5)]] [1]
  = Ok [WStart (B "roblox") [(B "version", B "4")];
        WStart (B "Item") [(B "class", B "Folder"); (B "referent", B "0")];
        WStart (B "Properties") [];
        WStart (B "string") [(B "name", B "Name")]; WChars (B "f"); WEnd;
        WStart (B "Ref") [(B "name", B "R")]; WChars (B "1"); WEnd;
        WEnd; WEnd; WEnd].
Proof. vm_compute. reflexivity. Qed.

(* ================================================================= (5, continued) every dictionary a run reaches is sorted *)
(* the hypothesis `StronglySorted klt m` of the commutation theorems holds of every [es_shared] the serializer can reach *)
Definition shared_sorted (st : estate) : Prop := StronglySorted klt (es_shared st).
Definition res_sorted (r : res (list wevent * estate)) : Prop := match r with Ok (_, st) => shared_sorted st | _ => True end.

Lemma res_sorted_bind (r : res (list wevent * estate)) (k : list wevent * estate -> res (list wevent * estate)) :
  res_sorted r -> (forall ev st, shared_sorted st -> res_sorted (k (ev, st))) -> res_sorted (rbind r k).
Proof. intros Hr Hk. destruct r as [[ev st]| |c|]; cbn [rbind]; try exact I. now apply Hk. Qed.

Lemma map_id_shared st r : es_shared (snd (map_id st r)) = es_shared st.
Proof. unfold map_id. destruct (lookup r (es_map st)); reflexivity. Qed.

Lemma write_value_xml_sorted e st pname v : shared_sorted st -> res_sorted (write_value_xml e st pname v).
Proof.
  intro Hs.
  destruct v; try (cbn [write_value_xml];
                   match goal with |- res_sorted (match write_xml ?o ?x with _ => _ end) => destruct (write_xml o x) as [[tag [evs| |k|]]|] end;
                   cbn [rbind res_sorted]; first [exact Hs|exact I]).
  - cbn [write_value_xml]. destruct (r =? 0); [exact Hs|].
    pose proof (map_id_shared st r) as H. destruct (map_id st r) as [id st']. cbn [snd] in H.
    unfold res_sorted, shared_sorted. rewrite H. exact Hs.
  - cbn [write_value_xml]. destruct (xe_hash e b) as [h|]; cbn [ask rbind]; [|exact I].
    unfold res_sorted, shared_sorted. cbn [es_shared]. now apply shared_insert_sorted.
Qed.

Definition sprop_sorted (sprop : sprop_t) : Prop :=
  forall e beh class keys st k v, shared_sorted st -> res_sorted (sprop e beh class keys st k v).

Lemma serialize_property_sorted : sprop_sorted serialize_property.
Proof.
  intros e beh class keys st k v Hs. unfold serialize_property.
  destruct (match beh with ENoReflection => Ok None | _ => find_desc_xml (xe_db e) (S_ class) (S_ k) end)
    as [[[canon ser]|]| |c|]; cbn [rbind]; try exact I.
  - destruct (try_convert (xe_o e) v (dtype_vt (pd_type ser))) as [conv| |c|]; cbn [rbind]; try exact I.
    2:{ destruct (c =? DE_CONVERT); exact I. }
    destruct (pd_kind ser) as [[| | |to op]|]; try (now apply write_value_xml_sorted).
    destruct (has_explicit_new_value e class k to keys) as [[|]| |c|]; cbn [rbind]; try exact I; [exact Hs|].
    destruct (migrate (xe_font e) (xe_brick e) op conv); now apply write_value_xml_sorted.
  - destruct beh; try (now apply write_value_xml_sorted); try exact I. exact Hs.
Qed.

Lemma serialize_properties_with_sorted sprop e beh class keys : sprop_sorted sprop ->
  forall ps st, shared_sorted st -> res_sorted (serialize_properties_with sprop e beh class keys st ps).
Proof.
  intros Hsp ps. induction ps as [|[k v] ps IH]; intros st Hs; [exact Hs|].
  cbn [serialize_properties_with]. apply res_sorted_bind; [now apply Hsp|]. intros ev1 st1 Hs1. cbv beta iota.
  apply res_sorted_bind; [now apply IH|]. intros ev2 st2 Hs2. exact Hs2.
Qed.

Lemma seq_with_sorted F : (forall s c, shared_sorted s -> res_sorted (F s c)) ->
  forall cs s, shared_sorted s -> res_sorted (seq_with F cs s).
Proof.
  intros HF cs. induction cs as [|c r IH]; intros s Hs; [exact Hs|].
  cbn [seq_with]. apply res_sorted_bind; [now apply HF|]. intros e1 s1 Hs1. cbv beta iota. fold (seq_with F).
  apply res_sorted_bind; [now apply IH|]. intros e2 s2 Hs2. exact Hs2.
Qed.

Lemma serialize_instance_with_sorted sprop e beh d : sprop_sorted sprop ->
  forall f st id, shared_sorted st -> res_sorted (serialize_instance_with sprop f e beh d st id).
Proof.
  intros Hsp f. induction f as [|f IH]; intros st id Hs; [exact I|].
  rewrite serialize_instance_with_S. destruct (find_inst d id) as [i|]; [|exact I].
  pose proof (map_id_shared st id) as H. destruct (map_id st id) as [mapped st0]. cbn [snd] in H.
  assert (Hs0 : shared_sorted st0) by (unfold shared_sorted; rewrite H; exact Hs).
  apply res_sorted_bind; [now apply write_value_xml_sorted|]. intros nev st1 Hs1. cbv beta iota zeta.
  apply res_sorted_bind; [now apply serialize_properties_with_sorted|]. intros pev st2 Hs2. cbv beta iota.
  apply res_sorted_bind; [apply seq_with_sorted; [intros s c; apply IH|exact Hs2]|]. intros cev st3 Hs3. exact Hs3.
Qed.

(* the state the root loop of [xml_encode] ends in, whose dictionary [serialize_shared_strings] writes, is sorted by hash:
   the SharedStrings element lists the shared strings in the byte order of their hashes, each hash once *)
Theorem xml_encode_dictionary_sorted e beh d roots body st :
  seq_with (serialize_instance (S (List.length d)) e beh d) roots es0 = Ok (body, st) ->
  StronglySorted klt (es_shared st).
Proof.
  intro H.
  assert (Hr : res_sorted (seq_with (serialize_instance (S (List.length d)) e beh d) roots es0)).
  { apply seq_with_sorted; [|constructor]. intros s c. apply serialize_instance_with_sorted, serialize_property_sorted. }
  rewrite H in Hr. exact Hr.
Qed.
Print Assumptions xml_encode_dictionary_sorted.

(* why [rename_value] does not descend into Attributes maps: an attribute of type Ref (or Content) is refused by the
   attribute writer whatever the ref is, so such a ref cannot reach the output *)
Example attribute_ref_refused name r r' : Attr.write_entry (name, VRef r) = Attr.write_entry (name, VRef r')
  /\ Attr.write_entry (name, VContent (CObject r)) = Attr.write_entry (name, VContent (CObject r'))
  /\ exists c, Attr.write_entry (name, VRef r) = Err c.
Proof. split; [reflexivity|]. split; [reflexivity|]. eexists. vm_compute. reflexivity. Qed.

(* EXPORT:
     bltb_irrefl bltb_trans bltb_asym bltb_total bltb_trichotomy         (the byte order of names is a strict total order)
     bsort_permutation bsort_sorted_weak bsort_sorted bsort_perm          (1)
     xml_encode_with_props_order xml_encode_props_order                   (2)   example: xml_encode_props_order_abc
     xml_encode_with_rename xml_encode_rename xml_encode_pinned_rename    (3)   examples: xml_encode_function_of_content_ex,
                                                                                rename_needs_injectivity, rename_needs_null_fixed,
                                                                                dangling_ref_gets_a_number_no_item_carries
     xml_encode_function_of_content                                       (4)
     shared_insert_sorted shared_insert_comm shared_insert_same_hash shared_insert_comm_content
     shared_of_set shared_of_perm shared_strings_element_of_set xml_encode_dictionary_sorted     (5)
                                                                                examples: shared_of_set_example,
                                                                                shared_of_collision_order_matters *)
