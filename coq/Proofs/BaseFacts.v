(* BaseFacts.v — lemmas about the association-list maps and sets of Model/Base.v.
   Everything later is proved through these characterisations only. *)
From RbxVerif Require Import Base.
From Coq Require Import Lia.

Lemma lookup_remove_eq {V} k (m : map V) : lookup k (remove k m) = None.
Proof.
  induction m as [|[k' v] m IH]; cbn; [reflexivity|].
  destruct (N.eqb k k') eqn:E; [exact IH|]. cbn. rewrite E. exact IH.
Qed.

Lemma lookup_remove_neq {V} k k' (m : map V) : k' <> k -> lookup k' (remove k m) = lookup k' m.
Proof.
  intros Hne. induction m as [|[k0 v] m IH]; cbn; [reflexivity|].
  destruct (N.eqb k k0) eqn:E.
  - apply N.eqb_eq in E. subst k0.
    destruct (N.eqb k' k) eqn:E2; [apply N.eqb_eq in E2; contradiction|exact IH].
  - cbn. destruct (N.eqb k' k0); [reflexivity|exact IH].
Qed.

Lemma lookup_upd_eq {V} k (v : V) m : lookup k (upd k v m) = Some v.
Proof. unfold upd. cbn. now rewrite N.eqb_refl. Qed.

Lemma lookup_upd_neq {V} k k' (v : V) m : k' <> k -> lookup k' (upd k v m) = lookup k' m.
Proof.
  intros Hne. unfold upd. cbn.
  destruct (N.eqb k' k) eqn:E; [apply N.eqb_eq in E; contradiction|].
  now apply lookup_remove_neq.
Qed.

Lemma lookup_upd {V} k k' (v : V) m :
  lookup k' (upd k v m) = if N.eqb k' k then Some v else lookup k' m.
Proof.
  destruct (N.eqb k' k) eqn:E.
  - apply N.eqb_eq in E. subst. apply lookup_upd_eq.
  - apply N.eqb_neq in E. now apply lookup_upd_neq.
Qed.

Lemma lookup_remove {V} k k' (m : map V) :
  lookup k' (remove k m) = if N.eqb k' k then None else lookup k' m.
Proof.
  destruct (N.eqb k' k) eqn:E.
  - apply N.eqb_eq in E. subst. apply lookup_remove_eq.
  - apply N.eqb_neq in E. now apply lookup_remove_neq.
Qed.

Lemma mem_In x s : mem x s = true <-> In x s.
Proof.
  induction s as [|y s IH]; cbn; [split; [discriminate|contradiction]|].
  destruct (N.eqb x y) eqn:E.
  - apply N.eqb_eq in E. subst. split; auto.
  - apply N.eqb_neq in E. rewrite IH. split; [auto|intros [H|H]; [congruence|exact H]].
Qed.

Lemma mem_false_In x s : mem x s = false <-> ~ In x s.
Proof. rewrite <- mem_In. destruct (mem x s); split; congruence. Qed.

Lemma mem_sadd x y s : mem x (sadd y s) = (N.eqb x y || mem x s)%bool.
Proof.
  unfold sadd. destruct (mem y s) eqn:E.
  - destruct (N.eqb x y) eqn:E2; [apply N.eqb_eq in E2; subst; now rewrite E|reflexivity].
  - cbn. destruct (N.eqb x y); reflexivity.
Qed.

Lemma mem_sremove x y s : mem x (sremove y s) = (negb (N.eqb x y) && mem x s)%bool.
Proof.
  induction s as [|z s IH]; cbn; [now rewrite andb_false_r|].
  destruct (N.eqb y z) eqn:E.
  - apply N.eqb_eq in E. subst z. rewrite IH. destruct (N.eqb x y); reflexivity.
  - cbn. rewrite IH. destruct (N.eqb x z) eqn:E2; [|reflexivity].
    apply N.eqb_eq in E2. subst z. destruct (N.eqb x y) eqn:E3; [|reflexivity].
    apply N.eqb_eq in E3. subst. now rewrite N.eqb_refl in E.
Qed.

Lemma lookup_In {V} k (v : V) m : lookup k m = Some v -> In (k, v) m.
Proof.
  induction m as [|[k' v'] m IH]; cbn; [discriminate|].
  destruct (N.eqb k k') eqn:E.
  - apply N.eqb_eq in E. intros [= ->]. subst. now left.
  - intros H. right. now apply IH.
Qed.

Lemma lookup_None_notin {V} k (m : map V) : lookup k m = None <-> ~ In k (keys m).
Proof.
  induction m as [|[k' v'] m IH]; cbn; [tauto|].
  destruct (N.eqb k k') eqn:E.
  - apply N.eqb_eq in E. subst. split; [discriminate|intros H; exfalso; apply H; now left].
  - apply N.eqb_neq in E. rewrite IH. split; [intros H [H1|H1]; [congruence|auto]|tauto].
Qed.

Lemma lookup_app {V} k (m1 m2 : map V) :
  lookup k (m1 ++ m2) = match lookup k m1 with Some v => Some v | None => lookup k m2 end.
Proof.
  induction m1 as [|[k' v'] m1 IH]; cbn; [reflexivity|].
  destruct (N.eqb k k'); [reflexivity|exact IH].
Qed.
