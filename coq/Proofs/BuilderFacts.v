(* BuilderFacts.v — what any script over the InstanceBuilder API builds: the children are the
   children given, in script order, whatever the mix of one-at-a-time and batch entry points and
   whatever the builder already held; likewise the property list; name, class and referent are the
   last ones set. *)
From RbxVerif Require Import Base Dom Builder.

Lemma brun_app b o1 o2 : brun b (o1 ++ o2) = brun (brun b o1) o2.
Proof. unfold brun. apply fold_left_app. Qed.

Lemma brun_kids : forall ops b, b_kids (brun b ops) = b_kids b ++ flat_map op_kids ops.
Proof.
  induction ops as [|o ops IH]; intros b; cbn [brun fold_left flat_map].
  - now rewrite app_nil_r.
  - change (fold_left bapply ops (bapply b o)) with (brun (bapply b o) ops). rewrite IH.
    destruct b as [r n c ps ks]; destruct o; cbn [bapply b_kids op_kids]; rewrite <- ?app_assoc; reflexivity.
Qed.

Lemma brun_props : forall ops b, b_props (brun b ops) = b_props b ++ flat_map op_props ops.
Proof.
  induction ops as [|o ops IH]; intros b; cbn [brun fold_left flat_map].
  - now rewrite app_nil_r.
  - change (fold_left bapply ops (bapply b o)) with (brun (bapply b o) ops). rewrite IH.
    destruct b as [r n c ps ks]; destruct o; cbn [bapply b_props op_props]; rewrite <- ?app_assoc; reflexivity.
Qed.

Lemma brun_name : forall ops b, b_name (brun b ops) = last_some (List.map op_name ops) (b_name b).
Proof.
  induction ops as [|o ops IH]; intros b; cbn [brun fold_left List.map last_some]; [reflexivity|].
  change (fold_left bapply ops (bapply b o)) with (brun (bapply b o) ops). rewrite IH.
  destruct b as [r n c ps ks]; destruct o; reflexivity.
Qed.

Lemma brun_class : forall ops b, b_class (brun b ops) = last_some (List.map op_class ops) (b_class b).
Proof.
  induction ops as [|o ops IH]; intros b; cbn [brun fold_left List.map last_some]; [reflexivity|].
  change (fold_left bapply ops (bapply b o)) with (brun (bapply b o) ops). rewrite IH.
  destruct b as [r n c ps ks]; destruct o; reflexivity.
Qed.

Lemma brun_ref : forall ops b, b_ref (brun b ops) = last_some (List.map op_ref ops) (b_ref b).
Proof.
  induction ops as [|o ops IH]; intros b; cbn [brun fold_left List.map last_some]; [reflexivity|].
  change (fold_left bapply ops (bapply b o)) with (brun (bapply b o) ops). rewrite IH.
  destruct b as [r n c ps ks]; destruct o; reflexivity.
Qed.

Lemma btree_eta b : b = BNode (b_ref b) (b_name b) (b_class b) (b_props b) (b_kids b).
Proof. now destruct b. Qed.

(* Scripts that hand over the same children (properties) in the same order build the same builder,
   however they group them and whichever entry points they use. *)
Theorem brun_grouping_irrelevant b ops ops' :
  flat_map op_kids ops = flat_map op_kids ops' ->
  flat_map op_props ops = flat_map op_props ops' ->
  last_some (List.map op_name ops) (b_name b) = last_some (List.map op_name ops') (b_name b) ->
  last_some (List.map op_class ops) (b_class b) = last_some (List.map op_class ops') (b_class b) ->
  last_some (List.map op_ref ops) (b_ref b) = last_some (List.map op_ref ops') (b_ref b) ->
  brun b ops = brun b ops'.
Proof.
  intros Hk Hp Hn Hc Hr.
  rewrite (btree_eta (brun b ops)), (btree_eta (brun b ops')).
  now rewrite !brun_kids, !brun_props, !brun_name, !brun_class, !brun_ref, Hk, Hp, Hn, Hc, Hr.
Qed.

Lemma fm_kids_props g : flat_map op_kids (List.map OProps g) = [].
Proof. induction g as [|x g IH]; cbn [List.map flat_map op_kids app]; [reflexivity|exact IH]. Qed.
Lemma fm_kids_children g : flat_map op_kids (List.map OChildren g) = concat g.
Proof. induction g as [|x g IH]; cbn [List.map flat_map op_kids concat]; [reflexivity| now rewrite IH]. Qed.
Lemma fm_props_props g : flat_map op_props (List.map OProps g) = concat g.
Proof. induction g as [|x g IH]; cbn [List.map flat_map op_props concat]; [reflexivity| now rewrite IH]. Qed.
Lemma fm_props_children g : flat_map op_props (List.map OChildren g) = [].
Proof. induction g as [|x g IH]; cbn [List.map flat_map op_props app]; [reflexivity|exact IH]. Qed.

(* The harness' mix: a fresh builder, referent, name, then the properties and the children handed
   over in arbitrary groups, describes exactly the intended node. *)
Theorem brun_builds r c nm0 n (pgroups : list (list (N * pval))) (kgroups : list (list btree)) :
  brun (bnew r c nm0) (OName n :: List.map OProps pgroups ++ List.map OChildren kgroups)
  = BNode r n c (concat pgroups) (concat kgroups).
Proof.
  rewrite (btree_eta (brun _ _)).
  rewrite brun_kids, brun_props, brun_name, brun_class, brun_ref.
  cbn [bnew b_kids b_props b_name b_class b_ref List.map flat_map op_kids op_props op_name op_class op_ref last_some app].
  rewrite !map_app, !flat_map_app, !map_map.
  assert (Hn : forall (A : Type) (f : bop -> option A) (g1 : list (list (N * pval))) (g2 : list (list btree)) (d : A),
             (forall l, f (OProps l) = None) -> (forall l, f (OChildren l) = None) ->
             last_some (List.map (fun x => f (OProps x)) g1 ++ List.map (fun x => f (OChildren x)) g2) d = d).
  { intros A f g1 g2 d H1 H2. induction g1 as [|g g1 IH]; cbn [List.map app last_some].
    - induction g2 as [|g g2 IH2]; cbn [List.map last_some]; [reflexivity| now rewrite H2].
    - now rewrite H1. }
  rewrite (Hn _ op_name), (Hn _ op_class), (Hn _ op_ref) by reflexivity.
  now rewrite fm_kids_props, fm_kids_children, fm_props_props, fm_props_children, app_nil_r.
Qed.

(* with_children on a builder that already has children appends behind them *)
Corollary with_children_appends b l : b_kids (bapply b (OChildren l)) = b_kids b ++ l.
Proof. destruct b; reflexivity. Qed.
Corollary with_child_appends b x : b_kids (bapply b (OChild x)) = b_kids b ++ [x].
Proof. destruct b; reflexivity. Qed.
Corollary children_batch_is_singles b l :
  bapply b (OChildren l) = brun b (List.map OChild l).
Proof.
  rewrite (btree_eta (brun _ _)), brun_kids, brun_props, brun_name, brun_class, brun_ref.
  assert (H1 : flat_map op_kids (List.map OChild l) = l) by (induction l as [|x l IH]; cbn [List.map flat_map op_kids app]; [|rewrite IH]; reflexivity).
  assert (H2 : flat_map op_props (List.map OChild l) = []) by (clear H1; induction l as [|x l IH]; cbn [List.map flat_map op_props app]; [reflexivity|exact IH]).
  assert (H3 : forall A (f : bop -> option A) d, (forall x, f (OChild x) = None) -> last_some (List.map f (List.map OChild l)) d = d).
  { clear H1 H2. intros A f d H. induction l as [|x l IH]; cbn [List.map last_some]; [reflexivity| now rewrite H]. }
  rewrite H1, H2, app_nil_r, (H3 _ op_name), (H3 _ op_class), (H3 _ op_ref) by reflexivity.
  destruct b; reflexivity.
Qed.
